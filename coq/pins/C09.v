Check (C09_refuted_on_the_model : exists file cls, c09_run = Some (file, cls) /\ cls = [COk; COk; COk; COk] /\ check_C09 c09_builder c09_ops cls file = false).
Check (C09_holds_when_starts_coincide_example : match build c09_builder [] with
  | inl m0 => let '(m, rs) := run m0 c09_ops_aligned in check_C09 c09_builder c09_ops_aligned [COk; COk; COk; COk] (sink_of m) = true
  | inr _ => False end).
