Open Scope N_scope.
Check (C09_refuted_on_the_model : (exists file cls, c09_run = Some (file, cls) /\
                   cls = [COk; COk; COk; COk] /\
                   check_C09 c09_builder c09_ops cls file = false)%type).
Check (C09_holds_when_starts_coincide_example : (match build c09_builder [] with
  | inl m0 => let '(m, rs) := run m0 c09_ops_aligned in
              check_C09 c09_builder c09_ops_aligned [COk; COk; COk; COk] (sink_of m) = true
  | inr _ => False
  end)%type).
Check (C09_sync_preserved_when_starts_coincide : (forall b m0 ops m rs s,
  build b [] = inl m0 -> run m0 ops = (m, rs) -> In (RStats s) rs ->
  Forall op_payload_ok ops -> len (sink_of m) < 4294967296 ->
  sumN (durations_of (asamples (m_writer m)) (w_alast_delta (m_writer m))) < 4294967296 ->
  starts_aligned (accepted b ops (map class_of rs)) ->
  check_C09 b ops (map class_of rs) (sink_of m) = true)%type).
