Check (C06_only_finish_touches_the_sink : forall m o, o <> FIN ->
  w_sink (m_writer (fst (step m o))) = w_sink (m_writer m) /\
  w_bytes_written (m_writer (fst (step m o))) = w_bytes_written (m_writer m) /\
  w_finalized (m_writer (fst (step m o))) = w_finalized (m_writer m) /\
  m_finished (fst (step m o)) = m_finished m).
Check (C06_nothing_written_before_finish : forall b m0 ops, build b [] = inl m0 -> Forall (fun o => o <> FIN) ops -> sink_bytes (w_sink (m_writer (fst (run m0 ops)))) = []).
Check (C06_successful_finish_finishes : forall m s m', step m FIN = (m', RStats s) -> m_finished m' = true /\ w_finalized (m_writer m') = true).
Check (C06_after_finish_every_call_is_rejected_and_changes_nothing : forall m, m_finished m = true -> w_finalized (m_writer m) = true -> forall o, exists e, step m o = (m, RErr e)).
Check (C06_stats_count_frames_and_bytes : forall m s m', step m FIN = (m', RStats s) ->
  st_video_frames s = len (w_vrev (m_writer m)) /\ st_audio_frames s = len (w_arev (m_writer m)) /\
  st_bytes s = w_bytes_written (m_writer m') /\
  w_vrev (m_writer m') = w_vrev (m_writer m) /\ w_arev (m_writer m') = w_arev (m_writer m)).
Check (C06_reported_bytes_are_the_delivered_bytes : forall b m0 ops, build b [] = inl m0 ->
  (len (sink_bytes (w_sink (m_writer (fst (run m0 ops))))) < 18446744073709551616)%N ->
  w_bytes_written (m_writer (fst (run m0 ops))) = len (sink_bytes (w_sink (m_writer (fst (run m0 ops)))))).
