Open Scope N_scope.
Check (C06_only_finish_touches_the_sink : (forall m o, o <> FIN ->
  w_sink (m_writer (fst (step m o))) = w_sink (m_writer m) /\
  w_bytes_written (m_writer (fst (step m o))) = w_bytes_written (m_writer m) /\
  w_finalized (m_writer (fst (step m o))) = w_finalized (m_writer m) /\
  m_finished (fst (step m o)) = m_finished m)%type).
Check (C06_nothing_written_before_finish : (forall b m0 ops,
  build b [] = inl m0 -> Forall (fun o => o <> FIN) ops ->
  sink_bytes (w_sink (m_writer (fst (run m0 ops)))) = [])%type).
Check (C06_successful_finish_finishes : (forall m s m',
  step m FIN = (m', RStats s) -> m_finished m' = true /\ w_finalized (m_writer m') = true)%type).
Check (C06_after_finish_every_call_is_rejected_and_changes_nothing : (forall m,
  m_finished m = true -> w_finalized (m_writer m) = true ->
  forall o, exists e, step m o = (m, RErr e))%type).
Check (C06_stats_count_frames_and_bytes : (forall m s m',
  step m FIN = (m', RStats s) ->
  st_video_frames s = len (w_vrev (m_writer m)) /\
  st_audio_frames s = len (w_arev (m_writer m)) /\
  st_bytes s = w_bytes_written (m_writer m') /\
  w_vrev (m_writer m') = w_vrev (m_writer m) /\ w_arev (m_writer m') = w_arev (m_writer m))%type).
Check (C06_reported_bytes_are_the_delivered_bytes : (forall b m0 ops,
  build b [] = inl m0 ->
  len (sink_bytes (w_sink (m_writer (fst (run m0 ops))))) < 18446744073709551616 ->
  w_bytes_written (m_writer (fst (run m0 ops))) = len (sink_bytes (w_sink (m_writer (fst (run m0 ops))))))%type).
Check (C06_duration_ticks_are_the_largest_presentation_end : (forall w,
  max_end_pts w =
    match map (sample_end (w_vlast_delta w)) (w_vrev w) ++ map (sample_end (w_alast_delta w)) (w_arev w) with
    | [] => None
    | l => Some (fold_right N.max 0 l)
    end)%type).
Check (C06_reported_duration_is_that_tick_count_over_90000 : (forall m s m',
  step m FIN = (m', RStats s) ->
  st_duration s = fdiv (of_N (match max_end_pts (m_writer m) with Some t => t | None => 0 end)) f_90000)%type).
Check (C06_nothing_is_written_after_finalization : (forall m ops,
  w_finalized (m_writer m) = true -> sink_of (fst (run m ops)) = sink_of m)%type).
Check (C06_duration_roundtrip : (forall n : N, n < 2251799813685248 -> tick (fdiv (of_N n) f_90000) = n)%type).
Check (C06_history_accounts_for_everything : (forall b m0 ops m rs,
  build b [] = inl m0 -> run m0 ops = (m, rs) ->
  Forall op_payload_ok ops ->
  len (sink_of m) < 18446744073709551616 ->
  (first_stats rs <> None -> expected_max_end (accepted b ops (map class_of rs)) < 2251799813685248) ->
  check_C06 b ops (map class_of rs) (run_lens m0 ops) (first_stats rs) true = true)%type).
Check (C06_history_accounts_for_everything_any_sink : (forall b script m0 ops m rs,
  build b script = inl m0 -> run m0 ops = (m, rs) ->
  Forall op_payload_ok ops ->
  (first_stats rs <> None -> expected_max_end (accepted b ops (map class_of rs)) < 2251799813685248) ->
  check_C06 b ops (map class_of rs) (run_lens m0 ops) (first_stats rs) false = true)%type).
Check (C06_duration_clause_unsatisfiable_beyond_2p51_refuted : (exists b m0 ops m rs,
    build b [] = inl m0 /\ run m0 ops = (m, rs) /\ Forall op_payload_ok ops /\
    (forall p, ~ In (RPanic p) rs) /\ len (sink_of m) < 4294967296 /\
    check_C06 b ops (map class_of rs) (run_lens m0 ops) (first_stats rs) true = false)%type).
