Check (C14_length_prefixed_units_parse_back : forall nals, Forall (fun n => (len n < 4294967296)%N) nals -> parse_len4 (len_prefixed nals) = Some nals).
