Check (C14_iterator_is_declarative_split : forall d : bytes, nal_iter d = spec_units d).
Check (C14_annexb_to_avcc_exact : forall d : bytes, (len d < 4294967296)%N -> check_reframe d (annexb_to_avcc d) = true).
Check (C14_hevc_annexb_to_hvcc_exact : forall d : bytes, (len d < 4294967296)%N -> check_reframe d (hevc_annexb_to_hvcc d) = true).
Check (C14_length_prefixed_units_parse_back : forall nals, Forall (fun n => (len n < 4294967296)%N) nals -> parse_len4 (len_prefixed nals) = Some nals).
Check (C14_adts_decision_and_payload : forall f : bytes, bytes_ok f = true -> match adts_to_raw f with AdtsOk raw => spec_adts_payload f = Some raw | AdtsErr _ => spec_adts_payload f = None end).
Check (C14_adts_payload_is_the_declared_slice : forall f raw, bytes_ok f = true -> adts_to_raw f = AdtsOk raw -> exists hdr fl, adts_valid_header f = Some (hdr, fl) /\ (hdr = 7 \/ hdr = 9)%N /\ (hdr < fl)%N /\ (fl <= len f)%N /\ raw = take (fl - hdr) (drop hdr f) /\ len raw = (fl - hdr)%N).
Check (C14_nonvacuous).
Check (C14_adts_nonvacuous).
