Check (C03_stts_runs_are_lossless : forall l : list N, expand_runs (rle N.eqb l) = l).
Check (C03_ctts_runs_are_lossless : forall l : list Z, expand_runs (rle Z.eqb l) = l).
