Open Scope N_scope.
Check (C03_video_durations_are_dts_differences : (forall w,
  WInv w -> durations_of (vsamples w) (w_vlast_delta w) = durations_spec (map s_dts (vsamples w)))%type).
Check (C03_audio_durations_are_pts_differences : (forall w,
  WInv w -> durations_of (asamples w) (w_alast_delta w) = durations_spec (map s_pts (asamples w)))%type).
Check (C03_invariant_holds_in_every_reachable_state : (forall b script m0 ops,
  build b script = inl m0 -> WInv (m_writer (fst (run m0 ops))))%type).
Check (C03_no_accumulated_drift : (forall (dts : list N) (k : nat),
  StronglySorted (fun a b => a <= b) dts -> (k < length dts)%nat ->
  sumN (firstn k (durations_spec dts)) = nth k dts 0 - nth 0 dts 0)%type).
Check (C03_composition_offsets_fit_in_every_reachable_state : (forall b script m0 ops,
  build b script = inl m0 -> cts_all_fit (m_writer (fst (run m0 ops))))%type).
Check (C03_composition_offset_exact : (forall s,
  (-2147483648 <= Z.of_N (s_pts s) - Z.of_N (s_dts s) <= 2147483647)%Z ->
  cts_of s = (Z.of_N (s_pts s) - Z.of_N (s_dts s))%Z)%type).
Check (C03_stts_runs_are_lossless : (forall l : list N, expand_runs (rle N.eqb l) = l)%type).
Check (C03_ctts_runs_are_lossless : (forall l : list Z, expand_runs (rle Z.eqb l) = l)%type).
Check (C03_finished_file_timing_is_exact : (forall b m0 ops m rs s,
  build b [] = inl m0 -> run m0 ops = (m, rs) -> In (RStats s) rs ->
  Forall op_payload_ok ops -> len (sink_of m) < 4294967296 ->
  sumN (durations_of (vsamples (m_writer m)) (w_vlast_delta (m_writer m))) < 4294967296 ->
  sumN (durations_of (asamples (m_writer m)) (w_alast_delta (m_writer m))) < 4294967296 ->
  check_C03 b ops (map class_of rs) (sink_of m) = true)%type).
Check (C03_tick_is_the_rounded_real_product : (forall x : f64,
  valid_binary prec emax x = true -> is_finite x = true ->
  (0 <= SF2R radix2 x)%R -> (SF2R radix2 x * 90000 <= IZR (2 ^ 63))%R ->
  let y := (SF2R radix2 x * 90000)%R in
  (Rabs (IZR (Z.of_N (tick x)) - RN64 y) <= /2)%R /\
  (Rabs (RN64 y - y) <= / IZR (2 ^ 53) * y)%R /\
  (Rabs (IZR (Z.of_N (tick x)) - y) <= /2 + / IZR (2 ^ 53) * y)%R)%type).
