Open Scope N_scope.
Check (C19_mvhd_strict : (forall d n, d < 4294967296 -> n < 4294967296 ->
  strict_mvhd (build_mvhd_payload d n) = Some {| mv_timescale := 1000; mv_duration := d; mv_next_track_id := n |})%type).
Check (C19_mvhd_fragmented_strict : (forall ts, ts < 4294967296 ->
  strict_mvhd (payload_of (build_mvhd_fmp4 ts)) = Some {| mv_timescale := ts; mv_duration := 0; mv_next_track_id := 2 |})%type).
Check (C19_tkhd_fragmented_strict : (forall c, fc_width c < 65536 -> fc_height c < 65536 ->
  strict_tkhd (payload_of (build_tkhd_fmp4 c)) =
    Some {| tk_flags := 3; tk_track_id := 1; tk_duration := 0; tk_volume := 0;
            tk_width := fc_width c * 65536; tk_height := fc_height c * 65536 |})%type).
Check (C19_mdhd_strict : (forall ts dur,
  ts < 4294967296 -> dur < 4294967296 ->
  strict_mdhd (payload_of (build_mdhd_box ts dur None)) =
    Some {| md_timescale := ts; md_duration := dur; md_lang := UND |})%type).
Check (C19_hdlr_video_strict : (strict_hdlr (payload_of build_hdlr_box) = Some [118; 105; 100; 101])%type).
Check (C19_hdlr_sound_strict : (strict_hdlr (payload_of build_sound_hdlr_box) = Some [115; 111; 117; 110])%type).
Check (C19_smhd_strict : (strict_smhd (payload_of build_smhd_box) = true)%type).
Check (C19_vmhd_fragmented_strict : (strict_vmhd (payload_of build_vmhd) = true)%type).
Check (C19_visual_entry_strict : (forall v rest, vt_width v < 65536 -> vt_height v < 65536 ->
  strict_visual_entry (visual_entry_prefix v ++ rest) = Some (vt_width v, vt_height v))%type).
Check (C19_audio_entry_strict : (forall ch rate rest, ch < 65536 -> rate < 65536 ->
  strict_audio_entry (audio_entry_prefix ch rate ++ rest) = Some (ch, rate))%type).
Check (C19_avcC_strict : (forall c, len (avc_sps c) < 65536 -> len (avc_pps c) < 65536 ->
  bytes_ok (avc_sps c) = true ->
  strict_avcc (payload_of (build_avcc_box c)) = Some (avc_sps c, avc_pps c))%type).
Check (C19_hvcC_strict : (forall c,
  len (hevc_vps c) < 65536 -> len (hevc_sps c) < 65536 -> len (hevc_pps c) < 65536 ->
  bytes_ok (hevc_sps c) = true ->
  strict_hvcc (payload_of (build_hvcc_box c)) = Some [(32, hevc_vps c); (33, hevc_sps c); (34, hevc_pps c)])%type).
Check (C19_esds_strict : (forall a,
  strict_esds (payload_of (build_esds_box a)) = Some (build_audio_specific_config (at_sample_rate a) (at_channels a)))%type).
Check (C19_dOps_strict_stereo : (forall a, 1 <= at_channels a <= 2 ->
  strict_dops (payload_of (build_dops_box a)) = Some (at_channels a, 48000, 0))%type).
Check (C19_trex_strict : (exists p, build_mvex = build_box T_mvex (build_box T_trex p) /\ strict_trex p = Some (1, 1))%type).
Check (C19_progressive_tkhd_refuted : (forall id vol w h, strict_tkhd (payload_of (build_tkhd_box_with_id id vol w h)) = None)%type).
Check (C19_progressive_vmhd_refuted : (strict_vmhd (payload_of build_vmhd_box) = false)%type).
Check (C19_vpcC_refuted : (forall c, strict_vpcc (payload_of (build_vpcc_box c)) = None)%type).
Check (C19_fragmented_av1C_strict : (forall c a,
  extract_av1_config (match fc_av1 c with Some s => s | None => [] end) = Some a ->
  strict_av1c (payload_of (build_av1c_fmp4 c)) =
    Some {| a1_profile := av1_seq_profile a; a1_level := av1_seq_level_idx a; a1_tier := av1_seq_tier a;
            a1_high_bitdepth := av1_high_bitdepth a; a1_twelve_bit := av1_twelve_bit a; a1_mono := av1_monochrome a;
            a1_sx := av1_subsampling_x a; a1_sy := av1_subsampling_y a; a1_csp := av1_chroma_sample_position a;
            a1_obus := av1_sequence_header a |})%type).
Check (C19_fragmented_av1C_strict_fallback : (forall c,
  extract_av1_config (match fc_av1 c with Some s => s | None => [] end) = None ->
  strict_av1c (payload_of (build_av1c_fmp4 c)) =
    Some {| a1_profile := 0; a1_level := 0; a1_tier := 0;
            a1_high_bitdepth := false; a1_twelve_bit := false; a1_mono := false;
            a1_sx := true; a1_sy := true; a1_csp := 0;
            a1_obus := match fc_av1 c with Some s => s | None => [] end |})%type).
Check (C19_fragmented_hvcC_strict : (forall c,
  let vps := match fc_vps c with Some v => v | None => [] end in
  len vps < 65536 -> len (fc_sps c) < 65536 -> len (fc_pps c) < 65536 ->
  strict_hvcc (payload_of (build_hvcc_fmp4 c)) = Some [(32, vps); (33, fc_sps c); (34, fc_pps c)])%type).
Check (C19_multichannel_dOps_refuted : (forall a, 3 <= at_channels a < 256 -> strict_dops (payload_of (build_dops_box a)) = None)%type).
Check (C19_finished_file_header_clauses_exact : (forall b m0 ops m rs s,
  build b [] = inl m0 -> run m0 ops = (m, rs) -> In (RStats s) rs ->
  Forall op_payload_ok ops -> len (sink_of m) < 4294967296 ->
  param_sets_fit (effective_config (m_writer m)) ->
  failed_C19_mux b ops (map class_of rs) (sink_of m) =
  [3; 4; 7] ++
  clause 10 (match effective_config (m_writer m) with CfgVp9 _ => false | _ => true end) ++
  match cfg_audio b with Some a => clause 11 (dops_ok a) | None => [] end)%type).
Check (C19_finished_file_header_clauses : (forall b m0 ops m rs s cl,
  build b [] = inl m0 -> run m0 ops = (m, rs) -> In (RStats s) rs ->
  Forall op_payload_ok ops -> len (sink_of m) < 4294967296 ->
  Forall (op_params_fit (cfg_codec b)) ops ->
  In cl (failed_C19_mux b ops (map class_of rs) (sink_of m)) ->
  cl = 3 \/ cl = 4 \/ cl = 7 \/
  (cl = 10 /\ cfg_codec b = Vp9) \/
  (cl = 11 /\ exists a, cfg_audio b = Some a /\ at_codec a = Opus /\ (at_channels a = 0 \/ 2 < at_channels a)))%type).
Check (C19_finished_file_header_clauses_exact_unconditional : (forall b m0 ops m rs s,
  build b [] = inl m0 -> run m0 ops = (m, rs) -> In (RStats s) rs ->
  Forall op_payload_ok ops -> len (sink_of m) < 4294967296 ->
  failed_C19_mux b ops (map class_of rs) (sink_of m) =
  [3; 4; 7] ++
  clause 10 (match effective_config (m_writer m) with CfgVp9 _ => false | _ => true end) ++
  match cfg_audio b with Some a => clause 11 (dops_ok a) | None => [] end)%type).
Check (C19_finished_file_header_clauses_unconditional : (forall b m0 ops m rs s cl,
  build b [] = inl m0 -> run m0 ops = (m, rs) -> In (RStats s) rs ->
  Forall op_payload_ok ops -> len (sink_of m) < 4294967296 ->
  In cl (failed_C19_mux b ops (map class_of rs) (sink_of m)) ->
  cl = 3 \/ cl = 4 \/ cl = 7 \/
  (cl = 10 /\ cfg_codec b = Vp9) \/
  (cl = 11 /\ exists a, cfg_audio b = Some a /\ at_codec a = Opus /\ (at_channels a = 0 \/ 2 < at_channels a)))%type).
Check (C19_init_segment_header_clauses_exact : (forall c,
  len (init_segment_bytes c) < 4294967296 ->
  (init_codec_of c = IH264 -> len (fc_sps c) < 65536 /\ len (fc_pps c) < 65536) ->
  (init_codec_of c = IH265 -> forall v, fc_vps c = Some v ->
     len v < 65536 /\ len (fc_sps c) < 65536 /\ len (fc_pps c) < 65536) ->
  failed_C19_init (fc_width c) (fc_height c) (fc_timescale c) (init_segment_bytes c) =
  clause 1 (fc_timescale c <? 4294967296) ++
  clause 3 ((fc_width c <? 65536) && (fc_height c <? 65536)) ++
  clause 5 (fc_timescale c <? 4294967296) ++
  clause 9 ((fc_width c <? 65536) && (fc_height c <? 65536)) ++
  clause 10 (match init_codec_of c with IVp9 => false | _ => true end))%type).
Check (C19_init_segment_headers_conform_h264 : (forall c,
  fc_vps c = None -> fc_av1 c = None -> fc_vp9 c = None ->
  fc_width c < 65536 -> fc_height c < 65536 -> fc_timescale c < 4294967296 ->
  len (fc_sps c) < 65536 -> len (fc_pps c) < 65536 ->
  failed_C19_init (fc_width c) (fc_height c) (fc_timescale c) (init_segment_of (fmuxer_new c)) = [])%type).
Check (C19_init_segment_headers_conform_h265 : (forall c v,
  fc_av1 c = None -> fc_vp9 c = None -> fc_vps c = Some v ->
  fc_width c < 65536 -> fc_height c < 65536 -> fc_timescale c < 4294967296 ->
  len v < 65536 -> len (fc_sps c) < 65536 -> len (fc_pps c) < 65536 ->
  failed_C19_init (fc_width c) (fc_height c) (fc_timescale c) (init_segment_of (fmuxer_new c)) = [])%type).
Check (C19_init_segment_headers_conform_av1 : (forall c s,
  fc_av1 c = Some s ->
  fc_width c < 65536 -> fc_height c < 65536 -> fc_timescale c < 4294967296 ->
  623 + len s < 4294967296 ->
  failed_C19_init (fc_width c) (fc_height c) (fc_timescale c) (init_segment_of (fmuxer_new c)) = [])%type).
Check (C19_init_segment_headers_vp9 : (forall c v,
  fc_av1 c = None -> fc_vp9 c = Some v ->
  fc_width c < 65536 -> fc_height c < 65536 -> fc_timescale c < 4294967296 ->
  failed_C19_init (fc_width c) (fc_height c) (fc_timescale c) (init_segment_of (fmuxer_new c)) = [10])%type).
Check (C19_init_segment_oversize_dimensions : (forall c,
  fc_vps c = None -> fc_av1 c = None -> fc_vp9 c = None ->
  65536 <= fc_width c \/ 65536 <= fc_height c ->
  fc_timescale c < 4294967296 ->
  len (fc_sps c) < 65536 -> len (fc_pps c) < 65536 ->
  failed_C19_init (fc_width c) (fc_height c) (fc_timescale c) (init_segment_of (fmuxer_new c)) = [3; 9])%type).
Check (C19_default_init_segment_conforms : (failed_C19_init 1920 1080 90000 (init_segment_of (fmuxer_new frag_config_default)) = [])%type).
