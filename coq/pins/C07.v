Open Scope N_scope.
Check (C07_h264_config_is_first_sps_pps : (forall d c, extract_avc_config d = Some c ->
  first_unit (fun b => b mod 32 =? 7) d = Some (avc_sps c) /\ first_unit (fun b => b mod 32 =? 8) d = Some (avc_pps c))%type).
Check (C07_h265_config_is_first_vps_sps_pps : (forall d c, extract_hevc_config d = Some c ->
  first_unit (fun b => (b / 2) mod 64 =? 32) d = Some (hevc_vps c) /\
  first_unit (fun b => (b / 2) mod 64 =? 33) d = Some (hevc_sps c) /\
  first_unit (fun b => (b / 2) mod 64 =? 34) d = Some (hevc_pps c))%type).
Check (C07_avcC_carries_sps_pps : (forall c, len (avc_sps c) < 65536 -> len (avc_pps c) < 65536 ->
  bytes_ok (avc_sps c) = true ->
  strict_avcc (payload_of (build_avcc_box c)) = Some (avc_sps c, avc_pps c))%type).
Check (C07_hvcC_carries_vps_sps_pps : (forall c,
  len (hevc_vps c) < 65536 -> len (hevc_sps c) < 65536 -> len (hevc_pps c) < 65536 ->
  bytes_ok (hevc_sps c) = true ->
  strict_hvcc (payload_of (build_hvcc_box c)) = Some [(32, hevc_vps c); (33, hevc_sps c); (34, hevc_pps c)])%type).
Check (C07_fragmented_avcC_carries_builder_sps_pps : (forall c, len (fc_sps c) < 65536 -> len (fc_pps c) < 65536 ->
  strict_avcc (payload_of (build_avcc_fmp4 c)) = Some (fc_sps c, fc_pps c))%type).
Check (C07_av1C_carries_parsed_fields : (forall c, av1_seq_profile c < 8 -> av1_seq_level_idx c < 32 -> av1_seq_tier c < 2 ->
  av1_chroma_sample_position c < 4 ->
  strict_av1c (payload_of (build_av1c_box c)) =
    Some {| a1_profile := av1_seq_profile c; a1_level := av1_seq_level_idx c; a1_tier := av1_seq_tier c;
            a1_high_bitdepth := av1_high_bitdepth c; a1_twelve_bit := av1_twelve_bit c; a1_mono := av1_monochrome c;
            a1_sx := av1_subsampling_x c; a1_sy := av1_subsampling_y c; a1_csp := av1_chroma_sample_position c;
            a1_obus := av1_sequence_header c |})%type).
Check (C07_visual_entry_carries_dimensions : (forall v rest, vt_width v < 65536 -> vt_height v < 65536 ->
  strict_visual_entry (visual_entry_prefix v ++ rest) = Some (vt_width v, vt_height v))%type).
Check (C07_audio_entry_carries_channels_and_rate : (forall ch rate rest, ch < 65536 -> rate < 65536 ->
  strict_audio_entry (audio_entry_prefix ch rate ++ rest) = Some (ch, rate))%type).
Check (C07_esds_carries_audio_specific_config : (forall a,
  strict_esds (payload_of (build_esds_box a)) = Some (build_audio_specific_config (at_sample_rate a) (at_channels a)))%type).
Check (C07_audio_specific_config_fields : (forall rate ch fi, freq_index rate = Some fi -> 1 <= ch <= 6 ->
  asc_fields (build_audio_specific_config rate ch) = Some (2, fi, ch))%type).
Check (C07_dOps_stereo : (forall a, 1 <= at_channels a <= 2 ->
  strict_dops (payload_of (build_dops_box a)) = Some (at_channels a, 48000, 0))%type).
Check (C07_fragmented_av1C_carries_parsed_fields : (forall c a,
  extract_av1_config (match fc_av1 c with Some s => s | None => [] end) = Some a ->
  strict_av1c (payload_of (build_av1c_fmp4 c)) =
    Some {| a1_profile := av1_seq_profile a; a1_level := av1_seq_level_idx a; a1_tier := av1_seq_tier a;
            a1_high_bitdepth := av1_high_bitdepth a; a1_twelve_bit := av1_twelve_bit a; a1_mono := av1_monochrome a;
            a1_sx := av1_subsampling_x a; a1_sy := av1_subsampling_y a; a1_csp := av1_chroma_sample_position a;
            a1_obus := av1_sequence_header a |})%type).
Check (C07_av1_parser_accepts_conformant_headers : (forall (s : seq_hdr) (ext : option N),
  valid_seq s = true -> cc_mono_chrome (sh_color s) = false ->
  (match ext with Some e => e < 256 | None => True end) ->
  exists c, extract_av1_config (seq_obu ext s) = Some c /\
    av1_sequence_header c = seq_obu ext s /\
    av1_seq_profile c = sh_seq_profile s /\
    av1_seq_level_idx c = seq_level0 s /\
    av1_seq_tier c = seq_tier0 s /\
    av1_high_bitdepth c = cc_high_bitdepth (sh_color s) /\
    av1_twelve_bit c = cc_twelve_bit (sh_color s) /\
    av1_monochrome c = false /\
    av1_subsampling_x c = cc_subsampling_x (sh_color s) /\
    av1_subsampling_y c = cc_subsampling_y (sh_color s) /\
    av1_chroma_sample_position c = cc_chroma_sample_position (sh_color s))%type).
Check (C07_av1_parser_skips_other_obus : (forall (s : seq_hdr) (pre : list (N * bytes)) (post : bytes),
  valid_seq s = true -> cc_mono_chrome (sh_color s) = false ->
  Forall (fun tp => fst tp < 16 /\ fst tp <> 1 /\ len (snd tp) < 72057594037927936) pre ->
  extract_av1_config (concat (map (fun tp => plain_obu (fst tp) (snd tp)) pre) ++ seq_obu None s ++ post) =
  extract_av1_config (seq_obu None s ++ post)
  /\ (forall c, extract_av1_config (seq_obu None s) = Some c -> exists c',
        extract_av1_config (seq_obu None s ++ post) = Some c' /\
        av1_seq_profile c' = av1_seq_profile c /\ av1_seq_level_idx c' = av1_seq_level_idx c /\
        av1_sequence_header c' = av1_sequence_header c))%type).
Check (C07_av1_monochrome_chroma_position_refuted : (exists s, valid_seq s = true /\ cc_mono_chrome (sh_color s) = true /\
            exists c, extract_av1_config (seq_obu None s) = Some c /\ av1_chroma_sample_position c <> 0)%type).
Check (C07_av1_monochrome_header_rejected_refuted : (exists s, valid_seq s = true /\ cc_mono_chrome (sh_color s) = true /\ extract_av1_config (seq_obu None s) = None)%type).
Check (C07_finished_file_carries_stream_configuration : (forall b m0 ops m rs s,
  build b [] = inl m0 -> run m0 ops = (m, rs) -> In (RStats s) rs ->
  Forall op_payload_ok ops -> len (sink_of m) < 4294967296 ->
  (cfg_codec b = H264 \/ cfg_codec b = H265) ->
  (match cfg_audio b with Some a => at_channels a < 65536 | None => True end) ->
  (match first_key_of (accepted b ops (map class_of rs)) with
   | Some d => Forall (fun u => len u < 65536) (spec_units d) | None => True end) ->
  check_C07 b ops (map class_of rs) (sink_of m) = true)%type).
Check (C07_finished_file_carries_stream_configuration_unconditional : (forall b m0 ops m rs s,
  build b [] = inl m0 -> run m0 ops = (m, rs) -> In (RStats s) rs ->
  Forall op_payload_ok ops -> len (sink_of m) < 4294967296 ->
  (cfg_codec b = H264 \/ cfg_codec b = H265) ->
  (match cfg_audio b with Some a => at_channels a < 65536 | None => True end) ->
  check_C07 b ops (map class_of rs) (sink_of m) = true)%type).
Check (C07_finished_file_carries_av1_configuration : (forall b m0 ops m rs s,
  build b [] = inl m0 -> run m0 ops = (m, rs) -> In (RStats s) rs ->
  Forall op_payload_ok ops -> len (sink_of m) < 4294967296 ->
  cfg_codec b = Av1 ->
  (match cfg_audio b with Some a => at_channels a < 65536 | None => True end) ->
  check_C07 b ops (map class_of rs) (sink_of m) = true)%type).
Check (C07_finished_file_carries_vp9_configuration : (forall b m0 ops m rs s,
  build b [] = inl m0 -> run m0 ops = (m, rs) -> In (RStats s) rs ->
  Forall op_payload_ok ops -> len (sink_of m) < 4294967296 ->
  cfg_codec b = Vp9 ->
  (match cfg_audio b with Some a => at_channels a < 65536 | None => True end) ->
  check_C07 b ops (map class_of rs) (sink_of m) = true)%type).
Check (C07_av1_parsed_fields_fit : (forall d c, extract_av1_config d = Some c ->
  av1_seq_profile c < 8 /\ av1_seq_level_idx c < 32 /\ av1_seq_tier c < 2 /\ av1_chroma_sample_position c < 4)%type).
Check (C07_init_segment_carries_stream_configuration_h264 : (forall c d,
  fc_vps c = None -> fc_av1 c = None -> fc_vp9 c = None ->
  fc_width c < 65536 -> fc_height c < 65536 ->
  len (fc_sps c) < 65536 -> len (fc_pps c) < 65536 ->
  first_unit (fun b => b mod 32 =? 7) d = Some (fc_sps c) ->
  first_unit (fun b => b mod 32 =? 8) d = Some (fc_pps c) ->
  match read_tracks (init_segment_of (fmuxer_new c)) with
  | Some (_, trs) =>
      match track_of HV trs with
      | Some tr => check_video_entry H264 (fc_width c) (fc_height c) (Some d) (tr_entry tr)
      | None => false end
  | None => false
  end = true)%type).
Check (C07_init_segment_carries_stream_configuration_h265 : (forall c v d,
  fc_av1 c = None -> fc_vp9 c = None -> fc_vps c = Some v ->
  fc_width c < 65536 -> fc_height c < 65536 ->
  len v < 65536 -> len (fc_sps c) < 65536 -> len (fc_pps c) < 65536 ->
  first_unit (fun b => (b / 2) mod 64 =? 32) d = Some v ->
  first_unit (fun b => (b / 2) mod 64 =? 33) d = Some (fc_sps c) ->
  first_unit (fun b => (b / 2) mod 64 =? 34) d = Some (fc_pps c) ->
  match read_tracks (init_segment_of (fmuxer_new c)) with
  | Some (_, trs) =>
      match track_of HV trs with
      | Some tr => check_video_entry H265 (fc_width c) (fc_height c) (Some d) (tr_entry tr)
      | None => false end
  | None => false
  end = true)%type).
Check (C07_init_segment_carries_stream_configuration_av1 : (forall c s a d,
  fc_av1 c = Some s ->
  fc_width c < 65536 -> fc_height c < 65536 ->
  623 + len s < 4294967296 ->
  extract_av1_config s = Some a ->
  extract_av1_config d = Some a ->
  match read_tracks (init_segment_of (fmuxer_new c)) with
  | Some (_, trs) =>
      match track_of HV trs with
      | Some tr => check_video_entry Av1 (fc_width c) (fc_height c) (Some d) (tr_entry tr)
      | None => false end
  | None => false
  end = true)%type).
Check (C07_vp9_parser_rejects_every_conforming_key_frame_refuted : (forall h rest,
  is_valid_vp9_frame (vp9_key_frame h rest) = false /\
  extract_vp9_config (vp9_key_frame h rest) = None /\
  is_vp9_keyframe (vp9_key_frame h rest) <> Vp9Key true)%type).
