Open Scope N_scope.
Check (C20_mux_success_is_library_output : (forall o f nv na,
  mux_command o = CliOk (Some f) nv na ->
  exists b m0 vops aops m rs,
    build b [] = inl m0 /\
    run m0 (vops ++ aops ++ [FIN]) = (m, rs) /\ f = sink_of m /\
    Forall (fun r => match r with ROk | RStats _ => True | _ => False end) rs /\
    nv = N.of_nat (length vops) /\ na = N.of_nat (length aops) /\
    (forall x, In x vops -> exists d, x = WV 0 d true) /\ (forall x, In x aops -> exists d, x = WA 0 d) /\
    (length vops <= 1)%nat /\ (length aops <= 1)%nat)%type).
Check (C20_mux_fails_without_inputs : (forall o, mo_video o = None -> mo_audio o = None -> mux_command o = CliFail)%type).
Check (C20_mux_fails_on_missing_video_file : (forall o, mo_video o = Some Missing -> mux_command o = CliFail)%type).
Check (C20_mux_fails_on_incomplete_video_parameters : (forall o i,
  mo_video o = Some i -> (mo_width o = None \/ mo_height o = None \/ mo_fps_ok o = None) -> mux_command o = CliFail)%type).
Check (C20_validate_verdict_spec : (forall v a,
  validate_verdict v a = true <->
  ((v <> None \/ a <> None) /\
   (forall i, (v = Some i \/ a = Some i) -> exists text, i = Present text /\ is_hex_text text)))%type).
Check (C20_valid_hex_decodes : (forall text, is_hex_text text ->
  exists d, read_hex_bytes text = Some d /\
            (2 * length d = length (filter (fun c => negb (is_ws c)) text))%nat /\ d <> [])%type).
Check (C20_info_walk_fuel_is_enough : (forall (file : bytes) (off : N) (n : nat),
  (length file < n)%nat -> info_walk_f n file off = info_walk_f (S (length file)) file off)%type).
Check (C20_info_walk_is_bounded : (forall (file : bytes) (off : N) (n : nat),
  (length (info_walk_f n file off) <= length file)%nat)%type).
Check (C20_info_lists_top_level_boxes : (forall (bs : list (bytes * bytes)),
  bs <> [] ->
  Forall (fun tp => length (fst tp) = 4%nat /\ 8 + len (snd tp) < 4294967296) bs ->
  info_walk (concat (map (fun tp => build_box (fst tp) (snd tp)) bs)) = Some (expected_entries bs 0))%type).
Check (C20_video_codec_name_parses_back : (forall c, parse_video_codec (video_codec_name c) = Some c)%type).
Check (C20_audio_codec_name_parses_back : (forall c, parse_audio_codec (audio_codec_name c) = Some c)%type).
Check (C20_codec_options_ignore_case : (forall s,
  parse_video_codec (map ascii_lower s) = parse_video_codec s /\
  parse_audio_codec (map ascii_lower s) = parse_audio_codec s)%type).
Check (C20_dry_run_complete : (forall o, mo_dry_run o = true ->
  (mux_command o = CliOk None 0 0 <->
     (mo_video o <> None \/ mo_audio o <> None) /\ video_given_ok o /\ audio_given_ok o /\
     mo_video o <> Some Missing /\ mo_audio o <> Some Missing) /\
  (mux_command o = CliOk None 0 0 \/ mux_command o = CliFail))%type).
Check (C20_real_run_complete : (forall o file nv na, mo_dry_run o = false ->
  (mux_command o = CliOk (Some file) nv na <-> real_run_spec o file nv na))%type).
Check (C20_real_run_is_deterministic_and_counts : (forall o file nv na,
  real_run_spec o file nv na -> nv = 1 /\ na = (match mo_audio o with Some _ => 1 | None => 0 end))%type).
Check (C20_audio_only_real_run_fails : (forall o, mo_dry_run o = false -> mo_video o = None -> mux_command o = CliFail)%type).
Check (C20_outcome_shapes : (forall o,
  match mux_command o with
  | CliOk None nv na => mo_dry_run o = true /\ nv = 0 /\ na = 0
  | CliOk (Some _) nv na => mo_dry_run o = false /\ nv <= 1 /\ na <= 1
  | CliFail => True
  end)%type).
