Open Scope N_scope.
Check (C18_calendar_agrees_with_counting : (forall d, d < 2932897 -> days_to_ymd d = civil_of_days d)%type).
Check (C18_creation_time_is_iso8601 : (forall t, t < 253402300800 -> format_unix_timestamp t = iso8601 t)%type).
Check (C18_language_code_roundtrip : (forall a b c,
  97 <= a <= 122 -> 97 <= b <= 122 -> 97 <= c <= 122 ->
  exists x, encode_language_code [a; b; c] = be16 x /\ x < 32768 /\ unpack_lang x = [a; b; c])%type).
Check (C18_mdhd_language_recoverable : (forall ts dur a b c,
  ts < 4294967296 -> dur < 4294967296 ->
  97 <= a <= 122 -> 97 <= b <= 122 -> 97 <= c <= 122 ->
  strict_mdhd (payload_of (build_mdhd_box ts dur (Some [a; b; c]))) =
    Some {| md_timescale := ts; md_duration := dur; md_lang := [a; b; c] |})%type).
Check (C18_language_defaults_to_und : (forall ts dur,
  ts < 4294967296 -> dur < 4294967296 ->
  strict_mdhd (payload_of (build_mdhd_box ts dur None)) =
    Some {| md_timescale := ts; md_duration := dur; md_lang := UND |})%type).
Check (C18_title_item_roundtrip : (forall title : bytes,
  len title < 4294967000 ->
  exists p kids, parse_forest 3 (build_ilst_string_item T_cnam title) = Some [Box T_cnam p kids] /\
                 item_text (Box T_cnam p kids) = Some title)%type).
Check (C18_no_user_data_iff_neither_title_nor_time : (forall m,
  build_udta_box m = [] <-> (md_title m = None /\ md_creation_time m = None))%type).
Check (C18_finished_file_metadata_is_faithful : (forall b m0 ops m rs s,
  build b [] = inl m0 -> run m0 ops = (m, rs) -> In (RStats s) rs ->
  Forall op_payload_ok ops -> len (sink_of m) < 4294967296 ->
  check_C18 b ops (map class_of rs) (sink_of m) = true)%type).
