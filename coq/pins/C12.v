Check (C12_only_finish_can_panic : forall m o m' p, step m o = (m', RPanic p) -> o = FIN).
Check (C12_queued_samples_are_never_empty : forall b script m0 ops, build b script = inl m0 -> NonEmptyInv (m_writer (fst (run m0 ops)))).
Check (C12_finalize_does_not_panic : forall w v m fs p, NonEmptyInv w -> small_enough w -> snd (finalize w v m fs) <> FinErr (FinPanic p)).
Check (C12_no_call_panics : forall b script m0 ops, build b script = inl m0 -> (forall k, small_enough (m_writer (fst (run m0 (firstn k ops))))) -> Forall (fun r => forall p, r <> RPanic p) (snd (run m0 ops))).
Check (C12_fragmented_never_panics : forall m o, snd (fstep m o) <> FrPanic).
Check (C12_movie_duration_overflow_panics : forall v vt audio c m, (18446744073709551615 < total_duration vt * 1000)%N -> moov_of v vt audio c m = inr PanicMovieDurationOverflow).
Check (C12_zero_size_sample_would_panic : forall v vt c m, (total_duration vt * 1000 <= 18446744073709551615)%N -> has_zero_size vt = true -> moov_of v vt None c m = inr PanicStszZeroSize).
