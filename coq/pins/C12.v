Open Scope N_scope.
Check (C12_only_finish_can_panic : (forall m o m' p, step m o = (m', RPanic p) -> o = FIN)%type).
Check (C12_queued_samples_are_never_empty : (forall b script m0 ops,
  build b script = inl m0 -> NonEmptyInv (m_writer (fst (run m0 ops))))%type).
Check (C12_finalize_does_not_panic : (forall w v m fs p,
  NonEmptyInv w -> small_enough w -> snd (finalize w v m fs) <> FinErr (FinPanic p))%type).
Check (C12_no_call_panics : (forall b script m0 ops,
  build b script = inl m0 ->
  (forall k, small_enough (m_writer (fst (run m0 (firstn k ops))))) ->
  Forall (fun r => forall p, r <> RPanic p) (snd (run m0 ops)))%type).
Check (C12_fragmented_never_panics : (forall m o, snd (fstep m o) <> FrPanic)%type).
Check (C12_movie_duration_overflow_panics : (forall v vt audio c m,
  18446744073709551615 < total_duration vt * 1000 ->
  moov_of v vt audio c m = inr PanicMovieDurationOverflow)%type).
Check (C12_zero_size_sample_would_panic : (forall v vt c m,
  total_duration vt * 1000 <= 18446744073709551615 -> has_zero_size vt = true ->
  moov_of v vt None c m = inr PanicStszZeroSize)%type).
Check (C12_validation_reports_through_its_result : ((forall c w h f, coherent (validate_video_config c w h f)) /\
  (forall c sr ch, coherent (validate_audio_config c sr ch)) /\
  (forall c d k, coherent (validate_video_frame c d k)) /\
  (forall c d, coherent (validate_audio_frame c d)) /\
  (forall v a, coherent (validate_muxing_config v a)))%type).
Check (C12_accepted_adts_frame_validates : (forall p d raw,
  bytes_ok d = true -> adts_to_raw d = AdtsOk raw -> vr_valid (validate_audio_frame (Aac p) d) = true)%type).
Check (C12_opus_validation_is_the_muxers_check : (forall d,
  vr_valid (validate_audio_frame Opus d) = is_valid_opus_packet d)%type).
Check (C12_find_start_code_ix_refines : (forall (d : bytes) (from : nat),
  find_start_code_ix d from = IxOk (find_start_code d from))%type).
Check (C12_nal_next_ix_refines : (forall (d : bytes) (cursor : nat),
  nal_next_ix d cursor = IxOk (nal_next d cursor))%type).
Check (C12_nal_iter_ix_refines : (forall d : bytes, nal_iter_ix d = IxOk (nal_iter d))%type).
Check (C12_annexb_to_avcc_ix_refines : (forall d : bytes, annexb_to_avcc_ix d = IxOk (annexb_to_avcc d))%type).
Check (C12_hevc_annexb_to_hvcc_ix_refines : (forall d : bytes,
  hevc_annexb_to_hvcc_ix d = IxOk (hevc_annexb_to_hvcc d))%type).
Check (C12_adts_to_raw_ix_refines : (forall frame : bytes, adts_to_raw_ix frame = IxOk (adts_to_raw frame))%type).
Check (C12_build_avcc_box_ix_refines : (forall c : avc_config, build_avcc_box_ix c = IxOk (build_avcc_box c))%type).
Check (C12_is_h264_keyframe_ix_refines : (forall d : bytes, is_h264_keyframe_ix d = IxOk (is_h264_keyframe d))%type).
Check (C12_is_hevc_keyframe_ix_refines : (forall d : bytes, is_hevc_keyframe_ix d = IxOk (is_hevc_keyframe d))%type).
Check (C12_extract_avc_config_ix_refines : (forall d : bytes,
  extract_avc_config_ix d = IxOk (extract_avc_config d))%type).
Check (C12_extract_hevc_config_ix_refines : (forall d : bytes,
  extract_hevc_config_ix d = IxOk (extract_hevc_config d))%type).
Check (C12_opus_frame_count_ix_refines : (forall packet : bytes,
  opus_frame_count_ix packet = IxOk (opus_frame_count packet))%type).
Check (C12_opus_packet_samples_ix_refines : (forall packet : bytes,
  opus_packet_samples_ix packet = IxOk (opus_packet_samples packet))%type).
Check (C12_is_valid_opus_packet_ix_refines : (forall packet : bytes,
  is_valid_opus_packet_ix packet = IxOk (is_valid_opus_packet packet))%type).
Check (C12_is_vp9_keyframe_ix_refines : (forall f : bytes, is_vp9_keyframe_ix f = IxOk (is_vp9_keyframe f))%type).
Check (C12_parse_vp9_var_uint_ix_refines : (forall (data : bytes) (offset : nat),
  parse_vp9_var_uint_ix data offset = IxOk (parse_vp9_var_uint data offset))%type).
Check (C12_extract_vp9_config_ix_refines : (forall k : bytes,
  extract_vp9_config_ix k = IxOk (extract_vp9_config k))%type).
Check (C12_read_leb128_ix_refines : (forall data : bytes, read_leb128_ix data = IxOk (read_leb128 data))%type).
Check (C12_parse_obu_header_ix_refines : (forall data : bytes,
  parse_obu_header_ix data = IxOk (parse_obu_header data))%type).
Check (C12_obu_iter_ix_refines : (forall data : bytes, len data <= ISIZE_MAX ->
  obu_iter_ix data = IxOk (obu_iter data))%type).
Check (C12_is_av1_keyframe_ix_refines : (forall data : bytes, len data <= ISIZE_MAX ->
  is_av1_keyframe_ix data = IxOk (is_av1_keyframe data))%type).
