Open Scope N_scope.
Check (C12_only_finish_can_panic : (forall m o m' p, step m o = (m', RPanic p) -> o = FIN)%type).
Check (C12_queued_samples_are_never_empty : (forall b script m0 ops,
  build b script = inl m0 -> NonEmptyInv (m_writer (fst (run m0 ops))))%type).
Check (C12_finalize_does_not_panic : (forall w v m fs p,
  NonEmptyInv w -> small_enough w -> snd (finalize w v m fs) <> FinErr (FinPanic p))%type).
Check (C12_no_call_panics : (forall b script m0 ops,
  build b script = inl m0 ->
  (forall k, small_enough (m_writer (fst (run m0 (firstn k ops))))) ->
  Forall (fun r => forall p, r <> RPanic p) (snd (run m0 ops)))%type).
Check (C12_fragmented_never_panics : (forall m o, snd (fstep m o) <> FrPanic)%type).
Check (C12_movie_duration_overflow_panics : (forall v vt audio c m,
  18446744073709551615 < total_duration vt * 1000 ->
  moov_of v vt audio c m = inr PanicMovieDurationOverflow)%type).
Check (C12_zero_size_sample_would_panic : (forall v vt c m,
  total_duration vt * 1000 <= 18446744073709551615 -> has_zero_size vt = true ->
  moov_of v vt None c m = inr PanicStszZeroSize)%type).
Check (C12_validation_reports_through_its_result : ((forall c w h f, coherent (validate_video_config c w h f)) /\
  (forall c sr ch, coherent (validate_audio_config c sr ch)) /\
  (forall c d k, coherent (validate_video_frame c d k)) /\
  (forall c d, coherent (validate_audio_frame c d)) /\
  (forall v a, coherent (validate_muxing_config v a)))%type).
Check (C12_accepted_adts_frame_validates : (forall p d raw,
  bytes_ok d = true -> adts_to_raw d = AdtsOk raw -> vr_valid (validate_audio_frame (Aac p) d) = true)%type).
Check (C12_opus_validation_is_the_muxers_check : (forall d,
  vr_valid (validate_audio_frame Opus d) = is_valid_opus_packet d)%type).
