Check (C02_reader_recovers_every_built_box : forall t0 t1 t2 t3 p r, (8 + len p < 4294967296)%N -> parse_box (build_box [t0; t1; t2; t3] p ++ r) = Some ([t0; t1; t2; t3], p, r)).
Check (C02_init_segment_is_wellformed : forall c : frag_config, (len (init_segment_bytes c) < 4294967296)%N -> check_init_structure (init_segment_bytes c) = true).
Check (C02_media_segment_is_wellformed : forall (l : list frag_sample) (seq base : N), seg_fits l -> (96 + 16 * len l < 2147483648)%N -> (seq < 4294967296)%N -> (base < 18446744073709551616)%N -> check_segment_structure (build_media_segment l seq base) = true).
Check (C02_moov_parses : forall v vt audio c m, (len (build_moov_box v vt audio c m) < 4294967296)%N -> exists kids p, parse_forest 11 (build_moov_box v vt audio c m) = Some [Box T_moov p kids]).
Check (C02_finished_file_is_wellformed : forall b m0 ops m rs s, build b [] = inl m0 -> run m0 ops = (m, rs) -> In (RStats s) rs -> (len (sink_of m) < 4294967296)%N ->
  check_file_structure (match m_audio m0 with Some _ => true | None => false end) (sink_of m) = true).
