Check (C02_reader_recovers_every_built_box : forall t0 t1 t2 t3 p r, (8 + len p < 4294967296)%N -> parse_box (build_box [t0; t1; t2; t3] p ++ r) = Some ([t0; t1; t2; t3], p, r)).
