Open Scope N_scope.
Check (C17_set_video_track_is_video : (forall b c w h, bstep b (BSetVideoTrack c w h) = bstep b (BVideo c w h))%type).
Check (C17_set_audio_track_is_audio : (forall b c r ch, bstep b (BSetAudioTrack c r ch) = bstep b (BAudio c r ch))%type).
Check (C17_setters_equal_with_metadata : (forall b t l, b_meta b = None ->
  bstep (bstep b (BSetCreateTime t)) (BSetLanguage l) =
  bstep b (BWithMetadata {| md_title := None; md_creation_time := Some t; md_language := Some l |}))%type).
Check (C17_audio_none_is_no_audio : (forall b r ch script,
  build (upd_audio b (Some (NoAudio, r, ch))) script = build (upd_audio b None) script)%type).
Check (C17_encode_video_is_write_video_at_accumulated_time : (forall m d ms,
  snd (encode_video m d ms) = snd (write_video m (m_cur_vpts m) d (api_is_keyframe m d)) /\
  m_writer (fst (encode_video m d ms)) = m_writer (fst (write_video m (m_cur_vpts m) d (api_is_keyframe m d))))%type).
Check (C17_encode_audio_is_write_audio_at_accumulated_time : (forall m d n a,
  m_audio m = Some a ->
  snd (encode_audio m d n) = snd (write_audio m (m_cur_apts m) d) /\
  m_writer (fst (encode_audio m d n)) = m_writer (fst (write_audio m (m_cur_apts m) d)))%type).
Check (C17_writer_sees_only_ticks : (forall m p p' d k w w',
  F64.tick p = F64.tick p' ->
  write_video_sample (m_writer m) (F64.tick p) d k = inl w ->
  write_video_sample (m_writer m) (F64.tick p') d k = inl w' -> w = w')%type).
Check (C17_equal_ticks_equal_writer : (forall m p p' d k,
  F64.tick p = F64.tick p' ->
  (forall e, snd (write_video m p d k) = Some e <-> snd (write_video m p' d k) = Some e) ->
  snd (write_video m p d k) = None ->
  m_writer (fst (write_video m p d k)) = m_writer (fst (write_video m p' d k)))%type).
Check (C17_explicit_path_equivalent : (forall b script m0 ops,
  build b script = inl m0 ->
  snd (run m0 (explicit_of m0 ops)) = snd (run m0 ops) /\
  m_writer (fst (run m0 (explicit_of m0 ops))) = m_writer (fst (run m0 ops)))%type).
Check (C17_explicit_path_same_file : (forall b script m0 ops,
  build b script = inl m0 -> sink_of (fst (run m0 (explicit_of m0 ops))) = sink_of (fst (run m0 ops)))%type).
Check (C17_clocks_round_trip : (forall b script m0 ops, build b script = inl m0 ->
  decode64 (encode64 (m_cur_vpts (fst (run m0 ops)))) = m_cur_vpts (fst (run m0 ops)) /\
  decode64 (encode64 (m_cur_apts (fst (run m0 ops)))) = m_cur_apts (fst (run m0 ops)))%type).
Check (C17_alias_script_same_builder : (forall l, run_builder (map alias_bop l) = run_builder l)%type).
Check (C17_any_two_benign_sinks_agree : (forall b script1 script2 m1 m2 ops,
  benign script1 -> benign script2 -> build b script1 = inl m1 -> build b script2 = inl m2 ->
  snd (run m1 ops) = snd (run m2 ops) /\ sink_of (fst (run m1 ops)) = sink_of (fst (run m2 ops)))%type).
