Open Scope N_scope.
Check (C08_moov_length_independent_of_offsets : (forall v vt vt' c m,
  same_shape vt vt' ->
  length (build_moov_box v vt None c m) = length (build_moov_box v vt' None c m))%type).
Check (C08_moov_length_independent_of_offsets_av : (forall v vt vt' a at_ at_' c m,
  same_shape vt vt' -> same_shape at_ at_' ->
  length (build_moov_box v vt (Some (a, at_)) c m) = length (build_moov_box v vt' (Some (a, at_')) c m))%type).
Check (C08_layouts_differ_only_in_stco : (forall v vt vt' c,
  same_shape vt vt' ->
  exists pre post,
    build_stbl_box v vt c  = be32 (8 + len (pre ++ build_stco_box (st_chunk_offsets vt)  ++ post)) ++ T_stbl ++ pre ++ build_stco_box (st_chunk_offsets vt)  ++ post /\
    build_stbl_box v vt' c = be32 (8 + len (pre ++ build_stco_box (st_chunk_offsets vt') ++ post)) ++ T_stbl ++ pre ++ build_stco_box (st_chunk_offsets vt') ++ post)%type).
Check (C08_fast_start_changes_only_the_layout : (forall b m_on m_off ops s_on s_off,
  build (with_fast b true) [] = inl m_on -> build (with_fast b false) [] = inl m_off ->
  In (RStats s_on) (snd (run m_on ops)) -> In (RStats s_off) (snd (run m_off ops)) ->
  Forall op_payload_ok ops ->
  len (sink_of (fst (run m_on ops))) < 4294967296 -> len (sink_of (fst (run m_off ops))) < 4294967296 ->
  check_C08 (negb (match vsamples (m_writer (fst (run m_on ops))) ++ asamples (m_writer (fst (run m_on ops))) with [] => true | _ => false end))
            (sink_of (fst (run m_on ops))) (sink_of (fst (run m_off ops))) = true)%type).
Check (C08_fast_start_does_not_change_queues : (forall b m_on m_off ops,
  build (with_fast b true) [] = inl m_on -> build (with_fast b false) [] = inl m_off ->
  vsamples (m_writer (fst (run m_on ops))) = vsamples (m_writer (fst (run m_off ops))) /\
  asamples (m_writer (fst (run m_on ops))) = asamples (m_writer (fst (run m_off ops))))%type).
Check (C08_fast_start_does_not_change_results_before_finish : (forall b m_on m_off ops,
  build (with_fast b true) [] = inl m_on -> build (with_fast b false) [] = inl m_off ->
  Forall (fun o => o <> FIN) ops ->
  snd (run m_on ops) = snd (run m_off ops))%type).
Check (C08_finish_outcome_depends_on_layout_near_4GiB_refuted : (exists b m_on m_off ops,
    build (with_fast b true) [] = inl m_on /\ build (with_fast b false) [] = inl m_off /\
    map class_of (snd (run m_on ops)) <> map class_of (snd (run m_off ops)))%type).
