Check (C08_moov_length_independent_of_offsets : forall v vt vt' c m, same_shape vt vt' -> length (build_moov_box v vt None c m) = length (build_moov_box v vt' None c m)).
Check (C08_moov_length_independent_of_offsets_av : forall v vt vt' a at_ at_' c m, same_shape vt vt' -> same_shape at_ at_' -> length (build_moov_box v vt (Some (a, at_)) c m) = length (build_moov_box v vt' (Some (a, at_')) c m)).
Check (C08_layouts_differ_only_in_stco : forall v vt vt' c, same_shape vt vt' -> exists pre post,
    build_stbl_box v vt c  = be32 (8 + len (pre ++ build_stco_box (st_chunk_offsets vt)  ++ post)) ++ T_stbl ++ pre ++ build_stco_box (st_chunk_offsets vt)  ++ post /\
    build_stbl_box v vt' c = be32 (8 + len (pre ++ build_stco_box (st_chunk_offsets vt') ++ post)) ++ T_stbl ++ pre ++ build_stco_box (st_chunk_offsets vt') ++ post).
