Open Scope N_scope.
Check (C13_write_all_accepts_a_prefix : (forall script buf s' acc e,
  write_all script buf = (s', acc, e) -> exists rest, buf = acc ++ rest /\ (e = None -> rest = []))%type).
Check (C13_error_only_if_the_sink_failed : (forall script buf s' acc e,
  write_all script buf = (s', acc, e) -> e <> None -> ~ benign script)%type).
Check (C13_plan_accepts_a_prefix : (forall bufs bw s bw' s' e,
  run_plan bufs bw s = (bw', s', e) ->
  exists acc rest, sink_bytes s' = sink_bytes s ++ acc /\ concat bufs = acc ++ rest /\ (e = None -> rest = []))%type).
Check (C13_accepted_bytes_are_a_prefix_of_the_fault_free_file : (forall w v m fs chunks script,
  let w_faulty := with_sink w (w_finalized w) (w_bytes_written w) {| sk_rev_chunks := chunks; sk_script := script |} in
  let w_clean  := with_sink w (w_finalized w) (w_bytes_written w) {| sk_rev_chunks := chunks; sk_script := [] |} in
  exists rest, sink_bytes (w_sink (fst (finalize w_clean v m fs))) =
               sink_bytes (w_sink (fst (finalize w_faulty v m fs))) ++ rest)%type).
Check (C13_benign_sink_same_as_fault_free : (forall w v m fs chunks script, benign script ->
  let w_faulty := with_sink w (w_finalized w) (w_bytes_written w) {| sk_rev_chunks := chunks; sk_script := script |} in
  let w_clean  := with_sink w (w_finalized w) (w_bytes_written w) {| sk_rev_chunks := chunks; sk_script := [] |} in
  sink_bytes (w_sink (fst (finalize w_faulty v m fs))) = sink_bytes (w_sink (fst (finalize w_clean v m fs))) /\
  snd (finalize w_faulty v m fs) = snd (finalize w_clean v m fs) /\
  w_bytes_written (fst (finalize w_faulty v m fs)) = w_bytes_written (fst (finalize w_clean v m fs)))%type).
Check (C13_no_write_after_finalize : (forall w v m fs,
  w_finalized w = true -> finalize w v m fs = (w, FinErr (FinIo IoOther)))%type).
Check (C13_faulty_history_is_prefix_of_fault_free : (forall b script m0 m0' ops,
  build b script = inl m0 -> build b [] = inl m0' ->
  exists rest, sink_of (fst (run m0' ops)) = sink_of (fst (run m0 ops)) ++ rest)%type).
Check (C13_benign_history_same_as_fault_free : (forall b script m0 m0' ops,
  benign script -> build b script = inl m0 -> build b [] = inl m0' ->
  snd (run m0 ops) = snd (run m0' ops) /\ sink_of (fst (run m0 ops)) = sink_of (fst (run m0' ops)))%type).
Check (C13_nothing_is_written_after_finalization : (forall m ops,
  w_finalized (m_writer m) = true -> sink_of (fst (run m ops)) = sink_of m)%type).
