Check (C05_step_rejected_unchanged : forall m o m' e, o <> FIN -> step m o = (m', RErr e) -> m' = m).
Check (C05_history_without_rejected : forall ops m, run m (kept_ops m ops) = (fst (run m ops), kept_results m ops)).
Check (C05_results_are_the_originals_minus_rejected : forall ops m, kept_results m ops = drop_rejected m ops (snd (run m ops))).
Check (C05_fragmented_rejected_unchanged : forall m p d b s m' a c, f_write m p d b s = (m', FrErrNonMonotonic a c) -> m' = m).
