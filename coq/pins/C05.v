Open Scope N_scope.
Check (C05_step_rejected_unchanged : (forall m o m' e, o <> FIN -> step m o = (m', RErr e) -> m' = m)%type).
Check (C05_history_without_rejected : (forall ops m, run m (kept_ops m ops) = (fst (run m ops), kept_results m ops))%type).
Check (C05_results_are_the_originals_minus_rejected : (forall ops m, kept_results m ops = drop_rejected m ops (snd (run m ops)))%type).
Check (C05_fragmented_rejected_unchanged : (forall m p d b s m' a c, f_write m p d b s = (m', FrErrNonMonotonic a c) -> m' = m)%type).
Check (C05_fragmented_rejected_writes_leave_no_trace : (forall ops m,
  fst (frun m (f_kept m ops)) = fst (frun m ops) /\
  snd (frun m (f_kept m ops)) = filter (fun r => match r with FrErrNonMonotonic _ _ => false | _ => true end) (snd (frun m ops)))%type).
