Open Scope N_scope.
Check (C01_queues_wellformed_in_every_reachable_state : (forall b script m0 ops,
  build b script = inl m0 -> WInv (m_writer (fst (run m0 ops))))%type).
Check (C01_schedule_is_sorted_permutation : (forall vs as_,
  Permutation (compute_interleave_schedule vs as_) (video_entries vs ++ audio_entries as_) /\
  Sorted sched_le (compute_interleave_schedule vs as_))%type).
Check (C01_schedule_keeps_video_in_sample_order : (forall vs as_,
  dts_increasing vs -> filter is_video_entry (compute_interleave_schedule vs as_) = video_entries vs)%type).
Check (C01_schedule_keeps_audio_in_sample_order : (forall vs as_,
  pts_nondecreasing as_ -> filter is_audio_entry (compute_interleave_schedule vs as_) = audio_entries as_)%type).
Check (C01_fast_start_offsets_address_samples : (forall vs as_ start pre post vo ao,
  dts_increasing vs -> pts_nondecreasing as_ -> len pre = start ->
  walk_offsets vs as_ (compute_interleave_schedule vs as_) start = WalkOk vo ao ->
  let file := pre ++ concat (map (sched_data vs as_) (compute_interleave_schedule vs as_)) ++ post in
  length vo = length vs /\ length ao = length as_ /\
  (forall i s o, nth_error vs i = Some s -> nth_error vo i = Some o ->
                 take (len (s_data s)) (drop o file) = s_data s) /\
  (forall i s o, nth_error as_ i = Some s -> nth_error ao i = Some o ->
                 take (len (s_data s)) (drop o file) = s_data s))%type).
Check (C01_standard_offsets_address_samples : (forall vs as_ start pre post bufs vo ao,
  dts_increasing vs -> pts_nondecreasing as_ -> len pre = start ->
  Forall (fun s => len (s_data s) < 4294967296) vs -> Forall (fun s => len (s_data s) < 4294967296) as_ ->
  walk_std vs as_ (compute_interleave_schedule vs as_) start [] [] [] = (bufs, vo, ao, true) ->
  let file := pre ++ concat bufs ++ post in
  bufs = map (sched_data vs as_) (compute_interleave_schedule vs as_) /\
  length vo = length vs /\ length ao = length as_ /\
  (forall i s o, nth_error vs i = Some s -> nth_error vo i = Some o ->
                 take (len (s_data s)) (drop o file) = s_data s) /\
  (forall i s o, nth_error as_ i = Some s -> nth_error ao i = Some o ->
                 take (len (s_data s)) (drop o file) = s_data s))%type).
Check (C01_finished_file_resolves_to_submitted_samples : (forall b m0 ops m rs s,
  build b [] = inl m0 -> run m0 ops = (m, rs) -> In (RStats s) rs ->
  Forall op_payload_ok ops -> len (sink_of m) < 4294967296 ->
  check_C01 b ops (map class_of rs) (sink_of m) = true)%type).
Check (C01_accepted_history_matches_queues : (forall b m0 ops m rs,
  build b [] = inl m0 -> run m0 ops = (m, rs) -> Forall op_payload_ok ops ->
  (forall p, ~ In (RPanic p) rs) ->
  let h := accepted b ops (map class_of rs) in
  map (fun s => (s_pts s, s_dts s, s_data s, s_key s)) (vsamples (m_writer m)) =
    map (fun f => (vf_pts f, vf_dts f, frame_video (cfg_codec b) (vf_data f), vf_key f)) (h_v h) /\
  map (fun s => (s_pts s, s_data s)) (asamples (m_writer m)) =
    map (fun f => (af_pts f,
                   match cfg_audio b with Some a => frame_audio a (af_data f) | None => [] end)) (h_a h))%type).
