Check (C04_build_succeeds_iff_video_configured : forall b script, (exists m, build b script = inl m) <-> b_video b <> None).
Check (C04_step_obeys_contract : forall b m o m' r, Rep b m -> op_ok o -> step m o = (m', r) -> (forall p, r <> RPanic p) ->
  call_ok b (abs_csum m) o (outcome_of r) = true /\ abs_csum m' = csum_next b (abs_csum m) o (outcome_of r) /\ Rep b m').
Check (C04_model_obeys_contract : forall b script m0 ops, build b script = inl m0 -> Forall op_ok ops ->
  Forall (fun r => forall p, r <> RPanic p) (snd (run m0 ops)) -> check_C04 b ops (map outcome_of (snd (run m0 ops))) = true).
