Check (C04_build_succeeds_iff_video_configured : forall b script, (exists m, build b script = inl m) <-> b_video b <> None).
