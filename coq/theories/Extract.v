(** Extraction of the executable model and the specification-level checkers
    to OCaml.  [ExtrOcamlBasic] only: bool/option/list/prod/unit/sumbool map
    to OCaml types; positive/N/Z/nat stay extracted inductives.  No
    [Extract Constant], no [Extract Inductive] of our own. *)
From Coq Require Import Extraction ExtrOcamlBasic.
From Muxide Require Import Model.Base Model.Annexb Model.Adts Model.Codec Model.Boxes Model.F64
  Model.Writer Model.Api Model.Frag Model.Cli Spec.Bmff Spec.Reader Spec.NalSplit Spec.Checks Spec.Contract Spec.FragSpec Spec.Layout Spec.Headers Spec.HeaderChecks Spec.Av1Syntax Spec.Paths Model.Validation Model.Names Spec.Vp9Syntax Model.Defaults.
Extraction Language OCaml.
Extraction "../build/ocaml/model.ml"
  Base.len Base.be32 N.add N.mul N.div N.modulo N.eqb N.ltb N.leb N.of_nat N.to_nat N.shiftl N.lor
  Annexb.find_start_code Annexb.nal_iter Annexb.annexb_to_avcc Annexb.hevc_annexb_to_hvcc
  Adts.adts_to_raw Adts.opus_frame_duration_from_toc Adts.opus_frame_count Adts.opus_packet_samples
  Adts.is_valid_opus_packet
  Codec.extract_avc_config Codec.is_h264_keyframe Codec.extract_hevc_config Codec.is_hevc_keyframe
  Codec.hevc_general_profile_space Codec.hevc_general_tier_flag Codec.hevc_general_profile_idc
  Codec.hevc_general_level_idc
  Codec.is_vp9_keyframe Codec.is_valid_vp9_frame Codec.extract_vp9_config
  Codec.read_leb128 Codec.parse_obu_header Codec.obu_iter Codec.extract_av1_config Codec.is_av1_keyframe
  F64.decode64 F64.encode64 F64.tick
  Api.run_builder Api.build Api.step Api.run Api.sink_of Api.bstep Api.builder_new
  Frag.new_with_fragment Frag.fmuxer_new Frag.fstep Frag.frun
  NalSplit.check_reframe NalSplit.spec_adts_payload NalSplit.spec_opus_valid NalSplit.spec_payloads
  Checks.accepted Checks.check_C01 Checks.check_C02_mux Checks.check_init_structure
  Checks.check_segment_structure Checks.check_C03
  Checks.check_C06 Checks.expected_max_end Checks.check_C15 Checks.check_C09 Checks.check_C08 Checks.same_media Checks.check_C10 Checks.check_C11
  HeaderChecks.check_C07 HeaderChecks.check_C18 HeaderChecks.failed_C19_mux HeaderChecks.failed_C19_init HeaderChecks.failed_C16_mux Headers.iso8601
  Av1Syntax.seq_obu Av1Syntax.valid_seq Av1Syntax.seq_level0 Av1Syntax.seq_tier0
  Cli.mux_command Cli.validate_verdict Cli.info_walk Cli.read_hex_bytes
  Paths.explicit_of
  Defaults.frag_config_default Defaults.opus_config_mono Defaults.opus_config_stereo Defaults.opus_config_default Defaults.opus_with_pre_skip Defaults.opus_with_channels
  Vp9Syntax.vp9_key_frame Vp9Syntax.valid_vp9_key_hdr Vp9Syntax.vp9_bit_depth_of Av1Syntax.f
  Names.parse_video_codec Names.parse_audio_codec Names.video_codec_name Names.audio_codec_name
  Validation.validate_video_config Validation.validate_audio_config Validation.validate_video_frame
  Validation.validate_audio_frame Validation.validate_muxing_config
  Contract.check_C04 Contract.err_names Contract.violated FragSpec.segment_read FragSpec.accepted_writes FragSpec.spec_seg_samples.
