(** Strict decoders for the sample-table boxes and track resolution
    (ISO/IEC 14496-12 8.5-8.7), and for movie-fragment boxes (8.8). *)
From Muxide Require Import Model.Base Spec.Bmff.
Open Scope N_scope.

(* n big-endian u32 values, consuming exactly *)
Fixpoint rd32s (n : nat) (b : bytes) : option (list N * bytes) :=
  match n with
  | O => Some ([], b)
  | S k => match rd32 b with
           | Some (x, r) => match rd32s k r with
                            | Some (l, r') => Some (x :: l, r')
                            | None => None
                            end
           | None => None
           end
  end.

(* entry counts are bounded by the payload length before allocating fuel *)
Definition rd_table (width : N) (b : bytes) : option (list (list N)) :=
  match rd32 b with
  | Some (cnt, r) =>
      if negb (len r =? cnt * width * 4) then None
      else
        (fix go (k : nat) (r : bytes) : option (list (list N)) :=
           match k with
           | O => match r with [] => Some [] | _ => None end
           | S k' => match rd32s (N.to_nat width) r with
                     | Some (row, r') => match go k' r' with
                                         | Some rows => Some (row :: rows)
                                         | None => None
                                         end
                     | None => None
                     end
           end) (N.to_nat cnt) r
  | None => None
  end.

Definition full_box (p : bytes) : option (N * bytes) := rd32 p.   (* version<<24 | flags *)

Fixpoint expand_runs {A} (l : list (N * A)) : list A :=
  match l with
  | [] => []
  | (c, x) :: t => repeat x (N.to_nat c) ++ expand_runs t
  end.

Definition pair_rows (rows : list (list N)) : option (list (N * N)) :=
  fold_right (fun row acc => match row, acc with
                             | [a; b], Some l => Some ((a, b) :: l)
                             | _, _ => None end) (Some []) rows.

(* stts: version 0, (count, delta)* ; run counts are bounded by [cap] samples *)
Definition total_runs (l : list (N * N)) : N := sumN (map fst l).

Definition decode_stts (p : bytes) (cap : N) : option (list N) :=
  match full_box p with
  | Some (0, r) =>
      match rd_table 2 r with
      | Some rows => match pair_rows rows with
                     | Some prs => if cap <? total_runs prs then None else Some (expand_runs prs)
                     | None => None
                     end
      | None => None
      end
  | _ => None
  end.

(* ctts: version 0 (unsigned) or 1 (signed) *)
Definition decode_ctts (p : bytes) (cap : N) : option (list Z) :=
  match full_box p with
  | Some (vf, r) =>
      if negb ((vf =? 0) || (vf =? 16777216)) then None
      else
        match rd_table 2 r with
        | Some rows =>
            match pair_rows rows with
            | Some prs =>
                if cap <? total_runs prs then None
                else Some (expand_runs (map (fun pr => (fst pr,
                        if vf =? 0 then Z.of_N (snd pr) else i32_of_bits (snd pr))) prs))
            | None => None
            end
        | None => None
        end
  | None => None
  end.

Definition decode_u32_table (p : bytes) : option (list N) :=
  match full_box p with
  | Some (0, r) => match rd_table 1 r with
                   | Some rows => Some (map (fun row => match row with [x] => x | _ => 0 end) rows)
                   | None => None
                   end
  | _ => None
  end.

(* stsz: sample_size, sample_count, then sizes if sample_size = 0 *)
Definition decode_stsz (p : bytes) : option (list N) :=
  match full_box p with
  | Some (0, r) =>
      match rd32 r with
      | Some (ssize, r1) =>
          if ssize =? 0 then
            opt_map (map (fun row => match row with [x] => x | _ => 0 end)) (rd_table 1 r1)
          else None
      | None => None
      end
  | _ => None
  end.

(* stsc: (first_chunk, samples_per_chunk, description_index)* *)
Definition decode_stsc (p : bytes) : option (list (N * N * N)) :=
  match full_box p with
  | Some (0, r) =>
      match rd_table 3 r with
      | Some rows => fold_right (fun row acc => match row, acc with
                                                | [a; b; c], Some l => Some ((a, b, c) :: l)
                                                | _, _ => None end) (Some []) rows
      | None => None
      end
  | _ => None
  end.

(* samples-per-chunk for chunk number [c] (1-based): last entry whose first_chunk <= c *)
Fixpoint spc_for (stsc : list (N * N * N)) (c : N) (cur : N) : N :=
  match stsc with
  | [] => cur
  | (fc, spc, _) :: t => if fc <=? c then spc_for t c spc else cur
  end.

(* assign offsets: walk chunks, within a chunk samples are contiguous *)
Fixpoint chunk_samples (sizes : list N) (k : nat) (off : N) : list (N * N) * list N :=
  match k with
  | O => ([], sizes)
  | S k' => match sizes with
            | [] => ([], [])
            | s :: t => let '(l, rest) := chunk_samples t k' (off + s) in ((off, s) :: l, rest)
            end
  end.

Fixpoint resolve_chunks (stsc : list (N * N * N)) (offs : list N) (cno : N) (sizes : list N)
  : list (N * N) :=
  match offs with
  | [] => []
  | o :: t =>
      let k := N.to_nat (N.min (spc_for stsc cno 0) (len sizes)) in
      let '(l, rest) := chunk_samples sizes k o in
      l ++ resolve_chunks stsc t (cno + 1) rest
  end.

Record track := {
  tr_handler : bytes;
  tr_entry_type : bytes;             (* sample entry four-cc *)
  tr_entry : btree;
  tr_durations : list N;
  tr_cts : option (list Z);
  tr_sizes : list N;
  tr_ranges : list (N * N);          (* (offset, size) per sample *)
  tr_sync : option (list N);         (* stss entries, None = every sample is sync *)
  tr_mdhd : bytes;
  tr_tkhd : bytes;
  tr_chunk_offsets : list N;
  tr_stsc : list (N * N * N) }.

Definition T (a b c d : N) := [a; b; c; d].

Definition read_track (trak : btree) : option track :=
  let kids := b_children trak in
  let? tkhd := find_box (T 116 107 104 100) kids in
  let? mdia := find_box (T 109 100 105 97) kids in
  let? mdhd := find_box (T 109 100 104 100) (b_children mdia) in
  let? hdlr := find_box (T 104 100 108 114) (b_children mdia) in
  let? minf := find_box (T 109 105 110 102) (b_children mdia) in
  let? stbl := find_box (T 115 116 98 108) (b_children minf) in
  let sk := b_children stbl in
  let? stsd := find_box (T 115 116 115 100) sk in
  let? entry := match b_children stsd with [e] => Some e | _ => None end in
  let? stsz := find_box (T 115 116 115 122) sk in
  let? sizes := decode_stsz (b_payload stsz) in
  let cap := len sizes in
  let? stts := find_box (T 115 116 116 115) sk in
  let? durs := decode_stts (b_payload stts) cap in
  let? stsc := find_box (T 115 116 115 99) sk in
  let? stsc_e := decode_stsc (b_payload stsc) in
  let? stco := find_box (T 115 116 99 111) sk in
  let? offs := decode_u32_table (b_payload stco) in
  let? cts := match find_box (T 99 116 116 115) sk with
              | Some c => match decode_ctts (b_payload c) cap with Some l => Some (Some l) | None => None end
              | None => Some None
              end in
  let? sync := match find_box (T 115 116 115 115) sk with
               | Some s => match decode_u32_table (b_payload s) with Some l => Some (Some l) | None => None end
               | None => Some None
               end in
  Some {| tr_handler := firstn 4 (skipn 8 (b_payload hdlr));
          tr_entry_type := b_typ entry; tr_entry := entry;
          tr_durations := durs; tr_cts := cts; tr_sizes := sizes;
          tr_ranges := resolve_chunks stsc_e offs 1 sizes;
          tr_sync := sync; tr_mdhd := b_payload mdhd; tr_tkhd := b_payload tkhd;
          tr_chunk_offsets := offs; tr_stsc := stsc_e |}.

Definition read_tracks (file : bytes) : option (list btree * list track) :=
  let? top := parse_file file in
  let? moov := find_box (T 109 111 111 118) top in
  let traks := find_all (T 116 114 97 107) (b_children moov) in
  let? trs := fold_right (fun t acc => match read_track t, acc with
                                       | Some x, Some l => Some (x :: l)
                                       | _, _ => None end) (Some []) traks in
  Some (top, trs).

Definition slice (file : bytes) (off size : N) : bytes := take size (drop off file).

Definition is_sync (tr : track) (idx1 : N) : bool :=
  match tr_sync tr with
  | None => true
  | Some l => existsb (N.eqb idx1) l
  end.

Fixpoint enumerate1 {A} (i : N) (l : list A) : list (N * A) :=
  match l with [] => [] | x :: t => (i, x) :: enumerate1 (i + 1) t end.

(* (bytes, sync) of every sample of a track, in table order *)
Definition track_samples (file : bytes) (tr : track) : list (bytes * bool) :=
  map (fun p => (slice file (fst (snd p)) (snd (snd p)), is_sync tr (fst p)))
      (enumerate1 1 (tr_ranges tr)).

(** movie fragments *)
Record trun_sample := { ts_duration : N; ts_size : N; ts_flags : N; ts_cts : Z }.

Record fragment := {
  fr_seq : N; fr_track_id : N; fr_tfhd_flags : N; fr_base_decode_time : N;
  fr_data_offset : Z; fr_samples : list trun_sample }.

Fixpoint rd_trun_samples (n : nat) (b : bytes) : option (list trun_sample) :=
  match n with
  | O => match b with [] => Some [] | _ => None end
  | S k =>
      match rd32s 4 b with
      | Some ([d; s; f; c], r) =>
          match rd_trun_samples k r with
          | Some l => Some ({| ts_duration := d; ts_size := s; ts_flags := f; ts_cts := i32_of_bits c |} :: l)
          | None => None
          end
      | _ => None
      end
  end.

(* trun with exactly the flag set data-offset|duration|size|flags|cts, version 1 *)
Definition decode_trun (p : bytes) : option (Z * list trun_sample) :=
  match rd32s 3 p with
  | Some ([vf; cnt; off], r) =>
      if negb (vf =? 16777216 + 1 + 256 + 512 + 1024 + 2048) then None
      else if negb (len r =? cnt * 16) then None
      else match rd_trun_samples (N.to_nat cnt) r with
           | Some l => Some (i32_of_bits off, l)
           | None => None
           end
  | _ => None
  end.

Definition read_fragment (moof : btree) : option fragment :=
  let? mfhd := find_box (T 109 102 104 100) (b_children moof) in
  let? traf := find_box (T 116 114 97 102) (b_children moof) in
  let? tfhd := find_box (T 116 102 104 100) (b_children traf) in
  let? tfdt := find_box (T 116 102 100 116) (b_children traf) in
  let? trun := find_box (T 116 114 117 110) (b_children traf) in
  let? seq := match rd32s 2 (b_payload mfhd) with Some ([0; s], []) => Some s | _ => None end in
  let? (tf, tid) := match rd32s 2 (b_payload tfhd) with Some ([f; t], []) => Some (f, t) | _ => None end in
  let? base := match rd32 (b_payload tfdt) with
               | Some (16777216, r) => match rd64 r with Some (x, []) => Some x | _ => None end
               | Some (0, r) => match rd32 r with Some (x, []) => Some x | _ => None end
               | _ => None
               end in
  let? (off, ss) := decode_trun (b_payload trun) in
  Some {| fr_seq := seq; fr_track_id := tid; fr_tfhd_flags := tf; fr_base_decode_time := base;
          fr_data_offset := off; fr_samples := ss |}.
