(** Decision predicates of the properties, as executable Gallina over
    (builder configuration, call history, per-call outcome classes, emitted
    bytes).  The same functions appear in the theorems about the model and are
    evaluated, after extraction, on the implementation's output. *)
From Coq Require Import Floats.SpecFloat.
From Muxide Require Import Model.Base Model.F64 Model.Boxes Model.Codec Model.Api Model.Writer.
From Muxide Require Import Spec.Bmff Spec.Reader Spec.NalSplit Spec.Layout.
Open Scope N_scope.

Inductive rclass := COk | CErr | CPanic.

Record vframe := { vf_pts : N; vf_dts : N; vf_data : bytes; vf_key : bool }.
Record aframe := { af_pts : N; af_data : bytes }.

Record hist := {
  h_v : list vframe; h_a : list aframe; h_finished : bool;
  h_after_ok : bool  (* every call after the first successful finish was rejected *) }.

Definition cfg_codec (b : builder) : video_codec :=
  match b_video b with Some (c, _, _) => c | None => H264 end.
Definition cfg_dims (b : builder) : N * N :=
  match b_video b with Some (_, w, h) => (w, h) | None => (0, 0) end.
Definition cfg_audio (b : builder) : option audio_track := audio_of (b_audio b).

(* keyframe detection used by encode_video, stated on the declarative split *)
Definition detect_key (codec : video_codec) (vcount : N) (d : bytes) : bool :=
  match d with
  | [] => false
  | _ =>
      match codec with
      | H264 => existsb (fun u => match u with b :: _ => b mod 32 =? 5 | [] => false end) (spec_units d)
      | H265 => existsb (fun u => match u with
                                  | b :: _ => let t := (b / 2) mod 64 in (19 <=? t) && (t <=? 21)
                                  | [] => false end) (spec_units d)
      | Av1 => vcount =? 0
      | Vp9 => match d with
               | 73 :: 131 :: 66 :: b3 :: _ => negb (N.testbit b3 5 || N.testbit b3 4)
               | _ => false
               end
      end
  end.

Record acc_state := {
  a_vrev : list vframe; a_arev : list aframe; a_curv : f64; a_cura : f64;
  a_fin : bool; a_after_ok : bool }.

Definition acc_step (b : builder) (s : acc_state) (oc : op * rclass) : acc_state :=
  let '(o, c) := oc in
  if a_fin s then
    {| a_vrev := a_vrev s; a_arev := a_arev s; a_curv := a_curv s; a_cura := a_cura s; a_fin := true;
       a_after_ok := a_after_ok s && match c with CErr => true | _ => false end |}
  else
    match c with
    | COk =>
        match o with
        | WV p d k =>
            {| a_vrev := {| vf_pts := tick (decode64 p); vf_dts := tick (decode64 p); vf_data := d; vf_key := k |} :: a_vrev s;
               a_arev := a_arev s; a_curv := a_curv s; a_cura := a_cura s; a_fin := false; a_after_ok := true |}
        | WVD p t d k =>
            {| a_vrev := {| vf_pts := tick (decode64 p); vf_dts := tick (decode64 t); vf_data := d; vf_key := k |} :: a_vrev s;
               a_arev := a_arev s; a_curv := a_curv s; a_cura := a_cura s; a_fin := false; a_after_ok := true |}
        | WA p d =>
            {| a_vrev := a_vrev s; a_arev := {| af_pts := tick (decode64 p); af_data := d |} :: a_arev s;
               a_curv := a_curv s; a_cura := a_cura s; a_fin := false; a_after_ok := true |}
        | EV d ms =>
            let t := tick (a_curv s) in
            {| a_vrev := {| vf_pts := t; vf_dts := t; vf_data := d;
                            vf_key := detect_key (cfg_codec b) (len (a_vrev s)) d |} :: a_vrev s;
               a_arev := a_arev s;
               a_curv := fadd (a_curv s) (fdiv (of_N (u32 ms)) f_1000);
               a_cura := a_cura s; a_fin := false; a_after_ok := true |}
        | EA d smp =>
            let rate := match cfg_audio b with Some a => at_sample_rate a | None => 0 end in
            {| a_vrev := a_vrev s; a_arev := {| af_pts := tick (a_cura s); af_data := d |} :: a_arev s;
               a_curv := a_curv s;
               a_cura := fadd (a_cura s) (fdiv (of_N (u32 smp)) (of_N (u32 rate)));
               a_fin := false; a_after_ok := true |}
        | FIN =>
            {| a_vrev := a_vrev s; a_arev := a_arev s; a_curv := a_curv s; a_cura := a_cura s;
               a_fin := true; a_after_ok := true |}
        end
    | _ => s
    end.

Definition accepted (b : builder) (ops : list op) (cls : list rclass) : hist :=
  let s := fold_left (acc_step b) (combine ops cls)
             {| a_vrev := []; a_arev := []; a_curv := f_zero; a_cura := f_zero; a_fin := false; a_after_ok := true |} in
  {| h_v := rev (a_vrev s); h_a := rev (a_arev s); h_finished := a_fin s; h_after_ok := a_after_ok s |}.

(** * expected sample payloads *)
Definition frame_video (codec : video_codec) (d : bytes) : bytes :=
  match codec with
  | H264 | H265 => concat (map (fun u => be32 (len u) ++ u) (spec_payloads d))
  | _ => d
  end.

Definition frame_audio (a : audio_track) (d : bytes) : bytes :=
  match at_codec a with
  | Opus => d
  | _ => match spec_adts_payload d with Some p => p | None => [] end
  end.

Fixpoint samples_eqb (a : list (bytes * bool)) (b : list (bytes * bool)) : bool :=
  match a, b with
  | [], [] => true
  | (x, k) :: a', (y, j) :: b' => bytes_eqb x y && Bool.eqb k j && samples_eqb a' b'
  | _, _ => false
  end.

Definition HV := [118; 105; 100; 101].
Definition HS := [115; 111; 117; 110].

Definition track_of (h : bytes) (trs : list track) : option track :=
  find (fun t => bytes_eqb (tr_handler t) h) trs.

(* sort ranges by offset *)
Fixpoint ins_range (x : N * N) (l : list (N * N)) : list (N * N) :=
  match l with
  | [] => [x]
  | y :: t => if fst x <=? fst y then x :: l else y :: ins_range x t
  end.
Definition sort_ranges (l : list (N * N)) := fold_right ins_range [] l.

(* contiguous from [start], ending exactly at [stop] *)
Fixpoint tiles (l : list (N * N)) (start stop : N) : bool :=
  match l with
  | [] => start =? stop
  | (o, s) :: t => (o =? start) && tiles t (start + s) stop
  end.

Definition T_MDAT := [109; 100; 97; 116].
Definition T_MOOV := [109; 111; 111; 118].
Definition T_FTYP := [102; 116; 121; 112].

Definition mdat_range (file : bytes) : option (option (N * N)) :=
  match top_layout file with
  | None => None
  | Some lay =>
      match filter (fun e => bytes_eqb (fst (fst e)) T_MDAT) lay with
      | [] => Some None
      | [(_, off, size)] => Some (Some (off + 8, off + size))
      | _ => None
      end
  end.

(** * C01 *)
Definition check_C01 (b : builder) (ops : list op) (cls : list rclass) (file : bytes) : bool :=
  let h := accepted b ops cls in
  if negb (h_finished h) then true
  else
    match read_tracks file with
    | None => false
    | Some (_, trs) =>
        let codec := cfg_codec b in
        let v_ok :=
          match track_of HV trs with
          | Some tr => samples_eqb (track_samples file tr)
                         (map (fun f => (frame_video codec (vf_data f), vf_key f)) (h_v h))
          | None => false
          end in
        let a_ok :=
          match cfg_audio b, track_of HS trs with
          | Some a, Some tr => samples_eqb (track_samples file tr)
                                 (map (fun f => (frame_audio a (af_data f), true)) (h_a h))
          | None, None => true
          | _, _ => false
          end in
        let all_ranges := sort_ranges (concat (map tr_ranges trs)) in
        let tile_ok :=
          match mdat_range file with
          | Some (Some (s, e)) => tiles all_ranges s e
          | Some None => match all_ranges with [] => true | _ => false end
          | None => false
          end in
        v_ok && a_ok && tile_ok && (length trs =? (if cfg_audio b then 2 else 1))%nat
    end.

(** * C02: structure *)
Definition has (t : bytes) (l : list btree) : bool :=
  match find_box t l with Some _ => true | None => false end.
Definition count (t : bytes) (l : list btree) : nat := length (find_all t l).

Definition TT (a b c d : N) := [a; b; c; d].

Definition trak_complete (trak : btree) (video : bool) : bool :=
  let k := b_children trak in
  has (TT 116 107 104 100) k &&
  match find_box (TT 109 100 105 97) k with
  | Some mdia =>
      let mk := b_children mdia in
      has (TT 109 100 104 100) mk && has (TT 104 100 108 114) mk &&
      match find_box (TT 109 105 110 102) mk with
      | Some minf =>
          let ik := b_children minf in
          has (if video then TT 118 109 104 100 else TT 115 109 104 100) ik &&
          (match find_box (TT 100 105 110 102) ik with
           | Some dinf => match find_box (TT 100 114 101 102) (b_children dinf) with
                          | Some dref => has (TT 117 114 108 32) (b_children dref)
                          | None => false end
           | None => false end) &&
          (match find_box (TT 115 116 98 108) ik with
           | Some stbl =>
               let sk := b_children stbl in
               has (TT 115 116 115 100) sk && has (TT 115 116 116 115) sk && has (TT 115 116 115 99) sk &&
               has (TT 115 116 115 122) sk && has (TT 115 116 99 111) sk
           | None => false end)
      | None => false end
  | None => false end.

Fixpoint strictly_increasing (l : list N) (prev : N) : bool :=
  match l with [] => true | x :: t => (prev <? x) && strictly_increasing t x end.

Definition counts_consistent (tr : track) : bool :=
  let n := len (tr_sizes tr) in
  (len (tr_durations tr) =? n) &&
  (match tr_cts tr with Some c => len c =? n | None => true end) &&
  (len (tr_ranges tr) =? n) &&
  (match tr_sync tr with
   | Some l => strictly_increasing l 0 && forallb (fun x => x <=? n) l
   | None => true end) &&
  (* chunks x samples_per_chunk = samples *)
  (sumN (map (fun c => spc_for (tr_stsc tr) c 0) (map fst (enumerate1 1 (tr_chunk_offsets tr)))) =? n).

Definition check_file_structure (naudio : bool) (file : bytes) : bool :=
  match read_tracks file with
  | None => false
  | Some (top, trs) =>
      (match top with Box t _ _ :: _ => bytes_eqb t T_FTYP | [] => false end) &&
      (count T_MOOV top =? 1)%nat && (count T_MDAT top <=? 1)%nat &&
      match find_box T_MOOV top with
      | Some moov =>
          let mk := b_children moov in
          (count (TT 109 118 104 100) mk =? 1)%nat &&
          (match find_all (TT 116 114 97 107) mk with
           | [v] => negb naudio && trak_complete v true
           | [v; a] => naudio && trak_complete v true && trak_complete a false
           | _ => false end) &&
          forallb counts_consistent trs
      | None => false
      end
  end.

Definition check_C02_mux (b : builder) (ops : list op) (cls : list rclass) (file : bytes) : bool :=
  let h := accepted b ops cls in
  if negb (h_finished h) then true
  else check_file_structure (if cfg_audio b then true else false) file.

Definition check_init_structure (init : bytes) : bool :=
  match read_tracks init with
  | None => false
  | Some (top, trs) =>
      (match top with [Box t _ _; Box m _ mk] =>
         bytes_eqb t T_FTYP && bytes_eqb m T_MOOV &&
         (count (TT 109 118 104 100) mk =? 1)%nat &&
         (match find_box (TT 109 118 101 120) mk with
          | Some mvex => match find_box (TT 116 114 101 120) (b_children mvex) with
                         | Some trex => match rd32s 2 (b_payload trex) with
                                        | Some ([0; 1], _) => len (b_payload trex) =? 24
                                        | _ => false end
                         | None => false end
          | None => false end) &&
         (match find_all (TT 116 114 97 107) mk with [v] => trak_complete v true | _ => false end)
       | _ => false end) &&
      forallb counts_consistent trs
  end.

Definition check_segment_structure (seg : bytes) : bool :=
  match parse_file seg with
  | Some [Box t1 _ mk; Box t2 mp _] =>
      bytes_eqb t1 (TT 109 111 111 102) && bytes_eqb t2 T_MDAT &&
      (match mk with
       | [Box a _ _; Box b _ tk] =>
           bytes_eqb a (TT 109 102 104 100) && bytes_eqb b (TT 116 114 97 102) &&
           (match tk with
            | [Box x _ _; Box y _ _; Box z _ _] =>
                bytes_eqb x (TT 116 102 104 100) && bytes_eqb y (TT 116 102 100 116) && bytes_eqb z (TT 116 114 117 110)
            | _ => false end)
       | _ => false end) &&
      (match read_fragment (Box t1 [] mk) with
       | Some fr => len mp =? sumN (map ts_size (fr_samples fr))
       | None => false end)
  | _ => false
  end.

(** * C03: timing *)
Fixpoint listN_eqb (a b : list N) : bool :=
  match a, b with [], [] => true | x :: a', y :: b' => (x =? y) && listN_eqb a' b' | _, _ => false end.
Fixpoint listZ_eqb (a b : list Z) : bool :=
  match a, b with [], [] => true | x :: a', y :: b' => Z.eqb x y && listZ_eqb a' b' | _, _ => false end.

Definition mdhd_duration (p : bytes) : option N :=
  match rd32s 5 p with Some ([0; _; _; _; d], _) => Some d | _ => None end.
Definition mdhd_timescale (p : bytes) : option N :=
  match rd32s 5 p with Some ([0; _; _; ts; _], _) => Some ts | _ => None end.

Definition check_track_timing (tr : track) (dts : list N) (cts : list Z) : bool :=
  listN_eqb (tr_durations tr) (durations_spec dts) &&
  (match tr_cts tr with
   | Some l => existsb (fun c => negb (Z.eqb c 0)) cts && listZ_eqb l cts
   | None => forallb (fun c => Z.eqb c 0) cts
   end) &&
  (match mdhd_duration (tr_mdhd tr) with
   | Some d => d =? sumN (tr_durations tr)
   | None => false end).

Definition check_C03 (b : builder) (ops : list op) (cls : list rclass) (file : bytes) : bool :=
  let h := accepted b ops cls in
  if negb (h_finished h) then true
  else
    match read_tracks file with
    | None => false
    | Some (_, trs) =>
        (match track_of HV trs with
         | Some tr => check_track_timing tr (map vf_dts (h_v h))
                        (map (fun f => (Z.of_N (vf_pts f) - Z.of_N (vf_dts f))%Z) (h_v h))
         | None => false end) &&
        (match cfg_audio b, track_of HS trs with
         | Some _, Some tr => check_track_timing tr (map af_pts (h_a h)) (map (fun _ => 0%Z) (h_a h))
         | None, _ => true
         | _, _ => false end)
    end.

(** * C06: finalisation happens once and accounts for every byte and frame *)
Fixpoint zip_ends (pts : list N) (durs : list N) : list N :=
  match pts, durs with p :: pt, d :: dt => (p + d) :: zip_ends pt dt | _, _ => [] end.

Definition expected_max_end (h : hist) : N :=
  let v := zip_ends (map vf_pts (h_v h)) (durations_spec (map vf_dts (h_v h))) in
  let a := zip_ends (map af_pts (h_a h)) (durations_spec (map af_pts (h_a h))) in
  fold_right N.max 0 (v ++ a).

Definition absdiff (a b : N) : N := if a <? b then b - a else a - b.

(* [lens] = sink length after each call; [stats] = (video, audio, duration bits, bytes)
   returned by the first successful finish, if it returned statistics *)
Definition check_C06 (b : builder) (ops : list op) (cls : list rclass) (lens : list N)
           (stats : option (N * N * N * N)) (faultfree : bool) : bool :=
  let h := accepted b ops cls in
  let fix before (ops : list op) (lens : list N) : bool :=
    match ops, lens with
    | FIN :: _, _ => true
    | _ :: t, l :: lt => (l =? 0) && before t lt
    | _, _ => true
    end in
  let fix after (ops : list op) (cls : list rclass) (lens : list N) (done : option N) : bool :=
    match ops, cls, lens with
    | o :: t, c :: ct, l :: lt =>
        match done with
        | Some l0 => (match c with CErr => true | _ => false end) && (l =? l0) && after t ct lt done
        | None => match o, c with
                  | FIN, COk => after t ct lt (Some l)
                  | _, _ => after t ct lt None
                  end
        end
    | _, _, _ => true
    end in
  let fix fin_len (ops : list op) (cls : list rclass) (lens : list N) : option N :=
    match ops, cls, lens with
    | FIN :: _, COk :: _, l :: _ => Some l
    | _ :: t, _ :: ct, _ :: lt => fin_len t ct lt
    | _, _, _ => None
    end in
  before ops lens && after ops cls lens None &&
  match stats with
  | None => true
  | Some (v, a, dur, bytes) =>
      (v =? len (h_v h)) && (a =? len (h_a h)) &&
      (if faultfree then match fin_len ops cls lens with Some l => bytes =? l | None => false end else true) &&
      (absdiff (tick (decode64 dur)) (expected_max_end h) <=? 1)
  end.

(** * C15: storage order *)
Fixpoint ranges_ordered (l : list (N * N)) : bool :=
  match l with
  | (o, s) :: (((o', _) :: _) as t) => (o + s <=? o') && ranges_ordered t
  | _ => true
  end.

Definition check_C15 (b : builder) (ops : list op) (cls : list rclass) (file : bytes) : bool :=
  let h := accepted b ops cls in
  if negb (h_finished h) then true
  else
    match read_tracks file with
    | None => false
    | Some (_, trs) =>
        forallb (fun tr => ranges_ordered (tr_ranges tr)) trs &&
        match cfg_audio b, track_of HV trs, track_of HS trs with
        | Some _, Some vt, Some at_ =>
            if forallb (fun f => vf_pts f =? vf_dts f) (h_v h) then
              forallb (fun vp =>
                forallb (fun ap =>
                  let '(vf, (vo, vs)) := vp in
                  let '(af, (ao, asz)) := ap in
                  if vf_dts vf <=? af_pts af then vo + vs <=? ao else ao + asz <=? vo)
                  (combine (h_a h) (tr_ranges at_)))
                (combine (h_v h) (tr_ranges vt))
            else true
        | _, _, _ => true
        end
    end.

(** * C09: audio/video synchronisation read back from the file *)
Fixpoint prefix_sums (l : list N) (acc : N) : list N :=
  match l with [] => [] | x :: t => acc :: prefix_sums t (acc + x) end.

Definition check_C09 (b : builder) (ops : list op) (cls : list rclass) (file : bytes) : bool :=
  let h := accepted b ops cls in
  if negb (h_finished h) then true
  else
    match cfg_audio b, h_v h, read_tracks file with
    | Some _, v0 :: _, Some (_, trs) =>
        match track_of HV trs, track_of HS trs with
        | Some vt, Some at_ =>
            let v0_file := match tr_cts vt with Some (c :: _) => c | _ => 0%Z end in
            let a_file := prefix_sums (tr_durations at_) 0 in
            forallb (fun p =>
                       let '(af, t) := p in
                       let in_file := (Z.of_N t - v0_file)%Z in
                       let submitted := (Z.of_N (af_pts af) - Z.of_N (vf_pts v0))%Z in
                       (Z.abs (in_file - submitted) <=? 1)%Z)
                    (combine (h_a h) a_file)
        | _, _ => false
        end
    | _, _, None => false
    | _, _, _ => true
    end.

(** * C08 / C18: two files describe the same media (tracks, samples, timing, configuration) *)
Definition track_view (file : bytes) (tr : track) :=
  (tr_handler tr, b_payload (tr_entry tr), tr_entry_type tr, tr_durations tr, tr_cts tr,
   track_samples file tr, tr_mdhd tr, tr_tkhd tr, tr_stsc tr).

Fixpoint list_eqb {A} (eqb : A -> A -> bool) (a b : list A) : bool :=
  match a, b with
  | [], [] => true
  | x :: a', y :: b' => eqb x y && list_eqb eqb a' b'
  | _, _ => false
  end.

Definition optZ_eqb (a b : option (list Z)) : bool :=
  match a, b with Some x, Some y => listZ_eqb x y | None, None => true | _, _ => false end.

Definition track_same (f1 f2 : bytes) (t1 t2 : track) : bool :=
  bytes_eqb (tr_handler t1) (tr_handler t2) &&
  bytes_eqb (b_payload (tr_entry t1)) (b_payload (tr_entry t2)) &&
  bytes_eqb (tr_entry_type t1) (tr_entry_type t2) &&
  listN_eqb (tr_durations t1) (tr_durations t2) && optZ_eqb (tr_cts t1) (tr_cts t2) &&
  samples_eqb (track_samples f1 t1) (track_samples f2 t2) &&
  bytes_eqb (tr_tkhd t1) (tr_tkhd t2) &&
  list_eqb (fun x y => (fst (fst x) =? fst (fst y)) && (snd (fst x) =? snd (fst y)) && (snd x =? snd y))
           (tr_stsc t1) (tr_stsc t2).

(* everything except chunk offsets, top-level order and (optionally) metadata/language *)
Definition same_media (ignore_mdhd : bool) (f1 f2 : bytes) : bool :=
  match read_tracks f1, read_tracks f2 with
  | Some (_, t1), Some (_, t2) =>
      list_eqb (fun a b => track_same f1 f2 a b && (ignore_mdhd || bytes_eqb (tr_mdhd a) (tr_mdhd b))) t1 t2
  | _, _ => false
  end.

Definition top_types (file : bytes) : list bytes :=
  match top_layout file with Some l => map (fun e => fst (fst e)) l | None => [] end.

(* fast start on/off: order of top-level boxes, same media, same moov apart from stco *)
Definition check_C08 (has_samples : bool) (f_on f_off : bytes) : bool :=
  let order_on := top_types f_on in
  let order_off := top_types f_off in
  list_eqb bytes_eqb order_on [T_FTYP; T_MOOV; T_MDAT] &&
  (list_eqb bytes_eqb order_off [T_FTYP; T_MDAT; T_MOOV] ||
   (negb has_samples && list_eqb bytes_eqb order_off [T_FTYP; T_MOOV])) &&
  same_media false f_on f_off.

(** * C10 / C11: fragmented muxing, judged from the emitted bytes only *)
From Muxide Require Import Model.Frag Spec.FragSpec.

Inductive fout := FoOk | FoErr | FoSeg (b : option bytes) | FoInit (b : bytes) | FoOther.

Fixpoint seg_data_eqb (ss : list seg_sample) (l : list frag_sample) : bool :=
  match ss, l with
  | [], [] => true
  | a :: ss', b :: l' => bytes_eqb (ss_data a) (fs_data b) && Bool.eqb (ss_sync a) (fs_sync b) && seg_data_eqb ss' l'
  | _, _ => false
  end.

(* C10: conservation, sequence numbers, accept/reject decisions *)
Fixpoint check_C10_from (q : aq) (ops : list fop) (outs : list fout) : bool :=
  match ops, outs with
  | o :: t, r :: rt =>
      let '(q', emitted) := aq_step q o in
      (match o, r with
       | FWrite _ d _ _, FoOk => match aq_last q with Some l => negb (d <? l) | None => true end
       | FWrite _ d _ _, FoErr => match aq_last q with Some l => d <? l | None => false end
       | FFlush, FoSeg None => match emitted with [] => true | _ => false end
       | FFlush, FoSeg (Some b) =>
           match emitted, segment_read b with
           | [(seq, l)], Some v => (sv_seq v =? seq) && seg_data_eqb (sv_samples v) l
           | _, _ => false
           end
       | FWrite _ _ _ _, _ | FFlush, _ => false
       | _, _ => true
       end) && check_C10_from q' t rt
  | _, _ => true
  end.
Definition check_C10 (ops : list fop) (outs : list fout) : bool := check_C10_from aq_init ops outs.

(* C11: per-segment timing, base decode times across segments, stable init segment *)
Definition seg_timing_ok (v : seg_view) (l : list frag_sample) : bool :=
  listN_eqb (map ss_duration (sv_samples v)) (spec_durations None l) &&
  listZ_eqb (map ss_cts (sv_samples v)) (map (fun s => (Z.of_N (fs_pts s) - Z.of_N (fs_dts s))%Z) l).

Fixpoint const_interval (l : list N) : bool :=   (* consecutive differences all equal *)
  match l with
  | a :: ((b :: ((c :: _) as t2)) as t) => (b - a =? c - b) && (a <=? b) && const_interval t
  | _ => true
  end.

(* state: abstract queue, previous segment's last dts, the stream constant (first_dts - tfdt), init bytes seen *)
Fixpoint check_C11_from (q : aq) (prev_last : option N) (prev_tfdt : option N) (konst : option Z)
         (init : option bytes) (use_const : bool) (ops : list fop) (outs : list fout) : bool :=
  match ops, outs with
  | o :: t, r :: rt =>
      let '(q', emitted) := aq_step q o in
      match o, r with
      | FFlush, FoSeg (Some b) =>
          match emitted, segment_read b with
          | [(_, (s0 :: _) as l)], Some v =>
              let tf := sv_tfdt v in
              let k := (Z.of_N (fs_dts s0) - Z.of_N tf)%Z in
              seg_timing_ok v l &&
              (match prev_tfdt with Some p => p <=? tf | None => true end) &&
              (match prev_last with Some p => p <=? tf | None => true end) &&
              (if use_const then match konst with Some k0 => Z.eqb k k0 | None => true end else true) &&
              check_C11_from q' (Some (fs_dts (last l s0))) (Some tf) (Some k) init use_const t rt
          | _, _ => false
          end
      | FInit, FoInit b =>
          (match init with Some b0 => bytes_eqb b b0 | None => true end) &&
          check_C11_from q' prev_last prev_tfdt konst (Some b) use_const t rt
      | _, _ => check_C11_from q' prev_last prev_tfdt konst init use_const t rt
      end
  | _, _ => true
  end.

(* the constant-interval clause is claimed when all accepted dts are equally spaced
   and every emitted segment holds at least two samples *)
Definition check_C11 (ops : list fop) (outs : list fout) : bool :=
  let acc := accepted_writes None ops in
  let segs := aq_run aq_init ops in
  let use_const := const_interval (map fs_dts acc) &&
                   forallb (fun sl => (2 <=? length (snd sl))%nat) segs in
  check_C11_from aq_init None None None None use_const ops outs.
