(** Declarative Annex B split, stated without reference to the scanner: the
    units are the byte runs between occurrences of the pattern 00 00 01, a
    start code absorbing one preceding zero byte (the 4-byte form) when that
    byte is not already part of the previous start code. *)
From Muxide Require Import Model.Base.
Open Scope N_scope.

Definition at3 (l : bytes) : bool :=
  match l with a :: b :: c :: _ => (a =? 0) && (b =? 0) && (c =? 1) | _ => false end.

(* positions i with d[i..i+3] = 00 00 01 *)
Fixpoint sc3_positions (l : bytes) (i : nat) : list nat :=
  match l with
  | [] => []
  | _ :: t => if at3 l then i :: sc3_positions t (S i) else sc3_positions t (S i)
  end.

Definition byte_at (d : bytes) (i : nat) : N := nth i d 1.
Definition sub (d : bytes) (a b : nat) : bytes := firstn (b - a) (skipn a d).

(* where the start code whose 00 00 01 sits at [p] begins, given where the
   previous start code ended ([None] = no previous start code) *)
Definition sc_begin (d : bytes) (prev_end : option nat) (p : nat) : nat :=
  match p with
  | O => O
  | S q =>
      if (byte_at d q =? 0) && (match prev_end with None => true | Some e => (e <=? q)%nat end)
      then q else p
  end.

Fixpoint units_from (d : bytes) (ps : list nat) (cur : option nat) : list bytes :=
  match ps with
  | [] => match cur with Some s => [sub d s (length d)] | None => [] end
  | p :: t =>
      let b := sc_begin d cur p in
      match cur with
      | Some s => sub d s b :: units_from d t (Some (p + 3)%nat)
      | None => units_from d t (Some (p + 3)%nat)
      end
  end.

Definition spec_units (d : bytes) : list bytes := units_from d (sc3_positions d 0) None.

Definition nonempty_b (b : bytes) : bool := match b with [] => false | _ => true end.

(* the payload list the converted sample must carry *)
Definition spec_payloads (d : bytes) : list bytes :=
  match filter nonempty_b (spec_units d), d with
  | [], [] => []
  | [], _ => [d]
  | u, _ => u
  end.

(* strict reader of 4-byte length-prefixed units, consuming exactly *)
Fixpoint parse_len4_f (fuel : nat) (b : bytes) : option (list bytes) :=
  match fuel with
  | O => None
  | S f =>
      match b with
      | [] => Some []
      | _ => match rd32 b with
             | Some (n, r) =>
                 if len r <? n then None
                 else match parse_len4_f f (drop n r) with
                      | Some l => Some (take n r :: l)
                      | None => None
                      end
             | None => None
             end
      end
  end.
Definition parse_len4 (b : bytes) := parse_len4_f (S (length b)) b.

Fixpoint list_bytes_eqb (a b : list bytes) : bool :=
  match a, b with
  | [], [] => true
  | x :: a', y :: b' => bytes_eqb x y && list_bytes_eqb a' b'
  | _, _ => false
  end.

(* decision predicate of C14 (Annex B half) *)
Definition check_reframe (d out : bytes) : bool :=
  match parse_len4 out with
  | Some l => list_bytes_eqb l (spec_payloads d)
  | None => false
  end.

(** ADTS: declarative header validity and payload *)
Definition bit (x : N) (k : N) : bool := N.testbit x k.

Definition adts_valid_header (f : bytes) : option (N * N) :=  (* header_len, frame_len *)
  match f with
  | b0 :: b1 :: b2 :: b3 :: b4 :: b5 :: _ :: _ =>
      let sync := (b0 =? 255) && (b1 / 16 =? 15) in
      let mpeg4 := negb (bit b1 3) in
      let layer0 := negb (bit b1 2) && negb (bit b1 1) in
      let hdr := if bit b1 0 then 7 else 9 in
      let sfi := (b2 / 4) mod 16 in
      let chan := (b2 mod 2) * 4 + b3 / 64 in
      let fl := (b3 mod 4) * 2048 + b4 * 8 + b5 / 32 in
      if sync && mpeg4 && layer0 && (hdr <=? len f) && (sfi <=? 12) && (1 <=? chan) &&
         (hdr <? fl) && (fl <=? len f)
      then Some (hdr, fl) else None
  | _ => None
  end.

Definition spec_adts_payload (f : bytes) : option bytes :=
  match adts_valid_header f with
  | Some (hdr, fl) => Some (take (fl - hdr) (drop hdr f))
  | None => None
  end.

(* Opus: RFC 6716 3.1/3.2 structural validity as far as the library claims it *)
Definition spec_opus_valid (p : bytes) : bool :=
  match p with
  | [] => false
  | toc :: rest =>
      if toc mod 4 =? 3 then
        match rest with
        | [] => false
        | fc :: _ => negb (fc mod 64 =? 0)
        end
      else true
  end.
