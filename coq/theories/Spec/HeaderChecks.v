(** Clause-indexed decision predicates of C07, C16, C18, C19 over emitted bytes. *)
From Muxide Require Import Model.Base Model.Boxes Model.Codec Model.Writer Model.Api Model.Frag Model.F64.
From Muxide Require Import Spec.Bmff Spec.Reader Spec.NalSplit Spec.Layout Spec.Headers Spec.Checks.
Open Scope N_scope.

Definition TY (a b c d : N) := [a; b; c; d].
Definition T_TKHD := TY 116 107 104 100. Definition T_MDIA := TY 109 100 105 97.
Definition T_MDHD := TY 109 100 104 100. Definition T_HDLR := TY 104 100 108 114.
Definition T_MINF := TY 109 105 110 102. Definition T_VMHD := TY 118 109 104 100.
Definition T_SMHD := TY 115 109 104 100. Definition T_DINF := TY 100 105 110 102.
Definition T_DREF := TY 100 114 101 102. Definition T_MVHD := TY 109 118 104 100.
Definition T_TRAK := TY 116 114 97 107.  Definition T_UDTA := TY 117 100 116 97.
Definition T_META := TY 109 101 116 97.  Definition T_ILST := TY 105 108 115 116.
Definition T_DATA := TY 100 97 116 97.   Definition T_CNAM := TY 169 110 97 109.
Definition T_CDAY := TY 169 100 97 121.  Definition T_MVEX := TY 109 118 101 120.
Definition T_TREX := TY 116 114 101 120.

Definition first_unit (p : N -> bool) (d : bytes) : option bytes :=
  find (fun u => match u with b :: _ => p b | [] => false end) (spec_units d).

(* the sample entry's configuration box: the single child of the entry *)
Definition entry_config (e : btree) : option btree :=
  match b_children e with [c] => Some c | _ => None end.

Definition opt_bytes_eqb (a : option bytes) (b : bytes) : bool :=
  match a with Some x => bytes_eqb x b | None => false end.

(** * C07: the codec configuration in the file is that of the stream *)
(* [first_key] = payload of the first accepted video frame (None when there is none) *)
Definition check_video_entry (codec : video_codec) (w h : N) (first_key : option bytes) (e : btree) : bool :=
  match strict_visual_entry (b_payload e), entry_config e, first_key with
  | Some (ew, eh), Some cfg, Some d =>
      (ew =? w) && (eh =? h) &&
      match codec with
      | H264 =>
          bytes_eqb (b_typ e) (TY 97 118 99 49) && bytes_eqb (b_typ cfg) (TY 97 118 99 67) &&
          match strict_avcc (b_payload cfg) with
          | Some (sps, pps) => opt_bytes_eqb (first_unit (fun b => b mod 32 =? 7) d) sps &&
                               opt_bytes_eqb (first_unit (fun b => b mod 32 =? 8) d) pps
          | None => false end
      | H265 =>
          bytes_eqb (b_typ e) (TY 104 118 99 49) && bytes_eqb (b_typ cfg) (TY 104 118 99 67) &&
          match strict_hvcc (b_payload cfg) with
          | Some [(32, v); (33, s); (34, p)] =>
              opt_bytes_eqb (first_unit (fun b => (b / 2) mod 64 =? 32) d) v &&
              opt_bytes_eqb (first_unit (fun b => (b / 2) mod 64 =? 33) d) s &&
              opt_bytes_eqb (first_unit (fun b => (b / 2) mod 64 =? 34) d) p
          | _ => false end
      | Av1 =>
          bytes_eqb (b_typ e) (TY 97 118 48 49) && bytes_eqb (b_typ cfg) (TY 97 118 49 67) &&
          match strict_av1c (b_payload cfg), extract_av1_config d with
          | Some a, Some c =>
              bytes_eqb (a1_obus a) (av1_sequence_header c) &&
              (a1_profile a =? av1_seq_profile c) && (a1_level a =? av1_seq_level_idx c) &&
              (a1_tier a =? av1_seq_tier c) && Bool.eqb (a1_high_bitdepth a) (av1_high_bitdepth c) &&
              Bool.eqb (a1_twelve_bit a) (av1_twelve_bit c) && Bool.eqb (a1_mono a) (av1_monochrome c) &&
              Bool.eqb (a1_sx a) (av1_subsampling_x c) && Bool.eqb (a1_sy a) (av1_subsampling_y c) &&
              (a1_csp a =? av1_chroma_sample_position c)
          | _, _ => false end
      | Vp9 =>
          bytes_eqb (b_typ e) (TY 118 112 48 57) && bytes_eqb (b_typ cfg) (TY 118 112 99 67) &&
          (* fields of the keyframe "of the accepted form", at the positions the record uses *)
          match extract_vp9_config d, b_payload cfg with
          | Some c, [1; pr; lv; bd; cs; tf; mc; fr] =>
              (pr =? vp9_profile c) && (bd =? vp9_bit_depth c) && (cs =? vp9_color_space c) &&
              (tf =? vp9_transfer_function c) && (mc =? vp9_matrix_coefficients c) && (fr =? vp9_full_range_flag c)
          | _, _ => false end
      end
  | _, _, _ => false
  end.

Definition check_audio_entry (a : audio_track) (e : btree) : bool :=
  match strict_audio_entry (b_payload e), entry_config e with
  | Some (ch, rate), Some cfg =>
      (ch =? u16 (at_channels a)) &&
      match at_codec a with
      | Opus =>
          bytes_eqb (b_typ e) (TY 79 112 117 115) && (rate =? 48000) &&
          (* decoder configuration claimed for 1..2 channels *)
          (if (1 <=? at_channels a) && (at_channels a <=? 2) then
             match strict_dops (b_payload cfg) with
             | Some (dch, drate, _) => (dch =? at_channels a) && (drate =? 48000)
             | None => false end
           else true)
      | _ =>
          bytes_eqb (b_typ e) (TY 109 112 52 97) &&
          (* 16.16 field holds rates below 65536 only *)
          (if at_sample_rate a <? 65536 then rate =? at_sample_rate a else true) &&
          (* ASC claimed for the 13 standard rates and channel configurations 1..6 *)
          match freq_index (at_sample_rate a) with
          | Some fi =>
              if (1 <=? at_channels a) && (at_channels a <=? 6) then
                match strict_esds (b_payload cfg) with
                | Some asc => match asc_fields asc with
                              | Some (aot, sfi, chan) => (aot =? 2) && (sfi =? fi) && (chan =? at_channels a)
                              | None => false end
                | None => false end
              else true
          | None => true
          end
      end
  | _, _ => false
  end.

Definition first_key_of (h : hist) : option bytes :=
  match h_v h with f :: _ => Some (vf_data f) | [] => None end.

Definition check_C07 (b : builder) (ops : list op) (cls : list rclass) (file : bytes) : bool :=
  let h := accepted b ops cls in
  if negb (h_finished h) then true
  else
    match read_tracks file with
    | None => false
    | Some (_, trs) =>
        let '(w, hh) := cfg_dims b in
        (match track_of HV trs, first_key_of h with
         | Some tr, Some d => check_video_entry (cfg_codec b) w hh (Some d) (tr_entry tr)
         | Some _, None => true     (* no keyframe was ever accepted: outside the quantifier *)
         | None, _ => false end) &&
        (match cfg_audio b, track_of HS trs with
         | Some a, Some tr => check_audio_entry a (tr_entry tr)
         | None, _ => true
         | _, _ => false end)
    end.

(** * C18: metadata *)
Definition ilst_item (t : bytes) (ilst : btree) : list btree := find_all t (b_children ilst).
Definition item_text (item : btree) : option bytes :=
  match b_children item with
  | [Box ty p _] => if bytes_eqb ty T_DATA && bytes_eqb (firstn 8 p) [0;0;0;1;0;0;0;0] then Some (skipn 8 p) else None
  | _ => None
  end.

Definition lower3 (l : bytes) : bool :=
  match l with [a; b; c] => forallb (fun x => (97 <=? x) && (x <=? 122)) [a; b; c] | _ => false end.

Definition check_C18 (b : builder) (ops : list op) (cls : list rclass) (file : bytes) : bool :=
  let h := accepted b ops cls in
  if negb (h_finished h) then true
  else
    match read_tracks file with
    | None => false
    | Some (top, trs) =>
        let md := match b_meta b with Some m => m | None => md_default end in
        let udta := match find_box T_MOOV top with Some moov => find_all T_UDTA (b_children moov) | None => [] end in
        (match md_title md, md_creation_time md, udta with
         | None, None, [] => true
         | None, None, _ => false
         | t, c, [u] =>
             match find_path [T_META; T_ILST] (b_children u) with
             | Some ilst =>
                 (match t with
                  | Some title => match ilst_item T_CNAM ilst with
                                  | [it] => opt_bytes_eqb (item_text it) title
                                  | _ => false end
                  | None => match ilst_item T_CNAM ilst with [] => true | _ => false end
                  end) &&
                 (match c with
                  | Some secs => match ilst_item T_CDAY ilst with
                                 | [it] => if secs <? 253402300800 then opt_bytes_eqb (item_text it) (iso8601 secs)
                                           else match item_text it with Some _ => true | None => false end
                                 | _ => false end
                  | None => match ilst_item T_CDAY ilst with [] => true | _ => false end
                  end)
             | None => false
             end
         | _, _, _ => false
         end) &&
        (* language recoverable from every track's media header *)
        forallb (fun tr =>
                   match strict_mdhd (tr_mdhd tr), md_language md with
                   | Some m, Some l => if lower3 l then bytes_eqb (md_lang m) l else true
                   | Some m, None => bytes_eqb (md_lang m) [117; 110; 100]
                   | None, _ => false
                   end) trs
    end.

(** * C19: header boxes follow their specifications (clause-indexed) *)
(* clause ids: 1 mvhd, 2 track ids / next_track_ID, 3 tkhd layout+dims, 4 track enabled, 5 mdhd,
   6 hdlr, 7 vmhd/smhd, 8 dref, 9 sample entry fixed part, 10 codec configuration record layout,
   11 audio entry + esds/dOps layout, 12 trex *)
Definition clause (id : N) (ok : bool) : list N := if ok then [] else [id].

Definition trak_box (trak : btree) (path : list bytes) : option btree := find_path path (b_children trak).

Definition config_layout_ok (e : btree) : bool :=
  match entry_config e with
  | Some cfg =>
      let t := b_typ e in
      if bytes_eqb t (TY 97 118 99 49) then match strict_avcc (b_payload cfg) with Some _ => true | None => false end
      else if bytes_eqb t (TY 104 118 99 49) then match strict_hvcc (b_payload cfg) with Some [(32,_);(33,_);(34,_)] => true | _ => false end
      else if bytes_eqb t (TY 97 118 48 49) then match strict_av1c (b_payload cfg) with Some _ => true | None => false end
      else if bytes_eqb t (TY 118 112 48 57) then match strict_vpcc (b_payload cfg) with Some _ => true | None => false end
      else false
  | None => false
  end.

Definition audio_config_layout_ok (a : audio_track) (e : btree) : bool :=
  match entry_config e with
  | Some cfg =>
      match at_codec a with
      | Opus => match strict_dops (b_payload cfg) with Some _ => true | None => false end
      | _ => match strict_esds (b_payload cfg) with Some _ => true | None => false end
      end
  | None => false
  end.

Definition header_clauses (movie_ts media_ts w h : N) (audio : option audio_track) (top : list btree) : list N :=
  match find_box T_MOOV top with
  | None => [1]
  | Some moov =>
      let mk := b_children moov in
      let traks := find_all T_TRAK mk in
      let tkhds := map (fun t => match trak_box t [T_TKHD] with Some x => strict_tkhd (b_payload x) | None => None end) traks in
      let ids := map (fun t => match trak_box t [T_TKHD] with Some x => u32_at (b_payload x) 12 | None => 0 end) traks in
      let mv := match find_box T_MVHD mk with Some x => strict_mvhd (b_payload x) | None => None end in
      clause 1 (match mv with Some m => mv_timescale m =? movie_ts | None => false end) ++
      clause 2 (forallb (fun i => negb (i =? 0)) ids &&
                (match ids with [a; b] => negb (a =? b) | _ => true end) &&
                match find_box T_MVHD mk with
                | Some x => forallb (fun i => i <? u32_at (b_payload x) 96) ids
                | None => false end) ++
      clause 3 (match tkhds with
                | Some v :: rest => (tk_width v =? w * 65536) && (tk_height v =? h * 65536) &&
                                    forallb (fun o => match o with Some _ => true | None => false end) rest
                | _ => false end) ++
      clause 4 (forallb (fun t => match trak_box t [T_TKHD] with
                                  | Some x => N.testbit (u32_at (b_payload x) 0) 0 | None => false end) traks) ++
      clause 5 (forallb (fun t => match trak_box t [T_MDIA; T_MDHD] with
                                  | Some x => match strict_mdhd (b_payload x) with
                                              | Some m => md_timescale m =? media_ts | None => false end
                                  | None => false end) traks) ++
      clause 6 (match traks with
                | v :: rest =>
                    (match trak_box v [T_MDIA; T_HDLR] with
                     | Some x => opt_bytes_eqb (strict_hdlr (b_payload x)) HV | None => false end) &&
                    forallb (fun t => match trak_box t [T_MDIA; T_HDLR] with
                                      | Some x => opt_bytes_eqb (strict_hdlr (b_payload x)) HS | None => false end) rest
                | [] => false end) ++
      clause 7 (match traks with
                | v :: rest =>
                    (match trak_box v [T_MDIA; T_MINF; T_VMHD] with Some x => strict_vmhd (b_payload x) | None => false end) &&
                    forallb (fun t => match trak_box t [T_MDIA; T_MINF; T_SMHD] with
                                      | Some x => strict_smhd (b_payload x) | None => false end) rest
                | [] => false end) ++
      clause 8 (forallb (fun t => match trak_box t [T_MDIA; T_MINF; T_DINF; T_DREF] with
                                  | Some x => strict_dref x | None => false end) traks) ++
      (match traks with
       | v :: rest =>
           match trak_box v [T_MDIA; T_MINF; TY 115 116 98 108; TY 115 116 115 100] with
           | Some stsd =>
               match b_children stsd with
               | [e] =>
                   clause 9 ((u32_at (b_payload stsd) 0 =? 0) && (u32_at (b_payload stsd) 4 =? 1) &&
                             match strict_visual_entry (b_payload e) with
                             | Some (ew, eh) => (ew =? w) && (eh =? h) | None => false end) ++
                   clause 10 (config_layout_ok e)
               | _ => [9; 10]
               end
           | None => [9; 10]
           end ++
           match audio, rest with
           | Some a, [at_] =>
               match trak_box at_ [T_MDIA; T_MINF; TY 115 116 98 108; TY 115 116 115 100] with
               | Some stsd =>
                   match b_children stsd with
                   | [e] => clause 11 (match strict_audio_entry (b_payload e) with Some _ => true | None => false end &&
                                       audio_config_layout_ok a e)
                   | _ => [11]
                   end
               | None => [11]
               end
           | None, [] => []
           | _, _ => [11]
           end
       | [] => [9; 10]
       end)
  end.

Definition failed_C19_mux (b : builder) (ops : list op) (cls : list rclass) (file : bytes) : list N :=
  let h := accepted b ops cls in
  if negb (h_finished h) then []
  else match parse_file file with
       | None => [0]
       | Some top => let '(w, hh) := cfg_dims b in header_clauses 1000 90000 w hh (cfg_audio b) top
       end.

Definition failed_C19_init (w h ts : N) (init : bytes) : list N :=
  match parse_file init with
  | None => [0]
  | Some top =>
      header_clauses ts ts w h None top ++
      clause 12 (match find_path [T_MOOV; T_MVEX; T_TREX] top with
                 | Some x => match strict_trex (b_payload x) with Some (tid, sdi) => (tid =? 1) && (sdi =? 1) | None => false end
                 | None => false end)
  end.

(** * C16: every fixed-width numeric field holds the mathematical value (clause-indexed)
    clause ids: 1 stsz sizes, 2 stts durations, 3 ctts offsets, 4 mdhd durations, 5 mvhd duration,
    6 width/height, 7 parameter-set lengths, 8 channel count / descriptor lengths *)
Definition failed_C16_mux (b : builder) (ops : list op) (cls : list rclass) (file : bytes) : list N :=
  let h := accepted b ops cls in
  if negb (h_finished h) then []
  else
    match read_tracks file with
    | None => [0]
    | Some (top, trs) =>
        let vdts := map vf_dts (h_v h) in
        let vdur := durations_spec vdts in
        let adur := durations_spec (map af_pts (h_a h)) in
        let '(w, hh) := cfg_dims b in
        match track_of HV trs with
        | None => [0]
        | Some vt =>
            clause 1 (listN_eqb (tr_sizes vt) (map (fun f => len (frame_video (cfg_codec b) (vf_data f))) (h_v h))) ++
            clause 2 (listN_eqb (tr_durations vt) vdur &&
                      match cfg_audio b, track_of HS trs with
                      | Some _, Some at_ => listN_eqb (tr_durations at_) adur
                      | _, _ => true end) ++
            clause 3 (match tr_cts vt with
                      | Some l => listZ_eqb l (map (fun f => (Z.of_N (vf_pts f) - Z.of_N (vf_dts f))%Z) (h_v h))
                      | None => forallb (fun f => vf_pts f =? vf_dts f) (h_v h) end) ++
            clause 4 (match strict_mdhd (tr_mdhd vt) with Some m => md_duration m =? sumN vdur | None => true end &&
                      match cfg_audio b, track_of HS trs with
                      | Some _, Some at_ => match strict_mdhd (tr_mdhd at_) with
                                            | Some m => md_duration m =? sumN adur | None => true end
                      | _, _ => true end) ++
            clause 5 (match find_path [T_MOOV; T_MVHD] top with
                      | Some x => u32_at (b_payload x) 16 =? sumN vdur * 1000 / 90000
                      | None => false end) ++
            clause 6 (match strict_visual_entry (b_payload (tr_entry vt)) with
                      | Some (ew, eh) => (ew =? w) && (eh =? hh) | None => true end) ++
            (* parameter-set (and configuration-record) lengths and contents: the record decodes strictly to
               the configuration of the first accepted key frame (same test as C07's video part) *)
            clause 7 (match first_key_of h with
                      | Some d => check_video_entry (cfg_codec b) w hh (Some d) (tr_entry vt)
                      | None => true end) ++
            clause 8 (match cfg_audio b, track_of HS trs with
                      | Some a, Some at_ =>
                          match strict_audio_entry (b_payload (tr_entry at_)) with
                          | Some (ch, rate) =>
                              (ch =? at_channels a) &&
                              (rate =? match at_codec a with Opus => 48000 | _ => at_sample_rate a end)
                          | None => true end
                      | _, _ => true end)
        end
    end.

(* payload of a box given as bytes (drop size and type) *)
Definition payload_of (box : bytes) : bytes := skipn 8 box.
