(** Equivalent API paths (C17): the automatic-timestamp convenience calls rewritten as
    explicit-timestamp calls.  [explicit_of m ops] replaces every encode_video / encode_audio of a
    history by the write_video / write_audio call carrying the clock value (as an f64 bit pattern)
    and keyframe flag the convenience call would have used at that point of the history. *)
From Muxide Require Import Model.Base Model.F64 Model.Writer Model.Api.
Open Scope N_scope.

Definition explicit_op (m : muxer) (o : op) : op :=
  match o with
  | EV d _ => WV (encode64 (m_cur_vpts m)) d (api_is_keyframe m d)
  | EA d _ => match m_audio m with
              | Some _ => WA (encode64 (m_cur_apts m)) d
              | None => o
              end
  | _ => o
  end.

Fixpoint explicit_of (m : muxer) (ops : list op) : list op :=
  match ops with
  | [] => []
  | o :: t =>
      match step m o with
      | (_, RPanic _) => [explicit_op m o]
      | (m', _) => explicit_op m o :: explicit_of m' t
      end
  end.
