(** Definitions shared by the layout / timing theorems (C01, C03, C15). *)
From Coq Require Import Sorting.Sorted Sorting.Permutation.
From Muxide Require Import Model.Base Model.Boxes Model.Writer.
Open Scope N_scope.

(* queue well-formedness maintained by the writer *)
Definition dts_increasing (vs : list sample) : Prop :=
  StronglySorted (fun a b => s_dts a < s_dts b) vs.
Definition pts_nondecreasing (as_ : list sample) : Prop :=
  StronglySorted (fun a b => s_pts a <= s_pts b) as_.

Definition is_video_entry (e : sched_entry) : bool :=
  match snd (fst e) with KVideo => true | KAudio => false end.
Definition is_audio_entry (e : sched_entry) : bool := negb (is_video_entry e).

Definition video_entries (vs : list sample) : list sched_entry :=
  map (fun p => (s_dts (snd p), KVideo, fst p)) (index_from 0 vs).
Definition audio_entries (as_ : list sample) : list sched_entry :=
  map (fun p => (s_pts (snd p), KAudio, fst p)) (index_from 0 as_).

Definition sched_le (a b : sched_entry) : Prop := sched_leb a b = true.

(* durations a track must carry for the decode times [dts] (C03) *)
Definition durations_spec (dts : list N) : list N :=
  match dts with
  | [] => []
  | [_] => [1]
  | _ =>
      let diffs := (fix go (l : list N) : list N :=
                      match l with a :: ((b :: _) as t) => (b - a) :: go t | _ => [] end) dts in
      diffs ++ [last diffs 1]
  end.

(* reachable writer states: every queued sample but the newest carries the
   distance to its successor; the newest carries none; last_delta is the most
   recent distance *)
Fixpoint durs_linked (rev_samples : list sample) (key : sample -> N) : Prop :=
  match rev_samples with
  | [] => True
  | [s] => True
  | newer :: ((older :: _) as t) => s_dur older = Some (key newer - key older) /\ durs_linked t key
  end.

Definition WInv (w : writer) : Prop :=
  dts_increasing (vsamples w) /\ pts_nondecreasing (asamples w) /\
  durs_linked (w_vrev w) s_dts /\ durs_linked (w_arev w) s_pts /\
  (match w_vrev w with
   | [] => w_vprev w = None /\ w_vlast_delta w = None
   | [s] => w_vprev w = Some (s_dts s) /\ w_vlast_delta w = None /\ s_dur s = None
   | s :: p :: _ => w_vprev w = Some (s_dts s) /\ w_vlast_delta w = Some (s_dts s - s_dts p) /\ s_dur s = None
   end) /\
  (match w_arev w with
   | [] => w_aprev w = None /\ w_alast_delta w = None
   | [s] => w_aprev w = Some (s_pts s) /\ w_alast_delta w = None /\ s_dur s = None
   | s :: p :: _ => w_aprev w = Some (s_pts s) /\ w_alast_delta w = Some (s_pts s - s_pts p) /\ s_dur s = None
   end) /\
  Forall (fun s => s_dts s = s_pts s) (w_arev w).

(** side conditions used by the end-to-end theorems *)
Definition samples_ok (l : list sample) : Prop :=
  Forall (fun s => 0 < len (s_data s) /\ len (s_data s) < 4294967296) l.

(* every queued sample is non-empty: the API rejects empty frames and every conversion of a
   non-empty frame is non-empty *)
Definition NonEmptyInv (w : writer) : Prop := samples_ok (w_vrev w) /\ samples_ok (w_arev w).
