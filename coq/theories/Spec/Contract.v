(** The documented input contract (docs/contract.md + the clause list of
    property C04) as a declarative predicate over the ACCEPTED history only.
    Nothing here mentions the muxer's or the writer's internal state. *)
From Coq Require Import Floats.SpecFloat.
From Muxide Require Import Model.Base Model.F64 Model.Codec Model.Boxes Model.Writer Model.Api.
From Muxide Require Import Spec.NalSplit.
Open Scope N_scope.

(** precondition codes *)
Definition P_NotFinished := 1.        (* muxer not yet finished (a finalisation was not yet attempted) *)
Definition P_AudioConfigured := 2.
Definition P_NonEmpty := 3.
Definition P_FinitePts := 4.
Definition P_NonNegPts := 5.
Definition P_FiniteDts := 6.
Definition P_NonNegDts := 7.
Definition P_VideoPtsIncreasing := 8. (* write_video: pts > pts of the previous accepted video frame *)
Definition P_DecodeOrder := 9.        (* strictly increasing decode time (seconds for explicit DTS, 90 kHz ticks always) *)
Definition P_GapFits32 := 10.         (* inter-sample gap fits the 32-bit duration field *)
Definition P_CtsFits32 := 11.         (* pts - dts fits the signed 32-bit composition offset *)
Definition P_FirstKey := 12.
Definition P_FirstConfig := 13.
Definition P_AudioNonDecreasing := 14.
Definition P_AudioNotBeforeVideo := 15.
Definition P_ValidAudioFraming := 16.
Definition P_DimsFit16 := 17.         (* finish: width/height fit the 16-bit sample-entry fields *)
Definition P_FileFits32 := 18.        (* finish: media data / chunk offsets fit 32-bit fields *)
Definition P_SinkOk := 19.            (* finish: the sink accepted every write *)
Definition P_ParamSetsFit16 := 20.    (* finish: the parameter sets of the first key frame fit avcC/hvcC's 16-bit length fields *)

(** summary of the accepted history *)
Record csum := {
  c_closed : bool;                 (* a finalisation was attempted (successfully or not) *)
  c_vcount : N;
  c_last_vpts : option f64;        (* pts of the last accepted video frame *)
  c_last_vdts : option f64;        (* dts (seconds) of the last accepted explicit-DTS frame *)
  c_last_vtick : option N;         (* decode tick of the last accepted video frame *)
  c_first_vpts : option f64;
  c_last_apts : option f64;
  c_last_atick : option N;
  c_curv : f64; c_cura : f64;
  c_params_fit : bool }.           (* the first accepted key frame's parameter sets are each shorter than 65536 bytes *)

Definition csum0 : csum :=
  {| c_closed := false; c_vcount := 0; c_last_vpts := None; c_last_vdts := None; c_last_vtick := None;
     c_first_vpts := None; c_last_apts := None; c_last_atick := None; c_curv := f_zero; c_cura := f_zero;
     c_params_fit := true |}.

Definition has_type (p : N -> bool) (units : list bytes) : bool :=
  existsb (fun u => match u with b :: _ => p b | [] => false end) units.

(* the first keyframe carries its codec configuration *)
Definition has_config (codec : video_codec) (d : bytes) : bool :=
  match codec with
  | H264 => has_type (fun b => b mod 32 =? 7) (spec_units d) && has_type (fun b => b mod 32 =? 8) (spec_units d)
  | H265 => has_type (fun b => (b / 2) mod 64 =? 32) (spec_units d) &&
            has_type (fun b => (b / 2) mod 64 =? 33) (spec_units d) &&
            has_type (fun b => (b / 2) mod 64 =? 34) (spec_units d)
  | Av1 => match extract_av1_config d with Some _ => true | None => false end
  | Vp9 => match extract_vp9_config d with Some _ => true | None => false end
  end.

(* the first unit of each parameter-set type of the declarative split is shorter than 65536 bytes
   (avcC / hvcC store it behind a 16-bit length); AV1 and VP9 records have no such field *)
Definition first_unit_c (p : N -> bool) (d : bytes) : option bytes :=
  find (fun u => match u with b :: _ => p b | [] => false end) (spec_units d).
Definition unit_fits (o : option bytes) : bool := match o with Some u => len u <=? U16MAX | None => true end.
Definition params_fit (codec : video_codec) (d : bytes) : bool :=
  match codec with
  | H264 => unit_fits (first_unit_c (fun b => b mod 32 =? 7) d) && unit_fits (first_unit_c (fun b => b mod 32 =? 8) d)
  | H265 => unit_fits (first_unit_c (fun b => (b / 2) mod 64 =? 32) d) &&
            unit_fits (first_unit_c (fun b => (b / 2) mod 64 =? 33) d) &&
            unit_fits (first_unit_c (fun b => (b / 2) mod 64 =? 34) d)
  | _ => true
  end.

Definition valid_audio (a : audio_track) (d : bytes) : bool :=
  match at_codec a with
  | Opus => spec_opus_valid d
  | _ => match spec_adts_payload d with Some _ => true | None => false end
  end.

Definition nb (c : bool) (code : N) : list N := if c then [] else [code].

Definition opt_lt (x : f64) (o : option f64) : bool :=   (* o < x, vacuously true without o *)
  match o with Some p => fltb p x | None => true end.
Definition opt_le (x : f64) (o : option f64) : bool :=   (* o <= x *)
  match o with Some p => fleb p x | None => true end.

(* preconditions of a video frame with presentation time [pts], decode time [dts] *)
Definition video_pre (b : builder) (s : csum) (pts dts : f64) (explicit : bool) (d : bytes) (key : bool) : list N :=
  let codec := match b_video b with Some (c, _, _) => c | None => H264 end in
  nb (negb (c_closed s)) P_NotFinished ++
  nb (match d with [] => false | _ => true end) P_NonEmpty ++
  nb (is_finite pts) P_FinitePts ++
  nb (negb (is_finite pts) || negb (fltb pts f_zero)) P_NonNegPts ++
  (if explicit then nb (is_finite dts) P_FiniteDts ++ nb (negb (is_finite dts) || negb (fltb dts f_zero)) P_NonNegDts
   else []) ++
  (if is_finite pts && is_finite dts && negb (fltb pts f_zero) && negb (fltb dts f_zero) then
     (if explicit then nb (opt_lt dts (c_last_vdts s)) P_DecodeOrder
      else nb (opt_lt pts (c_last_vpts s)) P_VideoPtsIncreasing) ++
     nb (match c_last_vtick s with Some t => t <? tick dts | None => true end) P_DecodeOrder ++
     nb (match c_last_vtick s with Some t => tick dts - t <=? U32MAX | None => true end) P_GapFits32 ++
     nb (cts_fits (tick pts) (tick dts)) P_CtsFits32
   else []) ++
  (match c_last_vtick s with
   | None => nb key P_FirstKey ++ nb (match d with [] => true | _ => has_config codec d end) P_FirstConfig
   | Some _ => []
   end).

Definition audio_pre (b : builder) (s : csum) (pts : f64) (d : bytes) : list N :=
  nb (negb (c_closed s)) P_NotFinished ++
  match audio_of (b_audio b) with
  | None => [P_AudioConfigured]
  | Some a =>
      nb (is_finite pts) P_FinitePts ++
      nb (negb (is_finite pts) || negb (fltb pts f_zero)) P_NonNegPts ++
      nb (match d with [] => false | _ => true end) P_NonEmpty ++
      (if is_finite pts && negb (fltb pts f_zero) then
         nb (opt_le pts (c_last_apts s)) P_AudioNonDecreasing ++
         nb (match c_first_vpts s with Some v => fleb v pts | None => false end) P_AudioNotBeforeVideo ++
         nb (match c_last_atick s with Some t => tick pts - t <=? U32MAX | None => true end) P_GapFits32
       else []) ++
      nb (match d with [] => true | _ => valid_audio a d end) P_ValidAudioFraming
  end.

Definition detect_key_c (codec : video_codec) (vcount : N) (d : bytes) : bool :=
  match d with
  | [] => false
  | _ =>
      match codec with
      | H264 => has_type (fun b => b mod 32 =? 5) (spec_units d)
      | H265 => has_type (fun b => let t := (b / 2) mod 64 in (19 <=? t) && (t <=? 21)) (spec_units d)
      | Av1 => vcount =? 0
      | Vp9 => match d with
               | 73 :: 131 :: 66 :: b3 :: _ => negb (N.testbit b3 5 || N.testbit b3 4)
               | _ => false
               end
      end
  end.

(* the violated preconditions of a call in the situation summarised by [s] *)
Definition violated (b : builder) (s : csum) (o : op) : list N :=
  let codec := match b_video b with Some (c, _, _) => c | None => H264 end in
  match o with
  | WV p d k => video_pre b s (decode64 p) (decode64 p) false d k
  | WVD p t d k => video_pre b s (decode64 p) (decode64 t) true d k
  | WA p d => audio_pre b s (decode64 p) d
  | EV d ms => video_pre b s (c_curv s) (c_curv s) false d (detect_key_c codec (c_vcount s) d)
  | EA d smp => audio_pre b s (c_cura s) d
  | FIN =>
      nb (negb (c_closed s)) P_NotFinished ++
      nb (match b_video b with Some (_, w, h) => (w <=? U16MAX) && (h <=? U16MAX) | None => true end) P_DimsFit16 ++
      nb (c_params_fit s) P_ParamSetsFit16
  end.

(** outcomes as observed at the API: success, or an error class given by the
    set of preconditions it may name *)
Inductive outcome := OOk | OErr (names : list N) | OPanic.

Definition err_names (e : merr) : list N :=
  match e with
  | MissingVideoConfig => []
  | MIo IoInvalidData => [P_GapFits32; P_CtsFits32; P_FileFits32]
  | MIo IoInvalidInput => [P_DimsFit16; P_ParamSetsFit16]
  | MIo IoOther => [P_NotFinished]
  | MIo _ => [P_SinkOk]
  | AlreadyFinished => [P_NotFinished]
  | NegativeVideoPts _ | NegativeAudioPts _ => [P_NonNegPts]
  | NegativeVideoDts _ => [P_NonNegDts]
  | InvalidVideoPts _ | InvalidAudioPts _ => [P_FinitePts]
  | InvalidVideoDts _ => [P_FiniteDts]
  | AudioNotConfigured => [P_AudioConfigured]
  | EmptyAudioFrame _ | EmptyVideoFrame _ => [P_NonEmpty]
  | NonIncreasingVideoPts _ => [P_VideoPtsIncreasing; P_DecodeOrder]
  | DecreasingAudioPts _ => [P_AudioNonDecreasing]
  | AudioBeforeFirstVideo => [P_AudioNotBeforeVideo]
  | FirstVideoFrameMustBeKeyframe => [P_FirstKey]
  | FirstVideoFrameMissingSpsPps | FirstAv1FrameMissingSequenceHeader
  | FirstVp9FrameMissingSequenceHeader => [P_FirstConfig]
  | MInvalidAdtsDetailed _ _ | MInvalidOpusPacket _ => [P_ValidAudioFraming]
  | NonIncreasingDts _ => [P_DecodeOrder]
  end.

Definition outcome_of (r : result) : outcome :=
  match r with
  | ROk | RStats _ => OOk
  | RErr e => OErr (err_names e)
  | RPanic _ => OPanic
  end.

(* summary update after an ACCEPTED call; rejected calls leave it unchanged,
   except that a finish attempt which got past its argument checks closes the muxer *)
Definition csum_ok (b : builder) (s : csum) (o : op) : csum :=
  let codec := match b_video b with Some (c, _, _) => c | None => H264 end in
  let upd_v (pts dts : f64) (explicit : bool) (curv : f64) (d : bytes) :=
    {| c_params_fit := match c_last_vtick s with None => params_fit codec d | Some _ => c_params_fit s end;
       c_closed := c_closed s; c_vcount := c_vcount s + 1; c_last_vpts := Some pts;
       c_last_vdts := if explicit then Some dts else c_last_vdts s;
       c_last_vtick := Some (tick dts);
       c_first_vpts := match c_first_vpts s with None => Some pts | x => x end;
       c_last_apts := c_last_apts s; c_last_atick := c_last_atick s; c_curv := curv; c_cura := c_cura s |} in
  let upd_a (pts : f64) (cura : f64) :=
    {| c_params_fit := c_params_fit s; c_closed := c_closed s; c_vcount := c_vcount s; c_last_vpts := c_last_vpts s; c_last_vdts := c_last_vdts s;
       c_last_vtick := c_last_vtick s; c_first_vpts := c_first_vpts s;
       c_last_apts := Some pts; c_last_atick := Some (tick pts); c_curv := c_curv s; c_cura := cura |} in
  match o with
  | WV p d _ => upd_v (decode64 p) (decode64 p) false (c_curv s) d
  | WVD p t d _ => upd_v (decode64 p) (decode64 t) true (c_curv s) d
  | WA p _ => upd_a (decode64 p) (c_cura s)
  | EV d ms => upd_v (c_curv s) (c_curv s) false (fadd (c_curv s) (fdiv (of_N (u32 ms)) f_1000)) d
  | EA _ smp =>
      let rate := match audio_of (b_audio b) with Some a => at_sample_rate a | None => 0 end in
      upd_a (c_cura s) (fadd (c_cura s) (fdiv (of_N (u32 smp)) (of_N (u32 rate))))
  | FIN => {| c_params_fit := c_params_fit s; c_closed := true; c_vcount := c_vcount s; c_last_vpts := c_last_vpts s; c_last_vdts := c_last_vdts s;
              c_last_vtick := c_last_vtick s; c_first_vpts := c_first_vpts s; c_last_apts := c_last_apts s;
              c_last_atick := c_last_atick s; c_curv := c_curv s; c_cura := c_cura s |}
  end.

Definition close (s : csum) : csum :=
  {| c_params_fit := c_params_fit s; c_closed := true; c_vcount := c_vcount s; c_last_vpts := c_last_vpts s; c_last_vdts := c_last_vdts s;
     c_last_vtick := c_last_vtick s; c_first_vpts := c_first_vpts s; c_last_apts := c_last_apts s;
     c_last_atick := c_last_atick s; c_curv := c_curv s; c_cura := c_cura s |}.

Definition mem (x : N) (l : list N) : bool := existsb (N.eqb x) l.

(* one call obeys the contract: it succeeds iff nothing is violated (finish may
   additionally fail for reasons outside the caller's control: the sink, or the
   4 GiB limits), and a failure names a precondition this call violated *)
Definition call_ok (b : builder) (s : csum) (o : op) (out : outcome) : bool :=
  let v := violated b s o in
  match out with
  | OOk => match v with [] => true | _ => false end
  | OErr names =>
      existsb (fun n => mem n v) names ||
      (match o with FIN => mem P_SinkOk names || mem P_FileFits32 names | _ => false end)
  | OPanic => false
  end.

Definition csum_next (b : builder) (s : csum) (o : op) (out : outcome) : csum :=
  match out with
  | OOk => csum_ok b s o
  | OErr names =>
      match o with
      | FIN => if mem P_SinkOk names || mem P_FileFits32 names then close s else s
      | _ => s
      end
  | OPanic => s
  end.

Fixpoint contract_holds (b : builder) (s : csum) (ops : list op) (outs : list outcome) : bool :=
  match ops, outs with
  | o :: t, r :: rt => call_ok b s o r && contract_holds b (csum_next b s o r) t rt
  | _, _ => true
  end.

Definition check_C04 (b : builder) (ops : list op) (outs : list outcome) : bool :=
  contract_holds b csum0 ops outs.
