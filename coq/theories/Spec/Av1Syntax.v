(** AV1 sequence_header_obu syntax (AV1 Bitstream & Decoding Process
    Specification, section 5.5), transcribed as an ENCODER from an abstract
    syntax tree.  Every syntax element of 5.5.1 (sequence header), 5.5.2 (color
    config), 5.5.3 (timing info), 5.5.4 (decoder model info), 5.5.5 (operating
    parameters info) and uvlc() (4.10.3) is present.  Independent of the
    model's parser. *)
From Muxide Require Import Model.Base.
Open Scope N_scope.

Definition bits := list bool.

(* f(n): n-bit unsigned, most significant bit first *)
Fixpoint f (n : nat) (v : N) : bits :=
  match n with
  | O => []
  | S k => N.testbit v (N.of_nat k) :: f k v
  end.
Definition f1 (b : bool) : bits := [b].

(* uvlc(): value v < 2^32 - 1 is coded as lz zeros, a one, then lz bits of v + 1 - 2^lz,
   where lz = floor(log2(v + 1)) *)
Definition uvlc (v : N) : bits :=
  let lz := N.to_nat (N.log2 (v + 1)) in
  repeat false lz ++ [true] ++ f lz (v + 1 - 2 ^ N.log2 (v + 1)).

Record timing_info := {
  ti_num_units_in_display_tick : N; ti_time_scale : N;
  ti_num_ticks_per_picture_minus_1 : option N   (* Some = equal_picture_interval *) }.

Record decoder_model_info := {
  dm_buffer_delay_length_minus_1 : N; dm_num_units_in_decoding_tick : N;
  dm_buffer_removal_time_length_minus_1 : N; dm_frame_presentation_time_length_minus_1 : N }.

Record operating_point := {
  op_idc : N; op_seq_level_idx : N; op_seq_tier : bool;       (* tier coded iff level > 7 *)
  op_parameters : option (N * N * bool);                      (* decoder/encoder buffer delay, low_delay_mode *)
  op_initial_display_delay_minus_1 : option N }.

Record color_config := {
  cc_high_bitdepth : bool; cc_twelve_bit : bool; cc_mono_chrome : bool;
  cc_description : option (N * N * N);                        (* primaries, transfer, matrix *)
  cc_color_range : bool; cc_subsampling_x : bool; cc_subsampling_y : bool;
  cc_chroma_sample_position : N; cc_separate_uv_delta_q : bool }.

Record seq_hdr := {
  sh_seq_profile : N; sh_still_picture : bool; sh_reduced_still_picture_header : bool;
  sh_reduced_level : N;                                        (* seq_level_idx[0] of a reduced header *)
  sh_timing : option (timing_info * option decoder_model_info);
  sh_initial_display_delay_present : bool;
  sh_operating_points : list operating_point;
  sh_frame_width_bits_minus_1 : N; sh_frame_height_bits_minus_1 : N;
  sh_max_frame_width_minus_1 : N; sh_max_frame_height_minus_1 : N;
  sh_frame_id : option (N * N);                                (* delta_frame_id_length_minus_2, additional_frame_id_length_minus_1 *)
  sh_use_128x128_superblock : bool; sh_enable_filter_intra : bool; sh_enable_intra_edge_filter : bool;
  sh_enable_interintra_compound : bool; sh_enable_masked_compound : bool;
  sh_enable_warped_motion : bool; sh_enable_dual_filter : bool;
  sh_order_hint : option (bool * bool * N);                    (* enable_jnt_comp, enable_ref_frame_mvs, order_hint_bits_minus_1 *)
  sh_force_screen_content_tools : option bool;                 (* None = seq_choose_screen_content_tools *)
  sh_force_integer_mv : option bool;                           (* None = seq_choose_integer_mv *)
  sh_enable_superres : bool; sh_enable_cdef : bool; sh_enable_restoration : bool;
  sh_color : color_config; sh_film_grain_params_present : bool }.

Definition enc_timing_info (t : timing_info) : bits :=
  f 32 (ti_num_units_in_display_tick t) ++ f 32 (ti_time_scale t) ++
  match ti_num_ticks_per_picture_minus_1 t with
  | Some v => [true] ++ uvlc v
  | None => [false]
  end.

Definition enc_decoder_model_info (d : decoder_model_info) : bits :=
  f 5 (dm_buffer_delay_length_minus_1 d) ++ f 32 (dm_num_units_in_decoding_tick d) ++
  f 5 (dm_buffer_removal_time_length_minus_1 d) ++ f 5 (dm_frame_presentation_time_length_minus_1 d).

Definition enc_operating_point (dmi : option decoder_model_info) (iddp : bool) (o : operating_point) : bits :=
  f 12 (op_idc o) ++ f 5 (op_seq_level_idx o) ++
  (if 7 <? op_seq_level_idx o then f1 (op_seq_tier o) else []) ++
  (match dmi with
   | Some d =>
       match op_parameters o with
       | Some (dec, enc, low) =>
           let n := S (N.to_nat (dm_buffer_delay_length_minus_1 d)) in
           [true] ++ f n dec ++ f n enc ++ f1 low
       | None => [false]
       end
   | None => []
   end) ++
  (if iddp then
     match op_initial_display_delay_minus_1 o with
     | Some v => [true] ++ f 4 v
     | None => [false]
     end
   else []).

Definition bit_depth (profile : N) (c : color_config) : N :=
  if (profile =? 2) && cc_high_bitdepth c then (if cc_twelve_bit c then 12 else 10)
  else if cc_high_bitdepth c then 10 else 8.

Definition is_srgb (c : color_config) : bool :=
  match cc_description c with Some (1, 13, 0) => true | _ => false end.

Definition enc_color_config (profile : N) (c : color_config) : bits :=
  f1 (cc_high_bitdepth c) ++
  (if (profile =? 2) && cc_high_bitdepth c then f1 (cc_twelve_bit c) else []) ++
  (if profile =? 1 then [] else f1 (cc_mono_chrome c)) ++
  (match cc_description c with
   | Some (cp, tc, mc) => [true] ++ f 8 cp ++ f 8 tc ++ f 8 mc
   | None => [false]
   end) ++
  (if cc_mono_chrome c then f1 (cc_color_range c)       (* and return: nothing else is coded *)
   else
     (if is_srgb c then []
      else
        f1 (cc_color_range c) ++
        (if (profile =? 2) && (bit_depth profile c =? 12) then
           f1 (cc_subsampling_x c) ++ (if cc_subsampling_x c then f1 (cc_subsampling_y c) else [])
         else []) ++
        (if cc_subsampling_x c && cc_subsampling_y c then f 2 (cc_chroma_sample_position c) else [])) ++
     f1 (cc_separate_uv_delta_q c)).

Definition enc_sequence_header (s : seq_hdr) : bits :=
  f 3 (sh_seq_profile s) ++ f1 (sh_still_picture s) ++ f1 (sh_reduced_still_picture_header s) ++
  (if sh_reduced_still_picture_header s then f 5 (sh_reduced_level s)
   else
     (match sh_timing s with
      | Some (t, dmi) =>
          [true] ++ enc_timing_info t ++
          match dmi with Some d => [true] ++ enc_decoder_model_info d | None => [false] end
      | None => [false]
      end) ++
     f1 (sh_initial_display_delay_present s) ++
     f 5 (N.of_nat (length (sh_operating_points s)) - 1) ++
     concat (map (enc_operating_point (match sh_timing s with Some (_, d) => d | None => None end)
                                      (sh_initial_display_delay_present s))
                 (sh_operating_points s))) ++
  f 4 (sh_frame_width_bits_minus_1 s) ++ f 4 (sh_frame_height_bits_minus_1 s) ++
  f (S (N.to_nat (sh_frame_width_bits_minus_1 s))) (sh_max_frame_width_minus_1 s) ++
  f (S (N.to_nat (sh_frame_height_bits_minus_1 s))) (sh_max_frame_height_minus_1 s) ++
  (if sh_reduced_still_picture_header s then []
   else match sh_frame_id s with
        | Some (d, a) => [true] ++ f 4 d ++ f 3 a
        | None => [false]
        end) ++
  f1 (sh_use_128x128_superblock s) ++ f1 (sh_enable_filter_intra s) ++ f1 (sh_enable_intra_edge_filter s) ++
  (if sh_reduced_still_picture_header s then []
   else
     f1 (sh_enable_interintra_compound s) ++ f1 (sh_enable_masked_compound s) ++
     f1 (sh_enable_warped_motion s) ++ f1 (sh_enable_dual_filter s) ++
     (match sh_order_hint s with
      | Some (jnt, mvs, _) => [true] ++ f1 jnt ++ f1 mvs
      | None => [false]
      end) ++
     (match sh_force_screen_content_tools s with
      | None => [true]
      | Some b => [false] ++ f1 b
      end) ++
     (match sh_force_screen_content_tools s with
      | Some false => []                                (* seq_force_screen_content_tools = 0 *)
      | _ => match sh_force_integer_mv s with
             | None => [true]
             | Some b => [false] ++ f1 b
             end
      end) ++
     (match sh_order_hint s with
      | Some (_, _, ohb) => f 3 ohb
      | None => []
      end)) ++
  f1 (sh_enable_superres s) ++ f1 (sh_enable_cdef s) ++ f1 (sh_enable_restoration s) ++
  enc_color_config (sh_seq_profile s) (sh_color s) ++
  f1 (sh_film_grain_params_present s).

(* trailing_bits(): a one then zeros up to the byte boundary *)
Definition trailing (n : nat) : bits :=
  true :: repeat false ((8 - (S n) mod 8) mod 8).

Fixpoint byte_of_bits (l : bits) (acc : N) (k : nat) : N * bits :=
  match k with
  | O => (acc, l)
  | S k' => match l with
            | b :: t => byte_of_bits t (2 * acc + (if b then 1 else 0)) k'
            | [] => byte_of_bits [] (2 * acc) k'
            end
  end.
Fixpoint pack_f (fuel : nat) (l : bits) : bytes :=
  match fuel with
  | O => []
  | S f' => match l with
            | [] => []
            | _ => let '(b, r) := byte_of_bits l 0 8 in b :: pack_f f' r
            end
  end.
Definition pack (l : bits) : bytes := pack_f (S (length l)) l.

(* payload bytes of the OBU *)
Definition seq_payload (s : seq_hdr) : bytes :=
  let b := enc_sequence_header s in pack (b ++ trailing (length b)).

(* leb128() *)
Fixpoint leb128_f (fuel : nat) (n : N) : bytes :=
  match fuel with
  | O => []
  | S f' => if n <? 128 then [n] else (n mod 128 + 128) :: leb128_f f' (n / 128)
  end.
Definition leb128 (n : N) : bytes := leb128_f 10 n.

(* obu_header + obu_size + payload: type in bits 3..6, extension flag bit 2, has_size bit 1 *)
Definition obu (typ : N) (ext : option N) (payload : bytes) : bytes :=
  [typ * 8 + (match ext with Some _ => 4 | None => 0 end) + 2] ++
  (match ext with Some e => [e] | None => [] end) ++ leb128 (len payload) ++ payload.

Definition seq_obu (ext : option N) (s : seq_hdr) : bytes := obu 1 ext (seq_payload s).

(** well-formedness of an AST: every f(n) value fits n bits and the semantic
    constraints of 5.5.1 / 5.5.2 / 6.4 that make the coded stream conformant *)
Definition fits (n : nat) (v : N) : bool := v <? 2 ^ N.of_nat n.

Definition valid_op (dmi : option decoder_model_info) (iddp : bool) (o : operating_point) : bool :=
  fits 12 (op_idc o) && fits 5 (op_seq_level_idx o) &&
  (if 7 <? op_seq_level_idx o then true else negb (op_seq_tier o)) &&
  (match dmi, op_parameters o with
   | Some d, Some (dec, enc, _) =>
       let n := S (N.to_nat (dm_buffer_delay_length_minus_1 d)) in fits n dec && fits n enc
   | None, Some _ => false
   | _, None => true
   end) &&
  (match op_initial_display_delay_minus_1 o with
   | Some v => iddp && fits 4 v
   | None => true
   end).

Definition valid_color (profile : N) (c : color_config) : bool :=
  (if cc_twelve_bit c then (profile =? 2) && cc_high_bitdepth c else true) &&
  (if cc_mono_chrome c then negb (profile =? 1) else true) &&
  (match cc_description c with Some (a, b, d) => fits 8 a && fits 8 b && fits 8 d | None => true end) &&
  fits 2 (cc_chroma_sample_position c) &&
  (* derived values must be the ones the syntax infers *)
  (if cc_mono_chrome c then
     cc_subsampling_x c && cc_subsampling_y c && (cc_chroma_sample_position c =? 0) && negb (cc_separate_uv_delta_q c)
   else if is_srgb c then
     negb (cc_subsampling_x c) && negb (cc_subsampling_y c) && cc_color_range c && (cc_chroma_sample_position c =? 0)
   else
     (if profile =? 0 then cc_subsampling_x c && cc_subsampling_y c
      else if profile =? 1 then negb (cc_subsampling_x c) && negb (cc_subsampling_y c)
      else if bit_depth profile c =? 12 then (if cc_subsampling_x c then true else negb (cc_subsampling_y c))
      else cc_subsampling_x c && negb (cc_subsampling_y c)) &&
     (if cc_subsampling_x c && cc_subsampling_y c then true else cc_chroma_sample_position c =? 0)).

Definition valid_seq (s : seq_hdr) : bool :=
  (sh_seq_profile s <=? 2) &&
  (if sh_reduced_still_picture_header s then
     sh_still_picture s && fits 5 (sh_reduced_level s)
   else
     (match sh_timing s with
      | Some (t, dmi) =>
          fits 32 (ti_num_units_in_display_tick t) && fits 32 (ti_time_scale t) &&
          (match ti_num_ticks_per_picture_minus_1 t with Some v => v <? 4294967295 | None => true end) &&
          (match dmi with
           | Some d => fits 5 (dm_buffer_delay_length_minus_1 d) && fits 32 (dm_num_units_in_decoding_tick d) &&
                       fits 5 (dm_buffer_removal_time_length_minus_1 d) &&
                       fits 5 (dm_frame_presentation_time_length_minus_1 d)
           | None => true end)
      | None => true
      end) &&
     (1 <=? length (sh_operating_points s))%nat && (length (sh_operating_points s) <=? 32)%nat &&
     forallb (valid_op (match sh_timing s with Some (_, d) => d | None => None end)
                       (sh_initial_display_delay_present s)) (sh_operating_points s) &&
     (match sh_frame_id s with Some (d, a) => fits 4 d && fits 3 a | None => true end) &&
     (match sh_order_hint s with Some (_, _, o) => fits 3 o | None => true end)) &&
  fits 4 (sh_frame_width_bits_minus_1 s) && fits 4 (sh_frame_height_bits_minus_1 s) &&
  fits (S (N.to_nat (sh_frame_width_bits_minus_1 s))) (sh_max_frame_width_minus_1 s) &&
  fits (S (N.to_nat (sh_frame_height_bits_minus_1 s))) (sh_max_frame_height_minus_1 s) &&
  valid_color (sh_seq_profile s) (sh_color s).

(* the values a configuration record must carry for this header *)
Definition seq_level0 (s : seq_hdr) : N :=
  if sh_reduced_still_picture_header s then sh_reduced_level s
  else match sh_operating_points s with o :: _ => op_seq_level_idx o | [] => 0 end.
Definition seq_tier0 (s : seq_hdr) : N :=
  if sh_reduced_still_picture_header s then 0
  else match sh_operating_points s with o :: _ => if op_seq_tier o then 1 else 0 | [] => 0 end.
