(** Independent ISO-BMFF reader (ISO/IEC 14496-12): a generic box-sequence
    parser, the box tree over the standard container set, and navigation.
    Knows nothing about the model's [build_*] functions. *)
From Muxide Require Import Model.Base.
Open Scope N_scope.

(* one box: 32-bit size (>= 8, no 64-bit/size-0 forms are ever emitted), type, payload *)
Definition parse_box (b : bytes) : option (bytes * bytes * bytes) :=
  match rd32 b with
  | Some (size, t0 :: t1 :: t2 :: t3 :: r) =>
      if size <? 8 then None
      else if len r <? size - 8 then None
      else Some ([t0; t1; t2; t3], take (size - 8) r, drop (size - 8) r)
  | _ => None
  end.

(* a byte string that is exactly a sequence of boxes *)
Fixpoint parse_boxes_f (fuel : nat) (b : bytes) : option (list (bytes * bytes)) :=
  match fuel with
  | O => None
  | S f =>
      match b with
      | [] => Some []
      | _ => match parse_box b with
             | Some (t, p, r) =>
                 match parse_boxes_f f r with
                 | Some l => Some ((t, p) :: l)
                 | None => None
                 end
             | None => None
             end
      end
  end.
Definition parse_boxes (b : bytes) := parse_boxes_f (S (length b)) b.

Inductive btree := Box (typ : bytes) (payload : bytes) (children : list btree).

Definition b_typ (t : btree) := match t with Box ty _ _ => ty end.
Definition b_payload (t : btree) := match t with Box _ p _ => p end.
Definition b_children (t : btree) := match t with Box _ _ c => c end.

Definition typ_eqb (a b : bytes) : bool := bytes_eqb a b.

(* container types and the number of payload bytes before their children *)
Definition s4 (a b c d : N) : bytes := [a; b; c; d].
Definition container_prefix (t : bytes) : option N :=
  let is x := typ_eqb t x in
  if is (s4 109 111 111 118) (* moov *) || is (s4 116 114 97 107) (* trak *) ||
     is (s4 109 100 105 97) (* mdia *) || is (s4 109 105 110 102) (* minf *) ||
     is (s4 100 105 110 102) (* dinf *) || is (s4 115 116 98 108) (* stbl *) ||
     is (s4 109 118 101 120) (* mvex *) || is (s4 117 100 116 97) (* udta *) ||
     is (s4 105 108 115 116) (* ilst *) || is (s4 169 110 97 109) (* ©nam *) ||
     is (s4 169 100 97 121) (* ©day *) || is (s4 109 111 111 102) (* moof *) ||
     is (s4 116 114 97 102) (* traf *)
  then Some 0
  else if is (s4 109 101 116 97) (* meta *) then Some 4
  else if is (s4 115 116 115 100) (* stsd *) || is (s4 100 114 101 102) (* dref *) then Some 8
  else if is (s4 97 118 99 49) (* avc1 *) || is (s4 104 118 99 49) (* hvc1 *) ||
          is (s4 97 118 48 49) (* av01 *) || is (s4 118 112 48 57) (* vp09 *) then Some 78
  else if is (s4 109 112 52 97) (* mp4a *) || is (s4 79 112 117 115) (* Opus *) then Some 28
  else None.

(* recursive descent through all containers; None = some container does not tile *)
Fixpoint parse_forest (depth : nat) (b : bytes) : option (list btree) :=
  match depth with
  | O => None
  | S d =>
      match parse_boxes b with
      | None => None
      | Some l =>
          (fix go (l : list (bytes * bytes)) : option (list btree) :=
             match l with
             | [] => Some []
             | (t, p) :: r =>
                 let kids :=
                   match container_prefix t with
                   | None => Some []
                   | Some k => if len p <? k then None else parse_forest d (drop k p)
                   end in
                 match kids, go r with
                 | Some c, Some rest => Some (Box t p c :: rest)
                 | _, _ => None
                 end
             end) l
      end
  end.

Definition parse_file (b : bytes) : option (list btree) := parse_forest 12 b.

Definition find_box (t : bytes) (l : list btree) : option btree :=
  find (fun x => typ_eqb (b_typ x) t) l.
Definition find_all (t : bytes) (l : list btree) : list btree :=
  filter (fun x => typ_eqb (b_typ x) t) l.

Fixpoint find_path (path : list bytes) (l : list btree) : option btree :=
  match path with
  | [] => None
  | [t] => find_box t l
  | t :: rest => match find_box t l with
                 | Some x => find_path rest (b_children x)
                 | None => None
                 end
  end.

(* top-level layout: list of (type, offset of box start, total size) *)
Fixpoint top_layout_f (fuel : nat) (b : bytes) (off : N) : option (list (bytes * N * N)) :=
  match fuel with
  | O => None
  | S f =>
      match b with
      | [] => Some []
      | _ => match parse_box b with
             | Some (t, p, r) =>
                 match top_layout_f f r (off + 8 + len p) with
                 | Some l => Some ((t, off, 8 + len p) :: l)
                 | None => None
                 end
             | None => None
             end
      end
  end.
Definition top_layout (b : bytes) := top_layout_f (S (length b)) b 0.
