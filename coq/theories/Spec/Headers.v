(** Strict decoders for the fixed-layout header boxes and decoder-configuration
    records, transcribed from ISO/IEC 14496-12 (mvhd, tkhd, mdhd, hdlr, vmhd,
    smhd, dref, sample entries, trex), 14496-15 (avcC, hvcC), 14496-14 (esds),
    the AV1 / VP9 / Opus ISO-BMFF bindings (av1C, vpcC, dOps); an independent
    civil calendar; and the clause-indexed checks of C07, C16, C18, C19. *)
From Muxide Require Import Model.Base Model.Boxes Model.Codec Model.Api Model.Frag.
From Muxide Require Import Spec.Bmff Spec.Reader Spec.NalSplit Spec.Layout.
Open Scope N_scope.

Definition all_zero (b : bytes) : bool := forallb (fun x => x =? 0) b.
Definition sub_bytes (b : bytes) (off n : nat) : bytes := firstn n (skipn off b).
Definition u32_at (b : bytes) (off : nat) : N :=
  match rd32 (skipn off b) with Some (x, _) => x | None => 0 end.
Definition u16_at (b : bytes) (off : nat) : N :=
  match rd16 (skipn off b) with Some (x, _) => x | None => 0 end.
Definition u8_at (b : bytes) (off : nat) : N := nth off b 0.

Definition IDENTITY : bytes :=
  [0;1;0;0; 0;0;0;0; 0;0;0;0;  0;0;0;0; 0;1;0;0; 0;0;0;0;  0;0;0;0; 0;0;0;0; 64;0;0;0].

(** mvhd version 0: 100 payload bytes *)
Record mvhd := { mv_timescale : N; mv_duration : N; mv_next_track_id : N }.
Definition strict_mvhd (p : bytes) : option mvhd :=
  if (length p =? 100)%nat && (u32_at p 0 =? 0) && (u32_at p 20 =? 65536) && (u16_at p 24 =? 256) &&
     all_zero (sub_bytes p 26 10) && bytes_eqb (sub_bytes p 36 36) IDENTITY && all_zero (sub_bytes p 72 24)
  then Some {| mv_timescale := u32_at p 12; mv_duration := u32_at p 16; mv_next_track_id := u32_at p 96 |}
  else None.

(** tkhd version 0: 84 payload bytes *)
Record tkhd := { tk_flags : N; tk_track_id : N; tk_duration : N; tk_volume : N; tk_width : N; tk_height : N }.
Definition strict_tkhd (p : bytes) : option tkhd :=
  if (length p =? 84)%nat && (u8_at p 0 =? 0) && (u32_at p 16 =? 0) && all_zero (sub_bytes p 24 8) &&
     (u16_at p 38 =? 0) && bytes_eqb (sub_bytes p 40 36) IDENTITY
  then Some {| tk_flags := u32_at p 0 mod 16777216; tk_track_id := u32_at p 12; tk_duration := u32_at p 20;
               tk_volume := u16_at p 36; tk_width := u32_at p 76; tk_height := u32_at p 80 |}
  else None.

(** mdhd version 0: 24 payload bytes; language is three 5-bit letters offset by 0x60 *)
Record mdhd := { md_timescale : N; md_duration : N; md_lang : bytes }.
Definition unpack_lang (x : N) : bytes :=
  [ (x / 1024) mod 32 + 96; (x / 32) mod 32 + 96; x mod 32 + 96 ].
Definition strict_mdhd (p : bytes) : option mdhd :=
  if (length p =? 24)%nat && (u32_at p 0 =? 0) && (u16_at p 20 <? 32768) && (u16_at p 22 =? 0)
  then Some {| md_timescale := u32_at p 12; md_duration := u32_at p 16; md_lang := unpack_lang (u16_at p 20) |}
  else None.

(** hdlr: pre_defined 0, handler type, 12 reserved zero bytes, null-terminated name *)
Definition strict_hdlr (p : bytes) : option bytes :=
  if (25 <=? length p)%nat && (u32_at p 0 =? 0) && (u32_at p 4 =? 0) && all_zero (sub_bytes p 12 12) &&
     (last p 1 =? 0)
  then Some (sub_bytes p 8 4) else None.

Definition strict_vmhd (p : bytes) : bool :=
  (length p =? 12)%nat && (u32_at p 0 =? 1) && all_zero (sub_bytes p 4 8).
Definition strict_smhd (p : bytes) : bool :=
  (length p =? 8)%nat && (u32_at p 0 =? 0) && all_zero (sub_bytes p 4 4).

(* dref with exactly one self-contained url entry *)
Definition strict_dref (t : btree) : bool :=
  (u32_at (b_payload t) 0 =? 0) && (u32_at (b_payload t) 4 =? 1) &&
  match b_children t with
  | [Box ty p _] => bytes_eqb ty [117; 114; 108; 32] && bytes_eqb p [0; 0; 0; 1]
  | _ => false
  end.

(** visual sample entry (78 bytes before the configuration box) *)
Definition strict_visual_entry (p : bytes) : option (N * N) :=
  if (78 <=? length p)%nat && all_zero (sub_bytes p 0 6) && (u16_at p 6 =? 1) && all_zero (sub_bytes p 8 16) &&
     (u32_at p 28 =? 4718592) && (u32_at p 32 =? 4718592) && (u32_at p 36 =? 0) && (u16_at p 40 =? 1) &&
     (u16_at p 74 =? 24) && (u16_at p 76 =? 65535)
  then Some (u16_at p 24, u16_at p 26) else None.

(** audio sample entry (28 bytes before the configuration box): channel count, 16.16 rate *)
Definition strict_audio_entry (p : bytes) : option (N * N) :=
  if (28 <=? length p)%nat && all_zero (sub_bytes p 0 6) && (u16_at p 6 =? 1) && all_zero (sub_bytes p 8 8) &&
     (u16_at p 18 =? 16) && (u32_at p 20 =? 0) && (u16_at p 26 =? 0)
  then Some (u16_at p 16, u16_at p 24) else None.

(** avcC *)
Definition strict_avcc (p : bytes) : option (bytes * bytes) :=
  if (7 <=? length p)%nat && (u8_at p 0 =? 1) && (u8_at p 4 =? 255) && (u8_at p 5 =? 225) then
    let sl := N.to_nat (u16_at p 6) in
    let sps := sub_bytes p 8 sl in
    let o := (8 + sl)%nat in
    if (length sps =? sl)%nat && (u8_at p o =? 1) && (o + 3 <=? length p)%nat then
      let pl := N.to_nat (u16_at p (o + 1)) in
      let pps := sub_bytes p (o + 3) pl in
      if (length pps =? pl)%nat && (length p =? o + 3 + pl)%nat &&
         (* profile / compatibility / level repeat SPS bytes 1..3 *)
         (match sps with
          | _ :: a :: b :: c :: _ => (u8_at p 1 =? a) && (u8_at p 2 =? b) && (u8_at p 3 =? c)
          | _ => true end)
      then Some (sps, pps) else None
    else None
  else None.

(** hvcC: reserved bits, 4-byte lengths, three arrays VPS/SPS/PPS with one NAL each *)
Fixpoint hvcc_arrays (n : nat) (p : bytes) : option (list (N * bytes)) :=
  match n with
  | O => match p with [] => Some [] | _ => None end
  | S k =>
      match p with
      | h :: r =>
          if negb (N.testbit h 6) && (u16_at r 0 =? 1) then
            let l := N.to_nat (u16_at r 2) in
            let nal := sub_bytes r 4 l in
            if (length nal =? l)%nat then
              match hvcc_arrays k (skipn (4 + l) r) with
              | Some rest => Some ((h mod 64, nal) :: rest)
              | None => None
              end
            else None
          else None
      | [] => None
      end
  end.

Definition strict_hvcc (p : bytes) : option (list (N * bytes)) :=
  if (23 <=? length p)%nat && (u8_at p 0 =? 1) &&
     (u8_at p 13 / 16 =? 15) && (u8_at p 15 / 4 =? 63) && (u8_at p 16 / 4 =? 63) &&
     (u8_at p 17 / 8 =? 31) && (u8_at p 18 / 8 =? 31) && (u8_at p 21 mod 4 =? 3)
  then hvcc_arrays (N.to_nat (u8_at p 22)) (skipn 23 p)
  else None.

(** av1C: marker/version byte 0x81, packed fields, reserved bits zero, configOBUs *)
Record av1c := { a1_profile : N; a1_level : N; a1_tier : N; a1_high_bitdepth : bool; a1_twelve_bit : bool;
                 a1_mono : bool; a1_sx : bool; a1_sy : bool; a1_csp : N; a1_obus : bytes }.
Definition strict_av1c (p : bytes) : option av1c :=
  if (4 <=? length p)%nat && (u8_at p 0 =? 129) && (u8_at p 3 / 32 =? 0) &&
     (N.testbit (u8_at p 3) 4 || (u8_at p 3 mod 16 =? 0))
  then let b1 := u8_at p 1 in let b2 := u8_at p 2 in
       Some {| a1_profile := b1 / 32; a1_level := b1 mod 32; a1_tier := b2 / 128;
               a1_high_bitdepth := N.testbit b2 6; a1_twelve_bit := N.testbit b2 5; a1_mono := N.testbit b2 4;
               a1_sx := N.testbit b2 3; a1_sy := N.testbit b2 2; a1_csp := b2 mod 4; a1_obus := skipn 4 p |}
  else None.

(** vpcC (VP9 binding): FullBox version 1, then profile, level, bitDepth(4)|chroma(3)|fullRange(1),
    colourPrimaries, transferCharacteristics, matrixCoefficients, codecInitializationDataSize = 0 *)
Record vpcc := { vp_profile : N; vp_level : N; vp_bit_depth : N; vp_full_range : N }.
Definition strict_vpcc (p : bytes) : option vpcc :=
  if (length p =? 12)%nat && (u32_at p 0 =? 16777216) && (u16_at p 10 =? 0)
  then Some {| vp_profile := u8_at p 4; vp_level := u8_at p 5; vp_bit_depth := u8_at p 6 / 16;
               vp_full_range := u8_at p 6 mod 2 |}
  else None.

(** esds: ES_Descriptor / DecoderConfigDescriptor (AAC, audio stream) / DecoderSpecificInfo / SLConfig;
    returns the AudioSpecificConfig *)
Definition strict_esds (p : bytes) : option bytes :=
  if (u32_at p 0 =? 0) && (u8_at p 4 =? 3) then
    let es_len := N.to_nat (u8_at p 5) in
    if (u8_at p 5 <? 128) && (length p =? 6 + es_len)%nat && (u8_at p 8 =? 0) && (u8_at p 9 =? 4) &&
       (u8_at p 10 <? 128) && (u8_at p 11 =? 64) && (u8_at p 12 =? 21) && (u8_at p 24 =? 5) && (u8_at p 25 <? 128)
    then
      let dl := N.to_nat (u8_at p 10) in
      let al := N.to_nat (u8_at p 25) in
      let asc := sub_bytes p 26 al in
      if (dl =? 15 + al)%nat && (length asc =? al)%nat &&
         bytes_eqb (skipn (26 + al) p) [6; 1; 2] && (es_len =? 3 + 2 + dl + 3)%nat
      then Some asc else None
    else None
  else None.

(* AudioSpecificConfig (AAC-LC, 2 bytes): object type 2, frequency index, channel configuration, GASpecificConfig 000 *)
Definition asc_fields (asc : bytes) : option (N * N * N) :=
  match asc with
  | [a; b] => if b mod 8 =? 0 then Some (a / 8, (a mod 8) * 2 + b / 128, (b / 8) mod 16) else None
  | _ => None
  end.

Definition freq_index (rate : N) : option N :=
  let tbl := [96000; 88200; 64000; 48000; 44100; 32000; 24000; 22050; 16000; 12000; 11025; 8000; 7350] in
  (fix go (l : list N) (i : N) := match l with [] => None | x :: t => if x =? rate then Some i else go t (i + 1) end) tbl 0.

(** dOps: version 0, channel count, pre-skip, input rate, gain, mapping family (+ table) *)
Definition strict_dops (p : bytes) : option (N * N * N) :=   (* channels, input rate, family *)
  if (11 <=? length p)%nat && (u8_at p 0 =? 0) then
    let ch := u8_at p 1 in
    let fam := u8_at p 10 in
    if (if fam =? 0 then (length p =? 11)%nat && (1 <=? ch) && (ch <=? 2)
        else (length p =? 13 + N.to_nat ch)%nat &&
             (* every output channel maps to a coded stream (or is silent) *)
             forallb (fun x => (x <? u8_at p 11 + u8_at p 12) || (x =? 255)) (sub_bytes p 13 (N.to_nat ch)) &&
             (1 <=? u8_at p 11) && (u8_at p 12 <=? u8_at p 11))
    then Some (ch, u32_at p 4, fam) else None
  else None.

Definition strict_trex (p : bytes) : option (N * N) :=
  if (length p =? 24)%nat && (u32_at p 0 =? 0) then Some (u32_at p 4, u32_at p 8) else None.

(** * independent civil calendar (proleptic Gregorian), by plain counting *)
Definition leap (y : N) : bool := ((y mod 4 =? 0) && negb (y mod 100 =? 0)) || (y mod 400 =? 0).
Definition year_len (y : N) : N := if leap y then 366 else 365.
Definition month_lens (y : N) : list N :=
  [31; if leap y then 29 else 28; 31; 30; 31; 30; 31; 31; 30; 31; 30; 31].

Fixpoint count_years (fuel : nat) (y days : N) : N * N :=
  match fuel with
  | O => (y, days)
  | S f => if days <? year_len y then (y, days) else count_years f (y + 1) (days - year_len y)
  end.
Fixpoint count_months (ml : list N) (m days : N) : N * N :=
  match ml with
  | [] => (m, days)
  | l :: t => if days <? l then (m, days) else count_months t (m + 1) (days - l)
  end.
(* valid below year 11970 (fuel) *)
Definition civil_of_days (days : N) : N * N * N :=
  let '(y, d) := count_years (N.to_nat 10000) 1970 days in
  let '(m, d') := count_months (month_lens y) 1 d in
  (y, m, d' + 1).

Definition two (n : N) : bytes := [48 + n / 10; 48 + n mod 10].
Definition four (n : N) : bytes := [48 + n / 1000; 48 + (n / 100) mod 10; 48 + (n / 10) mod 10; 48 + n mod 10].
(* ISO 8601 "YYYY-MM-DDTHH:MM:SSZ", years up to 9999 *)
Definition iso8601 (secs : N) : bytes :=
  let '(y, m, d) := civil_of_days (secs / 86400) in
  let r := secs mod 86400 in
  four y ++ [45] ++ two m ++ [45] ++ two d ++ [84] ++ two (r / 3600) ++ [58] ++ two ((r / 60) mod 60) ++
  [58] ++ two (r mod 60) ++ [90].
