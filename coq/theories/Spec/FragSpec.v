(** Reading a media segment back (ISO/IEC 14496-12 8.8) and the abstract
    fragment queue against which the fragmented muxer is specified. *)
From Muxide Require Import Model.Base Model.Frag Spec.Bmff Spec.Reader.
Open Scope N_scope.

Record seg_sample := { ss_data : bytes; ss_duration : N; ss_sync : bool; ss_cts : Z }.

Record seg_view := { sv_seq : N; sv_tfdt : N; sv_samples : list seg_sample }.

Definition T_MOOF := [109; 111; 111; 102].
Definition T_MDAT' := [109; 100; 97; 116].

(* consecutive slices of [data] with the given sizes *)
Fixpoint slices (data : bytes) (l : list trun_sample) : option (list seg_sample) :=
  match l with
  | [] => Some []
  | s :: t =>
      if len data <? ts_size s then None
      else match slices (drop (ts_size s) data) t with
           | Some r => Some ({| ss_data := take (ts_size s) data; ss_duration := ts_duration s;
                                ss_sync := negb (N.testbit (ts_flags s) 16); ss_cts := ts_cts s |} :: r)
           | None => None
           end
  end.

(* exactly one moof followed by one mdat; sample data located through the run's
   data offset relative to the start of the moof (default-base-is-moof) *)
Definition segment_read (seg : bytes) : option seg_view :=
  match parse_file seg with
  | Some [Box t1 p1 mk; Box t2 mp _] =>
      if negb (bytes_eqb t1 T_MOOF && bytes_eqb t2 T_MDAT') then None
      else
        match read_fragment (Box t1 p1 mk) with
        | Some fr =>
            if negb ((fr_tfhd_flags fr =? 131072) && (fr_track_id fr =? 1)) then None
            else if (fr_data_offset fr <? 0)%Z then None
            else
              let start := Z.to_N (fr_data_offset fr) in
              (* the run must address exactly the mdat payload *)
              if negb (start =? 8 + len p1 + 8) then None
              else if negb (sumN (map ts_size (fr_samples fr)) =? len mp) then None
              else match slices (drop start seg) (fr_samples fr) with
                   | Some ss => Some {| sv_seq := fr_seq fr; sv_tfdt := fr_base_decode_time fr; sv_samples := ss |}
                   | None => None
                   end
        | None => None
        end
  | _ => None
  end.

(** what a flushed list of queued samples must read back as *)
Fixpoint spec_durations (prev : option N) (l : list frag_sample) : list N :=
  match l with
  | [] => []
  | s :: t =>
      (match t with
       | n :: _ => fs_dts n - fs_dts s
       | [] => match prev with Some p => fs_dts s - p | None => 3000 end
       end) :: spec_durations (Some (fs_dts s)) t
  end.

Definition spec_seg_samples (l : list frag_sample) : list seg_sample :=
  map (fun sd => {| ss_data := fs_data (fst sd); ss_duration := snd sd; ss_sync := fs_sync (fst sd);
                    ss_cts := (Z.of_N (fs_pts (fst sd)) - Z.of_N (fs_dts (fst sd)))%Z |})
      (combine l (spec_durations None l)).

(* side conditions under which no 32-bit field of the segment wraps *)
Definition seg_fits (l : list frag_sample) : Prop :=
  8 + sumN (map (fun s => len (fs_data s)) l) < 4294967296 /\
  100 + 16 * len l < 4294967296 /\
  Forall (fun d => d < 4294967296) (spec_durations None l) /\
  Forall (fun s => (-2147483648 <= Z.of_N (fs_pts s) - Z.of_N (fs_dts s) <= 2147483647)%Z) l /\
  Forall (fun s => fs_dts s < 18446744073709551616) l.

(** abstract queue: pending samples, sequence number, last accepted dts *)
Record aq := { aq_pending : list frag_sample; aq_seq : N; aq_last : option N }.

Definition aq_step (q : aq) (o : fop) : aq * list (N * list frag_sample) :=
  match o with
  | FWrite p d b s =>
      match aq_last q with
      | Some l => if d <? l then (q, [])
                  else ({| aq_pending := aq_pending q ++ [{| fs_pts := p; fs_dts := d; fs_data := b; fs_sync := s |}];
                           aq_seq := aq_seq q; aq_last := Some d |}, [])
      | None => ({| aq_pending := aq_pending q ++ [{| fs_pts := p; fs_dts := d; fs_data := b; fs_sync := s |}];
                    aq_seq := aq_seq q; aq_last := Some d |}, [])
      end
  | FFlush =>
      match aq_pending q with
      | [] => (q, [])
      | l => ({| aq_pending := []; aq_seq := aq_seq q + 1; aq_last := aq_last q |}, [(aq_seq q, l)])
      end
  | _ => (q, [])
  end.

(* emitted (sequence number, samples) pairs of a whole op sequence *)
Fixpoint aq_run (q : aq) (ops : list fop) : list (N * list frag_sample) :=
  match ops with
  | [] => []
  | o :: t => let '(q', out) := aq_step q o in out ++ aq_run q' t
  end.

Definition aq_init : aq := {| aq_pending := []; aq_seq := 1; aq_last := None |}.

(* accepted writes of an op sequence, in order *)
Fixpoint accepted_writes (last : option N) (ops : list fop) : list frag_sample :=
  match ops with
  | [] => []
  | FWrite p d b s :: t =>
      if match last with Some l => d <? l | None => false end then accepted_writes last t
      else {| fs_pts := p; fs_dts := d; fs_data := b; fs_sync := s |} :: accepted_writes (Some d) t
  | _ :: t => accepted_writes last t
  end.

(* the segments the model emits, as raw bytes, in emission order *)
Fixpoint emitted_segments (m : fmuxer) (ops : list fop) : list bytes :=
  match ops with
  | [] => []
  | o :: t =>
      match fstep m o with
      | (m', FrSeg (Some b)) => b :: emitted_segments m' t
      | (m', _) => emitted_segments m' t
      end
  end.
