(** VP9 bitstream, uncompressed_header() of a key frame up to render_size() (VP9 Bitstream &
    Decoding Process Specification v0.6, section 6.2), written as an encoder from an abstract
    header to bits.  Transcribed from memory (sandbox sealed). *)
From Muxide Require Import Model.Base Spec.Av1Syntax.
Open Scope N_scope.

Record vp9_key_hdr := {
  vk_profile : N;                    (* 0..3 *)
  vk_show_frame : bool; vk_error_resilient : bool;
  vk_twelve_bit : bool;              (* ten_or_twelve_bit, profiles 2 and 3 only *)
  vk_color_space : N;                (* 0..7; 7 = CS_RGB *)
  vk_color_range : bool;             (* coded unless CS_RGB *)
  vk_subsampling_x : bool; vk_subsampling_y : bool;   (* coded in profiles 1 and 3 only *)
  vk_width_minus_1 : N; vk_height_minus_1 : N;        (* 16 bits each *)
  vk_render_size : option (N * N)    (* render_and_frame_size_different *)
}.

Definition odd_profile (p : N) : bool := (p =? 1) || (p =? 3).

Definition enc_color_config_vp9 (h : vp9_key_hdr) : bits :=
  (if 2 <=? vk_profile h then f1 (vk_twelve_bit h) else []) ++
  f 3 (vk_color_space h) ++
  (if vk_color_space h =? 7 then
     (if odd_profile (vk_profile h) then f1 false else [])                     (* reserved_zero *)
   else
     f1 (vk_color_range h) ++
     (if odd_profile (vk_profile h)
      then f1 (vk_subsampling_x h) ++ f1 (vk_subsampling_y h) ++ f1 false      (* reserved_zero *)
      else [])).

Definition enc_vp9_key_header (h : vp9_key_hdr) : bits :=
  f 2 2 ++                                                  (* frame_marker = 2 *)
  f1 (N.testbit (vk_profile h) 0) ++ f1 (N.testbit (vk_profile h) 1) ++   (* profile_low_bit, profile_high_bit *)
  (if vk_profile h =? 3 then f1 false else []) ++           (* reserved_zero *)
  f1 false ++                                               (* show_existing_frame = 0 *)
  f1 false ++                                               (* frame_type = KEY_FRAME *)
  f1 (vk_show_frame h) ++ f1 (vk_error_resilient h) ++
  f 8 73 ++ f 8 131 ++ f 8 66 ++                            (* frame_sync_code 0x49 0x83 0x42 *)
  enc_color_config_vp9 h ++
  f 16 (vk_width_minus_1 h) ++ f 16 (vk_height_minus_1 h) ++            (* frame_size() *)
  match vk_render_size h with                                           (* render_size() *)
  | None => f1 false
  | Some (w, hh) => f1 true ++ f 16 w ++ f 16 hh
  end.

Definition valid_vp9_key_hdr (h : vp9_key_hdr) : bool :=
  (vk_profile h <? 4) && (vk_color_space h <? 8) &&
  (vk_width_minus_1 h <? 65536) && (vk_height_minus_1 h <? 65536) &&
  match vk_render_size h with Some (w, hh) => (w <? 65536) && (hh <? 65536) | None => true end.

(* a key frame: the header bits followed by any further bits of the frame *)
Definition vp9_key_frame (h : vp9_key_hdr) (rest : bits) : bytes := pack (enc_vp9_key_header h ++ rest).

(* what the container binding's vpcC record should say for such a stream *)
Definition vp9_bit_depth_of (h : vp9_key_hdr) : N :=
  if 2 <=? vk_profile h then (if vk_twelve_bit h then 12 else 10) else 8.
