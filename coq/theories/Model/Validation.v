(** Model of src/validation.rs (the pre-muxing validation utilities).  A result is the validity
    flag plus the lists of messages and errors, each text abstracted to a numeric code (the texts
    are format strings of the arguments; the harness maps each text back to its code). *)
From Coq Require Import Floats.SpecFloat.
From Muxide Require Import Model.Base Model.Adts Model.Codec Model.Boxes Model.F64.
Open Scope N_scope.

Record vresult := { vr_valid : bool; vr_messages : list N; vr_errors : list N }.

Definition vr_ok : vresult := {| vr_valid := true; vr_messages := []; vr_errors := [] |}.
Definition with_message (r : vresult) (c : N) : vresult :=
  {| vr_valid := vr_valid r; vr_messages := vr_messages r ++ [c]; vr_errors := vr_errors r |}.
Definition with_error (r : vresult) (c : N) : vresult :=
  {| vr_valid := false; vr_messages := vr_messages r; vr_errors := vr_errors r ++ [c] |}.

(* message codes *)
Definition M_VCODEC := 1.   Definition M_DIMS := 2.      Definition M_FPS := 3.
Definition M_ACODEC := 4.   Definition M_NOAUDIO := 5.   Definition M_RATE := 6.
Definition M_CHANNELS := 7. Definition M_KEY_UNMARKED := 8. Definition M_KEY_MATCH := 9.
Definition M_ADTS := 10.    Definition M_OPUS := 11.
(* error codes *)
Definition E_DIM_ZERO := 1.  Definition E_DIM_MAX := 2.   Definition E_DIM_MIN := 3.
Definition E_FPS_POS := 4.   Definition E_FPS_MAX := 5.   Definition E_RATE_POS := 6.
Definition E_RATE_MAX := 7.  Definition E_CH_POS := 8.    Definition E_CH_MAX := 9.
Definition E_VEMPTY := 10.   Definition E_KEY_MISMATCH := 11. Definition E_AEMPTY := 12.
Definition E_ADTS_SHORT := 13. Definition E_ADTS_SYNC := 14. Definition E_OPUS := 15.
Definition E_NONE_CODEC := 16. Definition E_V_MISSING := 17. Definition E_A_MISSING := 18.
Definition E_NO_STREAM := 19.

Definition f_120 : f64 := of_N 120.

(* width, height: u32; framerate: f64 *)
Definition validate_video_config (codec : video_codec) (width height : N) (framerate : f64) : vresult :=
  let r := with_message vr_ok M_VCODEC in
  let r :=
    if (width =? 0) || (height =? 0) then with_error r E_DIM_ZERO
    else if (4096 <? width) || (2160 <? height) then with_error r E_DIM_MAX
    else if (width <? 320) || (height <? 240) then with_error r E_DIM_MIN
    else with_message r M_DIMS in
  if fleb framerate f_zero then with_error r E_FPS_POS
  else if fltb f_120 framerate then with_error r E_FPS_MAX
  else with_message r M_FPS.

(* sample_rate: u32; channels: u8 *)
Definition validate_audio_config (codec : audio_codec) (sample_rate channels : N) : vresult :=
  match codec with
  | NoAudio => with_message vr_ok M_NOAUDIO
  | _ =>
      let r := with_message vr_ok M_ACODEC in
      let r :=
        if sample_rate =? 0 then with_error r E_RATE_POS
        else if 192000 <? sample_rate then with_error r E_RATE_MAX
        else with_message r M_RATE in
      if channels =? 0 then with_error r E_CH_POS
      else if 8 <? channels then with_error r E_CH_MAX
      else with_message r M_CHANNELS
  end.

Definition detected_keyframe (codec : video_codec) (d : bytes) : bool :=
  match codec with
  | H264 => is_h264_keyframe d
  | H265 => is_hevc_keyframe d
  | Av1 => is_av1_keyframe d
  | Vp9 => match is_vp9_keyframe d with Vp9Key b => b | _ => false end
  end.

Definition validate_video_frame (codec : video_codec) (d : bytes) (is_keyframe : bool) : vresult :=
  match d with
  | [] => with_error vr_ok E_VEMPTY
  | _ =>
      let det := detected_keyframe codec d in
      if is_keyframe && negb det then with_error vr_ok E_KEY_MISMATCH
      else if negb is_keyframe && det then with_message vr_ok M_KEY_UNMARKED
      else with_message vr_ok M_KEY_MATCH
  end.

Definition validate_audio_frame (codec : audio_codec) (d : bytes) : vresult :=
  match d with
  | [] => with_error vr_ok E_AEMPTY
  | _ =>
      match codec with
      | Aac _ =>
          if len d <? 7 then with_error vr_ok E_ADTS_SHORT
          else match d with
               | b0 :: b1 :: _ =>
                   if negb (b0 =? 255) || negb (N.land b1 240 =? 240) then with_error vr_ok E_ADTS_SYNC
                   else with_message vr_ok M_ADTS
               | _ => with_error vr_ok E_ADTS_SHORT
               end
      | Opus => if is_valid_opus_packet d then with_message vr_ok M_OPUS else with_error vr_ok E_OPUS
      | NoAudio => with_error vr_ok E_NONE_CODEC
      end
  end.

Record video_vcfg := { vv_codec : option video_codec; vv_width : option N; vv_height : option N;
                       vv_framerate : option f64; vv_frame : option (bytes * bool) }.
Record audio_vcfg := { av_codec : option audio_codec; av_rate : option N; av_channels : option N;
                       av_frame : option bytes }.

Definition merge (r s : vresult) : vresult :=
  {| vr_valid := vr_valid r && vr_valid s; vr_messages := vr_messages r ++ vr_messages s;
     vr_errors := vr_errors r ++ vr_errors s |}.

Definition is_none_codec (c : option audio_codec) : bool :=
  match c with None | Some NoAudio => true | _ => false end.

Definition validate_muxing_config (v : video_vcfg) (a : audio_vcfg) : vresult :=
  let r := vr_ok in
  let r :=
    match vv_codec v, vv_width v, vv_height v, vv_framerate v with
    | Some vc, Some w, Some h, Some fps =>
        let r := merge r (validate_video_config vc w h fps) in
        match vv_frame v with
        | Some (d, k) => merge r (validate_video_frame vc d k)
        | None => r
        end
    | Some _, _, _, _ => with_error r E_V_MISSING
    | None, _, _, _ => r
    end in
  let r :=
    match av_codec a, av_rate a, av_channels a with
    | Some ac, Some sr, Some ch =>
        let r := merge r (validate_audio_config ac sr ch) in
        match av_frame a with
        | Some d => merge r (validate_audio_frame ac d)
        | None => r
        end
    | Some ac, _, _ => match ac with NoAudio => r | _ => with_error r E_A_MISSING end
    | None, _, _ => r
    end in
  match vv_codec v with
  | None => if is_none_codec (av_codec a) then with_error r E_NO_STREAM else r
  | Some _ => r
  end.
