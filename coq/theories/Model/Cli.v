(** Model of the shell logic of src/bin/muxide.rs: hex decoding, the mux
    command's option checks in the order the binary performs them, the validate
    verdict and the info command's top-level box walk.  clap's argv parsing,
    text output and process exit codes are not modelled. *)
From Muxide Require Import Model.Base Model.Boxes Model.Writer Model.Api.
Open Scope N_scope.

Definition is_ws (c : N) : bool :=
  (c =? 32) || (c =? 9) || (c =? 10) || (c =? 13) || (c =? 11) || (c =? 12).
Definition hexdigit (c : N) : option N :=
  if (48 <=? c) && (c <=? 57) then Some (c - 48)
  else if (97 <=? c) && (c <=? 102) then Some (c - 87)
  else if (65 <=? c) && (c <=? 70) then Some (c - 55)
  else None.

(* read_hex_bytes on ASCII text: whitespace removed, even length asserted, each pair through
   u8::from_str_radix (which also accepts a leading '+' followed by one digit).
   None = the process panics (assert / expect). *)
Fixpoint hex_pairs (l : list N) : option bytes :=
  match l with
  | [] => Some []
  | [_] => None
  | a :: b :: t =>
      let v := match hexdigit a, hexdigit b with
               | Some x, Some y => Some (16 * x + y)
               | None, Some y => if a =? 43 then Some y else None
               | _, _ => None
               end in
      match v, hex_pairs t with
      | Some x, Some r => Some (x :: r)
      | _, _ => None
      end
  end.
Definition read_hex_bytes (text : bytes) : option bytes := hex_pairs (filter (fun c => negb (is_ws c)) text).

Definition ascii (text : bytes) : bool := forallb (fun c => c <? 128) text.

(* an input path: missing, or present with its content *)
Inductive input := Missing | Present (content : bytes).

Record mux_opts := {
  mo_video : option input; mo_audio : option input;
  mo_vcodec : option video_codec; mo_width : option N; mo_height : option N;
  mo_fps_ok : option bool;              (* Some true: 0 < fps <= 120 *)
  mo_acodec : option audio_codec; mo_rate : option N; mo_channels : option N;
  mo_fragmented : bool; mo_title : option bytes; mo_language : option bytes;
  mo_dry_run : bool; mo_output_creatable : bool }.

Inductive cli_outcome :=
| CliOk (file : option bytes) (video_frames audio_frames : N)   (* exit 0 + completion marker *)
| CliFail.                                                        (* non-zero exit, no marker *)

Definition all_some3 {A B C} (a : option A) (b : option B) (c : option C) : bool :=
  match a, b, c with Some _, Some _, Some _ => true | _, _, _ => false end.

Definition content_of (i : input) : option bytes := match i with Present c => Some c | Missing => None end.

Definition mux_command (o : mux_opts) : cli_outcome :=
  match mo_video o, mo_audio o with
  | None, None => CliFail
  | _, _ =>
    if (match mo_video o with Some _ => negb (all_some3 (mo_width o) (mo_height o) (mo_fps_ok o)) | None => false end) then CliFail
    else if (match mo_audio o with Some _ => negb (match mo_rate o, mo_channels o with Some _, Some _ => true | _, _ => false end) | None => false end) then CliFail
    else if mo_dry_run o then
      (if (match mo_video o with Some Missing => true | _ => false end) ||
          (match mo_audio o with Some Missing => true | _ => false end) then CliFail
       else CliOk None 0 0)
    else if negb (mo_output_creatable o) then CliFail
    else if mo_fragmented o then CliFail
    else
      (* builder configuration with the CLI's range assertions *)
      let vcfg :=
        match mo_video o, mo_width o, mo_height o, mo_fps_ok o with
        | Some _, Some w, Some h, Some fps =>
            if (320 <=? w) && (240 <=? h) && (w <=? 4096) && (h <=? 2160) && fps
            then Some (Some (match mo_vcodec o with Some c => c | None => H264 end, w, h))
            else None
        | _, _, _, _ => Some None
        end in
      let acfg :=
        match mo_audio o, mo_rate o, mo_channels o with
        | Some _, Some r, Some ch =>
            let codec := match mo_acodec o with Some c => c | None => Aac Lc end in
            if (match codec with NoAudio => false | _ => true end) &&
               (0 <? r) && (r <=? 192000) && (0 <? ch) && (ch <=? 8)
            then Some (Some (codec, r, ch))
            else None
        | _, _, _ => Some None
        end in
      match vcfg, acfg with
      | Some v, Some a =>
          let b0 := {| b_video := v; b_audio := a; b_meta := None; b_fast := true;
                       b_sps := None; b_pps := None; b_vps := None; b_av1 := None; b_vp9 := None |} in
          let b1 := match mo_title o with
                    | Some t => bstep b0 (BWithMetadata {| md_title := Some t; md_creation_time := None; md_language := None |})
                    | None => b0 end in
          let b2 := match mo_language o with Some l => bstep b1 (BSetLanguage l) | None => b1 end in
          match build b2 [] with
          | inr _ => CliFail
          | inl m0 =>
              let vstep :=
                match mo_video o with
                | Some Missing => None
                | Some (Present text) =>
                    if negb (ascii text) then None
                    else match read_hex_bytes text with
                         | Some d => match write_video m0 F64.f_zero d true with
                                     | (m1, None) => Some (m1, 1)
                                     | (_, Some _) => None
                                     end
                         | None => None
                         end
                | None => Some (m0, 0)
                end in
              match vstep with
              | None => CliFail
              | Some (m1, nv) =>
                  let astep :=
                    match mo_audio o with
                    | Some Missing => None
                    | Some (Present text) =>
                        if negb (ascii text) then None
                        else match read_hex_bytes text with
                             | Some d => match write_audio m1 F64.f_zero d with
                                         | (m2, None) => Some (m2, 1)
                                         | (_, Some _) => None
                                         end
                             | None => None
                             end
                    | None => Some (m1, 0)
                    end in
                  match astep with
                  | None => CliFail
                  | Some (m2, na) =>
                      match finish_in_place_with_stats m2 with
                      | (m3, FOk _) => CliOk (Some (sink_of m3)) nv na
                      | (_, _) => CliFail
                      end
                  end
              end
          end
      | _, _ => CliFail
      end
  end.

(** validate: verdict is valid iff at least one input is given and every given input exists
    and is non-empty, even-length hexadecimal text *)
Definition hex_file_valid (i : input) : bool :=
  match i with
  | Missing => false
  | Present text =>
      ascii text &&
      let h := filter (fun c => negb (is_ws c)) text in
      (match h with [] => false | _ => true end) && Nat.even (length h) &&
      forallb (fun c => match hexdigit c with Some _ => true | None => false end) h
  end.

Definition validate_verdict (video audio : option input) : bool :=
  (match video with Some i => hex_file_valid i | None => true end) &&
  (match audio with Some i => hex_file_valid i | None => true end) &&
  (match video, audio with None, None => false | _, _ => true end).

(** info: the top-level walk.  Each step consumes at least one byte. *)
Inductive info_entry := IBox (typ : bytes) (size offset : N) | IInvalid (size offset : N).

Fixpoint info_walk_f (fuel : nat) (buf : bytes) (offset : N) : list info_entry :=
  match fuel with
  | O => []
  | S f =>
      match rd32 buf with
      | Some (size, t0 :: t1 :: t2 :: t3 :: _) =>
          if size =? 0 then []
          else if len buf <? size then [IInvalid size offset]
          else IBox [t0; t1; t2; t3] size offset :: info_walk_f f (drop size buf) (offset + size)
      | _ => []
      end
  end.
(* None = "file too small" error *)
Definition info_walk (file : bytes) : option (list info_entry) :=
  if len file <? 8 then None else Some (info_walk_f (S (length file)) file 0).
