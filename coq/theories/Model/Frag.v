(** Model of src/fragmented.rs: FragmentedMuxer, init segment and media segment
    builders, and MuxerBuilder::new_with_fragment. *)
From Muxide Require Import Model.Base Model.Codec Model.Boxes Model.Writer Model.Api.
Open Scope N_scope.

Record frag_config := {
  fc_width : N; fc_height : N; fc_timescale : N; fc_fragment_duration_ms : N;
  fc_sps : bytes; fc_pps : bytes; fc_vps : option bytes;
  fc_av1 : option bytes; fc_vp9 : option vp9_config }.

Record frag_sample := { fs_pts : N; fs_dts : N; fs_data : bytes; fs_sync : bool }.

Record fmuxer := {
  fm_config : frag_config;
  fm_samples_rev : list frag_sample;
  fm_seq : N;
  fm_base : N;
  fm_init : option bytes;
  fm_last_dts : option N }.

Definition fmuxer_new (c : frag_config) : fmuxer :=
  {| fm_config := c; fm_samples_rev := []; fm_seq := 1; fm_base := 0; fm_init := None; fm_last_dts := None |}.

Inductive fbuild_err := FMissingVideo | FMissingParam.

Definition new_with_fragment (b : builder) : fmuxer + fbuild_err :=
  match b_video b with
  | None => inr FMissingVideo
  | Some (codec, w, h) =>
      let mk sps pps vps av1 vp9 :=
        inl (fmuxer_new {| fc_width := w; fc_height := h; fc_timescale := 90000;
                           fc_fragment_duration_ms := 2000; fc_sps := sps; fc_pps := pps;
                           fc_vps := vps; fc_av1 := av1; fc_vp9 := vp9 |}) in
      match codec with
      | H264 => match b_sps b, b_pps b with
                | Some s, Some p => mk s p None None None
                | _, _ => inr FMissingParam
                end
      | H265 => match b_vps b, b_sps b, b_pps b with
                | Some v, Some s, Some p => mk s p (Some v) None None
                | _, _, _ => inr FMissingParam
                end
      | Av1 => match b_av1 b with Some a => mk [] [] None (Some a) None | None => inr FMissingParam end
      | Vp9 => match b_vp9 b with Some c => mk [] [] None None (Some c) | None => inr FMissingParam end
      end
  end.

(** box builders *)
Definition build_ftyp_fmp4 : bytes :=
  build_box T_ftyp ([105;115;111;53] ++ be32 0 ++ [105;115;111;53] ++ [105;115;111;54] ++ [109;112;52;49]).

Definition unity_matrix : bytes :=
  be32 65536 ++ zeros 12 ++ be32 65536 ++ zeros 12 ++ be32 1073741824.

Definition build_mvhd_fmp4 (timescale : N) : bytes :=
  build_box T_mvhd (be32 0 ++ be32 0 ++ be32 0 ++ be32 timescale ++ be32 0 ++ be32 65536 ++
                    be16 256 ++ zeros 10 ++ unity_matrix ++ zeros 24 ++ be32 2).

Definition build_mvex : bytes :=
  build_box T_mvex (build_box T_trex (be32 0 ++ be32 1 ++ be32 1 ++ be32 0 ++ be32 0 ++ be32 0)).

Definition build_tkhd_fmp4 (c : frag_config) : bytes :=
  build_box T_tkhd (be32 3 ++ be32 0 ++ be32 0 ++ be32 1 ++ be32 0 ++ be32 0 ++ zeros 8 ++
                    be16 0 ++ be16 0 ++ be16 0 ++ be16 0 ++ unity_matrix ++
                    be32 (fc_width c * 65536) ++ be32 (fc_height c * 65536)).

Definition build_mdhd_fmp4 (timescale : N) : bytes :=
  build_box T_mdhd (be32 0 ++ be32 0 ++ be32 0 ++ be32 timescale ++ be32 0 ++
                    encode_language_code (utf8_chars UND) ++ be16 0).

Definition build_hdlr_video : bytes :=
  build_box T_hdlr (be32 0 ++ be32 0 ++ [118;105;100;101] ++ zeros 12 ++ VideoHandler ++ [0]).

Definition build_vmhd : bytes := build_box T_vmhd (be32 1 ++ zeros 8).

Definition build_dinf : bytes :=
  build_box T_dinf (build_box T_dref (be32 0 ++ be32 1 ++ build_box T_url [0;0;0;1])).

Definition visual_entry_prefix_fmp4 (c : frag_config) : bytes :=
  zeros 6 ++ be16 1 ++ be16 0 ++ be16 0 ++ zeros 12 ++ be16 (fc_width c) ++ be16 (fc_height c) ++
  be32 4718592 ++ be32 4718592 ++ be32 0 ++ be16 1 ++ zeros 32 ++ be16 24 ++ be16 65535.

Definition nth_or (l : bytes) (i : nat) (d : N) : N := match nth_error l i with Some x => x | None => d end.

Definition build_avcc_fmp4 (c : frag_config) : bytes :=
  build_box T_avcC ([1; nth_or (fc_sps c) 1 66; nth_or (fc_sps c) 2 0; nth_or (fc_sps c) 3 30; 255; 225] ++
                    be16 (len (fc_sps c)) ++ fc_sps c ++ [1] ++ be16 (len (fc_pps c)) ++ fc_pps c).

(* both records are written by the builders of the progressive muxer (fix 'fragmented init segment
   writes hvcC and av1C with the progressive builders') *)
Definition build_hvcc_fmp4 (c : frag_config) : bytes :=
  build_hvcc_box {| hevc_vps := match fc_vps c with Some v => v | None => [] end;
                    hevc_sps := fc_sps c; hevc_pps := fc_pps c |}.

Definition av1_config_default (s : bytes) : av1_config :=
  {| av1_sequence_header := s; av1_seq_profile := 0; av1_seq_level_idx := 0; av1_seq_tier := 0;
     av1_high_bitdepth := false; av1_twelve_bit := false; av1_monochrome := false;
     av1_subsampling_x := true; av1_subsampling_y := true; av1_chroma_sample_position := 0 |}.

Definition build_av1c_fmp4 (c : frag_config) : bytes :=
  let s := match fc_av1 c with Some s => s | None => [] end in
  build_av1c_box (match extract_av1_config s with Some a => a | None => av1_config_default s end).

Definition build_vpcc_fmp4 (c : frag_config) : bytes :=
  build_box T_vpcC
    match fc_vp9 c with
    | Some v => [1; vp9_profile v; vp9_level v; vp9_bit_depth v; vp9_color_space v;
                 vp9_transfer_function v; vp9_matrix_coefficients v; vp9_full_range_flag v]
    | None => []
    end.

Definition build_stsd_fmp4 (c : frag_config) : bytes :=
  let entry :=
    match fc_av1 c, fc_vp9 c, fc_vps c with
    | Some _, _, _ => build_box T_av01 (visual_entry_prefix_fmp4 c ++ build_av1c_fmp4 c)
    | None, Some _, _ => build_box T_vp09 (visual_entry_prefix_fmp4 c ++ build_vpcc_fmp4 c)
    | None, None, Some _ => build_box T_hvc1 (visual_entry_prefix_fmp4 c ++ build_hvcc_fmp4 c)
    | None, None, None => build_box T_avc1 (visual_entry_prefix_fmp4 c ++ build_avcc_fmp4 c)
    end in
  build_box T_stsd (be32 0 ++ be32 1 ++ entry).

Definition build_stbl_fmp4 (c : frag_config) : bytes :=
  build_box T_stbl (build_stsd_fmp4 c ++
                    build_box T_stts (be32 0 ++ be32 0) ++ build_box T_stsc (be32 0 ++ be32 0) ++
                    build_box T_stsz (be32 0 ++ be32 0 ++ be32 0) ++ build_box T_stco (be32 0 ++ be32 0)).

Definition build_minf_fmp4 (c : frag_config) : bytes :=
  build_box T_minf (build_vmhd ++ build_dinf ++ build_stbl_fmp4 c).
Definition build_mdia_fmp4 (c : frag_config) : bytes :=
  build_box T_mdia (build_mdhd_fmp4 (fc_timescale c) ++ build_hdlr_video ++ build_minf_fmp4 c).
Definition build_trak_fmp4 (c : frag_config) : bytes :=
  build_box T_trak (build_tkhd_fmp4 c ++ build_mdia_fmp4 c).
Definition build_moov_fmp4 (c : frag_config) : bytes :=
  build_box T_moov (build_mvhd_fmp4 (fc_timescale c) ++ build_mvex ++ build_trak_fmp4 c).

Definition init_segment_bytes (c : frag_config) : bytes := build_ftyp_fmp4 ++ build_moov_fmp4 c.

(** media segment *)
Definition build_mfhd (seq : N) : bytes := build_box T_mfhd (be32 0 ++ be32 seq).
Definition build_tfhd : bytes := build_box T_tfhd (be32 131072 ++ be32 1).
Definition build_tfdt (base : N) : bytes := build_box T_tfdt (be32 16777216 ++ be64 base).

Definition TRUN_FLAGS := 16777216 + 1 + 256 + 512 + 1024 + 2048.

(* per-sample trun record; [prev] = previous sample's dts, [next] = next sample's dts *)
Definition trun_entry (prev next : option N) (s : frag_sample) : bytes :=
  let duration := match next with
                  | Some n => u32 (n - fs_dts s)
                  | None => match prev with Some p => u32 (fs_dts s - p) | None => 3000 end
                  end in
  be32 duration ++ be32 (len (fs_data s)) ++
  be32 (if fs_sync s then 33554432 else 16842752) ++
  be32 (i32_bits (Z.of_N (fs_pts s) - Z.of_N (fs_dts s))).

Fixpoint trun_entries (prev : option N) (l : list frag_sample) : bytes :=
  match l with
  | [] => []
  | s :: t =>
      let next := match t with n :: _ => Some (fs_dts n) | [] => None end in
      trun_entry prev next s ++ trun_entries (Some (fs_dts s)) t
  end.

Definition build_trun (samples : list frag_sample) (data_offset : N) : bytes :=
  build_box T_trun (be32 TRUN_FLAGS ++ be32 (len samples) ++ be32 data_offset ++ trun_entries None samples).

Definition build_traf (samples : list frag_sample) (base data_offset : N) : bytes :=
  build_box T_traf (build_tfhd ++ build_tfdt base ++ build_trun samples data_offset).

Definition build_moof_with_offset (samples : list frag_sample) (seq base data_offset : N) : bytes :=
  build_box T_moof (build_mfhd seq ++ build_traf samples base data_offset).

Definition build_media_segment (samples : list frag_sample) (seq base : N) : bytes :=
  let data_offset := u32 (len (build_moof_with_offset samples seq base 0)) + 8 in
  build_moof_with_offset samples seq base data_offset ++
  be32 (8 + sumN (map (fun s => len (fs_data s)) samples)) ++ T_mdat ++
  concat (map fs_data samples).

(** operations *)
Inductive fop :=
| FWrite (pts dts : N) (data : bytes) (sync : bool)
| FFlush | FReady | FDur | FInit.

Inductive fres :=
| FrOk | FrErrNonMonotonic (prev cur : N) | FrSeg (b : option bytes) | FrBool (b : bool)
| FrNum (n : N) | FrBytes (b : bytes) | FrPanic.

Definition f_write (m : fmuxer) (pts dts : N) (data : bytes) (sync : bool) : fmuxer * fres :=
  match fm_last_dts m with
  | Some last => if dts <? last then (m, FrErrNonMonotonic last dts) else
      ({| fm_config := fm_config m;
          fm_samples_rev := {| fs_pts := pts; fs_dts := dts; fs_data := data; fs_sync := sync |} :: fm_samples_rev m;
          fm_seq := fm_seq m; fm_base := fm_base m; fm_init := fm_init m; fm_last_dts := Some dts |}, FrOk)
  | None =>
      ({| fm_config := fm_config m;
          fm_samples_rev := {| fs_pts := pts; fs_dts := dts; fs_data := data; fs_sync := sync |} :: fm_samples_rev m;
          fm_seq := fm_seq m; fm_base := fm_base m; fm_init := fm_init m; fm_last_dts := Some dts |}, FrOk)
  end.

Definition f_flush (m : fmuxer) : fmuxer * fres :=
  match rev (fm_samples_rev m) with
  | [] => (m, FrSeg None)
  | (s0 :: _) as samples =>
      let base := fs_dts s0 in
      ({| fm_config := fm_config m; fm_samples_rev := []; fm_seq := fm_seq m + 1;
          fm_base := base; fm_init := fm_init m; fm_last_dts := fm_last_dts m |},
       FrSeg (Some (build_media_segment samples (fm_seq m) base)))
  end.

Definition ticks_to_ms (m : fmuxer) (ticks : N) : N :=
  let ts := fc_timescale (fm_config m) in
  if ts =? 0 then 0 else N.min (ticks * 1000 / ts) U64MAX.

Definition span_ticks (m : fmuxer) : N :=
  match fm_samples_rev m with
  | [] => 0
  | last :: _ => match rev (fm_samples_rev m) with
                 | first :: _ => fs_dts last - fs_dts first
                 | [] => 0
                 end
  end.

Definition f_ready (m : fmuxer) : bool :=
  match fm_samples_rev m with
  | [] | [_] => false
  | _ => fc_fragment_duration_ms (fm_config m) <=? ticks_to_ms m (span_ticks m)
  end.

Definition f_dur (m : fmuxer) : N :=
  match fm_samples_rev m with
  | [] | [_] => 0
  | _ => ticks_to_ms m (span_ticks m)
  end.

Definition f_init (m : fmuxer) : fmuxer * bytes :=
  match fm_init m with
  | Some b => (m, b)
  | None =>
      let b := init_segment_bytes (fm_config m) in
      ({| fm_config := fm_config m; fm_samples_rev := fm_samples_rev m; fm_seq := fm_seq m;
          fm_base := fm_base m; fm_init := Some b; fm_last_dts := fm_last_dts m |}, b)
  end.

Definition fstep (m : fmuxer) (o : fop) : fmuxer * fres :=
  match o with
  | FWrite p d b s => f_write m p d b s
  | FFlush => f_flush m
  | FReady => (m, FrBool (f_ready m))
  | FDur => (m, FrNum (f_dur m))
  | FInit => let '(m', b) := f_init m in (m', FrBytes b)
  end.

Fixpoint frun (m : fmuxer) (ops : list fop) : fmuxer * list fres :=
  match ops with
  | [] => (m, [])
  | o :: t =>
      match fstep m o with
      | (m', FrPanic) => (m', [FrPanic])
      | (m', r) => let '(m'', rs) := frun m' t in (m'', r :: rs)
      end
  end.
