(** Model of the codec name conversions of src/api.rs (`Display` and `FromStr` for `VideoCodec`,
    `AudioCodec`, `AacProfile`), which the CLI uses for its --video-codec / --audio-codec options.
    Strings are byte strings (UTF-8).  `str::to_lowercase` is modelled as ASCII lower-casing; a string
    with a non-ASCII byte is mapped to "no match": no non-ASCII character lower-cases to a string made
    of the ASCII characters of the accepted names (the correspondence check includes such strings). *)
From Muxide Require Import Model.Base Model.Boxes.
Open Scope N_scope.

Definition ascii_lower (c : N) : N := if (65 <=? c) && (c <=? 90) then c + 32 else c.
Definition is_ascii (s : bytes) : bool := forallb (fun c => c <? 128) s.

Definition s_h264 : bytes := [104; 50; 54; 52].            (* "h264" *)
Definition s_h_264 : bytes := [104; 46; 50; 54; 52].       (* "h.264" *)
Definition s_avc : bytes := [97; 118; 99].                 (* "avc" *)
Definition s_h265 : bytes := [104; 50; 54; 53].
Definition s_h_265 : bytes := [104; 46; 50; 54; 53].
Definition s_hevc : bytes := [104; 101; 118; 99].
Definition s_av1 : bytes := [97; 118; 49].
Definition s_vp9 : bytes := [118; 112; 57].
Definition s_aac : bytes := [97; 97; 99].
Definition s_aac_lc : bytes := [97; 97; 99; 45; 108; 99].
Definition s_aac_main : bytes := [97; 97; 99; 45; 109; 97; 105; 110].
Definition s_aac_ssr : bytes := [97; 97; 99; 45; 115; 115; 114].
Definition s_aac_ltp : bytes := [97; 97; 99; 45; 108; 116; 112].
Definition s_aac_he : bytes := [97; 97; 99; 45; 104; 101].
Definition s_aac_hev2 : bytes := [97; 97; 99; 45; 104; 101; 118; 50].
Definition s_opus : bytes := [111; 112; 117; 115].
Definition s_none : bytes := [110; 111; 110; 101].

Definition seqb (a b : bytes) : bool := bytes_eqb a b.

(* <VideoCodec as FromStr>::from_str *)
Definition parse_video_codec (s : bytes) : option video_codec :=
  if negb (is_ascii s) then None
  else
    let l := map ascii_lower s in
    if seqb l s_h264 || seqb l s_h_264 || seqb l s_avc then Some H264
    else if seqb l s_h265 || seqb l s_h_265 || seqb l s_hevc then Some H265
    else if seqb l s_av1 then Some Av1
    else if seqb l s_vp9 then Some Vp9
    else None.

(* <AudioCodec as FromStr>::from_str *)
Definition parse_audio_codec (s : bytes) : option audio_codec :=
  if negb (is_ascii s) then None
  else
    let l := map ascii_lower s in
    if seqb l s_aac || seqb l s_aac_lc then Some (Aac Lc)
    else if seqb l s_aac_main then Some (Aac Main)
    else if seqb l s_aac_ssr then Some (Aac Ssr)
    else if seqb l s_aac_ltp then Some (Aac Ltp)
    else if seqb l s_aac_he then Some (Aac He)
    else if seqb l s_aac_hev2 then Some (Aac Hev2)
    else if seqb l s_opus then Some Opus
    else if seqb l s_none then Some NoAudio
    else None.

(* Display *)
Definition video_codec_name (c : video_codec) : bytes :=
  match c with
  | H264 => [72; 46; 50; 54; 52]      (* "H.264" *)
  | H265 => [72; 46; 50; 54; 53]
  | Av1 => [65; 86; 49]               (* "AV1" *)
  | Vp9 => [86; 80; 57]               (* "VP9" *)
  end.
Definition aac_profile_name (p : aac_profile) : bytes :=
  match p with
  | Lc => [76; 67] | Main => [77; 97; 105; 110] | Ssr => [83; 83; 82] | Ltp => [76; 84; 80]
  | He => [72; 69] | Hev2 => [72; 69; 118; 50]
  end.
Definition audio_codec_name (c : audio_codec) : bytes :=
  match c with
  | Aac p => [65; 65; 67; 45] ++ aac_profile_name p     (* "AAC-" *)
  | Opus => [79; 112; 117; 115]
  | NoAudio => [78; 111; 110; 101]
  end.
