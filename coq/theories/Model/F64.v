(** IEEE-754 binary64 as specified by Coq.Floats.SpecFloat (plain Gallina, no
    axioms): bit-pattern decode/encode and the operations the API performs. *)
From Coq Require Import Floats.SpecFloat.
From Muxide Require Import Model.Base.
Open Scope Z_scope.

Definition prec := 53.
Definition emax := 1024.

Definition f64 := spec_float.

(* decode a 64-bit pattern *)
Definition decode64 (bits : N) : f64 :=
  let b := Z.of_N (bits mod 18446744073709551616)%N in
  let s := Z.testbit b 63 in
  let e := (b / 4503599627370496) mod 2048 in
  let m := b mod 4503599627370496 in
  if e =? 0 then
    (if m =? 0 then S754_zero s else S754_finite s (Z.to_pos m) (-1074))
  else if e =? 2047 then
    (if m =? 0 then S754_infinity s else S754_nan)
  else S754_finite s (Z.to_pos (m + 4503599627370496)) (e - 1075).

(* encode; finite inputs are assumed canonical (as produced by SpecFloat ops) *)
Definition encode64 (x : f64) : N :=
  let sb (s : bool) := if s then 9223372036854775808 else 0 in
  Z.to_N
  match x with
  | S754_zero s => sb s
  | S754_infinity s => sb s + 2047 * 4503599627370496
  | S754_nan => 2047 * 4503599627370496 + 2251799813685248
  | S754_finite s m e =>
      let m := Z.pos m in
      if m <? 4503599627370496 then sb s + m
      else sb s + (e + 1075) * 4503599627370496 + (m - 4503599627370496)
  end.

Definition of_N (n : N) : f64 := binary_normalize prec emax (Z.of_N n) 0 false.

Definition f_zero : f64 := S754_zero false.
Definition f_90000 : f64 := of_N 90000.
Definition f_1000 : f64 := of_N 1000.

Definition fmul := SFmul prec emax.
Definition fdiv := SFdiv prec emax.
Definition fadd := SFadd prec emax.
Definition fltb := SFltb.
Definition fleb := SFleb.

Definition is_finite (x : f64) : bool :=
  match x with S754_zero _ | S754_finite _ _ _ => true | _ => false end.

(* [x.round() as u64]: round half away from zero, then the saturating cast *)
Definition round_to_u64 (x : f64) : N :=
  match x with
  | S754_finite false m e =>
      let m := Z.pos m in
      let v := if 0 <=? e then m * 2 ^ e
               else let d := 2 ^ (- e) in
                    let q := m / d in
                    if d <=? 2 * (m mod d) then q + 1 else q in
      N.min (Z.to_N v) U64MAX
  | S754_infinity false => U64MAX
  | _ => 0%N
  end.

(* (t * 90000.0).round() as u64 *)
Definition tick (t : f64) : N := round_to_u64 (fmul t f_90000).
