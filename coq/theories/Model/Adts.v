(** Model of adts_to_raw (src/muxer/mp4.rs) and the Opus packet helpers
    (src/codec/opus.rs). *)
From Muxide Require Import Model.Base.
Open Scope N_scope.

Inductive adts_err :=
| FrameTooShort | MissingSyncword | InvalidMpegVersion | InvalidLayer
| InvalidHeaderLength | InvalidSampleRateIndex | InvalidChannelConfig
| InvalidFrameLength | CrcMismatch.

Inductive adts_res := AdtsOk (raw : bytes) | AdtsErr (e : adts_err).

Definition adts_header_len (b1 : N) : N := if band b1 1 =? 0 then 9 else 7.

(* 13-bit frame length from bytes 3..5 *)
Definition adts_frame_length (b3 b4 b5 : N) : N :=
  N.lor (N.lor (N.shiftl (band b3 3) 11) (N.shiftl b4 3)) (shr (band b5 224) 5).

Definition adts_to_raw (frame : bytes) : adts_res :=
  match frame with
  | b0 :: b1 :: b2 :: b3 :: b4 :: b5 :: _ :: _ =>
      let syncword := N.lor (N.shiftl b0 4) (shr b1 4) in
      if negb (syncword =? 4095) then AdtsErr MissingSyncword
      else if negb (band (shr b1 3) 1 =? 0) then AdtsErr InvalidMpegVersion
      else if negb (band (shr b1 1) 3 =? 0) then AdtsErr InvalidLayer
      else
        let header_len := adts_header_len b1 in
        if len frame <? header_len then AdtsErr InvalidHeaderLength
        else if 12 <? band (shr b2 2) 15 then AdtsErr InvalidSampleRateIndex
        else
          let chan := N.lor (N.shiftl (band b2 1) 2) (band (shr b3 6) 3) in
          if (chan =? 0) || (7 <? chan) then AdtsErr InvalidChannelConfig
          else
            let fl := adts_frame_length b3 b4 b5 in
            if fl <=? header_len then AdtsErr InvalidFrameLength
            else if len frame <? fl then AdtsErr InvalidFrameLength
            else AdtsOk (firstn (N.to_nat (fl - header_len)) (skipn (N.to_nat header_len) frame))
  | _ => AdtsErr FrameTooShort
  end.

(** Opus (RFC 6716 TOC byte) *)
Definition opus_frame_duration_from_toc (toc : N) : option N :=
  let config := band (shr toc 3) 31 in
  if config <=? 3 then Some 480
  else if config <=? 7 then Some 960
  else if config <=? 11 then Some 1920
  else if config <=? 15 then Some 2880
  else if config <=? 19 then Some 480
  else if config <=? 23 then Some 960
  else if config <=? 27 then Some 120
  else if config <=? 31 then Some 240
  else None.

Definition opus_frame_count (packet : bytes) : option (N * bool) :=
  match packet with
  | [] => None
  | toc :: rest =>
      let code := band toc 3 in
      if code =? 0 then Some (1, false)
      else if code =? 1 then Some (2, false)
      else if code =? 2 then Some (2, true)
      else match rest with
           | [] => None
           | fc :: _ =>
               let count := band fc 63 in
               if count =? 0 then None else Some (count, negb (band fc 128 =? 0))
           end
  end.

Definition opus_packet_samples (packet : bytes) : option N :=
  match packet with
  | [] => None
  | toc :: _ =>
      match opus_frame_duration_from_toc toc with
      | None => None
      | Some d =>
          match opus_frame_count packet with
          | None => None
          | Some (c, _) =>
              if (c <? 1) || (63 <? c) then None
              else let s := d * c in if s =? 0 then None else Some s
          end
      end
  end.

Definition is_valid_opus_packet (packet : bytes) : bool :=
  match packet with
  | [] => false
  | _ => match opus_packet_samples packet with Some _ => true | None => false end
  end.
