(** Model of src/api.rs: MuxerBuilder and Muxer. Timestamps cross the API as
    binary64 bit patterns. *)
From Coq Require Import Floats.SpecFloat.
From Muxide Require Import Model.Base Model.Annexb Model.Adts Model.Codec Model.Boxes Model.Writer Model.F64.
Open Scope N_scope.

Inductive merr :=
| MissingVideoConfig | MIo (k : io_kind) | AlreadyFinished
| NegativeVideoPts (i : N) | NegativeVideoDts (i : N) | InvalidVideoPts (i : N) | InvalidVideoDts (i : N)
| NegativeAudioPts (i : N) | InvalidAudioPts (i : N) | AudioNotConfigured
| EmptyAudioFrame (i : N) | EmptyVideoFrame (i : N)
| NonIncreasingVideoPts (i : N) | DecreasingAudioPts (i : N) | AudioBeforeFirstVideo
| FirstVideoFrameMustBeKeyframe | FirstVideoFrameMissingSpsPps
| FirstAv1FrameMissingSequenceHeader | FirstVp9FrameMissingSequenceHeader
| MInvalidAdtsDetailed (i : N) (e : adts_err) | MInvalidOpusPacket (i : N)
| NonIncreasingDts (i : N).

(** * Builder *)
Record builder := {
  b_video : option (video_codec * N * N);
  b_audio : option (audio_codec * N * N);
  b_meta : option metadata;
  b_fast : bool;
  b_sps : option bytes; b_pps : option bytes; b_vps : option bytes;
  b_av1 : option bytes; b_vp9 : option vp9_config }.

Definition builder_new : builder :=
  {| b_video := None; b_audio := None; b_meta := None; b_fast := true;
     b_sps := None; b_pps := None; b_vps := None; b_av1 := None; b_vp9 := None |}.

Inductive bop :=
| BVideo (c : video_codec) (w h : N) | BSetVideoTrack (c : video_codec) (w h : N)
| BAudio (c : audio_codec) (rate ch : N) | BSetAudioTrack (c : audio_codec) (rate ch : N)
| BWithMetadata (m : metadata) | BSetCreateTime (t : N) | BSetLanguage (l : bytes)
| BFastStart (b : bool)
| BSps (x : bytes) | BPps (x : bytes) | BVps (x : bytes) | BAv1Seq (x : bytes) | BVp9 (c : vp9_config).

Definition md_default : metadata := {| md_title := None; md_creation_time := None; md_language := None |}.
Definition md_or_default (m : option metadata) : metadata := match m with Some x => x | None => md_default end.

Definition upd_video b v := {| b_video := v; b_audio := b_audio b; b_meta := b_meta b; b_fast := b_fast b;
  b_sps := b_sps b; b_pps := b_pps b; b_vps := b_vps b; b_av1 := b_av1 b; b_vp9 := b_vp9 b |}.
Definition upd_audio b a := {| b_video := b_video b; b_audio := a; b_meta := b_meta b; b_fast := b_fast b;
  b_sps := b_sps b; b_pps := b_pps b; b_vps := b_vps b; b_av1 := b_av1 b; b_vp9 := b_vp9 b |}.
Definition upd_meta b m := {| b_video := b_video b; b_audio := b_audio b; b_meta := m; b_fast := b_fast b;
  b_sps := b_sps b; b_pps := b_pps b; b_vps := b_vps b; b_av1 := b_av1 b; b_vp9 := b_vp9 b |}.

Definition bstep (b : builder) (o : bop) : builder :=
  match o with
  | BVideo c w h | BSetVideoTrack c w h => upd_video b (Some (c, w, h))
  | BAudio c r ch | BSetAudioTrack c r ch => upd_audio b (Some (c, r, ch))
  | BWithMetadata m => upd_meta b (Some m)
  | BSetCreateTime t =>
      let m := md_or_default (b_meta b) in
      upd_meta b (Some {| md_title := md_title m; md_creation_time := Some t; md_language := md_language m |})
  | BSetLanguage l =>
      let m := md_or_default (b_meta b) in
      upd_meta b (Some {| md_title := md_title m; md_creation_time := md_creation_time m; md_language := Some l |})
  | BFastStart f => {| b_video := b_video b; b_audio := b_audio b; b_meta := b_meta b; b_fast := f;
      b_sps := b_sps b; b_pps := b_pps b; b_vps := b_vps b; b_av1 := b_av1 b; b_vp9 := b_vp9 b |}
  | BSps x => {| b_video := b_video b; b_audio := b_audio b; b_meta := b_meta b; b_fast := b_fast b;
      b_sps := Some x; b_pps := b_pps b; b_vps := b_vps b; b_av1 := b_av1 b; b_vp9 := b_vp9 b |}
  | BPps x => {| b_video := b_video b; b_audio := b_audio b; b_meta := b_meta b; b_fast := b_fast b;
      b_sps := b_sps b; b_pps := Some x; b_vps := b_vps b; b_av1 := b_av1 b; b_vp9 := b_vp9 b |}
  | BVps x => {| b_video := b_video b; b_audio := b_audio b; b_meta := b_meta b; b_fast := b_fast b;
      b_sps := b_sps b; b_pps := b_pps b; b_vps := Some x; b_av1 := b_av1 b; b_vp9 := b_vp9 b |}
  | BAv1Seq x => {| b_video := b_video b; b_audio := b_audio b; b_meta := b_meta b; b_fast := b_fast b;
      b_sps := b_sps b; b_pps := b_pps b; b_vps := b_vps b; b_av1 := Some x; b_vp9 := b_vp9 b |}
  | BVp9 c => {| b_video := b_video b; b_audio := b_audio b; b_meta := b_meta b; b_fast := b_fast b;
      b_sps := b_sps b; b_pps := b_pps b; b_vps := b_vps b; b_av1 := b_av1 b; b_vp9 := Some c |}
  end.

Definition run_builder (ops : list bop) : builder := fold_left bstep ops builder_new.

(** * Muxer *)
Record muxer := {
  m_writer : writer;
  m_codec : video_codec; m_video : video_track;
  m_audio : option audio_track;
  m_meta : option metadata; m_fast : bool;
  m_first_vpts : option f64; m_last_vpts : option f64; m_last_vdts : option f64;
  m_last_apts : option f64;
  m_vcount : N; m_acount : N; m_finished : bool;
  m_cur_vpts : f64; m_cur_apts : f64 }.

Definition audio_of (a : option (audio_codec * N * N)) : option audio_track :=
  match a with
  | Some (NoAudio, _, _) => None
  | Some (c, r, ch) => Some {| at_sample_rate := r; at_channels := ch; at_codec := c |}
  | None => None
  end.

Definition build (b : builder) (script : list sink_ev) : muxer + merr :=
  match b_video b with
  | None => inr MissingVideoConfig
  | Some (codec, w, h) =>
      let a := audio_of (b_audio b) in
      inl {| m_writer := writer_new {| sk_rev_chunks := []; sk_script := script |} codec a;
             m_codec := codec; m_video := {| vt_width := w; vt_height := h |};
             m_audio := a; m_meta := b_meta b; m_fast := b_fast b;
             m_first_vpts := None; m_last_vpts := None; m_last_vdts := None; m_last_apts := None;
             m_vcount := 0; m_acount := 0; m_finished := false;
             m_cur_vpts := f_zero; m_cur_apts := f_zero |}
  end.

Definition convert_mp4_error (e : werr) (idx : N) : merr :=
  match e with
  | NonIncreasingTimestamp => NonIncreasingVideoPts idx
  | FirstFrameMustBeKeyframe => FirstVideoFrameMustBeKeyframe
  | FirstFrameMissingSpsPps => FirstVideoFrameMissingSpsPps
  | FirstFrameMissingSequenceHeader => FirstAv1FrameMissingSequenceHeader
  | FirstFrameMissingVp9Config => FirstVp9FrameMissingSequenceHeader
  | InvalidAdtsDetailed a => MInvalidAdtsDetailed idx a
  | InvalidOpusPacket => MInvalidOpusPacket idx
  | AudioNotEnabled => AudioNotConfigured
  | DurationOverflow => MIo IoInvalidData
  | AlreadyFinalized => AlreadyFinished
  end.

Definition set_video_ok (m : muxer) (w : writer) (pts : f64) (dts : option f64) : muxer :=
  {| m_writer := w; m_codec := m_codec m; m_video := m_video m; m_audio := m_audio m;
     m_meta := m_meta m; m_fast := m_fast m;
     m_first_vpts := match m_first_vpts m with None => Some pts | x => x end;
     m_last_vpts := Some pts;
     m_last_vdts := match dts with Some d => Some d | None => m_last_vdts m end;
     m_last_apts := m_last_apts m;
     m_vcount := m_vcount m + 1; m_acount := m_acount m; m_finished := m_finished m;
     m_cur_vpts := m_cur_vpts m; m_cur_apts := m_cur_apts m |}.

Definition opt_cmp (f : f64 -> f64 -> bool) (x : f64) (o : option f64) : bool :=
  match o with Some p => f x p | None => false end.

Definition write_video (m : muxer) (pts : f64) (data : bytes) (key : bool) : muxer * option merr :=
  let idx := m_vcount m in
  match data with
  | [] => (m, Some (EmptyVideoFrame idx))
  | _ =>
      if negb (is_finite pts) then (m, Some (InvalidVideoPts idx))
      else if fltb pts f_zero then (m, Some (NegativeVideoPts idx))
      else if opt_cmp fleb pts (m_last_vpts m) then (m, Some (NonIncreasingVideoPts idx))
      else
        match write_video_sample (m_writer m) (tick pts) data key with
        | inr e => (m, Some (convert_mp4_error e idx))
        | inl w => (set_video_ok m w pts None, None)
        end
  end.

Definition write_video_with_dts (m : muxer) (pts dts : f64) (data : bytes) (key : bool)
  : muxer * option merr :=
  if m_finished m then (m, Some AlreadyFinished)
  else
    let idx := m_vcount m in
    match data with
    | [] => (m, Some (EmptyVideoFrame idx))
    | _ =>
        if negb (is_finite pts) then (m, Some (InvalidVideoPts idx))
        else if fltb pts f_zero then (m, Some (NegativeVideoPts idx))
        else if negb (is_finite dts) then (m, Some (InvalidVideoDts idx))
        else if fltb dts f_zero then (m, Some (NegativeVideoDts idx))
        else if opt_cmp fleb dts (m_last_vdts m) then (m, Some (NonIncreasingDts idx))
        else
          match write_video_sample_with_dts (m_writer m) (tick pts) (tick dts) data key with
          | inr e => (m, Some (convert_mp4_error e idx))
          | inl w => (set_video_ok m w pts (Some dts), None)
          end
    end.

Definition write_audio (m : muxer) (pts : f64) (data : bytes) : muxer * option merr :=
  if m_finished m then (m, Some AlreadyFinished)
  else
    match m_audio m with
    | None => (m, Some AudioNotConfigured)
    | Some _ =>
        let idx := m_acount m in
        if negb (is_finite pts) then (m, Some (InvalidAudioPts idx))
        else if fltb pts f_zero then (m, Some (NegativeAudioPts idx))
        else
          match data with
          | [] => (m, Some (EmptyAudioFrame idx))
          | _ =>
              if opt_cmp fltb pts (m_last_apts m) then (m, Some (DecreasingAudioPts idx))
              else
                match m_first_vpts m with
                | None => (m, Some AudioBeforeFirstVideo)
                | Some fv =>
                    if fltb pts fv then (m, Some AudioBeforeFirstVideo)
                    else
                      match write_audio_sample (m_writer m) (tick pts) data with
                      | inr e => (m, Some (convert_mp4_error e idx))
                      | inl w =>
                          ({| m_writer := w; m_codec := m_codec m; m_video := m_video m; m_audio := m_audio m;
                              m_meta := m_meta m; m_fast := m_fast m; m_first_vpts := m_first_vpts m;
                              m_last_vpts := m_last_vpts m; m_last_vdts := m_last_vdts m;
                              m_last_apts := Some pts; m_vcount := m_vcount m; m_acount := m_acount m + 1;
                              m_finished := m_finished m; m_cur_vpts := m_cur_vpts m;
                              m_cur_apts := m_cur_apts m |}, None)
                      end
                end
          end
    end.

(* Muxer::is_keyframe (private helper of encode_video) *)
Definition api_is_keyframe (m : muxer) (data : bytes) : bool :=
  match data with
  | [] => false
  | _ =>
      match m_codec m with
      | H264 => existsb (fun n => h264_nal_type n =? 5) (filter nonempty (nal_iter data))
      | H265 => existsb (fun n => let t := hevc_nal_type n in (19 <=? t) && (t <=? 21))
                        (filter nonempty (nal_iter data))
      | Av1 => m_vcount m =? 0
      | Vp9 => match is_vp9_keyframe data with Vp9Key b => b | _ => false end
      end
  end.

Definition set_cur (m : muxer) (v a : f64) : muxer :=
  {| m_writer := m_writer m; m_codec := m_codec m; m_video := m_video m; m_audio := m_audio m;
     m_meta := m_meta m; m_fast := m_fast m; m_first_vpts := m_first_vpts m;
     m_last_vpts := m_last_vpts m; m_last_vdts := m_last_vdts m; m_last_apts := m_last_apts m;
     m_vcount := m_vcount m; m_acount := m_acount m; m_finished := m_finished m;
     m_cur_vpts := v; m_cur_apts := a |}.

Definition encode_video (m : muxer) (data : bytes) (duration_ms : N) : muxer * option merr :=
  let pts := m_cur_vpts m in
  match write_video m pts data (api_is_keyframe m data) with
  | (m', None) => (set_cur m' (fadd (m_cur_vpts m') (fdiv (of_N (u32 duration_ms)) f_1000)) (m_cur_apts m'), None)
  | r => r
  end.

Definition encode_audio (m : muxer) (data : bytes) (samples : N) : muxer * option merr :=
  match m_audio m with
  | None => (m, Some AudioNotConfigured)
  | Some a =>
      match write_audio m (m_cur_apts m) data with
      | (m', None) =>
          (set_cur m' (m_cur_vpts m')
                   (fadd (m_cur_apts m') (fdiv (of_N (u32 samples)) (of_N (u32 (at_sample_rate a))))), None)
      | r => r
      end
  end.

Record stats := { st_video_frames : N; st_audio_frames : N; st_duration : f64; st_bytes : N }.

Inductive fin_out := FOk (s : stats) | FErr (e : merr) | FPanic (p : panic_site).

Definition finish_in_place_with_stats (m : muxer) : muxer * fin_out :=
  if m_finished m then (m, FErr AlreadyFinished)
  else
    let '(w, r) := finalize (m_writer m) (m_video m) (m_meta m) (m_fast m) in
    let m' fin := {| m_writer := w; m_codec := m_codec m; m_video := m_video m; m_audio := m_audio m;
                     m_meta := m_meta m; m_fast := m_fast m; m_first_vpts := m_first_vpts m;
                     m_last_vpts := m_last_vpts m; m_last_vdts := m_last_vdts m; m_last_apts := m_last_apts m;
                     m_vcount := m_vcount m; m_acount := m_acount m; m_finished := fin;
                     m_cur_vpts := m_cur_vpts m; m_cur_apts := m_cur_apts m |} in
    match r with
    | FinErr (FinIo k) => (m' false, FErr (MIo k))
    | FinErr (FinPanic p) => (m' false, FPanic p)
    | FinOk =>
        let ticks := match max_end_pts w with Some t => t | None => 0 end in
        (m' true, FOk {| st_video_frames := len (w_vrev w); st_audio_frames := len (w_arev w);
                         st_duration := fdiv (of_N ticks) f_90000; st_bytes := w_bytes_written w |})
    end.

(** * Call histories *)
Inductive op :=
| WV (pts : N) (data : bytes) (key : bool)
| WVD (pts dts : N) (data : bytes) (key : bool)
| WA (pts : N) (data : bytes)
| EV (data : bytes) (duration_ms : N)
| EA (data : bytes) (samples : N)
| FIN.

Inductive result := ROk | RStats (s : stats) | RErr (e : merr) | RPanic (p : panic_site).

Definition lift (r : muxer * option merr) : muxer * result :=
  match r with (m, None) => (m, ROk) | (m, Some e) => (m, RErr e) end.

Definition step (m : muxer) (o : op) : muxer * result :=
  match o with
  | WV p d k => lift (write_video m (decode64 p) d k)
  | WVD p t d k => lift (write_video_with_dts m (decode64 p) (decode64 t) d k)
  | WA p d => lift (write_audio m (decode64 p) d)
  | EV d ms => lift (encode_video m d ms)
  | EA d s => lift (encode_audio m d s)
  | FIN => match finish_in_place_with_stats m with
           | (m', FOk s) => (m', RStats s)
           | (m', FErr e) => (m', RErr e)
           | (m', FPanic p) => (m', RPanic p)
           end
  end.

(* a panic unwinds out of the call; the history stops there *)
Fixpoint run (m : muxer) (ops : list op) : muxer * list result :=
  match ops with
  | [] => (m, [])
  | o :: t =>
      match step m o with
      | (m', RPanic p) => (m', [RPanic p])
      | (m', r) => let '(m'', rs) := run m' t in (m'', r :: rs)
      end
  end.

Definition sink_of (m : muxer) : bytes := sink_bytes (w_sink (m_writer m)).
