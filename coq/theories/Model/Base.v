(** Base: bytes, fixed-width integers written out as [mod 2^k], big-endian
    encoders, and the outcome type shared by all models.

    Definitions only (no proofs) so the model still runs when a proof breaks. *)
From Coq Require Export List NArith ZArith Bool.
Export ListNotations.
Open Scope N_scope.

Definition byte := N.
Definition bytes := list byte.

Definition len {A} (l : list A) : N := N.of_nat (length l).

(* Rust [as uN] / wrapping fixed-width values *)
Definition u8  (x : N) : N := x mod 256.
Definition u16 (x : N) : N := x mod 65536.
Definition u32 (x : N) : N := x mod 4294967296.
Definition u64 (x : N) : N := x mod 18446744073709551616.
Definition U16MAX : N := 65535.
Definition U32MAX : N := 4294967295.
Definition U64MAX : N := 18446744073709551615.
Definition I32MOD : Z := 4294967296%Z.

(* [(z as i64) as i32] then [to_be_bytes]: the two's-complement 32-bit pattern *)
Definition i32_bits (z : Z) : N := Z.to_N (z mod I32MOD)%Z.
(* value of an i32 bit pattern *)
Definition i32_of_bits (n : N) : Z :=
  if n <? 2147483648 then Z.of_N n else (Z.of_N n - I32MOD)%Z.

(* big-endian encoders; the argument is reduced modulo the field width, which is
   exactly what [x as uN).to_be_bytes()] does *)
Definition be16 (x : N) : bytes := [ (x / 256) mod 256; x mod 256 ].
Definition be32 (x : N) : bytes :=
  [ (x / 16777216) mod 256; (x / 65536) mod 256; (x / 256) mod 256; x mod 256 ].
Definition be64 (x : N) : bytes := be32 (x / 4294967296) ++ be32 x.

Definition rd16 (b : bytes) : option (N * bytes) :=
  match b with a :: c :: r => Some (a * 256 + c, r) | _ => None end.
Definition rd32 (b : bytes) : option (N * bytes) :=
  match b with
  | a :: c :: d :: e :: r => Some (a * 16777216 + c * 65536 + d * 256 + e, r)
  | _ => None
  end.
Definition rd64 (b : bytes) : option (N * bytes) :=
  match rd32 b with
  | Some (hi, r) => match rd32 r with Some (lo, r') => Some (hi * 4294967296 + lo, r') | None => None end
  | None => None
  end.

Definition zeros (n : nat) : bytes := repeat 0 n.

Definition take {A} (n : N) (l : list A) := firstn (N.to_nat n) l.
Definition drop {A} (n : N) (l : list A) := skipn (N.to_nat n) l.

Fixpoint sumN (l : list N) : N := match l with [] => 0 | x :: t => x + sumN t end.

Definition bytes_ok (b : bytes) : bool := forallb (fun x => x <? 256) b.

Fixpoint bytes_eqb (a b : bytes) : bool :=
  match a, b with
  | [], [] => true
  | x :: a', y :: b' => (x =? y) && bytes_eqb a' b'
  | _, _ => false
  end.

Definition opt_map {A B} (f : A -> B) (o : option A) : option B :=
  match o with Some a => Some (f a) | None => None end.
Definition opt_bind {A B} (o : option A) (f : A -> option B) : option B :=
  match o with Some a => f a | None => None end.
Notation "'let?' x ':=' e 'in' k" := (opt_bind e (fun x => k))
  (at level 200, x pattern, e at level 100, k at level 200, right associativity).

(* ASCII four-character codes as bytes *)
Definition fourcc (a b c d : N) : bytes := [a; b; c; d].

(* bitwise helpers on bytes *)
Definition shr (x k : N) : N := N.shiftr x k.
Definition band (x m : N) : N := N.land x m.
