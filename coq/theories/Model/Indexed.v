(** Indexed: an INDEX-LEVEL model of the byte parsers of the crate.

    The list-level models (Annexb.v, Adts.v, Codec.v, Boxes.v) describe the
    parsers by structural recursion / pattern matching on lists, so a Rust
    index panic ([data[i]] with [i >= data.len()]), a slice panic
    ([&data[a..b]] with [a > b] or [b > data.len()]) or a [usize] subtraction
    underflow cannot even be expressed there.  This file mirrors the Rust code
    access by access:

      - every [data[i]]        is [get d i]        (IxPanic when i >= len)
      - every [&data[a..b]]    is [slice d a b]    (IxPanic when a > b or b > len)
      - every [&data[a..]]     is [slice_from d a] (IxPanic when a > len)
      - every [&data[..b]]     is [slice_to d b]   (IxPanic when b > len)
      - every usize [a - b]    is [csub a b]       (IxPanic when b > a; debug build)
      - every [x << s] whose shift amount [s] is a run-time value is
        [cshl width x s]       (IxPanic when s >= width; debug build)
      - every u32/usize [a * b] / data-derived [a + b] that could overflow is
        [cmul]/[cadd] with the type's modulus (IxPanic on overflow; debug build)
      - every [assert_invariant!(c, ..)] met in the mirrored code is [assert_ix c]
        (IxPanic when the condition is false; all build profiles)
      - [&&] / [||] are short-circuit ([andb_ix], [orb_ix]): the right operand is
        not evaluated (cannot panic) when the left one decides.

    Loops run on fuel; running out of fuel is the distinguished value [IxFuel]
    (a modelling artefact, NOT a Rust behaviour) and is proved unreachable
    together with [IxPanic] (Proofs/IndexSafetyProofs.v: every [foo_ix] is
    proved equal to [IxOk (foo ...)], [foo] the list-level model).

    MODELLING ASSUMPTION (usize): index arithmetic is on [nat].  Additions of
    small constants to indices/lengths of slices that exist in memory
    ([i + 3], [offset + 1], [pos + len + 8], ...) cannot overflow because a Rust
    slice has [len <= isize::MAX]; such additions are plain [nat] additions.
    usize is 64 bits ([USIZE_MOD = 2^64]) where a data-derived value is added
    (AV1 [header_size + payload_size], [pos + total_size]).

    The arithmetic performed on the bytes after they have been fetched
    (masks, constant shifts, comparisons) is copied from the list-level model,
    whose agreement with the Rust code is validated elsewhere (differential
    tests, *_is_spec theorems); a shift by a CONSTANT smaller than the operand
    width cannot panic and is not wrapped.

    Definitions only (no proofs). *)
From Muxide Require Import Model.Base Model.Annexb Model.Adts Model.Codec Model.Boxes.
Open Scope N_scope.

(** * The result type and the checked primitives *)
Inductive ix (A : Type) : Type :=
| IxOk (a : A)      (* the Rust expression evaluates to [a] *)
| IxPanic           (* Rust index / slice / arithmetic panic *)
| IxFuel.           (* model artefact: loop fuel exhausted (proved unreachable) *)
Arguments IxOk {A} a.
Arguments IxPanic {A}.
Arguments IxFuel {A}.

Definition ix_bind {A B} (e : ix A) (k : A -> ix B) : ix B :=
  match e with IxOk a => k a | IxPanic => IxPanic | IxFuel => IxFuel end.
Notation "'let*' x ':=' e 'in' k" := (ix_bind e (fun x => k))
  (at level 200, x pattern, e at level 100, k at level 200, right associativity).

(* data[i] *)
Definition get (d : bytes) (i : nat) : ix N :=
  match nth_error d i with Some b => IxOk b | None => IxPanic end.
(* &data[a..b] *)
Definition slice (d : bytes) (a b : nat) : ix bytes :=
  if (a <=? b)%nat && (b <=? length d)%nat then IxOk (firstn (b - a) (skipn a d)) else IxPanic.
(* &data[a..] *)
Definition slice_from (d : bytes) (a : nat) : ix bytes :=
  if (a <=? length d)%nat then IxOk (skipn a d) else IxPanic.
(* &data[..b] *)
Definition slice_to (d : bytes) (b : nat) : ix bytes :=
  if (b <=? length d)%nat then IxOk (firstn b d) else IxPanic.
(* usize a - b (debug build: panics on underflow) *)
Definition csub (a b : nat) : ix nat :=
  if (b <=? a)%nat then IxOk (a - b)%nat else IxPanic.
(* x << s on a [width]-bit unsigned type, s a run-time value (debug build:
   panics when s >= width); the result keeps the low [width] bits *)
Definition cshl (width : N) (x s : N) : ix N :=
  if s <? width then IxOk (N.shiftl x s mod 2 ^ width) else IxPanic.
(* x >> s on a [width]-bit unsigned type, s a run-time value *)
Definition cshr (width : N) (x s : N) : ix N :=
  if s <? width then IxOk (N.shiftr x s) else IxPanic.
(* a * b and a + b on an unsigned type of modulus [m] (debug build) *)
Definition cmul (m : N) (a b : N) : ix N := if a * b <? m then IxOk (a * b) else IxPanic.
Definition cadd (m : N) (a b : N) : ix N := if a + b <? m then IxOk (a + b) else IxPanic.
Definition USIZE_MOD : N := 18446744073709551616.
Definition U32_MOD : N := 4294967296.
(* a slice that exists in memory has len <= isize::MAX *)
Definition ISIZE_MAX : N := 9223372036854775807.

(* assert_invariant!(cond, ..): src/invariant_ppt.rs evaluates the condition and
   panics ("INVARIANT VIOLATION") when it is false, in every build profile *)
Definition assert_ix (cond : bool) : ix unit := if cond then IxOk tt else IxPanic.

(* short-circuit boolean operators *)
Definition andb_ix (a b : ix bool) : ix bool :=
  let* x := a in if x then b else IxOk false.
Definition orb_ix (a b : ix bool) : ix bool :=
  let* x := a in if x then IxOk true else b.
Infix "&&!" := andb_ix (at level 40, left associativity).
Infix "||!" := orb_ix (at level 50, left associativity).
(* data[i] == v  /  data[i] != v *)
Definition get_eq (d : bytes) (i : nat) (v : N) : ix bool :=
  let* b := get d i in IxOk (b =? v).
Definition get_ne (d : bytes) (i : nat) (v : N) : ix bool :=
  let* b := get d i in IxOk (negb (b =? v)).

(** * G1: src/codec/common.rs, and the Annex B loops of h264.rs / h265.rs *)

(* pub fn find_start_code(data: &[u8], from: usize) -> Option<(usize, usize)> {
       if data.len() < 3 || from >= data.len() { return None; }
       let mut i = from;
       while i + 3 <= data.len() {
           if i + 4 <= data.len()
               && data[i] == 0 && data[i + 1] == 0 && data[i + 2] == 0 && data[i + 3] == 1
           { return Some((i, 4)); }
           if data[i] == 0 && data[i + 1] == 0 && data[i + 2] == 1 { return Some((i, 3)); }
           i += 1;
       }
       None
   } *)
Fixpoint fsc_loop_ix (fuel : nat) (d : bytes) (i : nat) : ix (option (nat * nat)) :=
  match fuel with
  | O => IxFuel
  | S f =>
      if (i + 3 <=? length d)%nat then
        let* c4 := IxOk (i + 4 <=? length d)%nat
                   &&! get_eq d i 0 &&! get_eq d (i + 1) 0
                   &&! get_eq d (i + 2) 0 &&! get_eq d (i + 3) 1 in
        if c4 then IxOk (Some (i, 4%nat))
        else
          let* c3 := get_eq d i 0 &&! get_eq d (i + 1) 0 &&! get_eq d (i + 2) 1 in
          if c3 then IxOk (Some (i, 3%nat))
          else fsc_loop_ix f d (i + 1)
      else IxOk None
  end.

Definition find_start_code_ix (d : bytes) (from : nat) : ix (option (nat * nat)) :=
  if (length d <? 3)%nat || (length d <=? from)%nat then IxOk None
  else fsc_loop_ix (S (length d)) d from.

(* fn next(&mut self) -> Option<Self::Item> {
       let (start_code_pos, start_code_len) = find_start_code(self.data, self.cursor)?;
       let nal_start = start_code_pos + start_code_len;
       let nal_end = match find_start_code(self.data, nal_start) {
           Some((next_pos, _)) => next_pos,
           None => self.data.len(),
       };
       self.cursor = nal_end;
       Some(&self.data[nal_start..nal_end])
   }
   The iterator state is the cursor; the result carries the new cursor. *)
Definition nal_next_ix (d : bytes) (cursor : nat) : ix (option (bytes * nat)) :=
  let* r := find_start_code_ix d cursor in
  match r with
  | None => IxOk None
  | Some (p, l) =>
      let nal_start := (p + l)%nat in
      let* r2 := find_start_code_ix d nal_start in
      let nal_end := match r2 with Some (np, _) => np | None => length d end in
      let* nal := slice d nal_start nal_end in
      IxOk (Some (nal, nal_end))
  end.

(* [for nal in AnnexBNalIter::new(data) { body }] with a loop state [St]; the body
   returns the new state and whether it left the loop ([break] / [return]).
   [next] is not called again after leaving. *)
Fixpoint nal_for_ix {St} (fuel : nat) (d : bytes) (cursor : nat)
         (body : St -> bytes -> ix (St * bool)) (s : St) : ix St :=
  match fuel with
  | O => IxFuel
  | S f =>
      let* r := nal_next_ix d cursor in
      match r with
      | None => IxOk s
      | Some (nal, cursor') =>
          let* sb := body s nal in
          let '(s', brk) := sb in
          if brk then IxOk s' else nal_for_ix f d cursor' body s'
      end
  end.
Definition nal_loop_ix {St} (d : bytes) (body : St -> bytes -> ix (St * bool)) (s : St) : ix St :=
  nal_for_ix (S (length d)) d 0 body s.

(* the whole iteration, [AnnexBNalIter::new(data).collect()] *)
Definition nal_iter_ix (d : bytes) : ix (list bytes) :=
  nal_loop_ix d (fun acc nal => IxOk (acc ++ [nal], false)) [].

Definition is_empty (b : bytes) : bool := match b with [] => true | _ => false end.

(* pub fn annexb_to_avcc(data: &[u8]) -> Vec<u8> {
       let mut out = Vec::new();
       for nal in AnnexBNalIter::new(data) {
           if nal.is_empty() { continue; }
           let len = nal.len() as u32;
           out.extend_from_slice(&len.to_be_bytes());
           out.extend_from_slice(nal);
       }
       if out.is_empty() && !data.is_empty() {
           let len = data.len() as u32;
           out.extend_from_slice(&len.to_be_bytes());
           out.extend_from_slice(data);
       }
       out
   }   ([be32] reduces modulo 2^32, which is [as u32]) *)
Definition annexb_to_avcc_ix (d : bytes) : ix bytes :=
  let* out := nal_loop_ix d (fun out nal =>
                 if is_empty nal then IxOk (out, false)
                 else IxOk (out ++ be32 (len nal) ++ nal, false)) [] in
  if is_empty out && negb (is_empty d) then IxOk (out ++ be32 (len d) ++ d)
  else IxOk out.

(* h265.rs: pub fn hevc_annexb_to_hvcc: the same body, textually *)
Definition hevc_annexb_to_hvcc_ix (d : bytes) : ix bytes :=
  let* out := nal_loop_ix d (fun out nal =>
                 if is_empty nal then IxOk (out, false)
                 else IxOk (out ++ be32 (len nal) ++ nal, false)) [] in
  if is_empty out && negb (is_empty d) then IxOk (out ++ be32 (len d) ++ d)
  else IxOk out.

(** * G2: adts_to_raw (src/muxer/mp4.rs) *)

(* let create_hex_dump = |offset: usize, len: usize| -> String {
       let start = offset.saturating_sub(8).min(frame.len());
       let end = (offset + len + 8).min(frame.len());
       let slice = &frame[start..end];
       ... (formatting: iterates [slice.iter().enumerate()], no indexing)
   The result is the slice that is formatted. *)
Definition create_hex_dump_ix (frame : bytes) (offset len : nat) : ix bytes :=
  let start := Nat.min (offset - 8) (length frame) in    (* saturating_sub = nat subtraction *)
  let end_ := Nat.min (offset + len + 8) (length frame) in
  slice frame start end_.

(* an error return: the hex dump is computed (it slices), then the error kind is returned *)
Definition adts_fail (frame : bytes) (offset len : nat) (e : adts_err) : ix adts_res :=
  let* _ := create_hex_dump_ix frame offset len in IxOk (AdtsErr e).

(* fn adts_to_raw(frame: &[u8]) -> Result<&[u8], AdtsValidationError> {
       if frame.len() < 7 { return Err(FrameTooShort, hex_dump(0, frame.len())) }
       let syncword = ((frame[0] as u16) << 4) | ((frame[1] as u16) >> 4);
       if syncword != 0xFFF { return Err(MissingSyncword, hex_dump(0, 2)) }
       let mpeg_version = (frame[1] >> 3) & 0x01;
       if mpeg_version != 0 { return Err(InvalidMpegVersion, hex_dump(1, 1)) }
       let layer = (frame[1] >> 1) & 0x03;
       if layer != 0 { return Err(InvalidLayer, hex_dump(1, 1)) }
       let protection_absent = (frame[1] & 0x01) != 0;
       let header_len = if protection_absent { 7 } else { 9 };
       if frame.len() < header_len { return Err(InvalidHeaderLength, hex_dump(0, frame.len())) }
       let profile = (frame[2] >> 6) & 0x03;
       let sample_rate_idx = (frame[2] >> 2) & 0x0F;
       if sample_rate_idx > 12 { return Err(InvalidSampleRateIndex, hex_dump(2, 1)) }
       let channel_config = ((frame[2] & 0x01) << 2) | ((frame[3] >> 6) & 0x03);
       if channel_config == 0 || channel_config > 7 { return Err(InvalidChannelConfig, hex_dump(2, 2)) }
       let aac_frame_length: usize = (((frame[3] & 0x03) as usize) << 11)
           | ((frame[4] as usize) << 3) | (((frame[5] & 0xE0) as usize) >> 5);
       if aac_frame_length <= header_len { return Err(InvalidFrameLength, hex_dump(3, 3)) }
       if aac_frame_length > frame.len() { return Err(InvalidFrameLength, hex_dump(3, 3)) }
       if !protection_absent && frame.len() >= header_len + 2 {
           let crc_start = header_len - 2;
           if frame.len() < crc_start + 2 {
               return Err(CrcMismatch, hex_dump(crc_start, frame.len().saturating_sub(crc_start)))
           }
       }
       Ok(&frame[header_len..aac_frame_length])
   } *)
Definition adts_to_raw_ix (frame : bytes) : ix adts_res :=
  if (length frame <? 7)%nat then adts_fail frame 0 (length frame) FrameTooShort
  else
    let* f0 := get frame 0 in
    let* f1 := get frame 1 in
    let syncword := N.lor (N.shiftl f0 4) (shr f1 4) in
    if negb (syncword =? 4095) then adts_fail frame 0 2 MissingSyncword
    else
      let* f1a := get frame 1 in
      if negb (band (shr f1a 3) 1 =? 0) then adts_fail frame 1 1 InvalidMpegVersion
      else
        let* f1b := get frame 1 in
        if negb (band (shr f1b 1) 3 =? 0) then adts_fail frame 1 1 InvalidLayer
        else
          let* f1c := get frame 1 in
          let protection_absent := negb (band f1c 1 =? 0) in
          let header_len := if protection_absent then 7%nat else 9%nat in
          if (length frame <? header_len)%nat
          then adts_fail frame 0 (length frame) InvalidHeaderLength
          else
            let* f2 := get frame 2 in
            let _profile := band (shr f2 6) 3 in
            let* f2a := get frame 2 in
            if 12 <? band (shr f2a 2) 15 then adts_fail frame 2 1 InvalidSampleRateIndex
            else
              let* f2b := get frame 2 in
              let* f3 := get frame 3 in
              let chan := N.lor (N.shiftl (band f2b 1) 2) (band (shr f3 6) 3) in
              if (chan =? 0) || (7 <? chan) then adts_fail frame 2 2 InvalidChannelConfig
              else
                let* f3a := get frame 3 in
                let* f4 := get frame 4 in
                let* f5 := get frame 5 in
                let fl := N.to_nat (adts_frame_length f3a f4 f5) in
                if (fl <=? header_len)%nat then adts_fail frame 3 3 InvalidFrameLength
                else if (length frame <? fl)%nat then adts_fail frame 3 3 InvalidFrameLength
                else
                  let* crc :=
                    (if negb protection_absent && (header_len + 2 <=? length frame)%nat then
                       let* crc_start := csub header_len 2 in
                       if (length frame <? crc_start + 2)%nat
                       then
                         let* _ := create_hex_dump_ix frame crc_start (length frame - crc_start) in
                         IxOk (Some CrcMismatch)
                       else IxOk None
                     else IxOk None) in
                  match crc with
                  | Some e => IxOk (AdtsErr e)
                  | None =>
                      let* raw := slice frame header_len fl in
                      IxOk (AdtsOk raw)
                  end.

(** * G3: nal[0] / sps[i] reads *)

(* mp4.rs build_avcc_box:
     let (profile_indication, profile_compat, level_indication) = if avc_config.sps.len() >= 4 {
         (avc_config.sps[1], avc_config.sps[2], avc_config.sps[3])
     } else { (0x42, 0x00, 0x1e) };
   (the rest of the function only pushes / extends vectors) *)
Definition avcc_profile_bytes_ix (sps : bytes) : ix (N * N * N) :=
  if (4 <=? length sps)%nat then
    let* a := get sps 1 in
    let* b := get sps 2 in
    let* c := get sps 3 in
    IxOk (a, b, c)
  else IxOk (66, 0, 30).

Definition build_avcc_box_ix (c : avc_config) : ix bytes :=
  let sps := avc_sps c in
  let* t := avcc_profile_bytes_ix sps in
  let '(pi, pc, li) := t in
  IxOk (build_box T_avcC ([1; pi; pc; li; 255; 225] ++ be16 (len sps) ++ sps ++ [1] ++
                          be16 (len (avc_pps c)) ++ avc_pps c)).

(* h264.rs is_h264_keyframe:
     for nal in AnnexBNalIter::new(data) {
         if nal.is_empty() { continue; }
         let nal_type = nal[0] & 0x1f;
         if nal_type == nal_type::IDR_SLICE { return true; }
     }
     false *)
Definition is_h264_keyframe_ix (d : bytes) : ix bool :=
  nal_loop_ix d (fun (_ : bool) nal =>
    if is_empty nal then IxOk (false, false)
    else
      let* b := get nal 0 in
      if band b 31 =? 5 then IxOk (true, true) else IxOk (false, false)) false.

(* h265.rs hevc_nal_type:
     if nal.is_empty() { return 0; }
     (nal[0] >> 1) & 0x3f *)
Definition hevc_nal_type_ix (nal : bytes) : ix N :=
  if is_empty nal then IxOk 0
  else let* b := get nal 0 in IxOk (band (shr b 1) 63).

(* h265.rs is_hevc_keyframe:
     if data.is_empty() { return false; }
     assert_invariant!(!data.is_empty(), "INV-503 ..");
     for nal in AnnexBNalIter::new(data) {
         if nal.is_empty() { continue; }
         let nal_type = hevc_nal_type(nal);
         assert_invariant!(nal_type <= 63, "INV-504 ..");
         if is_hevc_keyframe_nal_type(nal_type) { return true; }
     }
     false *)
Definition is_hevc_keyframe_ix (d : bytes) : ix bool :=
  if is_empty d then IxOk false
  else
    let* _ := assert_ix (negb (is_empty d)) in
    nal_loop_ix d (fun (_ : bool) nal =>
      if is_empty nal then IxOk (false, false)
      else
        let* t := hevc_nal_type_ix nal in
        let* _ := assert_ix (t <=? 63) in
        if is_hevc_keyframe_nal_type t then IxOk (true, true) else IxOk (false, false)) false.

(* h264.rs extract_avc_config:
     if data.is_empty() { return None; }
     let mut sps = None; let mut pps = None;
     for nal in AnnexBNalIter::new(data) {
         if nal.is_empty() { continue; }
         let nal_type = nal[0] & 0x1f;
         assert_invariant!(nal_type <= 31, "INV-301 ..");
         if nal_type == SPS && sps.is_none() { sps = Some(nal); }
         else if nal_type == PPS && pps.is_none() { pps = Some(nal); }
         if sps.is_some() && pps.is_some() { break; }
     }
     if let (Some(s), Some(p)) = (sps, pps) {
         assert_invariant!(!s.is_empty() && !p.is_empty(), "INV-302 ..");
         Some(AvcConfig{..})
     } else { None } *)
Definition is_some {A} (o : option A) : bool := match o with Some _ => true | None => false end.

Definition extract_avc_config_ix (d : bytes) : ix (option avc_config) :=
  if is_empty d then IxOk None
  else
    let* st := nal_loop_ix d (fun (st : option bytes * option bytes) nal =>
      let '(sps, pps) := st in
      if is_empty nal then IxOk (st, false)
      else
        let* b := get nal 0 in
        let nal_type := band b 31 in
        let* _ := assert_ix (nal_type <=? 31) in
        let st' := if (nal_type =? 7) && negb (is_some sps) then (Some nal, pps)
                   else if (nal_type =? 8) && negb (is_some pps) then (sps, Some nal)
                   else st in
        IxOk (st', is_some (fst st') && is_some (snd st'))) (None, None) in
    match st with
    | (Some s, Some p) =>
        let* _ := assert_ix (negb (is_empty s) && negb (is_empty p)) in
        IxOk (Some {| avc_sps := s; avc_pps := p |})
    | _ => IxOk None
    end.

(* h265.rs extract_hevc_config:
     if data.is_empty() { return None; }
     for nal in AnnexBNalIter::new(data) {
         if nal.is_empty() { continue; }
         let nal_type = hevc_nal_type(nal);
         assert_invariant!(nal_type <= 63, "INV-501 ..");
         match nal_type {
             VPS if vps.is_none() => vps = Some(nal),
             SPS if sps.is_none() => sps = Some(nal),
             PPS if pps.is_none() => pps = Some(nal),
             _ => {}
         }
         if vps.is_some() && sps.is_some() && pps.is_some() { break; }
     }
     if let (Some(v), Some(s), Some(p)) = (vps, sps, pps) {
         assert_invariant!(!v.is_empty() && !s.is_empty() && !p.is_empty(), "INV-502 ..");
         Some(..)
     } else { None } *)
Definition extract_hevc_config_ix (d : bytes) : ix (option hevc_config) :=
  if is_empty d then IxOk None
  else
    let* st := nal_loop_ix d (fun (st : option bytes * option bytes * option bytes) nal =>
      let '(vps, sps, pps) := st in
      if is_empty nal then IxOk (st, false)
      else
        let* t := hevc_nal_type_ix nal in
        let* _ := assert_ix (t <=? 63) in
        let st' := if (t =? 32) && negb (is_some vps) then (Some nal, sps, pps)
                   else if (t =? 33) && negb (is_some sps) then (vps, Some nal, pps)
                   else if (t =? 34) && negb (is_some pps) then (vps, sps, Some nal)
                   else st in
        let '(v', s', p') := st' in
        IxOk (st', is_some v' && is_some s' && is_some p')) (None, None, None) in
    match st with
    | (Some v, Some s, Some p) =>
        let* _ := assert_ix (negb (is_empty v) && negb (is_empty s) && negb (is_empty p)) in
        IxOk (Some {| hevc_vps := v; hevc_sps := s; hevc_pps := p |})
    | _ => IxOk None
    end.

(** * G4: src/codec/opus.rs *)

(* pub fn opus_frame_count(packet: &[u8]) -> Option<(u8, bool)> {
       if packet.is_empty() { return None; }
       let toc = packet[0];
       let code = toc & 0x03;
       if code > 3 { return None; }
       match code {
           0 => Some((1, false)), 1 => Some((2, false)), 2 => Some((2, true)),
           3 => {
               if packet.len() < 2 { return None; }
               let frame_count_byte = packet[1];
               let is_vbr = (frame_count_byte & 0x80) != 0;
               let count = frame_count_byte & 0x3F;
               if count == 0 { return None; }
               Some((count, is_vbr))
           }
           _ => None,
       }
   } *)
Definition opus_frame_count_ix (packet : bytes) : ix (option (N * bool)) :=
  if is_empty packet then IxOk None
  else
    let* toc := get packet 0 in
    let code := band toc 3 in
    if 3 <? code then IxOk None
    else if code =? 0 then IxOk (Some (1, false))
    else if code =? 1 then IxOk (Some (2, false))
    else if code =? 2 then IxOk (Some (2, true))
    else if code =? 3 then
      if (length packet <? 2)%nat then IxOk None
      else
        let* fcb := get packet 1 in
        let is_vbr := negb (band fcb 128 =? 0) in
        let count := band fcb 63 in
        if count =? 0 then IxOk None else IxOk (Some (count, is_vbr))
    else IxOk None.

(* pub fn opus_packet_samples(packet: &[u8]) -> Option<u32> {
       if packet.is_empty() { return None; }
       let frame_duration = opus_frame_duration_from_toc(packet[0])?;
       let (frame_count, _) = opus_frame_count(packet)?;
       if !(1..=63).contains(&frame_count) { return None; }
       let samples = frame_duration.samples() * frame_count as u32;   // u32 multiplication
       if samples == 0 { return None; }
       Some(samples)
   }
   (opus_frame_duration_from_toc takes a byte, it does not index) *)
Definition opus_packet_samples_ix (packet : bytes) : ix (option N) :=
  if is_empty packet then IxOk None
  else
    let* toc := get packet 0 in
    match opus_frame_duration_from_toc toc with
    | None => IxOk None
    | Some d =>
        let* fc := opus_frame_count_ix packet in
        match fc with
        | None => IxOk None
        | Some (c, _) =>
            if (c <? 1) || (63 <? c) then IxOk None
            else
              let* s := cmul U32_MOD d c in
              if s =? 0 then IxOk None else IxOk (Some s)
        end
    end.

(* pub fn is_valid_opus_packet(packet: &[u8]) -> bool {
       if packet.is_empty() { return false; }
       opus_packet_samples(packet).is_some()
   } *)
Definition is_valid_opus_packet_ix (packet : bytes) : ix bool :=
  if is_empty packet then IxOk false
  else let* r := opus_packet_samples_ix packet in IxOk (is_some r).

(** * G5: src/codec/vp9.rs *)

(* pub fn is_vp9_keyframe(frame: &[u8]) -> Result<bool, Vp9Error> {
       if frame.len() < 3 { return Err(FrameTooShort); }
       if frame[0] != 0x49 || frame[1] != 0x83 || frame[2] != 0x42 { return Err(InvalidFrameMarker); }
       if frame.len() < 4 { return Err(FrameTooShort); }
       let profile = (frame[3] >> 6) & 0x03;
       let show_existing_frame = (frame[3] >> 5) & 0x01;
       let frame_type = (frame[3] >> 4) & 0x01;
       assert_invariant!(profile <= 3, ..);                       // INV-405
       if show_existing_frame != 0 { return Ok(false); }
       Ok(frame_type == 0)
   } *)
Definition is_vp9_keyframe_ix (f : bytes) : ix vp9_kf :=
  if (length f <? 3)%nat then IxOk Vp9TooShort
  else
    let* bad := get_ne f 0 73 ||! get_ne f 1 131 ||! get_ne f 2 66 in
    if bad then IxOk Vp9BadMarker
    else if (length f <? 4)%nat then IxOk Vp9TooShort
    else
      let* b3 := get f 3 in
      let profile := band (shr b3 6) 3 in
      let* b3a := get f 3 in
      let show_existing := band (shr b3a 5) 1 in
      let* b3b := get f 3 in
      let frame_type := band (shr b3b 4) 1 in
      let* _ := assert_ix (profile <=? 3) in
      if negb (show_existing =? 0) then IxOk (Vp9Key false)
      else IxOk (Vp9Key (frame_type =? 0)).

(* pub fn is_valid_vp9_frame(frame: &[u8]) -> bool {
       if frame.len() < 3 { return false; }
       frame[0] == 0x49 && frame[1] == 0x83 && frame[2] == 0x42
   } *)
Definition is_valid_vp9_frame_ix (f : bytes) : ix bool :=
  if (length f <? 3)%nat then IxOk false
  else get_eq f 0 73 &&! get_eq f 1 131 &&! get_eq f 2 66.

(* fn parse_vp9_var_uint(data: &[u8], mut offset: usize) -> Option<(u32, usize)> {
       let mut value = 0u32;
       let mut shift = 0;
       loop {
           if offset >= data.len() { return None; }
           let byte = data[offset];
           offset += 1;
           value |= ((byte & 0x7F) as u32) << shift;     // run-time shift amount on a u32
           shift += 7;
           if (byte & 0x80) == 0 { break; }
           if shift >= 32 { return None; }
       }
       Some((value, offset))
   } *)
Fixpoint vp9_var_uint_loop_ix (fuel : nat) (data : bytes) (offset : nat) (value shift : N)
  : ix (option (N * nat)) :=
  match fuel with
  | O => IxFuel
  | S f =>
      if (length data <=? offset)%nat then IxOk None
      else
        let* byte := get data offset in
        let offset' := (offset + 1)%nat in
        let* sh := cshl 32 (band byte 127) shift in
        let value' := N.lor value sh in
        let shift' := shift + 7 in
        if band byte 128 =? 0 then IxOk (Some (value', offset'))
        else if 32 <=? shift' then IxOk None
        else vp9_var_uint_loop_ix f data offset' value' shift'
  end.
Definition parse_vp9_var_uint_ix (data : bytes) (offset : nat) : ix (option (N * nat)) :=
  vp9_var_uint_loop_ix 6 data offset 0 0.

(* fn parse_vp9_color_config(data: &[u8], mut offset: usize) -> Option<(u8, u8, u8, u8, u8)> {
       if offset >= data.len() { return Some((8, 0, 0, 0, 0)); }
       let bit_depth = if (data[offset] & 0x01) != 0 { 10 } else { 8 };
       let color_space = (data[offset] >> 1) & 0x07;
       let transfer_function = (data[offset] >> 4) & 0x07;
       let matrix_coefficients = (data[offset] >> 7) & 0x01;
       offset += 1;
       let full_range_flag = if color_space != 0 {
           if offset >= data.len() { 0 } else { data[offset] & 0x01 }
       } else { 0 };
       Some((bit_depth, color_space, transfer_function, matrix_coefficients, full_range_flag))
   }   (always [Some]; the list-level model returns the tuple) *)
Definition parse_vp9_color_config_ix (data : bytes) (offset : nat) : ix (option (N * N * N * N * N)) :=
  if (length data <=? offset)%nat then IxOk (Some (8, 0, 0, 0, 0))
  else
    let* b0 := get data offset in
    let bit_depth := if negb (band b0 1 =? 0) then 10 else 8 in
    let* b1 := get data offset in
    let cs := band (shr b1 1) 7 in
    let* b2 := get data offset in
    let tf := band (shr b2 4) 7 in
    let* b3 := get data offset in
    let mc := band (shr b3 7) 1 in
    let offset' := (offset + 1)%nat in
    let* fr := (if negb (cs =? 0) then
                  if (length data <=? offset')%nat then IxOk 0
                  else let* b := get data offset' in IxOk (band b 1)
                else IxOk 0) in
    IxOk (Some (bit_depth, cs, tf, mc, fr)).

(* pub fn extract_vp9_config(keyframe: &[u8]) -> Option<Vp9Config> {
       if keyframe.len() < 3 { return None; }
       if keyframe[0] != 0x49 || keyframe[1] != 0x83 || keyframe[2] != 0x42 { return None; }
       assert_invariant!(keyframe[0] == 0x49 && keyframe[1] == 0x83 && keyframe[2] == 0x42, ..); // INV-401
       if keyframe.len() < 6 { return None; }
       let profile = (keyframe[3] >> 6) & 0x03;
       let show_existing_frame = (keyframe[3] >> 5) & 0x01;
       let frame_type = (keyframe[3] >> 4) & 0x01;
       assert_invariant!(profile <= 3, ..);                                                     // INV-402
       if show_existing_frame != 0 || frame_type != 0 { return None; }
       let mut offset = 5;
       if profile >= 2 {
           if offset + 1 >= keyframe.len() { return None; }
           offset += 1;
       }
       let (width, new_offset) = parse_vp9_var_uint(keyframe, offset)?;  offset = new_offset;
       let (height, new_offset) = parse_vp9_var_uint(keyframe, offset)?; offset = new_offset;
       let (render_width, render_height) = if offset + 1 < keyframe.len() {
           let render_and_frame_size_different = (keyframe[offset] & 0x0C) != 0;
           if render_and_frame_size_different {
               offset += 1;
               let (rw, no) = parse_vp9_var_uint(keyframe, offset)?; offset = no;
               let (rh, no) = parse_vp9_var_uint(keyframe, offset)?; offset = no;
               (rw, rh)
           } else { (width, height) }
       } else { (width, height) };
       let (bit_depth, color_space, transfer_function, matrix_coefficients, full_range_flag) =
           parse_vp9_color_config(keyframe, offset)?;
       Some(Vp9Config { width: render_width, height: render_height, profile, .., level: 0, full_range_flag })
   } *)
Definition extract_vp9_config_ix (k : bytes) : ix (option vp9_config) :=
  if (length k <? 3)%nat then IxOk None
  else
    let* bad := get_ne k 0 73 ||! get_ne k 1 131 ||! get_ne k 2 66 in
    if bad then IxOk None
    else
      let* good := get_eq k 0 73 &&! get_eq k 1 131 &&! get_eq k 2 66 in
      let* _ := assert_ix good in
      if (length k <? 6)%nat then IxOk None
      else
        let* b3 := get k 3 in
        let profile := band (shr b3 6) 3 in
        let* b3a := get k 3 in
        let show_existing := band (shr b3a 5) 1 in
        let* b3b := get k 3 in
        let frame_type := band (shr b3b 4) 1 in
        let* _ := assert_ix (profile <=? 3) in
        if negb (show_existing =? 0) || negb (frame_type =? 0) then IxOk None
        else
          let offset := 5%nat in
          let* offset1 :=
            (if 2 <=? profile then
               if (length k <=? offset + 1)%nat then IxOk None else IxOk (Some (offset + 1)%nat)
             else IxOk (Some offset)) in
          match offset1 with
          | None => IxOk None
          | Some offset =>
              let* r1 := parse_vp9_var_uint_ix k offset in
              match r1 with
              | None => IxOk None
              | Some (width, offset) =>
                  let* r2 := parse_vp9_var_uint_ix k offset in
                  match r2 with
                  | None => IxOk None
                  | Some (height, offset) =>
                      let* render :=
                        (if (offset + 1 <? length k)%nat then
                           let* b := get k offset in
                           if negb (band b 12 =? 0) then
                             let offset := (offset + 1)%nat in
                             let* r3 := parse_vp9_var_uint_ix k offset in
                             match r3 with
                             | None => IxOk None
                             | Some (rw, offset) =>
                                 let* r4 := parse_vp9_var_uint_ix k offset in
                                 match r4 with
                                 | None => IxOk None
                                 | Some (rh, offset) => IxOk (Some (rw, rh, offset))
                                 end
                             end
                           else IxOk (Some (width, height, offset))
                         else IxOk (Some (width, height, offset))) in
                      match render with
                      | None => IxOk None
                      | Some (rw, rh, offset) =>
                          let* cc := parse_vp9_color_config_ix k offset in
                          match cc with
                          | None => IxOk None
                          | Some (bd, cs, tf, mc, fr) =>
                              IxOk (Some {| vp9_width := rw; vp9_height := rh; vp9_profile := profile;
                                            vp9_bit_depth := bd; vp9_color_space := cs;
                                            vp9_transfer_function := tf; vp9_matrix_coefficients := mc;
                                            vp9_level := 0; vp9_full_range_flag := fr |})
                          end
                      end
                  end
              end
          end.

(** * G6: src/codec/av1.rs *)

(* pub fn read_leb128(data: &[u8]) -> Option<(u64, usize)> {
       let mut value: u64 = 0;
       let mut shift = 0;
       for (i, &byte) in data.iter().take(8).enumerate() {
           value |= ((byte & 0x7F) as u64) << shift;      // run-time shift amount on a u64
           if (byte & 0x80) == 0 { return Some((value, i + 1)); }
           shift += 7;
       }
       None
   }
   The loop is an iterator over the first 8 bytes (no indexing): [l] is what
   remains of [data.iter().take(8)], [i] the enumerate counter. *)
Fixpoint leb128_loop_ix (l : bytes) (i : nat) (value shift : N) : ix (option (N * nat)) :=
  match l with
  | [] => IxOk None
  | byte :: t =>
      let* sh := cshl 64 (band byte 127) shift in
      let value' := N.lor value sh in
      if band byte 128 =? 0 then IxOk (Some (value', (i + 1)%nat))
      else leb128_loop_ix t (i + 1) value' (shift + 7)
  end.
Definition read_leb128_ix (data : bytes) : ix (option (N * nat)) :=
  leb128_loop_ix (firstn 8 data) 0 0 0.

(* pub fn parse_obu_header(data: &[u8]) -> Option<ObuInfo> {
       if data.is_empty() { return None; }
       let header_byte = data[0];
       if (header_byte & 0x80) != 0 { return None; }
       let obu_type_val = obu_type(header_byte);
       let has_extension = obu_has_extension(header_byte);
       let has_size = obu_has_size(header_byte);
       let mut header_size = 1;
       if has_extension {
           if data.len() < 2 { return None; }
           header_size = 2;
       }
       let payload_size = if has_size {
           if data.len() <= header_size { return None; }
           let (size, leb_len) = read_leb128(&data[header_size..])?;
           header_size += leb_len;
           size as usize                         // 64-bit usize: no truncation
       } else {
           data.len().saturating_sub(header_size)
       };
       Some(ObuInfo { obu_type: obu_type_val, has_extension, header_size, payload_size,
                      total_size: header_size + payload_size })   // usize addition of a data-derived value
   } *)
Definition parse_obu_header_ix (data : bytes) : ix (option obu_info) :=
  if is_empty data then IxOk None
  else
    let* h := get data 0 in
    if negb (band h 128 =? 0) then IxOk None
    else
      let ext := obu_has_extension h in
      let has_size := obu_has_size h in
      let* hs0 := (if ext then if (length data <? 2)%nat then IxOk None else IxOk (Some 2%nat)
                   else IxOk (Some 1%nat)) in
      match hs0 with
      | None => IxOk None
      | Some header_size =>
          if has_size then
            if (length data <=? header_size)%nat then IxOk None
            else
              let* rest := slice_from data header_size in
              let* r := read_leb128_ix rest in
              match r with
              | None => IxOk None
              | Some (size, leb_len) =>
                  let header_size' := (header_size + leb_len)%nat in
                  let* total := cadd USIZE_MOD (N.of_nat header_size') size in
                  IxOk (Some {| obu_ty := obu_type h; obu_ext := ext; obu_header_size := header_size';
                                obu_payload_size := size; obu_total_size := total |})
              end
          else
            let ps := N.of_nat (length data - header_size) in          (* saturating_sub *)
            (* header_size + (len - header_size) = len (header_size <= len here): the
               length of a slice that exists, plain addition by the modelling assumption *)
            IxOk (Some {| obu_ty := obu_type h; obu_ext := ext; obu_header_size := header_size;
                          obu_payload_size := ps; obu_total_size := N.of_nat header_size + ps |})
      end.

(* impl Iterator for ObuIter: fn next(&mut self) -> Option<Self::Item> {
       if self.pos >= self.data.len() { return None; }
       let remaining = &self.data[self.pos..];
       let info = parse_obu_header(remaining)?;
       if self.pos + info.total_size > self.data.len() { return None; }   // usize addition, data-derived
       let obu_data = &remaining[..info.total_size];
       self.pos += info.total_size;
       Some((info, obu_data))
   }   The iterator state is [pos]; the result carries the new [pos]. *)
Definition obu_next_ix (data : bytes) (pos : nat) : ix (option (obu_info * bytes * nat)) :=
  if (length data <=? pos)%nat then IxOk None
  else
    let* remaining := slice_from data pos in
    let* io := parse_obu_header_ix remaining in
    match io with
    | None => IxOk None
    | Some info =>
        let* end_ := cadd USIZE_MOD (N.of_nat pos) (obu_total_size info) in
        if N.of_nat (length data) <? end_ then IxOk None
        else
          let* obu := slice_to remaining (N.to_nat (obu_total_size info)) in
          IxOk (Some (info, obu, N.to_nat end_))
    end.

(* [for (info, obu_data) in ObuIter::new(data) { body }], as nal_for_ix *)
Fixpoint obu_for_ix {St} (fuel : nat) (data : bytes) (pos : nat)
         (body : St -> obu_info * bytes -> ix (St * bool)) (s : St) : ix St :=
  match fuel with
  | O => IxFuel
  | S f =>
      let* r := obu_next_ix data pos in
      match r with
      | None => IxOk s
      | Some (info, obu, pos') =>
          let* sb := body s (info, obu) in
          let '(s', brk) := sb in
          if brk then IxOk s' else obu_for_ix f data pos' body s'
      end
  end.
Definition obu_loop_ix {St} (data : bytes) (body : St -> obu_info * bytes -> ix (St * bool)) (s : St) : ix St :=
  obu_for_ix (S (length data)) data 0 body s.

Definition obu_iter_ix (data : bytes) : ix (list (obu_info * bytes)) :=
  obu_loop_ix data (fun acc io => IxOk (acc ++ [io], false)) [].

(* struct BitReader { data, byte_pos, bit_pos }: the state is (byte_pos, bit_pos).
   fn read_bit(&mut self) -> Option<bool> {
       if self.byte_pos >= self.data.len() { return None; }
       let bit = (self.data[self.byte_pos] >> (7 - self.bit_pos)) & 1;   // usize subtraction; run-time u8 shift
       self.bit_pos += 1;
       if self.bit_pos == 8 { self.bit_pos = 0; self.byte_pos += 1; }
       Some(bit != 0)
   } *)
Definition br_state := (nat * nat)%type.
Definition br_new : br_state := (0%nat, 0%nat).
Definition br_read_bit_ix (data : bytes) (st : br_state) : ix (option (bool * br_state)) :=
  let '(byte_pos, bit_pos) := st in
  if (length data <=? byte_pos)%nat then IxOk None
  else
    let* b := get data byte_pos in
    let* sh := csub 7 bit_pos in
    let* v := cshr 8 b (N.of_nat sh) in
    let bit := band v 1 in
    let bit_pos' := (bit_pos + 1)%nat in
    let st' := if (bit_pos' =? 8)%nat then ((byte_pos + 1)%nat, 0%nat) else (byte_pos, bit_pos') in
    IxOk (Some (negb (bit =? 0), st')).

(* fn read_bits(&mut self, count: usize) -> Option<u64> {
       if count > 64 { return None; }
       let mut value = 0u64;
       for _ in 0..count { value = (value << 1) | (self.read_bit()? as u64); }
       Some(value)
   }   [value << 1] is a constant shift of a u64: it cannot panic, it drops bit 63. *)
Fixpoint br_read_bits_loop_ix (n : nat) (data : bytes) (value : N) (st : br_state)
  : ix (option (N * br_state)) :=
  match n with
  | O => IxOk (Some (value, st))
  | S k =>
      let* r := br_read_bit_ix data st in
      match r with
      | None => IxOk None
      | Some (b, st') =>
          br_read_bits_loop_ix k data (N.lor (N.shiftl value 1 mod 2 ^ 64) (if b then 1 else 0)) st'
      end
  end.
Definition br_read_bits_ix (data : bytes) (count : nat) (st : br_state) : ix (option (N * br_state)) :=
  if (64 <? count)%nat then IxOk None else br_read_bits_loop_ix count data 0 st.

(* fn skip_bits(&mut self, count: usize) -> Option<()> {
       for _ in 0..count { self.read_bit()?; }
       Some(())
   } *)
Fixpoint br_skip_bits_ix (data : bytes) (count : nat) (st : br_state) : ix (option br_state) :=
  match count with
  | O => IxOk (Some st)
  | S k =>
      let* r := br_read_bit_ix data st in
      match r with
      | None => IxOk None
      | Some (_, st') => br_skip_bits_ix data k st'
      end
  end.

(* the payload slice taken by the consumers of ObuIter:
     parse_sequence_header(obu_data, header_size):
         assert_invariant!(header_size <= obu_data.len(), ..);          // INV-202
         let payload = &obu_data[header_size..];
     is_av1_keyframe: let payload = &obu_data[info.header_size..]; *)
Definition obu_payload_ix (obu : bytes) (header_size : nat) : ix bytes :=
  let* _ := assert_ix (header_size <=? length obu)%nat in
  slice_from obu header_size.

(* pub fn is_av1_keyframe(data: &[u8]) -> bool {
       for (info, obu_data) in ObuIter::new(data) {
           if info.obu_type == FRAME || info.obu_type == FRAME_HEADER {
               let payload = &obu_data[info.header_size..];
               if !payload.is_empty() {
                   let mut reader = BitReader::new(payload);
                   if let Some(show_existing) = reader.read_bit() {
                       if show_existing { continue; }
                       if let Some(frame_type_val) = reader.read_bits(2) {
                           if frame_type_val as u8 == frame_type::KEY_FRAME { return true; }
                       }
                   }
               }
           }
       }
       false
   }   (KEY_FRAME = 0) *)
Definition is_av1_keyframe_ix (data : bytes) : ix bool :=
  obu_loop_ix data (fun (_ : bool) io =>
    let '(info, obu) := io in
    if (obu_ty info =? 6) || (obu_ty info =? 3) then
      let* payload := slice_from obu (obu_header_size info) in
      if negb (is_empty payload) then
        let* r := br_read_bit_ix payload br_new in
        match r with
        | None => IxOk (false, false)
        | Some (show_existing, st) =>
            if show_existing then IxOk (false, false)
            else
              let* r2 := br_read_bits_ix payload 2 st in
              match r2 with
              | None => IxOk (false, false)
              | Some (v, _) => if v mod 256 =? 0 then IxOk (true, true) else IxOk (false, false)
              end
        end
      else IxOk (false, false)
    else IxOk (false, false)) false.
