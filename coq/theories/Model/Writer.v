(** Model of Mp4Writer (src/muxer/mp4.rs): the queueing state machine, the
    pure "queued samples -> write plan" function, and the sink ([write_all]
    over a fault script). *)
From Muxide Require Import Model.Base Model.Annexb Model.Adts Model.Codec Model.Boxes.
Open Scope N_scope.

Record sample := {
  s_pts : N; s_dts : N; s_data : bytes; s_key : bool; s_dur : option N }.

Inductive io_kind :=
| IoInvalidData | IoInvalidInput | IoOther | IoWriteZero | IoInjected (k : N).

Inductive werr :=
| NonIncreasingTimestamp | FirstFrameMustBeKeyframe | FirstFrameMissingSpsPps
| FirstFrameMissingSequenceHeader | FirstFrameMissingVp9Config
| InvalidAdtsDetailed (e : adts_err) | InvalidOpusPacket | AudioNotEnabled
| DurationOverflow | AlreadyFinalized.

(** * Sink: std::io::Write::write_all over a finite fault script *)
Inductive sink_ev := SAcc (n : N) | SIntr | SFail (k : N).

Record sink := { sk_rev_chunks : list bytes; sk_script : list sink_ev }.

Definition sink_bytes (s : sink) : bytes := concat (rev (sk_rev_chunks s)).

(* returns remaining script, accepted bytes, error *)
Fixpoint write_all (script : list sink_ev) (buf : bytes) : list sink_ev * bytes * option io_kind :=
  match buf with
  | [] => (script, [], None)
  | _ =>
      match script with
      | [] => ([], buf, None)
      | SAcc n :: s' =>
          if n =? 0 then (s', [], Some IoWriteZero)
          else
            let k := N.to_nat (N.min n (len buf)) in
            let '(s'', acc, e) := write_all s' (skipn k buf) in
            (s'', firstn k buf ++ acc, e)
      | SIntr :: s' => write_all s' buf
      | SFail k :: s' => (s', [], Some (IoInjected k))
      end
  end.

Definition sink_write_all (s : sink) (buf : bytes) : sink * option io_kind :=
  let '(scr, acc, e) := write_all (sk_script s) buf in
  ({| sk_rev_chunks := acc :: sk_rev_chunks s; sk_script := scr |}, e).

(** * Writer state (sample queues are kept newest-first) *)
Record writer := {
  w_codec : video_codec;
  w_vrev : list sample; w_vprev : option N; w_vlast_delta : option N;
  w_vconfig : option video_config;
  w_audio : option audio_track;
  w_arev : list sample; w_aprev : option N; w_alast_delta : option N;
  w_finalized : bool; w_bytes_written : N; w_sink : sink }.

Definition writer_new (snk : sink) (codec : video_codec) (audio : option audio_track) : writer :=
  {| w_codec := codec; w_vrev := []; w_vprev := None; w_vlast_delta := None; w_vconfig := None;
     w_audio := audio; w_arev := []; w_aprev := None; w_alast_delta := None;
     w_finalized := false; w_bytes_written := 0; w_sink := snk |}.

Definition vsamples (w : writer) := rev (w_vrev w).
Definition asamples (w : writer) := rev (w_arev w).

Definition set_last_dur (l : list sample) (d : N) : list sample :=
  match l with
  | s :: t => {| s_pts := s_pts s; s_dts := s_dts s; s_data := s_data s; s_key := s_key s;
                 s_dur := Some d |} :: t
  | [] => []
  end.

Definition extract_config (codec : video_codec) (data : bytes) : option video_config :=
  match codec with
  | H264 => opt_map CfgAvc (extract_avc_config data)
  | H265 => opt_map CfgHevc (extract_hevc_config data)
  | Av1 => opt_map CfgAv1 (extract_av1_config data)
  | Vp9 => opt_map CfgVp9 (extract_vp9_config data)
  end.

Definition missing_config_err (codec : video_codec) : werr :=
  match codec with
  | Av1 => FirstFrameMissingSequenceHeader
  | Vp9 => FirstFrameMissingVp9Config
  | _ => FirstFrameMissingSpsPps
  end.

Definition convert_video (codec : video_codec) (data : bytes) : bytes :=
  match codec with
  | H264 => annexb_to_avcc data
  | H265 => hevc_annexb_to_hvcc data
  | _ => data
  end.

Definition push_video (w : writer) (vrev : list sample) (vlast : option N) (cfg : option video_config)
           (pts dts : N) (data : bytes) (key : bool) : writer + werr :=
  let converted := convert_video (w_codec w) data in
  if U32MAX <? len converted then inr DurationOverflow
  else inl {| w_codec := w_codec w;
              w_vrev := {| s_pts := pts; s_dts := dts; s_data := converted; s_key := key; s_dur := None |} :: vrev;
              w_vprev := Some dts; w_vlast_delta := vlast; w_vconfig := cfg;
              w_audio := w_audio w; w_arev := w_arev w; w_aprev := w_aprev w;
              w_alast_delta := w_alast_delta w; w_finalized := w_finalized w;
              w_bytes_written := w_bytes_written w; w_sink := w_sink w |}.

(* the composition offset pts - dts must fit the signed 32-bit ctts entry *)
Definition cts_fits (pts dts : N) : bool :=
  let d := (Z.of_N pts - Z.of_N dts)%Z in
  ((-2147483648 <=? d) && (d <=? 2147483647))%Z.

(* write_video_sample_with_dts.  NB: as in the Rust code the previous sample's
   duration is patched before the converted length is checked; the check can
   only fail for a >= 4 GiB frame. *)
Definition write_video_sample_with_dts (w : writer) (pts dts : N) (data : bytes) (key : bool)
  : writer + werr :=
  if w_finalized w then inr AlreadyFinalized
  else if negb (cts_fits pts dts) then inr DurationOverflow
  else
    match w_vprev w with
    | Some prev =>
        if dts <=? prev then inr NonIncreasingTimestamp
        else
          let delta := dts - prev in
          if U32MAX <? delta then inr DurationOverflow
          else push_video w (set_last_dur (w_vrev w) delta) (Some delta) (w_vconfig w) pts dts data key
    | None =>
        if negb key then inr FirstFrameMustBeKeyframe
        else
          match extract_config (w_codec w) data with
          | None => inr (missing_config_err (w_codec w))
          | Some c => push_video w (w_vrev w) (w_vlast_delta w) (Some c) pts dts data key
          end
    end.

Definition write_video_sample (w : writer) (pts : N) (data : bytes) (key : bool) :=
  write_video_sample_with_dts w pts pts data key.

Definition write_audio_sample (w : writer) (pts : N) (data : bytes) : writer + werr :=
  if w_finalized w then inr AlreadyFinalized
  else
    match w_audio w with
    | None => inr AudioNotEnabled
    | Some track =>
        let timing : (option N) + werr :=
          match w_aprev w with
          | Some prev =>
              if pts <? prev then inr NonIncreasingTimestamp
              else if U32MAX <? pts - prev then inr DurationOverflow
              else inl (Some (pts - prev))
          | None => inl None
          end in
        match timing with
        | inr e => inr e
        | inl pending =>
            let payload : bytes + werr :=
              match at_codec track with
              | Aac _ => match adts_to_raw data with
                         | AdtsOk raw => inl raw
                         | AdtsErr e => inr (InvalidAdtsDetailed e)
                         end
              | Opus => if is_valid_opus_packet data then inl data else inr InvalidOpusPacket
              | NoAudio => inr AudioNotEnabled
              end in
            match payload with
            | inr e => inr e
            | inl sd =>
                if U32MAX <? len sd then inr DurationOverflow
                else
                  let arev := match pending with Some d => set_last_dur (w_arev w) d | None => w_arev w end in
                  let alast := match pending with Some d => Some d | None => w_alast_delta w end in
                  inl {| w_codec := w_codec w; w_vrev := w_vrev w; w_vprev := w_vprev w;
                         w_vlast_delta := w_vlast_delta w; w_vconfig := w_vconfig w;
                         w_audio := w_audio w;
                         w_arev := {| s_pts := pts; s_dts := pts; s_data := sd; s_key := false; s_dur := None |} :: arev;
                         w_aprev := Some pts; w_alast_delta := alast;
                         w_finalized := w_finalized w; w_bytes_written := w_bytes_written w;
                         w_sink := w_sink w |}
            end
        end
    end.

(** * SampleTables::from_samples *)
Inductive panic_site :=
| PanicStszZeroSize | PanicCursorOverflow | PanicMovieDurationOverflow
| PanicOther (n : N).

Fixpoint durations_of (samples : list sample) (fallback : option N) : list N :=
  match samples with
  | [] => []
  | [s] => [match s_dur s with Some d => d
                              | None => match fallback with Some d => d | None => 1 end end]
  | s :: t => (match s_dur s with Some d => d | None => 1 end) :: durations_of t fallback
  end.

Fixpoint keyframes_of (samples : list sample) (idx : N) : list N :=
  match samples with
  | [] => []
  | s :: t => if s_key s then u32 (u32 idx + 1) :: keyframes_of t (idx + 1) else keyframes_of t (idx + 1)
  end.

(* pts.wrapping_sub(dts) as i32 *)
Definition cts_of (s : sample) : Z := i32_of_bits (i32_bits (Z.of_N (s_pts s) - Z.of_N (s_dts s))).

Definition from_samples (samples : list sample) (chunk_offsets : list N) (spc : N) (fallback : option N)
  : sample_tables :=
  let cts := map cts_of samples in
  {| st_durations := durations_of samples fallback;
     st_sizes := map (fun s => u32 (len (s_data s))) samples;
     st_keyframes := keyframes_of samples 0;
     st_chunk_offsets := chunk_offsets; st_samples_per_chunk := spc;
     st_cts_offsets := cts;
     st_has_bframes := existsb (fun c => negb (Z.eqb c 0)) cts |}.

(** * Interleave schedule: stable sort by (ts, kind, idx) *)
Inductive track_kind := KVideo | KAudio.
Definition sched_entry := (N * track_kind * nat)%type.

Definition kind_ord (k : track_kind) : N := match k with KVideo => 0 | KAudio => 1 end.

Definition sched_leb (a b : sched_entry) : bool :=
  let '(ta, ka, ia) := a in
  let '(tb, kb, ib) := b in
  if ta <? tb then true else if tb <? ta then false
  else if kind_ord ka <? kind_ord kb then true else if kind_ord kb <? kind_ord ka then false
  else (ia <=? ib)%nat.

Fixpoint insert_sched (x : sched_entry) (l : list sched_entry) : list sched_entry :=
  match l with
  | [] => [x]
  | y :: t => if sched_leb x y then x :: l else y :: insert_sched x t
  end.
Definition sort_sched (l : list sched_entry) : list sched_entry := fold_right insert_sched [] l.

Fixpoint index_from {A} (i : nat) (l : list A) : list (nat * A) :=
  match l with [] => [] | x :: t => (i, x) :: index_from (S i) t end.

(* video keyed by decode time, audio by pts *)
Definition compute_interleave_schedule (vs as_ : list sample) : list sched_entry :=
  sort_sched (map (fun p => (s_dts (snd p), KVideo, fst p)) (index_from 0 vs) ++
              map (fun p => (s_pts (snd p), KAudio, fst p)) (index_from 0 as_)).

Definition sample_at (l : list sample) (i : nat) : bytes :=
  match nth_error l i with Some s => s_data s | None => [] end.

Definition sched_data (vs as_ : list sample) (e : sched_entry) : bytes :=
  let '(_, k, i) := e in match k with KVideo => sample_at vs i | KAudio => sample_at as_ i end.

(* finalize_fast_start's second pass: a checked u64 cursor; an offset above
   u32::MAX is an error *)
Inductive walk_res := WalkOk (voffs aoffs : list N) | WalkErr.

Fixpoint walk_offsets (vs as_ : list sample) (sched : list sched_entry) (cursor : N) : walk_res :=
  match sched with
  | [] => WalkOk [] []
  | e :: t =>
      if U32MAX <? cursor then WalkErr
      else
        match walk_offsets vs as_ t (cursor + len (sched_data vs as_ e)) with
        | WalkOk vo ao =>
            (match snd (fst e) with
             | KVideo => WalkOk (cursor :: vo) ao
             | KAudio => WalkOk vo (cursor :: ao)
             end)
        | WalkErr => WalkErr
        end
  end.

(* finalize_standard's interleaved pass: samples are written while a u32 cursor
   advances; a cursor overflow panics after the sample at hand was written *)
Fixpoint walk_std (vs as_ : list sample) (sc : list sched_entry) (cursor : N) (acc : list bytes)
         (vo ao : list N) : (list bytes * list N * list N * bool) :=
  match sc with
  | [] => (rev acc, rev vo, rev ao, true)
  | e :: t =>
      let d := sched_data vs as_ e in
      let vo' := match snd (fst e) with KVideo => cursor :: vo | KAudio => vo end in
      let ao' := match snd (fst e) with KAudio => cursor :: ao | KVideo => ao end in
      if U32MAX <? cursor + u32 (len d) then (rev (d :: acc), rev vo', rev ao', false)
      else walk_std vs as_ t (cursor + u32 (len d)) (d :: acc) vo' ao'
  end.

(** * finalize: a pure write plan (buffers in write order, optional terminal error) *)
Inductive fin_err := FinIo (k : io_kind) | FinPanic (p : panic_site).
Definition plan := (list bytes * option fin_err)%type.

Definition payload_sum (l : list sample) : N := sumN (map (fun s => len (s_data s)) l).

Definition has_zero_size (t : sample_tables) : bool := existsb (fun s => s =? 0) (st_sizes t).

(* build_moov_box with its panic sites made explicit *)
Definition moov_of (v : video_track) (vt : sample_tables)
           (audio : option (audio_track * sample_tables)) (c : video_config)
           (m : option metadata) : bytes + panic_site :=
  if U64MAX <? total_duration vt * MOVIE_TIMESCALE then inr PanicMovieDurationOverflow
  else if has_zero_size vt then inr PanicStszZeroSize
  else
    match audio with
    | None => inl (build_moov_box v vt None c m)
    | Some (a, at_) =>
        if has_zero_size at_ then inr PanicStszZeroSize
        else inl (build_moov_box v vt (Some (a, at_)) c m)
    end.

Definition MDAT_TOO_BIG : option fin_err := Some (FinIo IoInvalidData).

Definition finalize_standard (w : writer) (v : video_track) (m : option metadata) (c : video_config) : plan :=
  let vs := vsamples w in
  let as_ := asamples w in
  let ftyp := build_ftyp_box in
  match w_audio w with
  | None =>
      match vs with
      | [] =>
          match moov_of v (from_samples vs [] 0 (w_vlast_delta w)) None c m with
          | inl moov => ([ftyp; moov], None)
          | inr p => ([ftyp], Some (FinPanic p))
          end
      | _ =>
          let mdat_size := 8 + payload_sum vs in
          if U32MAX <? mdat_size then ([ftyp], MDAT_TOO_BIG)
          else
            let pre := [ftyp; be32 mdat_size; T_mdat] ++ map s_data vs in
            match moov_of v (from_samples vs [len ftyp + 8] (u32 (len vs)) (w_vlast_delta w)) None c m with
            | inl moov => (pre ++ [moov], None)
            | inr p => (pre, Some (FinPanic p))
            end
      end
  | Some track =>
      let mdat_size := 8 + payload_sum vs + payload_sum as_ in
      if U32MAX <? mdat_size then ([ftyp], MDAT_TOO_BIG)
      else
        let sched := compute_interleave_schedule vs as_ in
        let pre := [ftyp; be32 mdat_size; T_mdat] in
        let '(bufs, vo, ao, ok) := walk_std vs as_ sched (len ftyp + 8) [] [] [] in
        if negb ok then (pre ++ bufs, Some (FinPanic PanicCursorOverflow))
        else
          match moov_of v (from_samples vs vo 1 (w_vlast_delta w))
                        (Some (track, from_samples as_ ao 1 (w_alast_delta w))) c m with
          | inl moov => (pre ++ bufs ++ [moov], None)
          | inr p => (pre ++ bufs, Some (FinPanic p))
          end
  end.

Fixpoint placeholder_offsets (sched : list sched_entry) (cursor : N) : list N * list N :=
  match sched with
  | [] => ([], [])
  | e :: t =>
      let '(vo, ao) := placeholder_offsets t (cursor + 1) in
      match snd (fst e) with KVideo => (cursor :: vo, ao) | KAudio => (vo, cursor :: ao) end
  end.

Definition finalize_fast_start (w : writer) (v : video_track) (m : option metadata) (c : video_config) : plan :=
  let vs := vsamples w in
  let as_ := asamples w in
  let ftyp := build_ftyp_box in
  let mdat_total := 8 + payload_sum vs + payload_sum as_ in
  if U32MAX <? mdat_total then ([], MDAT_TOO_BIG)
  else
    match w_audio w with
    | Some track =>
        let sched := compute_interleave_schedule vs as_ in
        let '(pvo, pao) := placeholder_offsets sched 0 in
        match moov_of v (from_samples vs pvo 1 (w_vlast_delta w))
                      (Some (track, from_samples as_ pao 1 (w_alast_delta w))) c m with
        | inr p => ([], Some (FinPanic p))
        | inl pmoov =>
            let start := len ftyp + len pmoov + 8 in
            match walk_offsets vs as_ sched start with
            | WalkErr => ([], Some (FinIo IoInvalidData))
            | WalkOk vo ao =>
                match moov_of v (from_samples vs vo 1 (w_vlast_delta w))
                              (Some (track, from_samples as_ ao 1 (w_alast_delta w))) c m with
                | inr p => ([], Some (FinPanic p))
                | inl moov =>
                    ([ftyp; moov; be32 mdat_total; T_mdat] ++ map (sched_data vs as_) sched, None)
                end
            end
        end
    | None =>
        let spc := match vs with [] => 0 | _ => u32 (len vs) end in
        match moov_of v (from_samples vs (match vs with [] => [] | _ => [0] end) spc (w_vlast_delta w)) None c m with
        | inr p => ([], Some (FinPanic p))
        | inl pmoov =>
            let start := len ftyp + len pmoov + 8 in
            match vs with
            | [] =>
                match moov_of v (from_samples vs [] spc (w_vlast_delta w)) None c m with
                | inr p => ([], Some (FinPanic p))
                | inl moov => ([ftyp; moov; be32 mdat_total; T_mdat], None)
                end
            | _ =>
                if U32MAX <? start then ([], Some (FinIo IoInvalidData))
                else
                  match moov_of v (from_samples vs [start] spc (w_vlast_delta w)) None c m with
                  | inr p => ([], Some (FinPanic p))
                  | inl moov => ([ftyp; moov; be32 mdat_total; T_mdat] ++ map s_data vs, None)
                  end
            end
        end
    end.

Definition effective_config (w : writer) : video_config :=
  match w_vconfig w with
  | Some c => c
  | None => CfgAvc default_avc_config
  end.

Inductive fin_res := FinOk | FinErr (e : fin_err).

Definition with_sink (w : writer) (fin : bool) (bw : N) (s : sink) : writer :=
  {| w_codec := w_codec w; w_vrev := w_vrev w; w_vprev := w_vprev w; w_vlast_delta := w_vlast_delta w;
     w_vconfig := w_vconfig w; w_audio := w_audio w; w_arev := w_arev w; w_aprev := w_aprev w;
     w_alast_delta := w_alast_delta w; w_finalized := fin; w_bytes_written := bw; w_sink := s |}.

(* run the plan through write_counted *)
Fixpoint run_plan (bufs : list bytes) (bw : N) (s : sink) : N * sink * option io_kind :=
  match bufs with
  | [] => (bw, s, None)
  | b :: t =>
      let bw' := N.min (bw + len b) U64MAX in
      let '(s', e) := sink_write_all s b in
      match e with
      | Some k => (bw', s', Some k)
      | None => run_plan t bw' s'
      end
  end.

(* avcC / hvcC store every parameter set behind a 16-bit length (fix 'finish returns an error for parameter
   sets that do not fit ...'); the test is on the STORED configuration, not on the default one *)
Definition param_sets_too_long (c : option video_config) : bool :=
  match c with
  | Some (CfgAvc a) => U16MAX <? N.max (len (avc_sps a)) (len (avc_pps a))
  | Some (CfgHevc h) => U16MAX <? N.max (N.max (len (hevc_vps h)) (len (hevc_sps h))) (len (hevc_pps h))
  | _ => false
  end.

Definition finalize (w : writer) (v : video_track) (m : option metadata) (fast_start : bool)
  : writer * fin_res :=
  if w_finalized w then (w, FinErr (FinIo IoOther))
  else if (U16MAX <? vt_width v) || (U16MAX <? vt_height v) then (w, FinErr (FinIo IoInvalidInput))
  else if param_sets_too_long (w_vconfig w) then (w, FinErr (FinIo IoInvalidInput))
  else
    let c := effective_config w in
    let '(bufs, term) := if fast_start then finalize_fast_start w v m c else finalize_standard w v m c in
    let '(bw, s, e) := run_plan bufs (w_bytes_written w) (w_sink w) in
    let w' := with_sink w true bw s in
    match e with
    | Some k => (w', FinErr (FinIo k))
    | None => match term with
              | Some t => (w', FinErr t)
              | None => (w', FinOk)
              end
    end.

(* max_end_pts *)
Definition track_end (samples : list sample) (last_delta : option N) : option N :=
  match samples with
  | [] => None
  | _ =>
      Some (fold_right N.max 0
              (map (fun s =>
                      let d := match s_dur s with Some d => d
                               | None => match last_delta with Some d => d | None => 0 end end in
                      N.min (s_pts s + d) U64MAX) samples))
  end.

Definition max_end_pts (w : writer) : option N :=
  match track_end (w_vrev w) (w_vlast_delta w), track_end (w_arev w) (w_alast_delta w) with
  | Some v, Some a => Some (N.max v a)
  | Some v, None => Some v
  | None, Some a => Some a
  | None, None => None
  end.
