(** Default / convenience constructors of the public API that the other model files do not need:
    `FragmentConfig::default()` (src/fragmented.rs) and `OpusConfig` with its builders (src/codec/opus.rs). *)
From Muxide Require Import Model.Base Model.Codec Model.Boxes Model.Frag.
Open Scope N_scope.

Definition frag_config_default : frag_config :=
  {| fc_width := 1920; fc_height := 1080; fc_timescale := 90000; fc_fragment_duration_ms := 2000;
     fc_sps := [103; 66; 0; 30; 218; 2; 128; 45; 139; 17]; fc_pps := [104; 206; 56; 128];
     fc_vps := None; fc_av1 := None; fc_vp9 := None |}.

Record opus_config := {
  oc_version : N; oc_output_channel_count : N; oc_pre_skip : N; oc_input_sample_rate : N; oc_output_gain : N;
  oc_channel_mapping_family : N }.     (* stream_count / coupled_count / channel_mapping stay None in every builder *)

Definition opus_config_default : opus_config :=
  {| oc_version := 0; oc_output_channel_count := 2; oc_pre_skip := 312; oc_input_sample_rate := 48000;
     oc_output_gain := 0; oc_channel_mapping_family := 0 |}.
Definition opus_config_mono : opus_config :=
  {| oc_version := 0; oc_output_channel_count := 1; oc_pre_skip := 312; oc_input_sample_rate := 48000;
     oc_output_gain := 0; oc_channel_mapping_family := 0 |}.
Definition opus_config_stereo : opus_config := opus_config_default.
Definition opus_with_pre_skip (c : opus_config) (p : N) : opus_config :=     (* p : u16 *)
  {| oc_version := oc_version c; oc_output_channel_count := oc_output_channel_count c; oc_pre_skip := p;
     oc_input_sample_rate := oc_input_sample_rate c; oc_output_gain := oc_output_gain c;
     oc_channel_mapping_family := oc_channel_mapping_family c |}.
Definition opus_with_channels (c : opus_config) (ch : N) : opus_config :=   (* ch : u8 *)
  {| oc_version := oc_version c; oc_output_channel_count := ch; oc_pre_skip := oc_pre_skip c;
     oc_input_sample_rate := oc_input_sample_rate c; oc_output_gain := oc_output_gain c;
     oc_channel_mapping_family := if 2 <? ch then 1 else oc_channel_mapping_family c |}.
