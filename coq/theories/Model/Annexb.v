(** Model of src/codec/common.rs (find_start_code, AnnexBNalIter) and the
    Annex B -> length-prefixed converters of src/codec/h264.rs / h265.rs. *)
From Muxide Require Import Model.Base.
Open Scope N_scope.

(* data[i..i+4] == 00 00 00 01  /  data[i..i+3] == 00 00 01, at the head of [l] *)
Definition is_sc4 (l : bytes) : bool :=
  match l with
  | a :: b :: c :: d :: _ => (a =? 0) && (b =? 0) && (c =? 0) && (d =? 1)
  | _ => false
  end.
Definition is_sc3 (l : bytes) : bool :=
  match l with
  | a :: b :: c :: _ => (a =? 0) && (b =? 0) && (c =? 1)
  | _ => false
  end.

(* The [while i + 3 <= data.len()] loop of find_start_code, with [l] the
   suffix [data[i..]] and [pos = i].  4-byte form is tested first. *)
Fixpoint fsc (l : bytes) (pos : nat) : option (nat * nat) :=
  match l with
  | [] => None
  | _ :: t =>
      if is_sc4 l then Some (pos, 4%nat)
      else if is_sc3 l then Some (pos, 3%nat)
      else fsc t (S pos)
  end.

(* pub fn find_start_code(data, from) *)
Definition find_start_code (data : bytes) (from : nat) : option (nat * nat) :=
  fsc (skipn from data) from.

(* AnnexBNalIter: state is the cursor; [next] as in the Rust impl. *)
Definition nal_next (data : bytes) (cursor : nat) : option (bytes * nat) :=
  match find_start_code data cursor with
  | None => None
  | Some (p, l) =>
      let nal_start := (p + l)%nat in
      let nal_end := match find_start_code data nal_start with
                     | Some (np, _) => np
                     | None => length data
                     end in
      Some (firstn (nal_end - nal_start) (skipn nal_start data), nal_end)
  end.

Fixpoint nal_iter_f (fuel : nat) (data : bytes) (cursor : nat) : list bytes :=
  match fuel with
  | O => []
  | S f => match nal_next data cursor with
           | None => []
           | Some (nal, c') => nal :: nal_iter_f f data c'
           end
  end.

(* every yielded NAL consumes at least 3 bytes of start code, so |data| steps suffice *)
Definition nal_iter (data : bytes) : list bytes := nal_iter_f (S (length data)) data 0.

Definition nonempty (b : bytes) : bool := match b with [] => false | _ => true end.

(* annexb_to_avcc / hevc_annexb_to_hvcc (identical bodies) *)
Definition len_prefixed (nals : list bytes) : bytes :=
  concat (map (fun n => be32 (len n) ++ n) nals).

Definition annexb_to_avcc (data : bytes) : bytes :=
  let out := len_prefixed (filter nonempty (nal_iter data)) in
  match out, data with
  | [], _ :: _ => be32 (len data) ++ data
  | _, _ => out
  end.

Definition hevc_annexb_to_hvcc (data : bytes) : bytes := annexb_to_avcc data.
