(** Models of the bitstream parsers: src/codec/h264.rs, h265.rs, vp9.rs, av1.rs *)
From Muxide Require Import Model.Base Model.Annexb.
Open Scope N_scope.

(** * H.264 *)
Definition h264_nal_type (nal : bytes) : N := match nal with b :: _ => band b 31 | [] => 0 end.

Definition first_of (p : bytes -> bool) (nals : list bytes) : option bytes := find p nals.

Record avc_config := { avc_sps : bytes; avc_pps : bytes }.

Definition extract_avc_config (data : bytes) : option avc_config :=
  match data with
  | [] => None
  | _ =>
      let nals := filter nonempty (nal_iter data) in
      match first_of (fun n => h264_nal_type n =? 7) nals,
            first_of (fun n => h264_nal_type n =? 8) nals with
      | Some s, Some p => Some {| avc_sps := s; avc_pps := p |}
      | _, _ => None
      end
  end.

Definition DEFAULT_SPS : bytes := [103; 66; 0; 30; 218; 2; 128; 45; 139; 17].
Definition DEFAULT_PPS : bytes := [104; 206; 56; 128].
Definition default_avc_config := {| avc_sps := DEFAULT_SPS; avc_pps := DEFAULT_PPS |}.

Definition is_h264_keyframe (data : bytes) : bool :=
  existsb (fun n => h264_nal_type n =? 5) (filter nonempty (nal_iter data)).

(** * H.265 *)
Definition hevc_nal_type (nal : bytes) : N := match nal with b :: _ => band (shr b 1) 63 | [] => 0 end.

Record hevc_config := { hevc_vps : bytes; hevc_sps : bytes; hevc_pps : bytes }.

Definition extract_hevc_config (data : bytes) : option hevc_config :=
  match data with
  | [] => None
  | _ =>
      let nals := filter nonempty (nal_iter data) in
      match first_of (fun n => hevc_nal_type n =? 32) nals,
            first_of (fun n => hevc_nal_type n =? 33) nals,
            first_of (fun n => hevc_nal_type n =? 34) nals with
      | Some v, Some s, Some p => Some {| hevc_vps := v; hevc_sps := s; hevc_pps := p |}
      | _, _, _ => None
      end
  end.

Definition is_hevc_keyframe_nal_type (t : N) : bool := (16 <=? t) && (t <=? 21).

Definition is_hevc_keyframe (data : bytes) : bool :=
  existsb (fun n => is_hevc_keyframe_nal_type (hevc_nal_type n)) (filter nonempty (nal_iter data)).

Definition nth_byte (l : bytes) (i : nat) : option N := nth_error l i.

Definition hevc_general_profile_space (c : hevc_config) : N :=
  match nth_byte (hevc_sps c) 3 with Some b => band (shr b 6) 3 | None => 0 end.
Definition hevc_general_tier_flag (c : hevc_config) : bool :=
  match nth_byte (hevc_sps c) 3 with Some b => negb (band (shr b 5) 1 =? 0) | None => false end.
Definition hevc_general_profile_idc (c : hevc_config) : N :=
  match nth_byte (hevc_sps c) 3 with Some b => band b 31 | None => 1 end.
Definition hevc_general_level_idc (c : hevc_config) : N :=
  match nth_byte (hevc_sps c) 14 with Some b => b | None => 93 end.

(** * VP9 *)
Record vp9_config := {
  vp9_width : N; vp9_height : N; vp9_profile : N; vp9_bit_depth : N; vp9_color_space : N;
  vp9_transfer_function : N; vp9_matrix_coefficients : N; vp9_level : N; vp9_full_range_flag : N }.

Inductive vp9_kf := Vp9TooShort | Vp9BadMarker | Vp9Key (b : bool).

Definition vp9_marker_ok (f : bytes) : bool :=
  match f with a :: b :: c :: _ => (a =? 73) && (b =? 131) && (c =? 66) | _ => false end.

Definition is_vp9_keyframe (f : bytes) : vp9_kf :=
  match f with
  | _ :: _ :: _ :: rest =>
      if negb (vp9_marker_ok f) then Vp9BadMarker
      else match rest with
           | [] => Vp9TooShort
           | b3 :: _ =>
               if negb (band (shr b3 5) 1 =? 0) then Vp9Key false
               else Vp9Key (band (shr b3 4) 1 =? 0)
           end
  | _ => Vp9TooShort
  end.

Definition is_valid_vp9_frame (f : bytes) : bool := vp9_marker_ok f.

(* parse_vp9_var_uint: value is a u32 (shifts drop high bits), shift tracked separately *)
Fixpoint vp9_var_uint_f (fuel : nat) (data : bytes) (offset : nat) (value shift : N) : option (N * nat) :=
  match fuel with
  | O => None
  | S f =>
      match nth_byte data offset with
      | None => None
      | Some b =>
          let value' := N.lor value (u32 (N.shiftl (band b 127) shift)) in
          let shift' := shift + 7 in
          if band b 128 =? 0 then Some (value', S offset)
          else if 32 <=? shift' then None
          else vp9_var_uint_f f data (S offset) value' shift'
      end
  end.
Definition parse_vp9_var_uint (data : bytes) (offset : nat) := vp9_var_uint_f 6 data offset 0 0.

Definition parse_vp9_color_config (data : bytes) (offset : nat) : (N * N * N * N * N) :=
  match nth_byte data offset with
  | None => (8, 0, 0, 0, 0)
  | Some b =>
      let bit_depth := if band b 1 =? 0 then 8 else 10 in
      let cs := band (shr b 1) 7 in
      let tf := band (shr b 4) 7 in
      let mc := band (shr b 7) 1 in
      let fr := if cs =? 0 then 0
                else match nth_byte data (S offset) with None => 0 | Some b' => band b' 1 end in
      (bit_depth, cs, tf, mc, fr)
  end.

Definition extract_vp9_config (k : bytes) : option vp9_config :=
  if negb (vp9_marker_ok k) then None
  else if len k <? 6 then None
  else
    match nth_byte k 3 with
    | None => None
    | Some b3 =>
        let profile := band (shr b3 6) 3 in
        if negb (band (shr b3 5) 1 =? 0) || negb (band (shr b3 4) 1 =? 0) then None
        else
          let off0 := 5%nat in
          let off1 := if 2 <=? profile then S off0 else off0 in
          if (2 <=? profile) && (length k <=? S off0)%nat then None
          else
            let? (w, o2) := parse_vp9_var_uint k off1 in
            let? (h, o3) := parse_vp9_var_uint k o2 in
            let render :=
              if (S o3 <? length k)%nat then
                match nth_byte k o3 with
                | Some b => if negb (band b 12 =? 0) then
                              let? (rw, o4) := parse_vp9_var_uint k (S o3) in
                              let? (rh, o5) := parse_vp9_var_uint k o4 in
                              Some (rw, rh, o5)
                            else Some (w, h, o3)
                | None => Some (w, h, o3)
                end
              else Some (w, h, o3) in
            let? (rw, rh, o) := render in
            let '(bd, cs, tf, mc, fr) := parse_vp9_color_config k o in
            Some {| vp9_width := rw; vp9_height := rh; vp9_profile := profile; vp9_bit_depth := bd;
                    vp9_color_space := cs; vp9_transfer_function := tf;
                    vp9_matrix_coefficients := mc; vp9_level := 0; vp9_full_range_flag := fr |}
    end.

(** * AV1 *)
Definition obu_type (h : N) : N := band (shr h 3) 15.
Definition obu_has_extension (h : N) : bool := negb (band h 4 =? 0).
Definition obu_has_size (h : N) : bool := negb (band h 2 =? 0).

(* read_leb128: at most 8 bytes *)
Fixpoint leb128_f (fuel : nat) (data : bytes) (value shift : N) (i : nat) : option (N * nat) :=
  match fuel with
  | O => None
  | S f =>
      match data with
      | [] => None
      | b :: t =>
          let value' := N.lor value (N.shiftl (band b 127) shift) in
          if band b 128 =? 0 then Some (value', S i)
          else leb128_f f t value' (shift + 7) (S i)
      end
  end.
Definition read_leb128 (data : bytes) : option (N * nat) := leb128_f 8 data 0 0 0.

Record obu_info := { obu_ty : N; obu_ext : bool; obu_header_size : nat; obu_payload_size : N; obu_total_size : N }.

Definition parse_obu_header (data : bytes) : option obu_info :=
  match data with
  | [] => None
  | h :: _ =>
      if negb (band h 128 =? 0) then None
      else
        let ext := obu_has_extension h in
        if ext && (length data <? 2)%nat then None
        else
          let hs := if ext then 2%nat else 1%nat in
          if obu_has_size h then
            if (length data <=? hs)%nat then None
            else
              let? (size, leb) := read_leb128 (skipn hs data) in
              let hs' := (hs + leb)%nat in
              Some {| obu_ty := obu_type h; obu_ext := ext; obu_header_size := hs';
                      obu_payload_size := size; obu_total_size := N.of_nat hs' + size |}
          else
            let ps := N.of_nat (length data - hs) in
            Some {| obu_ty := obu_type h; obu_ext := ext; obu_header_size := hs;
                    obu_payload_size := ps; obu_total_size := N.of_nat hs + ps |}
  end.

(* ObuIter::next on the remaining suffix; each step consumes >= 1 byte *)
Fixpoint obu_iter_f (fuel : nat) (rest : bytes) : list (obu_info * bytes) :=
  match fuel with
  | O => []
  | S f =>
      match rest with
      | [] => []
      | _ =>
          match parse_obu_header rest with
          | None => []
          | Some info =>
              if len rest <? obu_total_size info then []
              else (info, take (obu_total_size info) rest) :: obu_iter_f f (drop (obu_total_size info) rest)
          end
      end
  end.
Definition obu_iter (data : bytes) := obu_iter_f (S (length data)) data.

(* MSB-first bit view of a payload: the BitReader *)
Definition bits_of_byte (b : N) : list bool :=
  [N.testbit b 7; N.testbit b 6; N.testbit b 5; N.testbit b 4;
   N.testbit b 3; N.testbit b 2; N.testbit b 1; N.testbit b 0].
Definition bits_of_bytes (l : bytes) : list bool := concat (map bits_of_byte l).

Definition bitrd := list bool.
Definition read_bit (r : bitrd) : option (bool * bitrd) :=
  match r with b :: t => Some (b, t) | [] => None end.
Fixpoint read_bits_acc (n : nat) (acc : N) (r : bitrd) : option (N * bitrd) :=
  match n with
  | O => Some (acc, r)
  | S k => match r with
           | b :: t => read_bits_acc k (2 * acc + (if b then 1 else 0)) t
           | [] => None
           end
  end.
Definition read_bits (n : nat) (r : bitrd) : option (N * bitrd) :=
  if (64 <? n)%nat then None else read_bits_acc n 0 r.
Definition skip_bits (n : nat) (r : bitrd) : option bitrd :=
  if (length r <? n)%nat then None else Some (skipn n r).

Fixpoint skip_uvlc_f (fuel : nat) (zeros : nat) (r : bitrd) : option bitrd :=
  match fuel with
  | O => None
  | S f =>
      match r with
      | [] => None
      | true :: t => skip_bits zeros t
      | false :: t => if (32 <? S zeros)%nat then None else skip_uvlc_f f (S zeros) t
      end
  end.
Definition skip_uvlc (r : bitrd) : option bitrd := skip_uvlc_f 40 0 r.

Record av1_config := {
  av1_sequence_header : bytes; av1_seq_profile : N; av1_seq_level_idx : N; av1_seq_tier : N;
  av1_high_bitdepth : bool; av1_twelve_bit : bool; av1_monochrome : bool;
  av1_subsampling_x : bool; av1_subsampling_y : bool; av1_chroma_sample_position : N }.

Definition b2n (b : bool) : N := if b then 1 else 0.

(* parse_color_config *)
Definition parse_color_config (r : bitrd) (seq_profile : N)
  : option (bool * bool * bool * bool * bool * N * bitrd) :=
  let? (high_bitdepth, r) := read_bit r in
  let? (twelve_bit, r) :=
     (if (seq_profile =? 2) && high_bitdepth then read_bit r else Some (false, r)) in
  let bit_depth := if (seq_profile =? 2) && twelve_bit then 12
                   else if high_bitdepth then 10 else 8 in
  let? (monochrome, r) := (if seq_profile =? 1 then Some (false, r) else read_bit r) in
  let? (cdp, r) := read_bit r in
  let? (cp, tc, mc, r) :=
     (if cdp then
        let? (cp, r) := read_bits 8 r in
        let? (tc, r) := read_bits 8 r in
        let? (mc, r) := read_bits 8 r in Some (cp, tc, mc, r)
      else Some (2, 2, 2, r)) in
  let? (sx, sy, r) :=
     (if monochrome then
        let? (_, r) := read_bit r in Some (true, true, r)
      else if (cp =? 1) && (tc =? 13) && (mc =? 0) then Some (false, false, r)
      else
        let? (_, r) := read_bit r in
        if seq_profile =? 0 then Some (true, true, r)
        else if seq_profile =? 1 then Some (false, false, r)
        else if bit_depth =? 12 then
          let? (sx, r) := read_bit r in
          let? (sy, r) := (if sx then read_bit r else Some (false, r)) in
          Some (sx, sy, r)
        else Some (true, false, r)) in
  let? (csp, r) := (if sx && sy then read_bits 2 r else Some (0, r)) in
  let? r := (if negb monochrome then (let? (_, r) := read_bit r in Some r) else Some r) in
  Some (high_bitdepth, twelve_bit, monochrome, sx, sy, csp, r).

(* the operating-point loop; returns level/tier of point 0 *)
Fixpoint op_points (cnt : nat) (first : bool) (dmi : bool) (bdl : nat) (iddp : bool)
         (lvl tier : N) (r : bitrd) : option (N * N * bitrd) :=
  match cnt with
  | O => Some (lvl, tier, r)
  | S k =>
      let? r := skip_bits 12 r in
      let? (level_idx, r) := read_bits 5 r in
      let? (t, r) := (if 7 <? level_idx then (let? (b, r) := read_bit r in Some (b2n b, r)) else Some (0, r)) in
      let lvl' := if first then level_idx else lvl in
      let tier' := if first then t else tier in
      let? r :=
         (if dmi then
            let? (p, r) := read_bit r in
            if p then
              let? r := skip_bits bdl r in
              let? r := skip_bits bdl r in
              let? (_, r) := read_bit r in Some r
            else Some r
          else Some r) in
      let? r :=
         (if iddp then
            let? (p, r) := read_bit r in
            if p then skip_bits 4 r else Some r
          else Some r) in
      op_points k false dmi bdl iddp lvl' tier' r
  end.

Definition parse_sequence_header (obu_data : bytes) (header_size : nat) : option av1_config :=
  let payload := skipn header_size obu_data in
  match payload with
  | [] => None
  | _ =>
    let r := bits_of_bytes payload in
    let? (seq_profile, r) := read_bits 3 r in
    if 3 <? seq_profile then None else
    let? (_, r) := read_bit r in
    let? (reduced, r) := read_bit r in
    let? (lvl, tier, r) :=
       (if reduced then
          let? (l, r) := read_bits 5 r in Some (l, 0, r)
        else
          let? (tip, r) := read_bit r in
          let? r :=
             (if tip then
                let? r := skip_bits 32 r in
                let? r := skip_bits 32 r in
                let? (epi, r) := read_bit r in
                if epi then skip_uvlc r else Some r
              else Some r) in
          let? (dmi, r) := (if tip then read_bit r else Some (false, r)) in
          let? (bdl, r) :=
             (if dmi then
                let? (b, r) := read_bits 5 r in
                let? r := skip_bits 32 r in
                let? r := skip_bits 5 r in
                let? r := skip_bits 5 r in
                Some (S (N.to_nat b), r)
              else Some (O, r)) in
          let? (iddp, r) := read_bit r in
          let? (opc, r) := read_bits 5 r in
          op_points (S (N.to_nat opc)) true dmi bdl iddp 0 0 r) in
    let? (fwb, r) := read_bits 4 r in
    let? (fhb, r) := read_bits 4 r in
    let? (_, r) := read_bits (S (N.to_nat fwb)) r in
    let? (_, r) := read_bits (S (N.to_nat fhb)) r in
    let? r :=
       (if negb reduced then
          let? (fidp, r) := read_bit r in
          if fidp then
            let? (_, r) := read_bits 4 r in
            let? (_, r) := read_bits 3 r in Some r
          else Some r
        else Some r) in
    let? (_, r) := read_bit r in
    let? (_, r) := read_bit r in
    let? (_, r) := read_bit r in
    let? r :=
       (if negb reduced then
          let? (_, r) := read_bit r in
          let? (_, r) := read_bit r in
          let? (_, r) := read_bit r in
          let? (_, r) := read_bit r in
          let? (eoh, r) := read_bit r in
          let? r := (if eoh then
                       let? (_, r) := read_bit r in
                       let? (_, r) := read_bit r in Some r
                     else Some r) in
          let? (scsct, r) := read_bit r in
          let? (sfsct, r) := (if scsct then Some (2, r)
                              else let? (b, r) := read_bit r in Some (b2n b, r)) in
          let? r := (if 0 <? sfsct then
                       let? (scim, r) := read_bit r in
                       if negb scim then (let? (_, r) := read_bit r in Some r) else Some r
                     else Some r) in
          if eoh then skip_bits 3 r else Some r
        else Some r) in
    let? (_, r) := read_bit r in
    let? (_, r) := read_bit r in
    let? (_, r) := read_bit r in
    let? (hb, tb, mono, sx, sy, csp, r) := parse_color_config r seq_profile in
    let? (_, r) := read_bit r in
    Some {| av1_sequence_header := obu_data; av1_seq_profile := seq_profile;
            av1_seq_level_idx := lvl; av1_seq_tier := tier; av1_high_bitdepth := hb;
            av1_twelve_bit := tb; av1_monochrome := mono; av1_subsampling_x := sx;
            av1_subsampling_y := sy; av1_chroma_sample_position := csp |}
  end.

Definition extract_av1_config (data : bytes) : option av1_config :=
  match data with
  | [] => None
  | _ =>
      match find (fun io => obu_ty (fst io) =? 1) (obu_iter data) with
      | Some (info, obu) => parse_sequence_header obu (obu_header_size info)
      | None => None
      end
  end.

Definition is_av1_keyframe (data : bytes) : bool :=
  existsb (fun io =>
    let '(info, obu) := io in
    if (obu_ty info =? 6) || (obu_ty info =? 3) then
      match bits_of_bytes (skipn (obu_header_size info) obu) with
      | false :: a :: b :: _ => negb a && negb b
      | _ => false
      end
    else false) (obu_iter data).
