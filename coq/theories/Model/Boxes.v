(** Model of the box builders of src/muxer/mp4.rs (progressive muxer). One
    definition per Rust function, same name, same decomposition. *)
From Muxide Require Import Model.Base Model.Annexb Model.Adts Model.Codec.
Open Scope N_scope.

Definition build_box (typ : bytes) (payload : bytes) : bytes :=
  be32 (8 + len payload) ++ typ ++ payload.

(* four-character codes *)
Definition T_ftyp := [102;116;121;112]. Definition T_moov := [109;111;111;118].
Definition T_mdat := [109;100;97;116].  Definition T_mvhd := [109;118;104;100].
Definition T_trak := [116;114;97;107].  Definition T_tkhd := [116;107;104;100].
Definition T_mdia := [109;100;105;97].  Definition T_mdhd := [109;100;104;100].
Definition T_hdlr := [104;100;108;114]. Definition T_minf := [109;105;110;102].
Definition T_vmhd := [118;109;104;100]. Definition T_smhd := [115;109;104;100].
Definition T_dinf := [100;105;110;102]. Definition T_dref := [100;114;101;102].
Definition T_url  := [117;114;108;32].  Definition T_stbl := [115;116;98;108].
Definition T_stsd := [115;116;115;100]. Definition T_stts := [115;116;116;115].
Definition T_ctts := [99;116;116;115].  Definition T_stsc := [115;116;115;99].
Definition T_stsz := [115;116;115;122]. Definition T_stco := [115;116;99;111].
Definition T_stss := [115;116;115;115]. Definition T_avc1 := [97;118;99;49].
Definition T_avcC := [97;118;99;67].    Definition T_hvc1 := [104;118;99;49].
Definition T_hvcC := [104;118;99;67].   Definition T_av01 := [97;118;48;49].
Definition T_av1C := [97;118;49;67].    Definition T_vp09 := [118;112;48;57].
Definition T_vpcC := [118;112;99;67].   Definition T_mp4a := [109;112;52;97].
Definition T_esds := [101;115;100;115]. Definition T_Opus := [79;112;117;115].
Definition T_dOps := [100;79;112;115].  Definition T_udta := [117;100;116;97].
Definition T_meta := [109;101;116;97].  Definition T_ilst := [105;108;115;116].
Definition T_data := [100;97;116;97].   Definition T_cnam := [169;110;97;109].
Definition T_cday := [169;100;97;121].  Definition T_mvex := [109;118;101;120].
Definition T_trex := [116;114;101;120]. Definition T_moof := [109;111;111;102].
Definition T_mfhd := [109;102;104;100]. Definition T_traf := [116;114;97;102].
Definition T_tfhd := [116;102;104;100]. Definition T_tfdt := [116;102;100;116].
Definition T_trun := [116;114;117;110].

Inductive video_codec := H264 | H265 | Av1 | Vp9.
Inductive aac_profile := Lc | Main | Ssr | Ltp | He | Hev2.
Inductive audio_codec := Aac (p : aac_profile) | Opus | NoAudio.

Inductive video_config :=
| CfgAvc (c : avc_config) | CfgHevc (c : hevc_config) | CfgAv1 (c : av1_config) | CfgVp9 (c : vp9_config).

Record audio_track := { at_sample_rate : N; at_channels : N; at_codec : audio_codec }.
Record video_track := { vt_width : N; vt_height : N }.

Record metadata := { md_title : option bytes; md_creation_time : option N; md_language : option bytes }.

Record sample_tables := {
  st_durations : list N; st_sizes : list N; st_keyframes : list N; st_chunk_offsets : list N;
  st_samples_per_chunk : N; st_cts_offsets : list Z; st_has_bframes : bool }.

Definition total_duration (t : sample_tables) : N := sumN (st_durations t).

Definition MOVIE_TIMESCALE := 1000.
Definition MEDIA_TIMESCALE := 90000.

Definition build_ftyp_box : bytes :=
  build_box T_ftyp ([105;115;111;109] ++ be32 512 ++ [105;115;111;109;109;112;52;49]).

Definition matrix_bytes : bytes :=
  be32 65536 ++ be32 0 ++ be32 0 ++ be32 0 ++ be32 65536 ++ be32 0 ++ be32 0 ++ be32 0 ++ be32 1073741824.

Definition build_mvhd_payload (duration_ms next_track_id : N) : bytes :=
  be32 0 ++ be32 0 ++ be32 0 ++ be32 MOVIE_TIMESCALE ++ be32 duration_ms ++ be32 65536 ++
  be16 256 ++ be16 0 ++ be64 0 ++ matrix_bytes ++ zeros 24 ++ be32 next_track_id.

Definition build_tkhd_box_with_id (track_id volume width height : N) : bytes :=
  build_box T_tkhd
    (be32 0 ++ be32 0 ++ be32 0 ++ be32 track_id ++ be32 0 ++ be64 0 ++ be64 0 ++
     be16 0 ++ be16 0 ++ be16 volume ++ be16 0 ++ matrix_bytes ++
     be32 (width * 65536) ++ be32 (height * 65536)).

Definition build_tkhd_box (v : video_track) := build_tkhd_box_with_id 1 0 (vt_width v) (vt_height v).
Definition build_audio_tkhd_box := build_tkhd_box_with_id 2 256 0 0.

(* encode_language_code: language as a list of Unicode scalar values *)
Definition sat_sub_60_1f (c : N) : N := band (u16 c - 96) 31.
Definition encode_language_code (lang : list N) : bytes :=
  let c1 := match lang with c :: _ => c | [] => 117 end in
  let c2 := match lang with _ :: c :: _ => c | _ => 110 end in
  let c3 := match lang with _ :: _ :: c :: _ => c | _ => 100 end in
  be16 (N.lor (N.lor (N.shiftl (sat_sub_60_1f c1) 10) (N.shiftl (sat_sub_60_1f c2) 5)) (sat_sub_60_1f c3)).

(* UTF-8 decoding of a (valid) string into scalar values, first three only matter *)
Fixpoint utf8_chars_f (fuel : nat) (b : bytes) : list N :=
  match fuel with
  | O => []
  | S f =>
      match b with
      | [] => []
      | c :: t =>
          if c <? 128 then c :: utf8_chars_f f t
          else if c <? 224 then
            match t with
            | d :: t' => ((c - 192) * 64 + (d - 128)) :: utf8_chars_f f t'
            | _ => []
            end
          else if c <? 240 then
            match t with
            | d :: e :: t' => ((c - 224) * 4096 + (d - 128) * 64 + (e - 128)) :: utf8_chars_f f t'
            | _ => []
            end
          else
            match t with
            | d :: e :: g :: t' =>
                ((c - 240) * 262144 + (d - 128) * 4096 + (e - 128) * 64 + (g - 128)) :: utf8_chars_f f t'
            | _ => []
            end
      end
  end.
Definition utf8_chars (b : bytes) : list N := utf8_chars_f (S (length b)) b.
Definition UND : bytes := [117; 110; 100].

Definition build_mdhd_box (timescale duration : N) (language : option bytes) : bytes :=
  build_box T_mdhd
    (be32 0 ++ be32 0 ++ be32 0 ++ be32 timescale ++ be32 duration ++
     encode_language_code (utf8_chars (match language with Some l => l | None => UND end)) ++ be16 0).

Definition VideoHandler : bytes := [86;105;100;101;111;72;97;110;100;108;101;114].
Definition SoundHandler : bytes := [83;111;117;110;100;72;97;110;100;108;101;114].
Definition build_hdlr_box : bytes :=
  build_box T_hdlr (be32 0 ++ be32 0 ++ [118;105;100;101] ++ zeros 12 ++ VideoHandler ++ [0]).
Definition build_sound_hdlr_box : bytes :=
  build_box T_hdlr (be32 0 ++ be32 0 ++ [115;111;117;110] ++ zeros 12 ++ SoundHandler ++ [0]).

Definition build_vmhd_box : bytes := build_box T_vmhd (be32 0 ++ be16 0 ++ be16 0 ++ be16 0 ++ be16 0).
Definition build_smhd_box : bytes := build_box T_smhd (be32 0 ++ be16 0 ++ be16 0).
Definition build_url_box : bytes := build_box T_url (be32 1).
Definition build_dref_box : bytes := build_box T_dref (be32 0 ++ be32 1 ++ build_url_box).
Definition build_dinf_box : bytes := build_box T_dinf build_dref_box.

(* run-length encoding used by stts and ctts; counts are u32 *)
Fixpoint rle {A} (eqb : A -> A -> bool) (l : list A) : list (N * A) :=
  match l with
  | [] => []
  | x :: t =>
      match rle eqb t with
      | (c, y) :: r => if eqb x y then (c + 1, y) :: r else (1, x) :: (c, y) :: r
      | [] => [(1, x)]
      end
  end.

Definition build_stts_box (durations : list N) : bytes :=
  let entries := rle N.eqb durations in
  build_box T_stts (be32 0 ++ be32 (len entries) ++
                    concat (map (fun e => be32 (fst e) ++ be32 (snd e)) entries)).

Definition build_ctts_box (offsets : list Z) : bytes :=
  let entries := rle Z.eqb offsets in
  build_box T_ctts (be32 16777216 ++ be32 (len entries) ++
                    concat (map (fun e => be32 (fst e) ++ be32 (i32_bits (snd e))) entries)).

Definition build_stsc_box (samples_per_chunk chunk_count : N) : bytes :=
  if (chunk_count =? 0) || (samples_per_chunk =? 0) then build_box T_stsc (be32 0 ++ be32 0)
  else build_box T_stsc (be32 0 ++ be32 1 ++ be32 1 ++ be32 samples_per_chunk ++ be32 1).

Definition build_stsz_box (sizes : list N) : bytes :=
  build_box T_stsz (be32 0 ++ be32 0 ++ be32 (len sizes) ++ concat (map be32 sizes)).

Definition build_stco_box (offsets : list N) : bytes :=
  build_box T_stco (be32 0 ++ be32 (len offsets) ++ concat (map be32 offsets)).

Definition build_stss_box (keyframes : list N) : bytes :=
  build_box T_stss (be32 0 ++ be32 (len keyframes) ++ concat (map be32 keyframes)).

(* shared prefix of every visual sample entry *)
Definition visual_entry_prefix (v : video_track) : bytes :=
  zeros 6 ++ be16 1 ++ be16 0 ++ be16 0 ++ be32 0 ++ be32 0 ++ be32 0 ++
  be16 (vt_width v) ++ be16 (vt_height v) ++ be32 4718592 ++ be32 4718592 ++ be32 0 ++
  be16 1 ++ zeros 32 ++ be16 24 ++ be16 65535.

Definition build_avcc_box (c : avc_config) : bytes :=
  let sps := avc_sps c in
  let '(pi, pc, li) :=
    match sps with
    | _ :: a :: b :: d :: _ => (a, b, d)
    | _ => (66, 0, 30)
    end in
  build_box T_avcC ([1; pi; pc; li; 255; 225] ++ be16 (len sps) ++ sps ++ [1] ++
                    be16 (len (avc_pps c)) ++ avc_pps c).

Definition build_avc1_box (v : video_track) (c : avc_config) : bytes :=
  build_box T_avc1 (visual_entry_prefix v ++ build_avcc_box c).

Definition build_hvcc_box (c : hevc_config) : bytes :=
  let byte1 := N.lor (N.lor (u8 (N.shiftl (hevc_general_profile_space c) 6))
                            (if hevc_general_tier_flag c then 32 else 0))
                     (band (hevc_general_profile_idc c) 31) in
  build_box T_hvcC
    ([1; byte1; 96; 0; 0; 0; 144; 0; 0; 0; 0; 0; hevc_general_level_idc c; 240; 0; 252; 253; 248; 248] ++
     be16 0 ++ [3; 3] ++
     [160] ++ be16 1 ++ be16 (len (hevc_vps c)) ++ hevc_vps c ++
     [161] ++ be16 1 ++ be16 (len (hevc_sps c)) ++ hevc_sps c ++
     [162] ++ be16 1 ++ be16 (len (hevc_pps c)) ++ hevc_pps c).

Definition build_hvc1_box (v : video_track) (c : hevc_config) : bytes :=
  build_box T_hvc1 (visual_entry_prefix v ++ build_hvcc_box c).

Definition build_av1c_box (c : av1_config) : bytes :=
  let byte1 := N.lor (u8 (N.shiftl (band (av1_seq_profile c) 7) 5)) (band (av1_seq_level_idx c) 31) in
  let byte2 :=
    N.lor (N.lor (N.lor (N.lor (N.lor (N.lor
      (u8 (N.shiftl (band (av1_seq_tier c) 1) 7))
      (if av1_high_bitdepth c then 64 else 0))
      (if av1_twelve_bit c then 32 else 0))
      (if av1_monochrome c then 16 else 0))
      (if av1_subsampling_x c then 8 else 0))
      (if av1_subsampling_y c then 4 else 0))
      (band (av1_chroma_sample_position c) 3) in
  build_box T_av1C ([129; byte1; byte2; 0] ++ av1_sequence_header c).

Definition build_av01_box (v : video_track) (c : av1_config) : bytes :=
  build_box T_av01 (visual_entry_prefix v ++ build_av1c_box c).

Definition build_vpcc_box (c : vp9_config) : bytes :=
  build_box T_vpcC [1; vp9_profile c; vp9_level c; vp9_bit_depth c; vp9_color_space c;
                    vp9_transfer_function c; vp9_matrix_coefficients c; vp9_full_range_flag c].

Definition build_vp09_box (v : video_track) (c : vp9_config) : bytes :=
  build_box T_vp09 (visual_entry_prefix v ++ build_vpcc_box c).

Definition build_stsd_box (v : video_track) (c : video_config) : bytes :=
  let entry := match c with
               | CfgAvc a => build_avc1_box v a
               | CfgHevc h => build_hvc1_box v h
               | CfgAv1 a => build_av01_box v a
               | CfgVp9 p => build_vp09_box v p
               end in
  build_box T_stsd (be32 0 ++ be32 1 ++ entry).

Definition build_stbl_box (v : video_track) (t : sample_tables) (c : video_config) : bytes :=
  build_box T_stbl
    (build_stsd_box v c ++ build_stts_box (st_durations t) ++
     (if st_has_bframes t then build_ctts_box (st_cts_offsets t) else []) ++
     build_stsc_box (st_samples_per_chunk t) (u32 (len (st_chunk_offsets t))) ++
     build_stsz_box (st_sizes t) ++ build_stco_box (st_chunk_offsets t) ++
     (match st_keyframes t with [] => [] | _ => build_stss_box (st_keyframes t) end)).

Definition build_minf_box (v : video_track) (t : sample_tables) (c : video_config) : bytes :=
  build_box T_minf (build_vmhd_box ++ build_dinf_box ++ build_stbl_box v t c).

Definition md_lang (m : option metadata) : option bytes :=
  match m with Some md => md_language md | None => None end.

Definition build_mdia_box (v : video_track) (t : sample_tables) (c : video_config) (m : option metadata) : bytes :=
  build_box T_mdia (build_mdhd_box MEDIA_TIMESCALE (total_duration t) (md_lang m) ++
                    build_hdlr_box ++ build_minf_box v t c).

Definition build_trak_box (v : video_track) (t : sample_tables) (c : video_config) (m : option metadata) : bytes :=
  build_box T_trak (build_tkhd_box v ++ build_mdia_box v t c m).

(** audio *)
Definition sample_rate_index (rate : N) : N :=
  if rate =? 96000 then 0 else if rate =? 88200 then 1 else if rate =? 64000 then 2
  else if rate =? 48000 then 3 else if rate =? 44100 then 4 else if rate =? 32000 then 5
  else if rate =? 24000 then 6 else if rate =? 22050 then 7 else if rate =? 16000 then 8
  else if rate =? 12000 then 9 else if rate =? 11025 then 10 else if rate =? 8000 then 11
  else if rate =? 7350 then 12 else 4.

Definition build_audio_specific_config (sample_rate channels : N) : bytes :=
  let sfi := sample_rate_index sample_rate in
  let chan := band (N.min channels 15) 15 in
  [ N.lor 16 (shr sfi 1); N.lor (u8 (N.shiftl (band sfi 1) 7)) (u8 (N.shiftl chan 3)) ].

Definition build_esds_box (a : audio_track) : bytes :=
  let asc := build_audio_specific_config (at_sample_rate a) (at_channels a) in
  let dec_specific := [5; u8 (len asc)] ++ asc in
  let dec_config_payload := [64; 21; 0; 0; 0] ++ be32 0 ++ be32 0 ++ dec_specific in
  let dec_config := [4; u8 (len dec_config_payload)] ++ dec_config_payload in
  let es_payload := be16 1 ++ [0] ++ dec_config ++ [6; 1; 2] in
  let es_desc := [3; u8 (len es_payload)] ++ es_payload in
  build_box T_esds (be32 0 ++ es_desc).

Definition audio_entry_prefix (channels rate : N) : bytes :=
  zeros 6 ++ be16 1 ++ be32 0 ++ be32 0 ++ be16 channels ++ be16 16 ++ be16 0 ++ be16 0 ++
  be32 (rate * 65536).

Definition build_mp4a_box (a : audio_track) : bytes :=
  build_box T_mp4a (audio_entry_prefix (at_channels a) (at_sample_rate a) ++ build_esds_box a).

Definition OPUS_SAMPLE_RATE := 48000.

Definition build_dops_box (a : audio_track) : bytes :=
  let ch := u8 (at_channels a) in
  let family := if 2 <? ch then 1 else 0 in
  build_box T_dOps
    ([0; ch] ++ be16 312 ++ be32 48000 ++ be16 0 ++ [family] ++
     (if family =? 0 then [] else [1; 0] ++ map N.of_nat (seq 0 (N.to_nat ch)))).

Definition build_opus_box (a : audio_track) : bytes :=
  build_box T_Opus (audio_entry_prefix (at_channels a) OPUS_SAMPLE_RATE ++ build_dops_box a).

Definition build_audio_stsd_box (a : audio_track) : bytes :=
  let entry := match at_codec a with Opus => build_opus_box a | _ => build_mp4a_box a end in
  build_box T_stsd (be32 0 ++ be32 1 ++ entry).

Definition build_audio_stbl_box (a : audio_track) (t : sample_tables) : bytes :=
  build_box T_stbl
    (build_audio_stsd_box a ++ build_stts_box (st_durations t) ++
     build_stsc_box (st_samples_per_chunk t) (u32 (len (st_chunk_offsets t))) ++
     build_stsz_box (st_sizes t) ++ build_stco_box (st_chunk_offsets t)).

Definition build_audio_minf_box (a : audio_track) (t : sample_tables) : bytes :=
  build_box T_minf (build_smhd_box ++ build_dinf_box ++ build_audio_stbl_box a t).

Definition build_audio_mdia_box (a : audio_track) (t : sample_tables) (m : option metadata) : bytes :=
  build_box T_mdia (build_mdhd_box MEDIA_TIMESCALE (total_duration t) (md_lang m) ++
                    build_sound_hdlr_box ++ build_audio_minf_box a t).

Definition build_audio_trak_box (a : audio_track) (t : sample_tables) (m : option metadata) : bytes :=
  build_box T_trak (build_audio_tkhd_box ++ build_audio_mdia_box a t m).

(** metadata *)
Definition build_ilst_string_item (atom : bytes) (value : bytes) : bytes :=
  build_box atom (build_box T_data ([0;0;0;1] ++ [0;0;0;0] ++ value)).

Definition build_meta_hdlr_box : bytes :=
  build_box T_hdlr (zeros 4 ++ zeros 4 ++ [109;100;105;114] ++ [97;112;112;108] ++ zeros 4 ++ zeros 4 ++ [0]).

(* days_to_ymd: closed form over 400-year eras *)
Definition days_to_ymd (days : N) : N * N * N :=
  let z := days + 719468 in
  let era := z / 146097 in
  let doe := z mod 146097 in
  let yoe := (doe - doe / 1460 + doe / 36524 - doe / 146096) / 365 in
  let doy := doe - (365 * yoe + yoe / 4 - yoe / 100) in
  let mp := (5 * doy + 2) / 153 in
  let day := doy - (153 * mp + 2) / 5 + 1 in
  let month := if mp <? 10 then mp + 3 else mp - 9 in
  let year := yoe + era * 400 + (if month <=? 2 then 1 else 0) in
  (year, month, day).

(* decimal digits, zero padded to at least [w] (Rust {:0w}) *)
Fixpoint digits_f (fuel : nat) (n : N) (acc : bytes) : bytes :=
  match fuel with
  | O => acc
  | S f => let acc' := (48 + n mod 10) :: acc in
           if n / 10 =? 0 then acc' else digits_f f (n / 10) acc'
  end.
Definition digits (n : N) : bytes := digits_f 40 n [].
Definition pad0 (w : nat) (n : N) : bytes :=
  let d := digits n in repeat 48 (w - length d) ++ d.

Definition format_unix_timestamp (secs : N) : bytes :=
  let days := secs / 86400 in
  let rem := secs mod 86400 in
  let '(y, mo, d) := days_to_ymd days in
  pad0 4 y ++ [45] ++ pad0 2 mo ++ [45] ++ pad0 2 d ++ [84] ++
  pad0 2 (rem / 3600) ++ [58] ++ pad0 2 ((rem mod 3600) / 60) ++ [58] ++ pad0 2 (rem mod 60) ++ [90].

Definition build_udta_box (m : metadata) : bytes :=
  let ilst_payload :=
    (match md_title m with Some t => build_ilst_string_item T_cnam t | None => [] end) ++
    (match md_creation_time m with
     | Some t => build_ilst_string_item T_cday (format_unix_timestamp t) | None => [] end) in
  match ilst_payload with
  | [] => []
  | _ => build_box T_udta
           (build_box T_meta (zeros 4 ++ build_meta_hdlr_box ++ build_box T_ilst ilst_payload))
  end.

Definition build_moov_box (v : video_track) (vt : sample_tables)
           (audio : option (audio_track * sample_tables)) (c : video_config) (m : option metadata) : bytes :=
  let video_duration_ms := u32 (total_duration vt * MOVIE_TIMESCALE / MEDIA_TIMESCALE) in
  let next_track_id := match audio with Some _ => 3 | None => 2 end in
  build_box T_moov
    (build_box T_mvhd (build_mvhd_payload video_duration_ms next_track_id) ++
     build_trak_box v vt c m ++
     (match audio with Some (a, t) => build_audio_trak_box a t m | None => [] end) ++
     (match m with Some md => build_udta_box md | None => [] end)).
