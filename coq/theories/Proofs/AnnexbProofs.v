(** The Annex B scanner model ([nal_iter]) coincides with the declarative split
    ([spec_units]), and the length-prefixed converters satisfy [check_reframe]. *)
From Coq Require Import Lia ZifyN ZifyNat ZifyBool.
From Muxide Require Import Model.Base Model.Annexb Spec.NalSplit Proofs.BaseProofs Proofs.TableProofs.
Open Scope N_scope.
Ltac Zify.zify_post_hook ::= Z.div_mod_to_equations.

(** * List helpers *)

Lemma skipn_skipn' {A} (a b : nat) (l : list A) : skipn a (skipn b l) = skipn (b + a) l.
Proof.
  revert l. induction b as [|b IH]; intros l.
  - reflexivity.
  - destruct l as [|x t].
    + cbn [skipn Nat.add]. destruct a; reflexivity.
    + cbn [skipn Nat.add]. apply IH.
Qed.

Lemma nth_skipn' {A} (c k : nat) (l : list A) (x : A) : nth k (skipn c l) x = nth (c + k) l x.
Proof.
  revert l. induction c as [|c IH]; intros l.
  - reflexivity.
  - destruct l as [|y t].
    + cbn [skipn Nat.add nth]. destruct k; reflexivity.
    + cbn [skipn Nat.add nth]. apply IH.
Qed.

(** * Start-code predicates *)

Lemma is_sc3_at3 l : is_sc3 l = at3 l.
Proof. reflexivity. Qed.

Lemma is_sc4_cons a t : is_sc4 (a :: t) = (a =? 0) && at3 t.
Proof.
  destruct t as [|b [|c [|e t']]]; cbn [is_sc4 at3].
  - rewrite andb_false_r. reflexivity.
  - rewrite andb_false_r. reflexivity.
  - rewrite andb_false_r. reflexivity.
  - rewrite !andb_assoc. reflexivity.
Qed.

Lemma at3_nil : at3 [] = false.
Proof. reflexivity. Qed.

(* occurrences of 00 00 01 do not overlap *)
Lemma at3_shape l :
  at3 l = true ->
  exists a b c t, l = a :: b :: c :: t /\ at3 (b :: c :: t) = false /\ at3 (c :: t) = false.
Proof.
  intros H. destruct l as [|a [|b [|c t]]]; cbn [at3] in H; try discriminate.
  exists a, b, c, t. split; [reflexivity|].
  apply andb_prop in H. destruct H as [H Hc]. apply andb_prop in H. destruct H as [Ha Hb].
  apply N.eqb_eq in Ha, Hb, Hc. subst a b c.
  split.
  - destruct t as [|e t]; reflexivity.
  - destruct t as [|e [|f t]]; reflexivity.
Qed.

Lemma at3_next_false a t : at3 (a :: t) = true -> at3 t = false.
Proof.
  intros H. apply at3_shape in H. destruct H as (a' & b & c & t' & E & H1 & _).
  inversion E; subst. exact H1.
Qed.

(** * sc3_positions *)

Lemma sc3_cons a t i :
  sc3_positions (a :: t) i =
  if at3 (a :: t) then i :: sc3_positions t (S i) else sc3_positions t (S i).
Proof. reflexivity. Qed.

Lemma sc3_lower l : forall i p, In p (sc3_positions l i) -> (i <= p)%nat.
Proof.
  induction l as [|a t IH]; intros i p H.
  - cbn [sc3_positions] in H. contradiction.
  - rewrite sc3_cons in H. destruct (at3 (a :: t)).
    + destruct H as [H|H]; [lia|]. apply IH in H. lia.
    + apply IH in H. lia.
Qed.

Lemma sc3_head_lower l i p r : sc3_positions l i = p :: r -> (i <= p)%nat.
Proof. intros H. apply (sc3_lower l). rewrite H. left. reflexivity. Qed.

Lemma sc3_head_strict l i p r :
  sc3_positions l i = p :: r -> at3 l = false -> (i < p)%nat.
Proof.
  intros H F. destruct l as [|a t].
  - cbn [sc3_positions] in H. discriminate.
  - rewrite sc3_cons, F in H. apply sc3_head_lower in H. lia.
Qed.

Lemma sc3_length l : forall i, (length (sc3_positions l i) <= length l)%nat.
Proof.
  induction l as [|a t IH]; intros i.
  - cbn. lia.
  - rewrite sc3_cons. specialize (IH (S i)).
    destruct (at3 (a :: t)); cbn [length]; lia.
Qed.

(* restarting anywhere up to the first position sees the same positions *)
Lemma sc3_skip_same l : forall pos q rest k,
  sc3_positions l pos = q :: rest -> (pos + k <= q)%nat ->
  sc3_positions (skipn k l) (pos + k) = q :: rest.
Proof.
  induction l as [|a t IH]; intros pos q rest k H Hk.
  - cbn [sc3_positions] in H. discriminate.
  - destruct k as [|k].
    + cbn [skipn]. rewrite Nat.add_0_r. exact H.
    + cbn [skipn]. rewrite sc3_cons in H. destruct (at3 (a :: t)).
      * inversion H; subst. lia.
      * replace (pos + S k)%nat with (S pos + k)%nat by lia.
        apply IH; [exact H | lia].
Qed.

(* restarting right after the first occurrence yields the remaining positions *)
Lemma sc3_skip_after l : forall pos q rest,
  sc3_positions l pos = q :: rest ->
  sc3_positions (skipn (q + 3 - pos) l) (q + 3) = rest.
Proof.
  induction l as [|a t IH]; intros pos q rest H.
  - cbn [sc3_positions] in H. discriminate.
  - rewrite sc3_cons in H. destruct (at3 (a :: t)) eqn:E.
    + inversion H; subst q rest. clear H.
      apply at3_shape in E. destruct E as (a' & b & c & t' & E & H1 & H2).
      inversion E; subst a' t. clear E.
      replace (pos + 3 - pos)%nat with 3%nat by lia. cbn [skipn].
      rewrite sc3_cons, H1, sc3_cons, H2.
      replace (pos + 3)%nat with (S (S (S pos))) by lia. reflexivity.
    + pose proof (sc3_head_lower _ _ _ _ H) as Hl.
      replace (q + 3 - pos)%nat with (S (q + 3 - S pos)) by lia.
      cbn [skipn]. apply IH. exact H.
Qed.

(** * Characterisation of the scanner *)

Lemma fsc_cons a t pos :
  fsc (a :: t) pos =
  if (a =? 0) && at3 t then Some (pos, 4%nat)
  else if at3 (a :: t) then Some (pos, 3%nat) else fsc t (S pos).
Proof.
  cbn [fsc]. rewrite is_sc4_cons.
  change (is_sc3 (a :: t)) with (at3 (a :: t)). reflexivity.
Qed.

Lemma fsc_spec l : forall pos,
  fsc l pos =
  match sc3_positions l pos with
  | [] => None
  | p :: _ =>
      if (pos <? p)%nat && (nth (p - 1 - pos) l 1 =? 0)
      then Some ((p - 1)%nat, 4%nat) else Some (p, 3%nat)
  end.
Proof.
  induction l as [|a t IH]; intros pos.
  - reflexivity.
  - rewrite fsc_cons, sc3_cons.
    destruct (at3 (a :: t)) eqn:E3.
    + rewrite (at3_next_false _ _ E3), andb_false_r.
      replace (pos <? pos)%nat with false by lia. reflexivity.
    + destruct (at3 t) eqn:Et.
      * destruct t as [|b t']; [discriminate Et|].
        rewrite sc3_cons, Et.
        replace (pos <? S pos)%nat with true by lia.
        replace (S pos - 1 - pos)%nat with 0%nat by lia.
        cbn [nth andb]. rewrite andb_true_r.
        destruct (a =? 0) eqn:Ea.
        -- replace (S pos - 1)%nat with pos by lia. reflexivity.
        -- rewrite IH, sc3_cons, Et.
           replace (S pos <? S pos)%nat with false by lia. reflexivity.
      * rewrite andb_false_r. rewrite IH.
        destruct (sc3_positions t (S pos)) as [|p r] eqn:Ep; [reflexivity|].
        pose proof (sc3_head_strict _ _ _ _ Ep Et) as Hlt.
        replace (S pos <? p)%nat with true by lia.
        replace (pos <? p)%nat with true by lia.
        replace (p - 1 - pos)%nat with (S (p - 1 - S pos)) by lia.
        cbn [nth]. reflexivity.
Qed.

(* positions of 00 00 01 at or after [c] *)
Definition posf (d : bytes) (c : nat) : list nat := sc3_positions (skipn c d) c.

Lemma posf_same d c q rest c' :
  posf d c = q :: rest -> (c <= c')%nat -> (c' <= q)%nat -> posf d c' = q :: rest.
Proof.
  unfold posf. intros H H1 H2.
  replace c' with (c + (c' - c))%nat at 1 2 by lia.
  rewrite <- skipn_skipn'. apply sc3_skip_same; [exact H | lia].
Qed.

Lemma posf_after d c q rest : posf d c = q :: rest -> posf d (q + 3) = rest.
Proof.
  unfold posf. intros H.
  pose proof (sc3_head_lower _ _ _ _ H) as Hl.
  replace (q + 3)%nat with (c + (q + 3 - c))%nat at 1 by lia.
  rewrite <- skipn_skipn'. apply sc3_skip_after. exact H.
Qed.

Lemma posf_end d : posf d (length d) = [].
Proof. unfold posf. rewrite skipn_all. reflexivity. Qed.

Lemma find_start_code_spec d c :
  find_start_code d c =
  match posf d c with
  | [] => None
  | p :: _ =>
      if (c <? p)%nat && (byte_at d (p - 1) =? 0)
      then Some ((p - 1)%nat, 4%nat) else Some (p, 3%nat)
  end.
Proof.
  unfold find_start_code, posf. rewrite fsc_spec.
  destruct (sc3_positions (skipn c d) c) as [|p r]; [reflexivity|].
  destruct (c <? p)%nat eqn:E; [|reflexivity].
  cbn [andb]. rewrite nth_skipn'. unfold byte_at.
  replace (c + (p - 1 - c))%nat with (p - 1)%nat by lia. reflexivity.
Qed.

(* end of the start code found from [c] *)
Lemma find_start_code_end d c q rest :
  posf d c = q :: rest ->
  exists p l, find_start_code d c = Some (p, l) /\ (p + l = q + 3)%nat.
Proof.
  intros H. rewrite find_start_code_spec, H.
  destruct ((c <? q)%nat && (byte_at d (q - 1) =? 0)) eqn:E.
  - exists (q - 1)%nat, 4%nat. split; [reflexivity|]. lia.
  - exists q, 3%nat. split; [reflexivity|]. lia.
Qed.

(* beginning of the next start code, searching from the end [e] of the previous one *)
Lemma find_start_code_begin d e r rest :
  posf d e = r :: rest ->
  exists l, find_start_code d e = Some (sc_begin d (Some e) r, l) /\
            (e <= sc_begin d (Some e) r)%nat /\ (sc_begin d (Some e) r <= r)%nat.
Proof.
  intros H. pose proof (sc3_head_lower _ _ _ _ H) as Hl.
  rewrite find_start_code_spec, H. unfold sc_begin.
  destruct r as [|r'].
  - replace (e <? 0)%nat with false by lia. cbn [andb].
    exists 3%nat. split; [reflexivity|]. lia.
  - replace (S r' - 1)%nat with r' by lia.
    replace (e <? S r')%nat with (e <=? r')%nat by lia.
    rewrite andb_comm.
    destruct ((byte_at d r' =? 0) && (e <=? r')%nat) eqn:E.
    + exists 4%nat. split; [reflexivity|]. lia.
    + exists 3%nat. split; [reflexivity|]. lia.
Qed.

Lemma nal_iter_f_end fuel d : nal_iter_f fuel d (length d) = [].
Proof.
  destruct fuel as [|f]; [reflexivity|].
  cbn [nal_iter_f]. unfold nal_next.
  rewrite find_start_code_spec, posf_end. reflexivity.
Qed.

Lemma nal_iter_f_units d : forall rest fuel c q,
  posf d c = q :: rest ->
  (length rest < fuel)%nat ->
  nal_iter_f fuel d c = units_from d rest (Some (q + 3)%nat).
Proof.
  induction rest as [|r rest' IH]; intros fuel c q H Hf.
  - destruct fuel as [|f]; [lia|].
    cbn [nal_iter_f units_from]. unfold nal_next.
    destruct (find_start_code_end _ _ _ _ H) as (p & l & Ef & Epl).
    rewrite Ef, Epl.
    pose proof (posf_after _ _ _ _ H) as Ha.
    rewrite (find_start_code_spec d (q + 3)), Ha.
    rewrite nal_iter_f_end. reflexivity.
  - destruct fuel as [|f]; [cbn [length] in Hf; lia|].
    cbn [nal_iter_f units_from]. unfold nal_next.
    destruct (find_start_code_end _ _ _ _ H) as (p & l & Ef & Epl).
    rewrite Ef, Epl.
    pose proof (posf_after _ _ _ _ H) as Ha.
    destruct (find_start_code_begin _ _ _ _ Ha) as (l' & Eb & Hb1 & Hb2).
    rewrite Eb. unfold sub at 1. f_equal.
    apply IH.
    + apply (posf_same d (q + 3)%nat r rest'); assumption.
    + cbn [length] in Hf. lia.
Qed.

Theorem nal_iter_is_spec_units : forall d : bytes, nal_iter d = spec_units d.
Proof.
  intros d. unfold nal_iter, spec_units.
  change (sc3_positions d 0) with (posf d 0).
  destruct (posf d 0) as [|p rest] eqn:E.
  - cbn [nal_iter_f units_from]. unfold nal_next.
    rewrite find_start_code_spec, E. reflexivity.
  - cbn [units_from]. apply (nal_iter_f_units d rest _ 0%nat p E).
    pose proof (sc3_length d 0) as Hl. fold (posf d 0) in Hl.
    unfold posf in E. cbn [skipn] in E. unfold posf in Hl. cbn [skipn] in Hl.
    rewrite E in Hl. cbn [length] in Hl. lia.
Qed.

Print Assumptions nal_iter_is_spec_units.

(** * Length-prefixed conversion *)

Lemma sub_length d a b : (length (sub d a b) <= length d)%nat.
Proof.
  unfold sub. rewrite firstn_length, skipn_length. lia.
Qed.

Lemma units_from_length d : forall ps cur,
  Forall (fun u => (length u <= length d)%nat) (units_from d ps cur).
Proof.
  induction ps as [|p t IH]; intros cur.
  - cbn [units_from]. destruct cur as [s|].
    + constructor; [apply sub_length | constructor].
    + constructor.
  - cbn [units_from]. destruct cur as [s|].
    + constructor; [apply sub_length | apply IH].
    + apply IH.
Qed.

Lemma filter_units_small d :
  len d < 4294967296 ->
  Forall (fun n => len n < 4294967296) (filter nonempty_b (spec_units d)).
Proof.
  intros H. apply Forall_forall. intros u Hu.
  apply filter_In in Hu. destruct Hu as [Hu _].
  pose proof (units_from_length d (sc3_positions d 0) None) as F.
  rewrite Forall_forall in F. specialize (F u Hu).
  unfold len in *. lia.
Qed.

Lemma bytes_eqb_refl b : bytes_eqb b b = true.
Proof.
  induction b as [|x t IH]; [reflexivity|].
  cbn [bytes_eqb]. rewrite N.eqb_refl, IH. reflexivity.
Qed.

Lemma list_bytes_eqb_refl l : list_bytes_eqb l l = true.
Proof.
  induction l as [|x t IH]; [reflexivity|].
  cbn [list_bytes_eqb]. rewrite bytes_eqb_refl, IH. reflexivity.
Qed.

Lemma len_prefixed_cons u us :
  len_prefixed (u :: us) = (be32 (len u) ++ u) ++ len_prefixed us.
Proof. reflexivity. Qed.

Theorem annexb_to_avcc_is_spec :
  forall d : bytes, (len d < 4294967296)%N -> check_reframe d (annexb_to_avcc d) = true.
Proof.
  intros d Hd. unfold check_reframe, annexb_to_avcc, spec_payloads.
  rewrite nal_iter_is_spec_units.
  change nonempty with nonempty_b.
  pose proof (filter_units_small d Hd) as HF.
  destruct (filter nonempty_b (spec_units d)) as [|u us] eqn:EU.
  - change (len_prefixed []) with (@nil byte).
    destruct d as [|x d'].
    + reflexivity.
    + replace (be32 (len (x :: d')) ++ x :: d') with (len_prefixed [x :: d']).
      * rewrite parse_len4_len_prefixed.
        -- apply list_bytes_eqb_refl.
        -- constructor; [exact Hd | constructor].
      * rewrite len_prefixed_cons. change (len_prefixed []) with (@nil byte).
        apply app_nil_r.
  - assert (Hout : match len_prefixed (u :: us), d with
                   | [], _ :: _ => be32 (len d) ++ d
                   | _, _ => len_prefixed (u :: us)
                   end = len_prefixed (u :: us)).
    { destruct (len_prefixed (u :: us)) as [|y ys] eqn:EL.
      - exfalso. rewrite len_prefixed_cons in EL.
        apply (f_equal (@length byte)) in EL.
        rewrite !app_length, be32_length in EL. cbn [length] in EL. lia.
      - destruct d; reflexivity. }
    rewrite Hout. rewrite parse_len4_len_prefixed by exact HF.
    destruct d; apply list_bytes_eqb_refl.
Qed.

Print Assumptions annexb_to_avcc_is_spec.

Theorem hevc_annexb_to_hvcc_is_spec :
  forall d : bytes, (len d < 4294967296)%N -> check_reframe d (hevc_annexb_to_hvcc d) = true.
Proof.
  intros d Hd. unfold hevc_annexb_to_hvcc. apply annexb_to_avcc_is_spec. exact Hd.
Qed.

Print Assumptions hevc_annexb_to_hvcc_is_spec.
