(** Structure of the progressive files the model emits: the independent
    ISO-BMFF reader (Spec/Bmff.v, Spec/Reader.v) accepts every successful
    write plan shorter than 4 GiB as a well-formed box tree with all mandatory
    boxes and consistent sample-table counts ([check_file_structure]).

    T1 [moov_parses], T2 [progressive_plan_is_wellformed],
    T3 [NonEmptyInv_reachable], T4 [finished_file_is_wellformed]. *)
From Coq Require Import Lia ZifyN ZifyNat ZifyBool.
From Coq Require Import Sorting.Sorted Sorting.Permutation.
From Muxide Require Import Model.Base Model.Annexb Model.Adts Model.Codec Model.Boxes Model.F64 Model.Writer Model.Api
  Spec.Bmff Spec.Reader Spec.NalSplit Spec.Layout Spec.Checks
  Proofs.BaseProofs Proofs.TableProofs Proofs.ApiProofs Proofs.SinkProofs Proofs.FinishProofs
  Proofs.LayoutProofs Proofs.TimingProofs.
Open Scope N_scope.
Ltac Zify.zify_post_hook ::= Z.div_mod_to_equations.

Local Arguments N.add : simpl never.
Local Arguments N.sub : simpl never.
Local Arguments N.mul : simpl never.
Local Arguments N.div : simpl never.
Local Arguments N.modulo : simpl never.
Local Arguments N.eqb : simpl never.
Local Arguments N.ltb : simpl never.
Local Arguments N.leb : simpl never.

(** * Part A: generic box forests *)

Definition enc (x : btree) : bytes := build_box (b_typ x) (b_payload x).

Lemma flat_map_enc_cons x l : flat_map enc (x :: l) = enc x ++ flat_map enc l.
Proof. reflexivity. Qed.

(* [wf d x]: the tree [x] (of height at most [d]) is laid out the way the reader
   expects: four-byte types, leaves for non-container types, and for container
   types a payload made of the fixed prefix followed by the children's images *)
Fixpoint wf (d : nat) (x : btree) : Prop :=
  match d with
  | O => False
  | S d' =>
      match x with
      | Box t p kids =>
          length t = 4%nat /\
          match container_prefix t with
          | None => kids = []
          | Some k => exists pre, p = pre ++ flat_map enc kids /\ len pre = k /\ Forall (wf d') kids
          end
      end
  end.

Lemma wf_S d : forall x, wf d x -> wf (S d) x.
Proof.
  induction d as [|d IH]; intros x H; [destruct H|].
  destruct x as [t p kids]. cbn [wf] in H. destruct H as [Ht H].
  change (length t = 4%nat /\
          match container_prefix t with
          | None => kids = []
          | Some k => exists pre, p = pre ++ flat_map enc kids /\ len pre = k /\ Forall (wf (S d)) kids
          end).
  split; [exact Ht|].
  destruct (container_prefix t) as [k|]; [|exact H].
  destruct H as (pre & Hp & Hk & HF). exists pre. repeat split; try assumption.
  eapply Forall_impl; [|exact HF]. exact IH.
Qed.

Lemma wf_le d d' x : (d <= d')%nat -> wf d x -> wf d' x.
Proof. intros Hle. induction Hle as [|m Hm IHm]; [auto|]. intros H. apply wf_S. auto. Qed.

Lemma len_enc x : len (enc x) = 4 + len (b_typ x) + len (b_payload x).
Proof. unfold enc. rewrite len_build_box. lia. Qed.

Lemma parse_boxes_f_enc : forall l f,
  Forall (fun x => length (b_typ x) = 4%nat) l ->
  len (flat_map enc l) < 4294967296 ->
  (length l < f)%nat ->
  parse_boxes_f f (flat_map enc l) = Some (map (fun x => (b_typ x, b_payload x)) l).
Proof.
  induction l as [|x l IH]; intros f HF Hlen Hf.
  - destruct f; [lia|]. reflexivity.
  - destruct f as [|f]; [lia|].
    inversion HF as [|? ? Hx HF']; subst.
    rewrite flat_map_enc_cons in *. rewrite len_app in Hlen.
    destruct x as [t p kids]. cbn [b_typ b_payload] in *.
    destruct t as [|t0 [|t1 [|t2 [|t3 [|? ?]]]]]; try discriminate.
    unfold enc at 1. cbn [b_typ b_payload].
    assert (Hp : 8 + len p < 4294967296).
    { unfold enc in Hlen at 1. cbn [b_typ b_payload] in Hlen. rewrite len_build_box in Hlen.
      change (len [t0; t1; t2; t3]) with 4 in Hlen. lia. }
    cbn [parse_boxes_f].
    destruct (build_box [t0; t1; t2; t3] p ++ flat_map enc l) as [|b0 b'] eqn:E.
    { unfold build_box, be32 in E. cbn [app] in E. discriminate. }
    rewrite <- E. rewrite parse_box_build_box by exact Hp.
    rewrite IH; [reflexivity| exact HF' | lia | cbn [length] in Hf; lia].
Qed.

Lemma length_flat_map_enc l : (length l <= length (flat_map enc l))%nat.
Proof.
  induction l as [|x l IH]; [cbn; lia|].
  rewrite flat_map_enc_cons, app_length.
  assert (4 <= length (enc x))%nat by (unfold enc, build_box; rewrite app_length, be32_length; lia).
  cbn [length]. lia.
Qed.

Lemma parse_boxes_enc l :
  Forall (fun x => length (b_typ x) = 4%nat) l ->
  len (flat_map enc l) < 4294967296 ->
  parse_boxes (flat_map enc l) = Some (map (fun x => (b_typ x, b_payload x)) l).
Proof.
  intros HF Hlen. unfold parse_boxes. apply parse_boxes_f_enc; try assumption.
  pose proof (length_flat_map_enc l). lia.
Qed.

Definition forest_go (d : nat) : list (bytes * bytes) -> option (list btree) :=
  fix go (l : list (bytes * bytes)) : option (list btree) :=
    match l with
    | [] => Some []
    | (t, p) :: r =>
        let kids :=
          match container_prefix t with
          | None => Some []
          | Some k => if len p <? k then None else parse_forest d (drop k p)
          end in
        match kids, go r with
        | Some c, Some rest => Some (Box t p c :: rest)
        | _, _ => None
        end
    end.

Lemma parse_forest_S d b :
  parse_forest (S d) b = match parse_boxes b with None => None | Some l => forest_go d l end.
Proof. reflexivity. Qed.

Lemma forest_go_cons d t p r :
  forest_go d ((t, p) :: r) =
  match match container_prefix t with
        | None => Some []
        | Some k => if len p <? k then None else parse_forest d (drop k p)
        end, forest_go d r with
  | Some c, Some rest => Some (Box t p c :: rest)
  | _, _ => None
  end.
Proof. reflexivity. Qed.

Lemma wf_typ d x : wf d x -> length (b_typ x) = 4%nat.
Proof. destruct d; [intros []|]. destruct x as [t p k]. cbn [wf b_typ]. intros [H _]. exact H. Qed.

Theorem parse_forest_wf : forall d l,
  Forall (wf d) l -> len (flat_map enc l) < 4294967296 ->
  parse_forest (S d) (flat_map enc l) = Some l.
Proof.
  induction d as [|d IH]; intros l HF Hlen.
  - destruct l as [|x l]; [reflexivity|]. inversion HF as [|? ? Hx _]. destruct Hx.
  - rewrite parse_forest_S.
    rewrite parse_boxes_enc; [|eapply Forall_impl; [|exact HF]; intros a Ha; eapply wf_typ; exact Ha|exact Hlen].
    induction l as [|x l IHl]; [reflexivity|].
    inversion HF as [|? ? Hx HF']; subst.
    rewrite flat_map_enc_cons, len_app in Hlen.
    destruct x as [t p kids]. cbn [map b_typ b_payload]. rewrite forest_go_cons.
    rewrite IHl; [|exact HF'|lia].
    cbn [wf] in Hx. destruct Hx as [Ht Hx].
    assert (Hp : 8 + len p < 4294967296).
    { rewrite len_enc in Hlen. cbn [b_payload b_typ] in Hlen. unfold len at 1 in Hlen. rewrite Ht in Hlen. lia. }
    destruct (container_prefix t) as [k|].
    + destruct Hx as (pre & Hpe & Hk & Hkids). subst p k.
      rewrite len_app. replace (len pre + len (flat_map enc kids) <? len pre) with false by lia.
      rewrite drop_app_exact.
      rewrite IH; [reflexivity|exact Hkids|]. rewrite len_app in Hp. lia.
    + subst kids. reflexivity.
Qed.

(** smart constructors *)
Definition leaf (t p : bytes) : btree := Box t p [].
Definition node (t pre : bytes) (kids : list btree) : btree := Box t (pre ++ flat_map enc kids) kids.

Lemma wf_leaf d t p : length t = 4%nat -> container_prefix t = None -> wf (S d) (leaf t p).
Proof. intros Ht Hc. cbn [wf leaf]. rewrite Hc. auto. Qed.

Lemma wf_node d t pre kids :
  length t = 4%nat -> container_prefix t = Some (len pre) -> Forall (wf d) kids -> wf (S d) (node t pre kids).
Proof.
  intros Ht Hc HF. unfold node. cbn [wf]. rewrite Hc. split; [exact Ht|].
  exists pre. auto.
Qed.

Lemma enc_leaf t p : enc (leaf t p) = build_box t p.
Proof. reflexivity. Qed.
Lemma enc_node t pre kids : enc (node t pre kids) = build_box t (pre ++ flat_map enc kids).
Proof. reflexivity. Qed.
(** * Part B: the trees the model's builders emit *)

Definition body (b : bytes) : bytes := drop 8 b.

Lemma body_build_box t p : length t = 4%nat -> body (build_box t p) = p.
Proof.
  intros Ht. unfold body, build_box. rewrite app_assoc.
  set (h := be32 (8 + len p) ++ t).
  replace 8 with (len h).
  - apply drop_app_exact.
  - unfold h. rewrite len_app, len_be32. unfold len. rewrite Ht. reflexivity.
Qed.

Definition leafb (t b : bytes) : btree := leaf t (body b).

Lemma enc_leafb t b : length t = 4%nat -> (exists p, b = build_box t p) -> enc (leafb t b) = b.
Proof. intros Ht [p ->]. unfold leafb. rewrite enc_leaf, body_build_box by exact Ht. reflexivity. Qed.

Lemma wf_leafb d t b : length t = 4%nat -> container_prefix t = None -> wf (S d) (leafb t b).
Proof. apply wf_leaf. Qed.

Definition opt_kid (b : bool) (x : btree) : list btree := if b then [x] else [].

(* leaves *)
Definition ftyp_tree := leafb T_ftyp build_ftyp_box.
Definition mvhd_tree (d n : N) := leaf T_mvhd (build_mvhd_payload d n).
Definition tkhd_tree (id vol w h : N) := leafb T_tkhd (build_tkhd_box_with_id id vol w h).
Definition mdhd_tree (ts d : N) (l : option bytes) := leafb T_mdhd (build_mdhd_box ts d l).
Definition vhdlr_tree := leafb T_hdlr build_hdlr_box.
Definition shdlr_tree := leafb T_hdlr build_sound_hdlr_box.
Definition vmhd_tree := leafb T_vmhd build_vmhd_box.
Definition smhd_tree := leafb T_smhd build_smhd_box.
Definition url_tree := leafb T_url build_url_box.
Definition dref_tree := node T_dref (be32 0 ++ be32 1) [url_tree].
Definition dinf_tree := node T_dinf [] [dref_tree].

(* sample tables: payloads spelled out *)
Definition stts_payload (durations : list N) : bytes :=
  be32 0 ++ be32 (len (rle N.eqb durations)) ++
  concat (map (fun e => be32 (fst e) ++ be32 (snd e)) (rle N.eqb durations)).
Definition ctts_payload (offsets : list Z) : bytes :=
  be32 16777216 ++ be32 (len (rle Z.eqb offsets)) ++
  concat (map (fun e => be32 (fst e) ++ be32 (i32_bits (snd e))) (rle Z.eqb offsets)).
Definition stsc_payload (spc cc : N) : bytes :=
  if (cc =? 0) || (spc =? 0) then be32 0 ++ be32 0
  else be32 0 ++ be32 1 ++ be32 1 ++ be32 spc ++ be32 1.
Definition stsz_payload (sizes : list N) : bytes :=
  be32 0 ++ be32 0 ++ be32 (len sizes) ++ concat (map be32 sizes).
Definition u32tab_payload (l : list N) : bytes := be32 0 ++ be32 (len l) ++ concat (map be32 l).

Definition stts_tree d := leaf T_stts (stts_payload d).
Definition ctts_tree o := leaf T_ctts (ctts_payload o).
Definition stsc_tree spc cc := leaf T_stsc (stsc_payload spc cc).
Definition stsz_tree s := leaf T_stsz (stsz_payload s).
Definition stco_tree o := leaf T_stco (u32tab_payload o).
Definition stss_tree k := leaf T_stss (u32tab_payload k).

Lemma enc_stts d : enc (stts_tree d) = build_stts_box d. Proof. reflexivity. Qed.
Lemma enc_ctts d : enc (ctts_tree d) = build_ctts_box d. Proof. reflexivity. Qed.
Lemma enc_stsc s c : enc (stsc_tree s c) = build_stsc_box s c.
Proof. unfold stsc_tree, build_stsc_box, stsc_payload. rewrite enc_leaf. destruct ((c =? 0) || (s =? 0)); reflexivity. Qed.
Lemma enc_stsz d : enc (stsz_tree d) = build_stsz_box d. Proof. reflexivity. Qed.
Lemma enc_stco d : enc (stco_tree d) = build_stco_box d. Proof. reflexivity. Qed.
Lemma enc_stss d : enc (stss_tree d) = build_stss_box d. Proof. reflexivity. Qed.

(* sample entries *)
Definition ventry_tree (v : video_track) (c : video_config) : btree :=
  match c with
  | CfgAvc a => node T_avc1 (visual_entry_prefix v) [leafb T_avcC (build_avcc_box a)]
  | CfgHevc h => node T_hvc1 (visual_entry_prefix v) [leafb T_hvcC (build_hvcc_box h)]
  | CfgAv1 a => node T_av01 (visual_entry_prefix v) [leafb T_av1C (build_av1c_box a)]
  | CfgVp9 p => node T_vp09 (visual_entry_prefix v) [leafb T_vpcC (build_vpcc_box p)]
  end.
Definition vstsd_tree v c := node T_stsd (be32 0 ++ be32 1) [ventry_tree v c].

Definition aentry_tree (a : audio_track) : btree :=
  match at_codec a with
  | Opus => node T_Opus (audio_entry_prefix (at_channels a) OPUS_SAMPLE_RATE) [leafb T_dOps (build_dops_box a)]
  | _ => node T_mp4a (audio_entry_prefix (at_channels a) (at_sample_rate a)) [leafb T_esds (build_esds_box a)]
  end.
Definition astsd_tree a := node T_stsd (be32 0 ++ be32 1) [aentry_tree a].

Definition has_kf (t : sample_tables) : bool := match st_keyframes t with [] => false | _ => true end.

Definition table_kids1 (t : sample_tables) : list btree :=
  [stsc_tree (st_samples_per_chunk t) (u32 (len (st_chunk_offsets t)));
   stsz_tree (st_sizes t); stco_tree (st_chunk_offsets t)].

Definition vstbl_kids v t c : list btree :=
  [vstsd_tree v c; stts_tree (st_durations t)] ++
  opt_kid (st_has_bframes t) (ctts_tree (st_cts_offsets t)) ++
  table_kids1 t ++ opt_kid (has_kf t) (stss_tree (st_keyframes t)).
Definition vstbl_tree v t c := node T_stbl [] (vstbl_kids v t c).
Definition vminf_tree v t c := node T_minf [] [vmhd_tree; dinf_tree; vstbl_tree v t c].
Definition vmdia_tree v t c m :=
  node T_mdia [] [mdhd_tree MEDIA_TIMESCALE (total_duration t) (md_lang m); vhdlr_tree; vminf_tree v t c].
Definition vtrak_tree v t c m :=
  node T_trak [] [tkhd_tree 1 0 (vt_width v) (vt_height v); vmdia_tree v t c m].

Definition astbl_kids a t : list btree :=
  [astsd_tree a; stts_tree (st_durations t)] ++ table_kids1 t.
Definition astbl_tree a t := node T_stbl [] (astbl_kids a t).
Definition aminf_tree a t := node T_minf [] [smhd_tree; dinf_tree; astbl_tree a t].
Definition amdia_tree a t m :=
  node T_mdia [] [mdhd_tree MEDIA_TIMESCALE (total_duration t) (md_lang m); shdlr_tree; aminf_tree a t].
Definition atrak_tree a t m := node T_trak [] [tkhd_tree 2 256 0 0; amdia_tree a t m].

(* metadata *)
Definition item_tree (atom value : bytes) : btree :=
  node atom [] [leaf T_data ([0;0;0;1] ++ [0;0;0;0] ++ value)].
Definition ilst_kids (m : metadata) : list btree :=
  (match md_title m with Some t => [item_tree T_cnam t] | None => [] end) ++
  (match md_creation_time m with Some t => [item_tree T_cday (format_unix_timestamp t)] | None => [] end).
Definition udta_kids (m : metadata) : list btree :=
  match ilst_kids m with
  | [] => []
  | ik => [node T_udta [] [node T_meta (zeros 4) [leafb T_hdlr build_meta_hdlr_box; node T_ilst [] ik]]]
  end.

Definition moov_kids v vt (audio : option (audio_track * sample_tables)) c (m : option metadata) : list btree :=
  [mvhd_tree (u32 (total_duration vt * MOVIE_TIMESCALE / MEDIA_TIMESCALE))
             (match audio with Some _ => 3 | None => 2 end);
   vtrak_tree v vt c m] ++
  (match audio with Some (a, t) => [atrak_tree a t m] | None => [] end) ++
  (match m with Some md => udta_kids md | None => [] end).
Definition moov_tree v vt audio c m := node T_moov [] (moov_kids v vt audio c m).

(** ** the trees' images are the builders' outputs *)
Ltac isbox := eexists; reflexivity.

Lemma enc_dinf : enc dinf_tree = build_dinf_box.
Proof.
  unfold dinf_tree, dref_tree, url_tree. rewrite !enc_node. cbn [flat_map]. rewrite enc_node.
  cbn [flat_map]. rewrite enc_leafb by (try reflexivity; isbox).
  rewrite !app_nil_r. reflexivity.
Qed.

Lemma avcc_isbox a : exists p, build_avcc_box a = build_box T_avcC p.
Proof.
  unfold build_avcc_box.
  destruct (match avc_sps a with _ :: a0 :: b :: d :: _ => (a0, b, d) | _ => (66, 0, 30) end) as [[pi pc] li].
  isbox.
Qed.

Lemma enc_ventry v c :
  enc (ventry_tree v c) = match c with
               | CfgAvc a => build_avc1_box v a
               | CfgHevc h => build_hvc1_box v h
               | CfgAv1 a => build_av01_box v a
               | CfgVp9 p => build_vp09_box v p
               end.
Proof.
  destruct c as [a|h|a|p]; unfold ventry_tree; rewrite enc_node; cbn [flat_map]; rewrite app_nil_r.
  - rewrite enc_leafb; [reflexivity|reflexivity|]. destruct (avcc_isbox a) as [p Hp]. eauto.
  - rewrite enc_leafb; [reflexivity|reflexivity|isbox].
  - rewrite enc_leafb; [reflexivity|reflexivity|isbox].
  - rewrite enc_leafb; [reflexivity|reflexivity|isbox].
Qed.

Lemma enc_vstsd v c : enc (vstsd_tree v c) = build_stsd_box v c.
Proof.
  unfold vstsd_tree. rewrite enc_node. cbn [flat_map]. rewrite app_nil_r, enc_ventry.
  unfold build_stsd_box. rewrite <- !app_assoc. reflexivity.
Qed.

Lemma enc_aentry a :
  enc (aentry_tree a) = match at_codec a with Opus => build_opus_box a | _ => build_mp4a_box a end.
Proof.
  unfold aentry_tree. destruct (at_codec a); rewrite enc_node; cbn [flat_map]; rewrite app_nil_r;
    (rewrite enc_leafb; [reflexivity|reflexivity|isbox]).
Qed.

Lemma enc_astsd a : enc (astsd_tree a) = build_audio_stsd_box a.
Proof.
  unfold astsd_tree. rewrite enc_node. cbn [flat_map]. rewrite app_nil_r, enc_aentry.
  unfold build_audio_stsd_box. rewrite <- !app_assoc. reflexivity.
Qed.

Lemma flat_map_opt_kid b x : flat_map enc (opt_kid b x) = if b then enc x else [].
Proof. destruct b; cbn [opt_kid flat_map]; [apply app_nil_r|reflexivity]. Qed.

Lemma flat_map_table_kids1 t :
  flat_map enc (table_kids1 t) =
  build_stsc_box (st_samples_per_chunk t) (u32 (len (st_chunk_offsets t))) ++
  build_stsz_box (st_sizes t) ++ build_stco_box (st_chunk_offsets t).
Proof.
  unfold table_kids1. cbn [flat_map]. rewrite enc_stsc, enc_stsz, enc_stco, app_nil_r. reflexivity.
Qed.

Lemma enc_vstbl v t c : enc (vstbl_tree v t c) = build_stbl_box v t c.
Proof.
  unfold vstbl_tree, vstbl_kids. rewrite enc_node. cbn [app].
  rewrite !flat_map_enc_cons, !flat_map_app, !flat_map_opt_kid, flat_map_table_kids1.
  rewrite enc_vstsd, enc_stts, enc_ctts, enc_stss.
  unfold build_stbl_box, has_kf. rewrite <- !app_assoc.
  destruct (st_keyframes t); reflexivity.
Qed.

Lemma enc_vminf v t c : enc (vminf_tree v t c) = build_minf_box v t c.
Proof.
  unfold vminf_tree. rewrite enc_node. cbn [flat_map app]. rewrite enc_dinf, enc_vstbl, app_nil_r.
  unfold vmhd_tree. rewrite enc_leafb by (try reflexivity; isbox). reflexivity.
Qed.

Lemma enc_vmdia v t c m : enc (vmdia_tree v t c m) = build_mdia_box v t c m.
Proof.
  unfold vmdia_tree. rewrite enc_node. cbn [flat_map app]. rewrite enc_vminf, app_nil_r.
  unfold mdhd_tree, vhdlr_tree. rewrite !enc_leafb by (try reflexivity; isbox). reflexivity.
Qed.

Lemma enc_vtrak v t c m : enc (vtrak_tree v t c m) = build_trak_box v t c m.
Proof.
  unfold vtrak_tree. rewrite enc_node. cbn [flat_map app]. rewrite enc_vmdia, app_nil_r.
  unfold tkhd_tree. rewrite !enc_leafb by (try reflexivity; isbox). reflexivity.
Qed.

Lemma enc_astbl a t : enc (astbl_tree a t) = build_audio_stbl_box a t.
Proof.
  unfold astbl_tree, astbl_kids. rewrite enc_node. cbn [app].
  rewrite !flat_map_enc_cons, flat_map_table_kids1, enc_astsd, enc_stts. reflexivity.
Qed.

Lemma enc_aminf a t : enc (aminf_tree a t) = build_audio_minf_box a t.
Proof.
  unfold aminf_tree. rewrite enc_node. cbn [flat_map app]. rewrite enc_dinf, enc_astbl, app_nil_r.
  unfold smhd_tree. rewrite enc_leafb by (try reflexivity; isbox). reflexivity.
Qed.

Lemma enc_amdia a t m : enc (amdia_tree a t m) = build_audio_mdia_box a t m.
Proof.
  unfold amdia_tree. rewrite enc_node. cbn [flat_map app]. rewrite enc_aminf, app_nil_r.
  unfold mdhd_tree, shdlr_tree. rewrite !enc_leafb by (try reflexivity; isbox). reflexivity.
Qed.

Lemma enc_atrak a t m : enc (atrak_tree a t m) = build_audio_trak_box a t m.
Proof.
  unfold atrak_tree. rewrite enc_node. cbn [flat_map app]. rewrite enc_amdia, app_nil_r.
  unfold tkhd_tree. rewrite !enc_leafb by (try reflexivity; isbox). reflexivity.
Qed.

Lemma enc_item atom value : enc (item_tree atom value) = build_ilst_string_item atom value.
Proof. unfold item_tree. rewrite enc_node. cbn [flat_map app]. rewrite app_nil_r. reflexivity. Qed.

Lemma flat_map_ilst_kids m :
  flat_map enc (ilst_kids m) =
  (match md_title m with Some t => build_ilst_string_item T_cnam t | None => [] end) ++
  (match md_creation_time m with
   | Some t => build_ilst_string_item T_cday (format_unix_timestamp t) | None => [] end).
Proof.
  unfold ilst_kids. rewrite flat_map_app.
  destruct (md_title m), (md_creation_time m); cbn [flat_map]; rewrite ?enc_item, ?app_nil_r; reflexivity.
Qed.

Lemma build_box_nonnil t p : build_box t p <> [].
Proof. unfold build_box, be32. cbn [app]. discriminate. Qed.

Lemma flat_map_enc_nil l : flat_map enc l = [] -> l = [].
Proof.
  destruct l as [|x l]; [reflexivity|]. rewrite flat_map_enc_cons. unfold enc at 1.
  intros H. apply app_eq_nil in H. destruct H as [H _]. apply build_box_nonnil in H. destruct H.
Qed.

Lemma flat_map_udta_kids m : flat_map enc (udta_kids m) = build_udta_box m.
Proof.
  unfold udta_kids, build_udta_box. rewrite <- flat_map_ilst_kids.
  destruct (ilst_kids m) as [|x l] eqn:E; [reflexivity|].
  destruct (flat_map enc (x :: l)) as [|b0 b'] eqn:F.
  { apply flat_map_enc_nil in F. discriminate. }
  rewrite <- F. cbn [flat_map]. rewrite !enc_node. cbn [flat_map]. rewrite !enc_node.
  cbn [flat_map]. rewrite !enc_node.
  rewrite enc_leafb by (try reflexivity; isbox).
  rewrite !app_nil_r. cbn [app]. reflexivity.
Qed.

Theorem enc_moov v vt audio c m : enc (moov_tree v vt audio c m) = build_moov_box v vt audio c m.
Proof.
  unfold moov_tree, moov_kids. rewrite enc_node. cbn [app].
  rewrite !flat_map_enc_cons, flat_map_app, enc_vtrak.
  unfold build_moov_box. cbv zeta. f_equal. f_equal. f_equal.
  destruct audio as [[a t]|], m as [md|]; cbn [flat_map]; rewrite ?enc_atrak, ?flat_map_udta_kids, ?app_nil_r; reflexivity.
Qed.

(** ** the trees are well formed *)
Ltac wfl := first [ apply wf_leafb; reflexivity | apply wf_leaf; reflexivity ].
Ltac kids := repeat (first [apply Forall_nil | apply Forall_cons]).
Ltac wf_up L := eapply wf_le; [|apply L]; lia.

Lemma wf_dinf : wf 3 dinf_tree.
Proof.
  apply wf_node; try reflexivity. kids.
  apply wf_node; try reflexivity. kids. wfl.
Qed.

Lemma wf_ventry v c : wf 2 (ventry_tree v c).
Proof.
  destruct c; apply wf_node; try reflexivity; kids; wfl.
Qed.

Lemma wf_aentry a : wf 2 (aentry_tree a).
Proof.
  unfold aentry_tree. destruct (at_codec a); apply wf_node; try reflexivity; kids; wfl.
Qed.

Lemma wf_opt_kid d b x : wf d x -> Forall (wf d) (opt_kid b x).
Proof. intros H. destruct b; cbn [opt_kid]; kids. exact H. Qed.

Lemma wf_table_kids1 t : Forall (wf 1) (table_kids1 t).
Proof. kids; wfl. Qed.

Lemma wf_vstbl v t c : wf 4 (vstbl_tree v t c).
Proof.
  apply wf_node; try reflexivity. unfold vstbl_kids.
  repeat (apply Forall_app; split).
  - kids.
    + apply wf_node; try reflexivity. kids. apply wf_ventry.
    + wfl.
  - apply wf_opt_kid. wfl.
  - eapply Forall_impl; [|apply wf_table_kids1]. intros x Hx. eapply wf_le; [|exact Hx]. lia.
  - apply wf_opt_kid. wfl.
Qed.

Lemma wf_astbl a t : wf 4 (astbl_tree a t).
Proof.
  apply wf_node; try reflexivity. unfold astbl_kids.
  repeat (apply Forall_app; split).
  - kids.
    + apply wf_node; try reflexivity. kids. apply wf_aentry.
    + wfl.
  - eapply Forall_impl; [|apply wf_table_kids1]. intros x Hx. eapply wf_le; [|exact Hx]. lia.
Qed.

Lemma wf_vtrak v t c m : wf 7 (vtrak_tree v t c m).
Proof.
  apply wf_node; try reflexivity. kids; [wfl|].
  apply wf_node; try reflexivity. kids; [wfl|wfl|].
  apply wf_node; try reflexivity. kids; [wfl|wf_up wf_dinf|apply wf_vstbl].
Qed.

Lemma wf_atrak a t m : wf 7 (atrak_tree a t m).
Proof.
  apply wf_node; try reflexivity. kids; [wfl|].
  apply wf_node; try reflexivity. kids; [wfl|wfl|].
  apply wf_node; try reflexivity. kids; [wfl|wf_up wf_dinf|apply wf_astbl].
Qed.

Lemma wf_ilst_kids m : Forall (wf 2) (ilst_kids m).
Proof.
  unfold ilst_kids. apply Forall_app; split.
  - destruct (md_title m); kids. apply wf_node; try reflexivity. kids. wfl.
  - destruct (md_creation_time m); kids. apply wf_node; try reflexivity. kids. wfl.
Qed.

Lemma wf_udta_kids m : Forall (wf 5) (udta_kids m).
Proof.
  unfold udta_kids. pose proof (wf_ilst_kids m) as H.
  destruct (ilst_kids m) as [|x l]; [constructor|].
  kids. apply wf_node; try reflexivity. kids.
  apply wf_node; try reflexivity. kids; [wfl|].
  apply wf_node; try reflexivity. exact H.
Qed.

Theorem wf_moov v vt audio c m : wf 8 (moov_tree v vt audio c m).
Proof.
  apply wf_node; try reflexivity. unfold moov_kids.
  repeat (apply Forall_app; split).
  - kids; [wfl|apply wf_vtrak].
  - destruct audio as [[a t]|]; kids. apply wf_atrak.
  - destruct m as [md|]; [|constructor].
    eapply Forall_impl; [|apply wf_udta_kids]. intros x Hx. eapply wf_le; [|exact Hx]. lia.
Qed.

(** * T1 *)
Theorem moov_parses_to_tree : forall v vt audio c m,
  len (build_moov_box v vt audio c m) < 4294967296 ->
  parse_forest 11 (build_moov_box v vt audio c m) = Some [moov_tree v vt audio c m].
Proof.
  intros v vt audio c m H.
  rewrite <- enc_moov in *.
  replace (enc (moov_tree v vt audio c m)) with (flat_map enc [moov_tree v vt audio c m]) in *
    by (cbn [flat_map]; apply app_nil_r).
  apply (parse_forest_wf 10); [|exact H].
  kids. eapply wf_le; [|apply wf_moov]. lia.
Qed.

Theorem moov_parses : forall v vt audio c m,
  len (build_moov_box v vt audio c m) < 4294967296 ->
  exists kids p, parse_forest 11 (build_moov_box v vt audio c m) = Some [Box T_moov p kids].
Proof.
  intros v vt audio c m H. eexists. eexists.
  rewrite (moov_parses_to_tree v vt audio c m H). reflexivity.
Qed.
Print Assumptions moov_parses.

(** * Part D: sample-table round trips *)

Lemma be32_mod x : be32 x = be32 (x mod 4294967296).
Proof. unfold be32. f_equal; [|f_equal; [|f_equal; [|f_equal]]]; lia. Qed.

Lemma rd32_be32_u32 x r : rd32 (be32 x ++ r) = Some (u32 x, r).
Proof. rewrite be32_mod. unfold u32. apply rd32_be32. lia. Qed.

Lemma u32_small x : x < 4294967296 -> u32 x = x.
Proof. intros H. unfold u32. apply N.mod_small. exact H. Qed.

Definition enc_row (row : list N) : bytes := concat (map be32 row).
Definition enc_rows (rows : list (list N)) : bytes := concat (map enc_row rows).

Lemma rd32s_enc_row : forall row r, rd32s (length row) (enc_row row ++ r) = Some (map u32 row, r).
Proof.
  induction row as [|x row IH]; intros r; [reflexivity|].
  unfold enc_row in *. cbn [map concat length rd32s]. rewrite <- app_assoc, rd32_be32_u32, IH. reflexivity.
Qed.

Lemma len_enc_row row : len (enc_row row) = 4 * len row.
Proof.
  induction row as [|x row IH]; [reflexivity|].
  unfold enc_row in *. cbn [map concat]. rewrite len_app, len_be32, IH, len_cons. lia.
Qed.

Lemma len_enc_rows w rows : Forall (fun row => len row = w) rows -> len (enc_rows rows) = len rows * w * 4.
Proof.
  induction 1 as [|row rows Hr _ IH]; [reflexivity|].
  unfold enc_rows in *. cbn [map concat]. rewrite len_app, len_enc_row, IH, len_cons, Hr. lia.
Qed.

Definition rd_rows (width : N) : nat -> bytes -> option (list (list N)) :=
  fix go (k : nat) (r : bytes) : option (list (list N)) :=
    match k with
    | O => match r with [] => Some [] | _ => None end
    | S k' => match rd32s (N.to_nat width) r with
              | Some (row, r') => match go k' r' with
                                  | Some rows => Some (row :: rows)
                                  | None => None
                                  end
              | None => None
              end
    end.

Lemma rd_table_unfold width b :
  rd_table width b =
  match rd32 b with
  | Some (cnt, r) => if negb (len r =? cnt * width * 4) then None else rd_rows width (N.to_nat cnt) r
  | None => None
  end.
Proof. reflexivity. Qed.

Lemma rd_rows_enc w : forall rows,
  Forall (fun row => len row = w) rows ->
  rd_rows w (length rows) (enc_rows rows) = Some (map (map u32) rows).
Proof.
  induction 1 as [|row rows Hr _ IH]; [reflexivity|].
  unfold enc_rows in *. cbn [map concat length rd_rows].
  replace (N.to_nat w) with (length row) by (unfold len in Hr; lia).
  rewrite rd32s_enc_row. fold (rd_rows w). rewrite IH. reflexivity.
Qed.

Lemma rd_table_enc w rows :
  Forall (fun row => len row = w) rows -> len rows < 4294967296 ->
  rd_table w (be32 (len rows) ++ enc_rows rows) = Some (map (map u32) rows).
Proof.
  intros HF Hl. rewrite rd_table_unfold, rd32_be32 by exact Hl.
  rewrite (len_enc_rows w rows HF). rewrite N.eqb_refl. cbn [negb].
  unfold len at 1. rewrite Nat2N.id. apply rd_rows_enc. exact HF.
Qed.

(* u32 columns *)
Lemma enc_rows_single l : enc_rows (map (fun x => [x]) l) = concat (map be32 l).
Proof.
  induction l as [|x l IH]; [reflexivity|].
  unfold enc_rows, enc_row in *. cbn [map concat]. rewrite IH, app_nil_r. reflexivity.
Qed.

Lemma len_map {A B} (f : A -> B) l : len (map f l) = len l.
Proof. unfold len. rewrite map_length. reflexivity. Qed.

Lemma rd_table_single l :
  len l < 4294967296 ->
  rd_table 1 (be32 (len l) ++ concat (map be32 l)) = Some (map (fun x => [u32 x]) l).
Proof.
  intros Hl. rewrite <- enc_rows_single, <- (len_map (fun x => [x]) l).
  rewrite rd_table_enc.
  - rewrite map_map. reflexivity.
  - apply Forall_forall. intros row Hrow. apply in_map_iff in Hrow. destruct Hrow as [x [<- _]]. reflexivity.
  - rewrite len_map. exact Hl.
Qed.

Theorem decode_stsz_payload sizes :
  len sizes < 4294967296 -> decode_stsz (stsz_payload sizes) = Some (map u32 sizes).
Proof.
  intros Hl. unfold decode_stsz, stsz_payload, full_box.
  rewrite rd32_be32 by lia. rewrite rd32_be32 by lia.
  rewrite N.eqb_refl. rewrite rd_table_single by exact Hl. cbn [opt_map]. rewrite map_map. reflexivity.
Qed.

Theorem decode_u32tab_payload l :
  len l < 4294967296 -> decode_u32_table (u32tab_payload l) = Some (map u32 l).
Proof.
  intros Hl. unfold decode_u32_table, u32tab_payload, full_box.
  rewrite rd32_be32 by lia. rewrite rd_table_single by exact Hl. rewrite map_map. reflexivity.
Qed.

(* run tables *)
Lemma enc_rows_pairs {A} (g : A -> N) (l : list (N * A)) :
  enc_rows (map (fun e => [fst e; g (snd e)]) l) = concat (map (fun e => be32 (fst e) ++ be32 (g (snd e))) l).
Proof.
  induction l as [|x l IH]; [reflexivity|].
  unfold enc_rows, enc_row in *. cbn [map concat]. rewrite IH, app_nil_r. reflexivity.
Qed.

Lemma rd_table_pairs {A} (g : A -> N) (l : list (N * A)) :
  len l < 4294967296 ->
  rd_table 2 (be32 (len l) ++ concat (map (fun e => be32 (fst e) ++ be32 (g (snd e))) l)) =
  Some (map (fun e => [u32 (fst e); u32 (g (snd e))]) l).
Proof.
  intros Hl. rewrite <- enc_rows_pairs, <- (len_map (fun e => [fst e; g (snd e)]) l).
  rewrite rd_table_enc.
  - rewrite map_map. reflexivity.
  - apply Forall_forall. intros row Hrow. apply in_map_iff in Hrow. destruct Hrow as [x [<- _]]. reflexivity.
  - rewrite len_map. exact Hl.
Qed.

Lemma pair_rows_pairs {A} (f g : A -> N) (l : list A) :
  pair_rows (map (fun e => [f e; g e]) l) = Some (map (fun e => (f e, g e)) l).
Proof.
  induction l as [|x l IH]; [reflexivity|].
  unfold pair_rows in *. cbn [map fold_right]. rewrite IH. reflexivity.
Qed.

Lemma length_rle {A} (eqb : A -> A -> bool) l : (length (rle eqb l) <= length l)%nat.
Proof.
  induction l as [|x t IH]; [cbn; lia|].
  cbn [rle]. destruct (rle eqb t) as [|[c y] r]; [cbn; lia|].
  destruct (eqb x y); cbn [length] in *; lia.
Qed.

Lemma sumN_ge_in l x : In x l -> x <= sumN l.
Proof.
  induction l as [|y l IH]; [intros []|].
  cbn [sumN]. intros [->|H]; [lia|]. specialize (IH H). lia.
Qed.

Lemma rle_counts_le {A} (eqb : A -> A -> bool) l e : In e (rle eqb l) -> fst e <= len l.
Proof.
  intros H. rewrite <- (total_runs_rle eqb l). apply sumN_ge_in. apply in_map. exact H.
Qed.

Lemma expand_runs_map_small {A B} (g : A -> B) (l : list (N * A)) :
  Forall (fun e => fst e < 4294967296) l ->
  expand_runs (map (fun e => (u32 (fst e), g (snd e))) l) = map g (expand_runs l).
Proof.
  induction 1 as [|[c x] l Hc _ IH]; [reflexivity|].
  cbn [map expand_runs fst snd] in *. rewrite IH, map_app, u32_small by exact Hc.
  f_equal. clear. induction (N.to_nat c) as [|n IHn]; [reflexivity|]. cbn [repeat map]. f_equal. exact IHn.
Qed.

Lemma total_runs_map_small {A} (g : A -> N) (l : list (N * A)) :
  Forall (fun e => fst e < 4294967296) l ->
  total_runs (map (fun e => (u32 (fst e), g (snd e))) l) = sumN (map fst l).
Proof.
  unfold total_runs.
  induction 1 as [|[c x] l Hc _ IH]; [reflexivity|].
  cbn [map sumN fst snd] in *. rewrite IH, u32_small by exact Hc. reflexivity.
Qed.

Lemma rle_counts_small {A} (eqb : A -> A -> bool) l :
  len l < 4294967296 -> Forall (fun e => fst e < 4294967296) (rle eqb l).
Proof.
  intros Hl. apply Forall_forall. intros e He. pose proof (rle_counts_le eqb l e He). lia.
Qed.

Lemma len_rle_small {A} (eqb : A -> A -> bool) (l : list A) :
  len l < 4294967296 -> len (rle eqb l) < 4294967296.
Proof. intros H. pose proof (length_rle eqb l). unfold len in *. lia. Qed.

Lemma Neqb_eq x y : N.eqb x y = true -> x = y.
Proof. apply N.eqb_eq. Qed.
Lemma Zeqb_eq x y : Z.eqb x y = true -> x = y.
Proof. apply Z.eqb_eq. Qed.

Theorem decode_stts_payload d cap :
  len d < 4294967296 -> len d <= cap ->
  decode_stts (stts_payload d) cap = Some (map u32 d).
Proof.
  intros Hl Hcap. unfold decode_stts, stts_payload, full_box.
  rewrite rd32_be32 by lia.
  rewrite (rd_table_pairs (fun x => x)) by (apply len_rle_small; exact Hl).
  rewrite (pair_rows_pairs (fun e => u32 (fst e)) (fun e => u32 (snd e))).
  pose proof (rle_counts_small N.eqb d Hl) as Hs.
  rewrite (total_runs_map_small u32 _ Hs), total_runs_rle.
  replace (cap <? len d) with false by lia.
  rewrite (expand_runs_map_small u32 _ Hs), (expand_runs_rle N.eqb Neqb_eq). reflexivity.
Qed.

Definition ctts_view (z : Z) : Z := i32_of_bits (u32 (i32_bits z)).

Theorem decode_ctts_payload o cap :
  len o < 4294967296 -> len o <= cap ->
  decode_ctts (ctts_payload o) cap = Some (map ctts_view o).
Proof.
  intros Hl Hcap. unfold decode_ctts, ctts_payload, full_box.
  rewrite rd32_be32 by lia.
  replace (negb ((16777216 =? 0) || (16777216 =? 16777216))) with false by reflexivity.
  rewrite (rd_table_pairs i32_bits) by (apply len_rle_small; exact Hl).
  rewrite (pair_rows_pairs (fun e => u32 (fst e)) (fun e => u32 (i32_bits (snd e)))).
  pose proof (rle_counts_small Z.eqb o Hl) as Hs.
  rewrite (total_runs_map_small (fun z => u32 (i32_bits z)) _ Hs), total_runs_rle.
  replace (cap <? len o) with false by lia.
  replace (16777216 =? 0) with false by reflexivity.
  rewrite map_map. cbn [fst snd].
  rewrite (expand_runs_map_small (fun z => i32_of_bits (u32 (i32_bits z))) _ Hs), (expand_runs_rle Z.eqb Zeqb_eq). reflexivity.
Qed.

Definition stsc_view (spc cc : N) : list (N * N * N) :=
  if (cc =? 0) || (spc =? 0) then [] else [(1, u32 spc, 1)].

Theorem decode_stsc_payload spc cc : decode_stsc (stsc_payload spc cc) = Some (stsc_view spc cc).
Proof.
  unfold decode_stsc, stsc_payload, stsc_view, full_box.
  destruct ((cc =? 0) || (spc =? 0)).
  - reflexivity.
  - rewrite rd32_be32 by lia.
    pose proof (rd_table_enc 3 [[1; spc; 1]]) as H.
    unfold enc_rows, enc_row in H. cbn [map concat] in H. rewrite !app_nil_r in H.
    rewrite <- ?app_assoc in H. change (len [[1; spc; 1]]) with 1 in H.
    rewrite H; [reflexivity| repeat constructor | lia].
Qed.

(** * Part E: reading a track back *)

Lemma find_box_hit x b r : typ_eqb (b_typ b) x = true -> find_box x (b :: r) = Some b.
Proof. intros H. unfold find_box. cbn [find]. rewrite H. reflexivity. Qed.
Lemma find_box_miss x b r : typ_eqb (b_typ b) x = false -> find_box x (b :: r) = find_box x r.
Proof. intros H. unfold find_box. cbn [find]. rewrite H. reflexivity. Qed.
Lemma find_box_nil x : find_box x [] = None.
Proof. reflexivity. Qed.

Ltac fb := repeat first [ rewrite find_box_hit by reflexivity
                        | rewrite find_box_miss by reflexivity
                        | rewrite find_box_nil ].

Definition stsc_of (t : sample_tables) := stsc_view (st_samples_per_chunk t) (u32 (len (st_chunk_offsets t))).

Definition track_of_tables (hd : bytes) (entry : btree) (mdhd tkhd : bytes) (t : sample_tables)
           (with_ctts with_stss : bool) : track :=
  {| tr_handler := hd; tr_entry_type := b_typ entry; tr_entry := entry;
     tr_durations := map u32 (st_durations t);
     tr_cts := if with_ctts then Some (map ctts_view (st_cts_offsets t)) else None;
     tr_sizes := map u32 (st_sizes t);
     tr_ranges := resolve_chunks (stsc_of t) (map u32 (st_chunk_offsets t)) 1 (map u32 (st_sizes t));
     tr_sync := if with_stss then Some (map u32 (st_keyframes t)) else None;
     tr_mdhd := mdhd; tr_tkhd := tkhd;
     tr_chunk_offsets := map u32 (st_chunk_offsets t); tr_stsc := stsc_of t |}.

Definition TabLens (t : sample_tables) : Prop :=
  len (st_sizes t) < 4294967296 /\ len (st_durations t) = len (st_sizes t) /\
  len (st_cts_offsets t) = len (st_sizes t) /\ len (st_chunk_offsets t) < 4294967296 /\
  len (st_keyframes t) < 4294967296.

Definition vtrack v t c m : track :=
  track_of_tables (firstn 4 (skipn 8 (body build_hdlr_box))) (ventry_tree v c)
    (body (build_mdhd_box MEDIA_TIMESCALE (total_duration t) (md_lang m)))
    (body (build_tkhd_box_with_id 1 0 (vt_width v) (vt_height v))) t (st_has_bframes t) (has_kf t).

Definition atrack a t m : track :=
  track_of_tables (firstn 4 (skipn 8 (body build_sound_hdlr_box))) (aentry_tree a)
    (body (build_mdhd_box MEDIA_TIMESCALE (total_duration t) (md_lang m)))
    (body (build_tkhd_box_with_id 2 256 0 0)) t false false.

Lemma read_vtrak v t c m : TabLens t -> read_track (vtrak_tree v t c m) = Some (vtrack v t c m).
Proof.
  intros (Hn & Hd & Hc & Ho & Hk).
  unfold read_track, vtrak_tree. cbn [b_children node]. fb. cbn [opt_bind].
  unfold vmdia_tree at 1 2 3. cbn [b_children node]. fb. cbn [opt_bind].
  unfold vminf_tree at 1. cbn [b_children node]. fb. cbn [opt_bind].
  unfold vstbl_tree. cbn [b_children node].
  unfold vstbl_kids, table_kids1, vtrack, track_of_tables, has_kf.
  assert (Hsz := decode_stsz_payload (st_sizes t) Hn).
  assert (Hst := decode_stts_payload (st_durations t) (len (map u32 (st_sizes t)))).
  rewrite len_map in Hst. specialize (Hst ltac:(lia) ltac:(lia)).
  assert (Hct := decode_ctts_payload (st_cts_offsets t) (len (map u32 (st_sizes t)))).
  rewrite len_map in Hct. specialize (Hct ltac:(lia) ltac:(lia)).
  assert (Hco := decode_u32tab_payload (st_chunk_offsets t) Ho).
  assert (Hss := decode_u32tab_payload (st_keyframes t) Hk).
  assert (Hsc := decode_stsc_payload (st_samples_per_chunk t) (u32 (len (st_chunk_offsets t)))).
  destruct (st_has_bframes t); destruct (st_keyframes t) as [|k0 kt] eqn:EK;
    cbn [opt_kid app]; fb; cbn [opt_bind b_children b_payload vstsd_tree node stsz_tree stts_tree stsc_tree
                                 stco_tree ctts_tree stss_tree leaf];
    rewrite ?len_map, ?Hsz; cbn [opt_bind]; rewrite ?len_map, ?Hst; cbn [opt_bind];
    rewrite ?Hsc; cbn [opt_bind]; rewrite ?Hco; cbn [opt_bind]; rewrite ?Hct, ?Hss; cbn [opt_bind];
    reflexivity.
Qed.

Lemma read_atrak a t m : TabLens t -> read_track (atrak_tree a t m) = Some (atrack a t m).
Proof.
  intros (Hn & Hd & Hc & Ho & Hk).
  unfold read_track, atrak_tree. cbn [b_children node]. fb. cbn [opt_bind].
  unfold amdia_tree at 1 2 3. cbn [b_children node]. fb. cbn [opt_bind].
  unfold aminf_tree at 1. cbn [b_children node]. fb. cbn [opt_bind].
  unfold astbl_tree. cbn [b_children node].
  unfold astbl_kids, table_kids1, atrack, track_of_tables.
  assert (Hsz := decode_stsz_payload (st_sizes t) Hn).
  assert (Hst := decode_stts_payload (st_durations t) (len (map u32 (st_sizes t)))).
  rewrite len_map in Hst. specialize (Hst ltac:(lia) ltac:(lia)).
  assert (Hco := decode_u32tab_payload (st_chunk_offsets t) Ho).
  assert (Hsc := decode_stsc_payload (st_samples_per_chunk t) (u32 (len (st_chunk_offsets t)))).
  cbn [app]; fb; cbn [opt_bind b_children b_payload astsd_tree node stsz_tree stts_tree stsc_tree
                                 stco_tree leaf];
    rewrite ?len_map, ?Hsz; cbn [opt_bind]; rewrite ?len_map, ?Hst; cbn [opt_bind];
    rewrite ?Hsc; cbn [opt_bind]; rewrite ?Hco; cbn [opt_bind];
    reflexivity.
Qed.

(** ** mandatory boxes *)
Lemma has_hit x b r : typ_eqb (b_typ b) x = true -> has x (b :: r) = true.
Proof. intros H. unfold has. rewrite find_box_hit by exact H. reflexivity. Qed.
Lemma has_miss x b r : typ_eqb (b_typ b) x = false -> has x (b :: r) = has x r.
Proof. intros H. unfold has. rewrite find_box_miss by exact H. reflexivity. Qed.
Ltac hs := repeat first [ rewrite has_hit by reflexivity | rewrite has_miss by reflexivity ].

Lemma dinf_complete :
  match find_box (TT 100 114 101 102) (b_children dinf_tree) with
  | Some dref => has (TT 117 114 108 32) (b_children dref)
  | None => false end = true.
Proof. reflexivity. Qed.

Lemma vtrak_complete v t c m : trak_complete (vtrak_tree v t c m) true = true.
Proof.
  unfold trak_complete, vtrak_tree. cbn [b_children node]. hs. fb.
  unfold vmdia_tree at 1 2 3. cbn [b_children node]. hs. fb.
  unfold vminf_tree at 1 2 3. cbn [b_children node]. hs. fb. rewrite dinf_complete.
  unfold vstbl_tree. cbn [b_children node]. unfold vstbl_kids, table_kids1.
  destruct (st_has_bframes t); destruct (has_kf t); cbn [opt_kid app]; hs; reflexivity.
Qed.

Lemma atrak_complete a t m : trak_complete (atrak_tree a t m) false = true.
Proof.
  unfold trak_complete, atrak_tree. cbn [b_children node]. hs. fb.
  unfold amdia_tree at 1 2 3. cbn [b_children node]. hs. fb.
  unfold aminf_tree at 1 2 3. cbn [b_children node]. hs. fb. rewrite dinf_complete.
  unfold astbl_tree. cbn [b_children node]. unfold astbl_kids, table_kids1.
  cbn [app]; hs; reflexivity.
Qed.

(** ** table counts *)
Definition ChunksOK (t : sample_tables) : Prop :=
  (st_chunk_offsets t = [] /\ st_sizes t = []) \/
  (exists o, st_chunk_offsets t = [o] /\ st_samples_per_chunk t = len (st_sizes t) /\ 0 < len (st_sizes t)) \/
  (st_samples_per_chunk t = 1 /\ length (st_chunk_offsets t) = length (st_sizes t) /\ 0 < len (st_sizes t)).

Lemma chunk_samples_all : forall l o, length (fst (chunk_samples l (length l) o)) = length l.
Proof.
  induction l as [|s l IH]; intros o; [reflexivity|].
  cbn [length chunk_samples]. specialize (IH (o + s)).
  destruct (chunk_samples l (length l) (o + s)) as [a b]. cbn [fst length] in *. lia.
Qed.

Lemma chunk_samples_0 l o : chunk_samples l 0 o = ([], l).
Proof. destruct l; reflexivity. Qed.

Lemma resolve_one_per_chunk : forall offs szs cno,
  1 <= cno -> length offs = length szs ->
  length (resolve_chunks [(1, 1, 1)] offs cno szs) = length szs.
Proof.
  induction offs as [|o offs IH]; intros szs cno Hc Hl.
  - destruct szs; [reflexivity|discriminate].
  - destruct szs as [|s szs]; [discriminate|].
    cbn [resolve_chunks spc_for].
    replace (1 <=? cno) with true by lia.
    replace (N.to_nat (N.min 1 (len (s :: szs)))) with 1%nat by (rewrite len_cons; lia).
    cbn [chunk_samples]. rewrite chunk_samples_0. cbn [app length]. rewrite IH; [reflexivity|lia|cbn [length] in Hl; lia].
Qed.

Lemma sum_one_per_chunk {A} : forall (l : list A) i, 1 <= i ->
  sumN (map (fun c => spc_for [(1, 1, 1)] c 0) (map fst (enumerate1 i l))) = len l.
Proof.
  induction l as [|x l IH]; intros i Hi; [reflexivity|].
  cbn [enumerate1 map fst sumN spc_for]. replace (1 <=? i) with true by lia.
  rewrite IH by lia. rewrite len_cons. reflexivity.
Qed.

Lemma map_u32_small l : Forall (fun x => x < 4294967296) l -> map u32 l = l.
Proof.
  induction 1 as [|x l Hx _ IH]; [reflexivity|]. cbn [map]. rewrite IH, u32_small by exact Hx. reflexivity.
Qed.

Definition KeysOK (t : sample_tables) : Prop :=
  strictly_increasing (st_keyframes t) 0 = true /\
  Forall (fun x => x <= len (st_sizes t) /\ x < 4294967296) (st_keyframes t).

Lemma counts_consistent_tables hd entry mdhd tkhd t wc ws :
  TabLens t -> ChunksOK t -> KeysOK t ->
  counts_consistent (track_of_tables hd entry mdhd tkhd t wc ws) = true.
Proof.
  intros (Hn & Hd & Hc & Ho & Hk) HC (HK1 & HK2).
  unfold counts_consistent, track_of_tables.
  cbn [tr_sizes tr_durations tr_cts tr_ranges tr_sync tr_chunk_offsets tr_stsc].
  rewrite !len_map.
  assert (E1 : (len (st_durations t) =? len (st_sizes t)) = true) by lia. rewrite E1.
  assert (E2 : match (if wc then Some (map ctts_view (st_cts_offsets t)) else None) with
               | Some c => len c =? len (st_sizes t) | None => true end = true).
  { destruct wc; [|reflexivity]. rewrite len_map. lia. }
  rewrite E2.
  assert (E4 : match (if ws then Some (map u32 (st_keyframes t)) else None) with
               | Some l => strictly_increasing l 0 && forallb (fun x => x <=? len (st_sizes t)) l
               | None => true end = true).
  { destruct ws; [|reflexivity].
    rewrite map_u32_small by (eapply Forall_impl; [|exact HK2]; cbn beta; intros; lia).
    rewrite HK1. cbn [andb]. apply forallb_forall. intros x Hx.
    rewrite Forall_forall in HK2. specialize (HK2 x Hx). lia. }
  rewrite E4. cbn [andb].
  unfold stsc_of, stsc_view.
  destruct HC as [[Eo Es]|[(o & Eo & Espc & Hpos)|(Espc & Hlen & Hpos)]].
  - rewrite Eo, Es. reflexivity.
  - rewrite Eo, Espc. change (u32 (len [o])) with 1.
    replace ((1 =? 0) || (len (st_sizes t) =? 0)) with false by lia.
    rewrite (u32_small _ Hn).
    cbn [map resolve_chunks enumerate1 fst sumN spc_for].
    replace (1 <=? 1) with true by reflexivity.
    rewrite len_map, N.min_id.
    replace (N.to_nat (len (st_sizes t))) with (length (map u32 (st_sizes t)))
      by (rewrite map_length; unfold len; lia).
    pose proof (chunk_samples_all (map u32 (st_sizes t)) (u32 o)) as HL.
    destruct (chunk_samples (map u32 (st_sizes t)) (length (map u32 (st_sizes t))) (u32 o)) as [l rest].
    cbn [fst] in HL. rewrite app_nil_r. unfold len. rewrite HL, map_length.
    apply andb_true_intro. split; lia.
  - rewrite Espc.
    assert (Hlo : len (st_chunk_offsets t) = len (st_sizes t)) by (unfold len; rewrite Hlen; reflexivity).
    rewrite Hlo, (u32_small _ Hn).
    replace ((len (st_sizes t) =? 0) || (1 =? 0)) with false by lia.
    change (u32 1) with 1.
    rewrite sum_one_per_chunk by lia. rewrite len_map, Hlo.
    unfold len at 1. rewrite resolve_one_per_chunk; [|lia|rewrite !map_length; exact Hlen].
    rewrite map_length. fold (len (st_sizes t)). apply andb_true_intro. split; lia.
Qed.

(** * Part G (T3): queued samples are non-empty and shorter than 4 GiB *)

Definition AudioInv (w : writer) : Prop := w_audio w = None -> w_arev w = [].
Definition SInv (w : writer) : Prop := NonEmptyInv w /\ AudioInv w.

Lemma annexb_to_avcc_nonempty d : d <> [] -> 0 < len (annexb_to_avcc d).
Proof.
  intros Hd. unfold annexb_to_avcc.
  destruct (len_prefixed (filter nonempty (nal_iter d))) as [|x out].
  - destruct d as [|b d']; [congruence|]. rewrite len_app, len_be32. lia.
  - rewrite len_cons. lia.
Qed.

Lemma convert_video_nonempty codec d : d <> [] -> 0 < len (convert_video codec d).
Proof.
  intros Hd. destruct codec; cbn [convert_video]; try (apply annexb_to_avcc_nonempty; exact Hd);
    destruct d; [congruence|rewrite len_cons; lia|congruence|rewrite len_cons; lia].
Qed.

Lemma samples_ok_set_last_dur l d : samples_ok l -> samples_ok (set_last_dur l d).
Proof.
  unfold samples_ok. intros H. destruct l as [|s t]; [exact H|].
  inversion H; subst. cbn [set_last_dur]. constructor; [cbn [s_data]; assumption|assumption].
Qed.

Lemma push_video_SInv w vrev vlast cfg pts dts data key w' :
  data <> [] -> samples_ok vrev -> samples_ok (w_arev w) -> AudioInv w ->
  push_video w vrev vlast cfg pts dts data key = inl w' -> SInv w'.
Proof.
  intros Hd Hv Ha HA. unfold push_video.
  destruct (U32MAX <? len (convert_video (w_codec w) data)) eqn:E; [discriminate|].
  intros H. inversion H; subst. clear H. unfold SInv, NonEmptyInv, AudioInv. cbn [w_vrev w_arev w_audio].
  split; [split|]; [|exact Ha|exact HA].
  constructor; [|exact Hv]. cbn [s_data].
  pose proof (convert_video_nonempty (w_codec w) data Hd). unfold U32MAX in E. lia.
Qed.

Lemma SInv_write_video w pts dts data key w' :
  data <> [] -> SInv w -> write_video_sample_with_dts w pts dts data key = inl w' -> SInv w'.
Proof.
  intros Hd [[Hv Ha] HA]. unfold write_video_sample_with_dts. intros H.
  destruct (w_finalized w); [discriminate|].
  destruct (negb (cts_fits pts dts)); [discriminate|].
  destruct (w_vprev w) as [prev|].
  - destruct (dts <=? prev); [discriminate|].
    destruct (U32MAX <? dts - prev); [discriminate|].
    eapply push_video_SInv; [exact Hd| |exact Ha|exact HA|exact H].
    apply samples_ok_set_last_dur. exact Hv.
  - destruct (negb key); [discriminate|].
    destruct (extract_config (w_codec w) data); [|discriminate].
    eapply push_video_SInv; [exact Hd|exact Hv|exact Ha|exact HA|exact H].
Qed.

Lemma adts_to_raw_nonempty frame raw : adts_to_raw frame = AdtsOk raw -> 0 < len raw.
Proof.
  unfold adts_to_raw.
  destruct frame as [|b0 [|b1 [|b2 [|b3 [|b4 [|b5 [|b6 rest]]]]]]]; try discriminate.
  set (frame := b0 :: b1 :: b2 :: b3 :: b4 :: b5 :: b6 :: rest).
  cbv zeta.
  destruct (negb (N.lor (N.shiftl b0 4) (shr b1 4) =? 4095)); [discriminate|].
  destruct (negb (band (shr b1 3) 1 =? 0)); [discriminate|].
  destruct (negb (band (shr b1 1) 3 =? 0)); [discriminate|].
  destruct (len frame <? adts_header_len b1) eqn:E1; [discriminate|].
  destruct (12 <? band (shr b2 2) 15); [discriminate|].
  destruct ((N.lor (N.shiftl (band b2 1) 2) (band (shr b3 6) 3) =? 0)
            || (7 <? N.lor (N.shiftl (band b2 1) 2) (band (shr b3 6) 3))); [discriminate|].
  destruct (adts_frame_length b3 b4 b5 <=? adts_header_len b1) eqn:E2; [discriminate|].
  destruct (len frame <? adts_frame_length b3 b4 b5) eqn:E3; [discriminate|].
  intros H. injection H as <-.
  unfold len in *. rewrite firstn_length, skipn_length. lia.
Qed.

Lemma SInv_write_audio w pts data w' :
  SInv w -> write_audio_sample w pts data = inl w' -> SInv w'.
Proof.
  intros [[Hv Ha] HA]. unfold write_audio_sample. intros H.
  destruct (w_finalized w); [discriminate|].
  destruct (w_audio w) as [track|] eqn:EA; [|discriminate].
  cbv zeta in H.
  set (arev' := fun pending : option N => match pending with Some d => set_last_dur (w_arev w) d | None => w_arev w end) in *.
  assert (Harev : forall p, samples_ok (arev' p)).
  { intros [d|]; unfold arev'; [apply samples_ok_set_last_dur|]; exact Ha. }
  destruct (match w_aprev w with
            | Some prev => if pts <? prev then inr NonIncreasingTimestamp
                           else if U32MAX <? pts - prev then inr DurationOverflow else inl (Some (pts - prev))
            | None => inl None end) as [pending|e]; [|discriminate].
  assert (G : forall sd, 0 < len sd ->
            (if U32MAX <? len sd then inr DurationOverflow
             else inl {| w_codec := w_codec w; w_vrev := w_vrev w; w_vprev := w_vprev w;
                         w_vlast_delta := w_vlast_delta w; w_vconfig := w_vconfig w;
                         w_audio := Some track;
                         w_arev := {| s_pts := pts; s_dts := pts; s_data := sd; s_key := false; s_dur := None |} :: arev' pending;
                         w_aprev := Some pts;
                         w_alast_delta := match pending with Some d => Some d | None => w_alast_delta w end;
                         w_finalized := false; w_bytes_written := w_bytes_written w;
                         w_sink := w_sink w |}) = inl w' -> SInv w').
  { intros sd Hsd HH. destruct (U32MAX <? len sd) eqn:E; [discriminate|].
    inversion HH; subst. unfold SInv, NonEmptyInv, AudioInv. cbn [w_vrev w_arev w_audio].
    split; [split|]; [exact Hv| |discriminate].
    constructor; [|apply Harev]. cbn [s_data]. unfold U32MAX in E. lia. }
  destruct (at_codec track).
  - destruct (adts_to_raw data) as [raw|e] eqn:ER; [|discriminate].
    apply (G raw); [eapply adts_to_raw_nonempty; exact ER|exact H].
  - destruct (is_valid_opus_packet data) eqn:EV; [|discriminate].
    apply (G data); [|exact H]. destruct data; [discriminate|rewrite len_cons; lia].
  - discriminate.
Qed.

Lemma SInv_finalize w v m fs : SInv w -> SInv (fst (finalize w v m fs)).
Proof.
  intros H. unfold finalize.
  destruct (w_finalized w); [exact H|].
  destruct ((U16MAX <? vt_width v) || (U16MAX <? vt_height v)); [exact H|].
  destruct (param_sets_too_long (w_vconfig w)) eqn:Gps; [exact H|].
  destruct (if fs then finalize_fast_start w v m (effective_config w)
            else finalize_standard w v m (effective_config w)) as [bufs term].
  destruct (run_plan bufs (w_bytes_written w) (w_sink w)) as [[bw s] e].
  destruct e as [k|]; [exact H|]. destruct term as [t|]; exact H.
Qed.

Lemma SInv_new snk codec audio : SInv (writer_new snk codec audio).
Proof. repeat split; try constructor. Qed.

Lemma write_video_ok_nonempty m p d k m' : write_video m p d k = (m', None) -> d <> [].
Proof. intros H ->. cbn in H. discriminate. Qed.

Lemma write_video_with_dts_ok_nonempty m p t d k m' : write_video_with_dts m p t d k = (m', None) -> d <> [].
Proof. intros H ->. unfold write_video_with_dts in H. destruct (m_finished m); discriminate. Qed.

Section Lift2.
  Variable P : writer -> Prop.
  Hypothesis P_video : forall w pts dts data key w',
    data <> [] -> P w -> write_video_sample_with_dts w pts dts data key = inl w' -> P w'.
  Hypothesis P_audio : forall w pts data w',
    P w -> write_audio_sample w pts data = inl w' -> P w'.
  Hypothesis P_fin : forall w v m fs, P w -> P (fst (finalize w v m fs)).

  Lemma P2_write_video m p d k : P (m_writer m) -> P (m_writer (fst (write_video m p d k))).
  Proof.
    intros H. destruct (write_video m p d k) as [m1 [e|]] eqn:W; cbn [fst].
    - apply write_video_err_unchanged in W. subst m1. exact H.
    - pose proof (write_video_ok_nonempty _ _ _ _ _ W) as Hd.
      apply write_video_ok_writer in W. destruct W as (pts & dts & W). eapply P_video; eauto.
  Qed.

  Lemma P2_write_video_with_dts m p t d k :
    P (m_writer m) -> P (m_writer (fst (write_video_with_dts m p t d k))).
  Proof.
    intros H. destruct (write_video_with_dts m p t d k) as [m1 [e|]] eqn:W; cbn [fst].
    - apply write_video_with_dts_err_unchanged in W. subst m1. exact H.
    - pose proof (write_video_with_dts_ok_nonempty _ _ _ _ _ _ W) as Hd.
      apply write_video_with_dts_ok_writer in W. destruct W as (pts & dts & W). eapply P_video; eauto.
  Qed.

  Lemma P2_encode_video m d ms : P (m_writer m) -> P (m_writer (fst (encode_video m d ms))).
  Proof.
    intros H. unfold encode_video.
    pose proof (P2_write_video m (m_cur_vpts m) d (api_is_keyframe m d) H) as HW.
    destruct (write_video m (m_cur_vpts m) d (api_is_keyframe m d)) as [m1 [e|]]; cbn [fst] in *.
    - exact HW.
    - cbn [set_cur m_writer]. exact HW.
  Qed.

  Lemma P2_step m o : P (m_writer m) -> P (m_writer (fst (step m o))).
  Proof.
    intros H. destruct o as [p d k|p t d k|p d|d ms|d s|]; cbn [step].
    - pose proof (P2_write_video m (decode64 p) d k H) as HW.
      destruct (write_video m (decode64 p) d k) as [m1 [e|]]; exact HW.
    - pose proof (P2_write_video_with_dts m (decode64 p) (decode64 t) d k H) as HW.
      destruct (write_video_with_dts m (decode64 p) (decode64 t) d k) as [m1 [e|]]; exact HW.
    - pose proof (P_write_audio P P_audio m (decode64 p) d H) as HW.
      destruct (write_audio m (decode64 p) d) as [m1 [e|]]; exact HW.
    - pose proof (P2_encode_video m d ms H) as HW.
      destruct (encode_video m d ms) as [m1 [e|]]; exact HW.
    - pose proof (P_encode_audio P P_audio m d s H) as HW.
      destruct (encode_audio m d s) as [m1 [e|]]; exact HW.
    - pose proof (P_finish P P_fin m H) as HW.
      destruct (finish_in_place_with_stats m) as [m1 [st|e|p]]; exact HW.
  Qed.
End Lift2.

Lemma SInv_step m o : SInv (m_writer m) -> SInv (m_writer (fst (step m o))).
Proof. apply (P2_step SInv SInv_write_video SInv_write_audio SInv_finalize). Qed.

Theorem SInv_reachable : forall b script m0 ops,
  build b script = inl m0 -> SInv (m_writer (fst (run m0 ops))).
Proof.
  intros b script m0 ops Hb.
  apply (run_preserves (fun m => SInv (m_writer m)) SInv_step).
  unfold build in Hb. destruct (b_video b) as [[[codec w] h]|]; [|discriminate].
  inversion Hb; subst m0. cbn [m_writer]. apply SInv_new.
Qed.

Theorem NonEmptyInv_reachable : forall b script m0 ops,
  build b script = inl m0 -> NonEmptyInv (m_writer (fst (run m0 ops))).
Proof. intros b script m0 ops Hb. exact (proj1 (SInv_reachable b script m0 ops Hb)). Qed.
Print Assumptions NonEmptyInv_reachable.

(** * Part F (T2): every successful progressive plan is a well-formed file *)

(** ** schedule facts that only need the permutation property *)
Lemma sched_video_count vs as_ :
  length (filter is_video_entry (compute_interleave_schedule vs as_)) = length vs.
Proof.
  rewrite (Permutation_length (filter_perm is_video_entry _ _ (schedule_perm vs as_))).
  rewrite filter_app, filter_video_video, filter_video_audio, app_nil_r. apply video_entries_length.
Qed.

Lemma sched_audio_count vs as_ :
  length (filter is_audio_entry (compute_interleave_schedule vs as_)) = length as_.
Proof.
  rewrite (Permutation_length (filter_perm is_audio_entry _ _ (schedule_perm vs as_))).
  rewrite filter_app, filter_audio_video, filter_audio_audio. apply audio_entries_length.
Qed.

Lemma tag_filter_length vs as_ P sc c :
  length (map snd (filter (pf P) (tag vs as_ sc c))) = length (filter P sc).
Proof. rewrite map_length, <- (map_length fst), tag_filter_fst. reflexivity. Qed.

Lemma walk_offsets_lengths vs as_ start vo ao :
  walk_offsets vs as_ (compute_interleave_schedule vs as_) start = WalkOk vo ao ->
  length vo = length vs /\ length ao = length as_.
Proof.
  intros H. apply walk_offsets_tag in H. destruct H as [-> ->].
  rewrite !tag_filter_length, sched_video_count, sched_audio_count. split; reflexivity.
Qed.

Lemma walk_std_lengths vs as_ start bufs vo ao :
  Forall (fun s => len (s_data s) < 4294967296) vs -> Forall (fun s => len (s_data s) < 4294967296) as_ ->
  walk_std vs as_ (compute_interleave_schedule vs as_) start [] [] [] = (bufs, vo, ao, true) ->
  bufs = map (sched_data vs as_) (compute_interleave_schedule vs as_) /\
  length vo = length vs /\ length ao = length as_.
Proof.
  intros Fv Fa H. apply (walk_std_tag vs as_ Fv Fa) in H. cbn [rev app] in H.
  destruct H as (-> & -> & ->).
  rewrite !tag_filter_length, sched_video_count, sched_audio_count. repeat split; reflexivity.
Qed.

Lemma sumN_app a b : sumN (a ++ b) = sumN a + sumN b.
Proof. induction a as [|x a IH]; cbn [app sumN]; [lia|]. rewrite IH. lia. Qed.

Lemma sumN_perm l l' : Permutation l l' -> sumN l = sumN l'.
Proof. induction 1; cbn [sumN]; lia. Qed.

Lemma len_concat (l : list bytes) : len (concat l) = sumN (map (fun b => len b) l).
Proof. induction l as [|x l IH]; [reflexivity|]. cbn [concat map sumN]. rewrite len_app, IH. reflexivity. Qed.

Lemma index_from_sample_at : forall l pre,
  map (fun p => len (sample_at (pre ++ l) (fst p))) (index_from (length pre) l) =
  map (fun s => len (s_data s)) l.
Proof.
  induction l as [|x l IH]; intros pre; [reflexivity|].
  cbn [index_from map fst]. f_equal.
  - unfold sample_at. rewrite nth_error_app2 by lia. rewrite Nat.sub_diag. reflexivity.
  - specialize (IH (pre ++ [x])). rewrite <- app_assoc in IH. cbn [app] in IH.
    rewrite app_length in IH. cbn [length] in IH. rewrite Nat.add_1_r in IH. exact IH.
Qed.

Lemma sched_payload_sum vs as_ :
  len (concat (map (sched_data vs as_) (compute_interleave_schedule vs as_))) =
  payload_sum vs + payload_sum as_.
Proof.
  rewrite len_concat, map_map.
  rewrite (sumN_perm _ _ (Permutation_map _ (schedule_perm vs as_))).
  rewrite map_app, sumN_app. unfold payload_sum. f_equal.
  - unfold video_entries. rewrite map_map. cbn [sched_data fst snd].
    exact (f_equal sumN (index_from_sample_at vs [])).
  - unfold audio_entries. rewrite map_map. cbn [sched_data fst snd].
    exact (f_equal sumN (index_from_sample_at as_ [])).
Qed.

Lemma payload_sum_concat l : len (concat (map s_data l)) = payload_sum l.
Proof. rewrite len_concat, map_map. reflexivity. Qed.

(** ** the tables [from_samples] produces *)
Lemma durations_of_length : forall l fb, length (durations_of l fb) = length l.
Proof.
  induction l as [|s l IH]; intros fb; [reflexivity|].
  destruct l as [|s' l']; [reflexivity|].
  change (durations_of (s :: s' :: l') fb) with
    ((match s_dur s with Some d => d | None => 1 end) :: durations_of (s' :: l') fb).
  cbn [length] in *. rewrite IH. reflexivity.
Qed.

Lemma keyframes_of_props : forall l idx,
  idx + len l < 4294967295 ->
  strictly_increasing (keyframes_of l idx) idx = true /\
  Forall (fun x => idx < x /\ x <= idx + len l) (keyframes_of l idx) /\
  (length (keyframes_of l idx) <= length l)%nat.
Proof.
  induction l as [|s l IH]; intros idx H.
  - cbn. repeat split; constructor.
  - rewrite len_cons in H. cbn [keyframes_of length].
    destruct (IH (idx + 1) ltac:(lia)) as (I1 & I2 & I3).
    assert (Hm : forall x y, strictly_increasing (keyframes_of l (idx + 1)) x = true -> y <= x ->
                             strictly_increasing (keyframes_of l (idx + 1)) y = true).
    { intros x y. destruct (keyframes_of l (idx + 1)) as [|k kt]; [reflexivity|].
      cbn [strictly_increasing]. intros Hx Hy. apply andb_true_iff in Hx. destruct Hx as [Hx1 Hx2].
      rewrite Hx2. replace (y <? k) with true by lia. reflexivity. }
    assert (I2' : Forall (fun x => idx < x /\ x <= idx + (1 + len l)) (keyframes_of l (idx + 1))).
    { eapply Forall_impl; [|exact I2]. cbn beta. intros; lia. }
    destruct (s_key s).
    + assert (E : u32 (u32 idx + 1) = idx + 1) by (unfold u32; lia). rewrite E.
      cbn [strictly_increasing length]. rewrite len_cons. repeat split.
      * rewrite I1. replace (idx <? idx + 1) with true by lia. reflexivity.
      * constructor; [lia|exact I2'].
      * lia.
    + rewrite len_cons. repeat split; [eapply Hm; [exact I1|lia]|exact I2'|lia].
Qed.

Definition TabsOK (t : sample_tables) : Prop := TabLens t /\ ChunksOK t /\ KeysOK t.

Lemma payload_sum_ge_len l : Forall (fun s => 0 < len (s_data s)) l -> len l <= payload_sum l.
Proof.
  unfold payload_sum. induction 1 as [|s l Hs _ IH]; [cbn; lia|].
  cbn [map sumN]. rewrite len_cons. lia.
Qed.

Lemma tabs_ok_from_samples samples offs spc fb :
  Forall (fun s => 0 < len (s_data s)) samples ->
  8 + payload_sum samples <= 4294967295 ->
  ((offs = [] /\ samples = []) \/
   (exists o, offs = [o] /\ spc = u32 (len samples) /\ samples <> []) \/
   (spc = 1 /\ length offs = length samples)) ->
  TabsOK (from_samples samples offs spc fb).
Proof.
  intros Hpos Hsum HC.
  pose proof (payload_sum_ge_len samples Hpos) as Hn.
  assert (Hn' : len samples < 4294967296) by lia.
  unfold TabsOK, TabLens, ChunksOK, KeysOK, from_samples.
  cbn [st_sizes st_durations st_cts_offsets st_chunk_offsets st_keyframes st_samples_per_chunk].
  rewrite !len_map.
  destruct (keyframes_of_props samples 0 ltac:(lia)) as (K1 & K2 & K3).
  assert (Hoffs : len offs < 4294967296).
  { destruct HC as [[-> _]|[(o & -> & _)|[_ Hl]]]; [cbn; lia|cbn; lia|unfold len in *; lia]. }
  split; [|split].
  - repeat split; try assumption.
    + unfold len. rewrite durations_of_length. reflexivity.
    + unfold len in *. lia.
  - destruct HC as [[-> ->]|[(o & -> & -> & Hne)|[-> Hl]]].
    + left. split; reflexivity.
    + right. left. exists o. rewrite (u32_small _ Hn'). repeat split.
      destruct samples; [congruence|rewrite len_cons; lia].
    + destruct samples as [|s ss].
      * left. destruct offs; [split; reflexivity|discriminate].
      * right. right. rewrite map_length. split; [reflexivity|]. split; [exact Hl|rewrite len_cons; lia].
  - split; [exact K1|]. eapply Forall_impl; [|exact K2]. cbn beta. intros; lia.
Qed.

(** ** the file-level check *)
Definition mdat_tree (d : bytes) : btree := leaf T_mdat d.
Definition is_some {A} (o : option A) : bool := match o with Some _ => true | None => false end.

Lemma find_all_hit x b r : typ_eqb (b_typ b) x = true -> find_all x (b :: r) = b :: find_all x r.
Proof. intros H. unfold find_all. cbn [filter]. rewrite H. reflexivity. Qed.
Lemma find_all_miss x b r : typ_eqb (b_typ b) x = false -> find_all x (b :: r) = find_all x r.
Proof. intros H. unfold find_all. cbn [filter]. rewrite H. reflexivity. Qed.
Lemma find_all_nil x : find_all x [] = [].
Proof. reflexivity. Qed.
Lemma find_all_app x a b : find_all x (a ++ b) = find_all x a ++ find_all x b.
Proof. apply filter_app. Qed.
Ltac fa := repeat first [ rewrite find_all_hit by reflexivity
                        | rewrite find_all_miss by reflexivity
                        | rewrite find_all_nil ].

Lemma find_all_udta_kids x md : typ_eqb T_udta x = false -> find_all x (udta_kids md) = [].
Proof.
  intros H. unfold udta_kids. destruct (ilst_kids md); [reflexivity|].
  rewrite find_all_miss by exact H. reflexivity.
Qed.

Lemma find_all_trak_moov v vt audio c m :
  find_all (T 116 114 97 107) (moov_kids v vt audio c m) =
  vtrak_tree v vt c m :: match audio with Some (a, t) => [atrak_tree a t m] | None => [] end.
Proof.
  unfold moov_kids. rewrite !find_all_app. fa. cbn [app]. f_equal.
  destruct m as [md|]; [rewrite find_all_udta_kids by reflexivity|rewrite find_all_nil];
    rewrite app_nil_r; destruct audio as [[a t]|]; fa; reflexivity.
Qed.

Lemma find_all_mvhd_moov v vt audio c m :
  length (find_all (TT 109 118 104 100) (moov_kids v vt audio c m)) = 1%nat.
Proof.
  unfold moov_kids. rewrite !find_all_app. fa. cbn [app length]. f_equal.
  destruct m as [md|]; [rewrite find_all_udta_kids by reflexivity|rewrite find_all_nil];
    rewrite app_nil_r; destruct audio as [[a t]|]; fa; reflexivity.
Qed.

Definition AudioTabsOK (audio : option (audio_track * sample_tables)) : Prop :=
  match audio with Some (_, t) => TabsOK t | None => True end.

Lemma wf_ftyp : wf 1 ftyp_tree. Proof. wfl. Qed.
Lemma wf_mdat d : wf 1 (mdat_tree d). Proof. wfl. Qed.

Lemma enc_ftyp : enc ftyp_tree = build_ftyp_box.
Proof. unfold ftyp_tree. apply enc_leafb; [reflexivity|isbox]. Qed.

Lemma enc_mdat d : enc (mdat_tree d) = be32 (8 + len d) ++ T_mdat ++ d.
Proof. reflexivity. Qed.

Theorem check_top top v vt audio c m :
  (top = [ftyp_tree; moov_tree v vt audio c m] \/
   (exists d, top = [ftyp_tree; moov_tree v vt audio c m; mdat_tree d]) \/
   (exists d, top = [ftyp_tree; mdat_tree d; moov_tree v vt audio c m])) ->
  len (flat_map enc top) < 4294967296 ->
  TabsOK vt -> AudioTabsOK audio ->
  check_file_structure (is_some audio) (flat_map enc top) = true.
Proof.
  intros Htop Hlen (VL & VC & VK) HA.
  assert (Hwf : Forall (wf 11) top).
  { assert (M : wf 11 (moov_tree v vt audio c m)) by (eapply wf_le; [|apply wf_moov]; lia).
    assert (F : wf 11 ftyp_tree) by (eapply wf_le; [|apply wf_ftyp]; lia).
    assert (D : forall d, wf 11 (mdat_tree d)) by (intros d; eapply wf_le; [|apply wf_mdat]; lia).
    destruct Htop as [->|[[d ->]|[d ->]]]; kids; auto. }
  unfold check_file_structure, read_tracks, parse_file.
  rewrite (parse_forest_wf 11 top Hwf Hlen). cbn [opt_bind].
  assert (Hmoov : find_box (T 109 111 111 118) top = Some (moov_tree v vt audio c m)).
  { destruct Htop as [->|[[d ->]|[d ->]]]; fb; reflexivity. }
  rewrite Hmoov. cbn [opt_bind]. unfold moov_tree at 1. cbn [b_children node].
  rewrite find_all_trak_moov.
  assert (Htracks :
    fold_right (fun t acc => match read_track t, acc with Some x, Some l => Some (x :: l) | _, _ => None end)
      (Some []) (vtrak_tree v vt c m :: match audio with Some (a, t) => [atrak_tree a t m] | None => [] end) =
    Some (vtrack v vt c m :: match audio with Some (a, t) => [atrack a t m] | None => [] end)).
  { destruct audio as [[a t]|]; cbn [fold_right].
    - destruct HA as (AL & _). rewrite (read_atrak a t m AL), (read_vtrak v vt c m VL). reflexivity.
    - rewrite (read_vtrak v vt c m VL). reflexivity. }
  rewrite Htracks. cbn [opt_bind].
  change T_MOOV with (T 109 111 111 118). rewrite Hmoov.
  unfold moov_tree at 1 2. cbn [b_children node].
  change (TT 116 114 97 107) with (T 116 114 97 107). rewrite find_all_trak_moov.
  unfold count. rewrite find_all_mvhd_moov.
  assert (Hhead : match top with Box t _ _ :: _ => bytes_eqb t T_FTYP | [] => false end = true).
  { destruct Htop as [->|[[d ->]|[d ->]]]; reflexivity. }
  rewrite Hhead.
  assert (Hcm : (length (find_all (T 109 111 111 118) top) =? 1)%nat = true).
  { destruct Htop as [->|[[d ->]|[d ->]]]; fa; reflexivity. }
  rewrite Hcm.
  assert (Hcd : (length (find_all T_MDAT top) <=? 1)%nat = true).
  { destruct Htop as [->|[[d ->]|[d ->]]]; fa; reflexivity. }
  rewrite Hcd. cbn [andb Nat.eqb].
  assert (CV : counts_consistent (vtrack v vt c m) = true)
    by (apply counts_consistent_tables; assumption).
  destruct audio as [[a t]|]; cbn [is_some negb andb forallb].
  - destruct HA as (AL & AC & AK).
    rewrite vtrak_complete, atrak_complete, CV. cbn [andb].
    unfold atrack. rewrite counts_consistent_tables by assumption. reflexivity.
  - rewrite vtrak_complete, CV. reflexivity.
Qed.

(** ** the plans *)
Lemma moov_of_inl v vt audio c m b :
  moov_of v vt audio c m = inl b -> b = build_moov_box v vt audio c m.
Proof.
  unfold moov_of. destruct (U64MAX <? total_duration vt * MOVIE_TIMESCALE); [discriminate|].
  destruct (has_zero_size vt); [discriminate|].
  destruct audio as [[a at_]|]; [destruct (has_zero_size at_); [discriminate|]|];
    intros H; inversion H; reflexivity.
Qed.

Lemma match_nonnil {A B} (l : list A) (a b : B) : l <> [] -> match l with [] => a | _ :: _ => b end = b.
Proof. destruct l; [congruence|reflexivity]. Qed.

Lemma samples_pos l : samples_ok l -> Forall (fun s => 0 < len (s_data s)) (rev l).
Proof. intros H. apply Forall_rev. eapply Forall_impl; [|exact H]. cbn beta. intros s [A _]. exact A. Qed.
Lemma samples_small l : samples_ok l -> Forall (fun s => len (s_data s) < 4294967296) (rev l).
Proof. intros H. apply Forall_rev. eapply Forall_impl; [|exact H]. cbn beta. intros s [_ A]. exact A. Qed.

Lemma file_ftyp_moov v vt audio c m :
  concat [build_ftyp_box; build_moov_box v vt audio c m] =
  flat_map enc [ftyp_tree; moov_tree v vt audio c m].
Proof. cbn [flat_map concat]. rewrite enc_ftyp, enc_moov. reflexivity. Qed.

Lemma file_ftyp_mdat_moov v vt audio c m size (data : list bytes) :
  size = 8 + len (concat data) ->
  concat (build_ftyp_box :: be32 size :: T_mdat :: data ++ [build_moov_box v vt audio c m]) =
  flat_map enc [ftyp_tree; mdat_tree (concat data); moov_tree v vt audio c m].
Proof.
  intros ->. cbn [flat_map]. rewrite enc_ftyp, enc_moov, enc_mdat.
  cbn [concat]. rewrite !concat_app. cbn [concat app]. rewrite <- ?app_assoc. reflexivity.
Qed.

Lemma file_ftyp_moov_mdat v vt audio c m size (data : list bytes) :
  size = 8 + len (concat data) ->
  concat (build_ftyp_box :: build_moov_box v vt audio c m :: be32 size :: T_mdat :: data) =
  flat_map enc [ftyp_tree; moov_tree v vt audio c m; mdat_tree (concat data)].
Proof.
  intros ->. cbn [flat_map]. rewrite enc_ftyp, enc_moov, enc_mdat.
  cbn [concat]. rewrite <- ?app_assoc, ?app_nil_r. reflexivity.
Qed.

Definition structure_ok (audio : option audio_track) (file : bytes) : Prop :=
  check_file_structure (match audio with Some _ => true | None => false end) file = true.

Theorem standard_plan_is_wellformed : forall w v m bufs,
  samples_ok (w_vrev w) -> samples_ok (w_arev w) ->
  finalize_standard w v m (effective_config w) = (bufs, None) ->
  len (concat bufs) < 4294967296 ->
  structure_ok (w_audio w) (concat bufs).
Proof.
  intros w v m bufs Hv Ha Hplan Hlen. unfold structure_ok.
  pose proof (samples_pos _ Hv) as Pv. pose proof (samples_pos _ Ha) as Pa.
  pose proof (samples_small _ Hv) as Sv. pose proof (samples_small _ Ha) as Sa.
  fold (vsamples w) in Pv, Sv. fold (asamples w) in Pa, Sa.
  unfold finalize_standard in Hplan. cbv zeta in Hplan.
  destruct (w_audio w) as [track|] eqn:EA.
  - (* interleaved *)
    destruct (U32MAX <? 8 + payload_sum (vsamples w) + payload_sum (asamples w)) eqn:Esz;
      [discriminate|]. unfold U32MAX in Esz.
    destruct (walk_std (vsamples w) (asamples w) (compute_interleave_schedule (vsamples w) (asamples w))
                (len build_ftyp_box + 8) [] [] []) as [[[bufs' vo] ao] ok] eqn:EW.
    destruct ok; cbn [negb] in Hplan; [|discriminate].
    destruct (moov_of v (from_samples (vsamples w) vo 1 (w_vlast_delta w))
                (Some (track, from_samples (asamples w) ao 1 (w_alast_delta w))) (effective_config w) m)
      as [moov|p] eqn:EM; [|discriminate].
    apply moov_of_inl in EM. subst moov.
    injection Hplan as <-.
    destruct (walk_std_lengths _ _ _ _ _ _ Sv Sa EW) as (Eb & Lvo & Lao). subst bufs'.
    rewrite file_ftyp_mdat_moov in * by (rewrite sched_payload_sum; lia).
    eapply (check_top _ v _ (Some (track, from_samples (asamples w) ao 1 (w_alast_delta w))) _ m);
      [right; right; eexists; reflexivity|exact Hlen| |].
    + apply tabs_ok_from_samples; [exact Pv|lia|right; right; split; [reflexivity|exact Lvo]].
    + apply tabs_ok_from_samples; [exact Pa|lia|right; right; split; [reflexivity|exact Lao]].
  - (* video only *)
    destruct (vsamples w) as [|s0 vs'] eqn:Evs.
    + destruct (moov_of v (from_samples [] [] 0 (w_vlast_delta w)) None (effective_config w) m)
        as [moov|p] eqn:EM; [|discriminate].
      apply moov_of_inl in EM. subst moov. injection Hplan as <-.
      rewrite file_ftyp_moov in *.
      eapply (check_top _ v _ None _ m); [left; reflexivity|exact Hlen| |exact I].
      apply tabs_ok_from_samples; [constructor|cbn; lia|left; split; reflexivity].
    + rewrite <- Evs in *.
      destruct (U32MAX <? 8 + payload_sum (vsamples w)) eqn:Esz; [discriminate|]. unfold U32MAX in Esz.
      destruct (moov_of v (from_samples (vsamples w) [len build_ftyp_box + 8] (u32 (len (vsamples w)))
                             (w_vlast_delta w)) None (effective_config w) m)
        as [moov|p] eqn:EM; [|discriminate].
      apply moov_of_inl in EM. subst moov. injection Hplan as <-.
      cbn [app] in *.
      rewrite file_ftyp_mdat_moov in * by (rewrite payload_sum_concat; lia).
      eapply (check_top _ v _ None _ m); [right; right; eexists; reflexivity|exact Hlen| |exact I].
      apply tabs_ok_from_samples; [exact Pv|lia|].
      right; left. eexists. split; [reflexivity|]. split; [reflexivity|]. rewrite Evs. discriminate.
Qed.

Theorem fast_start_plan_is_wellformed : forall w v m bufs,
  samples_ok (w_vrev w) -> samples_ok (w_arev w) -> AudioInv w ->
  finalize_fast_start w v m (effective_config w) = (bufs, None) ->
  len (concat bufs) < 4294967296 ->
  structure_ok (w_audio w) (concat bufs).
Proof.
  intros w v m bufs Hv Ha HA Hplan Hlen. unfold structure_ok.
  pose proof (samples_pos _ Hv) as Pv. pose proof (samples_pos _ Ha) as Pa.
  fold (vsamples w) in Pv. fold (asamples w) in Pa.
  unfold finalize_fast_start in Hplan. cbv zeta in Hplan.
  destruct (U32MAX <? 8 + payload_sum (vsamples w) + payload_sum (asamples w)) eqn:Esz;
    [discriminate|]. unfold U32MAX in Esz.
  destruct (w_audio w) as [track|] eqn:EA.
  - destruct (placeholder_offsets (compute_interleave_schedule (vsamples w) (asamples w)) 0) as [pvo pao].
    destruct (moov_of v (from_samples (vsamples w) pvo 1 (w_vlast_delta w))
                (Some (track, from_samples (asamples w) pao 1 (w_alast_delta w))) (effective_config w) m)
      as [pmoov|p]; [|discriminate].
    destruct (walk_offsets (vsamples w) (asamples w) (compute_interleave_schedule (vsamples w) (asamples w))
                (len build_ftyp_box + len pmoov + 8)) as [vo ao|] eqn:EW; [|discriminate].
    destruct (moov_of v (from_samples (vsamples w) vo 1 (w_vlast_delta w))
                (Some (track, from_samples (asamples w) ao 1 (w_alast_delta w))) (effective_config w) m)
      as [moov|p] eqn:EM; [|discriminate].
    apply moov_of_inl in EM. subst moov. injection Hplan as <-.
    destruct (walk_offsets_lengths _ _ _ _ _ EW) as (Lvo & Lao).
    rewrite file_ftyp_moov_mdat in * by (rewrite sched_payload_sum; lia).
    eapply (check_top _ v _ (Some (track, from_samples (asamples w) ao 1 (w_alast_delta w))) _ m);
      [right; left; eexists; reflexivity|exact Hlen| |].
    + apply tabs_ok_from_samples; [exact Pv|lia|right; right; split; [reflexivity|exact Lvo]].
    + apply tabs_ok_from_samples; [exact Pa|lia|right; right; split; [reflexivity|exact Lao]].
  - assert (Eas : asamples w = []) by (unfold asamples; rewrite (HA EA); reflexivity).
    rewrite Eas in *. change (payload_sum []) with 0 in *.
    destruct (moov_of v
                (from_samples (vsamples w) (match vsamples w with [] => [] | _ :: _ => [0] end)
                   (match vsamples w with [] => 0 | _ :: _ => u32 (len (vsamples w)) end) (w_vlast_delta w))
                None (effective_config w) m) as [pmoov|p]; [|discriminate].
    destruct (vsamples w) as [|s0 vs'] eqn:Evs.
    + destruct (moov_of v (from_samples [] [] 0 (w_vlast_delta w)) None (effective_config w) m)
        as [moov|p] eqn:EM; [|discriminate].
      apply moov_of_inl in EM. subst moov. injection Hplan as <-.
      rewrite file_ftyp_moov_mdat in * by reflexivity.
      eapply (check_top _ v _ None _ m); [right; left; eexists; reflexivity|exact Hlen| |exact I].
      apply tabs_ok_from_samples; [constructor|cbn; lia|left; split; reflexivity].
    + rewrite <- Evs in *.
      destruct (U32MAX <? len build_ftyp_box + len pmoov + 8); [discriminate|].
      destruct (moov_of v (from_samples (vsamples w) [len build_ftyp_box + len pmoov + 8]
                             (u32 (len (vsamples w))) (w_vlast_delta w)) None (effective_config w) m)
        as [moov|p] eqn:EM; [|discriminate].
      apply moov_of_inl in EM. subst moov. injection Hplan as <-.
      rewrite file_ftyp_moov_mdat in * by (rewrite payload_sum_concat; lia).
      eapply (check_top _ v _ None _ m); [right; left; eexists; reflexivity|exact Hlen| |exact I].
      apply tabs_ok_from_samples; [exact Pv|lia|].
      right; left. eexists. split; [reflexivity|]. split; [reflexivity|]. rewrite Evs. discriminate.
Qed.

Theorem progressive_plan_is_wellformed : forall w v m (fs : bool) bufs,
  samples_ok (w_vrev w) -> samples_ok (w_arev w) ->
  (w_audio w = None -> w_arev w = []) ->
  (if fs then finalize_fast_start w v m (effective_config w)
         else finalize_standard w v m (effective_config w)) = (bufs, None) ->
  len (concat bufs) < 4294967296 ->
  check_file_structure (match w_audio w with Some _ => true | None => false end) (concat bufs) = true.
Proof.
  intros w v m fs bufs Hv Ha HA Hplan Hlen. destruct fs.
  - exact (fast_start_plan_is_wellformed w v m bufs Hv Ha HA Hplan Hlen).
  - exact (standard_plan_is_wellformed w v m bufs Hv Ha Hplan Hlen).
Qed.
Print Assumptions progressive_plan_is_wellformed.

(** The hypothesis [w_audio w = None -> w_arev w = []] of T2 cannot be dropped: an (unreachable)
    writer without audio track but with a queued audio sample makes the fast-start plan declare
    an mdat larger than the bytes that follow. *)
Definition cex_writer : writer :=
  {| w_codec := H264; w_vrev := []; w_vprev := None; w_vlast_delta := None; w_vconfig := None;
     w_audio := None;
     w_arev := [{| s_pts := 0; s_dts := 0; s_data := [1]; s_key := false; s_dur := None |}];
     w_aprev := None; w_alast_delta := None; w_finalized := false; w_bytes_written := 0;
     w_sink := {| sk_rev_chunks := []; sk_script := [] |} |}.
Definition cex_video : video_track := {| vt_width := 16; vt_height := 16 |}.

Lemma T2_needs_audio_invariant :
  samples_ok (w_vrev cex_writer) /\ samples_ok (w_arev cex_writer) /\
  exists bufs,
    finalize_fast_start cex_writer cex_video None (effective_config cex_writer) = (bufs, None) /\
    len (concat bufs) < 4294967296 /\
    check_file_structure false (concat bufs) = false.
Proof.
  split; [constructor|]. split; [repeat constructor|].
  eexists. split; [vm_compute; reflexivity|]. split; vm_compute; reflexivity.
Qed.

(** * Part H (T4): the file delivered to a fault-free sink *)

Lemma finalize_ok_plan w v md f w' :
  finalize w v md f = (w', FinOk) ->
  w_finalized w = false /\
  exists bufs bw s,
    (if f then finalize_fast_start w v md (effective_config w)
     else finalize_standard w v md (effective_config w)) = (bufs, None) /\
    run_plan bufs (w_bytes_written w) (w_sink w) = (bw, s, None) /\
    w' = with_sink w true bw s.
Proof.
  unfold finalize. destruct (w_finalized w); [discriminate|].
  destruct ((U16MAX <? vt_width v) || (U16MAX <? vt_height v)); [discriminate|].
  destruct (param_sets_too_long (w_vconfig w)) eqn:Gps; [discriminate|].
  destruct (if f then finalize_fast_start w v md (effective_config w)
            else finalize_standard w v md (effective_config w)) as [bufs term] eqn:EP.
  destruct (run_plan bufs (w_bytes_written w) (w_sink w)) as [[bw s] e] eqn:ER.
  destruct e as [k|]; [discriminate|]. destruct term as [t|]; [discriminate|].
  intros H. inversion H; subst. split; [reflexivity|]. exists bufs, bw, s. split; [reflexivity|]. split; [exact ER|reflexivity].
Qed.

Lemma finalize_finalized w v md f : w_finalized w = true -> finalize w v md f = (w, FinErr (FinIo IoOther)).
Proof. intros H. unfold finalize. rewrite H. reflexivity. Qed.

Lemma step_not_stats m o s : o <> FIN -> snd (step m o) <> RStats s.
Proof.
  intros Hne. destruct o as [p d k|p t d k|p d|d ms|d s0|]; [| | | | |congruence]; cbn [step].
  - destruct (write_video m (decode64 p) d k) as [m1 [e|]]; cbn; discriminate.
  - destruct (write_video_with_dts m (decode64 p) (decode64 t) d k) as [m1 [e|]]; cbn; discriminate.
  - destruct (write_audio m (decode64 p) d) as [m1 [e|]]; cbn; discriminate.
  - destruct (encode_video m d ms) as [m1 [e|]]; cbn; discriminate.
  - destruct (encode_audio m d s0) as [m1 [e|]]; cbn; discriminate.
Qed.

(* once the writer is finalized nothing touches the sink and no call reports statistics *)
Lemma step_finalized m o :
  w_finalized (m_writer m) = true ->
  w_finalized (m_writer (fst (step m o))) = true /\
  w_sink (m_writer (fst (step m o))) = w_sink (m_writer m) /\
  forall s, snd (step m o) <> RStats s.
Proof.
  intros HF.
  assert (D : o = FIN \/ o <> FIN) by (destruct o; auto; right; discriminate).
  destruct D as [->|Hne].
  - cbn [step]. unfold finish_in_place_with_stats.
    destruct (m_finished m); [cbn [fst snd]; repeat split; try assumption; discriminate|].
    rewrite (finalize_finalized _ _ _ _ HF). cbn [fst snd m_writer]. repeat split; try assumption; discriminate.
  - destruct (step_keeps m o Hne) as (A & _ & C & _).
    split; [congruence|]. split; [exact A|]. intros s. apply step_not_stats. exact Hne.
Qed.

Lemma run_finalized : forall ops m,
  w_finalized (m_writer m) = true ->
  w_sink (m_writer (fst (run m ops))) = w_sink (m_writer m) /\
  forall s, ~ In (RStats s) (snd (run m ops)).
Proof.
  induction ops as [|o t IH]; intros m HF; cbn [run].
  - cbn [fst snd]. split; [reflexivity|]. intros s [].
  - destruct (step_finalized m o HF) as (A & B & C).
    destruct (step m o) as [m1 r] eqn:ES. cbn [fst snd] in A, B, C.
    destruct (IH m1 A) as (I1 & I2).
    destruct r as [|st|e|p].
    + destruct (run m1 t) as [m2 rs]. cbn [fst snd] in *. split; [congruence|].
      intros s [H|H]; [discriminate|]. exact (I2 s H).
    + exfalso. exact (C st eq_refl).
    + destruct (run m1 t) as [m2 rs]. cbn [fst snd] in *. split; [congruence|].
      intros s [H|H]; [discriminate|]. exact (I2 s H).
    + cbn [fst snd]. split; [exact B|]. intros s [H|[]]. discriminate.
Qed.

Lemma w_audio_write_video w pts dts data key w' :
  write_video_sample_with_dts w pts dts data key = inl w' -> w_audio w' = w_audio w.
Proof.
  unfold write_video_sample_with_dts, push_video. intros H.
  repeat (break_match; try discriminate); inversion H; subst; reflexivity.
Qed.

Lemma w_audio_write_audio w pts data w' :
  write_audio_sample w pts data = inl w' -> w_audio w' = w_audio w.
Proof.
  unfold write_audio_sample. intros H. cbv zeta in H.
  repeat (break_match; try discriminate); inversion H; subst; cbn [w_audio]; congruence.
Qed.

Lemma w_audio_finalize w v m fs : w_audio (fst (finalize w v m fs)) = w_audio w.
Proof.
  unfold finalize.
  destruct (w_finalized w); [reflexivity|].
  destruct ((U16MAX <? vt_width v) || (U16MAX <? vt_height v)); [reflexivity|].
  destruct (param_sets_too_long (w_vconfig w)) eqn:Gps; [reflexivity|].
  destruct (if fs then finalize_fast_start w v m (effective_config w)
            else finalize_standard w v m (effective_config w)) as [bufs term].
  destruct (run_plan bufs (w_bytes_written w) (w_sink w)) as [[bw s] e].
  destruct e as [k|]; [reflexivity|]. destruct term as [t|]; reflexivity.
Qed.

Lemma w_audio_step a m o : w_audio (m_writer m) = a -> w_audio (m_writer (fst (step m o))) = a.
Proof.
  apply (P_step (fun w => w_audio w = a)).
  - intros w pts dts data key w' H1 H2. rewrite (w_audio_write_video _ _ _ _ _ _ H2). exact H1.
  - intros w pts data w' H1 H2. rewrite (w_audio_write_audio _ _ _ _ H2). exact H1.
  - intros w v md fs H. rewrite w_audio_finalize. exact H.
Qed.

Definition Good (a : option audio_track) (m : muxer) : Prop :=
  Inv m /\ SInv (m_writer m) /\ w_audio (m_writer m) = a.

Lemma Good_step a m o : Good a m -> Good a (fst (step m o)).
Proof.
  intros (I & S & A). split; [apply step_Inv; exact I|]. split; [apply SInv_step; exact S|].
  apply w_audio_step. exact A.
Qed.

Lemma finished_file_gen a : forall ops m m' rs s,
  Good a m -> w_finalized (m_writer m) = false ->
  run m ops = (m', rs) -> In (RStats s) rs ->
  len (sink_of m') < 4294967296 ->
  structure_ok a (sink_of m').
Proof.
  induction ops as [|o t IH]; intros m m' rs s HG HF HR HIn Hlen; cbn [run] in HR.
  - inversion HR; subst. destruct HIn.
  - pose proof (Good_step a m o HG) as HG1.
    destruct (step m o) as [m1 r] eqn:ES. cbn [fst] in HG1.
    assert (Hstats : forall st, r = RStats st -> structure_ok a (sink_of m')).
    { intros st ->.
      assert (o = FIN).
      { destruct o; try reflexivity; exfalso;
          eapply (step_not_stats m); try (rewrite ES; reflexivity); discriminate. }
      subst o.
      destruct (finish_ok_shape _ _ _ ES) as (w1 & Fz & Hw1 & _).
      destruct (finalize_ok_plan _ _ _ _ _ Fz) as (_ & bufs & bw & sk & Hplan & Hrun & Ew1).
      destruct HG as ((Iscr & Iempty & _) & ((Sv & Sa) & SA) & Aud).
      destruct (run_plan_nil_script _ _ _ _ _ _ Iscr Hrun) as (_ & _ & Hbytes & _).
      destruct (Iempty HF) as (Hsink0 & _). rewrite Hsink0 in Hbytes. cbn [app] in Hbytes.
      assert (HF1 : w_finalized (m_writer m1) = true) by (rewrite Hw1, Ew1; reflexivity).
      assert (Hsk : w_sink (m_writer m') = sk).
      { destruct (run_finalized t m1 HF1) as (K & _).
        destruct (run m1 t) as [m2 rs2] eqn:ER. cbn [fst] in K.
        injection HR as Hm Hrs. rewrite <- Hm, K, Hw1, Ew1. reflexivity. }
      unfold sink_of in *. rewrite Hsk, Hbytes in *.
      unfold structure_ok. rewrite <- Aud.
      exact (progressive_plan_is_wellformed _ _ _ _ _ Sv Sa SA Hplan Hlen). }
    destruct (w_finalized (m_writer m1)) eqn:HF1.
    + (* finalized by this step: only this step can have reported statistics *)
      destruct (run_finalized t m1 HF1) as (_ & Kno).
      destruct r as [|st|e|p].
      * destruct (run m1 t) as [m2 rs2]. cbn [snd] in Kno. inversion HR; subst.
        destruct HIn as [H|H]; [discriminate|]. destruct (Kno s H).
      * apply (Hstats st eq_refl).
      * destruct (run m1 t) as [m2 rs2]. cbn [snd] in Kno. inversion HR; subst.
        destruct HIn as [H|H]; [discriminate|]. destruct (Kno s H).
      * inversion HR; subst. destruct HIn as [H|[]]. discriminate.
    + destruct r as [|st|e|p].
      * destruct (run m1 t) as [m2 rs2] eqn:ER. inversion HR; subst.
        destruct HIn as [H|H]; [discriminate|]. exact (IH m1 m' rs2 s HG1 HF1 ER H Hlen).
      * apply (Hstats st eq_refl).
      * destruct (run m1 t) as [m2 rs2] eqn:ER. inversion HR; subst.
        destruct HIn as [H|H]; [discriminate|]. exact (IH m1 m' rs2 s HG1 HF1 ER H Hlen).
      * inversion HR; subst. destruct HIn as [H|[]]. discriminate.
Qed.

Theorem finished_file_is_wellformed : forall b m0 ops m rs s,
  build b [] = inl m0 -> run m0 ops = (m, rs) -> In (RStats s) rs ->
  len (sink_of m) < 4294967296 ->
  check_file_structure (match m_audio m0 with Some _ => true | None => false end) (sink_of m) = true.
Proof.
  intros b m0 ops m rs s Hb HR HIn Hlen.
  apply (finished_file_gen (m_audio m0) ops m0 m rs s); try assumption.
  - split; [exact (Inv_reachable b m0 [] Hb)|].
    split; [exact (SInv_reachable b [] m0 [] Hb)|].
    unfold build in Hb. destruct (b_video b) as [[[codec w] h]|]; [|discriminate].
    inversion Hb; subst m0. reflexivity.
  - destruct (build_initial _ _ Hb) as (_ & _ & _ & D & _). exact D.
Qed.
Print Assumptions finished_file_is_wellformed.
