(** Byte-level lemmas: big-endian round trips, lengths, box header round trip. *)
From Coq Require Import Lia ZifyN ZifyNat ZifyBool.
From Muxide Require Import Model.Base Model.Boxes Spec.Bmff.
Open Scope N_scope.
Ltac Zify.zify_post_hook ::= Z.div_mod_to_equations.

Lemma len_app {A} (a b : list A) : len (a ++ b) = len a + len b.
Proof. unfold len. rewrite app_length. lia. Qed.

Lemma len_nil {A} : len (@nil A) = 0.
Proof. reflexivity. Qed.

Lemma len_cons {A} (x : A) l : len (x :: l) = 1 + len l.
Proof. unfold len. cbn [length]. lia. Qed.

Lemma be32_length x : length (be32 x) = 4%nat.
Proof. reflexivity. Qed.

Lemma len_be32 x : len (be32 x) = 4.
Proof. reflexivity. Qed.

Lemma be16_length x : length (be16 x) = 2%nat.
Proof. reflexivity. Qed.

Lemma rd32_be32 x r : x < 4294967296 -> rd32 (be32 x ++ r) = Some (x, r).
Proof.
  intros H. unfold be32, rd32. cbn [app].
  f_equal. f_equal. lia.
Qed.

Lemma rd16_be16 x r : x < 65536 -> rd16 (be16 x ++ r) = Some (x, r).
Proof.
  intros H. unfold be16, rd16. cbn [app]. f_equal. f_equal. lia.
Qed.

Lemma take_app_exact {A} (a b : list A) : take (len a) (a ++ b) = a.
Proof.
  unfold take, len. rewrite Nat2N.id.
  rewrite firstn_app, Nat.sub_diag, firstn_all. cbn. apply app_nil_r.
Qed.

Lemma drop_app_exact {A} (a b : list A) : drop (len a) (a ++ b) = b.
Proof.
  unfold drop, len. rewrite Nat2N.id.
  rewrite skipn_app, Nat.sub_diag, skipn_all. reflexivity.
Qed.

(** The generic reader recovers type, payload and remainder of any box the
    model's [build_box] emits, as long as the size fits the 32-bit field. *)
Lemma parse_box_build_box t0 t1 t2 t3 p r :
  8 + len p < 4294967296 ->
  parse_box (build_box [t0; t1; t2; t3] p ++ r) = Some ([t0; t1; t2; t3], p, r).
Proof.
  intros H. unfold parse_box, build_box.
  rewrite <- !app_assoc. rewrite rd32_be32 by exact H.
  cbn [app].
  replace (8 + len p <? 8) with false by lia.
  replace (8 + len p - 8) with (len p) by lia.
  rewrite len_app.
  replace (len p + len r <? len p) with false by lia.
  rewrite take_app_exact, drop_app_exact. reflexivity.
Qed.

Lemma len_build_box t p : len (build_box t p) = 4 + len t + len p.
Proof. unfold build_box. rewrite !len_app, len_be32. lia. Qed.
