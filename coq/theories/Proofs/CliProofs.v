(** Proofs about the CLI shell model (Model/Cli.v): the info walk, the validate
    verdict, hex decoding and the mux command's success/failure behaviour. *)
From Coq Require Import Lia ZifyN ZifyNat ZifyBool.
From Muxide Require Import Model.Base Model.Boxes Model.F64 Model.Writer Model.Api Model.Cli Proofs.BaseProofs.
Open Scope N_scope.
Ltac Zify.zify_post_hook ::= Z.div_mod_to_equations.

(** * L1/L2: the info walk *)

Lemma info_walk_f_S f buf offset :
  info_walk_f (S f) buf offset =
  match rd32 buf with
  | Some (size, t0 :: t1 :: t2 :: t3 :: _) =>
      if size =? 0 then []
      else if len buf <? size then [IInvalid size offset]
      else IBox [t0; t1; t2; t3] size offset :: info_walk_f f (drop size buf) (offset + size)
  | _ => []
  end.
Proof. reflexivity. Qed.

Fixpoint expected_entries (bs : list (bytes * bytes)) (off : N) : list info_entry :=
  match bs with
  | [] => []
  | (t, p) :: r => IBox t (8 + len p) off :: expected_entries r (off + 8 + len p)
  end.

Lemma length_build_box t p : length (build_box t p) = (4 + length t + length p)%nat.
Proof. unfold build_box. rewrite !app_length, be32_length. lia. Qed.

Lemma info_walk_f_boxes : forall (bs : list (bytes * bytes)) (fuel : nat) (off : N),
  Forall (fun tp => length (fst tp) = 4%nat /\ 8 + len (snd tp) < 4294967296) bs ->
  (length (concat (map (fun tp => build_box (fst tp) (snd tp)) bs)) < fuel)%nat ->
  info_walk_f fuel (concat (map (fun tp => build_box (fst tp) (snd tp)) bs)) off = expected_entries bs off.
Proof.
  induction bs as [|[t p] r IH]; intros fuel off HF Hfuel.
  - destruct fuel as [|f]; reflexivity.
  - inversion HF as [|x l [Ht Hp] HF']; subst x l. cbn [fst snd] in Ht, Hp.
    destruct t as [|t0 [|t1 [|t2 [|t3 [|t4 t']]]]]; try discriminate Ht.
    cbn [map concat fst snd expected_entries] in *.
    set (rest := concat (map (fun tp => build_box (fst tp) (snd tp)) r)) in *.
    destruct fuel as [|f]; [lia|].
    rewrite app_length, length_build_box in Hfuel. cbn [length] in Hfuel.
    rewrite info_walk_f_S.
    assert (Hrd : rd32 (build_box [t0; t1; t2; t3] p ++ rest)
                  = Some (8 + len p, t0 :: t1 :: t2 :: t3 :: p ++ rest)).
    { unfold build_box. rewrite <- !app_assoc. rewrite rd32_be32 by exact Hp. reflexivity. }
    rewrite Hrd.
    assert (Hlen : len (build_box [t0; t1; t2; t3] p) = 8 + len p).
    { rewrite len_build_box. change (len [t0; t1; t2; t3]) with 4. lia. }
    replace (8 + len p =? 0) with false by lia.
    rewrite len_app, Hlen.
    replace (8 + len p + len rest <? 8 + len p) with false by lia.
    rewrite <- Hlen at 2. rewrite drop_app_exact.
    rewrite IH; [| exact HF' | lia].
    rewrite N.add_assoc. reflexivity.
Qed.

(* L1: info lists precisely the top-level boxes of a well-formed file *)
Theorem info_lists_top_level_boxes : forall (bs : list (bytes * bytes)),
  bs <> [] ->
  Forall (fun tp => length (fst tp) = 4%nat /\ 8 + len (snd tp) < 4294967296) bs ->
  info_walk (concat (map (fun tp => build_box (fst tp) (snd tp)) bs)) = Some (expected_entries bs 0).
Proof.
  intros bs Hne HF. unfold info_walk.
  destruct bs as [|[t p] r]; [congruence|].
  assert (Hsmall : len (concat (map (fun tp => build_box (fst tp) (snd tp)) ((t, p) :: r))) <? 8 = false).
  { cbn [map concat fst snd]. rewrite len_app, len_build_box.
    inversion HF as [|x l [Ht Hp] HF']; subst x l. cbn [fst] in Ht.
    unfold len at 1. rewrite Ht. lia. }
  rewrite Hsmall. f_equal.
  apply info_walk_f_boxes; [exact HF | lia].
Qed.
Print Assumptions info_lists_top_level_boxes.

Lemma length_drop_lt (size : N) (buf : bytes) :
  (size =? 0) = false -> (len buf <? size) = false ->
  (length (drop size buf) < length buf)%nat.
Proof.
  intros H0 H1. unfold drop. rewrite skipn_length. unfold len in H1. lia.
Qed.

Lemma info_walk_f_fuel_irrelevant : forall (n m : nat) (buf : bytes) (off : N),
  (length buf < n)%nat -> (length buf < m)%nat -> info_walk_f n buf off = info_walk_f m buf off.
Proof.
  induction n as [|n IH]; intros m buf off Hn Hm; [lia|].
  destruct m as [|m]; [lia|].
  rewrite !info_walk_f_S.
  destruct (rd32 buf) as [[size rest]|]; [|reflexivity].
  destruct rest as [|t0 [|t1 [|t2 [|t3 rest']]]]; try reflexivity.
  destruct (size =? 0) eqn:E0; [reflexivity|].
  destruct (len buf <? size) eqn:E1; [reflexivity|].
  f_equal. pose proof (length_drop_lt size buf E0 E1) as Hlt.
  apply IH; lia.
Qed.

(* L2: termination on arbitrary contents *)
Theorem info_walk_fuel_is_enough : forall (file : bytes) (off : N) (n : nat),
  (length file < n)%nat -> info_walk_f n file off = info_walk_f (S (length file)) file off.
Proof.
  intros file off n Hn. apply info_walk_f_fuel_irrelevant; lia.
Qed.
Print Assumptions info_walk_fuel_is_enough.

Theorem info_walk_is_bounded : forall (file : bytes) (off : N) (n : nat),
  (length (info_walk_f n file off) <= length file)%nat.
Proof.
  intros file off n. revert file off.
  induction n as [|n IH]; intros buf off; [cbn [info_walk_f length]; lia|].
  rewrite info_walk_f_S.
  destruct (rd32 buf) as [[size rest]|] eqn:Erd; [|cbn [length]; lia].
  destruct rest as [|t0 [|t1 [|t2 [|t3 rest']]]]; try (cbn [length]; lia).
  destruct (size =? 0) eqn:E0; [cbn [length]; lia|].
  destruct (len buf <? size) eqn:E1.
  - unfold rd32 in Erd.
    destruct buf as [|b0 [|b1 [|b2 [|b3 r]]]]; try discriminate Erd.
    cbn [length]. lia.
  - cbn [length]. pose proof (length_drop_lt size buf E0 E1) as Hlt.
    specialize (IH (drop size buf) (off + size)). lia.
Qed.
Print Assumptions info_walk_is_bounded.

(** * L3/L4: validate verdict and hex decoding *)

Definition is_hex_text (text : bytes) : Prop :=
  ascii text = true /\
  let h := filter (fun c => negb (is_ws c)) text in
  h <> [] /\ Nat.even (length h) = true /\ Forall (fun c => hexdigit c <> None) h.

Lemma forallb_hexdigit (h : bytes) :
  forallb (fun c => match hexdigit c with Some _ => true | None => false end) h = true <->
  Forall (fun c => hexdigit c <> None) h.
Proof.
  rewrite forallb_forall, Forall_forall. split; intros H x Hx; specialize (H x Hx).
  - destruct (hexdigit x); congruence.
  - destruct (hexdigit x); congruence.
Qed.

Lemma hex_file_valid_spec (i : input) :
  hex_file_valid i = true <-> exists text, i = Present text /\ is_hex_text text.
Proof.
  destruct i as [|text]; cbn [hex_file_valid].
  - split; [discriminate|]. intros [text [H _]]. discriminate H.
  - unfold is_hex_text. cbv zeta.
    rewrite !andb_true_iff, forallb_hexdigit.
    split.
    + intros [Ha [[Hne Hev] Hall]]. exists text. split; [reflexivity|].
      split; [exact Ha|]. split; [|split; assumption].
      intros E. rewrite E in Hne. discriminate Hne.
    + intros [text' [Heq [Ha [Hne [Hev Hall]]]]]. injection Heq as Heq'; subst text'.
      split; [exact Ha|]. split; [split; [|exact Hev] | exact Hall].
      destruct (filter (fun c => negb (is_ws c)) text); [congruence | reflexivity].
Qed.

(* L3: the validate verdict, declaratively *)
Theorem validate_verdict_spec : forall v a,
  validate_verdict v a = true <->
  ((v <> None \/ a <> None) /\
   (forall i, (v = Some i \/ a = Some i) -> exists text, i = Present text /\ is_hex_text text)).
Proof.
  intros v a. unfold validate_verdict. rewrite !andb_true_iff.
  split.
  - intros [[Hv Ha] Hsome]. split.
    + destruct v; [left; discriminate|]. destruct a; [right; discriminate|]. discriminate Hsome.
    + intros i [Hi|Hi]; subst; apply hex_file_valid_spec; assumption.
  - intros [Hsome Hall]. split; [split|].
    + destruct v as [i|]; [|reflexivity]. apply hex_file_valid_spec. apply Hall. left; reflexivity.
    + destruct a as [i|]; [|reflexivity]. apply hex_file_valid_spec. apply Hall. right; reflexivity.
    + destruct v; [reflexivity|]. destruct a; [reflexivity|]. destruct Hsome as [H|H]; congruence.
Qed.
Print Assumptions validate_verdict_spec.

Lemma hex_pairs_ok : forall (n : nat) (h : bytes),
  length h = (2 * n)%nat -> Forall (fun c => hexdigit c <> None) h ->
  exists d, hex_pairs h = Some d /\ length d = n.
Proof.
  induction n as [|n IH]; intros h Hlen Hall.
  - destruct h; [|discriminate Hlen]. exists []. split; reflexivity.
  - destruct h as [|a [|b t]]; try (cbn [length] in Hlen; lia).
    inversion Hall as [|x l Ha Hall']; subst x l.
    inversion Hall' as [|x l Hb Hall'']; subst x l.
    cbn [length] in Hlen.
    destruct (IH t) as [d [Hd Hdl]]; [lia | exact Hall'' |].
    cbn [hex_pairs]. rewrite Hd.
    destruct (hexdigit a) as [x|]; [|congruence].
    destruct (hexdigit b) as [y|]; [|congruence].
    exists (16 * x + y :: d). split; [reflexivity|]. cbn [length]. lia.
Qed.

(* L4: hex decoding: valid hex text decodes (never "panics"), to half as many bytes *)
Theorem valid_hex_decodes : forall text, is_hex_text text ->
  exists d, read_hex_bytes text = Some d /\
            (2 * length d = length (filter (fun c => negb (is_ws c)) text))%nat /\ d <> [].
Proof.
  intros text [Ha Hrest]. cbv zeta in Hrest. unfold read_hex_bytes.
  set (h := filter (fun c => negb (is_ws c)) text) in *.
  destruct Hrest as [Hne [Hev Hall]].
  apply Nat.even_spec in Hev. destruct Hev as [n Hn].
  destruct (hex_pairs_ok n h Hn Hall) as [d [Hd Hdl]].
  exists d. split; [exact Hd|]. split; [lia|].
  intros ->. cbn [length] in Hdl. subst n. destruct h; [congruence | discriminate Hn].
Qed.
Print Assumptions valid_hex_decodes.

(** * L5/L6: the mux command *)

(* the pieces of [mux_command], named *)
Definition vcfg_of (o : mux_opts) : option (option (video_codec * N * N)) :=
  match mo_video o, mo_width o, mo_height o, mo_fps_ok o with
  | Some _, Some w, Some h, Some fps =>
      if (320 <=? w) && (240 <=? h) && (w <=? 4096) && (h <=? 2160) && fps
      then Some (Some (match mo_vcodec o with Some c => c | None => H264 end, w, h))
      else None
  | _, _, _, _ => Some None
  end.

Definition acfg_of (o : mux_opts) : option (option (audio_codec * N * N)) :=
  match mo_audio o, mo_rate o, mo_channels o with
  | Some _, Some r, Some ch =>
      let codec := match mo_acodec o with Some c => c | None => Aac Lc end in
      if (match codec with NoAudio => false | _ => true end) &&
         (0 <? r) && (r <=? 192000) && (0 <? ch) && (ch <=? 8)
      then Some (Some (codec, r, ch))
      else None
  | _, _, _ => Some None
  end.

Definition builder_of (o : mux_opts) (v : option (video_codec * N * N)) (a : option (audio_codec * N * N)) : builder :=
  let b0 := {| b_video := v; b_audio := a; b_meta := None; b_fast := true;
               b_sps := None; b_pps := None; b_vps := None; b_av1 := None; b_vp9 := None |} in
  let b1 := match mo_title o with
            | Some t => bstep b0 (BWithMetadata {| md_title := Some t; md_creation_time := None; md_language := None |})
            | None => b0 end in
  match mo_language o with Some l => bstep b1 (BSetLanguage l) | None => b1 end.

Definition vstep_of (m0 : muxer) (vi : option input) : option (muxer * N) :=
  match vi with
  | Some Missing => None
  | Some (Present text) =>
      if negb (ascii text) then None
      else match read_hex_bytes text with
           | Some d => match write_video m0 F64.f_zero d true with
                       | (m1, None) => Some (m1, 1)
                       | (_, Some _) => None
                       end
           | None => None
           end
  | None => Some (m0, 0)
  end.

Definition astep_of (m1 : muxer) (ai : option input) : option (muxer * N) :=
  match ai with
  | Some Missing => None
  | Some (Present text) =>
      if negb (ascii text) then None
      else match read_hex_bytes text with
           | Some d => match write_audio m1 F64.f_zero d with
                       | (m2, None) => Some (m2, 1)
                       | (_, Some _) => None
                       end
           | None => None
           end
  | None => Some (m1, 0)
  end.

Definition mux_tail (m0 : muxer) (vi ai : option input) : cli_outcome :=
  match vstep_of m0 vi with
  | None => CliFail
  | Some (m1, nv) =>
      match astep_of m1 ai with
      | None => CliFail
      | Some (m2, na) =>
          match finish_in_place_with_stats m2 with
          | (m3, FOk _) => CliOk (Some (sink_of m3)) nv na
          | (_, _) => CliFail
          end
      end
  end.

Definition mux_exec (o : mux_opts) : cli_outcome :=
  match vcfg_of o, acfg_of o with
  | Some v, Some a =>
      match build (builder_of o v a) [] with
      | inr _ => CliFail
      | inl m0 => mux_tail m0 (mo_video o) (mo_audio o)
      end
  | _, _ => CliFail
  end.

Lemma mux_command_eq (o : mux_opts) :
  mux_command o =
  match mo_video o, mo_audio o with
  | None, None => CliFail
  | _, _ =>
    if (match mo_video o with Some _ => negb (all_some3 (mo_width o) (mo_height o) (mo_fps_ok o)) | None => false end) then CliFail
    else if (match mo_audio o with Some _ => negb (match mo_rate o, mo_channels o with Some _, Some _ => true | _, _ => false end) | None => false end) then CliFail
    else if mo_dry_run o then
      (if (match mo_video o with Some Missing => true | _ => false end) ||
          (match mo_audio o with Some Missing => true | _ => false end) then CliFail
       else CliOk None 0 0)
    else if negb (mo_output_creatable o) then CliFail
    else if mo_fragmented o then CliFail
    else mux_exec o
  end.
Proof. reflexivity. Qed.

Lemma mux_command_some_exec (o : mux_opts) f nv na :
  mux_command o = CliOk (Some f) nv na -> mux_exec o = CliOk (Some f) nv na.
Proof.
  rewrite mux_command_eq. intros H.
  assert (Hchain :
    (if (match mo_video o with Some _ => negb (all_some3 (mo_width o) (mo_height o) (mo_fps_ok o)) | None => false end) then CliFail
    else if (match mo_audio o with Some _ => negb (match mo_rate o, mo_channels o with Some _, Some _ => true | _, _ => false end) | None => false end) then CliFail
    else if mo_dry_run o then
      (if (match mo_video o with Some Missing => true | _ => false end) ||
          (match mo_audio o with Some Missing => true | _ => false end) then CliFail
       else CliOk None 0 0)
    else if negb (mo_output_creatable o) then CliFail
    else if mo_fragmented o then CliFail
    else mux_exec o) = CliOk (Some f) nv na).
  { destruct (mo_video o) as [vi|]; [exact H|]. destruct (mo_audio o) as [ai|]; [exact H | discriminate H]. }
  clear H.
  destruct (match mo_video o with Some _ => negb (all_some3 (mo_width o) (mo_height o) (mo_fps_ok o)) | None => false end) eqn:E1;
    [discriminate Hchain|].
  destruct (match mo_audio o with Some _ => negb (match mo_rate o, mo_channels o with Some _, Some _ => true | _, _ => false end) | None => false end) eqn:E2;
    [discriminate Hchain|].
  destruct (mo_dry_run o) eqn:E3.
  { destruct ((match mo_video o with Some Missing => true | _ => false end) ||
              (match mo_audio o with Some Missing => true | _ => false end)) eqn:E4; discriminate Hchain. }
  destruct (negb (mo_output_creatable o)) eqn:E5; [discriminate Hchain|].
  destruct (mo_fragmented o) eqn:E6; [discriminate Hchain|].
  exact Hchain.
Qed.

Lemma decode64_zero : decode64 0 = f_zero.
Proof. reflexivity. Qed.

Lemma vstep_of_spec m0 vi m1 nv :
  vstep_of m0 vi = Some (m1, nv) ->
  (m1 = m0 /\ nv = 0) \/ (exists d, step m0 (WV 0 d true) = (m1, ROk) /\ nv = 1).
Proof.
  unfold vstep_of. intros H.
  destruct vi as [[|text]|].
  - discriminate H.
  - destruct (negb (ascii text)) eqn:Ea; [discriminate H|].
    destruct (read_hex_bytes text) as [d|] eqn:Ed; [|discriminate H].
    destruct (write_video m0 f_zero d true) as [m1' [e|]] eqn:Hw; [discriminate H|].
    injection H as Hm Hn. subst m1' nv.
    right. exists d. split; [|reflexivity].
    cbn [step]. rewrite decode64_zero, Hw. reflexivity.
  - injection H as Hm Hn. left. split; congruence.
Qed.

Lemma astep_of_spec m1 ai m2 na :
  astep_of m1 ai = Some (m2, na) ->
  (m2 = m1 /\ na = 0) \/ (exists d, step m1 (WA 0 d) = (m2, ROk) /\ na = 1).
Proof.
  unfold astep_of. intros H.
  destruct ai as [[|text]|].
  - discriminate H.
  - destruct (negb (ascii text)) eqn:Ea; [discriminate H|].
    destruct (read_hex_bytes text) as [d|] eqn:Ed; [|discriminate H].
    destruct (write_audio m1 f_zero d) as [m2' [e|]] eqn:Hw; [discriminate H|].
    injection H as Hm Hn. subst m2' na.
    right. exists d. split; [|reflexivity].
    cbn [step]. rewrite decode64_zero, Hw. reflexivity.
  - injection H as Hm Hn. left. split; congruence.
Qed.

Lemma run_cons_ok m o t m' :
  step m o = (m', ROk) -> run m (o :: t) = (fst (run m' t), ROk :: snd (run m' t)).
Proof.
  intros H. cbn [run]. rewrite H. destruct (run m' t) as [m'' rs]. reflexivity.
Qed.

Lemma run_fin_ok m m' s :
  finish_in_place_with_stats m = (m', FOk s) -> run m [FIN] = (m', [RStats s]).
Proof.
  intros H. cbn [run step]. rewrite H. reflexivity.
Qed.

Definition ok_result (r : result) : Prop := match r with ROk | RStats _ => True | _ => False end.

Lemma mux_tail_spec m0 vi ai f nv na :
  mux_tail m0 vi ai = CliOk (Some f) nv na ->
  exists vops aops m rs,
    run m0 (vops ++ aops ++ [FIN]) = (m, rs) /\ f = sink_of m /\
    Forall ok_result rs /\
    nv = N.of_nat (length vops) /\ na = N.of_nat (length aops) /\
    (forall x, In x vops -> exists d, x = WV 0 d true) /\ (forall x, In x aops -> exists d, x = WA 0 d) /\
    (length vops <= 1)%nat /\ (length aops <= 1)%nat.
Proof.
  unfold mux_tail. intros H.
  destruct (vstep_of m0 vi) as [[m1 nv']|] eqn:Hv; [|discriminate H].
  destruct (astep_of m1 ai) as [[m2 na']|] eqn:Ha; [|discriminate H].
  destruct (finish_in_place_with_stats m2) as [m3 [s|e|p]] eqn:Hf; try discriminate H.
  injection H as Hfile Hnv Hna. subst f nv' na'.
  apply vstep_of_spec in Hv. apply astep_of_spec in Ha.
  pose proof (run_fin_ok m2 m3 s Hf) as Hfin.
  destruct Hv as [[Hm1 Hnv]|[dv [Hsv Hnv]]]; destruct Ha as [[Hm2 Hna]|[da [Hsa Hna]]]; subst.
  - exists [], [], m3, [RStats s]. cbn [app length].
    refine (conj Hfin (conj eq_refl (conj _ (conj eq_refl (conj eq_refl (conj _ (conj _ (conj _ _)))))))).
    + repeat constructor.
    + intros x [].
    + intros x [].
    + lia.
    + lia.
  - exists [], [WA 0 da], m3, [ROk; RStats s]. cbn [app length].
    rewrite (run_cons_ok _ _ _ _ Hsa), Hfin. cbn [fst snd].
    refine (conj eq_refl (conj eq_refl (conj _ (conj eq_refl (conj eq_refl (conj _ (conj _ (conj _ _)))))))).
    + repeat constructor.
    + intros x [].
    + intros x [Hx|[]]. exists da. congruence.
    + lia.
    + lia.
  - exists [WV 0 dv true], [], m3, [ROk; RStats s]. cbn [app length].
    rewrite (run_cons_ok _ _ _ _ Hsv), Hfin. cbn [fst snd].
    refine (conj eq_refl (conj eq_refl (conj _ (conj eq_refl (conj eq_refl (conj _ (conj _ (conj _ _)))))))).
    + repeat constructor.
    + intros x [Hx|[]]. exists dv. congruence.
    + intros x [].
    + lia.
    + lia.
  - exists [WV 0 dv true], [WA 0 da], m3, [ROk; ROk; RStats s]. cbn [app length].
    rewrite (run_cons_ok _ _ _ _ Hsv), (run_cons_ok _ _ _ _ Hsa), Hfin. cbn [fst snd].
    refine (conj eq_refl (conj eq_refl (conj _ (conj eq_refl (conj eq_refl (conj _ (conj _ (conj _ _)))))))).
    + repeat constructor.
    + intros x [Hx|[]]. exists dv. congruence.
    + intros x [Hx|[]]. exists da. congruence.
    + lia.
    + lia.
Qed.

(* L5 *)
Theorem mux_success_is_library_output : forall o f nv na,
  mux_command o = CliOk (Some f) nv na ->
  exists b m0 vops aops m rs,
    build b [] = inl m0 /\
    run m0 (vops ++ aops ++ [FIN]) = (m, rs) /\ f = sink_of m /\
    Forall (fun r => match r with ROk | RStats _ => True | _ => False end) rs /\
    nv = N.of_nat (length vops) /\ na = N.of_nat (length aops) /\
    (forall x, In x vops -> exists d, x = WV 0 d true) /\ (forall x, In x aops -> exists d, x = WA 0 d) /\
    (length vops <= 1)%nat /\ (length aops <= 1)%nat.
Proof.
  intros o f nv na H. apply mux_command_some_exec in H.
  unfold mux_exec in H.
  destruct (vcfg_of o) as [v|]; [|discriminate H].
  destruct (acfg_of o) as [a|]; [|discriminate H].
  destruct (build (builder_of o v a) []) as [m0|e] eqn:Hb; [|discriminate H].
  apply mux_tail_spec in H.
  destruct H as [vops [aops [m [rs H]]]].
  exists (builder_of o v a), m0, vops, aops, m, rs.
  split; [exact Hb | exact H].
Qed.
Print Assumptions mux_success_is_library_output.

(* L6 *)
Theorem mux_fails_without_inputs : forall o, mo_video o = None -> mo_audio o = None -> mux_command o = CliFail.
Proof.
  intros o Hv Ha. rewrite mux_command_eq, Hv, Ha. reflexivity.
Qed.
Print Assumptions mux_fails_without_inputs.

Theorem mux_fails_on_missing_video_file : forall o, mo_video o = Some Missing -> mux_command o = CliFail.
Proof.
  intros o Hv. rewrite mux_command_eq.
  assert (Hexec : mux_exec o = CliFail).
  { unfold mux_exec.
    destruct (vcfg_of o) as [v|]; [|reflexivity].
    destruct (acfg_of o) as [a|]; [|reflexivity].
    destruct (build (builder_of o v a) []) as [m0|e]; [|reflexivity].
    rewrite Hv. reflexivity. }
  rewrite Hexec, Hv. cbv iota. cbn [orb].
  destruct (negb (all_some3 (mo_width o) (mo_height o) (mo_fps_ok o))); [reflexivity|].
  destruct (match mo_audio o with Some _ => negb (match mo_rate o, mo_channels o with Some _, Some _ => true | _, _ => false end) | None => false end);
    [reflexivity|].
  destruct (mo_dry_run o); [reflexivity|].
  destruct (negb (mo_output_creatable o)); [reflexivity|].
  destruct (mo_fragmented o); reflexivity.
Qed.
Print Assumptions mux_fails_on_missing_video_file.

Theorem mux_fails_on_incomplete_video_parameters : forall o i,
  mo_video o = Some i -> (mo_width o = None \/ mo_height o = None \/ mo_fps_ok o = None) -> mux_command o = CliFail.
Proof.
  intros o i Hv Hor. rewrite mux_command_eq, Hv. cbv iota.
  assert (Hall : all_some3 (mo_width o) (mo_height o) (mo_fps_ok o) = false).
  { unfold all_some3.
    destruct (mo_width o) as [w|]; [|reflexivity].
    destruct (mo_height o) as [h|]; [|reflexivity].
    destruct (mo_fps_ok o) as [fps|]; [|reflexivity].
    destruct Hor as [Hx|[Hx|Hx]]; discriminate Hx. }
  rewrite Hall. reflexivity.
Qed.
Print Assumptions mux_fails_on_incomplete_video_parameters.
