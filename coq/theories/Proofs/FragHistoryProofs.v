(** Fragmented muxer, whole op sequences: the executable predicates [check_C10]
    (conservation, sequence numbers, accept/reject decisions) and [check_C11]
    (per-segment timing, base decode times across segments, stable init segment)
    of Spec/Checks.v hold on the model's own outputs, for every configuration and
    every op sequence whose flushed sample lists stay inside the 32-bit bounds. *)
From Coq Require Import Lia ZifyN ZifyNat ZifyBool List.
From Muxide Require Import Model.Base Model.Boxes Model.Frag Spec.Bmff Spec.Reader Spec.FragSpec Spec.Checks
  Proofs.FragProofs Proofs.FragStructureProofs.
Import ListNotations.
Open Scope N_scope.
Ltac Zify.zify_post_hook ::= Z.div_mod_to_equations.

Local Arguments N.add : simpl never.
Local Arguments N.sub : simpl never.
Local Arguments N.mul : simpl never.
Local Arguments N.eqb : simpl never.
Local Arguments N.ltb : simpl never.
Local Arguments N.leb : simpl never.

Definition fout_of (r : fres) : fout :=
  match r with
  | FrOk => FoOk | FrErrNonMonotonic _ _ => FoErr | FrSeg b => FoSeg b | FrBytes b => FoInit b | _ => FoOther
  end.

(* every sample list the abstract queue emits stays inside the 32-bit bounds (the complement is
   recorded finding KF-C16-4) *)
Definition seg_ok (sl : N * list frag_sample) : Prop :=
  seg_fits (snd sl) /\ 96 + 16 * len (snd sl) < 2147483648 /\ fst sl < 4294967296.

Definition all_segments_fit (ops : list fop) : Prop :=
  Forall (fun sl => seg_fits (snd sl) /\ 96 + 16 * len (snd sl) < 2147483648 /\ fst sl < 4294967296) (aq_run aq_init ops).

(** * reflexivity of the executable comparisons *)
Lemma bytes_eqb_refl' (b : bytes) : bytes_eqb b b = true.
Proof. induction b as [|x t IH]; [reflexivity|]. cbn [bytes_eqb]. rewrite N.eqb_refl, IH. reflexivity. Qed.
Lemma listN_eqb_refl' l : listN_eqb l l = true.
Proof. induction l as [|x l IH]; [reflexivity|]. cbn [listN_eqb]. rewrite N.eqb_refl, IH. reflexivity. Qed.
Lemma listZ_eqb_refl' l : listZ_eqb l l = true.
Proof. induction l as [|x l IH]; [reflexivity|]. cbn [listZ_eqb]. rewrite Z.eqb_refl, IH. reflexivity. Qed.

Lemma seg_data_eqb_sview : forall l prev, seg_data_eqb (sview prev l) l = true.
Proof.
  induction l as [|s t IH]; intros prev; [reflexivity|].
  unfold sview in *. cbn [spec_durations combine map fst snd seg_data_eqb ss_data ss_sync].
  rewrite bytes_eqb_refl', Bool.eqb_reflx, IH. reflexivity.
Qed.

Lemma seg_timing_ok_spec sq tf l :
  seg_timing_ok {| sv_seq := sq; sv_tfdt := tf; sv_samples := spec_seg_samples l |} l = true.
Proof.
  unfold seg_timing_ok. cbn [sv_samples]. rewrite spec_seg_samples_sview.
  destruct (sview_fields l None) as (H1 & H2 & _ & _). rewrite H1, H2.
  rewrite listN_eqb_refl', listZ_eqb_refl'. reflexivity.
Qed.

(** * [frun] never panics: one result per op *)
Lemma fstep_no_panic m o : snd (fstep m o) <> FrPanic.
Proof.
  destruct o as [p d b s| | | |]; cbn [fstep].
  - unfold f_write. destruct (fm_last_dts m) as [l|]; [destruct (d <? l)|]; cbn [snd]; discriminate.
  - unfold f_flush. destruct (rev (fm_samples_rev m)); cbn [snd]; discriminate.
  - cbn [snd]. discriminate.
  - cbn [snd]. discriminate.
  - destruct (f_init m). cbn [snd]. discriminate.
Qed.

Lemma frun_cons m o t :
  frun m (o :: t) = (fst (frun (fst (fstep m o)) t), snd (fstep m o) :: snd (frun (fst (fstep m o)) t)).
Proof.
  cbn [frun]. pose proof (fstep_no_panic m o) as Hnp.
  destruct (fstep m o) as [m' r]. cbn [fst snd] in *.
  destruct (frun m' t) as [m'' rs]. cbn [fst snd].
  destruct r; try reflexivity. exfalso. apply Hnp. reflexivity.
Qed.

Theorem frun_one_result_per_op : forall ops m, length (snd (frun m ops)) = length ops.
Proof.
  induction ops as [|o t IH]; intros m; [reflexivity|].
  rewrite frun_cons. cbn [snd length]. rewrite IH. reflexivity.
Qed.
Print Assumptions frun_one_result_per_op.

Theorem frun_never_panics : forall ops m, ~ In FrPanic (snd (frun m ops)).
Proof.
  induction ops as [|o t IH]; intros m; [intros []|].
  rewrite frun_cons. cbn [snd In]. intros [H|H].
  - exact (fstep_no_panic m o H).
  - exact (IH _ H).
Qed.
Print Assumptions frun_never_panics.

(** * what one step returns, per kind of op *)
Lemma write_step m p d b s :
  (snd (fstep m (FWrite p d b s)) = FrOk /\
   match aq_last (abs m) with Some l => (d <? l) = false | None => True end) \/
  (exists a c0, snd (fstep m (FWrite p d b s)) = FrErrNonMonotonic a c0 /\
   exists l, aq_last (abs m) = Some l /\ (d <? l) = true).
Proof.
  cbn [fstep abs aq_last]. unfold f_write.
  destruct (fm_last_dts m) as [l|].
  - destruct (d <? l) eqn:E; cbn [snd].
    + right. exists l, d. split; [reflexivity|]. exists l. split; [reflexivity|exact E].
    + left. split; reflexivity.
  - cbn [snd]. left. split; [reflexivity|exact I].
Qed.

Lemma flush_step m :
  (snd (fstep m FFlush) = FrSeg None /\ snd (aq_step (abs m) FFlush) = []) \/
  (exists s0 rest,
     snd (fstep m FFlush) = FrSeg (Some (build_media_segment (s0 :: rest) (fm_seq m) (fs_dts s0))) /\
     snd (aq_step (abs m) FFlush) = [(fm_seq m, s0 :: rest)] /\
     aq_pending (abs m) = s0 :: rest).
Proof.
  cbn [fstep aq_step abs aq_pending aq_seq]. unfold f_flush.
  destruct (rev (fm_samples_rev m)) as [|s0 rest]; cbn [snd].
  - left. split; reflexivity.
  - right. exists s0, rest. repeat split; reflexivity.
Qed.

Lemma other_step_emits_nothing m o :
  match o with FFlush => False | _ => True end -> snd (aq_step (abs m) o) = [].
Proof.
  destruct o as [p d b s| | | |]; intros H; try reflexivity; [|destruct H].
  cbn [aq_step]. destruct (aq_last (abs m)) as [l|]; [destruct (d <? l)|]; reflexivity.
Qed.

Lemma abs_step m o : fst (aq_step (abs m) o) = abs (fst (fstep m o)).
Proof. symmetry. apply (fstep_refines_queue m o). Qed.

Lemma aq_run_cons q o t : aq_run q (o :: t) = snd (aq_step q o) ++ aq_run (fst (aq_step q o)) t.
Proof. cbn [aq_run]. destruct (aq_step q o). reflexivity. Qed.

Lemma abs_new c : abs (fmuxer_new c) = aq_init.
Proof. reflexivity. Qed.

(** the byte-level reading of a flushed segment *)
Lemma flushed_segment_reads s0 rest sq :
  seg_ok (sq, s0 :: rest) ->
  segment_read (build_media_segment (s0 :: rest) sq (fs_dts s0)) =
    Some {| sv_seq := sq; sv_tfdt := fs_dts s0; sv_samples := spec_seg_samples (s0 :: rest) |}.
Proof.
  intros (Hfit & Hoff & Hseq). cbn [fst snd] in *.
  apply segment_roundtrip; try assumption; [discriminate|].
  destruct Hfit as (_ & _ & _ & _ & Hd). inversion Hd as [|? ? H0 _]. exact H0.
Qed.

(** * C10 *)
Definition c10_step (q : aq) (o : fop) (r : fout) : bool :=
  match o, r with
  | FWrite _ d _ _, FoOk => match aq_last q with Some l => negb (d <? l) | None => true end
  | FWrite _ d _ _, FoErr => match aq_last q with Some l => d <? l | None => false end
  | FFlush, FoSeg None => match snd (aq_step q o) with [] => true | _ => false end
  | FFlush, FoSeg (Some b) =>
      match snd (aq_step q o), segment_read b with
      | [(seq, l)], Some v => (sv_seq v =? seq) && seg_data_eqb (sv_samples v) l
      | _, _ => false
      end
  | FWrite _ _ _ _, _ | FFlush, _ => false
  | _, _ => true
  end.

Lemma check_C10_from_cons q o t r rt :
  check_C10_from q (o :: t) (r :: rt) = c10_step q o r && check_C10_from (fst (aq_step q o)) t rt.
Proof.
  cbn [check_C10_from]. unfold c10_step.
  destruct o; destruct (aq_step _ _) as [q' em]; cbn [fst snd]; reflexivity.
Qed.

Lemma c10_step_ok m o :
  Forall seg_ok (snd (aq_step (abs m) o)) ->
  c10_step (abs m) o (fout_of (snd (fstep m o))) = true.
Proof.
  intros Hfit. destruct o as [p d b s| | | |].
  - destruct (write_step m p d b s) as [[Hr Hl]|(a & c0 & Hr & l & Hl & Hd)]; rewrite Hr;
      cbn [fout_of c10_step].
    + destruct (aq_last (abs m)) as [l|]; [rewrite Hl|]; reflexivity.
    + rewrite Hl. exact Hd.
  - destruct (flush_step m) as [[Hr He]|(s0 & rest & Hr & He & _)]; rewrite Hr; cbn [fout_of c10_step].
    + rewrite He. reflexivity.
    + rewrite He in *. inversion Hfit as [|? ? Hok _]; subst.
      rewrite (flushed_segment_reads _ _ _ Hok). cbn [sv_seq sv_samples].
      rewrite N.eqb_refl, spec_seg_samples_sview, seg_data_eqb_sview. reflexivity.
  - reflexivity.
  - reflexivity.
  - cbn [fstep]. destruct (f_init m). reflexivity.
Qed.

Lemma check_C10_gen : forall ops m,
  Forall seg_ok (aq_run (abs m) ops) ->
  check_C10_from (abs m) ops (map fout_of (snd (frun m ops))) = true.
Proof.
  induction ops as [|o t IH]; intros m Hfit; [reflexivity|].
  rewrite frun_cons. cbn [snd map]. rewrite check_C10_from_cons.
  rewrite aq_run_cons in Hfit. apply Forall_app in Hfit. destruct Hfit as [Hf1 Hf2].
  rewrite c10_step_ok by exact Hf1. rewrite abs_step in *. rewrite IH by exact Hf2. reflexivity.
Qed.

Theorem fragmented_history_conserves_samples : forall (c : frag_config) (ops : list fop),
  all_segments_fit ops ->
  check_C10 ops (map fout_of (snd (frun (fmuxer_new c) ops))) = true.
Proof.
  intros c ops H. unfold check_C10. rewrite <- (abs_new c). apply check_C10_gen.
  rewrite abs_new. exact H.
Qed.
Print Assumptions fragmented_history_conserves_samples.

(** * C11 *)

(** queue invariants: every pending dts is at most the last accepted dts; and a
    lower bound [p] that every pending and every future dts respects *)
Definition qinv (q : aq) : Prop :=
  forall s, In s (aq_pending q) -> exists l, aq_last q = Some l /\ fs_dts s <= l.

Definition pinv (q : aq) (p : N) : Prop :=
  (forall s, In s (aq_pending q) -> p <= fs_dts s) /\ exists l, aq_last q = Some l /\ p <= l.

Definition opinv (q : aq) (o : option N) : Prop := forall p, o = Some p -> pinv q p.

Lemma qinv_init : qinv aq_init.
Proof. intros s []. Qed.

Lemma qinv_step q o : qinv q -> qinv (fst (aq_step q o)).
Proof.
  intros Hq. destruct o as [p d b s| | | |]; cbn [aq_step]; try exact Hq.
  - assert (Hacc : forall l0, (match aq_last q with Some l => l <= d | None => True end) ->
             l0 = aq_pending q ++ [{| fs_pts := p; fs_dts := d; fs_data := b; fs_sync := s |}] ->
             qinv {| aq_pending := l0; aq_seq := aq_seq q; aq_last := Some d |}).
    { intros l0 Hl -> x Hx. cbn [aq_pending aq_last] in *. exists d. split; [reflexivity|].
      apply in_app_or in Hx. destruct Hx as [Hx|[Hx|[]]].
      - destruct (Hq x Hx) as (l & El & Hle). rewrite El in Hl. lia.
      - subst x. cbn [fs_dts]. lia. }
    destruct (aq_last q) as [l|] eqn:El.
    + destruct (d <? l) eqn:E; cbn [fst]; [exact Hq|]. apply Hacc; [lia|reflexivity].
    + cbn [fst]. apply Hacc; [exact I|reflexivity].
  - destruct (aq_pending q) as [|x r] eqn:Ep; cbn [fst]; [exact Hq|]. intros s0 [].
Qed.

Lemma pinv_step q o p : pinv q p -> snd (aq_step q o) = [] -> pinv (fst (aq_step q o)) p.
Proof.
  intros [Hp (l & El & Hl)] Hem. destruct o as [pp d b s| | | |]; cbn [aq_step] in *;
    try (split; [exact Hp|exists l; split; [exact El|exact Hl]]).
  - rewrite El. destruct (d <? l) eqn:E; cbn [fst].
    + split; [exact Hp|exists l; split; [exact El|exact Hl]].
    + split; cbn [aq_pending aq_last].
      * intros x Hx. apply in_app_or in Hx. destruct Hx as [Hx|[Hx|[]]]; [exact (Hp x Hx)|].
        subst x. cbn [fs_dts]. lia.
      * exists d. split; [reflexivity|lia].
  - destruct (aq_pending q) as [|x r] eqn:Ep; cbn [fst snd] in *; [|discriminate].
    split; [rewrite Ep; intros s0 []|exists l; split; [exact El|exact Hl]].
Qed.

Lemma pinv_flush q s0 rest s :
  qinv q -> aq_pending q = s0 :: rest -> In s (s0 :: rest) -> pinv (fst (aq_step q FFlush)) (fs_dts s).
Proof.
  intros Hq Ep Hs. cbn [aq_step]. rewrite Ep. cbn [fst]. split; cbn [aq_pending aq_last].
  - intros x [].
  - rewrite <- Ep in Hs. exact (Hq s Hs).
Qed.

Lemma last_in {A} (l : list A) (d : A) : l <> [] -> In (last l d) l.
Proof.
  induction l as [|x t IH]; intros Hne; [congruence|].
  destruct t as [|y t']; [left; reflexivity|].
  right. apply IH. discriminate.
Qed.

Lemma opinv_step q o op : opinv q op -> snd (aq_step q o) = [] -> opinv (fst (aq_step q o)) op.
Proof. intros H Hem p Hp. apply pinv_step; [exact (H p Hp)|exact Hem]. Qed.

Lemma opinv_leb q op s0 rest :
  opinv q op -> aq_pending q = s0 :: rest ->
  match op with Some p => p <=? fs_dts s0 | None => true end = true.
Proof.
  intros H Ep. destruct op as [p|]; [|reflexivity].
  destruct (H p eq_refl) as [Hp _]. specialize (Hp s0). rewrite Ep in Hp.
  specialize (Hp (or_introl eq_refl)). lia.
Qed.

Definition kinv (k : option Z) : Prop := forall k0, k = Some k0 -> k0 = 0%Z.
Definition iinv (c : frag_config) (i : option bytes) : Prop := forall b, i = Some b -> b = init_segment_bytes c.

Lemma check_C11_from_cons q pl pt k i uc o t r rt :
  check_C11_from q pl pt k i uc (o :: t) (r :: rt) =
  let q' := fst (aq_step q o) in
  let emitted := snd (aq_step q o) in
  match o, r with
  | FFlush, FoSeg (Some b) =>
      match emitted, segment_read b with
      | [(_, (s0 :: _) as l)], Some v =>
          let tf := sv_tfdt v in
          let k1 := (Z.of_N (fs_dts s0) - Z.of_N tf)%Z in
          seg_timing_ok v l &&
          (match pt with Some p => p <=? tf | None => true end) &&
          (match pl with Some p => p <=? tf | None => true end) &&
          (if uc then match k with Some k0 => Z.eqb k1 k0 | None => true end else true) &&
          check_C11_from q' (Some (fs_dts (last l s0))) (Some tf) (Some k1) i uc t rt
      | _, _ => false
      end
  | FInit, FoInit b =>
      (match i with Some b0 => bytes_eqb b b0 | None => true end) &&
      check_C11_from q' pl pt k (Some b) uc t rt
  | _, _ => check_C11_from q' pl pt k i uc t rt
  end.
Proof.
  cbn [check_C11_from].
  destruct o; destruct (aq_step _ _) as [q' em]; cbn [fst snd]; reflexivity.
Qed.

Lemma check_C11_gen c uc : forall ops m pl pt k i,
  init_inv c m -> qinv (abs m) -> opinv (abs m) pl -> opinv (abs m) pt -> kinv k -> iinv c i ->
  Forall seg_ok (aq_run (abs m) ops) ->
  check_C11_from (abs m) pl pt k i uc ops (map fout_of (snd (frun m ops))) = true.
Proof.
  induction ops as [|o t IH]; intros m pl pt k i Hinit Hq Hpl Hpt Hk Hi Hfit; [reflexivity|].
  rewrite frun_cons. cbn [snd map]. rewrite check_C11_from_cons. cbv zeta.
  rewrite aq_run_cons in Hfit. apply Forall_app in Hfit. destruct Hfit as [Hf1 Hf2].
  destruct (fstep_init_inv c m o Hinit) as (Hinit' & Hb & _).
  pose proof (qinv_step (abs m) o Hq) as Hq'.
  pose proof (opinv_step (abs m) o pl Hpl) as Hpl'.
  pose proof (opinv_step (abs m) o pt Hpt) as Hpt'.
  destruct o as [p d b s| | | |].
  - (* write: no emission, nothing checked here *)
    pose proof (other_step_emits_nothing m (FWrite p d b s) I) as Hem.
    specialize (Hpl' Hem). specialize (Hpt' Hem). rewrite abs_step in *.
    apply IH; assumption.
  - destruct (flush_step m) as [[Hr He]|(s0 & rest & Hr & He & Ep)]; rewrite Hr; cbn [fout_of].
    + specialize (Hpl' He). specialize (Hpt' He). rewrite abs_step in *. apply IH; assumption.
    + rewrite He in *. inversion Hf1 as [|? ? Hok _]; subst.
      rewrite (flushed_segment_reads _ _ _ Hok). cbn [sv_tfdt].
      rewrite seg_timing_ok_spec.
      rewrite (opinv_leb _ _ _ _ Hpt Ep), (opinv_leb _ _ _ _ Hpl Ep).
      replace (if uc then match k with Some k0 => (Z.of_N (fs_dts s0) - Z.of_N (fs_dts s0) =? k0)%Z | None => true end
               else true) with true.
      2:{ destruct uc; [|reflexivity]. destruct k as [k0|]; [|reflexivity].
          rewrite (Hk k0 eq_refl). rewrite Z.sub_diag. reflexivity. }
      cbn [andb].
      assert (Hlast : pinv (fst (aq_step (abs m) FFlush)) (fs_dts (last (s0 :: rest) s0))).
      { apply (pinv_flush _ s0 rest); [exact Hq|exact Ep|]. apply last_in. discriminate. }
      assert (Hfirst : pinv (fst (aq_step (abs m) FFlush)) (fs_dts s0)).
      { apply (pinv_flush _ s0 rest); [exact Hq|exact Ep|left; reflexivity]. }
      rewrite abs_step in *. apply IH; try assumption.
      * intros p0 Hp0. inversion Hp0; subst p0. exact Hlast.
      * intros p0 Hp0. inversion Hp0; subst p0. exact Hfirst.
      * intros k0 Hk0. inversion Hk0. lia.
  - pose proof (other_step_emits_nothing m FReady I) as Hem.
    specialize (Hpl' Hem). specialize (Hpt' Hem). rewrite abs_step in *.
    apply IH; assumption.
  - pose proof (other_step_emits_nothing m FDur I) as Hem.
    specialize (Hpl' Hem). specialize (Hpt' Hem). rewrite abs_step in *.
    apply IH; assumption.
  - pose proof (other_step_emits_nothing m FInit I) as Hem.
    specialize (Hpl' Hem). specialize (Hpt' Hem). rewrite abs_step in *.
    assert (Hr : exists b0, snd (fstep m FInit) = FrBytes b0).
    { cbn [fstep]. destruct (f_init m) as [m' b0]. exists b0. reflexivity. }
    destruct Hr as [b0 Hr]. rewrite Hr. cbn [fout_of].
    pose proof (Hb b0 Hr) as Hb0. subst b0.
    replace (match i with Some b1 => bytes_eqb (init_segment_bytes c) b1 | None => true end) with true.
    2:{ destruct i as [b1|]; [|reflexivity]. rewrite (Hi b1 eq_refl). rewrite bytes_eqb_refl'. reflexivity. }
    cbn [andb]. apply IH; try assumption.
    intros b1 Hb1. inversion Hb1. reflexivity.
Qed.

Theorem fragmented_history_timeline_is_consistent : forall (c : frag_config) (ops : list fop),
  all_segments_fit ops ->
  check_C11 ops (map fout_of (snd (frun (fmuxer_new c) ops))) = true.
Proof.
  intros c ops H. unfold check_C11. cbv zeta. rewrite <- (abs_new c).
  apply (check_C11_gen c); try (intros ? Hx; discriminate Hx).
  - apply init_inv_new.
  - rewrite abs_new. exact qinv_init.
  - rewrite abs_new. exact H.
Qed.
Print Assumptions fragmented_history_timeline_is_consistent.
