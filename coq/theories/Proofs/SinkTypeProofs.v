(** Any two sinks that never fail receive the same bytes (corollary of SinkProofs / HistoryProofs). *)
From Muxide Require Import Model.Base Model.Writer Model.Api Proofs.SinkProofs Proofs.HistoryProofs.

Theorem any_two_benign_sinks_agree : forall b script1 script2 m1 m2 ops,
  benign script1 -> benign script2 -> build b script1 = inl m1 -> build b script2 = inl m2 ->
  snd (run m1 ops) = snd (run m2 ops) /\ sink_of (fst (run m1 ops)) = sink_of (fst (run m2 ops)).
Proof.
  intros b s1 s2 m1 m2 ops H1 H2 B1 B2.
  assert (B0 : exists m0, build b [] = inl m0).
  { unfold build in *. destruct (b_video b) as [[[c w] h]|]; [eexists; reflexivity | discriminate B1]. }
  destruct B0 as [m0 B0].
  destruct (benign_history_same_as_fault_free b s1 m1 m0 ops H1 B1 B0) as [R1 S1].
  destruct (benign_history_same_as_fault_free b s2 m2 m0 ops H2 B2 B0) as [R2 S2].
  split; congruence.
Qed.
Print Assumptions any_two_benign_sinks_agree.
