(** Fixed-width numeric fields (C16): where the writer guards a field the value
    written is exact (or an error is returned); where it does not, the value
    written is the input modulo the field width (recorded findings R1-R4). *)
From Coq Require Import Lia ZifyN ZifyNat ZifyBool.
From Muxide Require Import Model.Base Model.Codec Model.Boxes Model.Writer Model.Api Model.Frag Spec.Layout
  Proofs.BaseProofs Proofs.TimingProofs.
Open Scope N_scope.
Ltac Zify.zify_post_hook ::= Z.div_mod_to_equations.

(** * Big-endian fields hold the value modulo the field width *)
Theorem be32_field : forall x r, rd32 (be32 x ++ r) = Some (x mod 4294967296, r).
Proof.
  intros x r. unfold be32, rd32. cbn [app]. f_equal. f_equal. lia.
Qed.
Print Assumptions be32_field.

Theorem be16_field : forall x r, rd16 (be16 x ++ r) = Some (x mod 65536, r).
Proof.
  intros x r. unfold be16, rd16. cbn [app]. f_equal. f_equal. lia.
Qed.
Print Assumptions be16_field.

(** * F1: sample durations fit 32 bits in every reachable state *)
Definition durs_fit (w : writer) : Prop :=
  Forall (fun d => d <= 4294967295) (durations_of (vsamples w) (w_vlast_delta w)) /\
  Forall (fun d => d <= 4294967295) (durations_of (asamples w) (w_alast_delta w)).

Definition dur_ok (s : sample) : Prop :=
  match s_dur s with Some d => d <= 4294967295 | None => True end.
Definition odur_ok (o : option N) : Prop :=
  match o with Some d => d <= 4294967295 | None => True end.

(* the invariant on the newest-first queues *)
Definition DInv (w : writer) : Prop :=
  Forall dur_ok (w_vrev w) /\ odur_ok (w_vlast_delta w) /\
  Forall dur_ok (w_arev w) /\ odur_ok (w_alast_delta w).

Lemma durations_of_fit : forall l fb,
  Forall dur_ok l -> odur_ok fb -> Forall (fun d => d <= 4294967295) (durations_of l fb).
Proof.
  induction l as [|a l IH]; intros fb Hl Hfb.
  - constructor.
  - inversion Hl as [|a0 l0 Ha Hl']; subst a0 l0.
    destruct l as [|b t].
    + cbn [durations_of]. constructor; [|constructor].
      unfold dur_ok in Ha. destruct (s_dur a) as [d|]; [exact Ha|].
      unfold odur_ok in Hfb. destruct fb as [d|]; [exact Hfb|lia].
    + rewrite durations_of_cons2. constructor.
      * unfold dur1. unfold dur_ok in Ha. destruct (s_dur a) as [d|]; [exact Ha|lia].
      * apply IH; assumption.
Qed.

Lemma DInv_durs_fit w : DInv w -> durs_fit w.
Proof.
  intros (Hv & Hvl & Ha & Hal). unfold durs_fit, vsamples, asamples. split.
  - apply durations_of_fit; [apply Forall_rev; exact Hv|exact Hvl].
  - apply durations_of_fit; [apply Forall_rev; exact Ha|exact Hal].
Qed.

Lemma DInv_new snk codec audio : DInv (writer_new snk codec audio).
Proof. unfold DInv, writer_new; cbn. repeat split; constructor. Qed.

Lemma dur_ok_set_last_dur l d :
  d <= 4294967295 -> Forall dur_ok l -> Forall dur_ok (set_last_dur l d).
Proof.
  intros Hd H. destruct l as [|s t]; [exact H|]. cbn [set_last_dur].
  inversion H as [|s0 t0 Hs Ht]; subst s0 t0.
  constructor; [unfold dur_ok; cbn [s_dur]; exact Hd|exact Ht].
Qed.

Lemma DInv_write_video w pts dts data key w' :
  DInv w -> write_video_sample_with_dts w pts dts data key = inl w' -> DInv w'.
Proof.
  intros H Hw. unfold DInv in *.
  destruct w as [cd vr vp vl vc au ar ap al fi bwr sk].
  cbn [w_vrev w_arev w_vlast_delta w_alast_delta] in H.
  destruct H as (Hv & Hvl & Ha & Hal).
  unfold write_video_sample_with_dts, push_video in Hw.
  cbn [w_codec w_vrev w_arev w_vprev w_aprev w_vlast_delta w_alast_delta w_finalized w_vconfig
       w_audio w_bytes_written w_sink] in Hw.
  destruct fi; [discriminate|].
  destruct (negb (cts_fits pts dts)); [discriminate|].
  destruct vp as [prev|].
  - destruct (dts <=? prev) eqn:E1; [discriminate|].
    destruct (U32MAX <? dts - prev) eqn:E2; [discriminate|].
    destruct (U32MAX <? len (convert_video cd data)) eqn:E3; [discriminate|].
    inversion Hw; subst w'; clear Hw.
    cbn [w_vrev w_arev w_vlast_delta w_alast_delta].
    assert (Hd : dts - prev <= 4294967295) by (unfold U32MAX in E2; lia).
    repeat split; try assumption.
    constructor; [unfold dur_ok; cbn [s_dur]; exact I|].
    apply dur_ok_set_last_dur; assumption.
  - destruct (negb key); [discriminate|].
    destruct (extract_config cd data) as [c|]; [|discriminate].
    destruct (U32MAX <? len (convert_video cd data)) eqn:E3; [discriminate|].
    inversion Hw; subst w'; clear Hw.
    cbn [w_vrev w_arev w_vlast_delta w_alast_delta].
    repeat split; try assumption.
    constructor; [unfold dur_ok; cbn [s_dur]; exact I|exact Hv].
Qed.

Lemma DInv_write_audio w pts data w' :
  DInv w -> write_audio_sample w pts data = inl w' -> DInv w'.
Proof.
  intros H Hw. unfold DInv in *.
  destruct w as [cd vr vp vl vc au ar ap al fi bwr sk].
  cbn [w_vrev w_arev w_vlast_delta w_alast_delta] in H.
  destruct H as (Hv & Hvl & Ha & Hal).
  unfold write_audio_sample in Hw.
  cbn [w_codec w_vrev w_arev w_vprev w_aprev w_vlast_delta w_alast_delta w_finalized w_vconfig
       w_audio w_bytes_written w_sink] in Hw.
  destruct fi; [discriminate|].
  destruct au as [track|]; [|discriminate].
  destruct ap as [prev|].
  - destruct (pts <? prev) eqn:E1; [discriminate|].
    destruct (U32MAX <? pts - prev) eqn:E2; [discriminate|].
    match type of Hw with match ?p with inl _ => _ | inr _ => _ end = _ =>
      destruct p as [sd|e] end; [|discriminate].
    destruct (U32MAX <? len sd) eqn:E3; [discriminate|].
    inversion Hw; subst w'; clear Hw.
    cbn [w_vrev w_arev w_vlast_delta w_alast_delta].
    assert (Hd : pts - prev <= 4294967295) by (unfold U32MAX in E2; lia).
    repeat split; try assumption.
    constructor; [unfold dur_ok; cbn [s_dur]; exact I|].
    apply dur_ok_set_last_dur; assumption.
  - match type of Hw with match ?p with inl _ => _ | inr _ => _ end = _ =>
      destruct p as [sd|e] end; [|discriminate].
    destruct (U32MAX <? len sd) eqn:E3; [discriminate|].
    inversion Hw; subst w'; clear Hw.
    cbn [w_vrev w_arev w_vlast_delta w_alast_delta].
    repeat split; try assumption.
    constructor; [unfold dur_ok; cbn [s_dur]; exact I|exact Ha].
Qed.

Lemma DInv_finalize w v m fs : DInv w -> DInv (fst (finalize w v m fs)).
Proof.
  intros H. unfold finalize.
  destruct (w_finalized w); [exact H|].
  destruct ((U16MAX <? vt_width v) || (U16MAX <? vt_height v)); [exact H|].
  destruct (param_sets_too_long (w_vconfig w)) eqn:Gps; [exact H|].
  destruct (if fs then finalize_fast_start w v m (effective_config w)
            else finalize_standard w v m (effective_config w)) as [bufs term].
  destruct (run_plan bufs (w_bytes_written w) (w_sink w)) as [[bw s] e].
  destruct e as [k|]; [exact H|]. destruct term as [t|]; exact H.
Qed.

Theorem DInv_reachable : forall b script m0 ops,
  build b script = inl m0 -> DInv (m_writer (fst (run m0 ops))).
Proof.
  intros b script m0 ops Hb.
  apply (P_reachable DInv DInv_write_video DInv_write_audio DInv_finalize
           b script m0 ops DInv_new Hb).
Qed.

Theorem durations_fit_reachable : forall b script m0 ops,
  build b script = inl m0 -> durs_fit (m_writer (fst (run m0 ops))).
Proof.
  intros b script m0 ops Hb. apply DInv_durs_fit. eapply DInv_reachable; exact Hb.
Qed.
Print Assumptions durations_fit_reachable.

(** * F2: gaps / composition offsets that do not fit are rejected *)
Theorem video_gap_too_large_is_rejected : forall w pts dts data key prev,
  w_finalized w = false -> cts_fits pts dts = true -> w_vprev w = Some prev -> prev < dts ->
  4294967295 < dts - prev ->
  write_video_sample_with_dts w pts dts data key = inr DurationOverflow.
Proof.
  intros w pts dts data key prev Hf Hc Hp Hlt Hgap.
  unfold write_video_sample_with_dts. rewrite Hf, Hc, Hp. cbn [negb].
  replace (dts <=? prev) with false by lia.
  replace (U32MAX <? dts - prev) with true by (unfold U32MAX; lia).
  reflexivity.
Qed.
Print Assumptions video_gap_too_large_is_rejected.

Theorem cts_too_large_is_rejected : forall w pts dts data key,
  w_finalized w = false -> cts_fits pts dts = false ->
  write_video_sample_with_dts w pts dts data key = inr DurationOverflow.
Proof.
  intros w pts dts data key Hf Hc.
  unfold write_video_sample_with_dts. rewrite Hf, Hc. reflexivity.
Qed.
Print Assumptions cts_too_large_is_rejected.

(** * F3: sample sizes *)
Theorem sizes_exact : forall samples offs spc fb, samples_ok samples ->
  st_sizes (from_samples samples offs spc fb) = map (fun s => len (s_data s)) samples.
Proof.
  intros samples offs spc fb H. unfold from_samples. cbn [st_sizes].
  unfold samples_ok in H. induction H as [|s l [_ Hs] Hl IH]; cbn [map].
  - reflexivity.
  - f_equal; [|exact IH]. unfold u32. apply N.mod_small. exact Hs.
Qed.
Print Assumptions sizes_exact.

(** * F4: chunk offsets *)
Theorem walk_offsets_fit : forall vs as_ sc start vo ao,
  walk_offsets vs as_ sc start = WalkOk vo ao ->
  Forall (fun o => o <= 4294967295) vo /\ Forall (fun o => o <= 4294967295) ao.
Proof.
  intros vs as_ sc. induction sc as [|e t IH]; intros start vo ao H; cbn [walk_offsets] in H.
  - inversion H; subst. split; constructor.
  - destruct (U32MAX <? start) eqn:E; [discriminate|].
    destruct (walk_offsets vs as_ t (start + len (sched_data vs as_ e))) as [vo' ao'|] eqn:W;
      [|discriminate].
    destruct (IH _ _ _ W) as [Hv Ha].
    assert (Hs : start <= 4294967295) by (unfold U32MAX in E; lia).
    destruct (snd (fst e)); inversion H; subst; split; try assumption; constructor; assumption.
Qed.
Print Assumptions walk_offsets_fit.

(** * F5: dimensions *)
Theorem oversized_dimensions_are_rejected : forall w v m fs,
  w_finalized w = false -> (65535 < vt_width v \/ 65535 < vt_height v) ->
  finalize w v m fs = (w, FinErr (FinIo IoInvalidInput)).
Proof.
  intros w v m fs Hf Hd. unfold finalize. rewrite Hf.
  replace ((U16MAX <? vt_width v) || (U16MAX <? vt_height v)) with true
    by (unfold U16MAX; lia).
  reflexivity.
Qed.
Print Assumptions oversized_dimensions_are_rejected.

(** * F5b: parameter sets (fix "finish returns an error for parameter sets that do not fit avcC/hvcC's 16-bit
      length fields"): a stored SPS/PPS (H.264) or VPS/SPS/PPS (H.265) longer than 65535 bytes makes finalize
      return InvalidInput; the writer (hence its sink, its byte counter and its finalized flag) is unchanged:
      nothing is written and the writer is not marked finalized *)
Theorem oversized_parameter_sets_are_rejected : forall w v m fs,
  w_finalized w = false ->
  match w_vconfig w with
  | Some (CfgAvc a) => 65535 < len (avc_sps a) \/ 65535 < len (avc_pps a)
  | Some (CfgHevc h) => 65535 < len (hevc_vps h) \/ 65535 < len (hevc_sps h) \/ 65535 < len (hevc_pps h)
  | _ => False
  end ->
  finalize w v m fs = (w, FinErr (FinIo IoInvalidInput)).
Proof.
  intros w v m fs Hf Hp. unfold finalize. rewrite Hf.
  destruct ((U16MAX <? vt_width v) || (U16MAX <? vt_height v)); [reflexivity|].
  replace (param_sets_too_long (w_vconfig w)) with true; [reflexivity|].
  destruct (w_vconfig w) as [[a|h|a|p]|]; cbn [param_sets_too_long]; unfold U16MAX; try contradiction; lia.
Qed.
Print Assumptions oversized_parameter_sets_are_rejected.

(** * F6: mdat size *)
Theorem oversized_mdat_is_rejected_fast_start : forall w v m c,
  4294967295 < 8 + payload_sum (vsamples w) + payload_sum (asamples w) ->
  finalize_fast_start w v m c = ([], Some (FinIo IoInvalidData)).
Proof.
  intros w v m c H. unfold finalize_fast_start.
  replace (U32MAX <? 8 + payload_sum (vsamples w) + payload_sum (asamples w)) with true
    by (unfold U32MAX; lia).
  reflexivity.
Qed.
Print Assumptions oversized_mdat_is_rejected_fast_start.

(** * Refuted exactness: unguarded fields wrap *)
Theorem mdhd_duration_wraps : forall ts dur lang, 4294967296 <= dur ->
  rd32 (skipn 24 (build_mdhd_box ts dur lang)) = Some (dur mod 4294967296, skipn 28 (build_mdhd_box ts dur lang)) /\
  dur mod 4294967296 <> dur.
Proof.
  intros ts dur lang H. split; [|lia].
  unfold build_mdhd_box, build_box, T_mdhd.
  set (tail := encode_language_code _ ++ be16 0).
  unfold be32. cbn [app skipn]. unfold rd32. f_equal. f_equal. lia.
Qed.
Print Assumptions mdhd_duration_wraps.

Theorem avcc_sps_length_wraps : forall c, 65536 <= len (avc_sps c) ->
  rd16 (skipn 14 (build_avcc_box c)) = Some (len (avc_sps c) mod 65536, skipn 16 (build_avcc_box c)) /\
  len (avc_sps c) mod 65536 <> len (avc_sps c).
Proof.
  intros c H. split; [|lia].
  unfold build_avcc_box.
  match goal with |- context [match ?X with (_, _) => _ end] => destruct X as [[pi pc] li] end.
  unfold build_box, T_avcC.
  set (tail := avc_sps c ++ _).
  unfold be32, be16. cbn [app skipn]. unfold rd16. f_equal. f_equal. lia.
Qed.
Print Assumptions avcc_sps_length_wraps.

Theorem audio_rate_field_wraps : forall ch rate rest, 65536 <= rate ->
  rd16 (skipn 24 (audio_entry_prefix ch rate ++ rest)) = Some (rate mod 65536, skipn 26 (audio_entry_prefix ch rate ++ rest)).
Proof.
  intros ch rate rest H.
  unfold audio_entry_prefix, zeros, be32, be16. cbn [repeat app skipn].
  unfold rd16. f_equal. f_equal. lia.
Qed.
Print Assumptions audio_rate_field_wraps.

Example audio_rate_96000 : 96000 mod 65536 = 30464.
Proof. reflexivity. Qed.
Print Assumptions audio_rate_96000.

Theorem trun_duration_wraps : forall s n, 4294967296 <= n - fs_dts s ->
  firstn 4 (trun_entry None (Some n) s) = be32 ((n - fs_dts s) mod 4294967296).
Proof.
  intros s n H. unfold trun_entry, u32.
  rewrite firstn_app. rewrite be32_length. cbn [Nat.sub firstn].
  rewrite app_nil_r. reflexivity.
Qed.
Print Assumptions trun_duration_wraps.
