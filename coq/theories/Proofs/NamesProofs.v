(** The codec names printed by the library parse back to the same codec (the CLI's option values). *)
From Coq Require Import Lia ZifyN ZifyBool.
From Muxide Require Import Model.Base Model.Boxes Model.Names.
Open Scope N_scope.

Theorem video_codec_name_parses_back : forall c, parse_video_codec (video_codec_name c) = Some c.
Proof. destruct c; vm_compute; reflexivity. Qed.
Print Assumptions video_codec_name_parses_back.

Theorem audio_codec_name_parses_back : forall c, parse_audio_codec (audio_codec_name c) = Some c.
Proof. destruct c as [p| |]; [destruct p|..]; vm_compute; reflexivity. Qed.
Print Assumptions audio_codec_name_parses_back.

(* parsing ignores ASCII case *)
Lemma ascii_lower_idem c : ascii_lower (ascii_lower c) = ascii_lower c.
Proof.
  unfold ascii_lower. destruct ((65 <=? c) && (c <=? 90)) eqn:E; [|rewrite E; reflexivity].
  replace ((65 <=? c + 32) && (c + 32 <=? 90)) with false; [reflexivity|].
  apply andb_prop in E. destruct E as [E1 E2]. apply N.leb_le in E1, E2.
  symmetry. apply Bool.andb_false_iff. right. apply N.leb_gt. lia.
Qed.
Lemma ascii_lower_lt c : c <? 128 = true -> ascii_lower c <? 128 = true.
Proof.
  unfold ascii_lower. intros H. destruct ((65 <=? c) && (c <=? 90)) eqn:E; [|exact H].
  apply andb_prop in E. destruct E as [_ E2]. apply N.leb_le in E2. apply N.ltb_lt. lia.
Qed.
Lemma is_ascii_lower s : is_ascii (map ascii_lower s) = is_ascii s.
Proof.
  induction s as [|c s IH]; [reflexivity|]. unfold is_ascii in *. cbn [map forallb]. rewrite IH. f_equal.
  unfold ascii_lower. destruct ((65 <=? c) && (c <=? 90)) eqn:E; [|reflexivity].
  apply andb_prop in E. destruct E as [E1 E2]. apply N.leb_le in E1, E2.
  transitivity true; [apply N.ltb_lt; lia | symmetry; apply N.ltb_lt; lia].
Qed.
Lemma map_lower_idem s : map ascii_lower (map ascii_lower s) = map ascii_lower s.
Proof. rewrite map_map. apply map_ext. intros c. apply ascii_lower_idem. Qed.

Theorem parse_video_codec_ignores_case : forall s, parse_video_codec (map ascii_lower s) = parse_video_codec s.
Proof. intros s. unfold parse_video_codec. rewrite is_ascii_lower, map_lower_idem. reflexivity. Qed.
Print Assumptions parse_video_codec_ignores_case.
Theorem parse_audio_codec_ignores_case : forall s, parse_audio_codec (map ascii_lower s) = parse_audio_codec s.
Proof. intros s. unfold parse_audio_codec. rewrite is_ascii_lower, map_lower_idem. reflexivity. Qed.
Print Assumptions parse_audio_codec_ignores_case.
