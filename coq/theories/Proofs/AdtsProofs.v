(** ADTS header validator and Opus packet validity: the executable models
    (shift/mask) agree with the declarative specs (div/mod/testbit). *)
From Coq Require Import Lia ZifyN ZifyNat ZifyBool.
From Muxide Require Import Model.Base Model.Adts Spec.NalSplit Proofs.BaseProofs.
Open Scope N_scope.
Ltac Zify.zify_post_hook ::= Z.div_mod_to_equations.

(** * Finite sweeps *)
Definition sweep (n : nat) (P : N -> bool) : bool :=
  forallb (fun i => P (N.of_nat i)) (seq 0 n).

Lemma sweep_ok n P : sweep n P = true -> forall b, b < N.of_nat n -> P b = true.
Proof.
  unfold sweep; intros H b Hb. rewrite forallb_forall in H.
  specialize (H (N.to_nat b)). rewrite N2Nat.id in H. apply H.
  apply in_seq. lia.
Qed.

Definition sweep2 (n m : nat) (P : N -> N -> bool) : bool :=
  sweep n (fun a => sweep m (P a)).

Lemma sweep2_ok n m P : sweep2 n m P = true ->
  forall a b, a < N.of_nat n -> b < N.of_nat m -> P a b = true.
Proof.
  unfold sweep2; intros H a b Ha Hb.
  apply (sweep_ok m (P a)); [|exact Hb].
  apply (sweep_ok n (fun a => sweep m (P a))); [exact H|exact Ha].
Qed.

Ltac by_sweep1 P Hb :=
  apply (sweep_ok 256 P); [vm_compute; reflexivity | exact Hb].
Ltac by_sweep2 P Ha Hb :=
  apply (sweep2_ok 256 256 P); [vm_compute; reflexivity | exact Ha | exact Hb].

(** * Field equivalences *)
Lemma sync_eq b0 b1 : b0 < 256 -> b1 < 256 ->
  (N.lor (N.shiftl b0 4) (shr b1 4) =? 4095) = ((b0 =? 255) && (b1 / 16 =? 15)).
Proof.
  intros H0 H1. apply Bool.eqb_prop.
  by_sweep2 (fun b0 b1 => Bool.eqb (N.lor (N.shiftl b0 4) (shr b1 4) =? 4095)
                                   ((b0 =? 255) && (b1 / 16 =? 15))) H0 H1.
Qed.

Lemma mpeg_eq b1 : b1 < 256 -> (band (shr b1 3) 1 =? 0) = negb (bit b1 3).
Proof.
  intros H1. apply Bool.eqb_prop.
  by_sweep1 (fun b1 => Bool.eqb (band (shr b1 3) 1 =? 0) (negb (bit b1 3))) H1.
Qed.

Lemma layer_eq b1 : b1 < 256 ->
  (band (shr b1 1) 3 =? 0) = (negb (bit b1 2) && negb (bit b1 1)).
Proof.
  intros H1. apply Bool.eqb_prop.
  by_sweep1 (fun b1 => Bool.eqb (band (shr b1 1) 3 =? 0)
                                (negb (bit b1 2) && negb (bit b1 1))) H1.
Qed.

Lemma hdr_eq b1 : b1 < 256 -> adts_header_len b1 = if bit b1 0 then 7 else 9.
Proof.
  intros H1. apply N.eqb_eq.
  by_sweep1 (fun b1 => adts_header_len b1 =? (if bit b1 0 then 7 else 9)) H1.
Qed.

Lemma sfi_eq b2 : b2 < 256 -> band (shr b2 2) 15 = (b2 / 4) mod 16.
Proof.
  intros H2. apply N.eqb_eq.
  by_sweep1 (fun b2 => band (shr b2 2) 15 =? (b2 / 4) mod 16) H2.
Qed.

Lemma chan_eq b2 b3 : b2 < 256 -> b3 < 256 ->
  N.lor (N.shiftl (band b2 1) 2) (band (shr b3 6) 3) = (b2 mod 2) * 4 + b3 / 64.
Proof.
  intros H2 H3. apply N.eqb_eq.
  by_sweep2 (fun b2 b3 => N.lor (N.shiftl (band b2 1) 2) (band (shr b3 6) 3)
                          =? (b2 mod 2) * 4 + b3 / 64) H2 H3.
Qed.

Lemma fl_hi_eq b3 b4 : b3 < 256 -> b4 < 256 ->
  N.lor (N.shiftl (band b3 3) 11) (N.shiftl b4 3) = 8 * ((b3 mod 4) * 256 + b4).
Proof.
  intros H3 H4. apply N.eqb_eq.
  by_sweep2 (fun b3 b4 => N.lor (N.shiftl (band b3 3) 11) (N.shiftl b4 3)
                          =? 8 * ((b3 mod 4) * 256 + b4)) H3 H4.
Qed.

Lemma fl_lo_eq b5 : b5 < 256 -> shr (band b5 224) 5 = b5 / 32.
Proof.
  intros H5. apply N.eqb_eq.
  by_sweep1 (fun b5 => shr (band b5 224) 5 =? b5 / 32) H5.
Qed.

Lemma lor_disjoint k r : k < 1024 -> r < 8 -> N.lor (8 * k) r = 8 * k + r.
Proof.
  intros Hk Hr. apply N.eqb_eq.
  apply (sweep2_ok 1024 8 (fun k r => N.lor (8 * k) r =? 8 * k + r));
    [vm_compute; reflexivity | exact Hk | exact Hr].
Qed.

Lemma fl_eq b3 b4 b5 : b3 < 256 -> b4 < 256 -> b5 < 256 ->
  adts_frame_length b3 b4 b5 = (b3 mod 4) * 2048 + b4 * 8 + b5 / 32.
Proof.
  intros H3 H4 H5. unfold adts_frame_length.
  rewrite (fl_hi_eq b3 b4 H3 H4), (fl_lo_eq b5 H5).
  rewrite lor_disjoint by lia. lia.
Qed.

(** * Byte bounds *)
Lemma bytes_ok_cons x l : bytes_ok (x :: l) = true -> x < 256 /\ bytes_ok l = true.
Proof.
  unfold bytes_ok; cbn [forallb]. intros H.
  apply andb_true_iff in H. destruct H as [Hx Hl].
  split; [apply N.ltb_lt; exact Hx | exact Hl].
Qed.

(** * ADTS *)
Theorem adts_to_raw_is_spec : forall f : bytes, bytes_ok f = true ->
  match adts_to_raw f with
  | AdtsOk raw => spec_adts_payload f = Some raw
  | AdtsErr _ => spec_adts_payload f = None
  end.
Proof.
  intros f Hok.
  destruct f as [|b0 [|b1 [|b2 [|b3 [|b4 [|b5 [|b6 r]]]]]]]; try reflexivity.
  pose proof Hok as Hok'.
  apply bytes_ok_cons in Hok'; destruct Hok' as [H0 Hok'].
  apply bytes_ok_cons in Hok'; destruct Hok' as [H1 Hok'].
  apply bytes_ok_cons in Hok'; destruct Hok' as [H2 Hok'].
  apply bytes_ok_cons in Hok'; destruct Hok' as [H3 Hok'].
  apply bytes_ok_cons in Hok'; destruct Hok' as [H4 Hok'].
  apply bytes_ok_cons in Hok'; destruct Hok' as [H5 _].
  unfold adts_to_raw, spec_adts_payload, adts_valid_header.
  cbv beta iota zeta.
  set (F := b0 :: b1 :: b2 :: b3 :: b4 :: b5 :: b6 :: r).
  set (L := len F).
  rewrite (sync_eq b0 b1 H0 H1), (mpeg_eq b1 H1), (layer_eq b1 H1),
          (hdr_eq b1 H1), (sfi_eq b2 H2), (chan_eq b2 b3 H2 H3),
          (fl_eq b3 b4 b5 H3 H4 H5).
  set (hdr := if bit b1 0 then 7 else 9).
  set (sfi := (b2 / 4) mod 16).
  assert (Hchan : (b2 mod 2) * 4 + b3 / 64 <= 7) by lia.
  set (chan := (b2 mod 2) * 4 + b3 / 64) in *.
  set (fl := (b3 mod 4) * 2048 + b4 * 8 + b5 / 32).
  replace (L <? hdr) with (negb (hdr <=? L)) by lia.
  replace (12 <? sfi) with (negb (sfi <=? 12)) by lia.
  replace ((chan =? 0) || (7 <? chan)) with (negb (1 <=? chan)) by lia.
  replace (fl <=? hdr) with (negb (hdr <? fl)) by lia.
  replace (L <? fl) with (negb (fl <=? L)) by lia.
  destruct (b0 =? 255); cbn [negb andb]; [|reflexivity].
  destruct (b1 / 16 =? 15); cbn [negb andb]; [|reflexivity].
  destruct (bit b1 3); cbn [negb andb]; [reflexivity|].
  destruct (bit b1 2); cbn [negb andb]; [reflexivity|].
  destruct (bit b1 1); cbn [negb andb]; [reflexivity|].
  destruct (hdr <=? L); cbn [negb andb]; [|reflexivity].
  destruct (sfi <=? 12); cbn [negb andb]; [|reflexivity].
  destruct (1 <=? chan); cbn [negb andb]; [|reflexivity].
  destruct (hdr <? fl); cbn [negb andb]; [|reflexivity].
  destruct (fl <=? L); cbn [negb andb]; [|reflexivity].
  reflexivity.
Qed.
Print Assumptions adts_to_raw_is_spec.

(** * Opus *)
Lemma opus_valid_1 toc : toc < 256 -> is_valid_opus_packet [toc] = spec_opus_valid [toc].
Proof.
  intros Ht. apply Bool.eqb_prop.
  by_sweep1 (fun toc => Bool.eqb (is_valid_opus_packet [toc]) (spec_opus_valid [toc])) Ht.
Qed.

Lemma opus_valid_2 toc fc : toc < 256 -> fc < 256 ->
  is_valid_opus_packet [toc; fc] = spec_opus_valid [toc; fc].
Proof.
  intros Ht Hf. apply Bool.eqb_prop.
  by_sweep2 (fun toc fc => Bool.eqb (is_valid_opus_packet [toc; fc])
                                    (spec_opus_valid [toc; fc])) Ht Hf.
Qed.

Theorem opus_valid_is_spec : forall p : bytes, bytes_ok p = true ->
  is_valid_opus_packet p = spec_opus_valid p.
Proof.
  intros p Hok. destruct p as [|toc [|fc r]].
  - reflexivity.
  - apply bytes_ok_cons in Hok. destruct Hok as [Ht _]. apply opus_valid_1; exact Ht.
  - apply bytes_ok_cons in Hok. destruct Hok as [Ht Hok].
    apply bytes_ok_cons in Hok. destruct Hok as [Hf _].
    change (is_valid_opus_packet (toc :: fc :: r)) with (is_valid_opus_packet [toc; fc]).
    change (spec_opus_valid (toc :: fc :: r)) with (spec_opus_valid [toc; fc]).
    apply opus_valid_2; assumption.
Qed.
Print Assumptions opus_valid_is_spec.

(** * The payload is the declared slice *)
Lemma adts_valid_header_props f hdr fl : adts_valid_header f = Some (hdr, fl) ->
  (hdr = 7 \/ hdr = 9) /\ hdr < fl /\ fl <= len f.
Proof.
  destruct f as [|b0 [|b1 [|b2 [|b3 [|b4 [|b5 [|b6 r]]]]]]]; try discriminate.
  unfold adts_valid_header. cbv beta iota zeta.
  set (F := b0 :: b1 :: b2 :: b3 :: b4 :: b5 :: b6 :: r).
  set (L := len F).
  set (h := if bit b1 0 then 7 else 9).
  set (l := (b3 mod 4) * 2048 + b4 * 8 + b5 / 32).
  assert (Hh : h = 7 \/ h = 9) by (subst h; destruct (bit b1 0); auto).
  match goal with |- (if ?c then _ else _) = _ -> _ => destruct c eqn:Hc end;
    [|discriminate].
  intros E. injection E as <- <-.
  repeat (apply andb_true_iff in Hc; destruct Hc as [Hc ?]).
  split; [exact Hh|]. split; [apply N.ltb_lt|apply N.leb_le]; assumption.
Qed.

Theorem adts_payload_is_the_declared_slice : forall f raw, bytes_ok f = true ->
  adts_to_raw f = AdtsOk raw ->
  exists hdr fl, adts_valid_header f = Some (hdr, fl) /\
                 (hdr = 7 \/ hdr = 9)%N /\ (hdr < fl)%N /\ (fl <= len f)%N /\
                 raw = take (fl - hdr) (drop hdr f) /\ len raw = (fl - hdr)%N.
Proof.
  intros f raw Hok Hraw.
  pose proof (adts_to_raw_is_spec f Hok) as Hspec. rewrite Hraw in Hspec.
  unfold spec_adts_payload in Hspec.
  destruct (adts_valid_header f) as [[hdr fl]|] eqn:Hv; [|discriminate].
  injection Hspec as Hr.
  destruct (adts_valid_header_props f hdr fl Hv) as (Hh & Hlt & Hle).
  exists hdr, fl. repeat split; try assumption; try (symmetry; exact Hr).
  rewrite <- Hr. unfold take, drop, len in *.
  rewrite firstn_length, skipn_length. lia.
Qed.
Print Assumptions adts_payload_is_the_declared_slice.
