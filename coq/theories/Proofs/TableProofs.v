(** Length-prefixed units and run-length tables: encoder/decoder round trips. *)
From Coq Require Import Lia ZifyN ZifyNat ZifyBool.
From Muxide Require Import Model.Base Model.Annexb Model.Boxes Spec.Bmff Spec.Reader Spec.NalSplit.
From Muxide Require Import Proofs.BaseProofs.
Open Scope N_scope.

(** parse_len4 inverts len_prefixed for units shorter than 2^32 bytes *)
Lemma parse_len4_f_len_prefixed : forall nals fuel rest_len,
  Forall (fun n => len n < 4294967296) nals ->
  (length nals < fuel)%nat ->
  rest_len = 0 ->
  parse_len4_f fuel (len_prefixed nals) = Some nals.
Proof.
  induction nals as [|n t IH]; intros fuel rl HF Hfuel _.
  - destruct fuel; [cbn in Hfuel; lia|]. reflexivity.
  - destruct fuel as [|f]; [cbn in Hfuel; lia|].
    inversion HF as [|? ? Hn Ht]; subst.
    unfold len_prefixed. cbn [map concat]. fold (len_prefixed t).
    cbn [parse_len4_f].
    destruct ((be32 (len n) ++ n) ++ len_prefixed t) eqn:E.
    { assert (Hl : (length ((be32 (len n) ++ n) ++ len_prefixed t) <> 0)%nat)
        by (rewrite !app_length, be32_length; lia).
      rewrite E in Hl. cbn in Hl. congruence. }
    rewrite <- E. rewrite <- app_assoc. rewrite rd32_be32 by exact Hn.
    rewrite len_app. replace (len n + len (len_prefixed t) <? len n) with false by lia.
    rewrite take_app_exact, drop_app_exact.
    rewrite (IH f 0 Ht); [reflexivity| cbn in Hfuel; lia | reflexivity].
Qed.

Lemma length_len_prefixed_ge nals : (length nals <= length (len_prefixed nals))%nat.
Proof.
  induction nals as [|n t IH]; [cbn; lia|].
  change (len_prefixed (n :: t)) with ((be32 (len n) ++ n) ++ len_prefixed t).
  rewrite !app_length, be32_length. cbn [length]. lia.
Qed.

Theorem parse_len4_len_prefixed nals :
  Forall (fun n => len n < 4294967296) nals ->
  parse_len4 (len_prefixed nals) = Some nals.
Proof.
  intros H. unfold parse_len4.
  apply (parse_len4_f_len_prefixed nals _ 0 H); [|reflexivity].
  pose proof (length_len_prefixed_ge nals) as G. apply Nat.lt_succ_r. exact G.
Qed.

(** run-length encoding used by stts / ctts is lossless *)
Lemma expand_runs_rle {A} (eqb : A -> A -> bool)
      (eqb_eq : forall x y, eqb x y = true -> x = y) (l : list A) :
  expand_runs (rle eqb l) = l.
Proof.
  induction l as [|x t IH]; [reflexivity|].
  cbn [rle]. destruct (rle eqb t) as [|[c y] r] eqn:E.
  - cbn [expand_runs] in *. subst t. reflexivity.
  - destruct (eqb x y) eqn:Q.
    + apply eqb_eq in Q. subst y. cbn [expand_runs] in *.
      replace (N.to_nat (c + 1)) with (S (N.to_nat c)) by lia.
      cbn [repeat app]. f_equal. exact IH.
    + cbn [expand_runs] in *. change (N.to_nat 1) with 1%nat. cbn [repeat app]. f_equal. exact IH.
Qed.

Lemma total_runs_rle {A} (eqb : A -> A -> bool) (l : list A) :
  sumN (map fst (rle eqb l)) = len l.
Proof.
  induction l as [|x t IH]; [reflexivity|].
  cbn [rle]. destruct (rle eqb t) as [|[c y] r] eqn:E.
  - cbn in IH. cbn. unfold len in *. cbn [length]. lia.
  - destruct (eqb x y); cbn [map fst sumN] in *; unfold len in *; cbn [length]; lia.
Qed.
