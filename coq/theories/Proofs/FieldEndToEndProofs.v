(** C16 end to end on the model's own output: outside the recorded wrap classes
    (KF-C16-1: 32-bit media durations, KF-C16-2: 16.16 audio rate) no clause of
    [failed_C16_mux] (Spec/HeaderChecks.v) fails on any finished file
    ([finished_file_fields_are_exact]); and the recorded finding exhibited end to end
    ([duration_wrap_witness]). *)
From Coq Require Import Lia ZifyN ZifyNat ZifyBool List.
From Muxide Require Import Model.Base Model.Codec Model.Boxes Model.F64 Model.Writer Model.Api Spec.Bmff Spec.Reader Spec.Layout Spec.Checks
  Spec.Headers Spec.HeaderChecks
  Proofs.BaseProofs Proofs.ApiProofs Proofs.SinkProofs Proofs.FinishProofs Proofs.TimingProofs Proofs.StructureProofs
  Proofs.EndToEndProofs Proofs.FieldProofs Proofs.HeaderProofs Proofs.SyncProofs Proofs.SyncAv1Vp9Proofs.
Import ListNotations.
Open Scope N_scope.
Ltac Zify.zify_post_hook ::= Z.div_mod_to_equations.

(** * The video track description is fixed at build time and its dimensions fit *)

Lemma write_video_video m p d k : m_video (fst (write_video m p d k)) = m_video m.
Proof. unfold write_video. repeat break_match; reflexivity. Qed.
Lemma write_video_with_dts_video m p t d k : m_video (fst (write_video_with_dts m p t d k)) = m_video m.
Proof. unfold write_video_with_dts. repeat break_match; reflexivity. Qed.
Lemma write_audio_video m p d : m_video (fst (write_audio m p d)) = m_video m.
Proof. unfold write_audio. repeat break_match; reflexivity. Qed.
Lemma encode_video_video m d ms : m_video (fst (encode_video m d ms)) = m_video m.
Proof.
  unfold encode_video.
  pose proof (write_video_video m (m_cur_vpts m) d (api_is_keyframe m d)) as K.
  destruct (write_video m (m_cur_vpts m) d (api_is_keyframe m d)) as [m1 [e1|]]; cbn [fst] in *; exact K.
Qed.
Lemma encode_audio_video m d s : m_video (fst (encode_audio m d s)) = m_video m.
Proof.
  unfold encode_audio. destruct (m_audio m) as [a|]; [|reflexivity].
  pose proof (write_audio_video m (m_cur_apts m) d) as K.
  destruct (write_audio m (m_cur_apts m) d) as [m1 [e1|]]; cbn [fst] in *; exact K.
Qed.
Lemma step_video m o : m_video (fst (step m o)) = m_video m.
Proof.
  destruct o; cbn [step]; try rewrite fst_lift.
  - apply write_video_video.
  - apply write_video_with_dts_video.
  - apply write_audio_video.
  - apply encode_video_video.
  - apply encode_audio_video.
  - unfold finish_in_place_with_stats. destruct (m_finished m); [reflexivity|].
    destruct (finalize (m_writer m) (m_video m) (m_meta m) (m_fast m)) as [w r].
    destruct r as [|[k|p]]; reflexivity.
Qed.

Lemma finalize_ok_dims w v md f w' :
  finalize w v md f = (w', FinOk) -> vt_width v < 65536 /\ vt_height v < 65536.
Proof.
  unfold finalize. destruct (w_finalized w); [discriminate|].
  destruct ((U16MAX <? vt_width v) || (U16MAX <? vt_height v)) eqn:E; [discriminate|].
  destruct (param_sets_too_long (w_vconfig w)) eqn:Gps; [discriminate|].
  intros _. unfold U16MAX in E. lia.
Qed.

Lemma finished_gen_v : forall ops m m' rs s,
  Inv m -> w_finalized (m_writer m) = false ->
  run m ops = (m', rs) -> In (RStats s) rs ->
  exists md fs bufs, plan_of (m_writer m') (m_video m) md fs = (bufs, None) /\ sink_of m' = concat bufs /\
    vt_width (m_video m) < 65536 /\ vt_height (m_video m) < 65536.
Proof.
  induction ops as [|o t IH]; intros m m' rs s HI HF HR HIn; cbn [run] in HR.
  - inversion HR; subst. destruct HIn.
  - pose proof (step_Inv m o HI) as HI1. pose proof (step_video m o) as HV1.
    destruct (step m o) as [m1 r] eqn:ES. cbn [fst] in HI1, HV1.
    assert (Hstats : forall st, r = RStats st ->
              exists md fs bufs, plan_of (m_writer m') (m_video m) md fs = (bufs, None) /\ sink_of m' = concat bufs /\
                 vt_width (m_video m) < 65536 /\ vt_height (m_video m) < 65536).
    { intros st ->.
      assert (o = FIN).
      { destruct o; try reflexivity; exfalso;
          eapply (step_not_stats m); try (rewrite ES; reflexivity); discriminate. }
      subst o.
      destruct (successful_finish_finishes _ _ _ ES) as [F1 F2].
      destruct (finish_ok_shape _ _ _ ES) as (w1 & Fz & Hw1 & _).
      pose proof (finalize_ok_dims _ _ _ _ _ Fz) as Hdims.
      destruct (finalize_ok_plan _ _ _ _ _ Fz) as (_ & bufs & bw & sk & Hplan & Hrun & Ew1).
      destruct HI as (Iscr & Iempty & _).
      destruct (run_plan_nil_script _ _ _ _ _ _ Iscr Hrun) as (_ & _ & Hbytes & _).
      destruct (Iempty HF) as (Hsink0 & _). rewrite Hsink0 in Hbytes. cbn [app] in Hbytes.
      destruct (run_finished_id t m1 F1 F2) as [Hid _].
      destruct (run m1 t) as [m2 rs2] eqn:ER. cbn [fst] in Hid. subst m2.
      injection HR as Hm Hrs. subst m'.
      exists (m_meta m), (m_fast m), bufs. split; [|split; [|exact Hdims]].
      - rewrite Hw1, Ew1, plan_independent_of_sink. exact Hplan.
      - unfold sink_of. rewrite Hw1, Ew1. cbn [with_sink w_sink]. exact Hbytes. }
    destruct (w_finalized (m_writer m1)) eqn:HF1.
    + destruct (run_finalized t m1 HF1) as (_ & Kno).
      destruct r as [|st|e|p].
      * destruct (run m1 t) as [m2 rs2]. cbn [snd] in Kno. inversion HR; subst.
        destruct HIn as [H|H]; [discriminate|]. destruct (Kno s H).
      * apply (Hstats st eq_refl).
      * destruct (run m1 t) as [m2 rs2]. cbn [snd] in Kno. inversion HR; subst.
        destruct HIn as [H|H]; [discriminate|]. destruct (Kno s H).
      * inversion HR; subst. destruct HIn as [H|[]]. discriminate.
    + destruct r as [|st|e|p].
      * destruct (run m1 t) as [m2 rs2] eqn:ER. inversion HR; subst.
        destruct HIn as [H|H]; [discriminate|]. rewrite <- HV1. exact (IH m1 m' rs2 s HI1 HF1 ER H).
      * apply (Hstats st eq_refl).
      * destruct (run m1 t) as [m2 rs2] eqn:ER. inversion HR; subst.
        destruct HIn as [H|H]; [discriminate|]. rewrite <- HV1. exact (IH m1 m' rs2 s HI1 HF1 ER H).
      * inversion HR; subst. destruct HIn as [H|[]]. discriminate.
Qed.

Lemma build_video_dims b m0 : build b [] = inl m0 -> cfg_dims b = (vt_width (m_video m0), vt_height (m_video m0)).
Proof.
  unfold build, cfg_dims. destruct (b_video b) as [[[codec w] h]|]; [|discriminate].
  intros H. inversion H; subst m0. reflexivity.
Qed.

(** * Reading single fields back *)

Lemma u32_at_mdhd_duration ts dur lang :
  u32_at (body (build_mdhd_box ts dur lang)) 16 = dur mod 4294967296.
Proof.
  unfold build_mdhd_box. rewrite body_build_box by reflexivity.
  unfold u32_at.
  replace (skipn 16 (be32 0 ++ be32 0 ++ be32 0 ++ be32 ts ++ be32 dur ++
     encode_language_code (utf8_chars match lang with Some l => l | None => UND end) ++ be16 0))
    with (be32 dur ++ encode_language_code (utf8_chars match lang with Some l => l | None => UND end) ++ be16 0)
    by (unfold be32 at 1 2 3 4; reflexivity).
  rewrite be32_field. reflexivity.
Qed.

Lemma u32_at_mvhd_duration d n : d < 4294967296 -> n < 4294967296 -> u32_at (build_mvhd_payload d n) 16 = d.
Proof.
  intros Hd Hn. pose proof (mvhd_strict d n Hd Hn) as H. unfold strict_mvhd in H.
  destruct (_ && _) in H; [|discriminate]. injection H as H1 H2. first [exact H1 | exact H2].
Qed.

Lemma mdhd_clause ts dur lang x : dur < 4294967296 -> dur = x ->
  match strict_mdhd (body (build_mdhd_box ts dur lang)) with
  | Some m1 => md_duration m1 =? x | None => true end = true.
Proof.
  intros Hd <-. unfold strict_mdhd. destruct (_ && _); [|reflexivity].
  cbn [md_duration]. rewrite u32_at_mdhd_duration. rewrite N.mod_small by exact Hd. apply N.eqb_refl.
Qed.

Lemma visual_clause v c :
  vt_width v < 65536 -> vt_height v < 65536 ->
  match strict_visual_entry (b_payload (ventry_tree v c)) with
  | Some (ew, eh) => (ew =? vt_width v) && (eh =? vt_height v) | None => true end = true.
Proof.
  intros Hw Hh.
  assert (E : exists rest, b_payload (ventry_tree v c) = visual_entry_prefix v ++ rest).
  { destruct c; eexists; reflexivity. }
  destruct E as [rest E].
  rewrite E, (visual_entry_strict v rest Hw Hh). rewrite !N.eqb_refl. reflexivity.
Qed.

Lemma audio_clause a :
  at_sample_rate a < 65536 -> at_channels a < 65536 ->
  match strict_audio_entry (b_payload (aentry_tree a)) with
  | Some (ch, rate) => (ch =? at_channels a) && (rate =? match at_codec a with Opus => 48000 | _ => at_sample_rate a end)
  | None => true end = true.
Proof.
  intros Hr Hc. unfold aentry_tree.
  destruct (at_codec a); cbn [b_payload node].
  - rewrite (audio_entry_strict _ _ _ Hc Hr), !N.eqb_refl. reflexivity.
  - rewrite (audio_entry_strict _ _ _ Hc); [|unfold OPUS_SAMPLE_RATE; lia].
    rewrite N.eqb_refl. reflexivity.
  - rewrite (audio_entry_strict _ _ _ Hc Hr), !N.eqb_refl. reflexivity.
Qed.

Lemma mvhd_clause top v vt audio c m x :
  top_shape top (moov_tree v vt audio c m) ->
  total_duration vt < 4294967296 -> total_duration vt = x ->
  match find_path [T_MOOV; T_MVHD] top with
  | Some y => u32_at (b_payload y) 16 =? x * 1000 / 90000 | None => false end = true.
Proof.
  intros Htop Hd <-.
  assert (Hmoov : find_box T_MOOV top = Some (moov_tree v vt audio c m)).
  { destruct Htop as [->|[[d ->]|[d ->]]]; fb; reflexivity. }
  cbn [find_path]. rewrite Hmoov. unfold moov_tree at 1. cbn [b_children node].
  unfold moov_kids. cbn [app]. fb. unfold mvhd_tree. cbn [b_payload leaf].
  rewrite u32_at_mvhd_duration.
  - unfold MOVIE_TIMESCALE, MEDIA_TIMESCALE. rewrite u32_small by lia. apply N.eqb_refl.
  - unfold u32. lia.
  - destruct audio; lia.
Qed.

(** * Clause 7: the configuration record of the video sample entry (all four codecs) *)

(* the sample entry built from the muxer's final state passes the strict configuration test against
   the first accepted key frame; H.264/H.265 use the finish-time guard on parameter-set lengths *)
Lemma video_entry_clause b m0 ops m rs s :
  build b [] = inl m0 -> run m0 ops = (m, rs) -> In (RStats s) rs -> Forall op_payload_ok ops ->
  match first_key_of (accepted b ops (map class_of rs)) with
  | Some d => check_video_entry (cfg_codec b) (vt_width (m_video m0)) (vt_height (m_video m0)) (Some d)
                (ventry_tree (m_video m0) (effective_config (m_writer m)))
  | None => true end = true.
Proof.
  intros Hb HR HIn Hok.
  destruct (build_initial _ _ Hb) as (_ & _ & _ & D0 & _).
  destruct (finished_gen_v ops m0 m rs s (Inv_reachable b m0 [] Hb) D0 HR HIn)
    as (md & fs & bufs & _ & _ & Hw & Hh).
  pose proof (finished_params_fit b m0 ops m rs s Hb HR HIn) as Hfit.
  unfold first_key_of.
  destruct (h_v (accepted b ops (map class_of rs))) as [|f tl] eqn:EHV; [reflexivity|].
  destruct (final_config_stored b m0 ops m rs f tl Hb HR Hok EHV) as (c & Ec & Est).
  unfold effective_config. rewrite Est. rewrite Est in Hfit.
  destruct (cfg_codec b) eqn:Ecodec.
  - apply video_entry_ok_fit; auto.
  - apply video_entry_ok_fit; auto.
  - apply av1_entry_ok; assumption.
  - apply vp9_entry_ok; assumption.
Qed.

(** * The theorem *)

Lemma sizes_clause b ops rs m v voffs vspc c md :
  Final b ops rs m ->
  listN_eqb (tr_sizes (vtrack v (from_samples (vsamples (m_writer m)) voffs vspc (w_vlast_delta (m_writer m))) c md))
    (map (fun f => len (frame_video (cfg_codec b) (vf_data f))) (h_v (accepted b ops (map class_of rs)))) = true.
Proof.
  intros F.
  change (tr_sizes (vtrack v (from_samples (vsamples (m_writer m)) voffs vspc (w_vlast_delta (m_writer m))) c md))
    with (map u32 (st_sizes (from_samples (vsamples (m_writer m)) voffs vspc (w_vlast_delta (m_writer m))))).
  destruct (fin_sinv _ _ _ _ F) as [[Sv _] _].
  rewrite from_samples_sizes by (apply samples_small; exact Sv).
  rewrite <- (map_map s_data (fun d => len d)), (q_vdata b ops rs m F), map_map.
  apply listN_eqb_refl.
Qed.

Lemma forallb_map {A B} (f : A -> B) (p : B -> bool) l : forallb p (map f l) = forallb (fun x => p (f x)) l.
Proof. induction l as [|x l IH]; [reflexivity|]. cbn [map forallb]. rewrite IH. reflexivity. Qed.

Lemma forallb_ext' {A} (p q : A -> bool) l : (forall x, p x = q x) -> forallb p l = forallb q l.
Proof. intros H. induction l as [|x l IH]; [reflexivity|]. cbn [forallb]. rewrite H, IH. reflexivity. Qed.

Theorem finished_file_fields_are_exact : forall b m0 ops m rs s,
  build b [] = inl m0 -> run m0 ops = (m, rs) -> In (RStats s) rs ->
  Forall op_payload_ok ops -> len (sink_of m) < 4294967296 ->
  sumN (durations_of (vsamples (m_writer m)) (w_vlast_delta (m_writer m))) < 4294967296 ->
  sumN (durations_of (asamples (m_writer m)) (w_alast_delta (m_writer m))) < 4294967296 ->
  (match cfg_audio b with Some a => at_sample_rate a < 65536 /\ at_channels a < 65536 | None => True end) ->
  failed_C16_mux b ops (map class_of rs) (sink_of m) = [].
Proof.
  intros b m0 ops m rs s Hb HR HIn Hok Hlen HsumV HsumA Haud.
  pose proof (final_state b m0 ops m rs s Hb HR HIn Hok) as F.
  destruct (build_initial _ _ Hb) as (_ & _ & _ & D0 & _).
  destruct (finished_gen_v ops m0 m rs s (Inv_reachable b m0 [] Hb) D0 HR HIn)
    as (md & fs & bufs & Hplan & Hsink & Hw & Hh).
  pose proof (build_video_dims b m0 Hb) as Hdims.
  pose proof (video_entry_clause b m0 ops m rs s Hb HR HIn Hok) as C7.
  set (v := m_video m0) in *.
  destruct (fin_sinv _ _ _ _ F) as [[Sv Sa] SA].
  destruct (plan_file_shape _ _ _ _ _ Sv Sa SA Hplan)
    as (voffs & vspc & aoffs & data & start & top & Efile & TV & TA & Hshape).
  cbv zeta in Efile, TV, TA, Hshape.
  unfold failed_C16_mux. rewrite (fin_hist _ _ _ _ F). cbn [negb].
  rewrite Hsink in *. rewrite Efile in *.
  pose proof (video_timing b ops rs m v voffs vspc (effective_config (m_writer m)) md F HsumV) as VT.
  cbv zeta in VT.
  pose proof (sizes_clause b ops rs m v voffs vspc (effective_config (m_writer m)) md F) as C1.
  pose proof (video_durations_are_dts_differences _ (fin_winv _ _ _ _ F)) as DV.
  rewrite (q_vdts b ops rs m F) in DV.
  pose proof (audio_durations_are_pts_differences _ (fin_winv _ _ _ _ F)) as DA.
  rewrite (q_apts b ops rs m F) in DA.
  pose proof (sim_waudio _ _ _ (fin_sim _ _ _ _ F)) as EA.
  set (h := accepted b ops (map class_of rs)) in *.
  set (w := m_writer m) in *.
  set (vt := from_samples (vsamples w) voffs vspc (w_vlast_delta w)) in *.
  assert (Htop : top_shape top (moov_tree v vt (aud_of w aoffs) (effective_config w) md)).
  { destruct Hshape as [(-> & _)|(P & _)]; [left; reflexivity|eapply shape_top_shape; exact P]. }
  rewrite (read_tracks_top top v vt (aud_of w aoffs) (effective_config w) md Htop Hlen TV TA).
  rewrite Hdims.
  rewrite track_of_video, track_of_audio.
  unfold check_track_timing in VT.
  apply andb_true_iff in VT. destruct VT as [VT _].
  apply andb_true_iff in VT. destruct VT as [C2 C3].
  rewrite C1, C2.
  assert (C3' : match tr_cts (vtrack v vt (effective_config w) md) with
                | Some l => listZ_eqb l (map (fun f => (Z.of_N (vf_pts f) - Z.of_N (vf_dts f))%Z) (h_v h))
                | None => forallb (fun f => vf_pts f =? vf_dts f) (h_v h) end = true).
  { destruct (tr_cts (vtrack v vt (effective_config w) md)) as [l|].
    - apply andb_true_iff in C3. exact (proj2 C3).
    - rewrite forallb_map in C3. rewrite <- C3. apply forallb_ext'. intros f.
      destruct (vf_pts f =? vf_dts f) eqn:E1; destruct (Z.eqb _ _) eqn:E2; try reflexivity; lia. }
  rewrite C3'.
  assert (C4v : match strict_mdhd (tr_mdhd (vtrack v vt (effective_config w) md)) with
                | Some m1 => md_duration m1 =? sumN (durations_spec (map vf_dts (h_v h))) | None => true end = true).
  { apply mdhd_clause; [exact HsumV|]. unfold total_duration. change (st_durations vt) with (durations_of (vsamples w) (w_vlast_delta w)).
    rewrite DV. reflexivity. }
  rewrite C4v.
  rewrite (mvhd_clause top v vt (aud_of w aoffs) (effective_config w) md _ Htop HsumV
             (eq_trans (f_equal sumN DV) eq_refl)).
  change (tr_entry (vtrack v vt (effective_config w) md)) with (ventry_tree v (effective_config w)).
  rewrite (visual_clause v (effective_config w) Hw Hh).
  rewrite C7.
  unfold aud_of. rewrite EA.
  destruct (cfg_audio b) as [a|]; [|reflexivity].
  destruct Haud as [Hr Hc].
  change (tr_entry (atrack a (from_samples (asamples w) aoffs 1 (w_alast_delta w)) md)) with (aentry_tree a).
  rewrite (audio_clause a Hr Hc).
  set (at_ := from_samples (asamples w) aoffs 1 (w_alast_delta w)).
  assert (C2a : listN_eqb (tr_durations (atrack a at_ md)) (durations_spec (map af_pts (h_a h))) = true).
  { pose proof (audio_timing b ops rs m a aoffs md F HsumA) as AT. cbv zeta in AT.
    unfold check_track_timing in AT.
    apply andb_true_iff in AT. destruct AT as [AT _].
    apply andb_true_iff in AT. destruct AT as [AT _]. exact AT. }
  rewrite C2a.
  assert (C4a : match strict_mdhd (tr_mdhd (atrack a at_ md)) with
                | Some m1 => md_duration m1 =? sumN (durations_spec (map af_pts (h_a h))) | None => true end = true);
    [|rewrite C4a; reflexivity].
  apply mdhd_clause; [exact HsumA|]. subst at_.
  unfold total_duration. change (st_durations (from_samples (asamples w) aoffs 1 (w_alast_delta w))) with (durations_of (asamples w) (w_alast_delta w)).
  rewrite DA. reflexivity.
Qed.
Print Assumptions finished_file_fields_are_exact.

(** * Clause 7 alone, for every finished file and every codec (no duration / audio hypotheses) *)

(* the tracks read back from a finished file, with the video description made explicit *)
Lemma finished_file_tracks_m0 b m0 ops m rs s :
  build b [] = inl m0 -> run m0 ops = (m, rs) -> In (RStats s) rs -> Forall op_payload_ok ops ->
  len (sink_of m) < 4294967296 ->
  exists md voffs vspc aoffs top,
    read_tracks (sink_of m) =
      Some (top, tracks_of (m_video m0) (from_samples (vsamples (m_writer m)) voffs vspc (w_vlast_delta (m_writer m)))
                   (aud_of (m_writer m) aoffs) (effective_config (m_writer m)) md).
Proof.
  intros Hb HR HIn Hok Hlen.
  pose proof (final_state b m0 ops m rs s Hb HR HIn Hok) as F.
  destruct (build_initial _ _ Hb) as (_ & _ & _ & D0 & _).
  destruct (finished_gen_v ops m0 m rs s (Inv_reachable b m0 [] Hb) D0 HR HIn)
    as (md & fs & bufs & Hplan & Hsink & _ & _).
  destruct (fin_sinv _ _ _ _ F) as [[Sv Sa] SA].
  destruct (plan_file_shape _ _ _ _ _ Sv Sa SA Hplan)
    as (voffs & vspc & aoffs & data & start & top & Efile & TV & TA & Hshape).
  cbv zeta in Efile, TV, TA, Hshape.
  exists md, voffs, vspc, aoffs, top.
  rewrite Hsink in *. rewrite Efile in *.
  apply read_tracks_top; [|exact Hlen|exact TV|exact TA].
  destruct Hshape as [(-> & _)|(P & _)]; [left; reflexivity|eapply shape_top_shape; exact P].
Qed.

Theorem parameter_set_clause_holds : forall b m0 ops m rs s,
  build b [] = inl m0 -> run m0 ops = (m, rs) -> In (RStats s) rs ->
  Forall op_payload_ok ops -> len (sink_of m) < 4294967296 ->
  exists top trs vt,
    read_tracks (sink_of m) = Some (top, trs) /\ track_of HV trs = Some vt /\
    (let '(w, hh) := cfg_dims b in
     match first_key_of (accepted b ops (map class_of rs)) with
     | Some d => check_video_entry (cfg_codec b) w hh (Some d) (tr_entry vt)
     | None => true end) = true.
Proof.
  intros b m0 ops m rs s Hb HR HIn Hok Hlen.
  destruct (finished_file_tracks_m0 b m0 ops m rs s Hb HR HIn Hok Hlen)
    as (md & voffs & vspc & aoffs & top & Hread).
  eexists _, _, _. split; [exact Hread|]. split; [apply track_of_video|].
  rewrite (build_video_dims b m0 Hb).
  exact (video_entry_clause b m0 ops m rs s Hb HR HIn Hok).
Qed.
Print Assumptions parameter_set_clause_holds.

(* consequently clause 7 of [failed_C16_mux] is never reported on a finished file, whatever the
   durations and the audio configuration are (the wrap classes only concern clauses 4, 5 and 8) *)
Lemma in_clause k id ok : In k (clause id ok) -> k = id /\ ok = false.
Proof. unfold clause. destruct ok; [intros []|intros [<-|[]]; split; reflexivity]. Qed.

Theorem parameter_set_clause_never_fails : forall b m0 ops m rs s,
  build b [] = inl m0 -> run m0 ops = (m, rs) -> In (RStats s) rs ->
  Forall op_payload_ok ops -> len (sink_of m) < 4294967296 ->
  ~ In 7 (failed_C16_mux b ops (map class_of rs) (sink_of m)).
Proof.
  intros b m0 ops m rs s Hb HR HIn Hok Hlen H7.
  destruct (parameter_set_clause_holds b m0 ops m rs s Hb HR HIn Hok Hlen)
    as (top & trs & vt & Hread & Htr & C7).
  unfold failed_C16_mux in H7. rewrite Hread in H7.
  destruct (negb _); [destruct H7|].
  destruct (cfg_dims b) as [w hh]. rewrite Htr in H7.
  repeat (apply in_app_or in H7; destruct H7 as [H7|H7]);
    apply in_clause in H7; destruct H7 as [E1 E2]; try discriminate E1.
  rewrite C7 in E2. discriminate E2.
Qed.
Print Assumptions parameter_set_clause_never_fails.

(** * The recorded finding KF-C16-1, end to end *)
Definition wit_b : builder :=
  {| b_video := Some (H264, 640, 480); b_audio := None; b_meta := None; b_fast := true;
     b_sps := None; b_pps := None; b_vps := None; b_av1 := None; b_vp9 := None |}.
Definition wit_key : bytes := [0;0;0;1;103;66;0;30; 0;0;0;1;104;206;56;128; 0;0;0;1;101;136;132].
Definition wit_delta : bytes := [0;0;0;1;65;154].
Definition wit_ops : list op := [WV 0 wit_key true; WV 4676692444396388352 wit_delta false; FIN].


(* 0x40E6F30000000000 is the binary64 pattern of 47000.0 s = 4 230 000 000 ticks *)
Example wit_tick : tick (decode64 4676692444396388352) = 4230000000.
Proof. vm_compute. reflexivity. Qed.

(* both calls and the finish are accepted; clause 4 is the only failing clause; the mdhd duration
   field holds 8 460 000 000 mod 2^32 = 4 165 032 704 *)
Example wit_outcome :
  match build wit_b [] with
  | inl m0 => let '(m, rs) := run m0 wit_ops in
      (map class_of rs, failed_C16_mux wit_b wit_ops (map class_of rs) (sink_of m)) = ([COk; COk; COk], [4]) /\
      match read_tracks (sink_of m) with
      | Some (_, trs) =>
          match track_of HV trs with
          | Some vt => tr_durations vt = [4230000000; 4230000000] /\
                       option_map md_duration (strict_mdhd (tr_mdhd vt)) = Some 4165032704 /\
                       sumN (tr_durations vt) = 8460000000
          | None => False end
      | None => False end
  | inr _ => False end.
Proof. vm_compute. repeat split. Qed.

Theorem duration_wrap_witness :
  exists b ops, match build b [] with
                | inl m0 => let '(m, rs) := run m0 ops in
                            In 4 (failed_C16_mux b ops (map class_of rs) (sink_of m))
                | inr _ => False end.
Proof. exists wit_b, wit_ops. vm_compute. left. reflexivity. Qed.
Print Assumptions duration_wrap_witness.

