(** The default fragmented configuration yields a conforming init segment; OpusConfig builders. *)
From Coq Require Import Lia ZifyN ZifyBool.
From Muxide Require Import Model.Base Model.Codec Model.Boxes Model.Frag Model.Defaults Spec.HeaderChecks Proofs.InitHeaderProofs.
Open Scope N_scope.

Theorem default_init_segment_conforms :
  failed_C19_init 1920 1080 90000 (init_segment_of (fmuxer_new frag_config_default)) = [].
Proof.
  apply (init_segment_headers_conform_h264 frag_config_default); try reflexivity; vm_compute; reflexivity.
Qed.
Print Assumptions default_init_segment_conforms.

(* more than two channels always selects mapping family 1; up to two keeps the family *)
Theorem opus_with_channels_family : forall c ch,
  oc_channel_mapping_family (opus_with_channels c ch) = (if 2 <? ch then 1 else oc_channel_mapping_family c) /\
  oc_output_channel_count (opus_with_channels c ch) = ch.
Proof. intros. split; reflexivity. Qed.
Print Assumptions opus_with_channels_family.
