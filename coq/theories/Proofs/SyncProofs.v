(** Audio/video synchronisation read back from the file (C09, the class in which it
    holds) and the stream configuration carried by the sample descriptions of a
    finished file (C07 end to end, H.264 / H.265 / audio entries). *)
From Coq Require Import Lia ZifyN ZifyNat ZifyBool.
From Coq Require Import Sorting.Sorted.
From Muxide Require Import Model.Base Model.Annexb Model.Adts Model.Codec Model.Boxes Model.F64 Model.Writer Model.Api
  Spec.Bmff Spec.Reader Spec.NalSplit Spec.Layout Spec.Contract Spec.Checks Spec.Headers Spec.HeaderChecks
  Proofs.BaseProofs Proofs.TableProofs Proofs.ApiProofs Proofs.AnnexbProofs Proofs.AdtsProofs
  Proofs.SinkProofs Proofs.MoovProofs Proofs.FinishProofs
  Proofs.LayoutProofs Proofs.TimingProofs Proofs.FieldProofs Proofs.ContractProofs Proofs.StructureProofs
  Proofs.EndToEndProofs Proofs.HeaderProofs.
Open Scope N_scope.
Ltac Zify.zify_post_hook ::= Z.div_mod_to_equations.

Local Arguments N.add : simpl never.
Local Arguments N.sub : simpl never.
Local Arguments N.mul : simpl never.
Local Arguments N.div : simpl never.
Local Arguments N.modulo : simpl never.
Local Arguments N.eqb : simpl never.
Local Arguments N.ltb : simpl never.
Local Arguments N.leb : simpl never.

(** * Part 1: reading the finished file *)

(* the tracks read back from the file of a finished run *)
Lemma finished_file_tracks b ops rs m :
  Final b ops rs m -> len (sink_of m) < 4294967296 ->
  exists v md voffs vspc aoffs top,
    read_tracks (sink_of m) =
      Some (top, tracks_of v (from_samples (vsamples (m_writer m)) voffs vspc (w_vlast_delta (m_writer m)))
                   (aud_of (m_writer m) aoffs) (effective_config (m_writer m)) md).
Proof.
  intros F Hlen.
  destruct (fin_plan _ _ _ _ F) as (v & md & fs & bufs & Hplan & Hsink).
  destruct (fin_sinv _ _ _ _ F) as [[Sv Sa] SA].
  destruct (plan_file_shape _ _ _ _ _ Sv Sa SA Hplan)
    as (voffs & vspc & aoffs & data & start & top & Efile & TV & TA & Hshape).
  cbv zeta in Efile, TV, TA, Hshape.
  exists v, md, voffs, vspc, aoffs, top.
  rewrite Hsink in *. rewrite Efile in *.
  apply read_tracks_top; [|exact Hlen|exact TV|exact TA].
  destruct Hshape as [(-> & _)|(P & _)]; [left; reflexivity|eapply shape_top_shape; exact P].
Qed.

(** * Part 2 (S1): synchronisation *)

Definition starts_aligned (h : hist) : Prop :=
  match h_v h, h_a h with
  | v0 :: _, a0 :: _ => af_pts a0 = vf_dts v0
  | _, _ => True
  end.

Lemma in_combine_prefix {A} : forall (l : list N) (xs : list A) acc x t,
  In (x, t) (combine xs (prefix_sums l acc)) ->
  exists k, nth_error xs k = Some x /\ (k < length l)%nat /\ t = acc + sumN (firstn k l).
Proof.
  induction l as [|d l IH]; intros xs acc x t Hin.
  - destruct xs; destruct Hin.
  - destruct xs as [|y xs]; [destruct Hin|].
    cbn [prefix_sums combine] in Hin. destruct Hin as [E|Hin].
    + inversion E; subst. exists 0%nat. cbn [nth_error firstn sumN length]. repeat split; lia.
    + destruct (IH _ _ _ _ Hin) as (k & K1 & K2 & K3).
      exists (S k). cbn [nth_error firstn sumN length]. repeat split; [exact K1|lia|lia].
Qed.

(* the first ctts entry of the video track (0 without ctts) is pts - dts of the first frame *)
Lemma first_cts_file b ops rs m v voffs vspc c md v0 hv :
  Final b ops rs m ->
  h_v (accepted b ops (map class_of rs)) = v0 :: hv ->
  match tr_cts (vtrack v (from_samples (vsamples (m_writer m)) voffs vspc (w_vlast_delta (m_writer m))) c md) with
  | Some (z :: _) => z | _ => 0%Z end = (Z.of_N (vf_pts v0) - Z.of_N (vf_dts v0))%Z.
Proof.
  intros F EHV. set (w := m_writer m).
  set (t := from_samples (vsamples w) voffs vspc (w_vlast_delta w)).
  destruct (video_cts_exact w (fin_cts _ _ _ _ F)) as [C1 C2].
  pose proof (q_vcts b ops rs m F) as Q. fold w in Q. rewrite EHV in Q. cbn [map] in Q.
  rewrite <- C1 in Q.
  change (tr_cts (vtrack v t c md)) with
    (if existsb (fun c0 => negb (Z.eqb c0 0)) (map cts_of (vsamples w))
     then Some (map ctts_view (map cts_of (vsamples w))) else None).
  destruct (existsb (fun c0 => negb (Z.eqb c0 0)) (map cts_of (vsamples w))) eqn:EB.
  - rewrite C2, Q. reflexivity.
  - rewrite Q in EB. cbn [existsb] in EB. apply orb_false_iff in EB. destruct EB as [E0 _].
    destruct (Z.eqb_spec (Z.of_N (vf_pts v0) - Z.of_N (vf_dts v0)) 0) as [E|E]; [|discriminate E0].
    symmetry. exact E.
Qed.

(* the audio stts durations are the consecutive differences of the submitted audio times *)
Lemma audio_durations_file b ops rs m a aoffs md :
  Final b ops rs m ->
  tr_durations (atrack a (from_samples (asamples (m_writer m)) aoffs 1 (w_alast_delta (m_writer m))) md) =
  durations_spec (map af_pts (h_a (accepted b ops (map class_of rs)))).
Proof.
  intros F.
  change (tr_durations (atrack a (from_samples (asamples (m_writer m)) aoffs 1 (w_alast_delta (m_writer m))) md))
    with (map u32 (durations_of (asamples (m_writer m)) (w_alast_delta (m_writer m)))).
  rewrite (map_u32_le _ (proj2 (fin_durs _ _ _ _ F))).
  rewrite <- (q_apts b ops rs m F). apply audio_durations_are_pts_differences. exact (fin_winv _ _ _ _ F).
Qed.

Lemma audio_pts_sorted b ops rs m :
  Final b ops rs m ->
  StronglySorted (fun x y => x <= y) (map af_pts (h_a (accepted b ops (map class_of rs)))).
Proof.
  intros F. rewrite <- (q_apts b ops rs m F).
  destruct (fin_winv _ _ _ _ F) as (_ & Ha & _).
  eapply ssorted_map; [|exact Ha]. cbn beta. intros x y H; exact H.
Qed.

Lemma nth_error_map_nth {A} (f : A -> N) : forall (l : list A) k x,
  nth_error l k = Some x -> nth k (map f l) 0 = f x /\ (k < length (map f l))%nat.
Proof.
  induction l as [|y l IH]; intros [|k] x H; cbn [nth_error] in H; try discriminate.
  - inversion H; subst. cbn [map nth length]. split; [reflexivity|lia].
  - destruct (IH _ _ H) as [I1 I2]. cbn [map nth length]. split; [exact I1|lia].
Qed.

Theorem sync_preserved_when_starts_coincide : forall b m0 ops m rs s,
  build b [] = inl m0 -> run m0 ops = (m, rs) -> In (RStats s) rs ->
  Forall op_payload_ok ops -> len (sink_of m) < 4294967296 ->
  sumN (durations_of (asamples (m_writer m)) (w_alast_delta (m_writer m))) < 4294967296 ->
  starts_aligned (accepted b ops (map class_of rs)) ->
  check_C09 b ops (map class_of rs) (sink_of m) = true.
Proof.
  intros b m0 ops m rs s Hb HR HIn Hok Hlen _ Halign.
  pose proof (final_state b m0 ops m rs s Hb HR HIn Hok) as F.
  destruct (finished_file_tracks b ops rs m F Hlen) as (v & md & voffs & vspc & aoffs & top & Hread).
  unfold check_C09. rewrite (fin_hist _ _ _ _ F). cbn [negb]. rewrite Hread.
  destruct (cfg_audio b) as [a|] eqn:EA; [|reflexivity].
  destruct (h_v (accepted b ops (map class_of rs))) as [|v0 hv] eqn:EHV; [reflexivity|].
  rewrite track_of_video, track_of_audio.
  unfold aud_of. rewrite (sim_waudio _ _ _ (fin_sim _ _ _ _ F)), EA.
  rewrite (first_cts_file b ops rs m v voffs vspc _ md v0 hv F EHV).
  rewrite (audio_durations_file b ops rs m a aoffs md F).
  pose proof (audio_pts_sorted b ops rs m F) as Hsorted.
  unfold starts_aligned in Halign. rewrite EHV in Halign.
  set (ha := h_a (accepted b ops (map class_of rs))) in *.
  apply forallb_forall. intros [af t] Hin.
  destruct (in_combine_prefix _ _ _ _ _ Hin) as (k & K1 & _ & ->).
  destruct (nth_error_map_nth af_pts ha k af K1) as [N1 N2].
  rewrite (durations_telescope (map af_pts ha) k Hsorted N2), N1.
  destruct ha as [|a0 ha']; [destruct k; discriminate K1|].
  change (map af_pts (a0 :: ha')) with (af_pts a0 :: map af_pts ha') in *.
  change (nth 0 (af_pts a0 :: map af_pts ha') 0) with (af_pts a0).
  pose proof (sorted_head_le_nth (af_pts a0) (map af_pts ha') k Hsorted N2) as Hle.
  rewrite N1 in Hle. lia.
Qed.
Print Assumptions sync_preserved_when_starts_coincide.

(** * Part 3: the stored configuration is that of the first accepted video frame *)

Lemma wvs_config w pts dts d k w' :
  WInv w -> write_video_sample_with_dts w pts dts d k = inl w' ->
  (w_vrev w = [] -> w_vconfig w' = extract_config (w_codec w) d /\ w_vconfig w' <> None) /\
  (w_vrev w <> [] -> w_vconfig w' = w_vconfig w).
Proof.
  intros (_ & _ & _ & _ & Hhv & _) H.
  unfold write_video_sample_with_dts, push_video in H.
  destruct (w_finalized w); [discriminate|].
  destruct (negb (cts_fits pts dts)); [discriminate|].
  destruct (w_vprev w) as [prev|] eqn:EP.
  - destruct (dts <=? prev); [discriminate|].
    destruct (U32MAX <? dts - prev); [discriminate|].
    destruct (U32MAX <? len (convert_video (w_codec w) d)); [discriminate|].
    inversion H; subst w'; clear H. cbn [w_vconfig]. split; [|reflexivity].
    intros E. rewrite E in Hhv. destruct Hhv as [Hn _]. congruence.
  - destruct (negb k); [discriminate|].
    destruct (extract_config (w_codec w) d) as [c|] eqn:EC; [|discriminate].
    destruct (U32MAX <? len (convert_video (w_codec w) d)); [discriminate|].
    inversion H; subst w'; clear H. cbn [w_vconfig]. split.
    + intros _. split; [reflexivity|discriminate].
    + intros Hne. destruct (w_vrev w) as [|s0 [|s1 t]]; [congruence| |]; destruct Hhv as [Hp _]; congruence.
Qed.

Lemma was_config w pts d w' : write_audio_sample w pts d = inl w' -> w_vconfig w' = w_vconfig w.
Proof.
  unfold write_audio_sample. cbv zeta. intros H.
  repeat (break_match; try discriminate); inversion H; subst w'; reflexivity.
Qed.

Lemma finalize_config w v md f : w_vconfig (fst (finalize w v md f)) = w_vconfig w.
Proof.
  destruct (finalize_cases w v md f) as [[-> _]|[_ (bufs & bw & s & e & _ & ->)]]; reflexivity.
Qed.

Lemma fin_config m m' r : step m FIN = (m', r) -> w_vconfig (m_writer m') = w_vconfig (m_writer m).
Proof.
  intros H. cbn [step] in H. unfold finish_in_place_with_stats in H.
  destruct (m_finished m).
  - inversion H; subst. reflexivity.
  - pose proof (finalize_config (m_writer m) (m_video m) (m_meta m) (m_fast m)) as Q.
    destruct (finalize (m_writer m) (m_video m) (m_meta m) (m_fast m)) as [w fr]. cbn [fst] in Q.
    destruct fr as [|[k|p]]; cbv beta iota zeta in H; inversion H; subst m'; cbn [m_writer]; exact Q.
Qed.

Definition CInv (b : builder) (m : muxer) (s : acc_state) : Prop :=
  forall f l, a_vrev s = l ++ [f] ->
    w_vconfig (m_writer m) = extract_config (cfg_codec b) (vf_data f) /\ w_vconfig (m_writer m) <> None.

Lemma CInv_keep b m s m' ns :
  CInv b m s -> w_vconfig (m_writer m') = w_vconfig (m_writer m) -> a_vrev ns = a_vrev s -> CInv b m' ns.
Proof. intros C E1 E2 f l H. rewrite E1. apply (C f l). rewrite <- E2. exact H. Qed.

Lemma CInv_push b m s m' pts dts d k ns fr :
  Sim b m s -> WInv (m_writer m) -> CInv b m s ->
  write_video_sample_with_dts (m_writer m) pts dts d k = inl (m_writer m') ->
  a_vrev ns = fr :: a_vrev s -> vf_data fr = d -> CInv b m' ns.
Proof.
  intros S HW C W Ev Ed f l H.
  destruct (wvs_config _ _ _ _ _ _ HW W) as [K1 K2].
  pose proof (len_of_map_eq _ _ _ _ (sim_v _ _ _ S)) as Hl.
  rewrite Ev in H.
  destruct (a_vrev s) as [|x xs] eqn:EV.
  - assert (E0 : w_vrev (m_writer m) = []).
    { destruct (w_vrev (m_writer m)); [reflexivity|]. rewrite len_cons, len_nil in Hl. lia. }
    destruct l as [|y l]; cbn [app] in H.
    + inversion H; subst f. rewrite Ed, <- (sim_wcodec _ _ _ S). exact (K1 E0).
    + inversion H as [[E1 E2]]. destruct l; discriminate E2.
  - assert (E0 : w_vrev (m_writer m) <> []).
    { intros E. rewrite E, len_cons, len_nil in Hl. lia. }
    rewrite (K2 E0).
    destruct l as [|y l]; cbn [app] in H; [inversion H|].
    inversion H as [[E1 E2]]. apply (C f l). rewrite EV. exact E2.
Qed.

Lemma CInv_step b m s o m' r :
  Sim b m s -> WInv (m_writer m) -> CInv b m s -> op_payload_ok o -> step m o = (m', r) ->
  CInv b m' (acc_step b s (o, class_of r)).
Proof.
  intros S HW C Hok Hstep.
  destruct (a_fin s) eqn:Hfin.
  - destruct (sim_fin _ _ _ S Hfin) as [F1 F2].
    destruct (finished_muxer_rejects_everything m F1 F2 o) as [e He].
    rewrite He in Hstep. inversion Hstep; subst m' r; clear Hstep.
    unfold acc_step. rewrite Hfin. eapply CInv_keep; [exact C|reflexivity|reflexivity].
  - assert (Hrej : forall e, o <> FIN -> r = RErr e -> CInv b m' (acc_step b s (o, class_of r))).
    { intros e Hne ->. rewrite (step_rejected_unchanged _ _ _ _ Hne Hstep).
      unfold acc_step. rewrite Hfin. cbn [class_of]. exact C. }
    destruct o as [p d k|p t d k|p d|d ms|d smp|]; cbn [op_payload_ok] in Hok.
    + cbn [step] in Hstep.
      destruct (write_video m (decode64 p) d k) as [m1 [e|]] eqn:W; cbn [lift] in Hstep;
        inversion Hstep; subst m1 r.
      { apply (Hrej e); [discriminate|reflexivity]. }
      destruct (write_video_ok_shape _ _ _ _ _ W) as (W1 & _).
      unfold acc_step. rewrite Hfin. cbn [class_of].
      eapply CInv_push; [exact S|exact HW|exact C|exact W1| |]; cbn [a_vrev vf_data]; reflexivity.
    + cbn [step] in Hstep.
      destruct (write_video_with_dts m (decode64 p) (decode64 t) d k) as [m1 [e|]] eqn:W; cbn [lift] in Hstep;
        inversion Hstep; subst m1 r.
      { apply (Hrej e); [discriminate|reflexivity]. }
      destruct (write_video_with_dts_ok_shape _ _ _ _ _ _ W) as (W1 & _).
      unfold acc_step. rewrite Hfin. cbn [class_of].
      eapply CInv_push; [exact S|exact HW|exact C|exact W1| |]; cbn [a_vrev vf_data]; reflexivity.
    + cbn [step] in Hstep.
      destruct (write_audio m (decode64 p) d) as [m1 [e|]] eqn:W; cbn [lift] in Hstep;
        inversion Hstep; subst m1 r.
      { apply (Hrej e); [discriminate|reflexivity]. }
      destruct (write_audio_ok_shape _ _ _ _ W) as (W1 & _).
      unfold acc_step. rewrite Hfin. cbn [class_of].
      eapply CInv_keep; [exact C|exact (was_config _ _ _ _ W1)|reflexivity].
    + cbn [step] in Hstep. unfold encode_video in Hstep.
      destruct (write_video m (m_cur_vpts m) d (api_is_keyframe m d)) as [m1 [e|]] eqn:W; cbn [lift] in Hstep;
        inversion Hstep; subst m' r.
      { apply write_video_err_unchanged in W. subst m1.
        unfold acc_step. rewrite Hfin. cbn [class_of]. exact C. }
      destruct (write_video_ok_shape _ _ _ _ _ W) as (W1 & _).
      unfold acc_step. rewrite Hfin. cbn [class_of].
      eapply (CInv_push b m s (set_cur m1 _ _)); [exact S|exact HW|exact C|cbn [set_cur m_writer]; exact W1| |];
        cbn [a_vrev vf_data]; reflexivity.
    + cbn [step] in Hstep. unfold encode_audio in Hstep.
      destruct (m_audio m) as [a|] eqn:EAu.
      2:{ cbn [lift] in Hstep. inversion Hstep; subst m' r. unfold acc_step. rewrite Hfin. cbn [class_of]. exact C. }
      destruct (write_audio m (m_cur_apts m) d) as [m1 [e|]] eqn:W; cbn [lift] in Hstep;
        inversion Hstep; subst m' r.
      { apply write_audio_err_unchanged in W. subst m1.
        unfold acc_step. rewrite Hfin. cbn [class_of]. exact C. }
      destruct (write_audio_ok_shape _ _ _ _ W) as (W1 & _).
      unfold acc_step. rewrite Hfin. cbn [class_of].
      eapply (CInv_keep b m s (set_cur m1 _ _)); [exact C|cbn [set_cur m_writer]; exact (was_config _ _ _ _ W1)|reflexivity].
    + pose proof (fin_config _ _ _ Hstep) as Q.
      unfold acc_step. rewrite Hfin.
      destruct r as [|st|e|pn]; cbn [class_of]; (eapply CInv_keep; [exact C|exact Q|reflexivity]).
Qed.

Lemma WInv_step m o : WInv (m_writer m) -> WInv (m_writer (fst (step m o))).
Proof. apply (P_step WInv WInv_write_video WInv_write_audio WInv_finalize). Qed.

Lemma CInv_run b : forall ops m s m' rs,
  Sim b m s -> WInv (m_writer m) -> CInv b m s -> Forall op_payload_ok ops -> run m ops = (m', rs) ->
  CInv b m' (fold_left (acc_step b) (combine ops (map class_of rs)) s).
Proof.
  induction ops as [|o t IH]; intros m s m' rs S HW C Hok HR; cbn [run] in HR.
  - inversion HR; subst. exact C.
  - inversion Hok as [|o' t' Ho Ht]; subst.
    pose proof (WInv_step m o HW) as HW1.
    destruct (step m o) as [m1 r] eqn:ES. cbn [fst] in HW1.
    pose proof (Sim_step b m s o m1 r S Ho ES) as S1.
    pose proof (CInv_step b m s o m1 r S HW C Ho ES) as C1.
    destruct r as [|st|e|p].
    + destruct (run m1 t) as [m2 rs2] eqn:ER. inversion HR; subst. cbn [map combine fold_left]. eapply IH; eassumption.
    + destruct (run m1 t) as [m2 rs2] eqn:ER. inversion HR; subst. cbn [map combine fold_left]. eapply IH; eassumption.
    + destruct (run m1 t) as [m2 rs2] eqn:ER. inversion HR; subst. cbn [map combine fold_left]. eapply IH; eassumption.
    + inversion HR; subst. cbn [map combine fold_left]. destruct t; exact C1.
Qed.

(* the configuration STORED by the writer is the one extracted from the first accepted video frame *)
Lemma final_config_stored b m0 ops m rs f tl :
  build b [] = inl m0 -> run m0 ops = (m, rs) -> Forall op_payload_ok ops ->
  h_v (accepted b ops (map class_of rs)) = f :: tl ->
  exists c, extract_config (cfg_codec b) (vf_data f) = Some c /\ w_vconfig (m_writer m) = Some c.
Proof.
  intros Hb HR Hok EHV.
  assert (C : CInv b m (fold_left (acc_step b) (combine ops (map class_of rs)) acc0)).
  { eapply CInv_run; [apply Sim_init; exact Hb| | |exact Hok|exact HR].
    - pose proof (WInv_reachable b [] m0 [] Hb) as H. exact H.
    - intros f0 l H. destruct l; discriminate H. }
  rewrite accepted_fold in EHV. cbv zeta in EHV. cbn [h_v] in EHV.
  apply (f_equal (@rev vframe)) in EHV. rewrite rev_involutive in EHV. cbn [rev] in EHV.
  destruct (C f (rev tl) EHV) as [E1 E2].
  destruct (w_vconfig (m_writer m)) as [c|]; [|congruence].
  exists c. split; [symmetry; exact E1|reflexivity].
Qed.

(* the configuration written into the sample entry *)
Lemma final_config b m0 ops m rs f tl :
  build b [] = inl m0 -> run m0 ops = (m, rs) -> Forall op_payload_ok ops ->
  h_v (accepted b ops (map class_of rs)) = f :: tl ->
  exists c, extract_config (cfg_codec b) (vf_data f) = Some c /\ effective_config (m_writer m) = c.
Proof.
  intros Hb HR Hok EHV.
  destruct (final_config_stored b m0 ops m rs f tl Hb HR Hok EHV) as (c & Ec & Est).
  exists c. split; [exact Ec|]. unfold effective_config. rewrite Est. reflexivity.
Qed.

(** * Part 4: the configured dimensions reach the plan, and passed the finalize guard *)

Lemma write_video_video m p d k : m_video (fst (write_video m p d k)) = m_video m.
Proof.
  destruct (write_video m p d k) as [m1 [e|]] eqn:W; cbn [fst].
  - apply write_video_err_unchanged in W. subst m1. reflexivity.
  - unfold write_video in W. repeat (break_match; try discriminate). inversion W; subst. reflexivity.
Qed.

Lemma write_video_with_dts_video m p t d k : m_video (fst (write_video_with_dts m p t d k)) = m_video m.
Proof.
  destruct (write_video_with_dts m p t d k) as [m1 [e|]] eqn:W; cbn [fst].
  - apply write_video_with_dts_err_unchanged in W. subst m1. reflexivity.
  - unfold write_video_with_dts in W. repeat (break_match; try discriminate). inversion W; subst. reflexivity.
Qed.

Lemma write_audio_video m p d : m_video (fst (write_audio m p d)) = m_video m.
Proof.
  destruct (write_audio m p d) as [m1 [e|]] eqn:W; cbn [fst].
  - apply write_audio_err_unchanged in W. subst m1. reflexivity.
  - unfold write_audio in W. repeat (break_match; try discriminate). inversion W; subst. reflexivity.
Qed.

Lemma step_video m o : m_video (fst (step m o)) = m_video m.
Proof.
  destruct o as [p d k|p t d k|p d|d ms|d s|]; cbn [step].
  - pose proof (write_video_video m (decode64 p) d k) as H.
    destruct (write_video m (decode64 p) d k) as [m1 [e|]]; exact H.
  - pose proof (write_video_with_dts_video m (decode64 p) (decode64 t) d k) as H.
    destruct (write_video_with_dts m (decode64 p) (decode64 t) d k) as [m1 [e|]]; exact H.
  - pose proof (write_audio_video m (decode64 p) d) as H.
    destruct (write_audio m (decode64 p) d) as [m1 [e|]]; exact H.
  - unfold encode_video.
    pose proof (write_video_video m (m_cur_vpts m) d (api_is_keyframe m d)) as H.
    destruct (write_video m (m_cur_vpts m) d (api_is_keyframe m d)) as [m1 [e|]]; exact H.
  - unfold encode_audio. destruct (m_audio m) as [a|]; [|reflexivity].
    pose proof (write_audio_video m (m_cur_apts m) d) as H.
    destruct (write_audio m (m_cur_apts m) d) as [m1 [e|]]; exact H.
  - unfold finish_in_place_with_stats. destruct (m_finished m); [reflexivity|].
    destruct (finalize (m_writer m) (m_video m) (m_meta m) (m_fast m)) as [w [|[k|p]]]; reflexivity.
Qed.

Lemma run_video v : forall ops m, m_video m = v -> m_video (fst (run m ops)) = v.
Proof.
  apply (run_preserves (fun m => m_video m = v)). intros m o H. rewrite step_video. exact H.
Qed.

Lemma finalize_ok_dims w v md f w' :
  finalize w v md f = (w', FinOk) -> vt_width v < 65536 /\ vt_height v < 65536.
Proof.
  unfold finalize. destruct (w_finalized w); [discriminate|].
  destruct ((U16MAX <? vt_width v) || (U16MAX <? vt_height v)) eqn:G; [discriminate|].
  destruct (param_sets_too_long (w_vconfig w)) eqn:Gps; [discriminate|].
  intros _. unfold U16MAX in G. lia.
Qed.

(* [finished_gen] keeping track of the video track handed to the plan *)
Lemma finished_gen_v : forall ops m m' rs s,
  Inv m -> w_finalized (m_writer m) = false ->
  run m ops = (m', rs) -> In (RStats s) rs ->
  vt_width (m_video m) < 65536 /\ vt_height (m_video m) < 65536 /\
  exists md fs bufs, plan_of (m_writer m') (m_video m) md fs = (bufs, None) /\ sink_of m' = concat bufs.
Proof.
  induction ops as [|o t IH]; intros m m' rs s HI HF HR HIn; cbn [run] in HR.
  - inversion HR; subst. destruct HIn.
  - pose proof (step_Inv m o HI) as HI1.
    pose proof (step_video m o) as HV1.
    destruct (step m o) as [m1 r] eqn:ES. cbn [fst] in HI1, HV1.
    assert (Hstats : forall st, r = RStats st ->
              vt_width (m_video m) < 65536 /\ vt_height (m_video m) < 65536 /\
              exists md fs bufs, plan_of (m_writer m') (m_video m) md fs = (bufs, None) /\ sink_of m' = concat bufs).
    { intros st ->.
      assert (o = FIN).
      { destruct o; try reflexivity; exfalso;
          eapply (step_not_stats m); try (rewrite ES; reflexivity); discriminate. }
      subst o.
      destruct (successful_finish_finishes _ _ _ ES) as [F1 F2].
      destruct (finish_ok_shape _ _ _ ES) as (w1 & Fz & Hw1 & _).
      destruct (finalize_ok_dims _ _ _ _ _ Fz) as [D1 D2].
      destruct (finalize_ok_plan _ _ _ _ _ Fz) as (_ & bufs & bw & sk & Hplan & Hrun & Ew1).
      destruct HI as (Iscr & Iempty & _).
      destruct (run_plan_nil_script _ _ _ _ _ _ Iscr Hrun) as (_ & _ & Hbytes & _).
      destruct (Iempty HF) as (Hsink0 & _). rewrite Hsink0 in Hbytes. cbn [app] in Hbytes.
      destruct (run_finished_id t m1 F1 F2) as [Hid _].
      destruct (run m1 t) as [m2 rs2] eqn:ER. cbn [fst] in Hid. subst m2.
      injection HR as Hm Hrs. subst m'.
      split; [exact D1|]. split; [exact D2|].
      exists (m_meta m), (m_fast m), bufs. split.
      - rewrite Hw1, Ew1, plan_independent_of_sink. exact Hplan.
      - unfold sink_of. rewrite Hw1, Ew1. cbn [with_sink w_sink]. exact Hbytes. }
    destruct (w_finalized (m_writer m1)) eqn:HF1.
    + destruct (run_finalized t m1 HF1) as (_ & Kno).
      destruct r as [|st|e|p].
      * destruct (run m1 t) as [m2 rs2]. cbn [snd] in Kno. inversion HR; subst.
        destruct HIn as [H|H]; [discriminate|]. destruct (Kno s H).
      * apply (Hstats st eq_refl).
      * destruct (run m1 t) as [m2 rs2]. cbn [snd] in Kno. inversion HR; subst.
        destruct HIn as [H|H]; [discriminate|]. destruct (Kno s H).
      * inversion HR; subst. destruct HIn as [H|[]]. discriminate.
    + destruct r as [|st|e|p].
      * destruct (run m1 t) as [m2 rs2] eqn:ER. inversion HR; subst.
        destruct HIn as [H|H]; [discriminate|]. rewrite <- HV1. exact (IH m1 m' rs2 s HI1 HF1 ER H).
      * apply (Hstats st eq_refl).
      * destruct (run m1 t) as [m2 rs2] eqn:ER. inversion HR; subst.
        destruct HIn as [H|H]; [discriminate|]. rewrite <- HV1. exact (IH m1 m' rs2 s HI1 HF1 ER H).
      * inversion HR; subst. destruct HIn as [H|[]]. discriminate.
Qed.

Lemma build_video b m0 :
  build b [] = inl m0 -> cfg_dims b = (vt_width (m_video m0), vt_height (m_video m0)).
Proof.
  unfold build, cfg_dims. destruct (b_video b) as [[[codec w] h]|]; [|discriminate].
  intros H. inversion H; subst m0. reflexivity.
Qed.

(* the tracks read back, with the video track and configuration made explicit *)
Lemma finished_file_tracks_v b m0 ops m rs s :
  build b [] = inl m0 -> run m0 ops = (m, rs) -> In (RStats s) rs -> Forall op_payload_ok ops ->
  len (sink_of m) < 4294967296 ->
  exists v md voffs vspc aoffs top,
    cfg_dims b = (vt_width v, vt_height v) /\ vt_width v < 65536 /\ vt_height v < 65536 /\
    read_tracks (sink_of m) =
      Some (top, tracks_of v (from_samples (vsamples (m_writer m)) voffs vspc (w_vlast_delta (m_writer m)))
                   (aud_of (m_writer m) aoffs) (effective_config (m_writer m)) md).
Proof.
  intros Hb HR HIn Hok Hlen.
  pose proof (final_state b m0 ops m rs s Hb HR HIn Hok) as F.
  destruct (build_initial _ _ Hb) as (_ & _ & _ & D & _).
  destruct (finished_gen_v ops m0 m rs s (Inv_reachable b m0 [] Hb) D HR HIn)
    as (D1 & D2 & md & fs & bufs & Hplan & Hsink).
  destruct (fin_sinv _ _ _ _ F) as [[Sv Sa] SA].
  destruct (plan_file_shape _ _ _ _ _ Sv Sa SA Hplan)
    as (voffs & vspc & aoffs & data & start & top & Efile & TV & TA & Hshape).
  cbv zeta in Efile, TV, TA, Hshape.
  exists (m_video m0), md, voffs, vspc, aoffs, top.
  split; [apply build_video; exact Hb|]. split; [exact D1|]. split; [exact D2|].
  rewrite Hsink in *. rewrite Efile in *.
  apply read_tracks_top; [|exact Hlen|exact TV|exact TA].
  destruct Hshape as [(-> & _)|(P & _)]; [left; reflexivity|eapply shape_top_shape; exact P].
Qed.

(** * Part 5: the units of the declarative split are sub-lists of the frame *)

Lemma units_from_sub d : forall ps cur u, In u (units_from d ps cur) -> exists a b, u = NalSplit.sub d a b.
Proof.
  induction ps as [|p ps IH]; intros cur u H; cbn [units_from] in H.
  - destruct cur as [s|]; [|destruct H]. destruct H as [<-|[]]. eauto.
  - destruct cur as [s|].
    + destruct H as [<-|H]; [eauto|exact (IH _ _ H)].
    + exact (IH _ _ H).
Qed.

Lemma spec_unit_small d u : In u (spec_units d) -> len u <= len d.
Proof.
  intros H. destruct (units_from_sub _ _ _ _ H) as (a & b & ->).
  unfold NalSplit.sub, len. pose proof (firstn_length (b - a) (skipn a d)) as H1.
  pose proof (skipn_length a d) as H2. lia.
Qed.

Lemma first_unit_in p d u : first_unit p d = Some u -> In u (spec_units d).
Proof. unfold first_unit. intros H. apply find_some in H. exact (proj1 H). Qed.

(** * Part 6: the sample entries satisfy the strict decoders *)

Lemma body_is_payload_of t p : length t = 4%nat -> body (build_box t p) = payload_of (build_box t p).
Proof.
  intros H. rewrite (body_build_box t p H).
  destruct t as [|a [|b [|c [|d [|e t]]]]]; try discriminate H. reflexivity.
Qed.

Lemma opt_bytes_eqb_some x : opt_bytes_eqb (Some x) x = true.
Proof. apply bytes_eqb_refl. Qed.

(* [avcc_strict] / [hvcc_strict] without their (unused) byte-range premise *)
Lemma avcc_strict_nb c : len (avc_sps c) < 65536 -> len (avc_pps c) < 65536 ->
  strict_avcc (payload_of (build_avcc_box c)) = Some (avc_sps c, avc_pps c).
Proof.
  intros Hs Hp. unfold build_avcc_box. cbv zeta.
  destruct (match avc_sps c with _ :: a :: b :: d :: _ => (a, b, d) | _ => (66, 0, 30) end)
    as [[pi pc] li] eqn:E.
  pob. apply strict_avcc_gen; [exact Hs | exact Hp |].
  destruct (avc_sps c) as [|x0 [|x1 [|x2 [|x3 t]]]]; try reflexivity.
  injection E as <- <- <-. rewrite !N.eqb_refl. reflexivity.
Qed.

Lemma hvcc_strict_nb c : len (hevc_vps c) < 65536 -> len (hevc_sps c) < 65536 -> len (hevc_pps c) < 65536 ->
  strict_hvcc (payload_of (build_hvcc_box c)) = Some [(32, hevc_vps c); (33, hevc_sps c); (34, hevc_pps c)].
Proof.
  intros Hv Hs Hp. unfold build_hvcc_box. cbv zeta. pob.
  rewrite strict_hvcc_hdr.
  rewrite hvcc_arrays_step by (reflexivity || exact Hv).
  rewrite hvcc_arrays_step by (reflexivity || exact Hs).
  rewrite hvcc_arrays_last by (reflexivity || exact Hp).
  reflexivity.
Qed.

(* the sample entry decodes to the first units of the first key frame as soon as the STORED configuration
   passes the finish-time guard [param_sets_too_long] *)
Lemma video_entry_ok_fit codec v c d :
  vt_width v < 65536 -> vt_height v < 65536 -> (codec = H264 \/ codec = H265) ->
  extract_config codec d = Some c ->
  param_sets_too_long (Some c) = false ->
  check_video_entry codec (vt_width v) (vt_height v) (Some d) (ventry_tree v c) = true.
Proof.
  intros Hw Hh Hcodec Hc Hfit.
  destruct Hcodec as [-> | ->]; cbn [extract_config] in Hc.
  - destruct (extract_avc_config d) as [a|] eqn:EA; [|discriminate Hc]. injection Hc as <-.
    destruct (extract_avc_is_first_units d a EA) as [U1 U2].
    cbn [param_sets_too_long] in Hfit. unfold U16MAX in Hfit.
    assert (L1 : len (avc_sps a) < 65536) by lia. assert (L2 : len (avc_pps a) < 65536) by lia.
    unfold check_video_entry, ventry_tree, entry_config.
    cbn [node b_payload b_children b_typ].
    rewrite (visual_entry_strict v _ Hw Hh). rewrite !N.eqb_refl. cbn [andb].
    change (bytes_eqb T_avc1 (TY 97 118 99 49)) with true.
    change (b_typ (leafb T_avcC (build_avcc_box a))) with T_avcC.
    change (bytes_eqb T_avcC (TY 97 118 99 67)) with true. cbn [andb].
    change (b_payload (leafb T_avcC (build_avcc_box a))) with (body (build_avcc_box a)).
    destruct (avcc_isbox a) as [p Ep].
    assert (E : body (build_avcc_box a) = payload_of (build_avcc_box a)).
    { rewrite Ep. apply body_is_payload_of. reflexivity. }
    rewrite E, (avcc_strict_nb a L1 L2), U1, U2, !opt_bytes_eqb_some. reflexivity.
  - destruct (extract_hevc_config d) as [hc|] eqn:EH; [|discriminate Hc]. injection Hc as <-.
    destruct (extract_hevc_is_first_units d hc EH) as (U1 & U2 & U3).
    cbn [param_sets_too_long] in Hfit. unfold U16MAX in Hfit.
    assert (L1 : len (hevc_vps hc) < 65536) by lia. assert (L2 : len (hevc_sps hc) < 65536) by lia.
    assert (L3 : len (hevc_pps hc) < 65536) by lia.
    unfold check_video_entry, ventry_tree, entry_config.
    cbn [node b_payload b_children b_typ].
    rewrite (visual_entry_strict v _ Hw Hh). rewrite !N.eqb_refl. cbn [andb].
    change (bytes_eqb T_hvc1 (TY 104 118 99 49)) with true.
    change (b_typ (leafb T_hvcC (build_hvcc_box hc))) with T_hvcC.
    change (bytes_eqb T_hvcC (TY 104 118 99 67)) with true. cbn [andb].
    change (b_payload (leafb T_hvcC (build_hvcc_box hc))) with (body (build_hvcc_box hc)).
    assert (E : body (build_hvcc_box hc) = payload_of (build_hvcc_box hc)).
    { unfold build_hvcc_box. cbv zeta. apply body_is_payload_of. reflexivity. }
    rewrite E, (hvcc_strict_nb hc L1 L2 L3), U1, U2, U3, !opt_bytes_eqb_some. reflexivity.
Qed.

Lemma video_entry_ok codec v c d :
  vt_width v < 65536 -> vt_height v < 65536 -> (codec = H264 \/ codec = H265) ->
  extract_config codec d = Some c ->
  Forall (fun u => len u < 65536) (spec_units d) ->
  check_video_entry codec (vt_width v) (vt_height v) (Some d) (ventry_tree v c) = true.
Proof.
  intros Hw Hh Hcodec Hc Hsmall. rewrite Forall_forall in Hsmall.
  assert (Hunit : forall p u, first_unit p d = Some u -> len u < 65536).
  { intros p u H. apply first_unit_in in H. exact (Hsmall u H). }
  apply video_entry_ok_fit; try assumption.
  destruct Hcodec as [-> | ->]; cbn [extract_config] in Hc.
  - destruct (extract_avc_config d) as [a|] eqn:EA; [|discriminate Hc]. injection Hc as <-.
    destruct (extract_avc_is_first_units d a EA) as [U1 U2].
    pose proof (Hunit _ _ U1) as L1. pose proof (Hunit _ _ U2) as L2.
    cbn [param_sets_too_long]. unfold U16MAX. lia.
  - destruct (extract_hevc_config d) as [hc|] eqn:EH; [|discriminate Hc]. injection Hc as <-.
    destruct (extract_hevc_is_first_units d hc EH) as (U1 & U2 & U3).
    pose proof (Hunit _ _ U1) as L1. pose proof (Hunit _ _ U2) as L2. pose proof (Hunit _ _ U3) as L3.
    cbn [param_sets_too_long]. unfold U16MAX. lia.
Qed.

Lemma audio_entry_prefix_mod ch rate : audio_entry_prefix ch rate = audio_entry_prefix ch (rate mod 65536).
Proof.
  unfold audio_entry_prefix. do 8 f_equal.
  rewrite (be32_mod (rate * 65536)), (be32_mod (rate mod 65536 * 65536)). f_equal. lia.
Qed.

Lemma audio_entry_ok a : at_channels a < 65536 -> check_audio_entry a (aentry_tree a) = true.
Proof.
  intros Hch.
  assert (Hu : u16 (at_channels a) = at_channels a) by (unfold u16; lia).
  unfold check_audio_entry, aentry_tree, entry_config.
  assert (Hmp4a :
    match strict_audio_entry (b_payload (node T_mp4a (audio_entry_prefix (at_channels a) (at_sample_rate a))
                                            [leafb T_esds (build_esds_box a)])),
          match b_children (node T_mp4a (audio_entry_prefix (at_channels a) (at_sample_rate a))
                                            [leafb T_esds (build_esds_box a)]) with [c] => Some c | _ => None end with
    | Some (ch, rate), Some cfg =>
        (ch =? u16 (at_channels a)) &&
        (bytes_eqb (b_typ (node T_mp4a (audio_entry_prefix (at_channels a) (at_sample_rate a))
                                            [leafb T_esds (build_esds_box a)])) (TY 109 112 52 97) &&
         (if at_sample_rate a <? 65536 then rate =? at_sample_rate a else true) &&
         match freq_index (at_sample_rate a) with
         | Some fi =>
             if (1 <=? at_channels a) && (at_channels a <=? 6) then
               match strict_esds (b_payload cfg) with
               | Some asc => match asc_fields asc with
                             | Some (aot, sfi, chan) => (aot =? 2) && (sfi =? fi) && (chan =? at_channels a)
                             | None => false end
               | None => false end
             else true
         | None => true
         end)
    | _, _ => false
    end = true).
  { cbn [node b_payload b_children b_typ].
    rewrite audio_entry_prefix_mod.
    rewrite (audio_entry_strict (at_channels a) (at_sample_rate a mod 65536) _ Hch) by lia.
    rewrite Hu, N.eqb_refl. cbn [andb].
    change (bytes_eqb T_mp4a (TY 109 112 52 97)) with true. cbn [andb].
    assert (Er : (if at_sample_rate a <? 65536 then at_sample_rate a mod 65536 =? at_sample_rate a else true) = true).
    { destruct (at_sample_rate a <? 65536) eqn:E; [|reflexivity]. lia. }
    rewrite Er. cbn [andb].
    destruct (freq_index (at_sample_rate a)) as [fi|] eqn:EF; [|reflexivity].
    destruct ((1 <=? at_channels a) && (at_channels a <=? 6)) eqn:EC; [|reflexivity].
    change (b_payload (leafb T_esds (build_esds_box a))) with (body (build_esds_box a)).
    assert (E : body (build_esds_box a) = payload_of (build_esds_box a)).
    { unfold build_esds_box. cbv zeta. apply body_is_payload_of. reflexivity. }
    rewrite E, esds_strict, (asc_fields_of_config _ _ fi EF) by lia.
    rewrite !N.eqb_refl. reflexivity. }
  destruct (at_codec a) as [pr| |]; [exact Hmp4a| |exact Hmp4a].
  cbn [node b_payload b_children b_typ].
  rewrite (audio_entry_strict (at_channels a) OPUS_SAMPLE_RATE _ Hch) by (unfold OPUS_SAMPLE_RATE; lia).
  rewrite Hu, N.eqb_refl. cbn [andb].
  change (bytes_eqb T_Opus (TY 79 112 117 115)) with true.
  change (OPUS_SAMPLE_RATE =? 48000) with true. cbn [andb].
  destruct ((1 <=? at_channels a) && (at_channels a <=? 2)) eqn:EC; [|reflexivity].
  change (b_payload (leafb T_dOps (build_dops_box a))) with (body (build_dops_box a)).
  assert (E : body (build_dops_box a) = payload_of (build_dops_box a)).
  { unfold build_dops_box. cbv zeta. apply body_is_payload_of. reflexivity. }
  rewrite E, dops_strict_stereo by lia. rewrite !N.eqb_refl. reflexivity.
Qed.

(** * Part 7 (S2): the configuration carried by the finished file *)

(* The statement without a bound on the parameter-set lengths WAS false (former theorem
   [finished_file_carries_stream_configuration_refuted], finding KF-C07 "oversized parameter set"): avcC / hvcC
   store 16-bit lengths and [build_avcc_box] truncates, so a first keyframe whose SPS is 65536 bytes long was
   accepted, the finish succeeded, and the avcC record no longer decoded.  Since the fix "finish returns an
   error for parameter sets that do not fit avcC/hvcC's 16-bit length fields" the former witness history no
   longer finishes successfully (below), and the statement holds without any bound
   ([finished_file_carries_stream_configuration_unconditional], at the end of this file). *)
Definition cex_b : builder :=
  {| b_video := Some (H264, 16, 16); b_audio := None; b_meta := None; b_fast := false;
     b_sps := None; b_pps := None; b_vps := None; b_av1 := None; b_vp9 := None |}.
Definition cex_frame : bytes :=
  [0;0;0;1;103] ++ repeat 2 (N.to_nat 65535) ++ [0;0;0;1;104;1] ++ [0;0;0;1;101;1].
Definition cex_ops : list op := [WV 0 cex_frame true; FIN].
Definition cex_m0 : muxer :=
  {| m_writer := writer_new {| sk_rev_chunks := []; sk_script := [] |} H264 None;
     m_codec := H264; m_video := {| vt_width := 16; vt_height := 16 |};
     m_audio := None; m_meta := None; m_fast := false;
     m_first_vpts := None; m_last_vpts := None; m_last_vdts := None; m_last_apts := None;
     m_vcount := 0; m_acount := 0; m_finished := false;
     m_cur_vpts := f_zero; m_cur_apts := f_zero |}.

Lemma cex_build : build cex_b [] = inl cex_m0.
Proof. reflexivity. Qed.
Lemma cex_ok : Forall op_payload_ok cex_ops.
Proof. repeat constructor; vm_compute; reflexivity. Qed.

(* the former witness: the frame is still accepted, the finish now fails with InvalidInput and writes nothing *)
Theorem former_oversized_sps_witness_is_rejected :
  snd (run cex_m0 cex_ops) = [ROk; RErr (MIo IoInvalidInput)] /\ sink_of (fst (run cex_m0 cex_ops)) = [].
Proof. vm_compute. split; reflexivity. Qed.
Print Assumptions former_oversized_sps_witness_is_rejected.

(* closest correct statement: the parameter sets of the first accepted keyframe (all units of
   its declarative split) fit the 16-bit length fields of avcC / hvcC *)
Theorem finished_file_carries_stream_configuration_variant : forall b m0 ops m rs s,
  build b [] = inl m0 -> run m0 ops = (m, rs) -> In (RStats s) rs ->
  Forall op_payload_ok ops -> len (sink_of m) < 4294967296 ->
  (cfg_codec b = H264 \/ cfg_codec b = H265) ->
  (match cfg_audio b with Some a => at_channels a < 65536 | None => True end) ->
  (match first_key_of (accepted b ops (map class_of rs)) with
   | Some d => Forall (fun u => len u < 65536) (spec_units d)
   | None => True end) ->
  check_C07 b ops (map class_of rs) (sink_of m) = true.
Proof.
  intros b m0 ops m rs s Hb HR HIn Hok Hlen Hcodec Hch Hsmall.
  pose proof (final_state b m0 ops m rs s Hb HR HIn Hok) as F.
  destruct (finished_file_tracks_v b m0 ops m rs s Hb HR HIn Hok Hlen)
    as (v & md & voffs & vspc & aoffs & top & Edims & Dw & Dh & Hread).
  unfold check_C07. rewrite (fin_hist _ _ _ _ F). cbn [negb]. rewrite Hread, Edims.
  rewrite track_of_video, track_of_audio.
  apply andb_true_iff. split.
  - unfold first_key_of in *.
    destruct (h_v (accepted b ops (map class_of rs))) as [|f tl] eqn:EHV; [reflexivity|].
    destruct (final_config b m0 ops m rs f tl Hb HR Hok EHV) as (c & Ec & ->).
    change (tr_entry (vtrack v (from_samples (vsamples (m_writer m)) voffs vspc (w_vlast_delta (m_writer m))) c md))
      with (ventry_tree v c).
    apply video_entry_ok; assumption.
  - unfold aud_of. rewrite (sim_waudio _ _ _ (fin_sim _ _ _ _ F)).
    destruct (cfg_audio b) as [a|]; [|reflexivity].
    change (tr_entry (atrack a (from_samples (asamples (m_writer m)) aoffs 1 (w_alast_delta (m_writer m))) md))
      with (aentry_tree a).
    apply audio_entry_ok. exact Hch.
Qed.
Print Assumptions finished_file_carries_stream_configuration_variant.

(* corollary in the form "the first keyframe is shorter than 65536 bytes" *)
Theorem finished_file_carries_stream_configuration_short_keyframe : forall b m0 ops m rs s,
  build b [] = inl m0 -> run m0 ops = (m, rs) -> In (RStats s) rs ->
  Forall op_payload_ok ops -> len (sink_of m) < 4294967296 ->
  (cfg_codec b = H264 \/ cfg_codec b = H265) ->
  (match cfg_audio b with Some a => at_channels a < 65536 | None => True end) ->
  (match first_key_of (accepted b ops (map class_of rs)) with
   | Some d => len d < 65536
   | None => True end) ->
  check_C07 b ops (map class_of rs) (sink_of m) = true.
Proof.
  intros b m0 ops m rs s Hb HR HIn Hok Hlen Hcodec Hch Hshort.
  eapply finished_file_carries_stream_configuration_variant; try eassumption.
  destruct (first_key_of (accepted b ops (map class_of rs))) as [d|]; [|exact I].
  apply Forall_forall. intros u Hu. pose proof (spec_unit_small d u Hu). lia.
Qed.
Print Assumptions finished_file_carries_stream_configuration_short_keyframe.

(** * Part 8: since the fix "finish returns an error for parameter sets that do not fit avcC/hvcC's 16-bit
      length fields" a successful finish implies that the stored parameter sets fit, so the bound on the unit
      lengths of the first key frame is no longer needed *)
Theorem finished_file_carries_stream_configuration_unconditional : forall b m0 ops m rs s,
  build b [] = inl m0 -> run m0 ops = (m, rs) -> In (RStats s) rs ->
  Forall op_payload_ok ops -> len (sink_of m) < 4294967296 ->
  (cfg_codec b = H264 \/ cfg_codec b = H265) ->
  (match cfg_audio b with Some a => at_channels a < 65536 | None => True end) ->
  check_C07 b ops (map class_of rs) (sink_of m) = true.
Proof.
  intros b m0 ops m rs s Hb HR HIn Hok Hlen Hcodec Hch.
  pose proof (final_state b m0 ops m rs s Hb HR HIn Hok) as F.
  pose proof (finished_params_fit b m0 ops m rs s Hb HR HIn) as Hfit.
  destruct (finished_file_tracks_v b m0 ops m rs s Hb HR HIn Hok Hlen)
    as (v & md & voffs & vspc & aoffs & top & Edims & Dw & Dh & Hread).
  unfold check_C07. rewrite (fin_hist _ _ _ _ F). cbn [negb]. rewrite Hread, Edims.
  rewrite track_of_video, track_of_audio.
  apply andb_true_iff. split.
  - unfold first_key_of in *.
    destruct (h_v (accepted b ops (map class_of rs))) as [|f tl] eqn:EHV; [reflexivity|].
    destruct (final_config b m0 ops m rs f tl Hb HR Hok EHV) as (c & Ec & Eeff).
    assert (Hst : w_vconfig (m_writer m) = Some c).
    { destruct (final_config_stored b m0 ops m rs f tl Hb HR Hok EHV) as (c' & Ec' & Est).
      congruence. }
    rewrite Eeff. rewrite Hst in Hfit.
    change (tr_entry (vtrack v (from_samples (vsamples (m_writer m)) voffs vspc (w_vlast_delta (m_writer m))) c md))
      with (ventry_tree v c).
    apply video_entry_ok_fit; assumption.
  - unfold aud_of. rewrite (sim_waudio _ _ _ (fin_sim _ _ _ _ F)).
    destruct (cfg_audio b) as [a|]; [|reflexivity].
    change (tr_entry (atrack a (from_samples (asamples (m_writer m)) aoffs 1 (w_alast_delta (m_writer m))) md))
      with (aentry_tree a).
    apply audio_entry_ok. exact Hch.
Qed.
Print Assumptions finished_file_carries_stream_configuration_unconditional.
