(** Finish/finalize behaviour of the API state machine: only FIN touches the
    sink, a finished muxer rejects everything, stats account for the queues, and
    over a fault-free sink every delivered byte is counted. *)
From Coq Require Import Lia ZifyN ZifyNat ZifyBool.
From Muxide Require Import Model.Base Model.Annexb Model.Adts Model.Codec Model.Boxes Model.F64 Model.Writer Model.Api
  Proofs.BaseProofs Proofs.ApiProofs.
Open Scope N_scope.
Ltac Zify.zify_post_hook ::= Z.div_mod_to_equations.

(** * Writer level: the sample-queueing calls never touch sink / counter / flag *)
Definition wkeeps (w w' : writer) : Prop :=
  w_sink w' = w_sink w /\ w_bytes_written w' = w_bytes_written w /\ w_finalized w' = w_finalized w.

Lemma push_video_keeps w vrev vlast cfg pts dts data key w' :
  push_video w vrev vlast cfg pts dts data key = inl w' -> wkeeps w w'.
Proof.
  unfold push_video. intros H.
  destruct (U32MAX <? len (convert_video (w_codec w) data)) eqn:E; [discriminate|].
  inversion H; subst. unfold wkeeps. cbn [w_sink w_bytes_written w_finalized]. auto.
Qed.

Lemma write_video_sample_with_dts_keeps w pts dts data key w' :
  write_video_sample_with_dts w pts dts data key = inl w' -> wkeeps w w'.
Proof.
  unfold write_video_sample_with_dts. intros H.
  repeat (break_match; try discriminate); eapply push_video_keeps; eassumption.
Qed.

Lemma write_video_sample_keeps w pts data key w' :
  write_video_sample w pts data key = inl w' -> wkeeps w w'.
Proof. unfold write_video_sample. apply write_video_sample_with_dts_keeps. Qed.

Lemma write_audio_sample_keeps w pts data w' :
  write_audio_sample w pts data = inl w' -> wkeeps w w'.
Proof.
  unfold write_audio_sample. intros H. cbv zeta in H.
  repeat (break_match; try discriminate);
    inversion H; subst; unfold wkeeps; cbn [w_sink w_bytes_written w_finalized]; auto.
Qed.

(** * API level *)
Definition keeps (m m' : muxer) : Prop :=
  w_sink (m_writer m') = w_sink (m_writer m) /\
  w_bytes_written (m_writer m') = w_bytes_written (m_writer m) /\
  w_finalized (m_writer m') = w_finalized (m_writer m) /\
  m_finished m' = m_finished m.

Lemma keeps_refl m : keeps m m.
Proof. unfold keeps. auto. Qed.

Lemma keeps_of_wkeeps m m' :
  wkeeps (m_writer m) (m_writer m') -> m_finished m' = m_finished m -> keeps m m'.
Proof. unfold keeps, wkeeps. intros (A & B & C) D. auto. Qed.

Lemma write_video_keeps m p d k : keeps m (fst (write_video m p d k)).
Proof.
  unfold write_video.
  repeat break_match; cbn [fst]; try apply keeps_refl.
  apply keeps_of_wkeeps; cbn [set_video_ok m_writer m_finished]; [|congruence].
  eapply write_video_sample_keeps; eassumption.
Qed.

Lemma write_video_with_dts_keeps m p t d k : keeps m (fst (write_video_with_dts m p t d k)).
Proof.
  unfold write_video_with_dts.
  repeat break_match; cbn [fst]; try apply keeps_refl.
  apply keeps_of_wkeeps; cbn [set_video_ok m_writer m_finished]; [|congruence].
  eapply write_video_sample_with_dts_keeps; eassumption.
Qed.

Lemma write_audio_keeps m p d : keeps m (fst (write_audio m p d)).
Proof.
  unfold write_audio.
  repeat break_match; cbn [fst]; try apply keeps_refl.
  apply keeps_of_wkeeps; cbn [m_writer m_finished]; [|congruence].
  eapply write_audio_sample_keeps; eassumption.
Qed.

Lemma keeps_set_cur m m' v a : keeps m m' -> keeps m (set_cur m' v a).
Proof. unfold keeps, set_cur. cbn [m_writer m_finished]. auto. Qed.

Lemma encode_video_keeps m d ms : keeps m (fst (encode_video m d ms)).
Proof.
  unfold encode_video.
  pose proof (write_video_keeps m (m_cur_vpts m) d (api_is_keyframe m d)) as K.
  destruct (write_video m (m_cur_vpts m) d (api_is_keyframe m d)) as [m1 [e1|]]; cbn [fst] in *.
  - exact K.
  - apply keeps_set_cur, K.
Qed.

Lemma encode_audio_keeps m d s : keeps m (fst (encode_audio m d s)).
Proof.
  unfold encode_audio. destruct (m_audio m) as [a|]; [|apply keeps_refl].
  pose proof (write_audio_keeps m (m_cur_apts m) d) as K.
  destruct (write_audio m (m_cur_apts m) d) as [m1 [e1|]]; cbn [fst] in *.
  - exact K.
  - apply keeps_set_cur, K.
Qed.

Lemma fst_lift r : fst (lift r) = fst r.
Proof. destruct r as [m [e|]]; reflexivity. Qed.

Lemma step_keeps m o : o <> FIN -> keeps m (fst (step m o)).
Proof.
  intros Hne. destruct o; cbn [step]; try rewrite fst_lift.
  - apply write_video_keeps.
  - apply write_video_with_dts_keeps.
  - apply write_audio_keeps.
  - apply encode_video_keeps.
  - apply encode_audio_keeps.
  - congruence.
Qed.

Theorem non_fin_ops_keep_sink : forall m o, o <> FIN ->
  w_sink (m_writer (fst (step m o))) = w_sink (m_writer m) /\
  w_bytes_written (m_writer (fst (step m o))) = w_bytes_written (m_writer m) /\
  w_finalized (m_writer (fst (step m o))) = w_finalized (m_writer m) /\
  m_finished (fst (step m o)) = m_finished m.
Proof. intros m o Hne. exact (step_keeps m o Hne). Qed.
Print Assumptions non_fin_ops_keep_sink.

(** * A finished muxer rejects every call *)
Lemma write_video_sample_with_dts_finalized w pts dts data key :
  w_finalized w = true -> write_video_sample_with_dts w pts dts data key = inr AlreadyFinalized.
Proof. intros F. unfold write_video_sample_with_dts. rewrite F. reflexivity. Qed.

Lemma write_video_finalized m p d k :
  w_finalized (m_writer m) = true -> exists e, write_video m p d k = (m, Some e).
Proof.
  intros F. unfold write_video, write_video_sample.
  rewrite (write_video_sample_with_dts_finalized _ _ _ _ _ F).
  repeat break_match; eauto.
Qed.

Lemma write_video_with_dts_finished m p t d k :
  m_finished m = true -> write_video_with_dts m p t d k = (m, Some AlreadyFinished).
Proof. intros F. unfold write_video_with_dts. rewrite F. reflexivity. Qed.

Lemma write_audio_finished m p d :
  m_finished m = true -> write_audio m p d = (m, Some AlreadyFinished).
Proof. intros F. unfold write_audio. rewrite F. reflexivity. Qed.

Theorem finished_muxer_rejects_everything : forall m,
  m_finished m = true -> w_finalized (m_writer m) = true ->
  forall o, exists e, step m o = (m, RErr e).
Proof.
  intros m Ffin Fz o. destruct o; cbn [step].
  - destruct (write_video_finalized m (decode64 pts) data key Fz) as [e ->]. cbn [lift]. eauto.
  - rewrite (write_video_with_dts_finished _ _ _ _ _ Ffin). cbn [lift]. eauto.
  - rewrite (write_audio_finished _ _ _ Ffin). cbn [lift]. eauto.
  - unfold encode_video.
    destruct (write_video_finalized m (m_cur_vpts m) data (api_is_keyframe m data) Fz) as [e ->].
    cbn [lift]. eauto.
  - unfold encode_audio. destruct (m_audio m) as [a|].
    + rewrite (write_audio_finished _ _ _ Ffin). cbn [lift]. eauto.
    + cbn [lift]. eauto.
  - unfold finish_in_place_with_stats. rewrite Ffin. eauto.
Qed.
Print Assumptions finished_muxer_rejects_everything.

(** * Shape of finalize / finish *)
Lemma finalize_cases w v md f :
  (fst (finalize w v md f) = w /\ exists e, snd (finalize w v md f) = FinErr e) \/
  (w_finalized w = false /\
   exists bufs bw s e,
     run_plan bufs (w_bytes_written w) (w_sink w) = (bw, s, e) /\
     fst (finalize w v md f) = with_sink w true bw s).
Proof.
  unfold finalize.
  destruct (w_finalized w) eqn:F; [left; cbn [fst snd]; eauto|].
  destruct ((U16MAX <? vt_width v) || (U16MAX <? vt_height v)) eqn:G; [left; cbn [fst snd]; eauto|].
  destruct (param_sets_too_long (w_vconfig w)) eqn:G2; [left; cbn [fst snd]; eauto|].
  right. split; [reflexivity|].
  destruct (if f then finalize_fast_start w v md (effective_config w)
            else finalize_standard w v md (effective_config w)) as [bufs term].
  destruct (run_plan bufs (w_bytes_written w) (w_sink w)) as [[bw s] e] eqn:R.
  exists bufs, bw, s, e. split; [exact R|].
  destruct e as [k|]; [reflexivity|]. destruct term as [t|]; reflexivity.
Qed.

Lemma finish_ok_shape m m' s :
  step m FIN = (m', RStats s) ->
  exists w, finalize (m_writer m) (m_video m) (m_meta m) (m_fast m) = (w, FinOk) /\
            m_writer m' = w /\ m_finished m' = true /\
            st_video_frames s = len (w_vrev w) /\ st_audio_frames s = len (w_arev w) /\
            st_bytes s = w_bytes_written w.
Proof.
  cbn [step]. unfold finish_in_place_with_stats. intros H.
  destruct (m_finished m) eqn:Ffin; [discriminate|].
  destruct (finalize (m_writer m) (m_video m) (m_meta m) (m_fast m)) as [w r] eqn:Fz.
  destruct r as [|[k|p]]; cbv beta iota zeta in H; try discriminate.
  inversion H; subst. exists w. cbn [m_writer m_finished st_video_frames st_audio_frames st_bytes].
  repeat split; reflexivity.
Qed.

Lemma finalize_ok_with_sink w v md f w' :
  finalize w v md f = (w', FinOk) -> exists bw s, w' = with_sink w true bw s.
Proof.
  intros H. destruct (finalize_cases w v md f) as [[_ [e He]]|[_ (bufs & bw & s & e & _ & Hw)]];
    rewrite H in *; cbn [fst snd] in *.
  - discriminate.
  - eauto.
Qed.

Theorem successful_finish_finishes : forall m s m',
  step m FIN = (m', RStats s) -> m_finished m' = true /\ w_finalized (m_writer m') = true.
Proof.
  intros m s m' H. destruct (finish_ok_shape _ _ _ H) as (w & Fz & Hw & Hf & _).
  split; [exact Hf|]. rewrite Hw.
  destruct (finalize_ok_with_sink _ _ _ _ _ Fz) as (bw & s0 & ->). reflexivity.
Qed.
Print Assumptions successful_finish_finishes.

Theorem stats_account_for_frames_and_bytes : forall m s m',
  step m FIN = (m', RStats s) ->
  st_video_frames s = len (w_vrev (m_writer m)) /\
  st_audio_frames s = len (w_arev (m_writer m)) /\
  st_bytes s = w_bytes_written (m_writer m') /\
  w_vrev (m_writer m') = w_vrev (m_writer m) /\ w_arev (m_writer m') = w_arev (m_writer m).
Proof.
  intros m s m' H. destruct (finish_ok_shape _ _ _ H) as (w & Fz & Hw & Hf & Hv & Ha & Hb).
  rewrite Hw, Hv, Ha, Hb.
  destruct (finalize_ok_with_sink _ _ _ _ _ Fz) as (bw & s0 & ->).
  cbn [with_sink w_vrev w_arev w_bytes_written]. repeat split; reflexivity.
Qed.
Print Assumptions stats_account_for_frames_and_bytes.

(** * Fault-free sink *)
Lemma write_all_nil_script buf : write_all [] buf = ([], buf, None).
Proof. destruct buf; reflexivity. Qed.

Lemma sink_write_all_nil_script s b :
  sk_script s = [] ->
  sink_write_all s b = ({| sk_rev_chunks := b :: sk_rev_chunks s; sk_script := [] |}, None).
Proof. intros H. unfold sink_write_all. rewrite H, write_all_nil_script. reflexivity. Qed.

Lemma sink_bytes_push b chunks scr :
  sink_bytes {| sk_rev_chunks := b :: chunks; sk_script := scr |} =
  sink_bytes {| sk_rev_chunks := chunks; sk_script := scr |} ++ b.
Proof.
  unfold sink_bytes. cbn [sk_rev_chunks rev]. rewrite concat_app. cbn [concat].
  rewrite app_nil_r. reflexivity.
Qed.

Lemma run_plan_nil_script : forall bufs bw s bw' s' e,
  sk_script s = [] -> run_plan bufs bw s = (bw', s', e) ->
  e = None /\ sk_script s' = [] /\
  sink_bytes s' = sink_bytes s ++ concat bufs /\
  (bw = N.min (len (sink_bytes s)) U64MAX -> bw' = N.min (len (sink_bytes s')) U64MAX).
Proof.
  induction bufs as [|b t IH]; intros bw s bw' s' e Hs H; cbn [run_plan] in H.
  - inversion H; subst. cbn [concat]. rewrite app_nil_r. auto.
  - rewrite (sink_write_all_nil_script s b Hs) in H.
    destruct s as [chunks scr]. cbn [sk_script sk_rev_chunks] in *. subst scr.
    apply IH in H; [|reflexivity].
    destruct H as (He & Hs' & Hb & Hbw).
    rewrite sink_bytes_push in Hb, Hbw.
    split; [exact He|]. split; [exact Hs'|]. split.
    + rewrite Hb. cbn [concat]. rewrite app_assoc. reflexivity.
    + intros Hbw0. apply Hbw. rewrite Hbw0, len_app. unfold U64MAX. lia.
Qed.

(* reachable-state invariant for a muxer built over a fault-free sink *)
Definition Inv (m : muxer) : Prop :=
  sk_script (w_sink (m_writer m)) = [] /\
  (w_finalized (m_writer m) = false ->
     sink_bytes (w_sink (m_writer m)) = [] /\ w_bytes_written (m_writer m) = 0) /\
  (m_finished m = true -> w_finalized (m_writer m) = true).

(* the byte counter is the saturated sink length *)
Definition Counted (m : muxer) : Prop :=
  sk_script (w_sink (m_writer m)) = [] /\
  w_bytes_written (m_writer m) = N.min (len (sink_bytes (w_sink (m_writer m)))) U64MAX.

(* what FIN does to the two layers *)
Lemma fin_cases m :
  (m_writer (fst (step m FIN)) = m_writer m /\ m_finished (fst (step m FIN)) = m_finished m) \/
  (w_finalized (m_writer m) = false /\
   exists bufs bw s e,
     run_plan bufs (w_bytes_written (m_writer m)) (w_sink (m_writer m)) = (bw, s, e) /\
     m_writer (fst (step m FIN)) = with_sink (m_writer m) true bw s).
Proof.
  cbn [step]. unfold finish_in_place_with_stats.
  destruct (m_finished m) eqn:Ffin; [left; cbn [fst]; auto|].
  pose proof (finalize_cases (m_writer m) (m_video m) (m_meta m) (m_fast m)) as C.
  destruct (finalize (m_writer m) (m_video m) (m_meta m) (m_fast m)) as [w r] eqn:Fz.
  cbn [fst snd] in C. cbv beta zeta.
  destruct C as [[Hw [e He]]|[F (bufs & bw & s & e & R & Hw)]].
  - left. subst w r. destruct e as [k|p]; cbn [fst m_writer m_finished]; auto.
  - right. split; [exact F|]. exists bufs, bw, s, e. split; [exact R|].
    destruct r as [|[k|p]]; cbn [fst m_writer]; exact Hw.
Qed.

Lemma step_Inv m o : Inv m -> Inv (fst (step m o)).
Proof.
  intros (Hs & Hz & Hf).
  assert (D : o = FIN \/ o <> FIN) by (destruct o; auto; right; discriminate).
  destruct D as [->|Hne].
  - destruct (fin_cases m) as [[Hw Hfin]|[F (bufs & bw & s & e & R & Hw)]]; unfold Inv.
    + rewrite Hw, Hfin. auto.
    + rewrite Hw. cbn [with_sink w_sink w_finalized w_bytes_written].
      destruct (run_plan_nil_script _ _ _ _ _ _ Hs R) as (_ & Hs' & _).
      split; [exact Hs'|]. split; [discriminate|reflexivity].
  - destruct (step_keeps m o Hne) as (A & B & C & D). unfold Inv.
    rewrite A, B, C, D. auto.
Qed.

Lemma step_Counted m o : Counted m -> Counted (fst (step m o)).
Proof.
  intros (Hs & Hc).
  assert (D : o = FIN \/ o <> FIN) by (destruct o; auto; right; discriminate).
  destruct D as [->|Hne].
  - destruct (fin_cases m) as [[Hw Hfin]|[F (bufs & bw & s & e & R & Hw)]]; unfold Counted.
    + rewrite Hw. auto.
    + rewrite Hw. cbn [with_sink w_sink w_bytes_written].
      destruct (run_plan_nil_script _ _ _ _ _ _ Hs R) as (_ & Hs' & _ & Hbw).
      split; [exact Hs'|]. apply Hbw, Hc.
  - destruct (step_keeps m o Hne) as (A & B & C & D). unfold Counted.
    rewrite A, B. auto.
Qed.

Lemma run_preserves (P : muxer -> Prop) :
  (forall m o, P m -> P (fst (step m o))) ->
  forall ops m, P m -> P (fst (run m ops)).
Proof.
  intros Hstep. induction ops as [|o t IH]; intros m Hm; cbn [run]; [exact Hm|].
  pose proof (Hstep m o Hm) as Hm'.
  destruct (step m o) as [m' r]. cbn [fst] in Hm'.
  specialize (IH m' Hm').
  destruct r as [| st | e | p].
  - destruct (run m' t) as [m'' rs]; cbn [fst] in *; exact IH.
  - destruct (run m' t) as [m'' rs]; cbn [fst] in *; exact IH.
  - destruct (run m' t) as [m'' rs]; cbn [fst] in *; exact IH.
  - cbn [fst]. exact Hm'.
Qed.

Lemma build_initial b m0 :
  build b [] = inl m0 ->
  sk_script (w_sink (m_writer m0)) = [] /\ sink_bytes (w_sink (m_writer m0)) = [] /\
  w_bytes_written (m_writer m0) = 0 /\ w_finalized (m_writer m0) = false /\ m_finished m0 = false.
Proof.
  unfold build. destruct (b_video b) as [[[c w] h]|]; [|discriminate].
  intros H. inversion H; subst.
  cbn [m_writer m_finished writer_new w_sink w_bytes_written w_finalized sk_script].
  repeat split; reflexivity.
Qed.

Theorem Inv_reachable : forall b m0 ops, build b [] = inl m0 -> Inv (fst (run m0 ops)).
Proof.
  intros b m0 ops Hb. apply (run_preserves Inv step_Inv).
  destruct (build_initial _ _ Hb) as (A & B & C & D & E). unfold Inv.
  split; [exact A|]. split; [auto|]. rewrite E. discriminate.
Qed.
Print Assumptions Inv_reachable.

Lemma run_non_fin_keeps_sink : forall ops m,
  Forall (fun o => o <> FIN) ops ->
  w_sink (m_writer (fst (run m ops))) = w_sink (m_writer m).
Proof.
  induction ops as [|o t IH]; intros m Hall; cbn [run]; [reflexivity|].
  inversion Hall as [|o' t' Hne Ht]; subst.
  destruct (step_keeps m o Hne) as (A & _).
  destruct (step m o) as [m' r]. cbn [fst] in A.
  specialize (IH m' Ht).
  destruct r as [| st | e | p].
  - destruct (run m' t) as [m'' rs]; cbn [fst] in *; congruence.
  - destruct (run m' t) as [m'' rs]; cbn [fst] in *; congruence.
  - destruct (run m' t) as [m'' rs]; cbn [fst] in *; congruence.
  - cbn [fst]. exact A.
Qed.

(* nothing reaches the sink before a finish attempt *)
Theorem sink_empty_before_any_finish : forall b m0 ops,
  build b [] = inl m0 -> Forall (fun o => o <> FIN) ops ->
  sink_bytes (w_sink (m_writer (fst (run m0 ops)))) = [].
Proof.
  intros b m0 ops Hb Hall. rewrite (run_non_fin_keeps_sink ops m0 Hall).
  destruct (build_initial _ _ Hb) as (_ & B & _). exact B.
Qed.
Print Assumptions sink_empty_before_any_finish.

Lemma Counted_reachable b m0 ops : build b [] = inl m0 -> Counted (fst (run m0 ops)).
Proof.
  intros Hb. apply (run_preserves Counted step_Counted).
  destruct (build_initial _ _ Hb) as (A & B & C & _). unfold Counted.
  split; [exact A|]. rewrite B, C. reflexivity.
Qed.

(* every byte delivered to a fault-free sink is counted (no saturation below 2^64) *)
Theorem bytes_written_equals_sink_length : forall b m0 ops,
  build b [] = inl m0 ->
  len (sink_bytes (w_sink (m_writer (fst (run m0 ops))))) < 18446744073709551616 ->
  w_bytes_written (m_writer (fst (run m0 ops))) = len (sink_bytes (w_sink (m_writer (fst (run m0 ops))))).
Proof.
  intros b m0 ops Hb Hlt. destruct (Counted_reachable b m0 ops Hb) as (_ & Hc).
  rewrite Hc. unfold U64MAX. lia.
Qed.
Print Assumptions bytes_written_equals_sink_length.
