(** C18 and C19 end to end on the model's own output.

    M1  [finished_file_metadata_is_faithful] (check_C18 on every finished file); proved from the
        stronger [finished_file_metadata_general], which needs none of the language / creation-time /
        duration side conditions.
    M2  the statement as first proposed ([header_clauses_claim]) is FALSE: concrete counterexample
        [header_clauses_claim_refuted_opus0] (the second one, an oversized SPS, no longer finishes since
        the fix "finish returns an error for parameter sets that do not fit avcC/hvcC's 16-bit length
        fields": [former_big_sps_witness_is_rejected]).
        The corrected statements are [finished_file_header_clauses_exact] (the exact list of failing
        clauses), [finished_file_header_clauses_variant] (side condition on the writer state),
        [finished_file_header_clauses_variant_inputs] (side condition on the submitted frames), and,
        since that fix, [finished_file_header_clauses_exact_unconditional] /
        [finished_file_header_clauses_unconditional] (no side condition on the parameter sets). *)
From Coq Require Import Lia ZifyN ZifyNat ZifyBool.
From Muxide Require Import Model.Base Model.Annexb Model.Adts Model.Codec Model.Boxes Model.F64 Model.Writer Model.Api
  Spec.Bmff Spec.Reader Spec.Layout Spec.Checks Spec.Headers Spec.HeaderChecks.
From Muxide Require Import Proofs.BaseProofs Proofs.AnnexbProofs Proofs.ApiProofs Proofs.SinkProofs Proofs.FinishProofs Proofs.TimingProofs
  Proofs.StructureProofs Proofs.EndToEndProofs Proofs.MetaProofs Proofs.HeaderProofs.
Open Scope N_scope.
Ltac Zify.zify_post_hook ::= Z.div_mod_to_equations.

Local Arguments N.add : simpl never.
Local Arguments N.sub : simpl never.
Local Arguments N.mul : simpl never.
Local Arguments N.div : simpl never.
Local Arguments N.modulo : simpl never.
Local Arguments N.eqb : simpl never.
Local Arguments N.ltb : simpl never.
Local Arguments N.leb : simpl never.

(** * Part A: the static fields of the muxer and the finish plan *)
Definition Static (m0 m : muxer) : Prop := m_video m = m_video m0 /\ m_meta m = m_meta m0.

Lemma static_write_video m p d k : Static m (fst (write_video m p d k)).
Proof.
  unfold Static, write_video. repeat break_match; cbn [fst set_video_ok m_video m_meta]; auto.
Qed.
Lemma static_write_video_with_dts m p t d k : Static m (fst (write_video_with_dts m p t d k)).
Proof.
  unfold Static, write_video_with_dts. repeat break_match; cbn [fst set_video_ok m_video m_meta]; auto.
Qed.
Lemma static_write_audio m p d : Static m (fst (write_audio m p d)).
Proof.
  unfold Static, write_audio. repeat break_match; cbn [fst m_video m_meta]; auto.
Qed.
Lemma static_finish m : Static m (fst (finish_in_place_with_stats m)).
Proof.
  unfold Static, finish_in_place_with_stats. repeat break_match; cbn [fst m_video m_meta]; auto.
Qed.

Lemma step_static m o : Static m (fst (step m o)).
Proof.
  destruct o as [p d k|p t d k|p d|d ms|d s|]; cbn [step].
  - pose proof (static_write_video m (decode64 p) d k) as H.
    destruct (write_video m (decode64 p) d k) as [m1 [e|]]; exact H.
  - pose proof (static_write_video_with_dts m (decode64 p) (decode64 t) d k) as H.
    destruct (write_video_with_dts m (decode64 p) (decode64 t) d k) as [m1 [e|]]; exact H.
  - pose proof (static_write_audio m (decode64 p) d) as H.
    destruct (write_audio m (decode64 p) d) as [m1 [e|]]; exact H.
  - unfold encode_video.
    pose proof (static_write_video m (m_cur_vpts m) d (api_is_keyframe m d)) as H.
    destruct (write_video m (m_cur_vpts m) d (api_is_keyframe m d)) as [m1 [e|]]; exact H.
  - unfold encode_audio. destruct (m_audio m) as [a|]; [|split; reflexivity].
    pose proof (static_write_audio m (m_cur_apts m) d) as H.
    destruct (write_audio m (m_cur_apts m) d) as [m1 [e|]]; exact H.
  - pose proof (static_finish m) as H.
    destruct (finish_in_place_with_stats m) as [m1 [st|e|p]]; exact H.
Qed.

Lemma static_reachable m0 ops : Static m0 (fst (run m0 ops)).
Proof.
  apply (run_preserves (Static m0)); [|split; reflexivity].
  intros m o [H1 H2]. destruct (step_static m o) as [S1 S2]. split; congruence.
Qed.

Lemma finalize_ok_dims w v md f w' :
  finalize w v md f = (w', FinOk) -> vt_width v < 65536 /\ vt_height v < 65536.
Proof.
  unfold finalize. destruct (w_finalized w); [discriminate|].
  destruct ((U16MAX <? vt_width v) || (U16MAX <? vt_height v)) eqn:E; [discriminate|].
  destruct (param_sets_too_long (w_vconfig w)) eqn:Gps; [discriminate|].
  intros _. unfold U16MAX in E. lia.
Qed.

(* [finished_gen] with the plan's parameters named *)
Lemma finished_gen_static : forall ops m m' rs s,
  Inv m -> w_finalized (m_writer m) = false ->
  run m ops = (m', rs) -> In (RStats s) rs ->
  exists fs bufs, plan_of (m_writer m') (m_video m') (m_meta m') fs = (bufs, None) /\ sink_of m' = concat bufs /\
                  vt_width (m_video m') < 65536 /\ vt_height (m_video m') < 65536.
Proof.
  induction ops as [|o t IH]; intros m m' rs s HI HF HR HIn; cbn [run] in HR.
  - inversion HR; subst. destruct HIn.
  - pose proof (step_Inv m o HI) as HI1.
    destruct (step m o) as [m1 r] eqn:ES. cbn [fst] in HI1.
    assert (Hstats : forall st, r = RStats st ->
              exists fs bufs, plan_of (m_writer m') (m_video m') (m_meta m') fs = (bufs, None) /\ sink_of m' = concat bufs /\
                  vt_width (m_video m') < 65536 /\ vt_height (m_video m') < 65536).
    { intros st ->.
      assert (o = FIN).
      { destruct o; try reflexivity; exfalso;
          eapply (step_not_stats m); try (rewrite ES; reflexivity); discriminate. }
      subst o.
      destruct (successful_finish_finishes _ _ _ ES) as [F1 F2].
      destruct (finish_ok_shape _ _ _ ES) as (w1 & Fz & Hw1 & _).
      destruct (finalize_ok_dims _ _ _ _ _ Fz) as [Dw Dh].
      destruct (finalize_ok_plan _ _ _ _ _ Fz) as (_ & bufs & bw & sk & Hplan & Hrun & Ew1).
      destruct HI as (Iscr & Iempty & _).
      destruct (run_plan_nil_script _ _ _ _ _ _ Iscr Hrun) as (_ & _ & Hbytes & _).
      destruct (Iempty HF) as (Hsink0 & _). rewrite Hsink0 in Hbytes. cbn [app] in Hbytes.
      destruct (run_finished_id t m1 F1 F2) as [Hid _].
      destruct (run m1 t) as [m2 rs2] eqn:ER. cbn [fst] in Hid. subst m2.
      injection HR as Hm Hrs. subst m'.
      pose proof (step_static m FIN) as [S1 S2]. rewrite ES in S1, S2. cbn [fst] in S1, S2.
      rewrite S1, S2.
      exists (m_fast m), bufs. split; [|split; [|split; assumption]].
      - rewrite Hw1, Ew1, plan_independent_of_sink. exact Hplan.
      - unfold sink_of. rewrite Hw1, Ew1. cbn [with_sink w_sink]. exact Hbytes. }
    destruct (w_finalized (m_writer m1)) eqn:HF1.
    + destruct (run_finalized t m1 HF1) as (_ & Kno).
      destruct r as [|st|e|p].
      * destruct (run m1 t) as [m2 rs2]. cbn [snd] in Kno. inversion HR; subst.
        destruct HIn as [H|H]; [discriminate|]. destruct (Kno s H).
      * apply (Hstats st eq_refl).
      * destruct (run m1 t) as [m2 rs2]. cbn [snd] in Kno. inversion HR; subst.
        destruct HIn as [H|H]; [discriminate|]. destruct (Kno s H).
      * inversion HR; subst. destruct HIn as [H|[]]. discriminate.
    + destruct r as [|st|e|p].
      * destruct (run m1 t) as [m2 rs2] eqn:ER. inversion HR; subst.
        destruct HIn as [H|H]; [discriminate|]. exact (IH m1 m' rs2 s HI1 HF1 ER H).
      * apply (Hstats st eq_refl).
      * destruct (run m1 t) as [m2 rs2] eqn:ER. inversion HR; subst.
        destruct HIn as [H|H]; [discriminate|]. exact (IH m1 m' rs2 s HI1 HF1 ER H).
      * inversion HR; subst. destruct HIn as [H|[]]. discriminate.
Qed.

(** * Part B: the header boxes of the emitted tree *)
Lemma body_is_payload_of b : body b = payload_of b.
Proof. reflexivity. Qed.

Section Paths.
  Variables (v : video_track) (t : sample_tables) (c : video_config) (m : option metadata).
  Variables (a : audio_track).
  Let stbl := TY 115 116 98 108.
  Let stsd := TY 115 116 115 100.

  Lemma v_tkhd : trak_box (vtrak_tree v t c m) [T_TKHD] = Some (tkhd_tree 1 0 (vt_width v) (vt_height v)).
  Proof. reflexivity. Qed.
  Lemma a_tkhd : trak_box (atrak_tree a t m) [T_TKHD] = Some (tkhd_tree 2 256 0 0).
  Proof. reflexivity. Qed.
  Lemma v_mdhd : trak_box (vtrak_tree v t c m) [T_MDIA; T_MDHD] =
                 Some (mdhd_tree MEDIA_TIMESCALE (total_duration t) (Boxes.md_lang m)).
  Proof. reflexivity. Qed.
  Lemma a_mdhd : trak_box (atrak_tree a t m) [T_MDIA; T_MDHD] =
                 Some (mdhd_tree MEDIA_TIMESCALE (total_duration t) (Boxes.md_lang m)).
  Proof. reflexivity. Qed.
  Lemma v_hdlr : trak_box (vtrak_tree v t c m) [T_MDIA; T_HDLR] = Some vhdlr_tree.
  Proof. reflexivity. Qed.
  Lemma a_hdlr : trak_box (atrak_tree a t m) [T_MDIA; T_HDLR] = Some shdlr_tree.
  Proof. reflexivity. Qed.
  Lemma v_vmhd : trak_box (vtrak_tree v t c m) [T_MDIA; T_MINF; T_VMHD] = Some vmhd_tree.
  Proof. reflexivity. Qed.
  Lemma a_smhd : trak_box (atrak_tree a t m) [T_MDIA; T_MINF; T_SMHD] = Some smhd_tree.
  Proof. reflexivity. Qed.
  Lemma v_dref : trak_box (vtrak_tree v t c m) [T_MDIA; T_MINF; T_DINF; T_DREF] = Some dref_tree.
  Proof. reflexivity. Qed.
  Lemma a_dref : trak_box (atrak_tree a t m) [T_MDIA; T_MINF; T_DINF; T_DREF] = Some dref_tree.
  Proof. reflexivity. Qed.
  Lemma v_stsd : trak_box (vtrak_tree v t c m) [T_MDIA; T_MINF; stbl; stsd] = Some (vstsd_tree v c).
  Proof. reflexivity. Qed.
  Lemma a_stsd : trak_box (atrak_tree a t m) [T_MDIA; T_MINF; stbl; stsd] = Some (astsd_tree a).
  Proof. reflexivity. Qed.
End Paths.

(** ** per-box facts on the trees *)
Lemma mvhd_tree_strict d n : n < 4294967296 ->
  strict_mvhd (b_payload (mvhd_tree (u32 d) n)) =
  Some {| mv_timescale := 1000; mv_duration := u32 d; mv_next_track_id := n |}.
Proof. intros Hn. apply mvhd_strict; [unfold u32; lia|exact Hn]. Qed.

Lemma mvhd_tree_next d n : n < 4294967296 -> u32_at (b_payload (mvhd_tree (u32 d) n)) 96 = n.
Proof.
  intros Hn. pose proof (mvhd_tree_strict d n Hn) as H. unfold strict_mvhd in H.
  destruct (_ && _) in H; [|discriminate].
  apply (f_equal (fun o => match o with Some r => mv_next_track_id r | None => 0 end)) in H. exact H.
Qed.

Lemma tkhd_tree_refuted id vol w h : strict_tkhd (b_payload (tkhd_tree id vol w h)) = None.
Proof. exact (tkhd_progressive_refuted id vol w h). Qed.

Lemma tkhd_tree_id1 w h : u32_at (b_payload (tkhd_tree 1 0 w h)) 12 = 1.
Proof. reflexivity. Qed.
Lemma tkhd_tree_id2 : u32_at (b_payload (tkhd_tree 2 256 0 0)) 12 = 2.
Proof. reflexivity. Qed.
Lemma tkhd_tree_flags id vol w h : u32_at (b_payload (tkhd_tree id vol w h)) 0 = 0.
Proof. reflexivity. Qed.

(* the packed language code always fits 15 bits *)
Lemma lang15_sweep :
  forallb (fun a => forallb (fun b => forallb (fun c =>
     N.lor (N.lor (N.shiftl (N.of_nat a) 10) (N.shiftl (N.of_nat b) 5)) (N.of_nat c) <? 32768)
     (seq 0 32)) (seq 0 32)) (seq 0 32) = true.
Proof. vm_cast_no_check (eq_refl true). Qed.

Lemma sat_lt c : sat_sub_60_1f c < 32.
Proof. unfold sat_sub_60_1f. rewrite band31. lia. Qed.

Lemma lang_code_lt l : exists x, encode_language_code l = be16 x /\ x < 32768.
Proof.
  unfold encode_language_code. cbv zeta.
  set (c1 := match l with c :: _ => c | [] => 117 end).
  set (c2 := match l with _ :: c :: _ => c | _ => 110 end).
  set (c3 := match l with _ :: _ :: c :: _ => c | _ => 100 end).
  eexists. split; [reflexivity|].
  pose proof (sat_lt c1) as H1. pose proof (sat_lt c2) as H2. pose proof (sat_lt c3) as H3.
  pose proof lang15_sweep as HS.
  rewrite forallb_forall in HS. specialize (HS (N.to_nat (sat_sub_60_1f c1)) ltac:(apply in_seq; lia)).
  rewrite forallb_forall in HS. specialize (HS (N.to_nat (sat_sub_60_1f c2)) ltac:(apply in_seq; lia)).
  rewrite forallb_forall in HS. specialize (HS (N.to_nat (sat_sub_60_1f c3)) ltac:(apply in_seq; lia)).
  rewrite !N2Nat.id in HS. apply N.ltb_lt. exact HS.
Qed.

Lemma mdhd_tree_strict ts dur l : ts < 4294967296 ->
  exists x,
    encode_language_code (utf8_chars (match l with Some l => l | None => UND end)) = be16 x /\ x < 32768 /\
    strict_mdhd (b_payload (mdhd_tree ts dur l)) =
    Some {| md_timescale := ts; md_duration := u32 dur; Headers.md_lang := unpack_lang x |}.
Proof.
  intros Hts.
  destruct (lang_code_lt (utf8_chars (match l with Some l => l | None => UND end))) as (x & E & Hx).
  exists x. split; [exact E|]. split; [exact Hx|].
  change (b_payload (mdhd_tree ts dur l)) with (payload_of (build_mdhd_box ts dur l)).
  rewrite mdhd_payload, E. rewrite (be32_mod dur). apply strict_mdhd_built; [exact Hts| |exact Hx].
  fold (u32 dur). unfold u32. lia.
Qed.

Lemma vhdlr_ok : opt_bytes_eqb (strict_hdlr (b_payload vhdlr_tree)) HV = true.
Proof. vm_compute. reflexivity. Qed.
Lemma shdlr_ok : opt_bytes_eqb (strict_hdlr (b_payload shdlr_tree)) HS = true.
Proof. vm_compute. reflexivity. Qed.
Lemma vmhd_tree_refuted : strict_vmhd (b_payload vmhd_tree) = false.
Proof. vm_compute. reflexivity. Qed.
Lemma smhd_tree_ok : strict_smhd (b_payload smhd_tree) = true.
Proof. vm_compute. reflexivity. Qed.

(* the data reference box: one self-contained url entry *)
Theorem dref_strict : strict_dref dref_tree = true.
Proof. vm_compute. reflexivity. Qed.

Lemma stsd_counts rest : u32_at ((be32 0 ++ be32 1) ++ rest) 0 = 0 /\ u32_at ((be32 0 ++ be32 1) ++ rest) 4 = 1.
Proof. split; reflexivity. Qed.

(** ** sample entries and configuration records *)
Lemma ventry_strict v c : vt_width v < 65536 -> vt_height v < 65536 ->
  strict_visual_entry (b_payload (ventry_tree v c)) = Some (vt_width v, vt_height v).
Proof.
  intros Hw Hh. destruct c; cbn [ventry_tree node b_payload]; apply visual_entry_strict; assumption.
Qed.

(* the parameter sets are stored behind 16-bit length fields *)
Definition param_sets_fit (c : video_config) : Prop :=
  match c with
  | CfgAvc a => len (avc_sps a) < 65536 /\ len (avc_pps a) < 65536
  | CfgHevc h => len (hevc_vps h) < 65536 /\ len (hevc_sps h) < 65536 /\ len (hevc_pps h) < 65536
  | CfgAv1 _ | CfgVp9 _ => True
  end.

Lemma avcc_strict' c : len (avc_sps c) < 65536 -> len (avc_pps c) < 65536 ->
  strict_avcc (payload_of (build_avcc_box c)) = Some (avc_sps c, avc_pps c).
Proof.
  intros Hs Hp. unfold build_avcc_box. cbv zeta.
  destruct (match avc_sps c with _ :: a :: b :: d :: _ => (a, b, d) | _ => (66, 0, 30) end)
    as [[pi pc] li] eqn:E.
  pob. apply strict_avcc_gen; [exact Hs | exact Hp |].
  destruct (avc_sps c) as [|x0 [|x1 [|x2 [|x3 t]]]]; try reflexivity.
  injection E as <- <- <-. rewrite !N.eqb_refl. reflexivity.
Qed.

Lemma hvcc_strict' c : len (hevc_vps c) < 65536 -> len (hevc_sps c) < 65536 -> len (hevc_pps c) < 65536 ->
  strict_hvcc (payload_of (build_hvcc_box c)) = Some [(32, hevc_vps c); (33, hevc_sps c); (34, hevc_pps c)].
Proof.
  intros Hv Hs Hp. unfold build_hvcc_box. cbv zeta. pob.
  rewrite strict_hvcc_hdr.
  rewrite hvcc_arrays_step by (reflexivity || exact Hv).
  rewrite hvcc_arrays_step by (reflexivity || exact Hs).
  rewrite hvcc_arrays_last by (reflexivity || exact Hp).
  reflexivity.
Qed.

Lemma av1c_some c : exists r, strict_av1c (payload_of (build_av1c_box c)) = Some r.
Proof. unfold build_av1c_box. cbv zeta. pob. rewrite strict_av1c_shape. eexists. reflexivity. Qed.

Lemma config_layout_cases v c : param_sets_fit c ->
  config_layout_ok (ventry_tree v c) = match c with CfgVp9 _ => false | _ => true end.
Proof.
  intros Hfit. unfold config_layout_ok. destruct c as [a|h|a|p]; cbn [ventry_tree node entry_config b_children b_typ].
  - change (bytes_eqb T_avc1 (TY 97 118 99 49)) with true. cbv iota.
    change (b_payload (leafb T_avcC (build_avcc_box a))) with (payload_of (build_avcc_box a)).
    destruct Hfit as [H1 H2]. rewrite (avcc_strict' a H1 H2). reflexivity.
  - change (bytes_eqb T_hvc1 (TY 97 118 99 49)) with false.
    change (bytes_eqb T_hvc1 (TY 104 118 99 49)) with true. cbv iota.
    change (b_payload (leafb T_hvcC (build_hvcc_box h))) with (payload_of (build_hvcc_box h)).
    destruct Hfit as (H1 & H2 & H3). rewrite (hvcc_strict' h H1 H2 H3). reflexivity.
  - change (bytes_eqb T_av01 (TY 97 118 99 49)) with false.
    change (bytes_eqb T_av01 (TY 104 118 99 49)) with false.
    change (bytes_eqb T_av01 (TY 97 118 48 49)) with true. cbv iota.
    change (b_payload (leafb T_av1C (build_av1c_box a))) with (payload_of (build_av1c_box a)).
    destruct (av1c_some a) as [r ->]. reflexivity.
  - change (bytes_eqb T_vp09 (TY 97 118 99 49)) with false.
    change (bytes_eqb T_vp09 (TY 104 118 99 49)) with false.
    change (bytes_eqb T_vp09 (TY 97 118 48 49)) with false.
    change (bytes_eqb T_vp09 (TY 118 112 48 57)) with true. cbv iota.
    change (b_payload (leafb T_vpcC (build_vpcc_box p))) with (payload_of (build_vpcc_box p)).
    rewrite vpcc_refuted. reflexivity.
Qed.

(* audio sample entry: the fixed part passes for every channel count and rate (fields wrap) *)
Lemma be16_mod x : be16 x = be16 (x mod 65536).
Proof. unfold be16. f_equal; [|f_equal]; lia. Qed.

Lemma audio_entry_some ch rate rest :
  exists r, strict_audio_entry (audio_entry_prefix ch rate ++ rest) = Some r.
Proof.
  assert (E : audio_entry_prefix ch rate = audio_entry_prefix (ch mod 65536) (rate mod 65536)).
  { unfold audio_entry_prefix. rewrite (be16_mod ch). rewrite (be32_mod (rate * 65536)).
    replace ((rate * 65536) mod 4294967296) with ((rate mod 65536) * 65536) by lia. reflexivity. }
  rewrite E. rewrite audio_entry_strict by lia. eexists. reflexivity.
Qed.

Lemma aentry_fixed a : exists r, strict_audio_entry (b_payload (aentry_tree a)) = Some r.
Proof.
  unfold aentry_tree. destruct (at_codec a); cbn [node b_payload]; apply audio_entry_some.
Qed.

Lemma audio_config_cases a :
  audio_config_layout_ok a (aentry_tree a) =
  match at_codec a with
  | Opus => match strict_dops (payload_of (build_dops_box a)) with Some _ => true | None => false end
  | _ => true
  end.
Proof.
  unfold audio_config_layout_ok, aentry_tree.
  destruct (at_codec a) eqn:EC; cbn [node entry_config b_children].
  - change (b_payload (leafb T_esds (build_esds_box a))) with (payload_of (build_esds_box a)).
    rewrite esds_strict. reflexivity.
  - reflexivity.
  - change (b_payload (leafb T_esds (build_esds_box a))) with (payload_of (build_esds_box a)).
    rewrite esds_strict. reflexivity.
Qed.

(* stereo/mono pass; the check can only fail outside 1..2 channels *)
Lemma dops_fail_channels a : strict_dops (payload_of (build_dops_box a)) = None ->
  at_channels a = 0 \/ 2 < at_channels a.
Proof.
  intros H. destruct (N.eq_dec (at_channels a) 0) as [E|E]; [left; exact E|right].
  destruct (N.lt_ge_cases 2 (at_channels a)) as [L|L]; [exact L|].
  rewrite dops_strict_stereo in H by lia. discriminate.
Qed.

(** ** the clause walk on the emitted moov *)
Lemma find_box_mvhd_moov v vt aud c md :
  find_box T_MVHD (moov_kids v vt aud c md) =
  Some (mvhd_tree (u32 (total_duration vt * MOVIE_TIMESCALE / MEDIA_TIMESCALE))
                  (match aud with Some _ => 3 | None => 2 end)).
Proof. reflexivity. Qed.

Lemma find_all_trak_moov' v vt aud c md :
  find_all T_TRAK (moov_kids v vt aud c md) =
  vtrak_tree v vt c md :: match aud with Some (a, t) => [atrak_tree a t md] | None => [] end.
Proof. exact (find_all_trak_moov v vt aud c md). Qed.

Lemma header_clauses_moov top v vt aud c md :
  find_box T_MOOV top = Some (moov_tree v vt aud c md) ->
  vt_width v < 65536 -> vt_height v < 65536 ->
  header_clauses 1000 90000 (vt_width v) (vt_height v)
    (match aud with Some (a, _) => Some a | None => None end) top =
  [3; 4; 7] ++ clause 10 (config_layout_ok (ventry_tree v c)) ++
  match aud with Some (a, _) => clause 11 (audio_config_layout_ok a (aentry_tree a)) | None => [] end.
Proof.
  intros Hm Hw Hh. unfold header_clauses. rewrite Hm.
  change (b_children (moov_tree v vt aud c md)) with (moov_kids v vt aud c md).
  cbv zeta. rewrite find_all_trak_moov', find_box_mvhd_moov.
  set (dd := total_duration vt * MOVIE_TIMESCALE / MEDIA_TIMESCALE).
  destruct (mdhd_tree_strict MEDIA_TIMESCALE (total_duration vt) (Boxes.md_lang md)) as (x & _ & _ & Hmd);
    [reflexivity|].
  destruct (stsd_counts (flat_map enc [ventry_tree v c])) as [C0 C1].
  assert (Hn : match aud with Some _ => 3 | None => 2 end < 4294967296) by (destruct aud; reflexivity).
  rewrite (mvhd_tree_strict dd _ Hn), (mvhd_tree_next dd _ Hn).
  cbn [mv_timescale].
  destruct aud as [[a at_]|]; cbn [map forallb].
  - rewrite !v_tkhd, !a_tkhd, v_mdhd, a_mdhd, v_hdlr, a_hdlr, v_vmhd, a_smhd, v_dref, a_dref, v_stsd, a_stsd.
    destruct (mdhd_tree_strict MEDIA_TIMESCALE (total_duration at_) (Boxes.md_lang md)) as (y & _ & _ & Hmda);
      [reflexivity|].
    rewrite Hmd, Hmda. cbn [md_timescale].
    rewrite tkhd_tree_refuted, tkhd_tree_id1, tkhd_tree_id2, !tkhd_tree_flags.
    rewrite vhdlr_ok, shdlr_ok, vmhd_tree_refuted, dref_strict.
    cbn [b_children vstsd_tree astsd_tree node b_payload]. rewrite C0, C1.
    rewrite (ventry_strict v c Hw Hh), !N.eqb_refl.
    destruct (aentry_fixed a) as [r ->].
    reflexivity.
  - rewrite !v_tkhd, v_mdhd, v_hdlr, v_vmhd, v_dref, v_stsd.
    rewrite Hmd. cbn [md_timescale].
    rewrite tkhd_tree_refuted, tkhd_tree_id1, !tkhd_tree_flags.
    rewrite vhdlr_ok, vmhd_tree_refuted, dref_strict.
    cbn [b_children vstsd_tree node b_payload]. rewrite C0, C1.
    rewrite (ventry_strict v c Hw Hh), !N.eqb_refl.
    reflexivity.
Qed.

(** * Part C: the finished file *)
(* a VP9 configuration record is only ever extracted by a VP9 writer *)
Definition CfgInv (w : writer) : Prop := forall p, w_vconfig w = Some (CfgVp9 p) -> w_codec w = Vp9.

Lemma CfgInv_video w pts dts data key w' :
  CfgInv w -> write_video_sample_with_dts w pts dts data key = inl w' -> CfgInv w'.
Proof.
  unfold CfgInv, write_video_sample_with_dts, push_video. intros HI H.
  repeat (break_match; try discriminate); inversion H; subst w'; cbn [w_vconfig w_codec]; try exact HI.
  intros p E. injection E as ->.
  unfold extract_config in *. destruct (w_codec w); try reflexivity;
    match goal with H : opt_map _ ?x = Some _ |- _ => destruct x; discriminate H end.
Qed.

Lemma CfgInv_audio w pts data w' : CfgInv w -> write_audio_sample w pts data = inl w' -> CfgInv w'.
Proof.
  unfold CfgInv, write_audio_sample. intros HI H.
  repeat (break_match; try discriminate); inversion H; subst w'; cbn [w_vconfig w_codec]; exact HI.
Qed.

Lemma CfgInv_finalize w v m fs : CfgInv w -> CfgInv (fst (finalize w v m fs)).
Proof.
  intros HI. destruct (finalize_cases w v m fs) as [[-> _]|[_ (bufs & bw & s & e & _ & ->)]]; exact HI.
Qed.

Lemma CfgInv_reachable b m0 ops : build b [] = inl m0 -> CfgInv (m_writer (fst (run m0 ops))).
Proof.
  intros Hb. apply (P_reachable CfgInv CfgInv_video CfgInv_audio CfgInv_finalize b [] m0 ops); [|exact Hb].
  intros snk codec audio p H. discriminate H.
Qed.

Lemma build_static b m0 : build b [] = inl m0 ->
  cfg_dims b = (vt_width (m_video m0), vt_height (m_video m0)) /\ m_meta m0 = b_meta b.
Proof.
  unfold build, cfg_dims. destruct (b_video b) as [[[codec w] h]|]; [|discriminate].
  intros H. inversion H; subst m0. split; reflexivity.
Qed.

Lemma finished_file_moov b m0 ops m rs s :
  build b [] = inl m0 -> run m0 ops = (m, rs) -> In (RStats s) rs ->
  Forall op_payload_ok ops -> len (sink_of m) < 4294967296 ->
  exists v vt aud top,
    h_finished (accepted b ops (map class_of rs)) = true /\
    cfg_dims b = (vt_width v, vt_height v) /\ vt_width v < 65536 /\ vt_height v < 65536 /\
    match aud with Some (a, _) => Some a | None => None end = cfg_audio b /\
    read_tracks (sink_of m) = Some (top, tracks_of v vt aud (effective_config (m_writer m)) (b_meta b)) /\
    parse_file (sink_of m) = Some top /\
    find_box T_MOOV top = Some (moov_tree v vt aud (effective_config (m_writer m)) (b_meta b)).
Proof.
  intros Hb HR HIn Hok Hlen.
  pose proof (final_state b m0 ops m rs s Hb HR HIn Hok) as F.
  assert (Em : m = fst (run m0 ops)) by (rewrite HR; reflexivity).
  destruct (build_initial _ _ Hb) as (_ & _ & _ & D & _).
  destruct (finished_gen_static ops m0 m rs s (Inv_reachable b m0 [] Hb) D HR HIn)
    as (fs & bufs & Hplan & Hsink & Dw & Dh).
  destruct (static_reachable m0 ops) as [S1 S2]. rewrite <- Em in S1, S2.
  destruct (build_static b m0 Hb) as [B1 B2].
  destruct (fin_sinv _ _ _ _ F) as [[Sv Sa] SA].
  destruct (plan_file_shape _ _ _ _ _ Sv Sa SA Hplan)
    as (voffs & vspc & aoffs & data & start & top & Efile & TV & TA & Hshape).
  cbv zeta in Efile, TV, TA, Hshape.
  rewrite S2, B2 in *.
  set (vt := from_samples (vsamples (m_writer m)) voffs vspc (w_vlast_delta (m_writer m))) in *.
  set (aud := aud_of (m_writer m) aoffs) in *.
  set (c := effective_config (m_writer m)) in *.
  exists (m_video m), vt, aud, top.
  assert (Htop : top_shape top (moov_tree (m_video m) vt aud c (b_meta b))).
  { destruct Hshape as [(-> & _)|(P & _)]; [left; reflexivity|eapply shape_top_shape; exact P]. }
  assert (Hread : read_tracks (sink_of m) = Some (top, tracks_of (m_video m) vt aud c (b_meta b))).
  { rewrite Hsink, Efile. apply read_tracks_top; [exact Htop|rewrite <- Efile, <- Hsink; exact Hlen|exact TV|exact TA]. }
  split; [exact (fin_hist _ _ _ _ F)|].
  split; [rewrite S1; exact B1|]. split; [exact Dw|]. split; [exact Dh|].
  split; [subst aud; unfold aud_of; rewrite (sim_waudio _ _ _ (fin_sim _ _ _ _ F));
          destruct (cfg_audio b); reflexivity|].
  split; [exact Hread|]. split.
  - unfold read_tracks in Hread. destruct (parse_file (sink_of m)) as [top0|]; [|discriminate].
    cbn [opt_bind] in Hread.
    destruct (find_box (T 109 111 111 118) top0); [|discriminate]. cbn [opt_bind] in Hread.
    destruct (fold_right _ _ _); [|discriminate]. cbn [opt_bind] in Hread.
    injection Hread as -> _. reflexivity.
  - destruct Htop as [->|[[d ->]|[d ->]]]; reflexivity.
Qed.

(** ** M2 (C19) *)
Definition dops_ok (a : audio_track) : bool :=
  match at_codec a with
  | Opus => match strict_dops (payload_of (build_dops_box a)) with Some _ => true | None => false end
  | _ => true
  end.

(* exact list of failing clauses *)
Theorem finished_file_header_clauses_exact : forall b m0 ops m rs s,
  build b [] = inl m0 -> run m0 ops = (m, rs) -> In (RStats s) rs ->
  Forall op_payload_ok ops -> len (sink_of m) < 4294967296 ->
  param_sets_fit (effective_config (m_writer m)) ->
  failed_C19_mux b ops (map class_of rs) (sink_of m) =
  [3; 4; 7] ++
  clause 10 (match effective_config (m_writer m) with CfgVp9 _ => false | _ => true end) ++
  match cfg_audio b with Some a => clause 11 (dops_ok a) | None => [] end.
Proof.
  intros b m0 ops m rs s Hb HR HIn Hok Hlen Hfit.
  destruct (finished_file_moov b m0 ops m rs s Hb HR HIn Hok Hlen)
    as (v & vt & aud & top & Hfin & Hdims & Dw & Dh & Haud & _ & Hparse & Hmoov).
  unfold failed_C19_mux. rewrite Hfin. cbn [negb]. rewrite Hparse, Hdims, <- Haud.
  rewrite (header_clauses_moov top v vt aud _ _ Hmoov Dw Dh).
  rewrite (config_layout_cases v _ Hfit).
  destruct aud as [[a at_]|]; [|reflexivity].
  rewrite audio_config_cases. reflexivity.
Qed.
Print Assumptions finished_file_header_clauses_exact.

Theorem finished_file_header_clauses_variant : forall b m0 ops m rs s cl,
  build b [] = inl m0 -> run m0 ops = (m, rs) -> In (RStats s) rs ->
  Forall op_payload_ok ops -> len (sink_of m) < 4294967296 ->
  param_sets_fit (effective_config (m_writer m)) ->
  In cl (failed_C19_mux b ops (map class_of rs) (sink_of m)) ->
  cl = 3 \/ cl = 4 \/ cl = 7 \/
  (cl = 10 /\ cfg_codec b = Vp9) \/
  (cl = 11 /\ exists a, cfg_audio b = Some a /\ at_codec a = Opus /\ (at_channels a = 0 \/ 2 < at_channels a)).
Proof.
  intros b m0 ops m rs s cl Hb HR HIn Hok Hlen Hfit Hcl.
  rewrite (finished_file_header_clauses_exact b m0 ops m rs s Hb HR HIn Hok Hlen Hfit) in Hcl.
  cbn [app] in Hcl.
  destruct Hcl as [<-|[<-|[<-|Hcl]]]; [tauto|tauto|tauto|].
  apply in_app_or in Hcl. destruct Hcl as [Hcl|Hcl].
  - right. right. right. left.
    destruct (effective_config (m_writer m)) as [?|?|?|p] eqn:EC; [destruct Hcl|destruct Hcl|destruct Hcl|].
    destruct Hcl as [<-|[]]. split; [reflexivity|].
    pose proof (CfgInv_reachable b m0 ops Hb) as CI. rewrite HR in CI. cbn [fst] in CI.
    pose proof (final_state b m0 ops m rs s Hb HR HIn Hok) as F.
    rewrite <- (sim_wcodec _ _ _ (fin_sim _ _ _ _ F)).
    unfold effective_config in EC. destruct (w_vconfig (m_writer m)) as [c0|] eqn:EV; [|discriminate].
    subst c0. exact (CI p EV).
  - right. right. right. right.
    destruct (cfg_audio b) as [a|]; [|destruct Hcl].
    unfold dops_ok in Hcl. destruct (at_codec a) eqn:EA; [destruct Hcl| |destruct Hcl].
    destruct (strict_dops (payload_of (build_dops_box a))) eqn:ED; [destruct Hcl|].
    destruct Hcl as [<-|[]]. split; [reflexivity|].
    exists a. split; [reflexivity|]. split; [exact EA|]. apply dops_fail_channels. exact ED.
Qed.
Print Assumptions finished_file_header_clauses_variant.

(** ** M1 (C18) *)
Lemma find_all_udta_moov v vt aud c m :
  find_all T_UDTA (moov_kids v vt aud c m) = match m with Some md => udta_kids md | None => [] end.
Proof.
  unfold moov_kids. rewrite !find_all_app. fa. cbn [app].
  replace (find_all T_UDTA match aud with Some (a, t) => [atrak_tree a t m] | None => [] end) with (@nil btree)
    by (destruct aud as [[a t]|]; reflexivity).
  cbn [app]. destruct m as [md|]; [|reflexivity].
  unfold udta_kids. destruct (ilst_kids md); reflexivity.
Qed.

Lemma item_text_item atom value : item_text (item_tree atom value) = Some value.
Proof. reflexivity. Qed.

Lemma meta_check md :
  match md_title md, md_creation_time md, udta_kids md with
  | None, None, [] => true
  | None, None, _ => false
  | t, c, [u] =>
      match find_path [T_META; T_ILST] (b_children u) with
      | Some ilst =>
          (match t with
           | Some title => match ilst_item T_CNAM ilst with
                           | [it] => opt_bytes_eqb (item_text it) title
                           | _ => false end
           | None => match ilst_item T_CNAM ilst with [] => true | _ => false end
           end) &&
          (match c with
           | Some secs => match ilst_item T_CDAY ilst with
                          | [it] => if secs <? 253402300800 then opt_bytes_eqb (item_text it) (iso8601 secs)
                                    else match item_text it with Some _ => true | None => false end
                          | _ => false end
           | None => match ilst_item T_CDAY ilst with [] => true | _ => false end
           end)
      | None => false
      end
  | _, _, _ => false
  end = true.
Proof.
  unfold udta_kids, ilst_kids.
  destruct (md_title md) as [title|]; destruct (md_creation_time md) as [secs|]; cbn [app];
    cbn [b_children node].
  - change (find_path [T_META; T_ILST] ?k) with
      (Some (node T_ilst [] [item_tree T_cnam title; item_tree T_cday (format_unix_timestamp secs)])).
    cbv iota beta.
    change (ilst_item T_CNAM ?x) with [item_tree T_cnam title].
    change (ilst_item T_CDAY ?x) with [item_tree T_cday (format_unix_timestamp secs)].
    cbv iota beta. rewrite !item_text_item. cbn [opt_bytes_eqb]. rewrite bytes_eqb_refl. cbn [andb].
    destruct (secs <? 253402300800) eqn:E; [|reflexivity].
    rewrite timestamp_format_is_iso8601 by lia. apply bytes_eqb_refl.
  - change (find_path [T_META; T_ILST] ?k) with (Some (node T_ilst [] [item_tree T_cnam title])).
    cbv iota beta.
    change (ilst_item T_CNAM ?x) with [item_tree T_cnam title].
    change (ilst_item T_CDAY ?x) with (@nil btree).
    cbv iota beta. rewrite !item_text_item. cbn [opt_bytes_eqb]. rewrite bytes_eqb_refl. reflexivity.
  - change (find_path [T_META; T_ILST] ?k) with
      (Some (node T_ilst [] [item_tree T_cday (format_unix_timestamp secs)])).
    cbv iota beta.
    change (ilst_item T_CNAM ?x) with (@nil btree).
    change (ilst_item T_CDAY ?x) with [item_tree T_cday (format_unix_timestamp secs)].
    cbv iota beta. rewrite !item_text_item. cbn [opt_bytes_eqb andb].
    destruct (secs <? 253402300800) eqn:E; [|reflexivity].
    rewrite timestamp_format_is_iso8601 by lia. apply bytes_eqb_refl.
  - reflexivity.
Qed.

Lemma be16_inj x y : x < 65536 -> y < 65536 -> be16 x = be16 y -> x = y.
Proof.
  intros Hx Hy E. pose proof (rd16_be16 x [] Hx) as Rx. pose proof (rd16_be16 y [] Hy) as Ry.
  rewrite E in Rx. rewrite Rx in Ry. injection Ry as ->. reflexivity.
Qed.

Lemma lower3_cases l : lower3 l = true ->
  exists a b c, l = [a; b; c] /\ 97 <= a <= 122 /\ 97 <= b <= 122 /\ 97 <= c <= 122.
Proof.
  destruct l as [|a [|b [|c [|d t]]]]; try discriminate.
  unfold lower3. cbn [forallb]. intros H. exists a, b, c. split; [reflexivity|]. lia.
Qed.

(* the language recovered from a media header *)
Lemma lang_check (m : option metadata) dur :
  match strict_mdhd (body (build_mdhd_box MEDIA_TIMESCALE dur (Boxes.md_lang m))),
        md_language (match m with Some x => x | None => md_default end) with
  | Some mm, Some l => if lower3 l then bytes_eqb (Headers.md_lang mm) l else true
  | Some mm, None => bytes_eqb (Headers.md_lang mm) [117; 110; 100]
  | None, _ => false
  end = true.
Proof.
  assert (E : md_language (match m with Some x => x | None => md_default end) = Boxes.md_lang m)
    by (destruct m; reflexivity).
  rewrite E.
  destruct (mdhd_tree_strict MEDIA_TIMESCALE dur (Boxes.md_lang m)) as (x & Ex & Hx & Hs); [reflexivity|].
  change (b_payload (mdhd_tree MEDIA_TIMESCALE dur (Boxes.md_lang m)))
    with (body (build_mdhd_box MEDIA_TIMESCALE dur (Boxes.md_lang m))) in Hs.
  rewrite Hs. cbn [Headers.md_lang].
  destruct (Boxes.md_lang m) as [l|].
  - destruct (lower3 l) eqn:EL; [|reflexivity].
    destruct (lower3_cases l EL) as (a & b & c & -> & Ha & Hb & Hc).
    cbv iota in Ex. rewrite utf8_chars_ascii in Ex by (repeat constructor; lia).
    destruct (language_code_roundtrip a b c Ha Hb Hc) as (y & Ey & Hy & Hu).
    pose proof (eq_trans (eq_sym Ex) Ey) as Exy. apply be16_inj in Exy; [|lia|lia]. subst y. rewrite Hu. apply bytes_eqb_refl.
  - cbv iota in Ex. destruct language_default_is_und as (y & Ey & Hy & Hu).
    pose proof (eq_trans (eq_sym Ex) Ey) as Exy. apply be16_inj in Exy; [|lia|lia]. subst y. rewrite Hu. reflexivity.
Qed.

(* general form: no condition on the language, the creation time or the track durations *)
Theorem finished_file_metadata_general : forall b m0 ops m rs s,
  build b [] = inl m0 -> run m0 ops = (m, rs) -> In (RStats s) rs ->
  Forall op_payload_ok ops -> len (sink_of m) < 4294967296 ->
  check_C18 b ops (map class_of rs) (sink_of m) = true.
Proof.
  intros b m0 ops m rs s Hb HR HIn Hok Hlen.
  destruct (finished_file_moov b m0 ops m rs s Hb HR HIn Hok Hlen)
    as (v & vt & aud & top & Hfin & _ & _ & _ & _ & Hread & _ & Hmoov).
  unfold check_C18. rewrite Hfin. cbn [negb]. rewrite Hread, Hmoov.
  change (b_children (moov_tree v vt aud (effective_config (m_writer m)) (b_meta b)))
    with (moov_kids v vt aud (effective_config (m_writer m)) (b_meta b)).
  rewrite find_all_udta_moov. cbv zeta.
  apply andb_true_intro. split.
  - destruct (b_meta b) as [md|]; [apply meta_check|reflexivity].
  - unfold tracks_of. destruct aud as [[a at_]|]; cbn [forallb]; rewrite ?andb_true_r.
    + apply andb_true_intro. split; apply lang_check.
    + apply lang_check.
Qed.
Print Assumptions finished_file_metadata_general.

(* the language, when configured, is three lower-case ASCII letters (other codes are outside the claim) *)
Definition lang_ok (b : builder) : Prop :=
  match b_meta b with
  | Some m => match md_language m with Some l => lower3 l = true | None => True end
  | None => True
  end.
Definition ctime_ok (b : builder) : Prop :=
  match b_meta b with
  | Some m => match md_creation_time m with Some t => t < 253402300800 | None => True end
  | None => True
  end.

(* M1 (C18): title, creation date and language are stored faithfully in every finished file *)
Theorem finished_file_metadata_is_faithful : forall b m0 ops m rs s,
  build b [] = inl m0 -> run m0 ops = (m, rs) -> In (RStats s) rs ->
  Forall op_payload_ok ops -> len (sink_of m) < 4294967296 ->
  lang_ok b -> ctime_ok b ->
  sumN (durations_of (vsamples (m_writer m)) (w_vlast_delta (m_writer m))) < 4294967296 ->
  sumN (durations_of (asamples (m_writer m)) (w_alast_delta (m_writer m))) < 4294967296 ->
  check_C18 b ops (map class_of rs) (sink_of m) = true.
Proof.
  intros b m0 ops m rs s Hb HR HIn Hok Hlen _ _ _ _.
  exact (finished_file_metadata_general b m0 ops m rs s Hb HR HIn Hok Hlen).
Qed.
Print Assumptions finished_file_metadata_is_faithful.

(** ** the side condition of M2 stated on the submitted frames *)
(* the parameter sets a frame would contribute fit their 16-bit length fields *)
Definition video_payload_fits (codec : video_codec) (d : bytes) : Prop :=
  forall c, extract_config codec d = Some c -> param_sets_fit c.
Definition op_params_fit (codec : video_codec) (o : op) : Prop :=
  match o with
  | WV _ d _ | WVD _ _ d _ | EV d _ => video_payload_fits codec d
  | _ => True
  end.

Definition FitInv (codec : video_codec) (w : writer) : Prop :=
  w_codec w = codec /\ param_sets_fit (effective_config w).

Lemma FitInv_video codec w pts dts d k w' :
  video_payload_fits codec d -> FitInv codec w ->
  write_video_sample_with_dts w pts dts d k = inl w' -> FitInv codec w'.
Proof.
  unfold FitInv, write_video_sample_with_dts, push_video. intros Hd [HC HF] H.
  repeat (break_match; try discriminate); inversion H; subst w'; unfold effective_config in *;
    cbn [w_vconfig w_codec]; split; try assumption.
  apply Hd. rewrite <- HC. assumption.
Qed.

Lemma FitInv_audio codec w pts d w' :
  FitInv codec w -> write_audio_sample w pts d = inl w' -> FitInv codec w'.
Proof.
  unfold FitInv, write_audio_sample. intros [HC HF] H.
  repeat (break_match; try discriminate); inversion H; subst w'; unfold effective_config in *;
    cbn [w_vconfig w_codec]; split; assumption.
Qed.

Lemma FitInv_write_video codec m p d k :
  video_payload_fits codec d -> FitInv codec (m_writer m) -> FitInv codec (m_writer (fst (write_video m p d k))).
Proof.
  intros Hd HI. destruct (write_video m p d k) as [m1 [e|]] eqn:W; cbn [fst].
  - apply write_video_err_unchanged in W. subst m1. exact HI.
  - apply write_video_ok_writer in W. destruct W as (pts & dts & W). eapply FitInv_video; eassumption.
Qed.
Lemma FitInv_write_video_with_dts codec m p t d k :
  video_payload_fits codec d -> FitInv codec (m_writer m) ->
  FitInv codec (m_writer (fst (write_video_with_dts m p t d k))).
Proof.
  intros Hd HI. destruct (write_video_with_dts m p t d k) as [m1 [e|]] eqn:W; cbn [fst].
  - apply write_video_with_dts_err_unchanged in W. subst m1. exact HI.
  - apply write_video_with_dts_ok_writer in W. destruct W as (pts & dts & W). eapply FitInv_video; eassumption.
Qed.
Lemma FitInv_write_audio codec m p d :
  FitInv codec (m_writer m) -> FitInv codec (m_writer (fst (write_audio m p d))).
Proof.
  intros HI. destruct (write_audio m p d) as [m1 [e|]] eqn:W; cbn [fst].
  - apply write_audio_err_unchanged in W. subst m1. exact HI.
  - apply write_audio_ok_writer in W. destruct W as (pts & W). eapply FitInv_audio; eassumption.
Qed.

Lemma FitInv_step codec m o :
  op_params_fit codec o -> FitInv codec (m_writer m) -> FitInv codec (m_writer (fst (step m o))).
Proof.
  intros Ho HI. destruct o as [p d k|p t d k|p d|d ms|d s|];
    [cbn [step op_params_fit] in *..|].
  - pose proof (FitInv_write_video codec m (decode64 p) d k Ho HI) as H.
    destruct (write_video m (decode64 p) d k) as [m1 [e|]]; exact H.
  - pose proof (FitInv_write_video_with_dts codec m (decode64 p) (decode64 t) d k Ho HI) as H.
    destruct (write_video_with_dts m (decode64 p) (decode64 t) d k) as [m1 [e|]]; exact H.
  - pose proof (FitInv_write_audio codec m (decode64 p) d HI) as H.
    destruct (write_audio m (decode64 p) d) as [m1 [e|]]; exact H.
  - unfold encode_video.
    pose proof (FitInv_write_video codec m (m_cur_vpts m) d (api_is_keyframe m d) Ho HI) as H.
    destruct (write_video m (m_cur_vpts m) d (api_is_keyframe m d)) as [m1 [e|]]; exact H.
  - unfold encode_audio. destruct (m_audio m) as [a|]; [|exact HI].
    pose proof (FitInv_write_audio codec m (m_cur_apts m) d HI) as H.
    destruct (write_audio m (m_cur_apts m) d) as [m1 [e|]]; exact H.
  - destruct (fin_cases m) as [[-> _]|[_ (bufs & bw & s & e & _ & ->)]]; exact HI.
Qed.

Lemma FitInv_run codec : forall ops m,
  Forall (op_params_fit codec) ops -> FitInv codec (m_writer m) -> FitInv codec (m_writer (fst (run m ops))).
Proof.
  induction ops as [|o t IH]; intros m Hops HI; cbn [run]; [exact HI|].
  inversion Hops as [|o' t' Ho Ht]; subst.
  pose proof (FitInv_step codec m o Ho HI) as HS.
  destruct (step m o) as [m' r]. cbn [fst] in HS.
  destruct r as [|st|e|p]; try exact HS;
    (specialize (IH m' Ht HS); destruct (run m' t) as [m'' rs]; exact IH).
Qed.

Lemma params_fit_reachable b m0 ops m rs :
  build b [] = inl m0 -> run m0 ops = (m, rs) -> Forall (op_params_fit (cfg_codec b)) ops ->
  param_sets_fit (effective_config (m_writer m)).
Proof.
  intros Hb HR Hops.
  assert (H0 : FitInv (cfg_codec b) (m_writer m0)).
  { unfold build in Hb. unfold cfg_codec. destruct (b_video b) as [[[codec w] h]|]; [|discriminate].
    inversion Hb; subst m0. split; [reflexivity|]. cbn. split; reflexivity. }
  pose proof (FitInv_run (cfg_codec b) ops m0 Hops H0) as H. rewrite HR in H. exact (proj2 H).
Qed.

(* M2 with the side condition on the inputs *)
Theorem finished_file_header_clauses_variant_inputs : forall b m0 ops m rs s cl,
  build b [] = inl m0 -> run m0 ops = (m, rs) -> In (RStats s) rs ->
  Forall op_payload_ok ops -> len (sink_of m) < 4294967296 ->
  Forall (op_params_fit (cfg_codec b)) ops ->
  In cl (failed_C19_mux b ops (map class_of rs) (sink_of m)) ->
  cl = 3 \/ cl = 4 \/ cl = 7 \/
  (cl = 10 /\ cfg_codec b = Vp9) \/
  (cl = 11 /\ exists a, cfg_audio b = Some a /\ at_codec a = Opus /\ (at_channels a = 0 \/ 2 < at_channels a)).
Proof.
  intros b m0 ops m rs s cl Hb HR HIn Hok Hlen Hops.
  apply (finished_file_header_clauses_variant b m0 ops m rs s cl Hb HR HIn Hok Hlen).
  exact (params_fit_reachable b m0 ops m rs Hb HR Hops).
Qed.
Print Assumptions finished_file_header_clauses_variant_inputs.

(** ** M2 as originally stated is false: a concrete counterexample (there used to be two; see below) *)
Definition header_clauses_claim : Prop := forall b m0 ops m rs s cl,
  build b [] = inl m0 -> run m0 ops = (m, rs) -> In (RStats s) rs ->
  Forall op_payload_ok ops -> len (sink_of m) < 4294967296 ->
  In cl (failed_C19_mux b ops (map class_of rs) (sink_of m)) ->
  cl = 3 \/ cl = 4 \/ cl = 7 \/
  (cl = 10 /\ cfg_codec b = Vp9) \/
  (cl = 11 /\ exists a, cfg_audio b = Some a /\ at_codec a = Opus /\ 2 < at_channels a).

Definition cex_dummy : muxer :=
  {| m_writer := writer_new {| sk_rev_chunks := []; sk_script := [] |} H264 None;
     m_codec := H264; m_video := {| vt_width := 0; vt_height := 0 |}; m_audio := None; m_meta := None;
     m_fast := false; m_first_vpts := None; m_last_vpts := None; m_last_vdts := None; m_last_apts := None;
     m_vcount := 0; m_acount := 0; m_finished := false; m_cur_vpts := f_zero; m_cur_apts := f_zero |}.
Definition cex_m0 (b : builder) : muxer := match build b [] with inl m => m | inr _ => cex_dummy end.
Definition cex_builder (a : option (audio_codec * N * N)) : builder :=
  {| b_video := Some (H264, 16, 16); b_audio := a; b_meta := None; b_fast := false;
     b_sps := None; b_pps := None; b_vps := None; b_av1 := None; b_vp9 := None |}.
Definition cex_failed (b : builder) (ops : list op) : list N * list rclass :=
  let r := run (cex_m0 b) ops in
  (failed_C19_mux b ops (map class_of (snd r)) (sink_of (fst r)), map class_of (snd r)).

(* (1) Opus declared with 0 channels, no samples, finish: clause 11 fails although 2 < channels is false *)
Eval vm_compute in cex_failed (cex_builder (Some (Opus, 48000, 0))) [FIN].

(* (2) H.264 whose SPS is 65537 bytes long: clause 10 USED TO fail although the codec is not VP9;
   the finish is now rejected *)
Definition cex_big_frame : bytes :=
  [0;0;0;1;103] ++ repeat 2 (N.to_nat 65536) ++ [0;0;0;1;104;1] ++ [0;0;0;1;101;1].
Eval vm_compute in cex_failed (cex_builder None) [WV 0 cex_big_frame true; FIN].

Theorem header_clauses_claim_refuted_opus0 : ~ header_clauses_claim.
Proof.
  intros H.
  set (b := cex_builder (Some (Opus, 48000, 0))). set (ops := [FIN]).
  set (r := run (cex_m0 b) ops).
  assert (Hrs : exists s, snd r = [RStats s]) by (vm_compute; eexists; reflexivity).
  destruct Hrs as [s Hrs].
  specialize (H b (cex_m0 b) ops (fst r) (snd r) s 11 eq_refl (surjective_pairing r)).
  assert (HIn : In (RStats s) (snd r)) by (rewrite Hrs; left; reflexivity).
  assert (Hok : Forall op_payload_ok ops) by (repeat constructor).
  assert (Hlen : len (sink_of (fst r)) < 4294967296) by (vm_compute; reflexivity).
  assert (Hf : failed_C19_mux b ops (map class_of (snd r)) (sink_of (fst r)) = [3; 4; 7; 11])
    by (vm_compute; reflexivity).
  specialize (H HIn Hok Hlen). rewrite Hf in H. specialize (H ltac:(right; right; right; left; reflexivity)).
  destruct H as [H|[H|[H|[[H _]|[_ (a & Ha & _ & Hlt)]]]]]; try discriminate H.
  vm_compute in Ha. injection Ha as <-. vm_compute in Hlt. discriminate Hlt.
Qed.
Print Assumptions header_clauses_claim_refuted_opus0.

(* former second refutation [header_clauses_claim_refuted_big_sps]: since the fix "finish returns an error for
   parameter sets that do not fit avcC/hvcC's 16-bit length fields" its witness history no longer finishes
   successfully: the frame is accepted, the finish fails with InvalidInput and nothing is written *)
Theorem former_big_sps_witness_is_rejected :
  let r := run (cex_m0 (cex_builder None)) [WV 0 cex_big_frame true; FIN] in
  snd r = [ROk; RErr (MIo IoInvalidInput)] /\ sink_of (fst r) = [].
Proof. vm_compute. split; reflexivity. Qed.
Print Assumptions former_big_sps_witness_is_rejected.

(** ** M2 without side condition: a successful finish implies that the stored parameter sets fit *)
Lemma not_too_long_fits w :
  param_sets_too_long (w_vconfig w) = false -> param_sets_fit (effective_config w).
Proof.
  unfold effective_config. destruct (w_vconfig w) as [[a|h|a|p]|]; cbn [param_sets_too_long param_sets_fit];
    unfold U16MAX; intros H.
  - lia.
  - lia.
  - exact I.
  - exact I.
  - cbn. split; reflexivity.
Qed.

Theorem finished_file_header_clauses_exact_unconditional : forall b m0 ops m rs s,
  build b [] = inl m0 -> run m0 ops = (m, rs) -> In (RStats s) rs ->
  Forall op_payload_ok ops -> len (sink_of m) < 4294967296 ->
  failed_C19_mux b ops (map class_of rs) (sink_of m) =
  [3; 4; 7] ++
  clause 10 (match effective_config (m_writer m) with CfgVp9 _ => false | _ => true end) ++
  match cfg_audio b with Some a => clause 11 (dops_ok a) | None => [] end.
Proof.
  intros b m0 ops m rs s Hb HR HIn Hok Hlen.
  apply (finished_file_header_clauses_exact b m0 ops m rs s Hb HR HIn Hok Hlen).
  apply not_too_long_fits. exact (finished_params_fit b m0 ops m rs s Hb HR HIn).
Qed.
Print Assumptions finished_file_header_clauses_exact_unconditional.

Theorem finished_file_header_clauses_unconditional : forall b m0 ops m rs s cl,
  build b [] = inl m0 -> run m0 ops = (m, rs) -> In (RStats s) rs ->
  Forall op_payload_ok ops -> len (sink_of m) < 4294967296 ->
  In cl (failed_C19_mux b ops (map class_of rs) (sink_of m)) ->
  cl = 3 \/ cl = 4 \/ cl = 7 \/
  (cl = 10 /\ cfg_codec b = Vp9) \/
  (cl = 11 /\ exists a, cfg_audio b = Some a /\ at_codec a = Opus /\ (at_channels a = 0 \/ 2 < at_channels a)).
Proof.
  intros b m0 ops m rs s cl Hb HR HIn Hok Hlen.
  apply (finished_file_header_clauses_variant b m0 ops m rs s cl Hb HR HIn Hok Hlen).
  apply not_too_long_fits. exact (finished_params_fit b m0 ops m rs s Hb HR HIn).
Qed.
Print Assumptions finished_file_header_clauses_unconditional.
