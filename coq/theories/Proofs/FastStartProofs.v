(** C08 end to end: fast start changes only the layout.

    F1  the layout flag influences no queue and no result before the first finish attempt
        ([fast_start_does_not_change_queues], [fast_start_does_not_change_results_before_finish]);
        the outcome CLASS of the finish itself can differ near the 4 GiB limits
        ([fast_start_does_not_change_results_counterexample]), so the class statement is proved
        for histories on which both runs finish ([fast_start_does_not_change_results_variant]).
    F2  [fast_start_changes_only_the_layout]: the two finished files satisfy [check_C08]. *)
From Coq Require Import Lia ZifyN ZifyNat ZifyBool.
From Coq Require Import Sorting.Sorted Sorting.Permutation.
From Muxide Require Import Model.Base Model.Annexb Model.Adts Model.Codec Model.Boxes Model.F64 Model.Writer Model.Api
  Spec.Bmff Spec.Reader Spec.NalSplit Spec.Layout Spec.Contract Spec.Checks
  Proofs.BaseProofs Proofs.TableProofs Proofs.ApiProofs Proofs.AnnexbProofs Proofs.AdtsProofs
  Proofs.SinkProofs Proofs.MoovProofs Proofs.FinishProofs
  Proofs.LayoutProofs Proofs.TimingProofs Proofs.FieldProofs Proofs.ContractProofs Proofs.StructureProofs
  Proofs.EndToEndProofs.
Open Scope N_scope.
Ltac Zify.zify_post_hook ::= Z.div_mod_to_equations.

Local Arguments N.add : simpl never.
Local Arguments N.sub : simpl never.
Local Arguments N.mul : simpl never.
Local Arguments N.div : simpl never.
Local Arguments N.modulo : simpl never.
Local Arguments N.eqb : simpl never.
Local Arguments N.ltb : simpl never.
Local Arguments N.leb : simpl never.

Definition with_fast (b : builder) (f : bool) : builder :=
  {| b_video := b_video b; b_audio := b_audio b; b_meta := b_meta b; b_fast := f;
     b_sps := b_sps b; b_pps := b_pps b; b_vps := b_vps b; b_av1 := b_av1 b; b_vp9 := b_vp9 b |}.

(** * Part 1: two muxers that differ only in the layout flag and in what sits in the sink *)

(* the writer with another byte counter / sink *)
Definition wre (w : writer) (bw : N) (s : sink) : writer := with_sink w (w_finalized w) bw s.

(* the muxer with another layout flag, byte counter and sink *)
Definition reframe (m : muxer) (f : bool) (bw : N) (s : sink) : muxer :=
  {| m_writer := wre (m_writer m) bw s;
     m_codec := m_codec m; m_video := m_video m; m_audio := m_audio m;
     m_meta := m_meta m; m_fast := f;
     m_first_vpts := m_first_vpts m; m_last_vpts := m_last_vpts m; m_last_vdts := m_last_vdts m;
     m_last_apts := m_last_apts m;
     m_vcount := m_vcount m; m_acount := m_acount m; m_finished := m_finished m;
     m_cur_vpts := m_cur_vpts m; m_cur_apts := m_cur_apts m |}.

Definition map_inl {A B E} (f : A -> B) (x : A + E) : B + E :=
  match x with inl a => inl (f a) | inr e => inr e end.

Lemma wvs_wre w bw s pts dts d k :
  write_video_sample_with_dts (wre w bw s) pts dts d k =
  map_inl (fun w' => wre w' bw s) (write_video_sample_with_dts w pts dts d k).
Proof.
  unfold write_video_sample_with_dts, push_video, wre.
  cbn [with_sink w_finalized w_vprev w_vrev w_codec w_vlast_delta w_vconfig].
  destruct (w_finalized w); [reflexivity|].
  destruct (negb (cts_fits pts dts)); [reflexivity|].
  destruct (w_vprev w) as [prev|].
  - destruct (dts <=? prev); [reflexivity|].
    destruct (U32MAX <? dts - prev); [reflexivity|].
    destruct (U32MAX <? len (convert_video (w_codec w) d)); reflexivity.
  - destruct (negb k); [reflexivity|].
    destruct (extract_config (w_codec w) d); [|reflexivity].
    destruct (U32MAX <? len (convert_video (w_codec w) d)); reflexivity.
Qed.

Lemma was_wre w bw s pts d :
  write_audio_sample (wre w bw s) pts d =
  map_inl (fun w' => wre w' bw s) (write_audio_sample w pts d).
Proof.
  unfold write_audio_sample, wre. cbv zeta.
  cbn [with_sink w_finalized w_audio w_aprev w_arev w_alast_delta].
  destruct (w_finalized w); [reflexivity|].
  destruct (w_audio w) as [track|]; [|reflexivity].
  destruct (match w_aprev w with
            | Some prev => if pts <? prev then inr NonIncreasingTimestamp
                           else if U32MAX <? pts - prev then inr DurationOverflow else inl (Some (pts - prev))
            | None => inl None end) as [pending|e]; [|reflexivity].
  destruct (match at_codec track with
            | Aac _ => match adts_to_raw d with AdtsOk raw => inl raw | AdtsErr e => inr (InvalidAdtsDetailed e) end
            | Opus => if is_valid_opus_packet d then inl d else inr InvalidOpusPacket
            | NoAudio => inr AudioNotEnabled end) as [sd|e]; [|reflexivity].
  destruct (U32MAX <? len sd); reflexivity.
Qed.

Definition reframe_res (f : bool) (bw : N) (s : sink) (r : muxer * option merr) : muxer * option merr :=
  (reframe (fst r) f bw s, snd r).

Lemma write_video_reframe m f bw s pts d k :
  write_video (reframe m f bw s) pts d k = reframe_res f bw s (write_video m pts d k).
Proof.
  unfold write_video, write_video_sample, reframe_res.
  cbn [reframe m_vcount m_last_vpts m_writer].
  destruct d as [|x d']; [reflexivity|].
  destruct (negb (is_finite pts)); [reflexivity|].
  destruct (fltb pts f_zero); [reflexivity|].
  destruct (opt_cmp fleb pts (m_last_vpts m)); [reflexivity|].
  rewrite wvs_wre.
  destruct (write_video_sample_with_dts (m_writer m) (tick pts) (tick pts) (x :: d') k); reflexivity.
Qed.

Lemma write_video_with_dts_reframe m f bw s pts dts d k :
  write_video_with_dts (reframe m f bw s) pts dts d k = reframe_res f bw s (write_video_with_dts m pts dts d k).
Proof.
  unfold write_video_with_dts, reframe_res.
  cbn [reframe m_vcount m_last_vdts m_writer m_finished].
  destruct (m_finished m); [reflexivity|].
  destruct d as [|x d']; [reflexivity|].
  destruct (negb (is_finite pts)); [reflexivity|].
  destruct (fltb pts f_zero); [reflexivity|].
  destruct (negb (is_finite dts)); [reflexivity|].
  destruct (fltb dts f_zero); [reflexivity|].
  destruct (opt_cmp fleb dts (m_last_vdts m)); [reflexivity|].
  rewrite wvs_wre.
  destruct (write_video_sample_with_dts (m_writer m) (tick pts) (tick dts) (x :: d') k); reflexivity.
Qed.

Lemma write_audio_reframe m f bw s pts d :
  write_audio (reframe m f bw s) pts d = reframe_res f bw s (write_audio m pts d).
Proof.
  unfold write_audio, reframe_res.
  cbn [reframe m_acount m_last_apts m_writer m_finished m_audio m_first_vpts].
  destruct (m_finished m); [reflexivity|].
  destruct (m_audio m) as [a|]; [|reflexivity].
  destruct (negb (is_finite pts)); [reflexivity|].
  destruct (fltb pts f_zero); [reflexivity|].
  destruct d as [|x d']; [reflexivity|].
  destruct (opt_cmp fltb pts (m_last_apts m)); [reflexivity|].
  destruct (m_first_vpts m) as [fv|]; [|reflexivity].
  destruct (fltb pts fv); [reflexivity|].
  rewrite was_wre.
  destruct (write_audio_sample (m_writer m) (tick pts) (x :: d')); reflexivity.
Qed.

Lemma api_is_keyframe_reframe m f bw s d : api_is_keyframe (reframe m f bw s) d = api_is_keyframe m d.
Proof. reflexivity. Qed.

Lemma encode_video_reframe m f bw s d ms :
  encode_video (reframe m f bw s) d ms = reframe_res f bw s (encode_video m d ms).
Proof.
  unfold encode_video. rewrite api_is_keyframe_reframe.
  change (m_cur_vpts (reframe m f bw s)) with (m_cur_vpts m).
  rewrite write_video_reframe. unfold reframe_res.
  destruct (write_video m (m_cur_vpts m) d (api_is_keyframe m d)) as [m1 [e|]]; reflexivity.
Qed.

Lemma encode_audio_reframe m f bw s d smp :
  encode_audio (reframe m f bw s) d smp = reframe_res f bw s (encode_audio m d smp).
Proof.
  unfold encode_audio.
  change (m_audio (reframe m f bw s)) with (m_audio m).
  change (m_cur_apts (reframe m f bw s)) with (m_cur_apts m).
  destruct (m_audio m) as [a|]; [|reflexivity].
  rewrite write_audio_reframe. unfold reframe_res.
  destruct (write_audio m (m_cur_apts m) d) as [m1 [e|]]; reflexivity.
Qed.

Lemma lift_reframe_res f bw s r :
  lift (reframe_res f bw s r) = (reframe (fst (lift r)) f bw s, snd (lift r)).
Proof. destruct r as [m [e|]]; reflexivity. Qed.

(* every call except finish commutes with the reframing *)
Lemma step_reframe m f bw s o :
  o <> FIN ->
  step (reframe m f bw s) o = (reframe (fst (step m o)) f bw s, snd (step m o)).
Proof.
  intros Hne. destruct o as [p d k|p t d k|p d|d ms|d smp|]; [| | | | |congruence]; cbn [step].
  - rewrite write_video_reframe. apply lift_reframe_res.
  - rewrite write_video_with_dts_reframe. apply lift_reframe_res.
  - rewrite write_audio_reframe. apply lift_reframe_res.
  - rewrite encode_video_reframe. apply lift_reframe_res.
  - rewrite encode_audio_reframe. apply lift_reframe_res.
Qed.

(** ** finish *)
Definition fin_early (m : muxer) : bool :=
  m_finished m || w_finalized (m_writer m) ||
  ((U16MAX <? vt_width (m_video m)) || (U16MAX <? vt_height (m_video m))) ||
  param_sets_too_long (w_vconfig (m_writer m)).

Definition fin_upd (m : muxer) (bw : N) (s : sink) (fin : bool) : muxer :=
  {| m_writer := with_sink (m_writer m) true bw s;
     m_codec := m_codec m; m_video := m_video m; m_audio := m_audio m;
     m_meta := m_meta m; m_fast := m_fast m;
     m_first_vpts := m_first_vpts m; m_last_vpts := m_last_vpts m; m_last_vdts := m_last_vdts m;
     m_last_apts := m_last_apts m;
     m_vcount := m_vcount m; m_acount := m_acount m; m_finished := fin;
     m_cur_vpts := m_cur_vpts m; m_cur_apts := m_cur_apts m |}.

Definition is_stats (r : result) : bool := match r with RStats _ => true | _ => false end.

Lemma fin_step_early m : fin_early m = true -> exists e, step m FIN = (m, RErr e).
Proof.
  unfold fin_early. intros H. cbn [step]. unfold finish_in_place_with_stats.
  destruct (m_finished m) eqn:Ffin; [eauto|].
  unfold finalize.
  destruct (w_finalized (m_writer m)) eqn:Fz.
  - eexists. destruct m; cbn in *; subst; reflexivity.
  - cbn [orb] in H.
    destruct ((U16MAX <? vt_width (m_video m)) || (U16MAX <? vt_height (m_video m))).
    + eexists. destruct m; cbn in *; subst; reflexivity.
    + cbn [orb] in H. rewrite H. eexists. destruct m; cbn in *; subst; reflexivity.
Qed.

Lemma fin_step_late m :
  fin_early m = false ->
  exists bw s r, step m FIN = (fin_upd m bw s (is_stats r), r) /\ r <> ROk.
Proof.
  unfold fin_early. intros H. cbn [step]. unfold finish_in_place_with_stats.
  destruct (m_finished m) eqn:Ffin; [discriminate|].
  unfold finalize.
  destruct (w_finalized (m_writer m)) eqn:Fz; [discriminate|].
  cbn [orb] in H.
  destruct ((U16MAX <? vt_width (m_video m)) || (U16MAX <? vt_height (m_video m))); [discriminate|].
  cbn [orb] in H. rewrite H.
  destruct (if m_fast m then finalize_fast_start (m_writer m) (m_video m) (m_meta m) (effective_config (m_writer m))
            else finalize_standard (m_writer m) (m_video m) (m_meta m) (effective_config (m_writer m)))
    as [bufs term].
  destruct (run_plan bufs (w_bytes_written (m_writer m)) (w_sink (m_writer m))) as [[bw s] e].
  exists bw, s.
  destruct e as [k|]; [exists (RErr (MIo k)); split; [reflexivity|discriminate]|].
  destruct term as [[k|p]|].
  - exists (RErr (MIo k)); split; [reflexivity|discriminate].
  - exists (RPanic p); split; [reflexivity|discriminate].
  - eexists (RStats _); split; [reflexivity|discriminate].
Qed.

(* the relation kept by the two runs *)
Definition R (m1 m2 : muxer) : Prop := exists f bw s, m2 = reframe m1 f bw s.

Lemma R_step m1 m2 o :
  R m1 m2 -> o <> FIN ->
  R (fst (step m1 o)) (fst (step m2 o)) /\ snd (step m2 o) = snd (step m1 o).
Proof.
  intros (f & bw & s & ->) Hne. rewrite (step_reframe m1 f bw s o Hne). cbn [fst snd].
  split; [exists f, bw, s; reflexivity|reflexivity].
Qed.

Lemma non_fin_result m o : o <> FIN -> snd (step m o) = ROk \/ exists e, snd (step m o) = RErr e.
Proof.
  intros Hne. destruct o as [p d k|p t d k|p d|d ms|d smp|]; [| | | | |congruence]; cbn [step].
  - destruct (write_video m (decode64 p) d k) as [m1 [e|]]; cbn; eauto.
  - destruct (write_video_with_dts m (decode64 p) (decode64 t) d k) as [m1 [e|]]; cbn; eauto.
  - destruct (write_audio m (decode64 p) d) as [m1 [e|]]; cbn; eauto.
  - destruct (encode_video m d ms) as [m1 [e|]]; cbn; eauto.
  - destruct (encode_audio m d smp) as [m1 [e|]]; cbn; eauto.
Qed.

Lemma op_fin_dec (o : op) : o = FIN \/ o <> FIN.
Proof. destruct o; auto; right; discriminate. Qed.

(* queues never change once the writer is finalized *)
Lemma frozen_run ops m :
  w_finalized (m_writer m) = true ->
  w_vrev (m_writer (fst (run m ops))) = w_vrev (m_writer m) /\
  w_arev (m_writer (fst (run m ops))) = w_arev (m_writer m).
Proof.
  intros HF.
  pose (P := fun w => w_finalized w = true /\ w_vrev w = w_vrev (m_writer m) /\ w_arev w = w_arev (m_writer m)).
  assert (HP : P (m_writer (fst (run m ops)))).
  { apply (P_run P).
    - intros w pts dts data key w' (F & _) H. unfold write_video_sample_with_dts in H. rewrite F in H. discriminate.
    - intros w pts data w' (F & _) H. unfold write_audio_sample in H. rewrite F in H. discriminate.
    - intros w v md fs (F & A & B). rewrite (finalize_finalized _ _ _ _ F). cbn [fst]. repeat split; assumption.
    - repeat split. exact HF. }
  destruct HP as (_ & A & B). split; assumption.
Qed.

Lemma run_cons m o t :
  run m (o :: t) =
  match snd (step m o) with
  | RPanic p => (fst (step m o), [RPanic p])
  | r => (fst (run (fst (step m o)) t), r :: snd (run (fst (step m o)) t))
  end.
Proof.
  cbn [run]. destruct (step m o) as [m' r]. cbn [fst snd].
  destruct r; try reflexivity; destruct (run m' t); reflexivity.
Qed.

Lemma fin_upd_queues m bw s b :
  w_vrev (m_writer (fin_upd m bw s b)) = w_vrev (m_writer m) /\
  w_arev (m_writer (fin_upd m bw s b)) = w_arev (m_writer m) /\
  w_finalized (m_writer (fin_upd m bw s b)) = true.
Proof. repeat split. Qed.

Lemma R_queues m1 m2 : R m1 m2 ->
  w_vrev (m_writer m2) = w_vrev (m_writer m1) /\ w_arev (m_writer m2) = w_arev (m_writer m1).
Proof. intros (f & bw & s & ->). split; reflexivity. Qed.

(* after a finish attempt on a finalized writer, the queues of the whole run are those before it *)
Lemma run_after_fin_queues m bw s r t :
  step m FIN = (fin_upd m bw s (is_stats r), r) ->
  w_vrev (m_writer (fst (run m (FIN :: t)))) = w_vrev (m_writer m) /\
  w_arev (m_writer (fst (run m (FIN :: t)))) = w_arev (m_writer m).
Proof.
  intros ES. rewrite run_cons, ES. cbn [fst snd].
  destruct (frozen_run t (fin_upd m bw s (is_stats r)) eq_refl) as [A B].
  destruct r; cbn [fst]; split; try assumption; reflexivity.
Qed.

(* F1, unconditional part: the queues *)
Lemma R_run_queues : forall ops m1 m2, R m1 m2 ->
  w_vrev (m_writer (fst (run m2 ops))) = w_vrev (m_writer (fst (run m1 ops))) /\
  w_arev (m_writer (fst (run m2 ops))) = w_arev (m_writer (fst (run m1 ops))).
Proof.
  induction ops as [|o t IH]; intros m1 m2 HR.
  - cbn [run fst]. apply R_queues. exact HR.
  - destruct (op_fin_dec o) as [->|Hne].
    + destruct HR as (f & bw & s & ->).
      destruct (fin_early m1) eqn:E.
      * destruct (fin_step_early m1 E) as [e1 E1].
        destruct (fin_step_early (reframe m1 f bw s) E) as [e2 E2].
        rewrite !run_cons, E1, E2. cbn [fst snd]. apply IH. exists f, bw, s. reflexivity.
      * destruct (fin_step_late m1 E) as (bw1 & s1 & r1 & E1 & _).
        destruct (fin_step_late (reframe m1 f bw s) E) as (bw2 & s2 & r2 & E2 & _).
        destruct (run_after_fin_queues _ _ _ _ t E1) as [A1 B1].
        destruct (run_after_fin_queues _ _ _ _ t E2) as [A2 B2].
        rewrite A1, B1, A2, B2. split; reflexivity.
    + destruct (R_step m1 m2 o HR Hne) as [HR' Hres].
      rewrite !run_cons, Hres.
      destruct (non_fin_result m1 o Hne) as [->|[e ->]]; cbn [fst]; apply IH; exact HR'.
Qed.

(* F1, results: identical as long as the two finish attempts agree on success *)
Lemma no_stats_after_fin m bw s r t st :
  step m FIN = (fin_upd m bw s false, r) -> is_stats r = false ->
  ~ In (RStats st) (snd (run m (FIN :: t))).
Proof.
  intros ES Hr. rewrite run_cons, ES. cbn [fst snd].
  destruct (run_finalized t (fin_upd m bw s false) eq_refl) as (_ & Kno).
  destruct r; cbn [snd]; try discriminate; intros [H|H]; try discriminate; try (exact (Kno st H)); destruct H.
Qed.

Lemma finished_classes : forall t m,
  m_finished m = true -> w_finalized (m_writer m) = true ->
  map class_of (snd (run m t)) = map (fun _ => CErr) t.
Proof.
  induction t as [|o t IH]; intros m F1 F2; [reflexivity|].
  destruct (finished_muxer_rejects_everything m F1 F2 o) as [e E].
  rewrite run_cons, E. cbn [fst snd map class_of]. rewrite (IH m F1 F2). reflexivity.
Qed.

Lemma R_run_ok : forall ops m1 m2 st1 st2, R m1 m2 ->
  In (RStats st1) (snd (run m1 ops)) -> In (RStats st2) (snd (run m2 ops)) ->
  R (fst (run m1 ops)) (fst (run m2 ops)) /\
  map class_of (snd (run m2 ops)) = map class_of (snd (run m1 ops)).
Proof.
  induction ops as [|o t IH]; intros m1 m2 st1 st2 HR H1 H2.
  - destruct H1.
  - destruct (op_fin_dec o) as [->|Hne].
    + destruct HR as (f & bw & s & ->).
      destruct (fin_early m1) eqn:E.
      * destruct (fin_step_early m1 E) as [e1 E1].
        destruct (fin_step_early (reframe m1 f bw s) E) as [e2 E2].
        rewrite !run_cons, E1, E2 in *. cbn [fst snd] in *.
        destruct H1 as [H1|H1]; [discriminate|]. destruct H2 as [H2|H2]; [discriminate|].
        destruct (IH m1 (reframe m1 f bw s) st1 st2 ltac:(exists f, bw, s; reflexivity) H1 H2) as [I1 I2].
        split; [exact I1|]. cbn [map class_of]. rewrite I2. reflexivity.
      * destruct (fin_step_late m1 E) as (bw1 & s1 & r1 & E1 & N1).
        destruct (fin_step_late (reframe m1 f bw s) E) as (bw2 & s2 & r2 & E2 & N2).
        destruct (is_stats r1) eqn:S1; [|exfalso; exact (no_stats_after_fin _ _ _ _ t st1 E1 S1 H1)].
        destruct (is_stats r2) eqn:S2; [|exfalso; exact (no_stats_after_fin _ _ _ _ t st2 E2 S2 H2)].
        destruct r1 as [|x1| |]; try discriminate. destruct r2 as [|x2| |]; try discriminate.
        rewrite !run_cons, E1, E2. cbn [fst snd is_stats].
        destruct (run_finished_id t (fin_upd m1 bw1 s1 true) eq_refl eq_refl) as [Id1 _].
        destruct (run_finished_id t (fin_upd (reframe m1 f bw s) bw2 s2 true) eq_refl eq_refl) as [Id2 _].
        rewrite Id1, Id2. split; [exists f, bw2, s2; reflexivity|].
        cbn [map class_of]. f_equal.
        rewrite !finished_classes by reflexivity. reflexivity.
    + destruct (R_step m1 m2 o HR Hne) as [HR' Hres].
      rewrite !run_cons, Hres in *.
      destruct (non_fin_result m1 o Hne) as [Er|[e Er]]; rewrite Er in *; cbn [fst snd] in *.
      * destruct H1 as [H1|H1]; [discriminate|]. destruct H2 as [H2|H2]; [discriminate|].
        destruct (IH _ _ st1 st2 HR' H1 H2) as [I1 I2]. split; [exact I1|]. cbn [map]. rewrite I2. reflexivity.
      * destruct H1 as [H1|H1]; [discriminate|]. destruct H2 as [H2|H2]; [discriminate|].
        destruct (IH _ _ st1 st2 HR' H1 H2) as [I1 I2]. split; [exact I1|]. cbn [map]. rewrite I2. reflexivity.
Qed.

Lemma R_run_nofin : forall ops m1 m2, R m1 m2 -> Forall (fun o => o <> FIN) ops ->
  R (fst (run m1 ops)) (fst (run m2 ops)) /\ snd (run m2 ops) = snd (run m1 ops).
Proof.
  induction ops as [|o t IH]; intros m1 m2 HR Hall.
  - cbn [run fst snd]. split; [exact HR|reflexivity].
  - inversion Hall as [|o' t' Hne Ht]; subst.
    destruct (R_step m1 m2 o HR Hne) as [HR' Hres].
    rewrite !run_cons, Hres.
    destruct (non_fin_result m1 o Hne) as [->|[e ->]]; cbn [fst snd];
      destruct (IH _ _ HR' Ht) as [I1 I2]; (split; [exact I1|rewrite I2; reflexivity]).
Qed.

Lemma R_build b m_on m_off :
  build (with_fast b true) [] = inl m_on -> build (with_fast b false) [] = inl m_off -> R m_on m_off.
Proof.
  unfold build, with_fast. cbn [b_video b_audio b_meta b_fast].
  destruct (b_video b) as [[[codec w] h]|]; [|discriminate].
  intros H1 H2. inversion H1; inversion H2; subst.
  exists false, 0, {| sk_rev_chunks := []; sk_script := [] |}. reflexivity.
Qed.

(** * F1 *)

(* the queues never depend on the layout flag *)
Theorem fast_start_does_not_change_queues : forall b m_on m_off ops,
  build (with_fast b true) [] = inl m_on -> build (with_fast b false) [] = inl m_off ->
  vsamples (m_writer (fst (run m_on ops))) = vsamples (m_writer (fst (run m_off ops))) /\
  asamples (m_writer (fst (run m_on ops))) = asamples (m_writer (fst (run m_off ops))).
Proof.
  intros b m_on m_off ops H1 H2.
  destruct (R_run_queues ops m_on m_off (R_build b m_on m_off H1 H2)) as [A B].
  unfold vsamples, asamples. rewrite A, B. split; reflexivity.
Qed.
Print Assumptions fast_start_does_not_change_queues.

(* nor does any result before the first finish attempt *)
Theorem fast_start_does_not_change_results_before_finish : forall b m_on m_off ops,
  build (with_fast b true) [] = inl m_on -> build (with_fast b false) [] = inl m_off ->
  Forall (fun o => o <> FIN) ops ->
  snd (run m_on ops) = snd (run m_off ops).
Proof.
  intros b m_on m_off ops H1 H2 Hall.
  destruct (R_run_nofin ops m_on m_off (R_build b m_on m_off H1 H2) Hall) as [_ E]. symmetry. exact E.
Qed.
Print Assumptions fast_start_does_not_change_results_before_finish.

(* when both runs finish successfully, every call has the same outcome class *)
Theorem fast_start_does_not_change_results_variant : forall b m_on m_off ops s_on s_off,
  build (with_fast b true) [] = inl m_on -> build (with_fast b false) [] = inl m_off ->
  In (RStats s_on) (snd (run m_on ops)) -> In (RStats s_off) (snd (run m_off ops)) ->
  map class_of (snd (run m_on ops)) = map class_of (snd (run m_off ops)) /\
  vsamples (m_writer (fst (run m_on ops))) = vsamples (m_writer (fst (run m_off ops))) /\
  asamples (m_writer (fst (run m_on ops))) = asamples (m_writer (fst (run m_off ops))).
Proof.
  intros b m_on m_off ops s_on s_off H1 H2 I1 I2.
  destruct (R_run_ok ops m_on m_off s_on s_off (R_build b m_on m_off H1 H2) I1 I2) as [_ E].
  split; [symmetry; exact E|]. exact (fast_start_does_not_change_queues b m_on m_off ops H1 H2).
Qed.
Print Assumptions fast_start_does_not_change_results_variant.

(** * Part 2: the finished file, with the layout tied to the flag *)

Definition placement_fs (fs : bool) (top : list btree) (moov : btree) (data : bytes) (start : N) : Prop :=
  if fs then top = [ftyp_tree; moov; mdat_tree data] /\ start = len build_ftyp_box + len (enc moov) + 8
  else top = [ftyp_tree; mdat_tree data; moov] /\ start = len build_ftyp_box + 8.

Definition FileShapeF (w : writer) (v : video_track) (md : option metadata) (fs : bool) (file : bytes) : Prop :=
  exists voffs vspc aoffs data start top,
    let vs := vsamples w in
    let vt := from_samples vs voffs vspc (w_vlast_delta w) in
    let aud := aud_of w aoffs in
    let moov := moov_tree v vt aud (effective_config w) md in
    file = flat_map enc top /\ TabsOK vt /\ AudioTabsOK aud /\
    ((fs = false /\ top = [ftyp_tree; moov] /\ vs = [] /\ w_audio w = None /\ voffs = [] /\ vspc = 0) \/
     (placement_fs fs top moov data start /\
      ((w_audio w = None /\ data = concat (map s_data vs) /\
        ((vs = [] /\ voffs = [] /\ vspc = 0 /\ fs = true) \/ (vs <> [] /\ voffs = [start] /\ vspc = u32 (len vs)))) \/
       (w_audio w <> None /\ vspc = 1 /\
        data = concat (map (sched_data vs (asamples w)) (sched_of w)) /\
        voffs = vo_of w start /\ aoffs = ao_of w start)))).

(* [plan_file_shape] of EndToEndProofs.v, keeping track of which plan produced which order *)
Lemma plan_file_shape_fs w v md fs bufs :
  samples_ok (w_vrev w) -> samples_ok (w_arev w) -> AudioInv w ->
  plan_of w v md fs = (bufs, None) ->
  FileShapeF w v md fs (concat bufs).
Proof.
  intros Hv Ha HA Hplan. unfold FileShapeF.
  pose proof (samples_pos _ Hv) as Pv. pose proof (samples_pos _ Ha) as Pa.
  pose proof (samples_small _ Hv) as Sv. pose proof (samples_small _ Ha) as Sa.
  fold (vsamples w) in Pv, Sv. fold (asamples w) in Pa, Sa.
  unfold plan_of in Hplan. destruct fs.
  - (* fast start *)
    unfold finalize_fast_start in Hplan. cbv zeta in Hplan.
    destruct (U32MAX <? 8 + payload_sum (vsamples w) + payload_sum (asamples w)) eqn:Esz;
      [discriminate|]. unfold U32MAX in Esz.
    destruct (w_audio w) as [track|] eqn:EA.
    + destruct (placeholder_offsets (compute_interleave_schedule (vsamples w) (asamples w)) 0) as [pvo pao] eqn:EP.
      destruct (moov_of v (from_samples (vsamples w) pvo 1 (w_vlast_delta w))
                  (Some (track, from_samples (asamples w) pao 1 (w_alast_delta w))) (effective_config w) md)
        as [pmoov|p] eqn:EPM; [|discriminate].
      apply moov_of_inl in EPM.
      destruct (walk_offsets (vsamples w) (asamples w) (compute_interleave_schedule (vsamples w) (asamples w))
                  (len build_ftyp_box + len pmoov + 8)) as [vo ao|] eqn:EW; [|discriminate].
      destruct (moov_of v (from_samples (vsamples w) vo 1 (w_vlast_delta w))
                  (Some (track, from_samples (asamples w) ao 1 (w_alast_delta w))) (effective_config w) md)
        as [moov|p] eqn:EM; [|discriminate].
      apply moov_of_inl in EM. subst moov. injection Hplan as <-.
      destruct (walk_offsets_lengths _ _ _ _ _ EW) as (Lvo & Lao).
      destruct (placeholder_offsets_lengths _ _ _ _ EP) as (Lpvo & Lpao).
      rewrite sched_video_count in Lpvo. rewrite sched_audio_count in Lpao.
      assert (Elen : len pmoov = len (build_moov_box v (from_samples (vsamples w) vo 1 (w_vlast_delta w))
                         (Some (track, from_samples (asamples w) ao 1 (w_alast_delta w))) (effective_config w) md)).
      { subst pmoov. apply len_eq_of_length_eq. apply moov_length_independent_of_offsets_av;
          apply same_shape_from_samples; congruence. }
      apply walk_offsets_tag in EW. destruct EW as [Evo Eao].
      exists vo, 1, ao, (concat (map (sched_data (vsamples w) (asamples w)) (sched_of w))),
        (len build_ftyp_box + len pmoov + 8).
      eexists. cbv zeta. unfold aud_of. rewrite EA.
      split; [apply file_ftyp_moov_mdat; unfold sched_of; rewrite sched_payload_sum; lia|].
      split; [apply tabs_ok_from_samples; [exact Pv|lia|right; right; split; [reflexivity|exact Lvo]]|].
      split; [apply tabs_ok_from_samples; [exact Pa|lia|right; right; split; [reflexivity|exact Lao]]|].
      right. split; [split; [reflexivity|rewrite len_enc_moov, Elen; reflexivity]|].
      right. split; [discriminate|]. split; [reflexivity|]. split; [reflexivity|].
      split; [exact Evo|exact Eao].
    + assert (Eas : asamples w = []) by (unfold asamples; rewrite (HA EA); reflexivity).
      rewrite Eas in *. change (payload_sum []) with 0 in *.
      destruct (moov_of v
                  (from_samples (vsamples w) (match vsamples w with [] => [] | _ :: _ => [0] end)
                     (match vsamples w with [] => 0 | _ :: _ => u32 (len (vsamples w)) end) (w_vlast_delta w))
                  None (effective_config w) md) as [pmoov|p] eqn:EPM; [|discriminate].
      apply moov_of_inl in EPM.
      destruct (vsamples w) as [|s0 vs'] eqn:Evs.
      * destruct (moov_of v (from_samples [] [] 0 (w_vlast_delta w)) None (effective_config w) md)
          as [moov|p] eqn:EM; [|discriminate].
        apply moov_of_inl in EM. subst moov. injection Hplan as <-.
        exists [], 0, [], [], (len build_ftyp_box + len pmoov + 8).
        eexists. cbv zeta. unfold aud_of. rewrite EA.
        split; [apply (file_ftyp_moov_mdat _ _ _ _ _ _ []); reflexivity|].
        split; [apply tabs_ok_from_samples; [constructor|cbn; lia|left; split; reflexivity]|].
        split; [exact I|].
        right. split; [split; [reflexivity|rewrite len_enc_moov, EPM; reflexivity]|].
        left. split; [reflexivity|]. split; [reflexivity|]. left. repeat split; reflexivity.
      * rewrite <- Evs in *.
        destruct (U32MAX <? len build_ftyp_box + len pmoov + 8); [discriminate|].
        destruct (moov_of v (from_samples (vsamples w) [len build_ftyp_box + len pmoov + 8]
                               (u32 (len (vsamples w))) (w_vlast_delta w)) None (effective_config w) md)
          as [moov|p] eqn:EM; [|discriminate].
        apply moov_of_inl in EM. subst moov. injection Hplan as <-.
        assert (Elen : len pmoov = len (build_moov_box v (from_samples (vsamples w) [len build_ftyp_box + len pmoov + 8]
                               (u32 (len (vsamples w))) (w_vlast_delta w)) None (effective_config w) md)).
        { rewrite EPM. apply len_eq_of_length_eq. apply moov_length_independent_of_offsets.
          rewrite Evs. apply same_shape_from_samples. reflexivity. }
        exists [len build_ftyp_box + len pmoov + 8], (u32 (len (vsamples w))), [],
          (concat (map s_data (vsamples w))), (len build_ftyp_box + len pmoov + 8).
        eexists. cbv zeta. unfold aud_of. rewrite EA.
        split; [apply file_ftyp_moov_mdat; rewrite payload_sum_concat; lia|].
        split; [apply tabs_ok_from_samples; [exact Pv|lia|];
                right; left; eexists; split; [reflexivity|]; split; [reflexivity|]; rewrite Evs; discriminate|].
        split; [exact I|].
        right. split; [split; [reflexivity|rewrite len_enc_moov, <- Elen; reflexivity]|].
        left. split; [reflexivity|]. split; [reflexivity|]. right.
        split; [rewrite Evs; discriminate|]. split; reflexivity.
  - (* standard *)
    unfold finalize_standard in Hplan. cbv zeta in Hplan.
    destruct (w_audio w) as [track|] eqn:EA.
    + destruct (U32MAX <? 8 + payload_sum (vsamples w) + payload_sum (asamples w)) eqn:Esz;
        [discriminate|]. unfold U32MAX in Esz.
      destruct (walk_std (vsamples w) (asamples w) (compute_interleave_schedule (vsamples w) (asamples w))
                  (len build_ftyp_box + 8) [] [] []) as [[[bufs' vo] ao] ok] eqn:EW.
      destruct ok; cbn [negb] in Hplan; [|discriminate].
      destruct (moov_of v (from_samples (vsamples w) vo 1 (w_vlast_delta w))
                  (Some (track, from_samples (asamples w) ao 1 (w_alast_delta w))) (effective_config w) md)
        as [moov|p] eqn:EM; [|discriminate].
      apply moov_of_inl in EM. subst moov.
      injection Hplan as <-.
      destruct (walk_std_lengths _ _ _ _ _ _ Sv Sa EW) as (Eb & Lvo & Lao).
      apply (walk_std_tag _ _ Sv Sa) in EW. cbn [rev app] in EW. destruct EW as (_ & Evo & Eao).
      subst bufs'.
      exists vo, 1, ao, (concat (map (sched_data (vsamples w) (asamples w)) (sched_of w))),
        (len build_ftyp_box + 8).
      eexists. cbv zeta. unfold aud_of. rewrite EA.
      split; [apply file_ftyp_mdat_moov; unfold sched_of; rewrite sched_payload_sum; lia|].
      split; [apply tabs_ok_from_samples; [exact Pv|lia|right; right; split; [reflexivity|exact Lvo]]|].
      split; [apply tabs_ok_from_samples; [exact Pa|lia|right; right; split; [reflexivity|exact Lao]]|].
      right. split; [split; reflexivity|].
      right. split; [discriminate|]. split; [reflexivity|]. split; [reflexivity|].
      split; [exact Evo|exact Eao].
    + destruct (vsamples w) as [|s0 vs'] eqn:Evs.
      * destruct (moov_of v (from_samples [] [] 0 (w_vlast_delta w)) None (effective_config w) md)
          as [moov|p] eqn:EM; [|discriminate].
        apply moov_of_inl in EM. subst moov. injection Hplan as <-.
        exists [], 0, [], [], 0. eexists. cbv zeta. unfold aud_of. rewrite EA.
        split; [apply file_ftyp_moov|].
        split; [apply tabs_ok_from_samples; [constructor|cbn; lia|left; split; reflexivity]|].
        split; [exact I|].
        left. repeat split; reflexivity.
      * rewrite <- Evs in *.
        destruct (U32MAX <? 8 + payload_sum (vsamples w)) eqn:Esz; [discriminate|]. unfold U32MAX in Esz.
        destruct (moov_of v (from_samples (vsamples w) [len build_ftyp_box + 8] (u32 (len (vsamples w)))
                               (w_vlast_delta w)) None (effective_config w) md)
          as [moov|p] eqn:EM; [|discriminate].
        apply moov_of_inl in EM. subst moov. injection Hplan as <-.
        cbn [app].
        exists [len build_ftyp_box + 8], (u32 (len (vsamples w))), [],
          (concat (map s_data (vsamples w))), (len build_ftyp_box + 8).
        eexists. cbv zeta. unfold aud_of. rewrite EA.
        split; [apply file_ftyp_mdat_moov; rewrite payload_sum_concat; lia|].
        split; [apply tabs_ok_from_samples; [exact Pv|lia|];
                right; left; eexists; split; [reflexivity|]; split; [reflexivity|]; rewrite Evs; discriminate|].
        split; [exact I|].
        right. split; [split; reflexivity|].
        left. split; [reflexivity|]. split; [reflexivity|]. right.
        split; [rewrite Evs; discriminate|]. split; reflexivity.
Qed.

(** ** top-level order of an explicit box list *)
Lemma layout_of_types : forall l off, map (fun e => fst (fst e)) (layout_of l off) = map b_typ l.
Proof. induction l as [|x l IH]; intros off; [reflexivity|]. cbn [layout_of map fst]. rewrite IH. reflexivity. Qed.

Lemma top_types_boxes (l : list btree) :
  Forall (fun x => length (b_typ x) = 4%nat /\ 8 + len (b_payload x) < 4294967296) l ->
  top_types (flat_map enc l) = map b_typ l.
Proof. intros H. unfold top_types. rewrite (top_layout_boxes l H). apply layout_of_types. Qed.

Lemma boxes_small : forall l : list btree,
  Forall (fun x => length (b_typ x) = 4%nat) l -> len (flat_map enc l) < 4294967296 ->
  Forall (fun x => length (b_typ x) = 4%nat /\ 8 + len (b_payload x) < 4294967296) l.
Proof.
  induction l as [|x l IH]; intros HT Hlen; [constructor|].
  inversion HT as [|? ? Hx HT']; subst. cbn [flat_map] in Hlen. rewrite len_app in Hlen.
  destruct x as [t p k]. rewrite len_enc_box in Hlen. cbn [b_typ b_payload] in *.
  assert (len t = 4) by (unfold len; rewrite Hx; reflexivity).
  constructor; [cbn [b_typ b_payload]; split; [exact Hx|lia]|]. apply IH; [exact HT'|lia].
Qed.

Definition spc_of (w : writer) : N :=
  match w_audio w with
  | Some _ => 1
  | None => match vsamples w with [] => 0 | _ => u32 (len (vsamples w)) end
  end.

Definition nchunks_v (w : writer) : nat :=
  match w_audio w with
  | Some _ => length (vsamples w)
  | None => match vsamples w with [] => 0%nat | _ => 1%nat end
  end.

(* fast start: ftyp moov mdat; standard: ftyp mdat moov, or ftyp moov when nothing at all was queued
   and no audio track is configured *)
Definition order_of (w : writer) (fs : bool) : list bytes :=
  if fs then [T_FTYP; T_MOOV; T_MDAT]
  else match w_audio w, vsamples w with
       | None, [] => [T_FTYP; T_MOOV]
       | _, _ => [T_FTYP; T_MDAT; T_MOOV]
       end.

(* [final_layout] of EndToEndProofs.v for an explicit plan: what the reader returns, where the samples
   sit, the chunking and the top-level order *)
Lemma plan_layout w v md fs bufs :
  WInv w -> SInv w -> plan_of w v md fs = (bufs, None) -> len (concat bufs) < 4294967296 ->
  exists voffs aoffs top,
    let vt := from_samples (vsamples w) voffs (spc_of w) (w_vlast_delta w) in
    let aud := aud_of w aoffs in
    read_tracks (concat bufs) = Some (top, tracks_of v vt aud (effective_config w) md) /\
    TabsOK vt /\ AudioTabsOK aud /\ len (vsamples w) < 4294967295 /\
    length voffs = nchunks_v w /\ (w_audio w <> None -> length aoffs = length (asamples w)) /\
    Layout w (concat bufs) (tr_ranges (vtrack v vt (effective_config w) md)) (audio_ranges aud md) /\
    top_types (concat bufs) = order_of w fs.
Proof.
  intros HW [[Sv Sa] SA] Hplan Hlen.
  destruct HW as (Hdts & Hpts & _).
  pose proof (samples_pos _ Sv) as Pv. pose proof (samples_pos _ Sa) as Pa.
  pose proof (samples_small _ Sv) as Smv. pose proof (samples_small _ Sa) as Sma.
  fold (vsamples w) in Pv, Smv. fold (asamples w) in Pa, Sma.
  destruct (plan_file_shape_fs _ _ _ _ _ Sv Sa SA Hplan)
    as (voffs & vspc & aoffs & data & start & top & Efile & TV & TA & Hshape).
  cbv zeta in Efile, TV, TA, Hshape.
  assert (Echunks : vspc = spc_of w /\ length voffs = nchunks_v w /\
                    (w_audio w <> None -> length aoffs = length (asamples w))).
  { unfold spc_of, nchunks_v.
    destruct Hshape as [(_ & _ & Evs & EA & Evo & Es)
                       |(_ & [(EA & _ & [(Evs & Evo & Es & _)|(Evs & Evo & Es)])|(EA & Es & _ & Evo & Eao)])].
    - rewrite EA, Evs, Evo. split; [exact Es|]. split; [reflexivity|congruence].
    - rewrite EA, Evs, Evo. split; [exact Es|]. split; [reflexivity|congruence].
    - rewrite EA, Evo. destruct (vsamples w); [congruence|]. split; [exact Es|]. split; [reflexivity|congruence].
    - destruct (w_audio w) as [tr|]; [|congruence]. split; [exact Es|]. split.
      + rewrite Evo. unfold vo_of. fold (FV (vsamples w) (asamples w) start). rewrite map_length.
        apply FV_length. exact Hdts.
      + intros _. rewrite Eao. unfold ao_of. fold (FA (vsamples w) (asamples w) start). rewrite map_length.
        apply FA_length. exact Hpts. }
  destruct Echunks as (-> & Lvo & Lao).
  exists voffs, aoffs, top. cbv zeta.
  set (vt := from_samples (vsamples w) voffs (spc_of w) (w_vlast_delta w)) in *.
  set (aud := aud_of w aoffs) in *.
  rewrite Efile in *.
  assert (Hread : read_tracks (flat_map enc top) = Some (top, tracks_of v vt aud (effective_config w) md)).
  { apply read_tracks_top; try assumption.
    destruct Hshape as [(_ & -> & _)|(P & _)]; [left; reflexivity|].
    destruct fs; destruct P as [-> _]; [right; left|right; right]; eexists; reflexivity. }
  split; [exact Hread|]. split; [exact TV|]. split; [exact TA|].
  assert (Hnv : len (vsamples w) < 4294967296).
  { destruct TV as ((Hn & _) & _). unfold vt, from_samples in Hn. cbn [st_sizes] in Hn.
    rewrite len_map in Hn. exact Hn. }
  assert (Htypes : Forall (fun x => length (b_typ x) = 4%nat) top).
  { destruct Hshape as [(_ & -> & _)|(P & _)]; [repeat constructor|].
    destruct fs; destruct P as [-> _]; repeat constructor. }
  pose proof (top_types_boxes top (boxes_small top Htypes Hlen)) as Htop.
  unfold vtrack. rewrite track_ranges.
  destruct Hshape as [(Efs & Etop & Evs & EA & Evo & Espc)|(Hplace & Hcase)].
  - (* ftyp moov *)
    assert (Eas : asamples w = []) by (unfold asamples; rewrite (SA EA); reflexivity).
    split; [rewrite Evs; reflexivity|]. split; [exact Lvo|]. split; [exact Lao|]. split.
    + apply L_none; try assumption.
      * unfold vt. rewrite Evo. apply ranges_empty.
      * unfold aud, aud_of. rewrite EA. reflexivity.
      * subst top. unfold moov_tree, node in *. apply mdat_range_no_mdat. exact Hlen.
    + rewrite Htop, Etop, Efs. unfold order_of. rewrite EA, Evs. reflexivity.
  - assert (Hplace' : mdat_placement top (moov_tree v vt aud (effective_config w) md) data start).
    { destruct fs; destruct Hplace as [E1 E2]; [right|left]; split; assumption. }
    assert (Horder : top_types (flat_map enc top) = order_of w fs).
    { rewrite Htop. unfold order_of. destruct fs; destruct Hplace as [-> _]; [reflexivity|].
      destruct Hcase as [(EA & _ & [(_ & _ & _ & Efs)|(Evs & _)])|(EA & _)].
      - discriminate.
      - rewrite EA. destruct (vsamples w); [congruence|reflexivity].
      - destruct (w_audio w); [reflexivity|congruence]. }
    clear Hplace. rename Hplace' into Hplace.
    unfold moov_tree, node in Hplace, Hlen.
    destruct (mdat_range_placed _ _ _ _ _ Hplace Hlen) as (Hrange & pre & post & Esplit & Hpre).
    fold (node T_moov [] (moov_kids v vt aud (effective_config w) md)) in Hplace, Hlen, Esplit, Hrange.
    fold (moov_tree v vt aud (effective_config w) md) in Hplace, Hlen, Esplit, Hrange.
    assert (Hstart : start + len data <= 4294967295).
    { rewrite Esplit, !len_app in Hlen. lia. }
    assert (Hst8 : 8 <= start).
    { destruct Hplace as [[_ ->]|[_ ->]]; lia. }
    assert (Hcount : len (vsamples w) < 4294967295).
    { pose proof (payload_sum_ge_len _ Pv) as G.
      destruct Hcase as [(_ & Edata & _)|(_ & _ & Edata & _)]; rewrite Edata in Hstart.
      - rewrite payload_sum_concat in Hstart. lia.
      - unfold sched_of in Hstart. rewrite sched_payload_sum in Hstart. lia. }
    split; [exact Hcount|]. split; [exact Lvo|]. split; [exact Lao|]. split; [|exact Horder].
    destruct Hcase as [(EA & Edata & Hvs)|(EA & Espc & Edata & Evo & Eao)].
    + (* single chunk *)
      assert (Eas : asamples w = []) by (unfold asamples; rewrite (SA EA); reflexivity).
      apply (L_single _ _ _ _ start pre post); try assumption.
      * unfold aud, aud_of. rewrite EA. reflexivity.
      * destruct Hvs as [(Evs & Evo & Espc & _)|(Evs & Evo & Espc)].
        -- unfold vt. rewrite Evo, Evs. reflexivity.
        -- unfold vt. rewrite Evo, Espc. apply ranges_single; try assumption. lia.
      * rewrite Esplit, Edata. reflexivity.
      * rewrite Hrange, Edata. reflexivity.
    + (* interleaved *)
      apply (L_inter _ _ _ _ start pre post); try assumption.
      * unfold vt. rewrite Espc, Evo.
        rewrite ranges_per_chunk; try assumption.
        -- apply FV_ranges. exact Hdts.
        -- unfold vo_of. fold (FV (vsamples w) (asamples w) start). rewrite map_length. apply FV_length. exact Hdts.
        -- apply (offsets_bounded (vsamples w) (asamples w) start is_video_entry 4294967295).
           rewrite Edata in Hstart. exact Hstart.
      * assert (Hex : exists a, w_audio w = Some a) by (destruct (w_audio w); [eauto|congruence]).
        destruct Hex as [a EAw].
        assert (Eaud : aud = Some (a, from_samples (asamples w) aoffs 1 (w_alast_delta w)))
          by (unfold aud, aud_of; rewrite EAw; reflexivity).
        rewrite Eaud in TA |- *. cbn [audio_ranges]. unfold atrack. rewrite track_ranges, Eao.
        assert (Hna : len (asamples w) < 4294967296).
        { destruct TA as ((Hn & _) & _). unfold from_samples in Hn. cbn [st_sizes] in Hn.
          rewrite len_map in Hn. exact Hn. }
        rewrite ranges_per_chunk; try assumption.
        -- apply FA_ranges. exact Hpts.
        -- unfold ao_of. fold (FA (vsamples w) (asamples w) start). rewrite map_length. apply FA_length. exact Hpts.
        -- apply (offsets_bounded (vsamples w) (asamples w) start is_audio_entry 4294967295).
           rewrite Edata in Hstart. exact Hstart.
      * rewrite Esplit, Edata. reflexivity.
      * rewrite Hrange, Edata. reflexivity.
Qed.

(** * Part 3: the state after a successful finish, with the plan's parameters explicit *)

Lemma reframe_id m : reframe m (m_fast m) (w_bytes_written (m_writer m)) (w_sink (m_writer m)) = m.
Proof. destruct m as [w ? ? ? ? ? ? ? ? ? ? ? ? ? ?]. destruct w. reflexivity. Qed.

Lemma step_fast m o : m_fast (fst (step m o)) = m_fast m.
Proof.
  destruct (op_fin_dec o) as [->|Hne].
  - destruct (fin_early m) eqn:E.
    + destruct (fin_step_early m E) as [e ->]. reflexivity.
    + destruct (fin_step_late m E) as (bw & s & r & -> & _). reflexivity.
  - pose proof (step_reframe m (m_fast m) (w_bytes_written (m_writer m)) (w_sink (m_writer m)) o Hne) as H.
    rewrite reframe_id in H. rewrite H. reflexivity.
Qed.

Lemma run_fast ops m : m_fast (fst (run m ops)) = m_fast m.
Proof.
  apply (run_preserves (fun m' => m_fast m' = m_fast m)); [|reflexivity].
  intros m' o H. rewrite step_fast. exact H.
Qed.

Lemma fin_ok_static m m1 st :
  step m FIN = (m1, RStats st) ->
  m_video m1 = m_video m /\ m_meta m1 = m_meta m /\ m_fast m1 = m_fast m.
Proof.
  intros ES. destruct (fin_early m) eqn:E.
  - destruct (fin_step_early m E) as [e E']. rewrite E' in ES. discriminate.
  - destruct (fin_step_late m E) as (bw & s & r & E' & _). rewrite E' in ES.
    injection ES as <- _. repeat split.
Qed.

(* [finished_gen] of EndToEndProofs.v with the witnesses named *)
Lemma finished_gen_x : forall ops m m' rs s,
  Inv m -> w_finalized (m_writer m) = false ->
  run m ops = (m', rs) -> In (RStats s) rs ->
  exists bufs, plan_of (m_writer m') (m_video m') (m_meta m') (m_fast m') = (bufs, None) /\
               sink_of m' = concat bufs.
Proof.
  induction ops as [|o t IH]; intros m m' rs s HI HF HR HIn; cbn [run] in HR.
  - inversion HR; subst. destruct HIn.
  - pose proof (step_Inv m o HI) as HI1.
    destruct (step m o) as [m1 r] eqn:ES. cbn [fst] in HI1.
    assert (Hstats : forall st, r = RStats st ->
              exists bufs, plan_of (m_writer m') (m_video m') (m_meta m') (m_fast m') = (bufs, None) /\
                           sink_of m' = concat bufs).
    { intros st ->.
      assert (o = FIN).
      { destruct o; try reflexivity; exfalso;
          eapply (step_not_stats m); try (rewrite ES; reflexivity); discriminate. }
      subst o.
      destruct (successful_finish_finishes _ _ _ ES) as [F1 F2].
      destruct (finish_ok_shape _ _ _ ES) as (w1 & Fz & Hw1 & _).
      destruct (finalize_ok_plan _ _ _ _ _ Fz) as (_ & bufs & bw & sk & Hplan & Hrun & Ew1).
      destruct HI as (Iscr & Iempty & _).
      destruct (run_plan_nil_script _ _ _ _ _ _ Iscr Hrun) as (_ & _ & Hbytes & _).
      destruct (Iempty HF) as (Hsink0 & _). rewrite Hsink0 in Hbytes. cbn [app] in Hbytes.
      destruct (run_finished_id t m1 F1 F2) as [Hid _].
      destruct (run m1 t) as [m2 rs2] eqn:ER. cbn [fst] in Hid. subst m2.
      injection HR as Hm Hrs. subst m'.
      destruct (fin_ok_static _ _ _ ES) as (-> & -> & ->).
      exists bufs. split.
      - rewrite Hw1, Ew1, plan_independent_of_sink. exact Hplan.
      - unfold sink_of. rewrite Hw1, Ew1. cbn [with_sink w_sink]. exact Hbytes. }
    destruct (w_finalized (m_writer m1)) eqn:HF1.
    + destruct (run_finalized t m1 HF1) as (_ & Kno).
      destruct r as [|st|e|p].
      * destruct (run m1 t) as [m2 rs2]. cbn [snd] in Kno. inversion HR; subst.
        destruct HIn as [H|H]; [discriminate|]. destruct (Kno s H).
      * apply (Hstats st eq_refl).
      * destruct (run m1 t) as [m2 rs2]. cbn [snd] in Kno. inversion HR; subst.
        destruct HIn as [H|H]; [discriminate|]. destruct (Kno s H).
      * inversion HR; subst. destruct HIn as [H|[]]. discriminate.
    + destruct r as [|st|e|p].
      * destruct (run m1 t) as [m2 rs2] eqn:ER. inversion HR; subst.
        destruct HIn as [H|H]; [discriminate|]. exact (IH m1 m' rs2 s HI1 HF1 ER H).
      * apply (Hstats st eq_refl).
      * destruct (run m1 t) as [m2 rs2] eqn:ER. inversion HR; subst.
        destruct HIn as [H|H]; [discriminate|]. exact (IH m1 m' rs2 s HI1 HF1 ER H).
      * inversion HR; subst. destruct HIn as [H|[]]. discriminate.
Qed.

Lemma finished_plan b m0 ops st :
  build b [] = inl m0 -> In (RStats st) (snd (run m0 ops)) ->
  let m := fst (run m0 ops) in
  exists bufs, plan_of (m_writer m) (m_video m) (m_meta m) (b_fast b) = (bufs, None) /\
               sink_of m = concat bufs.
Proof.
  intros Hb HIn m.
  destruct (build_initial _ _ Hb) as (_ & _ & _ & D & _).
  pose proof (Inv_reachable b m0 [] Hb) as HI. cbn [run fst] in HI.
  destruct (run m0 ops) as [m' rs] eqn:HR. cbn [snd] in HIn.
  destruct (finished_gen_x ops m0 m' rs st HI D HR HIn) as (bufs & Hplan & Hsink).
  assert (Ef : m_fast m' = b_fast b).
  { replace m' with (fst (run m0 ops)) by (rewrite HR; reflexivity). rewrite run_fast.
    unfold build in Hb. destruct (b_video b) as [[[c w] h]|]; [|discriminate].
    inversion Hb; reflexivity. }
  subst m. cbn [fst]. rewrite Ef in Hplan. exists bufs. split; assumption.
Qed.

(** * Part 4: the two readings agree on everything but the chunk offsets *)

Lemma track_same_intro f1 f2 t1 t2 :
  tr_handler t1 = tr_handler t2 -> b_payload (tr_entry t1) = b_payload (tr_entry t2) ->
  tr_entry_type t1 = tr_entry_type t2 -> tr_durations t1 = tr_durations t2 -> tr_cts t1 = tr_cts t2 ->
  track_samples f1 t1 = track_samples f2 t2 -> tr_tkhd t1 = tr_tkhd t2 -> tr_stsc t1 = tr_stsc t2 ->
  track_same f1 f2 t1 t2 = true.
Proof.
  intros E1 E2 E3 E4 E5 E6 E7 E8. unfold track_same.
  rewrite E1, E2, E3, E4, E5, E6, E7, E8.
  rewrite ?bytes_eqb_refl, ?listN_eqb_refl, samples_eqb_refl. cbn [andb].
  assert (Hcts : optZ_eqb (tr_cts t2) (tr_cts t2) = true).
  { unfold optZ_eqb. destruct (tr_cts t2); [apply listZ_eqb_refl|reflexivity]. }
  rewrite Hcts. cbn [andb].
  clear E8. induction (tr_stsc t2) as [|[[a b] c] l IH]; [reflexivity|].
  cbn [list_eqb fst snd]. rewrite !N.eqb_refl, IH. reflexivity.
Qed.

Lemma stsc_of_from_samples l o o' spc fb :
  length o = length o' -> stsc_of (from_samples l o spc fb) = stsc_of (from_samples l o' spc fb).
Proof.
  intros H. unfold stsc_of, from_samples. cbn [st_samples_per_chunk st_chunk_offsets].
  unfold len. rewrite H. reflexivity.
Qed.

Lemma video_samples_resolved w file v voffs spc c md Ra :
  WInv w -> KInv w ->
  Forall (fun s => 0 < len (s_data s)) (vsamples w) -> Forall (fun s => 0 < len (s_data s)) (asamples w) ->
  TabsOK (from_samples (vsamples w) voffs spc (w_vlast_delta w)) -> len (vsamples w) < 4294967295 ->
  Layout w file (tr_ranges (vtrack v (from_samples (vsamples w) voffs spc (w_vlast_delta w)) c md)) Ra ->
  track_samples file (vtrack v (from_samples (vsamples w) voffs spc (w_vlast_delta w)) c md) =
  map (fun s => (s_data s, s_key s)) (vsamples w).
Proof.
  intros HW HK Pv Pa TV Hcount HL.
  destruct (layout_slices w _ _ _ HW Pv Pa HL) as [SlV _].
  apply track_samples_eq.
  - rewrite SlV, map_map. reflexivity.
  - rewrite (map_map _ snd). cbn [snd].
    apply video_sync_flags; [exact TV|apply KInv_vsamples; exact HK| |exact Hcount].
    apply (f_equal (@length bytes)) in SlV. rewrite !map_length in SlV. exact SlV.
Qed.

Lemma audio_samples_resolved w file a aoffs md Rv :
  WInv w ->
  Forall (fun s => 0 < len (s_data s)) (vsamples w) -> Forall (fun s => 0 < len (s_data s)) (asamples w) ->
  Layout w file Rv (tr_ranges (atrack a (from_samples (asamples w) aoffs 1 (w_alast_delta w)) md)) ->
  track_samples file (atrack a (from_samples (asamples w) aoffs 1 (w_alast_delta w)) md) =
  map (fun s => (s_data s, true)) (asamples w).
Proof.
  intros HW Pv Pa HL.
  destruct (layout_slices w _ _ _ HW Pv Pa HL) as [_ SlA].
  apply track_samples_eq.
  - rewrite SlA, map_map. reflexivity.
  - rewrite (map_map _ snd). cbn [snd].
    transitivity (map (fun _ : N => true)
                    (map fst (enumerate1 1 (tr_ranges (atrack a (from_samples (asamples w) aoffs 1 (w_alast_delta w)) md))))).
    + apply map_ext. intros i. reflexivity.
    + apply map_const_length. rewrite map_length, length_enumerate1.
      apply (f_equal (@length bytes)) in SlA. rewrite !map_length in SlA. exact SlA.
Qed.

(* same queue, same chunking, different offsets: every compared field of the video track agrees *)
Lemma vtrack_same w f1 f2 v c md o1 o2 spc Ra1 Ra2 :
  WInv w -> KInv w ->
  Forall (fun s => 0 < len (s_data s)) (vsamples w) -> Forall (fun s => 0 < len (s_data s)) (asamples w) ->
  let t1 := from_samples (vsamples w) o1 spc (w_vlast_delta w) in
  let t2 := from_samples (vsamples w) o2 spc (w_vlast_delta w) in
  TabsOK t1 -> TabsOK t2 -> len (vsamples w) < 4294967295 -> length o1 = length o2 ->
  Layout w f1 (tr_ranges (vtrack v t1 c md)) Ra1 -> Layout w f2 (tr_ranges (vtrack v t2 c md)) Ra2 ->
  track_same f1 f2 (vtrack v t1 c md) (vtrack v t2 c md) &&
  (false || bytes_eqb (tr_mdhd (vtrack v t1 c md)) (tr_mdhd (vtrack v t2 c md))) = true.
Proof.
  intros HW HK Pv Pa t1 t2 T1 T2 Hcount Hlen L1 L2.
  rewrite track_same_intro; try reflexivity.
  - cbn [orb andb]. change (tr_mdhd (vtrack v t1 c md)) with (tr_mdhd (vtrack v t2 c md)). apply bytes_eqb_refl.
  - subst t1 t2.
    rewrite (video_samples_resolved w f1 v o1 spc c md Ra1), (video_samples_resolved w f2 v o2 spc c md Ra2);
      try assumption. reflexivity.
  - subst t1 t2. unfold vtrack, track_of_tables. cbn [tr_stsc]. apply stsc_of_from_samples. exact Hlen.
Qed.

Lemma atrack_same w f1 f2 a md o1 o2 Rv1 Rv2 :
  WInv w ->
  Forall (fun s => 0 < len (s_data s)) (vsamples w) -> Forall (fun s => 0 < len (s_data s)) (asamples w) ->
  let t1 := from_samples (asamples w) o1 1 (w_alast_delta w) in
  let t2 := from_samples (asamples w) o2 1 (w_alast_delta w) in
  length o1 = length o2 ->
  Layout w f1 Rv1 (tr_ranges (atrack a t1 md)) -> Layout w f2 Rv2 (tr_ranges (atrack a t2 md)) ->
  track_same f1 f2 (atrack a t1 md) (atrack a t2 md) &&
  (false || bytes_eqb (tr_mdhd (atrack a t1 md)) (tr_mdhd (atrack a t2 md))) = true.
Proof.
  intros HW Pv Pa t1 t2 Hlen L1 L2.
  rewrite track_same_intro; try reflexivity.
  - cbn [orb andb]. change (tr_mdhd (atrack a t1 md)) with (tr_mdhd (atrack a t2 md)). apply bytes_eqb_refl.
  - subst t1 t2.
    rewrite (audio_samples_resolved w f1 a o1 md Rv1), (audio_samples_resolved w f2 a o2 md Rv2);
      try assumption. reflexivity.
  - subst t1 t2. unfold atrack, track_of_tables. cbn [tr_stsc]. apply stsc_of_from_samples. exact Hlen.
Qed.

(** * Part 5: C08 *)

(* the two plans of one finalized writer *)
Lemma two_plans_C08 w v md bufs1 bufs2 :
  WInv w -> KInv w -> SInv w ->
  plan_of w v md true = (bufs1, None) -> plan_of w v md false = (bufs2, None) ->
  len (concat bufs1) < 4294967296 -> len (concat bufs2) < 4294967296 ->
  check_C08 (negb (match vsamples w ++ asamples w with [] => true | _ => false end))
            (concat bufs1) (concat bufs2) = true.
Proof.
  intros HW HK HS P1 P2 Hl1 Hl2.
  destruct (plan_layout w v md true bufs1 HW HS P1 Hl1)
    as (vo1 & ao1 & top1 & R1 & TV1 & TA1 & C1 & Lv1 & La1 & Lay1 & O1).
  destruct (plan_layout w v md false bufs2 HW HS P2 Hl2)
    as (vo2 & ao2 & top2 & R2 & TV2 & TA2 & C2 & Lv2 & La2 & Lay2 & O2).
  cbv zeta in *.
  destruct HS as [[Sv Sa] SA].
  pose proof (samples_pos _ Sv) as Pv. pose proof (samples_pos _ Sa) as Pa.
  fold (vsamples w) in Pv. fold (asamples w) in Pa.
  assert (Hmedia : same_media false (concat bufs1) (concat bufs2) = true).
  { unfold same_media. rewrite R1, R2. unfold tracks_of. cbn [list_eqb].
    rewrite (vtrack_same w (concat bufs1) (concat bufs2) v (effective_config w) md vo1 vo2 (spc_of w)
               (audio_ranges (aud_of w ao1) md) (audio_ranges (aud_of w ao2) md));
      try assumption; [|congruence].
    cbn [andb]. unfold aud_of in *.
    destruct (w_audio w) as [a|] eqn:EA; cbn [list_eqb]; [|reflexivity].
    cbn [audio_ranges] in Lay1, Lay2.
    assert (Hla : length ao1 = length ao2) by (rewrite La1, La2 by discriminate; reflexivity).
    rewrite (atrack_same w (concat bufs1) (concat bufs2) a md ao1 ao2 _ _ HW Pv Pa Hla Lay1 Lay2).
    reflexivity. }
  unfold check_C08. rewrite O1, O2, Hmedia, andb_true_r.
  unfold order_of.
  change (list_eqb bytes_eqb [T_FTYP; T_MOOV; T_MDAT] [T_FTYP; T_MOOV; T_MDAT]) with true. cbn [andb].
  destruct (w_audio w) as [a|] eqn:EA; [reflexivity|].
  assert (Eas : asamples w = []) by (unfold asamples; rewrite (SA EA); reflexivity).
  rewrite Eas, app_nil_r.
  destruct (vsamples w); reflexivity.
Qed.

(* F2 without the payload side condition, which the argument never needs *)
Lemma fast_start_changes_only_the_layout_gen : forall b m_on m_off ops s_on s_off,
  build (with_fast b true) [] = inl m_on -> build (with_fast b false) [] = inl m_off ->
  In (RStats s_on) (snd (run m_on ops)) -> In (RStats s_off) (snd (run m_off ops)) ->
  len (sink_of (fst (run m_on ops))) < 4294967296 -> len (sink_of (fst (run m_off ops))) < 4294967296 ->
  check_C08 (negb (match vsamples (m_writer (fst (run m_on ops))) ++ asamples (m_writer (fst (run m_on ops))) with [] => true | _ => false end))
            (sink_of (fst (run m_on ops))) (sink_of (fst (run m_off ops))) = true.
Proof.
  intros b m_on m_off ops s_on s_off Hb1 Hb2 I1 I2 Hl1 Hl2.
  destruct (R_run_ok ops m_on m_off s_on s_off (R_build b m_on m_off Hb1 Hb2) I1 I2) as [(f & bw & s & E2) _].
  destruct (finished_plan _ _ _ _ Hb1 I1) as (bufs1 & P1 & S1).
  destruct (finished_plan _ _ _ _ Hb2 I2) as (bufs2 & P2 & S2).
  cbn [with_fast b_fast] in P1, P2.
  pose proof (WK_reachable _ [] m_on ops Hb1) as [HW HK].
  pose proof (SInv_reachable _ [] m_on ops Hb1) as HS.
  set (M1 := fst (run m_on ops)) in *.
  rewrite E2 in P2. cbn [reframe m_writer m_video m_meta] in P2. unfold wre in P2.
  rewrite plan_independent_of_sink in P2.
  rewrite S1 in *. rewrite S2 in *.
  apply (two_plans_C08 (m_writer M1) (m_video M1) (m_meta M1)); assumption.
Qed.

(** * F2: C08 *)
Theorem fast_start_changes_only_the_layout : forall b m_on m_off ops s_on s_off,
  build (with_fast b true) [] = inl m_on -> build (with_fast b false) [] = inl m_off ->
  In (RStats s_on) (snd (run m_on ops)) -> In (RStats s_off) (snd (run m_off ops)) ->
  Forall op_payload_ok ops ->
  len (sink_of (fst (run m_on ops))) < 4294967296 -> len (sink_of (fst (run m_off ops))) < 4294967296 ->
  check_C08 (negb (match vsamples (m_writer (fst (run m_on ops))) ++ asamples (m_writer (fst (run m_on ops))) with [] => true | _ => false end))
            (sink_of (fst (run m_on ops))) (sink_of (fst (run m_off ops))) = true.
Proof.
  intros b m_on m_off ops s_on s_off Hb1 Hb2 I1 I2 _ Hl1 Hl2.
  exact (fast_start_changes_only_the_layout_gen b m_on m_off ops s_on s_off Hb1 Hb2 I1 I2 Hl1 Hl2).
Qed.
Print Assumptions fast_start_changes_only_the_layout.

(** * Part 6: why F1 needs a hypothesis — a history on which the two runs end in different classes *)

Definition cex_hdr (r : bytes) : bytes := 73 :: 131 :: 66 :: 0 :: 0 :: 16 :: 16 :: 0 :: 0 :: 0 :: r.
(* one VP9 key frame of 4294967270 bytes *)
Definition cex_data : bytes := cex_hdr (repeat 0 (N.to_nat 4294967260)).
Definition cex_builder : builder :=
  {| b_video := Some (Vp9, 16, 16); b_audio := Some (Opus, 48000, 2); b_meta := None; b_fast := true;
     b_sps := None; b_pps := None; b_vps := None; b_av1 := None; b_vp9 := None |}.
Definition cex_ops : list op := [WV 0 cex_data true; FIN].
Definition cex_cfg : vp9_config :=
  {| vp9_width := 16; vp9_height := 16; vp9_profile := 0; vp9_bit_depth := 8; vp9_color_space := 0;
     vp9_transfer_function := 0; vp9_matrix_coefficients := 0; vp9_level := 0; vp9_full_range_flag := 0 |}.

Lemma len_repeat {A} (x : A) n : len (repeat x n) = N.of_nat n.
Proof. unfold len. rewrite repeat_length. reflexivity. Qed.

Lemma len_cex_data : len cex_data = 4294967270.
Proof. unfold cex_data, cex_hdr. rewrite !len_cons, len_repeat, N2Nat.id. reflexivity. Qed.

Lemma cex_extract r : extract_vp9_config (cex_hdr r) = Some cex_cfg.
Proof.
  assert (H : len (cex_hdr r) <? 6 = false) by (unfold cex_hdr; rewrite !len_cons; lia).
  unfold extract_vp9_config. rewrite H. vm_compute. reflexivity.
Qed.

Definition cex_track : audio_track := {| at_sample_rate := 48000; at_channels := 2; at_codec := Opus |}.
Definition cex_sample (d : bytes) : sample :=
  {| s_pts := 0; s_dts := 0; s_data := d; s_key := true; s_dur := None |}.

(* the state after the frame was accepted *)
Definition CexState (f : bool) (d : bytes) (m : muxer) : Prop :=
  m_finished m = false /\ m_fast m = f /\ m_video m = {| vt_width := 16; vt_height := 16 |} /\
  w_finalized (m_writer m) = false /\ w_audio (m_writer m) = Some cex_track /\
  w_vrev (m_writer m) = [cex_sample d] /\ w_arev (m_writer m) = [] /\
  w_vlast_delta (m_writer m) = None /\ w_alast_delta (m_writer m) = None /\
  sk_script (w_sink (m_writer m)) = [] /\
  param_sets_too_long (w_vconfig (m_writer m)) = false.

Lemma cex_step1 f m0 :
  build (with_fast cex_builder f) [] = inl m0 ->
  exists m1, step m0 (WV 0 cex_data true) = (m1, ROk) /\ CexState f cex_data m1.
Proof.
  intros Hb. unfold build, with_fast, cex_builder in Hb. cbn [b_video b_audio b_meta b_fast audio_of] in Hb.
  inversion Hb; subst m0; clear Hb.
  cbn [step]. unfold write_video.
  cbn [m_vcount m_last_vpts m_writer opt_cmp].
  assert (Hd : exists x d', cex_data = x :: d') by (unfold cex_data, cex_hdr; eauto).
  destruct Hd as (x & d' & Hd). rewrite Hd. rewrite <- Hd.
  replace (is_finite (decode64 0)) with true by (vm_compute; reflexivity).
  replace (fltb (decode64 0) f_zero) with false by (vm_compute; reflexivity).
  replace (tick (decode64 0)) with 0 by (vm_compute; reflexivity).
  cbn [negb].
  unfold write_video_sample, write_video_sample_with_dts, writer_new.
  cbn [w_finalized w_vprev w_codec w_vrev w_vlast_delta negb].
  replace (cts_fits 0 0) with true by (vm_compute; reflexivity). cbn [negb].
  unfold extract_config. unfold cex_data at 1. rewrite cex_extract. cbn [opt_map].
  unfold push_video. cbn [w_codec convert_video]. rewrite len_cex_data.
  replace (U32MAX <? 4294967270) with false by reflexivity.
  cbn [lift]. eexists. split; [reflexivity|].
  unfold CexState, set_video_ok.
  cbn [m_finished m_fast m_video m_writer w_finalized w_audio w_vrev w_arev w_vlast_delta w_alast_delta
       w_sink sk_script w_vconfig].
  repeat split.
Qed.

Section CexFinish.
  Variable d : bytes.
  Hypothesis Hd : len d = 4294967270.

  Lemma cex_payload : payload_sum [cex_sample d] = 4294967270.
  Proof. unfold payload_sum. cbn [map cex_sample s_data]. rewrite Hd. reflexivity. Qed.

  Lemma cex_sched : compute_interleave_schedule [cex_sample d] [] = [(0, KVideo, 0%nat)].
  Proof. reflexivity. Qed.

  (* standard layout: the u32 cursor of the interleaved pass overflows after the frame was written *)
  Lemma cex_fin_std m : CexState false d m -> exists m', step m FIN = (m', RPanic PanicCursorOverflow).
  Proof.
    intros (Hfin & Hfast & Hvid & Hz & Ha & Hv & Har & Hvl & Hal & Hs & Hps).
    cbn [step]. unfold finish_in_place_with_stats. rewrite Hfin, Hfast. unfold finalize. rewrite Hz, Hvid.
    cbn [vt_width vt_height].
    replace ((U16MAX <? 16) || (U16MAX <? 16)) with false by reflexivity. rewrite Hps.
    unfold finalize_standard. cbv zeta. unfold vsamples, asamples. rewrite Ha, Hv, Har. cbn [rev app].
    rewrite cex_payload. change (payload_sum []) with 0.
    replace (U32MAX <? 8 + 4294967270 + 0) with false by reflexivity.
    rewrite cex_sched. cbn [walk_std sched_data sample_at nth_error cex_sample s_data fst snd].
    rewrite Hd, len_ftyp_box.
    replace (U32MAX <? 24 + 8 + u32 4294967270) with true by reflexivity.
    cbn [negb rev app].
    match goal with |- context [run_plan ?b ?x ?y] => destruct (run_plan b x y) as [[bw s] e] eqn:RP end.
    destruct (run_plan_nil_script _ _ _ _ _ _ Hs RP) as (-> & _).
    eexists. reflexivity.
  Qed.

  Lemma cex_moov v o ao c md :
    exists b, moov_of v (from_samples [cex_sample d] o 1 None)
                (Some (cex_track, from_samples [] ao 1 None)) c md = inl b.
  Proof.
    unfold moov_of.
    replace (U64MAX <? total_duration (from_samples [cex_sample d] o 1 None) * MOVIE_TIMESCALE) with false
      by reflexivity.
    unfold has_zero_size, from_samples. cbn [st_sizes map existsb cex_sample s_data]. rewrite Hd.
    replace (u32 4294967270 =? 0) with false by reflexivity. cbn [orb]. eauto.
  Qed.

  (* fast start: no panic site is reachable *)
  Lemma cex_fin_fast m : CexState true d m -> forall m' p, step m FIN <> (m', RPanic p).
  Proof.
    intros (Hfin & Hfast & Hvid & Hz & Ha & Hv & Har & Hvl & Hal & Hs & Hps) m' p.
    cbn [step]. unfold finish_in_place_with_stats. rewrite Hfin, Hfast. unfold finalize. rewrite Hz, Hvid.
    cbn [vt_width vt_height].
    replace ((U16MAX <? 16) || (U16MAX <? 16)) with false by reflexivity. rewrite Hps.
    unfold finalize_fast_start. cbv zeta. unfold vsamples, asamples. rewrite Ha, Hv, Har, Hvl, Hal. cbn [rev app].
    rewrite cex_payload. change (payload_sum []) with 0.
    replace (U32MAX <? 8 + 4294967270 + 0) with false by reflexivity.
    rewrite cex_sched. cbn [placeholder_offsets fst snd].
    destruct (cex_moov (m_video m) [0] [] (effective_config (m_writer m)) (m_meta m)) as [pm EPM].
    rewrite Hvid in EPM. rewrite EPM.
    destruct (walk_offsets [cex_sample d] [] [(0, KVideo, 0%nat)] (len build_ftyp_box + len pm + 8))
      as [vo ao|].
    - destruct (cex_moov {| vt_width := 16; vt_height := 16 |} vo ao
                  (effective_config (m_writer m)) (m_meta m)) as [mv EM].
      rewrite EM.
      match goal with |- context [run_plan ?b ?x ?y] => destruct (run_plan b x y) as [[bw s] e] eqn:RP end.
      destruct (run_plan_nil_script _ _ _ _ _ _ Hs RP) as (-> & _). discriminate.
    - match goal with |- context [run_plan ?b ?x ?y] => destruct (run_plan b x y) as [[bw s] e] eqn:RP end.
      destruct (run_plan_nil_script _ _ _ _ _ _ Hs RP) as (-> & _). discriminate.
  Qed.
End CexFinish.

(* F1 as stated is false: same configuration, same calls, different outcome classes *)
Theorem fast_start_does_not_change_results_counterexample :
  exists b m_on m_off ops,
    build (with_fast b true) [] = inl m_on /\ build (with_fast b false) [] = inl m_off /\
    map class_of (snd (run m_on ops)) <> map class_of (snd (run m_off ops)).
Proof.
  destruct (build (with_fast cex_builder true) []) as [m_on|e] eqn:B1; [|discriminate].
  destruct (build (with_fast cex_builder false) []) as [m_off|e] eqn:B2; [|discriminate].
  exists cex_builder, m_on, m_off, cex_ops. split; [exact B1|]. split; [exact B2|].
  destruct (cex_step1 true m_on B1) as (a1 & Ea & Sa).
  destruct (cex_step1 false m_off B2) as (b1 & Eb & Sb).
  destruct (cex_fin_std cex_data len_cex_data b1 Sb) as (b2 & Eb2).
  pose proof (cex_fin_fast cex_data len_cex_data a1 Sa) as Hna.
  unfold cex_ops. rewrite !run_cons, Ea, Eb. cbn [fst snd]. rewrite Eb2. cbn [fst snd].
  destruct (step a1 FIN) as [a2 r] eqn:Ea2. cbn [fst snd].
  destruct r as [|st|e|p]; cbn [run fst snd map class_of]; try discriminate.
  exfalso. exact (Hna a2 p eq_refl).
Qed.
Print Assumptions fast_start_does_not_change_results_counterexample.
