(** Facts about the model of src/validation.rs (Model/Validation.v). *)
From Coq Require Import Lia ZifyN ZifyNat ZifyBool.
From Muxide Require Import Model.Base Model.Adts Model.Codec Model.Boxes Model.F64 Model.Validation.
Open Scope N_scope.

(** * the validity flag is exactly "no error was recorded" *)
Definition coherent (r : vresult) : Prop := vr_valid r = true <-> vr_errors r = [].

Lemma coherent_ok : coherent vr_ok.
Proof. unfold coherent; cbn; tauto. Qed.
Lemma coherent_message r c : coherent r -> coherent (with_message r c).
Proof. unfold coherent, with_message; cbn; tauto. Qed.
Lemma coherent_error r c : coherent (with_error r c).
Proof.
  unfold coherent, with_error; cbn. split; [discriminate|].
  intros H. destruct (vr_errors r); discriminate H.
Qed.
Lemma coherent_merge r s : coherent r -> coherent s -> coherent (merge r s).
Proof.
  unfold coherent, merge; cbn. intros [A B] [C D]. split.
  - intros H. apply andb_prop in H. destruct H as [H1 H2]. rewrite (A H1), (C H2). reflexivity.
  - intros H. apply app_eq_nil in H. destruct H as [H1 H2]. rewrite (B H1), (D H2). reflexivity.
Qed.

Ltac coh := repeat first [ apply coherent_error | apply coherent_message | apply coherent_ok
                         | apply coherent_merge ].

Lemma video_config_coherent c w h f : coherent (validate_video_config c w h f).
Proof.
  unfold validate_video_config.
  repeat match goal with |- context [if ?b then _ else _] => destruct b end; coh.
Qed.

Lemma audio_config_coherent c sr ch : coherent (validate_audio_config c sr ch).
Proof.
  unfold validate_audio_config. destruct c;
  repeat match goal with |- context [if ?b then _ else _] => destruct b end; coh.
Qed.

Lemma video_frame_coherent c d k : coherent (validate_video_frame c d k).
Proof.
  unfold validate_video_frame. destruct d; [coh|].
  repeat match goal with |- context [if ?b then _ else _] => destruct b end; coh.
Qed.

Lemma audio_frame_coherent c d : coherent (validate_audio_frame c d).
Proof.
  unfold validate_audio_frame. destruct d as [|b0 d]; [coh|].
  destruct c.
  - destruct (len (b0 :: d) <? 7); [coh|]. destruct d; [coh|].
    match goal with |- context [if ?b then _ else _] => destruct b end; coh.
  - destruct (is_valid_opus_packet (b0 :: d)); coh.
  - coh.
Qed.

Lemma muxing_config_coherent v a : coherent (validate_muxing_config v a).
Proof.
  unfold validate_muxing_config.
  assert (C1 : coherent
    match vv_codec v, vv_width v, vv_height v, vv_framerate v with
    | Some vc, Some w, Some h, Some fps =>
        let r := merge vr_ok (validate_video_config vc w h fps) in
        match vv_frame v with
        | Some (d, k) => merge r (validate_video_frame vc d k)
        | None => r
        end
    | Some _, _, _, _ => with_error vr_ok E_V_MISSING
    | None, _, _, _ => vr_ok
    end).
  { destruct (vv_codec v); [|coh]. destruct (vv_width v); [|coh]. destruct (vv_height v); [|coh].
    destruct (vv_framerate v); [|coh]. cbv zeta. destruct (vv_frame v) as [[d k]|]; coh;
    first [apply video_config_coherent | apply video_frame_coherent]. }
  set (r1 := match vv_codec v, vv_width v, vv_height v, vv_framerate v with
             | Some vc, Some w, Some h, Some fps => _ | Some _, _, _, _ => _ | None, _, _, _ => _ end) in *.
  clearbody r1.
  assert (C2 : coherent
    match av_codec a, av_rate a, av_channels a with
    | Some ac, Some sr, Some ch =>
        let r := merge r1 (validate_audio_config ac sr ch) in
        match av_frame a with
        | Some d => merge r (validate_audio_frame ac d)
        | None => r
        end
    | Some ac, _, _ => match ac with NoAudio => r1 | _ => with_error r1 E_A_MISSING end
    | None, _, _ => r1
    end).
  { destruct (av_codec a) as [ac|]; [|exact C1].
    destruct (av_rate a); [|destruct ac; coh; exact C1].
    destruct (av_channels a); [|destruct ac; coh; exact C1].
    cbv zeta. destruct (av_frame a); coh; first [exact C1 | apply audio_config_coherent | apply audio_frame_coherent]. }
  set (r2 := match av_codec a, av_rate a, av_channels a with
             | Some ac, Some sr, Some ch => _ | Some ac, _, _ => _ | None, _, _ => _ end) in *.
  clearbody r2.
  destruct (vv_codec v); [exact C2|]. destruct (is_none_codec (av_codec a)); [coh|exact C2].
Qed.

(* every validation function reports through its result: the flag is false exactly when an error
   text was recorded *)
Theorem validation_flag_is_no_errors :
  (forall c w h f, coherent (validate_video_config c w h f)) /\
  (forall c sr ch, coherent (validate_audio_config c sr ch)) /\
  (forall c d k, coherent (validate_video_frame c d k)) /\
  (forall c d, coherent (validate_audio_frame c d)) /\
  (forall v a, coherent (validate_muxing_config v a)).
Proof.
  repeat split; first [apply video_config_coherent | apply audio_config_coherent
    | apply video_frame_coherent | apply audio_frame_coherent | apply muxing_config_coherent
    | apply (proj2 (video_config_coherent _ _ _ _)) | idtac].
  all: try (intros H; first [ apply (proj1 (video_config_coherent _ _ _ _)) in H
                            | apply (proj2 (video_config_coherent _ _ _ _)) in H ]; exact H).
Qed.
Print Assumptions validation_flag_is_no_errors.

(** * consistency with the muxer's own framing checks *)
Lemma sync_sweep :
  forallb (fun b0 => forallb (fun b1 =>
    Bool.eqb (N.lor (N.shiftl b0 4) (shr b1 4) =? 4095) ((b0 =? 255) && (N.land b1 240 =? 240)))
    (map N.of_nat (seq 0 256))) (map N.of_nat (seq 0 256)) = true.
Proof. vm_compute. reflexivity. Qed.

Lemma in_bytes_seq x : x < 256 -> In x (map N.of_nat (seq 0 256)).
Proof.
  intros H. apply in_map_iff. exists (N.to_nat x). split; [lia|]. apply in_seq. lia.
Qed.

Lemma sync_spec b0 b1 : b0 < 256 -> b1 < 256 ->
  (N.lor (N.shiftl b0 4) (shr b1 4) =? 4095) = ((b0 =? 255) && (N.land b1 240 =? 240)).
Proof.
  intros H0 H1. pose proof sync_sweep as S. rewrite forallb_forall in S.
  specialize (S b0 (in_bytes_seq b0 H0)). rewrite forallb_forall in S.
  specialize (S b1 (in_bytes_seq b1 H1)). apply Bool.eqb_prop in S. exact S.
Qed.

(* whatever ADTS frame the muxer accepts passes the (weaker) validation of the frame *)
Theorem accepted_adts_frame_validates : forall p d raw,
  bytes_ok d = true -> adts_to_raw d = AdtsOk raw -> vr_valid (validate_audio_frame (Aac p) d) = true.
Proof.
  intros p d raw Hb H. unfold adts_to_raw in H.
  destruct d as [|b0 [|b1 [|b2 [|b3 [|b4 [|b5 [|b6 t]]]]]]]; try discriminate H.
  unfold bytes_ok in Hb. cbn [forallb] in Hb.
  apply andb_prop in Hb. destruct Hb as [Hb0 Hb]. apply andb_prop in Hb. destruct Hb as [Hb1 _].
  destruct (N.lor (N.shiftl b0 4) (shr b1 4) =? 4095) eqn:Es; cbn [negb] in H; [|discriminate H].
  rewrite sync_spec in Es by lia. apply andb_prop in Es. destruct Es as [E0 E1].
  unfold validate_audio_frame.
  replace (len (b0 :: b1 :: b2 :: b3 :: b4 :: b5 :: b6 :: t) <? 7) with false.
  2:{ symmetry. apply N.ltb_ge. unfold len. cbn [length]. lia. }
  rewrite E0, E1. reflexivity.
Qed.
Print Assumptions accepted_adts_frame_validates.

Theorem opus_validation_is_the_muxers_check : forall d,
  vr_valid (validate_audio_frame Opus d) = is_valid_opus_packet d.
Proof.
  intros d. unfold validate_audio_frame. destruct d as [|b0 d]; [reflexivity|].
  destruct (is_valid_opus_packet (b0 :: d)); reflexivity.
Qed.
Print Assumptions opus_validation_is_the_muxers_check.

(* a valid overall configuration has at least one stream, and whatever is fully specified is in range *)
Theorem valid_muxing_config_has_a_stream : forall v a,
  vr_valid (validate_muxing_config v a) = true ->
  vv_codec v <> None \/ is_none_codec (av_codec a) = false.
Proof.
  intros v a H. destruct (vv_codec v) eqn:Ev; [left; discriminate|]. right.
  destruct (is_none_codec (av_codec a)) eqn:En; [|reflexivity].
  unfold validate_muxing_config in H. rewrite Ev, En in H. cbn in H. discriminate H.
Qed.
Print Assumptions valid_muxing_config_has_a_stream.

Theorem valid_video_config_is_in_range : forall c w h f,
  vr_valid (validate_video_config c w h f) = true ->
  320 <= w <= 4096 /\ 240 <= h <= 2160 /\ fleb f f_zero = false /\ fltb f_120 f = false.
Proof.
  intros c w h f H. unfold validate_video_config in H.
  destruct ((w =? 0) || (h =? 0)) eqn:E1.
  { destruct (fleb f f_zero); [discriminate H|]. destruct (fltb f_120 f); discriminate H. }
  destruct ((4096 <? w) || (2160 <? h)) eqn:E2.
  { destruct (fleb f f_zero); [discriminate H|]. destruct (fltb f_120 f); discriminate H. }
  destruct ((w <? 320) || (h <? 240)) eqn:E3.
  { destruct (fleb f f_zero); [discriminate H|]. destruct (fltb f_120 f); discriminate H. }
  destruct (fleb f f_zero) eqn:E4; [discriminate H|]. destruct (fltb f_120 f) eqn:E5; [discriminate H|].
  lia.
Qed.
Print Assumptions valid_video_config_is_in_range.
