(** End-to-end statements: for every configuration and every call history of the
    model that finishes successfully on a fault-free sink, the decision
    predicates of Spec/Checks.v evaluated on the model's own output file are true.

    E0 [accepted_matches_queues], E2 [finished_file_timing_is_exact] (C03),
    E1 [finished_file_resolves_to_submitted_samples] (C01),
    E3 [finished_file_storage_order] (C15). *)
From Coq Require Import Lia ZifyN ZifyNat ZifyBool.
From Coq Require Import Sorting.Sorted Sorting.Permutation.
From Muxide Require Import Model.Base Model.Annexb Model.Adts Model.Codec Model.Boxes Model.F64 Model.Writer Model.Api
  Spec.Bmff Spec.Reader Spec.NalSplit Spec.Layout Spec.Contract Spec.Checks
  Proofs.BaseProofs Proofs.TableProofs Proofs.ApiProofs Proofs.AnnexbProofs Proofs.AdtsProofs
  Proofs.SinkProofs Proofs.MoovProofs Proofs.FinishProofs
  Proofs.LayoutProofs Proofs.TimingProofs Proofs.FieldProofs Proofs.ContractProofs Proofs.StructureProofs.
Open Scope N_scope.
Ltac Zify.zify_post_hook ::= Z.div_mod_to_equations.

Local Arguments N.add : simpl never.
Local Arguments N.sub : simpl never.
Local Arguments N.mul : simpl never.
Local Arguments N.div : simpl never.
Local Arguments N.modulo : simpl never.
Local Arguments N.eqb : simpl never.
Local Arguments N.ltb : simpl never.
Local Arguments N.leb : simpl never.

Definition class_of (r : result) : rclass :=
  match r with ROk | RStats _ => COk | RErr _ => CErr | RPanic _ => CPanic end.

Definition op_payload_ok (o : op) : Prop :=
  match o with
  | WV _ d _ | WVD _ _ d _ | WA _ d | EV d _ | EA d _ => bytes_ok d = true /\ len d < 2147483646
  | FIN => True
  end.

(** * Part 0: conversions agree with the declarative framing *)

Lemma annexb_to_avcc_frames d :
  annexb_to_avcc d = concat (map (fun u => be32 (len u) ++ u) (spec_payloads d)).
Proof.
  unfold annexb_to_avcc, spec_payloads. rewrite nal_iter_is_spec_units.
  change nonempty with nonempty_b.
  destruct (filter nonempty_b (spec_units d)) as [|u us] eqn:EU.
  - change (len_prefixed []) with (@nil byte). destruct d as [|x d']; [reflexivity|].
    cbn [map concat]. rewrite app_nil_r. reflexivity.
  - fold (len_prefixed (u :: us)).
    destruct (len_prefixed (u :: us)) as [|y ys] eqn:EL.
    + exfalso. rewrite len_prefixed_cons in EL. apply (f_equal (@length byte)) in EL.
      rewrite !app_length, be32_length in EL. cbn [length] in EL. lia.
    + destruct d; reflexivity.
Qed.

Lemma convert_video_is_frame_video codec d : convert_video codec d = frame_video codec d.
Proof.
  destruct codec; cbn [convert_video frame_video]; unfold hevc_annexb_to_hvcc;
    try apply annexb_to_avcc_frames; reflexivity.
Qed.

Lemma detect_key_is_c codec n d : detect_key codec n d = detect_key_c codec n d.
Proof. reflexivity. Qed.

Lemma api_keyframe_is_detect_key m d :
  api_is_keyframe m d = detect_key (m_codec m) (m_vcount m) d.
Proof. rewrite detect_key_is_c. apply api_keyframe_is_detect. Qed.
(** * Part 1 (E0): simulation between the spec-level replay and the muxer *)

Definition vproj (s : sample) := (s_pts s, s_dts s, s_data s, s_key s).
Definition aproj (s : sample) := (s_pts s, s_data s).
Definition vexp (c : video_codec) (f : vframe) := (vf_pts f, vf_dts f, frame_video c (vf_data f), vf_key f).
Definition aexp (a : option audio_track) (f : aframe) :=
  (af_pts f, match a with Some a => frame_audio a (af_data f) | None => [] end).

Lemma map_vproj_set_last_dur l d : map vproj (set_last_dur l d) = map vproj l.
Proof. destruct l; reflexivity. Qed.
Lemma map_aproj_set_last_dur l d : map aproj (set_last_dur l d) = map aproj l.
Proof. destruct l; reflexivity. Qed.
Lemma length_set_last_dur l d : length (set_last_dur l d) = length l.
Proof. destruct l; reflexivity. Qed.

Lemma wvs_ok_shape w pts dts d k w' :
  write_video_sample_with_dts w pts dts d k = inl w' ->
  exists vrev0, map vproj vrev0 = map vproj (w_vrev w) /\ length vrev0 = length (w_vrev w) /\
    w_vrev w' = {| s_pts := pts; s_dts := dts; s_data := convert_video (w_codec w) d; s_key := k; s_dur := None |} :: vrev0 /\
    w_arev w' = w_arev w /\ w_codec w' = w_codec w /\ w_audio w' = w_audio w.
Proof.
  unfold write_video_sample_with_dts, push_video. intros H.
  destruct (w_finalized w); [discriminate|].
  destruct (negb (cts_fits pts dts)); [discriminate|].
  destruct (w_vprev w) as [prev|].
  - destruct (dts <=? prev); [discriminate|].
    destruct (U32MAX <? dts - prev); [discriminate|].
    destruct (U32MAX <? len (convert_video (w_codec w) d)); [discriminate|].
    inversion H; subst w'; clear H. cbn [w_vrev w_arev w_codec w_audio].
    eexists. split; [apply map_vproj_set_last_dur|]. split; [apply length_set_last_dur|].
    repeat split; reflexivity.
  - destruct (negb k); [discriminate|].
    destruct (extract_config (w_codec w) d); [|discriminate].
    destruct (U32MAX <? len (convert_video (w_codec w) d)); [discriminate|].
    inversion H; subst w'; clear H. cbn [w_vrev w_arev w_codec w_audio].
    eexists. split; [reflexivity|]. split; [reflexivity|]. repeat split; reflexivity.
Qed.

Lemma was_ok_shape w pts d w' :
  bytes_ok d = true ->
  write_audio_sample w pts d = inl w' ->
  exists arev0 a, map aproj arev0 = map aproj (w_arev w) /\ w_audio w = Some a /\
    w_arev w' = {| s_pts := pts; s_dts := pts; s_data := frame_audio a d; s_key := false; s_dur := None |} :: arev0 /\
    w_vrev w' = w_vrev w /\ w_codec w' = w_codec w /\ w_audio w' = w_audio w.
Proof.
  intros Hb. unfold write_audio_sample. intros H.
  destruct (w_finalized w); [discriminate|].
  destruct (w_audio w) as [track|] eqn:EA; [|discriminate].
  cbv zeta in H.
  set (timing := match w_aprev w with
                 | Some prev => if pts <? prev then inr NonIncreasingTimestamp
                                else if U32MAX <? pts - prev then inr DurationOverflow else inl (Some (pts - prev))
                 | None => inl None end) in H.
  destruct timing as [pending|e]; [|discriminate].
  assert (P : forall sd,
             match at_codec track with
             | Aac _ => match adts_to_raw d with AdtsOk raw => inl raw | AdtsErr e => inr (InvalidAdtsDetailed e) end
             | Opus => if is_valid_opus_packet d then inl d else inr InvalidOpusPacket
             | NoAudio => inr AudioNotEnabled
             end = inl sd -> sd = frame_audio track d).
  { intros sd. unfold frame_audio. destruct (at_codec track) as [p| |].
    - pose proof (adts_to_raw_is_spec d Hb) as S. destruct (adts_to_raw d) as [raw|e]; [|discriminate].
      rewrite S. intros E; inversion E; reflexivity.
    - destruct (is_valid_opus_packet d); [|discriminate]. intros E; inversion E; reflexivity.
    - discriminate. }
  destruct (match at_codec track with Aac _ => _ | Opus => _ | NoAudio => _ end) as [sd|e]; [|discriminate].
  specialize (P sd eq_refl). subst sd.
  destruct (U32MAX <? len (frame_audio track d)); [discriminate|].
  inversion H; subst w'; clear H. cbn [w_vrev w_arev w_codec w_audio].
  exists (match pending with Some d0 => set_last_dur (w_arev w) d0 | None => w_arev w end), track.
  split; [destruct pending; [apply map_aproj_set_last_dur|reflexivity]|].
  repeat split; reflexivity.
Qed.

(* API layer: what an accepted call did *)
Definition same_static (m m' : muxer) : Prop :=
  m_codec m' = m_codec m /\ m_audio m' = m_audio m /\
  m_cur_vpts m' = m_cur_vpts m /\ m_cur_apts m' = m_cur_apts m /\ m_finished m' = m_finished m.

Lemma write_video_ok_shape m pts d k m' :
  write_video m pts d k = (m', None) ->
  write_video_sample_with_dts (m_writer m) (tick pts) (tick pts) d k = inl (m_writer m') /\
  m_vcount m' = m_vcount m + 1 /\ same_static m m'.
Proof.
  unfold write_video, write_video_sample. intros H.
  destruct d as [|x d']; [discriminate|].
  destruct (negb (is_finite pts)); [discriminate|].
  destruct (fltb pts f_zero); [discriminate|].
  destruct (opt_cmp fleb pts (m_last_vpts m)); [discriminate|].
  destruct (write_video_sample_with_dts (m_writer m) (tick pts) (tick pts) (x :: d') k) as [w|e]; [|discriminate].
  inversion H; subst m'; clear H. cbn [set_video_ok m_writer m_vcount]. unfold same_static.
  cbn [set_video_ok m_codec m_audio m_cur_vpts m_cur_apts m_finished]. repeat split; congruence.
Qed.

Lemma write_video_with_dts_ok_shape m pts dts d k m' :
  write_video_with_dts m pts dts d k = (m', None) ->
  write_video_sample_with_dts (m_writer m) (tick pts) (tick dts) d k = inl (m_writer m') /\
  m_vcount m' = m_vcount m + 1 /\ same_static m m'.
Proof.
  unfold write_video_with_dts. intros H.
  destruct (m_finished m) eqn:EFi; [discriminate|].
  destruct d as [|x d']; [discriminate|].
  destruct (negb (is_finite pts)); [discriminate|].
  destruct (fltb pts f_zero); [discriminate|].
  destruct (negb (is_finite dts)); [discriminate|].
  destruct (fltb dts f_zero); [discriminate|].
  destruct (opt_cmp fleb dts (m_last_vdts m)); [discriminate|].
  destruct (write_video_sample_with_dts (m_writer m) (tick pts) (tick dts) (x :: d') k) as [w|e]; [|discriminate].
  inversion H; subst m'; clear H. cbn [set_video_ok m_writer m_vcount]. unfold same_static.
  cbn [set_video_ok m_codec m_audio m_cur_vpts m_cur_apts m_finished]. repeat split; congruence.
Qed.

Lemma write_audio_ok_shape m pts d m' :
  write_audio m pts d = (m', None) ->
  write_audio_sample (m_writer m) (tick pts) d = inl (m_writer m') /\
  m_vcount m' = m_vcount m /\ same_static m m'.
Proof.
  unfold write_audio. intros H.
  destruct (m_finished m) eqn:EFi; [discriminate|].
  destruct (m_audio m) as [a|] eqn:EAu; [|discriminate].
  destruct (negb (is_finite pts)); [discriminate|].
  destruct (fltb pts f_zero); [discriminate|].
  destruct d as [|x d']; [discriminate|].
  destruct (opt_cmp fltb pts (m_last_apts m)); [discriminate|].
  destruct (m_first_vpts m) as [fv|]; [|discriminate].
  destruct (fltb pts fv); [discriminate|].
  destruct (write_audio_sample (m_writer m) (tick pts) (x :: d')) as [w|e]; [|discriminate].
  inversion H; subst m'; clear H. cbn [m_writer m_vcount]. unfold same_static.
  cbn [m_codec m_audio m_cur_vpts m_cur_apts m_finished]. repeat split; congruence.
Qed.

Lemma finalize_queues w v md f :
  let w' := fst (finalize w v md f) in
  w_vrev w' = w_vrev w /\ w_arev w' = w_arev w /\ w_codec w' = w_codec w /\ w_audio w' = w_audio w /\
  w_vlast_delta w' = w_vlast_delta w /\ w_alast_delta w' = w_alast_delta w.
Proof.
  cbv zeta. destruct (finalize_cases w v md f) as [[-> _]|[_ (bufs & bw & s & e & _ & ->)]];
    repeat split; reflexivity.
Qed.

Lemma fin_shape_q m m' r :
  step m FIN = (m', r) ->
  w_vrev (m_writer m') = w_vrev (m_writer m) /\ w_arev (m_writer m') = w_arev (m_writer m) /\
  w_codec (m_writer m') = w_codec (m_writer m) /\ w_audio (m_writer m') = w_audio (m_writer m) /\
  m_vcount m' = m_vcount m /\ m_codec m' = m_codec m /\ m_audio m' = m_audio m /\
  m_cur_vpts m' = m_cur_vpts m /\ m_cur_apts m' = m_cur_apts m.
Proof.
  intros H.
  cbn [step] in H. unfold finish_in_place_with_stats in H.
  destruct (m_finished m).
  - inversion H; subst. repeat split; reflexivity.
  - pose proof (finalize_queues (m_writer m) (m_video m) (m_meta m) (m_fast m)) as Q. cbv zeta in Q.
    destruct (finalize (m_writer m) (m_video m) (m_meta m) (m_fast m)) as [w fr]. cbn [fst] in Q.
    destruct Q as (Q1 & Q2 & Q3 & Q4 & _).
    destruct fr as [|[k|p]]; cbv beta iota zeta in H; inversion H; subst m';
      cbn [m_writer m_vcount m_codec m_audio m_cur_vpts m_cur_apts];
      repeat split; try assumption; reflexivity.
Qed.

Lemma fin_shape m m' r :
  step m FIN = (m', r) ->
  w_vrev (m_writer m') = w_vrev (m_writer m) /\ w_arev (m_writer m') = w_arev (m_writer m) /\
  w_codec (m_writer m') = w_codec (m_writer m) /\ w_audio (m_writer m') = w_audio (m_writer m) /\
  m_vcount m' = m_vcount m /\ m_codec m' = m_codec m /\ m_audio m' = m_audio m /\
  m_cur_vpts m' = m_cur_vpts m /\ m_cur_apts m' = m_cur_apts m /\
  (forall s, r = RStats s -> m_finished m' = true /\ w_finalized (m_writer m') = true).
Proof.
  intros H.
  destruct (fin_shape_q _ _ _ H) as (Q1 & Q2 & Q3 & Q4 & Q5 & Q6 & Q7 & Q8 & Q9).
  repeat match goal with |- _ /\ _ => split end; try assumption.
  intros s ->. exact (successful_finish_finishes _ _ _ H).
Qed.

Record Sim (b : builder) (m : muxer) (s : acc_state) : Prop := mkSim {
  sim_v : map vproj (w_vrev (m_writer m)) = map (vexp (cfg_codec b)) (a_vrev s);
  sim_a : map aproj (w_arev (m_writer m)) = map (aexp (cfg_audio b)) (a_arev s);
  sim_curv : a_curv s = m_cur_vpts m;
  sim_cura : a_cura s = m_cur_apts m;
  sim_vcount : m_vcount m = len (w_vrev (m_writer m));
  sim_codec : m_codec m = cfg_codec b;
  sim_wcodec : w_codec (m_writer m) = cfg_codec b;
  sim_audio : m_audio m = cfg_audio b;
  sim_waudio : w_audio (m_writer m) = cfg_audio b;
  sim_fin : a_fin s = true -> m_finished m = true /\ w_finalized (m_writer m) = true }.

Lemma len_of_map_eq {A B C} (f : A -> C) (g : B -> C) l l' : map f l = map g l' -> len l = len l'.
Proof. intros H. apply (f_equal (@length C)) in H. rewrite !map_length in H. unfold len. congruence. Qed.

(* an accepted video sample *)
Lemma Sim_video b m s m' pts dts d k ns :
  Sim b m s -> a_fin s = false ->
  write_video_sample_with_dts (m_writer m) pts dts d k = inl (m_writer m') ->
  m_vcount m' = m_vcount m + 1 -> m_codec m' = m_codec m -> m_audio m' = m_audio m ->
  a_vrev ns = {| vf_pts := pts; vf_dts := dts; vf_data := d; vf_key := k |} :: a_vrev s ->
  a_arev ns = a_arev s -> a_curv ns = m_cur_vpts m' -> a_cura ns = m_cur_apts m' -> a_fin ns = false ->
  Sim b m' ns.
Proof.
  intros S Hf W Hc Hco Hau Ev Ea Ecv Eca Efin.
  destruct (wvs_ok_shape _ _ _ _ _ _ W) as (vrev0 & P1 & P2 & P3 & P4 & P5 & P6).
  destruct S. constructor.
  - rewrite P3, Ev. cbn [map]. f_equal.
    + unfold vproj, vexp. cbn [s_pts s_dts s_data s_key vf_pts vf_dts vf_data vf_key].
      rewrite sim_wcodec0, convert_video_is_frame_video. reflexivity.
    + rewrite P1. exact sim_v0.
  - rewrite P4, Ea. exact sim_a0.
  - exact Ecv.
  - exact Eca.
  - rewrite Hc, sim_vcount0, P3. rewrite len_cons. unfold len. rewrite P2. lia.
  - congruence.
  - congruence.
  - congruence.
  - congruence.
  - rewrite Efin. discriminate.
Qed.

Lemma Sim_audio b m s m' pts d ns :
  Sim b m s -> a_fin s = false -> bytes_ok d = true ->
  write_audio_sample (m_writer m) pts d = inl (m_writer m') ->
  m_vcount m' = m_vcount m -> m_codec m' = m_codec m -> m_audio m' = m_audio m ->
  a_arev ns = {| af_pts := pts; af_data := d |} :: a_arev s ->
  a_vrev ns = a_vrev s -> a_curv ns = m_cur_vpts m' -> a_cura ns = m_cur_apts m' -> a_fin ns = false ->
  Sim b m' ns.
Proof.
  intros S Hf Hb W Hc Hco Hau Ea Ev Ecv Eca Efin.
  destruct (was_ok_shape _ _ _ _ Hb W) as (arev0 & a & P1 & P2 & P3 & P4 & P5 & P6).
  destruct S. constructor.
  - rewrite P4, Ev. exact sim_v0.
  - rewrite P3, Ea. cbn [map]. f_equal.
    + unfold aproj, aexp. cbn [s_pts s_data af_pts af_data]. rewrite <- sim_waudio0, P2. reflexivity.
    + rewrite P1. exact sim_a0.
  - exact Ecv.
  - exact Eca.
  - rewrite Hc, P4. exact sim_vcount0.
  - congruence.
  - congruence.
  - congruence.
  - congruence.
  - rewrite Efin. discriminate.
Qed.

Lemma Sim_step b m s o m' r :
  Sim b m s -> op_payload_ok o -> step m o = (m', r) ->
  Sim b m' (acc_step b s (o, class_of r)).
Proof.
  intros S Hok Hstep.
  destruct (a_fin s) eqn:Hfin.
  - (* after the successful finish: every call is rejected and leaves the muxer alone *)
    destruct (sim_fin _ _ _ S Hfin) as [F1 F2].
    destruct (finished_muxer_rejects_everything m F1 F2 o) as [e He].
    rewrite He in Hstep. inversion Hstep; subst m' r; clear Hstep.
    unfold acc_step. rewrite Hfin. destruct S. constructor; cbn [a_vrev a_arev a_curv a_cura a_fin]; auto.
  - assert (Hrej : forall e, o <> FIN -> r = RErr e -> Sim b m' (acc_step b s (o, class_of r))).
    { intros e Hne ->. rewrite (step_rejected_unchanged _ _ _ _ Hne Hstep).
      unfold acc_step. rewrite Hfin. cbn [class_of]. exact S. }
    destruct o as [p d k|p t d k|p d|d ms|d smp|]; cbn [op_payload_ok] in Hok.
    + (* WV *)
      cbn [step] in Hstep.
      destruct (write_video m (decode64 p) d k) as [m1 [e|]] eqn:W; cbn [lift] in Hstep;
        inversion Hstep; subst m1 r.
      { apply (Hrej e); [discriminate|reflexivity]. }
      destruct (write_video_ok_shape _ _ _ _ _ W) as (W1 & W2 & (W3 & W4 & W5 & W6 & W7)).
      unfold acc_step. rewrite Hfin. cbn [class_of].
      eapply Sim_video; try eassumption; cbn [a_vrev a_arev a_curv a_cura a_fin]; try reflexivity.
      * rewrite W5. apply (sim_curv _ _ _ S).
      * rewrite W6. apply (sim_cura _ _ _ S).
    + (* WVD *)
      cbn [step] in Hstep.
      destruct (write_video_with_dts m (decode64 p) (decode64 t) d k) as [m1 [e|]] eqn:W; cbn [lift] in Hstep;
        inversion Hstep; subst m1 r.
      { apply (Hrej e); [discriminate|reflexivity]. }
      destruct (write_video_with_dts_ok_shape _ _ _ _ _ _ W) as (W1 & W2 & (W3 & W4 & W5 & W6 & W7)).
      unfold acc_step. rewrite Hfin. cbn [class_of].
      eapply Sim_video; try eassumption; cbn [a_vrev a_arev a_curv a_cura a_fin]; try reflexivity.
      * rewrite W5. apply (sim_curv _ _ _ S).
      * rewrite W6. apply (sim_cura _ _ _ S).
    + (* WA *)
      cbn [step] in Hstep.
      destruct (write_audio m (decode64 p) d) as [m1 [e|]] eqn:W; cbn [lift] in Hstep;
        inversion Hstep; subst m1 r.
      { apply (Hrej e); [discriminate|reflexivity]. }
      destruct (write_audio_ok_shape _ _ _ _ W) as (W1 & W2 & (W3 & W4 & W5 & W6 & W7)).
      unfold acc_step. rewrite Hfin. cbn [class_of].
      eapply Sim_audio; try eassumption; cbn [a_vrev a_arev a_curv a_cura a_fin]; try reflexivity; try apply Hok.
      * rewrite W5. apply (sim_curv _ _ _ S).
      * rewrite W6. apply (sim_cura _ _ _ S).
    + (* EV *)
      cbn [step] in Hstep. unfold encode_video in Hstep.
      destruct (write_video m (m_cur_vpts m) d (api_is_keyframe m d)) as [m1 [e|]] eqn:W; cbn [lift] in Hstep;
        inversion Hstep; subst m' r.
      { apply write_video_err_unchanged in W. subst m1.
        unfold acc_step. rewrite Hfin. cbn [class_of]. exact S. }
      destruct (write_video_ok_shape _ _ _ _ _ W) as (W1 & W2 & (W3 & W4 & W5 & W6 & W7)).
      unfold acc_step. rewrite Hfin. cbn [class_of].
      eapply (Sim_video b m s (set_cur m1 _ _)); try eassumption;
        cbn [set_cur m_writer m_vcount m_codec m_audio m_cur_vpts m_cur_apts a_vrev a_arev a_curv a_cura a_fin];
        try reflexivity; try assumption.
      * rewrite (sim_curv _ _ _ S). f_equal.
        rewrite api_keyframe_is_detect_key, (sim_codec _ _ _ S), (sim_vcount _ _ _ S).
        rewrite (len_of_map_eq _ _ _ _ (sim_v _ _ _ S)). reflexivity.
      * rewrite W5, (sim_curv _ _ _ S). reflexivity.
      * rewrite W6. apply (sim_cura _ _ _ S).
    + (* EA *)
      cbn [step] in Hstep. unfold encode_audio in Hstep.
      destruct (m_audio m) as [a|] eqn:EAu.
      2:{ cbn [lift] in Hstep. inversion Hstep; subst m' r. unfold acc_step. rewrite Hfin. cbn [class_of]. exact S. }
      destruct (write_audio m (m_cur_apts m) d) as [m1 [e|]] eqn:W; cbn [lift] in Hstep;
        inversion Hstep; subst m' r.
      { apply write_audio_err_unchanged in W. subst m1.
        unfold acc_step. rewrite Hfin. cbn [class_of]. exact S. }
      destruct (write_audio_ok_shape _ _ _ _ W) as (W1 & W2 & (W3 & W4 & W5 & W6 & W7)).
      unfold acc_step. rewrite Hfin. cbn [class_of].
      eapply (Sim_audio b m s (set_cur m1 _ _)); try eassumption;
        cbn [set_cur m_writer m_vcount m_codec m_audio m_cur_vpts m_cur_apts a_vrev a_arev a_curv a_cura a_fin];
        try reflexivity; try assumption; try apply Hok.
      * rewrite (sim_cura _ _ _ S). reflexivity.
      * rewrite W5. apply (sim_curv _ _ _ S).
      * rewrite W6, (sim_cura _ _ _ S). rewrite <- (sim_audio _ _ _ S), EAu. reflexivity.
    + (* FIN *)
      destruct (fin_shape _ _ _ Hstep) as (Q1 & Q2 & Q3 & Q4 & Q5 & Q6 & Q7 & Q8 & Q9 & Q10).
      assert (Skeep : forall ns, a_vrev ns = a_vrev s -> a_arev ns = a_arev s -> a_curv ns = a_curv s ->
                        a_cura ns = a_cura s ->
                        (a_fin ns = true -> m_finished m' = true /\ w_finalized (m_writer m') = true) ->
                        Sim b m' ns).
      { intros ns E1 E2 E3 E4 E5. destruct S. constructor; try congruence; try assumption. }
      unfold acc_step. rewrite Hfin.
      destruct r as [|st|e|pn]; cbn [class_of].
      * apply Skeep; cbn [a_vrev a_arev a_curv a_cura a_fin]; try reflexivity.
        exfalso. cbn [step] in Hstep. destruct (finish_in_place_with_stats m) as [mm [x|x|x]]; discriminate.
      * apply Skeep; cbn [a_vrev a_arev a_curv a_cura a_fin]; try reflexivity. intros _. exact (Q10 st eq_refl).
      * apply Skeep; try reflexivity. rewrite Hfin. discriminate.
      * apply Skeep; try reflexivity. rewrite Hfin. discriminate.
Qed.

Definition acc0 : acc_state :=
  {| a_vrev := []; a_arev := []; a_curv := f_zero; a_cura := f_zero; a_fin := false; a_after_ok := true |}.

Lemma Sim_run b : forall ops m s m' rs,
  Sim b m s -> Forall op_payload_ok ops -> run m ops = (m', rs) ->
  Sim b m' (fold_left (acc_step b) (combine ops (map class_of rs)) s).
Proof.
  induction ops as [|o t IH]; intros m s m' rs S Hok HR; cbn [run] in HR.
  - inversion HR; subst. exact S.
  - inversion Hok as [|o' t' Ho Ht]; subst.
    destruct (step m o) as [m1 r] eqn:ES.
    pose proof (Sim_step b m s o m1 r S Ho ES) as S1.
    destruct r as [|st|e|p].
    + destruct (run m1 t) as [m2 rs2] eqn:ER. inversion HR; subst. cbn [map combine fold_left]. eapply IH; eassumption.
    + destruct (run m1 t) as [m2 rs2] eqn:ER. inversion HR; subst. cbn [map combine fold_left]. eapply IH; eassumption.
    + destruct (run m1 t) as [m2 rs2] eqn:ER. inversion HR; subst. cbn [map combine fold_left]. eapply IH; eassumption.
    + inversion HR; subst. cbn [map combine fold_left]. destruct t; exact S1.
Qed.

Lemma Sim_init b m0 : build b [] = inl m0 -> Sim b m0 acc0.
Proof.
  unfold build. destruct (b_video b) as [[[codec w] h]|] eqn:EV; [|discriminate].
  intros H. inversion H; subst m0.
  constructor; unfold cfg_codec, cfg_audio; rewrite ?EV; cbn; try reflexivity. discriminate.
Qed.

Lemma accepted_fold b ops cls :
  accepted b ops cls =
  let s := fold_left (acc_step b) (combine ops cls) acc0 in
  {| h_v := rev (a_vrev s); h_a := rev (a_arev s); h_finished := a_fin s; h_after_ok := a_after_ok s |}.
Proof. reflexivity. Qed.

Lemma Sim_final b m0 ops m rs :
  build b [] = inl m0 -> run m0 ops = (m, rs) -> Forall op_payload_ok ops ->
  Sim b m (fold_left (acc_step b) (combine ops (map class_of rs)) acc0).
Proof. intros Hb HR Hok. eapply Sim_run; [apply Sim_init; exact Hb|exact Hok|exact HR]. Qed.

(* E0: the spec-level replay of the accepted history agrees with the model's queues *)
Theorem accepted_matches_queues : forall b m0 ops m rs,
  build b [] = inl m0 -> run m0 ops = (m, rs) -> Forall op_payload_ok ops ->
  (forall p, ~ In (RPanic p) rs) ->
  let h := accepted b ops (map class_of rs) in
  map (fun s => (s_pts s, s_dts s, s_data s, s_key s)) (vsamples (m_writer m)) =
    map (fun f => (vf_pts f, vf_dts f, frame_video (cfg_codec b) (vf_data f), vf_key f)) (h_v h) /\
  map (fun s => (s_pts s, s_data s)) (asamples (m_writer m)) =
    map (fun f => (af_pts f,
                   match cfg_audio b with Some a => frame_audio a (af_data f) | None => [] end)) (h_a h).
Proof.
  intros b m0 ops m rs Hb HR Hok _ h.
  pose proof (Sim_final b m0 ops m rs Hb HR Hok) as S.
  subst h. rewrite accepted_fold. cbv zeta. cbn [h_v h_a].
  unfold vsamples, asamples. rewrite !map_rev.
  split; f_equal; [exact (sim_v _ _ _ S)|exact (sim_a _ _ _ S)].
Qed.
Print Assumptions accepted_matches_queues.
(** * Part 2: the state after a successful finish *)

Lemma run_finished_id : forall ops m,
  m_finished m = true -> w_finalized (m_writer m) = true ->
  fst (run m ops) = m /\ forall s, ~ In (RStats s) (snd (run m ops)).
Proof.
  induction ops as [|o t IH]; intros m F1 F2; cbn [run].
  - split; [reflexivity|]. intros s [].
  - destruct (finished_muxer_rejects_everything m F1 F2 o) as [e ->].
    destruct (IH m F1 F2) as [I1 I2].
    destruct (run m t) as [m2 rs2]. cbn [fst snd] in *. split; [exact I1|].
    intros s [H|H]; [discriminate|]. exact (I2 s H).
Qed.

Lemma finished_gen : forall ops m m' rs s,
  Inv m -> w_finalized (m_writer m) = false ->
  run m ops = (m', rs) -> In (RStats s) rs ->
  exists v md fs bufs, plan_of (m_writer m') v md fs = (bufs, None) /\ sink_of m' = concat bufs.
Proof.
  induction ops as [|o t IH]; intros m m' rs s HI HF HR HIn; cbn [run] in HR.
  - inversion HR; subst. destruct HIn.
  - pose proof (step_Inv m o HI) as HI1.
    destruct (step m o) as [m1 r] eqn:ES. cbn [fst] in HI1.
    assert (Hstats : forall st, r = RStats st ->
              exists v md fs bufs, plan_of (m_writer m') v md fs = (bufs, None) /\ sink_of m' = concat bufs).
    { intros st ->.
      assert (o = FIN).
      { destruct o; try reflexivity; exfalso;
          eapply (step_not_stats m); try (rewrite ES; reflexivity); discriminate. }
      subst o.
      destruct (successful_finish_finishes _ _ _ ES) as [F1 F2].
      destruct (finish_ok_shape _ _ _ ES) as (w1 & Fz & Hw1 & _).
      destruct (finalize_ok_plan _ _ _ _ _ Fz) as (_ & bufs & bw & sk & Hplan & Hrun & Ew1).
      destruct HI as (Iscr & Iempty & _).
      destruct (run_plan_nil_script _ _ _ _ _ _ Iscr Hrun) as (_ & _ & Hbytes & _).
      destruct (Iempty HF) as (Hsink0 & _). rewrite Hsink0 in Hbytes. cbn [app] in Hbytes.
      destruct (run_finished_id t m1 F1 F2) as [Hid _].
      destruct (run m1 t) as [m2 rs2] eqn:ER. cbn [fst] in Hid. subst m2.
      injection HR as Hm Hrs. subst m'.
      exists (m_video m), (m_meta m), (m_fast m), bufs. split.
      - rewrite Hw1, Ew1, plan_independent_of_sink. exact Hplan.
      - unfold sink_of. rewrite Hw1, Ew1. cbn [with_sink w_sink]. exact Hbytes. }
    destruct (w_finalized (m_writer m1)) eqn:HF1.
    + destruct (run_finalized t m1 HF1) as (_ & Kno).
      destruct r as [|st|e|p].
      * destruct (run m1 t) as [m2 rs2]. cbn [snd] in Kno. inversion HR; subst.
        destruct HIn as [H|H]; [discriminate|]. destruct (Kno s H).
      * apply (Hstats st eq_refl).
      * destruct (run m1 t) as [m2 rs2]. cbn [snd] in Kno. inversion HR; subst.
        destruct HIn as [H|H]; [discriminate|]. destruct (Kno s H).
      * inversion HR; subst. destruct HIn as [H|[]]. discriminate.
    + destruct r as [|st|e|p].
      * destruct (run m1 t) as [m2 rs2] eqn:ER. inversion HR; subst.
        destruct HIn as [H|H]; [discriminate|]. exact (IH m1 m' rs2 s HI1 HF1 ER H).
      * apply (Hstats st eq_refl).
      * destruct (run m1 t) as [m2 rs2] eqn:ER. inversion HR; subst.
        destruct HIn as [H|H]; [discriminate|]. exact (IH m1 m' rs2 s HI1 HF1 ER H).
      * inversion HR; subst. destruct HIn as [H|[]]. discriminate.
Qed.

(* Since the fix "finish returns an error for parameter sets that do not fit avcC/hvcC's 16-bit length
   fields": a history that contains a successful finish ends in a state whose STORED video configuration
   has no parameter set longer than 65535 bytes (no hypothesis on the start state is needed: the
   successful finish itself passed the guard, and nothing changes afterwards). *)
Lemma finished_params_fit_gen : forall ops m m' rs s,
  run m ops = (m', rs) -> In (RStats s) rs ->
  param_sets_too_long (w_vconfig (m_writer m')) = false.
Proof.
  induction ops as [|o t IH]; intros m m' rs s HR HIn; cbn [run] in HR.
  - inversion HR; subst. destruct HIn.
  - destruct (step m o) as [m1 r] eqn:ES.
    destruct r as [|st|e|p].
    + destruct (run m1 t) as [m2 rs2] eqn:ER. inversion HR; subst.
      destruct HIn as [H|H]; [discriminate|]. exact (IH m1 m' rs2 s ER H).
    + assert (o = FIN).
      { destruct o; try reflexivity; exfalso;
          eapply (step_not_stats m); try (rewrite ES; reflexivity); discriminate. }
      subst o.
      destruct (successful_finish_finishes _ _ _ ES) as [F1 F2].
      destruct (finish_ok_shape _ _ _ ES) as (w1 & Fz & Hw1 & _).
      destruct (run_finished_id t m1 F1 F2) as [Hid _].
      destruct (run m1 t) as [m2 rs2] eqn:ER. cbn [fst] in Hid. subst m2.
      injection HR as Hm Hrs. subst m'.
      rewrite Hw1. pose proof (finalize_vconfig (m_writer m) (m_video m) (m_meta m) (m_fast m)) as Hc.
      rewrite Fz in Hc. cbn [fst] in Hc. rewrite Hc.
      exact (finalize_ok_params_fit _ _ _ _ _ Fz).
    + destruct (run m1 t) as [m2 rs2] eqn:ER. inversion HR; subst.
      destruct HIn as [H|H]; [discriminate|]. exact (IH m1 m' rs2 s ER H).
    + inversion HR; subst. destruct HIn as [H|[]]. discriminate.
Qed.

Theorem finished_params_fit : forall b m0 ops m rs s,
  build b [] = inl m0 -> run m0 ops = (m, rs) -> In (RStats s) rs ->
  param_sets_too_long (w_vconfig (m_writer m)) = false.
Proof. intros b m0 ops m rs s _ HR HIn. exact (finished_params_fit_gen ops m0 m rs s HR HIn). Qed.
Print Assumptions finished_params_fit.

(* the replay sees the successful finish *)
Lemma acc_fin_sticky b : forall l s, a_fin s = true -> a_fin (fold_left (acc_step b) l s) = true.
Proof.
  induction l as [|[o c] l IH]; intros s H; cbn [fold_left]; [exact H|].
  apply IH. unfold acc_step. rewrite H. reflexivity.
Qed.

Lemma acc_sees_finish b : forall ops m m' rs st s0,
  run m ops = (m', rs) -> In (RStats st) rs ->
  a_fin (fold_left (acc_step b) (combine ops (map class_of rs)) s0) = true.
Proof.
  induction ops as [|o t IH]; intros m m' rs st s0 HR HIn; cbn [run] in HR.
  - inversion HR; subst. destruct HIn.
  - destruct (step m o) as [m1 r] eqn:ES.
    destruct r as [|st1|e|p].
    + destruct (run m1 t) as [m2 rs2] eqn:ER. inversion HR; subst. cbn [map combine fold_left].
      destruct HIn as [H|H]; [discriminate|]. eapply IH; eassumption.
    + destruct (run m1 t) as [m2 rs2] eqn:ER. inversion HR; subst. cbn [map combine fold_left].
      apply acc_fin_sticky.
      assert (o = FIN).
      { destruct o; try reflexivity; exfalso;
          eapply (step_not_stats m); try (rewrite ES; reflexivity); discriminate. }
      subst o. unfold acc_step. cbn [class_of]. destruct (a_fin s0); reflexivity.
    + destruct (run m1 t) as [m2 rs2] eqn:ER. inversion HR; subst. cbn [map combine fold_left].
      destruct HIn as [H|H]; [discriminate|]. eapply IH; eassumption.
    + inversion HR; subst. destruct HIn as [H|[]]. discriminate.
Qed.

Lemma finished_history b m ops m' rs st :
  run m ops = (m', rs) -> In (RStats st) rs ->
  h_finished (accepted b ops (map class_of rs)) = true.
Proof. intros HR HIn. rewrite accepted_fold. cbv zeta. cbn [h_finished]. eapply acc_sees_finish; eassumption. Qed.

(** ** some keyframe is queued whenever a video sample is *)
Definition KInv (w : writer) : Prop := w_vrev w = [] \/ existsb s_key (w_vrev w) = true.
Definition WK (w : writer) : Prop := WInv w /\ KInv w.

Lemma existsb_key_set_last_dur l d : existsb s_key (set_last_dur l d) = existsb s_key l.
Proof. destruct l; reflexivity. Qed.

Lemma WK_write_video w pts dts data key w' :
  WK w -> write_video_sample_with_dts w pts dts data key = inl w' -> WK w'.
Proof.
  intros [HW HK] H. split; [eapply WInv_write_video; eassumption|].
  destruct HW as (_ & _ & _ & _ & Hhv & _).
  unfold write_video_sample_with_dts, push_video in H.
  destruct (w_finalized w); [discriminate|].
  destruct (negb (cts_fits pts dts)); [discriminate|].
  destruct (w_vprev w) as [prev|] eqn:EP.
  - destruct (dts <=? prev); [discriminate|].
    destruct (U32MAX <? dts - prev); [discriminate|].
    destruct (U32MAX <? len (convert_video (w_codec w) data)); [discriminate|].
    inversion H; subst w'; clear H. right. cbn [w_vrev existsb s_key].
    rewrite existsb_key_set_last_dur.
    destruct HK as [E|E]; [|rewrite E; apply orb_true_r].
    rewrite E in Hhv. destruct Hhv as [Hn _]. congruence.
  - destruct key; cbn [negb] in H; [|discriminate].
    destruct (extract_config (w_codec w) data); [|discriminate].
    destruct (U32MAX <? len (convert_video (w_codec w) data)); [discriminate|].
    inversion H; subst w'; clear H. right. reflexivity.
Qed.

Lemma WK_write_audio w pts data w' :
  WK w -> write_audio_sample w pts data = inl w' -> WK w'.
Proof.
  intros [HW HK] H. split; [eapply WInv_write_audio; eassumption|].
  unfold KInv in *. unfold write_audio_sample in H. cbv zeta in H.
  repeat (break_match; try discriminate); inversion H; subst w'; cbn [w_vrev]; exact HK.
Qed.

Lemma WK_finalize w v m fs : WK w -> WK (fst (finalize w v m fs)).
Proof.
  intros [HW HK]. split; [apply WInv_finalize; exact HW|].
  unfold KInv. destruct (finalize_queues w v m fs) as (-> & _). exact HK.
Qed.

Lemma WK_reachable b script m0 ops :
  build b script = inl m0 -> WK (m_writer (fst (run m0 ops))).
Proof.
  intros Hb. apply (P_reachable WK WK_write_video WK_write_audio WK_finalize b script m0 ops); [|exact Hb].
  intros snk codec audio. split; [apply WInv_new|left; reflexivity].
Qed.

(* everything known about a finished run *)
Record Final (b : builder) (ops : list op) (rs : list result) (m : muxer) : Prop := mkFinal {
  fin_hist : h_finished (accepted b ops (map class_of rs)) = true;
  fin_sim : Sim b m (fold_left (acc_step b) (combine ops (map class_of rs)) acc0);
  fin_winv : WInv (m_writer m);
  fin_kinv : KInv (m_writer m);
  fin_sinv : SInv (m_writer m);
  fin_cts : cts_all_fit (m_writer m);
  fin_durs : durs_fit (m_writer m);
  fin_plan : exists v md fs bufs, plan_of (m_writer m) v md fs = (bufs, None) /\ sink_of m = concat bufs }.

Lemma final_state b m0 ops m rs s :
  build b [] = inl m0 -> run m0 ops = (m, rs) -> In (RStats s) rs -> Forall op_payload_ok ops ->
  Final b ops rs m.
Proof.
  intros Hb HR HIn Hok.
  assert (Em : m = fst (run m0 ops)) by (rewrite HR; reflexivity).
  constructor.
  - eapply finished_history; eassumption.
  - eapply Sim_final; eassumption.
  - rewrite Em. exact (proj1 (WK_reachable b [] m0 ops Hb)).
  - rewrite Em. exact (proj2 (WK_reachable b [] m0 ops Hb)).
  - rewrite Em. exact (SInv_reachable b [] m0 ops Hb).
  - rewrite Em. exact (cts_fit_reachable b [] m0 ops Hb).
  - rewrite Em. exact (durations_fit_reachable b [] m0 ops Hb).
  - destruct (build_initial _ _ Hb) as (_ & _ & _ & D & _).
    eapply finished_gen; try eassumption. exact (Inv_reachable b m0 [] Hb).
Qed.
(** * Part 3: the shape of the finished file *)

Lemma placeholder_offsets_lengths : forall sc c vo ao,
  placeholder_offsets sc c = (vo, ao) ->
  length vo = length (filter is_video_entry sc) /\ length ao = length (filter is_audio_entry sc).
Proof.
  induction sc as [|e t IH]; intros c vo ao H; cbn [placeholder_offsets] in H.
  - inversion H; subst. split; reflexivity.
  - destruct (placeholder_offsets t (c + 1)) as [vo' ao'] eqn:E.
    destruct (IH _ _ _ E) as [I1 I2].
    destruct e as [[ts k] i]. cbn [fst snd] in H. cbn [filter].
    unfold is_audio_entry, is_video_entry. cbn [fst snd negb].
    destruct k; inversion H; subst; cbn [negb length]; split;
      unfold is_audio_entry, is_video_entry in *; lia.
Qed.

Lemma same_shape_from_samples l o o' spc fb :
  length o = length o' -> same_shape (from_samples l o spc fb) (from_samples l o' spc fb).
Proof. intros H. unfold same_shape, from_samples. cbn. repeat split; try reflexivity. exact H. Qed.

Lemma len_enc_moov v vt a c m : len (enc (moov_tree v vt a c m)) = len (build_moov_box v vt a c m).
Proof. rewrite enc_moov. reflexivity. Qed.

Definition aud_of (w : writer) (aoffs : list N) : option (audio_track * sample_tables) :=
  match w_audio w with
  | Some tr => Some (tr, from_samples (asamples w) aoffs 1 (w_alast_delta w))
  | None => None
  end.

Definition sched_of (w : writer) := compute_interleave_schedule (vsamples w) (asamples w).

Definition vo_of (w : writer) (start : N) : list N :=
  map snd (filter (pf is_video_entry) (tag (vsamples w) (asamples w) (sched_of w) start)).
Definition ao_of (w : writer) (start : N) : list N :=
  map snd (filter (pf is_audio_entry) (tag (vsamples w) (asamples w) (sched_of w) start)).

Definition mdat_placement (top : list btree) (moov : btree) (data : bytes) (start : N) : Prop :=
  (top = [ftyp_tree; mdat_tree data; moov] /\ start = len build_ftyp_box + 8) \/
  (top = [ftyp_tree; moov; mdat_tree data] /\ start = len build_ftyp_box + len (enc moov) + 8).

Definition FileShape (w : writer) (v : video_track) (md : option metadata) (file : bytes) : Prop :=
  exists voffs vspc aoffs data start top,
    let vs := vsamples w in
    let vt := from_samples vs voffs vspc (w_vlast_delta w) in
    let aud := aud_of w aoffs in
    let moov := moov_tree v vt aud (effective_config w) md in
    file = flat_map enc top /\ TabsOK vt /\ AudioTabsOK aud /\
    ((top = [ftyp_tree; moov] /\ vs = [] /\ w_audio w = None /\ voffs = [] /\ vspc = 0) \/
     (mdat_placement top moov data start /\
      ((w_audio w = None /\ data = concat (map s_data vs) /\
        ((vs = [] /\ voffs = [] /\ vspc = 0) \/ (vs <> [] /\ voffs = [start] /\ vspc = u32 (len vs)))) \/
       (w_audio w <> None /\ vspc = 1 /\
        data = concat (map (sched_data vs (asamples w)) (sched_of w)) /\
        voffs = vo_of w start /\ aoffs = ao_of w start)))).

Lemma plan_file_shape w v md fs bufs :
  samples_ok (w_vrev w) -> samples_ok (w_arev w) -> AudioInv w ->
  plan_of w v md fs = (bufs, None) ->
  FileShape w v md (concat bufs).
Proof.
  intros Hv Ha HA Hplan. unfold FileShape.
  pose proof (samples_pos _ Hv) as Pv. pose proof (samples_pos _ Ha) as Pa.
  pose proof (samples_small _ Hv) as Sv. pose proof (samples_small _ Ha) as Sa.
  fold (vsamples w) in Pv, Sv. fold (asamples w) in Pa, Sa.
  unfold plan_of in Hplan. destruct fs.
  - (* fast start *)
    unfold finalize_fast_start in Hplan. cbv zeta in Hplan.
    destruct (U32MAX <? 8 + payload_sum (vsamples w) + payload_sum (asamples w)) eqn:Esz;
      [discriminate|]. unfold U32MAX in Esz.
    destruct (w_audio w) as [track|] eqn:EA.
    + destruct (placeholder_offsets (compute_interleave_schedule (vsamples w) (asamples w)) 0) as [pvo pao] eqn:EP.
      destruct (moov_of v (from_samples (vsamples w) pvo 1 (w_vlast_delta w))
                  (Some (track, from_samples (asamples w) pao 1 (w_alast_delta w))) (effective_config w) md)
        as [pmoov|p] eqn:EPM; [|discriminate].
      apply moov_of_inl in EPM.
      destruct (walk_offsets (vsamples w) (asamples w) (compute_interleave_schedule (vsamples w) (asamples w))
                  (len build_ftyp_box + len pmoov + 8)) as [vo ao|] eqn:EW; [|discriminate].
      destruct (moov_of v (from_samples (vsamples w) vo 1 (w_vlast_delta w))
                  (Some (track, from_samples (asamples w) ao 1 (w_alast_delta w))) (effective_config w) md)
        as [moov|p] eqn:EM; [|discriminate].
      apply moov_of_inl in EM. subst moov. injection Hplan as <-.
      destruct (walk_offsets_lengths _ _ _ _ _ EW) as (Lvo & Lao).
      destruct (placeholder_offsets_lengths _ _ _ _ EP) as (Lpvo & Lpao).
      rewrite sched_video_count in Lpvo. rewrite sched_audio_count in Lpao.
      assert (Elen : len pmoov = len (build_moov_box v (from_samples (vsamples w) vo 1 (w_vlast_delta w))
                         (Some (track, from_samples (asamples w) ao 1 (w_alast_delta w))) (effective_config w) md)).
      { subst pmoov. apply len_eq_of_length_eq. apply moov_length_independent_of_offsets_av;
          apply same_shape_from_samples; congruence. }
      apply walk_offsets_tag in EW. destruct EW as [Evo Eao].
      exists vo, 1, ao, (concat (map (sched_data (vsamples w) (asamples w)) (sched_of w))),
        (len build_ftyp_box + len pmoov + 8).
      eexists. cbv zeta. unfold aud_of. rewrite EA.
      split; [apply file_ftyp_moov_mdat; unfold sched_of; rewrite sched_payload_sum; lia|].
      split; [apply tabs_ok_from_samples; [exact Pv|lia|right; right; split; [reflexivity|exact Lvo]]|].
      split; [apply tabs_ok_from_samples; [exact Pa|lia|right; right; split; [reflexivity|exact Lao]]|].
      right. split; [right; split; [reflexivity|rewrite len_enc_moov, Elen; reflexivity]|].
      right. split; [discriminate|]. split; [reflexivity|]. split; [reflexivity|].
      split; [exact Evo|exact Eao].
    + assert (Eas : asamples w = []) by (unfold asamples; rewrite (HA EA); reflexivity).
      rewrite Eas in *. change (payload_sum []) with 0 in *.
      destruct (moov_of v
                  (from_samples (vsamples w) (match vsamples w with [] => [] | _ :: _ => [0] end)
                     (match vsamples w with [] => 0 | _ :: _ => u32 (len (vsamples w)) end) (w_vlast_delta w))
                  None (effective_config w) md) as [pmoov|p] eqn:EPM; [|discriminate].
      apply moov_of_inl in EPM.
      destruct (vsamples w) as [|s0 vs'] eqn:Evs.
      * destruct (moov_of v (from_samples [] [] 0 (w_vlast_delta w)) None (effective_config w) md)
          as [moov|p] eqn:EM; [|discriminate].
        apply moov_of_inl in EM. subst moov. injection Hplan as <-.
        exists [], 0, [], [], (len build_ftyp_box + len pmoov + 8).
        eexists. cbv zeta. unfold aud_of. rewrite EA.
        split; [apply (file_ftyp_moov_mdat _ _ _ _ _ _ []); reflexivity|].
        split; [apply tabs_ok_from_samples; [constructor|cbn; lia|left; split; reflexivity]|].
        split; [exact I|].
        right. split; [right; split; [reflexivity|rewrite len_enc_moov, EPM; reflexivity]|].
        left. split; [reflexivity|]. split; [reflexivity|]. left. repeat split; reflexivity.
      * rewrite <- Evs in *.
        destruct (U32MAX <? len build_ftyp_box + len pmoov + 8); [discriminate|].
        destruct (moov_of v (from_samples (vsamples w) [len build_ftyp_box + len pmoov + 8]
                               (u32 (len (vsamples w))) (w_vlast_delta w)) None (effective_config w) md)
          as [moov|p] eqn:EM; [|discriminate].
        apply moov_of_inl in EM. subst moov. injection Hplan as <-.
        assert (Elen : len pmoov = len (build_moov_box v (from_samples (vsamples w) [len build_ftyp_box + len pmoov + 8]
                               (u32 (len (vsamples w))) (w_vlast_delta w)) None (effective_config w) md)).
        { rewrite EPM. apply len_eq_of_length_eq. apply moov_length_independent_of_offsets.
          rewrite Evs. apply same_shape_from_samples. reflexivity. }
        exists [len build_ftyp_box + len pmoov + 8], (u32 (len (vsamples w))), [],
          (concat (map s_data (vsamples w))), (len build_ftyp_box + len pmoov + 8).
        eexists. cbv zeta. unfold aud_of. rewrite EA.
        split; [apply file_ftyp_moov_mdat; rewrite payload_sum_concat; lia|].
        split; [apply tabs_ok_from_samples; [exact Pv|lia|];
                right; left; eexists; split; [reflexivity|]; split; [reflexivity|]; rewrite Evs; discriminate|].
        split; [exact I|].
        right. split; [right; split; [reflexivity|rewrite len_enc_moov, <- Elen; reflexivity]|].
        left. split; [reflexivity|]. split; [reflexivity|]. right.
        split; [rewrite Evs; discriminate|]. split; reflexivity.
  - (* standard *)
    unfold finalize_standard in Hplan. cbv zeta in Hplan.
    destruct (w_audio w) as [track|] eqn:EA.
    + destruct (U32MAX <? 8 + payload_sum (vsamples w) + payload_sum (asamples w)) eqn:Esz;
        [discriminate|]. unfold U32MAX in Esz.
      destruct (walk_std (vsamples w) (asamples w) (compute_interleave_schedule (vsamples w) (asamples w))
                  (len build_ftyp_box + 8) [] [] []) as [[[bufs' vo] ao] ok] eqn:EW.
      destruct ok; cbn [negb] in Hplan; [|discriminate].
      destruct (moov_of v (from_samples (vsamples w) vo 1 (w_vlast_delta w))
                  (Some (track, from_samples (asamples w) ao 1 (w_alast_delta w))) (effective_config w) md)
        as [moov|p] eqn:EM; [|discriminate].
      apply moov_of_inl in EM. subst moov.
      injection Hplan as <-.
      destruct (walk_std_lengths _ _ _ _ _ _ Sv Sa EW) as (Eb & Lvo & Lao).
      apply (walk_std_tag _ _ Sv Sa) in EW. cbn [rev app] in EW. destruct EW as (_ & Evo & Eao).
      subst bufs'.
      exists vo, 1, ao, (concat (map (sched_data (vsamples w) (asamples w)) (sched_of w))),
        (len build_ftyp_box + 8).
      eexists. cbv zeta. unfold aud_of. rewrite EA.
      split; [apply file_ftyp_mdat_moov; unfold sched_of; rewrite sched_payload_sum; lia|].
      split; [apply tabs_ok_from_samples; [exact Pv|lia|right; right; split; [reflexivity|exact Lvo]]|].
      split; [apply tabs_ok_from_samples; [exact Pa|lia|right; right; split; [reflexivity|exact Lao]]|].
      right. split; [left; split; reflexivity|].
      right. split; [discriminate|]. split; [reflexivity|]. split; [reflexivity|].
      split; [exact Evo|exact Eao].
    + destruct (vsamples w) as [|s0 vs'] eqn:Evs.
      * destruct (moov_of v (from_samples [] [] 0 (w_vlast_delta w)) None (effective_config w) md)
          as [moov|p] eqn:EM; [|discriminate].
        apply moov_of_inl in EM. subst moov. injection Hplan as <-.
        exists [], 0, [], [], 0. eexists. cbv zeta. unfold aud_of. rewrite EA.
        split; [apply file_ftyp_moov|].
        split; [apply tabs_ok_from_samples; [constructor|cbn; lia|left; split; reflexivity]|].
        split; [exact I|].
        left. repeat split; reflexivity.
      * rewrite <- Evs in *.
        destruct (U32MAX <? 8 + payload_sum (vsamples w)) eqn:Esz; [discriminate|]. unfold U32MAX in Esz.
        destruct (moov_of v (from_samples (vsamples w) [len build_ftyp_box + 8] (u32 (len (vsamples w)))
                               (w_vlast_delta w)) None (effective_config w) md)
          as [moov|p] eqn:EM; [|discriminate].
        apply moov_of_inl in EM. subst moov. injection Hplan as <-.
        cbn [app].
        exists [len build_ftyp_box + 8], (u32 (len (vsamples w))), [],
          (concat (map s_data (vsamples w))), (len build_ftyp_box + 8).
        eexists. cbv zeta. unfold aud_of. rewrite EA.
        split; [apply file_ftyp_mdat_moov; rewrite payload_sum_concat; lia|].
        split; [apply tabs_ok_from_samples; [exact Pv|lia|];
                right; left; eexists; split; [reflexivity|]; split; [reflexivity|]; rewrite Evs; discriminate|].
        split; [exact I|].
        right. split; [left; split; reflexivity|].
        left. split; [reflexivity|]. split; [reflexivity|]. right.
        split; [rewrite Evs; discriminate|]. split; reflexivity.
Qed.
(** * Part 4: reading the finished file back *)

Definition top_shape (top : list btree) (moov : btree) : Prop :=
  top = [ftyp_tree; moov] \/
  (exists d, top = [ftyp_tree; moov; mdat_tree d]) \/
  (exists d, top = [ftyp_tree; mdat_tree d; moov]).

Definition tracks_of v vt (audio : option (audio_track * sample_tables)) c m : list track :=
  vtrack v vt c m :: match audio with Some (a, t) => [atrack a t m] | None => [] end.

Lemma read_tracks_top top v vt audio c m :
  top_shape top (moov_tree v vt audio c m) ->
  len (flat_map enc top) < 4294967296 ->
  TabsOK vt -> AudioTabsOK audio ->
  read_tracks (flat_map enc top) = Some (top, tracks_of v vt audio c m).
Proof.
  intros Htop Hlen (VL & VC & VK) HA.
  assert (Hwf : Forall (wf 11) top).
  { assert (M : wf 11 (moov_tree v vt audio c m)) by (eapply wf_le; [|apply wf_moov]; lia).
    assert (F : wf 11 ftyp_tree) by (eapply wf_le; [|apply wf_ftyp]; lia).
    assert (D : forall d, wf 11 (mdat_tree d)) by (intros d; eapply wf_le; [|apply wf_mdat]; lia).
    destruct Htop as [->|[[d ->]|[d ->]]]; repeat (first [apply Forall_nil | apply Forall_cons]); auto. }
  unfold read_tracks, parse_file.
  rewrite (parse_forest_wf 11 top Hwf Hlen). cbn [opt_bind].
  assert (Hmoov : find_box (T 109 111 111 118) top = Some (moov_tree v vt audio c m)).
  { destruct Htop as [->|[[d ->]|[d ->]]];
      repeat first [ rewrite find_box_hit by reflexivity | rewrite find_box_miss by reflexivity ]; reflexivity. }
  rewrite Hmoov. cbn [opt_bind]. unfold moov_tree at 1. cbn [b_children node].
  rewrite find_all_trak_moov.
  assert (Htracks :
    fold_right (fun t acc => match read_track t, acc with Some x, Some l => Some (x :: l) | _, _ => None end)
      (Some []) (vtrak_tree v vt c m :: match audio with Some (a, t) => [atrak_tree a t m] | None => [] end) =
    Some (vtrack v vt c m :: match audio with Some (a, t) => [atrack a t m] | None => [] end)).
  { destruct audio as [[a t]|]; cbn [fold_right].
    - destruct HA as (AL & _). rewrite (read_atrak a t m AL), (read_vtrak v vt c m VL). reflexivity.
    - rewrite (read_vtrak v vt c m VL). reflexivity. }
  rewrite Htracks. reflexivity.
Qed.

Lemma vtrack_handler v t c m : tr_handler (vtrack v t c m) = HV.
Proof. reflexivity. Qed.
Lemma atrack_handler a t m : tr_handler (atrack a t m) = HS.
Proof. reflexivity. Qed.

Lemma track_of_video v vt audio c m : track_of HV (tracks_of v vt audio c m) = Some (vtrack v vt c m).
Proof. unfold track_of, tracks_of. cbn [find]. rewrite vtrack_handler. reflexivity. Qed.

Lemma track_of_audio v vt audio c m :
  track_of HS (tracks_of v vt audio c m) =
  match audio with Some (a, t) => Some (atrack a t m) | None => None end.
Proof.
  unfold track_of, tracks_of. cbn [find]. rewrite vtrack_handler.
  change (bytes_eqb HV HS) with false. cbv iota.
  destruct audio as [[a t]|]; cbn [find]; [rewrite atrack_handler|]; reflexivity.
Qed.

(** ** projections of the queue correspondence *)
Section Proj.
  Variables (b : builder) (ops : list op) (rs : list result) (m : muxer).
  Hypothesis F : Final b ops rs m.
  Let h := accepted b ops (map class_of rs).
  Let w := m_writer m.

  Lemma q_video : map vproj (vsamples w) = map (vexp (cfg_codec b)) (h_v h).
  Proof.
    subst h w. rewrite accepted_fold. cbv zeta. cbn [h_v]. unfold vsamples. rewrite !map_rev.
    f_equal. exact (sim_v _ _ _ (fin_sim _ _ _ _ F)).
  Qed.
  Lemma q_audio : map aproj (asamples w) = map (aexp (cfg_audio b)) (h_a h).
  Proof.
    subst h w. rewrite accepted_fold. cbv zeta. cbn [h_a]. unfold asamples. rewrite !map_rev.
    f_equal. exact (sim_a _ _ _ (fin_sim _ _ _ _ F)).
  Qed.

  Lemma q_proj {A B C D} (f : A -> C) (g : B -> C) (p : C -> D) l l' :
    map f l = map g l' -> map (fun x => p (f x)) l = map (fun x => p (g x)) l'.
  Proof. intros H. rewrite <- (map_map f p), <- (map_map g p), H. reflexivity. Qed.

  Lemma q_vdts : map s_dts (vsamples w) = map vf_dts (h_v h).
  Proof. exact (q_proj vproj (vexp (cfg_codec b)) (fun x => snd (fst (fst x))) _ _ q_video). Qed.
  Lemma q_vpts : map s_pts (vsamples w) = map vf_pts (h_v h).
  Proof. exact (q_proj vproj (vexp (cfg_codec b)) (fun x => fst (fst (fst x))) _ _ q_video). Qed.
  Lemma q_vdata : map s_data (vsamples w) = map (fun f => frame_video (cfg_codec b) (vf_data f)) (h_v h).
  Proof. exact (q_proj vproj (vexp (cfg_codec b)) (fun x => snd (fst x)) _ _ q_video). Qed.
  Lemma q_vkey : map s_key (vsamples w) = map vf_key (h_v h).
  Proof. exact (q_proj vproj (vexp (cfg_codec b)) (fun x => snd x) _ _ q_video). Qed.
  Lemma q_vcts : map (fun s => (Z.of_N (s_pts s) - Z.of_N (s_dts s))%Z) (vsamples w) =
                 map (fun f => (Z.of_N (vf_pts f) - Z.of_N (vf_dts f))%Z) (h_v h).
  Proof.
    exact (q_proj vproj (vexp (cfg_codec b))
             (fun x => (Z.of_N (fst (fst (fst x))) - Z.of_N (snd (fst (fst x))))%Z) _ _ q_video).
  Qed.
  Lemma q_apts : map s_pts (asamples w) = map af_pts (h_a h).
  Proof. exact (q_proj aproj (aexp (cfg_audio b)) (fun x => fst x) _ _ q_audio). Qed.
  Lemma q_adata : map s_data (asamples w) =
                  map (fun f => match cfg_audio b with Some a => frame_audio a (af_data f) | None => [] end) (h_a h).
  Proof. exact (q_proj aproj (aexp (cfg_audio b)) (fun x => snd x) _ _ q_audio). Qed.
End Proj.

(** ** E2: timing *)
Lemma listN_eqb_refl l : listN_eqb l l = true.
Proof. induction l as [|x l IH]; [reflexivity|]. cbn [listN_eqb]. rewrite N.eqb_refl, IH. reflexivity. Qed.
Lemma listZ_eqb_refl l : listZ_eqb l l = true.
Proof. induction l as [|x l IH]; [reflexivity|]. cbn [listZ_eqb]. rewrite Z.eqb_refl, IH. reflexivity. Qed.

Lemma map_u32_le l : Forall (fun d => d <= 4294967295) l -> map u32 l = l.
Proof. intros H. apply map_u32_small. eapply Forall_impl; [|exact H]. cbn beta. intros; lia. Qed.

Lemma mdhd_duration_body ts dur lang :
  mdhd_duration (body (build_mdhd_box ts dur lang)) = Some (u32 dur).
Proof.
  unfold build_mdhd_box. rewrite body_build_box by reflexivity.
  unfold mdhd_duration. cbn [rd32s]. rewrite <- ?app_assoc.
  rewrite !rd32_be32_u32. reflexivity.
Qed.

Lemma timing_core (tr : track) (t : sample_tables) lang dts :
  tr_durations tr = map u32 (st_durations t) ->
  tr_mdhd tr = body (build_mdhd_box MEDIA_TIMESCALE (total_duration t) lang) ->
  Forall (fun d => d <= 4294967295) (st_durations t) ->
  st_durations t = durations_spec dts -> sumN (st_durations t) < 4294967296 ->
  listN_eqb (tr_durations tr) (durations_spec dts) = true /\
  match mdhd_duration (tr_mdhd tr) with Some d => d =? sumN (tr_durations tr) | None => false end = true.
Proof.
  intros E1 E2 Hfit Hspec Hsum. rewrite E1, E2, (map_u32_le _ Hfit), mdhd_duration_body.
  split; [rewrite Hspec; apply listN_eqb_refl|].
  unfold total_duration. rewrite u32_small by exact Hsum. apply N.eqb_refl.
Qed.

Lemma ctts_view_exact z : (-2147483648 <= z <= 2147483647)%Z -> ctts_view z = z.
Proof.
  intros H. unfold ctts_view, i32_of_bits, i32_bits, I32MOD, u32.
  destruct (_ <? 2147483648) eqn:E; lia.
Qed.

Lemma forallb_negb_existsb {A} (p : A -> bool) l :
  existsb (fun x => negb (p x)) l = false -> forallb p l = true.
Proof.
  induction l as [|x l IH]; [reflexivity|]. cbn [existsb forallb]. intros H.
  apply orb_false_iff in H. destruct H as [H1 H2]. rewrite (IH H2).
  destruct (p x); [reflexivity|discriminate].
Qed.

Lemma video_cts_exact w :
  cts_all_fit w ->
  map cts_of (vsamples w) = map (fun s => (Z.of_N (s_pts s) - Z.of_N (s_dts s))%Z) (vsamples w) /\
  map ctts_view (map cts_of (vsamples w)) = map cts_of (vsamples w).
Proof.
  intros H. unfold cts_all_fit in H. apply Forall_rev in H. fold (vsamples w) in H.
  induction H as [|s l Hs _ [IH1 IH2]]; [split; reflexivity|].
  cbn [map]. rewrite IH1, (cts_of_exact s Hs). split; [reflexivity|].
  rewrite <- IH1, IH2, (ctts_view_exact _ Hs). reflexivity.
Qed.
Lemma video_timing b ops rs m v voffs vspc c md :
  Final b ops rs m ->
  sumN (durations_of (vsamples (m_writer m)) (w_vlast_delta (m_writer m))) < 4294967296 ->
  let h := accepted b ops (map class_of rs) in
  check_track_timing
    (vtrack v (from_samples (vsamples (m_writer m)) voffs vspc (w_vlast_delta (m_writer m))) c md)
    (map vf_dts (h_v h)) (map (fun f => (Z.of_N (vf_pts f) - Z.of_N (vf_dts f))%Z) (h_v h)) = true.
Proof.
  intros F Hsum h. set (w := m_writer m) in *.
  set (t := from_samples (vsamples w) voffs vspc (w_vlast_delta w)).
  unfold check_track_timing.
  destruct (timing_core (vtrack v t c md) t (md_lang md) (map vf_dts (h_v h))) as [T1 T2].
  - reflexivity.
  - reflexivity.
  - exact (proj1 (fin_durs _ _ _ _ F)).
  - subst h. rewrite <- (q_vdts b ops rs m F). apply video_durations_are_dts_differences. exact (fin_winv _ _ _ _ F).
  - exact Hsum.
  - rewrite T1, T2. rewrite andb_true_r. cbn [andb].
    destruct (video_cts_exact w (fin_cts _ _ _ _ F)) as [C1 C2].
    subst h. rewrite <- (q_vcts b ops rs m F). fold w. rewrite <- C1.
    change (tr_cts (vtrack v t c md)) with
      (if existsb (fun c0 => negb (Z.eqb c0 0)) (map cts_of (vsamples w))
       then Some (map ctts_view (map cts_of (vsamples w))) else None).
    destruct (existsb (fun c0 => negb (Z.eqb c0 0)) (map cts_of (vsamples w))) eqn:EB.
    + rewrite C2, listZ_eqb_refl. reflexivity.
    + apply forallb_negb_existsb. exact EB.
Qed.

Lemma audio_timing b ops rs m a aoffs md :
  Final b ops rs m ->
  sumN (durations_of (asamples (m_writer m)) (w_alast_delta (m_writer m))) < 4294967296 ->
  let h := accepted b ops (map class_of rs) in
  check_track_timing
    (atrack a (from_samples (asamples (m_writer m)) aoffs 1 (w_alast_delta (m_writer m))) md)
    (map af_pts (h_a h)) (map (fun _ => 0%Z) (h_a h)) = true.
Proof.
  intros F Hsum h. set (w := m_writer m) in *.
  set (t := from_samples (asamples w) aoffs 1 (w_alast_delta w)).
  unfold check_track_timing.
  destruct (timing_core (atrack a t md) t (md_lang md) (map af_pts (h_a h))) as [T1 T2].
  - reflexivity.
  - reflexivity.
  - exact (proj2 (fin_durs _ _ _ _ F)).
  - subst h. rewrite <- (q_apts b ops rs m F). apply audio_durations_are_pts_differences. exact (fin_winv _ _ _ _ F).
  - exact Hsum.
  - rewrite T1, T2. rewrite andb_true_r. cbn [andb].
    change (tr_cts (atrack a t md)) with (@None (list Z)). cbv iota.
    apply forallb_forall. intros x Hx. apply in_map_iff in Hx. destruct Hx as (y & <- & _). reflexivity.
Qed.

Lemma shape_top_shape top moov data start :
  mdat_placement top moov data start -> top_shape top moov.
Proof. intros [[-> _]|[-> _]]; [right; right|right; left]; eexists; reflexivity. Qed.

(* E2 (C03) *)
Theorem finished_file_timing_is_exact : forall b m0 ops m rs s,
  build b [] = inl m0 -> run m0 ops = (m, rs) -> In (RStats s) rs ->
  Forall op_payload_ok ops -> len (sink_of m) < 4294967296 ->
  sumN (durations_of (vsamples (m_writer m)) (w_vlast_delta (m_writer m))) < 4294967296 ->
  sumN (durations_of (asamples (m_writer m)) (w_alast_delta (m_writer m))) < 4294967296 ->
  check_C03 b ops (map class_of rs) (sink_of m) = true.
Proof.
  intros b m0 ops m rs s Hb HR HIn Hok Hlen HsumV HsumA.
  pose proof (final_state b m0 ops m rs s Hb HR HIn Hok) as F.
  destruct (fin_plan _ _ _ _ F) as (v & md & fs & bufs & Hplan & Hsink).
  destruct (fin_sinv _ _ _ _ F) as [[Sv Sa] SA].
  destruct (plan_file_shape _ _ _ _ _ Sv Sa SA Hplan)
    as (voffs & vspc & aoffs & data & start & top & Efile & TV & TA & Hshape).
  cbv zeta in Efile, TV, TA, Hshape.
  unfold check_C03. rewrite (fin_hist _ _ _ _ F). cbn [negb].
  rewrite Hsink in *. rewrite Efile in *.
  rewrite (read_tracks_top top v (from_samples (vsamples (m_writer m)) voffs vspc (w_vlast_delta (m_writer m)))
             (aud_of (m_writer m) aoffs) (effective_config (m_writer m)) md);
    [|destruct Hshape as [(-> & _)|(P & _)]; [left; reflexivity|eapply shape_top_shape; exact P]
     |exact Hlen|exact TV|exact TA].
  rewrite track_of_video, track_of_audio.
  rewrite (video_timing b ops rs m v voffs vspc _ md F HsumV). cbn [andb].
  unfold aud_of. rewrite (sim_waudio _ _ _ (fin_sim _ _ _ _ F)).
  destruct (cfg_audio b) as [a|]; [|reflexivity].
  apply (audio_timing b ops rs m a aoffs md F HsumA).
Qed.
Print Assumptions finished_file_timing_is_exact.
(** * Part 5: ranges, slices, tiling *)

Fixpoint consec (o : N) (l : list N) : list (N * N) :=
  match l with [] => [] | s :: t => (o, s) :: consec (o + s) t end.

Lemma chunk_samples_full : forall l o, chunk_samples l (length l) o = (consec o l, []).
Proof.
  induction l as [|s l IH]; intros o; [reflexivity|].
  cbn [length chunk_samples consec]. rewrite IH. reflexivity.
Qed.

Lemma resolve_single_chunk n o sizes :
  n = len sizes -> 0 < n ->
  resolve_chunks [(1, n, 1)] [o] 1 sizes = consec o sizes.
Proof.
  intros -> Hpos. cbn [resolve_chunks spc_for].
  replace (1 <=? 1) with true by reflexivity. rewrite N.min_id.
  replace (N.to_nat (len sizes)) with (length sizes) by (unfold len; lia).
  rewrite chunk_samples_full. apply app_nil_r.
Qed.

Lemma resolve_one_per_chunk_eq : forall offs szs cno,
  1 <= cno -> length offs = length szs ->
  resolve_chunks [(1, 1, 1)] offs cno szs = combine offs szs.
Proof.
  induction offs as [|o offs IH]; intros szs cno Hc Hl.
  - reflexivity.
  - destruct szs as [|s szs]; [discriminate|].
    cbn [resolve_chunks spc_for].
    replace (1 <=? cno) with true by lia.
    replace (N.to_nat (N.min 1 (len (s :: szs)))) with 1%nat by (rewrite len_cons; lia).
    cbn [chunk_samples]. rewrite chunk_samples_0. cbn [app combine].
    rewrite IH; [reflexivity|lia|cbn [length] in Hl; lia].
Qed.

Lemma combine_map_same {A B C} (f : A -> B) (g : A -> C) l :
  combine (map f l) (map g l) = map (fun x => (f x, g x)) l.
Proof. induction l as [|x l IH]; [reflexivity|]. cbn [map combine]. rewrite IH. reflexivity. Qed.

(* the sample tables as the reader sees them *)
Lemma from_samples_sizes l offs spc fb :
  Forall (fun s => len (s_data s) < 4294967296) l ->
  map u32 (st_sizes (from_samples l offs spc fb)) = map (fun s => len (s_data s)) l.
Proof.
  intros H. unfold from_samples. cbn [st_sizes]. rewrite map_map.
  induction H as [|s l Hs _ IH]; [reflexivity|]. cbn [map]. rewrite IH.
  unfold u32. rewrite !N.mod_small; [reflexivity|exact Hs|].
  apply N.mod_lt. discriminate.
Qed.

Definition sizes_of (l : list sample) : list N := map (fun s => len (s_data s)) l.

Lemma track_ranges hd entry mdhd tkhd t wc ws :
  tr_ranges (track_of_tables hd entry mdhd tkhd t wc ws) =
  resolve_chunks (stsc_of t) (map u32 (st_chunk_offsets t)) 1 (map u32 (st_sizes t)).
Proof. reflexivity. Qed.

Lemma ranges_empty l spc fb :
  resolve_chunks (stsc_of (from_samples l [] spc fb)) (map u32 []) 1
                 (map u32 (st_sizes (from_samples l [] spc fb))) = [].
Proof. reflexivity. Qed.

Lemma ranges_single l o fb :
  l <> [] -> len l < 4294967296 -> o < 4294967296 ->
  Forall (fun s => len (s_data s) < 4294967296) l ->
  resolve_chunks (stsc_of (from_samples l [o] (u32 (len l)) fb)) (map u32 [o]) 1
                 (map u32 (st_sizes (from_samples l [o] (u32 (len l)) fb))) = consec o (sizes_of l).
Proof.
  intros Hne Hn Ho Hs. rewrite from_samples_sizes by exact Hs.
  unfold stsc_of, stsc_view, from_samples. cbn [st_samples_per_chunk st_chunk_offsets map].
  change (u32 (len [o])) with 1.
  assert (Hpos : 0 < len l) by (destruct l; [congruence|rewrite len_cons; lia]).
  rewrite !(u32_small (len l)) by exact Hn. rewrite (u32_small o) by exact Ho.
  replace ((1 =? 0) || (len l =? 0)) with false by lia.
  apply resolve_single_chunk; [unfold sizes_of; rewrite len_map; reflexivity|exact Hpos].
Qed.

Lemma ranges_per_chunk l offs fb :
  length offs = length l -> len l < 4294967296 ->
  Forall (fun o => o < 4294967296) offs ->
  Forall (fun s => len (s_data s) < 4294967296) l ->
  resolve_chunks (stsc_of (from_samples l offs 1 fb)) (map u32 offs) 1
                 (map u32 (st_sizes (from_samples l offs 1 fb))) = combine offs (sizes_of l).
Proof.
  intros Hl Hn Ho Hs. rewrite from_samples_sizes by exact Hs.
  rewrite (map_u32_small _ Ho).
  unfold stsc_of, stsc_view, from_samples. cbn [st_samples_per_chunk st_chunk_offsets].
  assert (Hlo : len offs = len l) by (unfold len; rewrite Hl; reflexivity).
  rewrite Hlo, (u32_small _ Hn).
  destruct offs as [|o offs'].
  - destruct l; [reflexivity|discriminate].
  - replace ((len l =? 0) || (1 =? 0)) with false
      by (destruct l; [discriminate|rewrite len_cons; lia]).
    change (u32 1) with 1.
    apply resolve_one_per_chunk_eq; [lia|unfold sizes_of; rewrite map_length; exact Hl].
Qed.

(** ** slices *)
Lemma slice_app_exact pre d post : slice (pre ++ d ++ post) (len pre) (len d) = d.
Proof. unfold slice. rewrite drop_app_exact. apply take_app_exact. Qed.

Lemma slices_consec : forall (l : list bytes) pre post,
  map (fun r => slice (pre ++ concat l ++ post) (fst r) (snd r)) (consec (len pre) (map (fun d => len d) l)) = l.
Proof.
  induction l as [|d l IH]; intros pre post; [reflexivity|].
  cbn [map consec concat fst snd]. f_equal.
  - rewrite <- app_assoc. apply slice_app_exact.
  - specialize (IH (pre ++ d) post). rewrite len_app, <- !app_assoc in IH.
    rewrite <- app_assoc. exact IH.
Qed.

Lemma pairs_eq {A B} (l l' : list (A * B)) :
  map fst l = map fst l' -> map snd l = map snd l' -> l = l'.
Proof.
  revert l'. induction l as [|[a b] l IH]; intros [|[a' b'] l'] H1 H2; try discriminate; [reflexivity|].
  cbn [map fst snd] in *. inversion H1; inversion H2; subst. f_equal. apply IH; assumption.
Qed.

Lemma samples_eqb_refl l : samples_eqb l l = true.
Proof.
  induction l as [|[x k] l IH]; [reflexivity|]. cbn [samples_eqb].
  rewrite bytes_eqb_refl, Bool.eqb_reflx, IH. reflexivity.
Qed.

Lemma enumerate1_fst_length {A B} : forall (l : list A) (l' : list B) i,
  length l = length l' -> map fst (enumerate1 i l) = map fst (enumerate1 i l').
Proof.
  induction l as [|x l IH]; intros [|y l'] i H; try discriminate; [reflexivity|].
  cbn [enumerate1 map fst]. f_equal. apply IH. cbn [length] in H. lia.
Qed.

Lemma map_enumerate1_snd {A B} (f : A -> B) : forall (l : list A) i,
  map (fun x => f (snd x)) (enumerate1 i l) = map f l.
Proof. induction l as [|r l IH]; intros i; [reflexivity|]. cbn [enumerate1 map snd]. rewrite IH. reflexivity. Qed.

Lemma track_samples_eq file tr (expected : list (bytes * bool)) :
  map (fun r => slice file (fst r) (snd r)) (tr_ranges tr) = map fst expected ->
  map (is_sync tr) (map fst (enumerate1 1 (tr_ranges tr))) = map snd expected ->
  track_samples file tr = expected.
Proof.
  intros H1 H2. apply pairs_eq.
  - unfold track_samples. rewrite map_map. cbn [fst]. rewrite <- H1.
    apply (map_enumerate1_snd (fun r => slice file (fst r) (snd r))).
  - unfold track_samples. rewrite map_map. cbn [snd]. rewrite <- H2, map_map. reflexivity.
Qed.

(** ** sync flags *)
Lemma enumerate1_lower {A} : forall (l : list A) i x, In x (map fst (enumerate1 i l)) -> i <= x.
Proof.
  induction l as [|a l IH]; intros i x H; [destruct H|].
  cbn [enumerate1 map fst] in H. destruct H as [<-|H]; [lia|]. apply IH in H. lia.
Qed.

Lemma keyframes_flags : forall l idx,
  idx + len l < 4294967295 ->
  map (fun i => existsb (N.eqb i) (keyframes_of l idx)) (map fst (enumerate1 (idx + 1) l)) = map s_key l.
Proof.
  induction l as [|s l IH]; intros idx H; [reflexivity|].
  rewrite len_cons in H. cbn [enumerate1 map fst keyframes_of].
  destruct (keyframes_of_props l (idx + 1) ltac:(lia)) as (_ & K2 & _).
  assert (Hhead : existsb (N.eqb (idx + 1)) (keyframes_of l (idx + 1)) = false).
  { apply not_true_is_false. intros E. apply existsb_exists in E. destruct E as (x & Hx & Ex).
    rewrite Forall_forall in K2. specialize (K2 x Hx). lia. }
  assert (E : u32 (u32 idx + 1) = idx + 1) by (unfold u32; lia).
  assert (Htail : forall K, map (fun i => existsb (N.eqb i) ((idx + 1) :: K)) (map fst (enumerate1 (idx + 1 + 1) l)) =
                            map (fun i => existsb (N.eqb i) K) (map fst (enumerate1 (idx + 1 + 1) l))).
  { intros K. apply map_ext_in. intros x Hx. apply enumerate1_lower in Hx. cbn [existsb].
    replace (x =? idx + 1) with false by lia. reflexivity. }
  destruct (s_key s).
  - rewrite E. f_equal.
    + cbn [existsb]. rewrite N.eqb_refl. reflexivity.
    + rewrite Htail. apply IH. lia.
  - rewrite Hhead. f_equal. apply IH. lia.
Qed.

(** ** sorting and tiling *)
Definition rle_ (x y : N * N) : Prop := fst x <= fst y.
Definition rlt_ (x y : N * N) : Prop := fst x < fst y.

Lemma ins_range_perm x l : Permutation (ins_range x l) (x :: l).
Proof.
  induction l as [|y t IH]; cbn [ins_range]; [reflexivity|].
  destruct (fst x <=? fst y); [reflexivity|].
  rewrite IH. apply perm_swap.
Qed.

Lemma sort_ranges_perm l : Permutation (sort_ranges l) l.
Proof.
  induction l as [|x t IH]; [reflexivity|]. cbn [sort_ranges fold_right].
  fold (sort_ranges t). rewrite ins_range_perm. constructor. exact IH.
Qed.

Lemma ins_range_sorted x l : StronglySorted rle_ l -> StronglySorted rle_ (ins_range x l).
Proof.
  induction l as [|y t IH]; intros H; cbn [ins_range].
  - constructor; constructor.
  - inversion H as [|? ? St Fy]; subst.
    destruct (fst x <=? fst y) eqn:E.
    + constructor; [exact H|]. constructor; [unfold rle_; lia|].
      eapply Forall_impl; [|exact Fy]. unfold rle_. intros; lia.
    + constructor; [apply IH; exact St|].
      eapply Permutation_Forall; [symmetry; apply ins_range_perm|].
      constructor; [unfold rle_; lia|exact Fy].
Qed.

Lemma sort_ranges_sorted l : StronglySorted rle_ (sort_ranges l).
Proof.
  induction l as [|x t IH]; [constructor|]. cbn [sort_ranges fold_right]. fold (sort_ranges t).
  apply ins_range_sorted. exact IH.
Qed.

Lemma sorted_perm_unique : forall l1 l2,
  StronglySorted rle_ l1 -> StronglySorted rlt_ l2 -> Permutation l1 l2 -> l1 = l2.
Proof.
  induction l1 as [|x l1 IH]; intros l2 S1 S2 P.
  - apply Permutation_nil in P. subst. reflexivity.
  - destruct l2 as [|y l2].
    + symmetry in P. apply Permutation_nil in P. discriminate.
    + inversion S1 as [|? ? S1' F1]; inversion S2 as [|? ? S2' F2]; subst.
      assert (E : x = y).
      { assert (Hx : In x (y :: l2)) by (eapply Permutation_in; [exact P|apply in_eq]).
        assert (Hy : In y (x :: l1)) by (eapply Permutation_in; [symmetry; exact P|apply in_eq]).
        destruct Hx as [->|Hx]; [reflexivity|].
        destruct Hy as [->|Hy]; [reflexivity|].
        rewrite Forall_forall in F1, F2. specialize (F1 _ Hy). specialize (F2 _ Hx).
        unfold rle_, rlt_ in *. lia. }
      subst y. f_equal. apply IH; try assumption.
      eapply Permutation_cons_inv. exact P.
Qed.

Lemma sort_ranges_unique l target :
  StronglySorted rlt_ target -> Permutation l target -> sort_ranges l = target.
Proof.
  intros S P. apply sorted_perm_unique; [apply sort_ranges_sorted|exact S|].
  rewrite sort_ranges_perm. exact P.
Qed.

Lemma filter_split_perm {A} (f g : A -> bool) l :
  (forall x, g x = negb (f x)) -> Permutation (filter f l ++ filter g l) l.
Proof.
  intros Hg. induction l as [|x l IH]; [reflexivity|]. cbn [filter]. rewrite Hg.
  destruct (f x); cbn [negb app].
  - constructor. exact IH.
  - rewrite <- Permutation_middle. constructor. exact IH.
Qed.

Lemma consec_tiles : forall l o, tiles (consec o l) o (o + sumN l) = true.
Proof.
  induction l as [|s l IH]; intros o; cbn [consec tiles sumN].
  - apply N.eqb_eq. lia.
  - rewrite N.eqb_refl. cbn [andb]. replace (o + (s + sumN l)) with (o + s + sumN l) by lia. apply IH.
Qed.

Lemma consec_sorted : forall l o, Forall (fun s => 0 < s) l -> StronglySorted rlt_ (consec o l).
Proof.
  induction l as [|s l IH]; intros o H; cbn [consec]; [constructor|].
  inversion H as [|? ? Hs Hl]; subst. constructor; [apply IH; exact Hl|].
  clear IH H. assert (G : forall l o', o < o' -> Forall (fun s => 0 < s) l -> Forall (rlt_ (o, s)) (consec o' l)).
  { induction l0 as [|s' l' IH']; intros o' Ho Hl'; cbn [consec]; constructor.
    - unfold rlt_. cbn [fst]. exact Ho.
    - inversion Hl'; subst. apply IH'; [lia|assumption]. }
  apply G; [lia|exact Hl].
Qed.

Lemma ranges_ordered_consec : forall l o, ranges_ordered (consec o l) = true.
Proof.
  induction l as [|s l IH]; intros o; [reflexivity|].
  destruct l as [|s' l']; [reflexivity|].
  change (consec o (s :: s' :: l')) with ((o, s) :: consec (o + s) (s' :: l')).
  cbn [ranges_ordered consec] in *. rewrite N.leb_refl. cbn [andb]. apply (IH (o + s)).
Qed.
(** * Part 6: the interleaved layouts: tagged schedule *)
Section Inter.
  Variables vs as_ : list sample.
  Notation data := (sched_data vs as_).
  Notation sched := (compute_interleave_schedule vs as_).
  Hypothesis Hdts : dts_increasing vs.
  Hypothesis Hpts : pts_nondecreasing as_.
  Hypothesis Pv : Forall (fun s => 0 < len (s_data s)) vs.
  Hypothesis Pa : Forall (fun s => 0 < len (s_data s)) as_.

  Definition rng (p : sched_entry * N) : N * N := (snd p, len (data (fst p))).
  Definition FV (start : N) := filter (pf is_video_entry) (tag vs as_ sched start).
  Definition FA (start : N) := filter (pf is_audio_entry) (tag vs as_ sched start).

  Lemma index_from_sample_data : forall l pre,
    map (fun p => sample_at (pre ++ l) (fst p)) (index_from (length pre) l) = map s_data l.
  Proof.
    induction l as [|x l IH]; intros pre; [reflexivity|].
    cbn [index_from map fst]. f_equal.
    - unfold sample_at. rewrite nth_error_app2 by lia. rewrite Nat.sub_diag. reflexivity.
    - specialize (IH (pre ++ [x])). rewrite <- app_assoc in IH. cbn [app] in IH.
      rewrite app_length in IH. cbn [length] in IH. rewrite Nat.add_1_r in IH. exact IH.
  Qed.

  Lemma data_video_entries : map data (video_entries vs) = map s_data vs.
  Proof.
    unfold video_entries. rewrite map_map. cbn [sched_data fst snd].
    exact (index_from_sample_data vs []).
  Qed.
  Lemma data_audio_entries : map data (audio_entries as_) = map s_data as_.
  Proof.
    unfold audio_entries. rewrite map_map. cbn [sched_data fst snd].
    exact (index_from_sample_data as_ []).
  Qed.

  Lemma FV_fst start : map fst (FV start) = video_entries vs.
  Proof. unfold FV. rewrite tag_filter_fst. apply schedule_keeps_video_in_sample_order. exact Hdts. Qed.
  Lemma FA_fst start : map fst (FA start) = audio_entries as_.
  Proof. unfold FA. rewrite tag_filter_fst. apply schedule_keeps_audio_in_sample_order. exact Hpts. Qed.

  Lemma FV_data start : map (fun p => data (fst p)) (FV start) = map s_data vs.
  Proof. rewrite <- (map_map fst data), FV_fst. apply data_video_entries. Qed.
  Lemma FA_data start : map (fun p => data (fst p)) (FA start) = map s_data as_.
  Proof. rewrite <- (map_map fst data), FA_fst. apply data_audio_entries. Qed.

  Lemma FV_length start : length (FV start) = length vs.
  Proof. rewrite <- (map_length fst), FV_fst. apply video_entries_length. Qed.
  Lemma FA_length start : length (FA start) = length as_.
  Proof. rewrite <- (map_length fst), FA_fst. apply audio_entries_length. Qed.

  Lemma FV_ranges start : combine (map snd (FV start)) (sizes_of vs) = map rng (FV start).
  Proof.
    unfold sizes_of. rewrite <- (map_map s_data (fun d => len d)), <- (FV_data start), map_map.
    apply combine_map_same.
  Qed.
  Lemma FA_ranges start : combine (map snd (FA start)) (sizes_of as_) = map rng (FA start).
  Proof.
    unfold sizes_of. rewrite <- (map_map s_data (fun d => len d)), <- (FA_data start), map_map.
    apply combine_map_same.
  Qed.

  (* addressing *)
  Lemma tag_slices start pre post (P : sched_entry -> bool) :
    len pre = start ->
    map (fun r => slice (pre ++ concat (map data sched) ++ post) (fst r) (snd r))
        (map rng (filter (pf P) (tag vs as_ sched start))) =
    map (fun p => data (fst p)) (filter (pf P) (tag vs as_ sched start)).
  Proof.
    intros Hpre. rewrite map_map. apply map_ext_in. intros p Hp.
    apply filter_In in Hp. destruct Hp as [Hp _].
    pose proof (tag_addresses vs as_ sched start pre post Hpre) as Addr.
    rewrite Forall_forall in Addr. exact (Addr p Hp).
  Qed.

  Lemma FV_slices start pre post : len pre = start ->
    map (fun r => slice (pre ++ concat (map data sched) ++ post) (fst r) (snd r)) (map rng (FV start)) =
    map s_data vs.
  Proof. intros H. unfold FV. rewrite (tag_slices start pre post _ H). apply FV_data. Qed.
  Lemma FA_slices start pre post : len pre = start ->
    map (fun r => slice (pre ++ concat (map data sched) ++ post) (fst r) (snd r)) (map rng (FA start)) =
    map s_data as_.
  Proof. intros H. unfold FA. rewrite (tag_slices start pre post _ H). apply FA_data. Qed.

  (* every scheduled entry carries data *)
  Lemma sched_data_pos : Forall (fun e => 0 < len (data e)) sched.
  Proof.
    eapply Permutation_Forall; [symmetry; apply schedule_perm|].
    apply Forall_app. split.
    - apply Forall_forall. intros e He.
      assert (In (data e) (map s_data vs)) by (rewrite <- data_video_entries; apply in_map; exact He).
      apply in_map_iff in H. destruct H as (s & Es & Hs). rewrite <- Es.
      rewrite Forall_forall in Pv. exact (Pv s Hs).
    - apply Forall_forall. intros e He.
      assert (In (data e) (map s_data as_)) by (rewrite <- data_audio_entries; apply in_map; exact He).
      apply in_map_iff in H. destruct H as (s & Es & Hs). rewrite <- Es.
      rewrite Forall_forall in Pa. exact (Pa s Hs).
  Qed.

  Lemma tag_rng_sorted : forall sc c,
    Forall (fun e => 0 < len (data e)) sc -> StronglySorted rlt_ (map rng (tag vs as_ sc c)).
  Proof.
    induction sc as [|e t IH]; intros c H; cbn [tag map]; [constructor|].
    inversion H as [|? ? He Ht]; subst. constructor; [apply IH; exact Ht|].
    pose proof (tag_lower vs as_ t (c + len (data e))) as L.
    apply Forall_forall. intros r Hr. apply in_map_iff in Hr. destruct Hr as (q & <- & Hq).
    rewrite Forall_forall in L. specialize (L q Hq). unfold rlt_, rng. cbn [fst snd]. lia.
  Qed.

  Lemma tag_rng_tiles : forall sc c,
    tiles (map rng (tag vs as_ sc c)) c (c + len (concat (map data sc))) = true.
  Proof.
    induction sc as [|e t IH]; intros c; cbn [tag map concat tiles rng fst snd].
    - apply N.eqb_eq. cbn. lia.
    - rewrite N.eqb_refl. cbn [andb]. rewrite len_app.
      replace (c + (len (data e) + len (concat (map data t)))) with (c + len (data e) + len (concat (map data t))) by lia.
      apply IH.
  Qed.

  Lemma tag_upper : forall sc c,
    Forall (fun p => snd p + len (data (fst p)) <= c + len (concat (map data sc))) (tag vs as_ sc c).
  Proof.
    induction sc as [|e t IH]; intros c; cbn [tag map concat]; constructor.
    - cbn [fst snd]. rewrite len_app. lia.
    - eapply Forall_impl; [|apply IH]. cbn beta. intros p Hp. rewrite len_app. lia.
  Qed.

  Lemma all_ranges_sorted start :
    sort_ranges (map rng (FV start) ++ map rng (FA start)) = map rng (tag vs as_ sched start).
  Proof.
    apply sort_ranges_unique.
    - apply tag_rng_sorted. exact sched_data_pos.
    - rewrite <- map_app. apply Permutation_map. unfold FV, FA.
      apply filter_split_perm. intros [e c]. reflexivity.
  Qed.

  Lemma offsets_bounded start (P : sched_entry -> bool) bound :
    start + len (concat (map data sched)) <= bound ->
    Forall (fun o => o < bound + 1) (map snd (filter (pf P) (tag vs as_ sched start))).
  Proof.
    intros Hb. apply Forall_forall. intros o Ho. apply in_map_iff in Ho. destruct Ho as (p & <- & Hp).
    apply filter_In in Hp. destruct Hp as [Hp _].
    pose proof (tag_upper sched start) as U. rewrite Forall_forall in U. specialize (U p Hp). lia.
  Qed.
End Inter.
(** * Part 7: where the mdat payload sits *)

Fixpoint layout_of (l : list btree) (off : N) : list (bytes * N * N) :=
  match l with
  | [] => []
  | x :: t => (b_typ x, off, 8 + len (b_payload x)) :: layout_of t (off + 8 + len (b_payload x))
  end.

Lemma top_layout_f_boxes : forall (l : list btree) f off,
  Forall (fun x => length (b_typ x) = 4%nat /\ 8 + len (b_payload x) < 4294967296) l ->
  (length l < f)%nat ->
  top_layout_f f (flat_map enc l) off = Some (layout_of l off).
Proof.
  induction l as [|x t IH]; intros f off HF Hf.
  - destruct f; [lia|]. reflexivity.
  - destruct f as [|f]; [lia|]. inversion HF as [|? ? [Ht Hp] HF']; subst.
    destruct x as [typ p kids]. cbn [b_typ b_payload] in *.
    destruct typ as [|t0 [|t1 [|t2 [|t3 [|]]]]]; try discriminate.
    cbn [flat_map layout_of b_typ b_payload].
    unfold enc at 1. cbn [b_typ b_payload top_layout_f].
    rewrite (parse_box_build_box t0 t1 t2 t3 p _ Hp).
    rewrite IH by (try assumption; cbn [length] in Hf; lia).
    unfold build_box, be32. cbn [app]. reflexivity.
Qed.

Lemma top_layout_boxes (l : list btree) :
  Forall (fun x => length (b_typ x) = 4%nat /\ 8 + len (b_payload x) < 4294967296) l ->
  top_layout (flat_map enc l) = Some (layout_of l 0).
Proof.
  intros H. unfold top_layout. apply top_layout_f_boxes; [exact H|].
  pose proof (length_flat_map_enc l). lia.
Qed.

Lemma len_enc_box t p kids : len (enc (Box t p kids)) = 4 + len t + len p.
Proof. apply len_enc. Qed.

Lemma len_ftyp_box : len build_ftyp_box = 24.
Proof. reflexivity. Qed.
Lemma len_ftyp_body : len (body build_ftyp_box) = 16.
Proof. reflexivity. Qed.

Lemma mdat_range_no_mdat moov_p moov_k :
  let top := [ftyp_tree; Box T_moov moov_p moov_k] in
  len (flat_map enc top) < 4294967296 ->
  mdat_range (flat_map enc top) = Some None.
Proof.
  intros top Hlen. subst top. unfold mdat_range. rewrite top_layout_boxes.
  - reflexivity.
  - cbn [flat_map] in Hlen. rewrite app_nil_r, len_app in Hlen.
    unfold ftyp_tree, leafb, leaf in *. rewrite !len_enc_box in Hlen.
    change (len T_ftyp) with 4 in Hlen. change (len T_moov) with 4 in Hlen.
    repeat constructor; cbn [b_payload]; lia.
Qed.

Lemma mdat_range_placed top moov_p moov_k data start :
  mdat_placement top (Box T_moov moov_p moov_k) data start ->
  len (flat_map enc top) < 4294967296 ->
  mdat_range (flat_map enc top) = Some (Some (start, start + len data)) /\
  exists pre post, flat_map enc top = pre ++ data ++ post /\ len pre = start.
Proof.
  intros [[-> ->]|[-> ->]] Hlen.
  - assert (HF : Forall (fun x => length (b_typ x) = 4%nat /\ 8 + len (b_payload x) < 4294967296)
                   [ftyp_tree; mdat_tree data; Box T_moov moov_p moov_k]).
    { cbn [flat_map] in Hlen. rewrite app_nil_r, !len_app in Hlen.
      unfold ftyp_tree, mdat_tree, leafb, leaf in *. rewrite !len_enc_box in Hlen.
      change (len T_ftyp) with 4 in Hlen. change (len T_moov) with 4 in Hlen. change (len T_mdat) with 4 in Hlen.
      repeat constructor; cbn [b_payload]; lia. }
    split.
    + unfold mdat_range. rewrite (top_layout_boxes _ HF).
      cbn [layout_of filter fst snd b_typ b_payload ftyp_tree mdat_tree leafb leaf].
      change (bytes_eqb T_ftyp T_MDAT) with false.
      change (bytes_eqb T_mdat T_MDAT) with true.
      change (bytes_eqb T_moov T_MDAT) with false.
      cbv iota. rewrite len_ftyp_box, len_ftyp_body.
      f_equal. f_equal. f_equal; lia.
    + exists (enc ftyp_tree ++ be32 (8 + len data) ++ T_mdat), (enc (Box T_moov moov_p moov_k)).
      split.
      * cbn [flat_map]. rewrite app_nil_r. unfold mdat_tree, leaf. unfold enc at 2.
        cbn [b_typ b_payload]. unfold build_box. rewrite <- !app_assoc. reflexivity.
      * rewrite !len_app, len_be32, enc_ftyp, ?len_enc_box. change (len T_mdat) with 4. change (len T_moov) with 4. lia.
  - assert (HF : Forall (fun x => length (b_typ x) = 4%nat /\ 8 + len (b_payload x) < 4294967296)
                   [ftyp_tree; Box T_moov moov_p moov_k; mdat_tree data]).
    { cbn [flat_map] in Hlen. rewrite app_nil_r, !len_app in Hlen.
      unfold ftyp_tree, mdat_tree, leafb, leaf in *. rewrite !len_enc_box in Hlen.
      change (len T_ftyp) with 4 in Hlen. change (len T_moov) with 4 in Hlen. change (len T_mdat) with 4 in Hlen.
      repeat constructor; cbn [b_payload]; lia. }
    split.
    + unfold mdat_range. rewrite (top_layout_boxes _ HF).
      cbn [layout_of filter fst snd b_typ b_payload ftyp_tree mdat_tree leafb leaf].
      change (bytes_eqb T_ftyp T_MDAT) with false.
      change (bytes_eqb T_mdat T_MDAT) with true.
      change (bytes_eqb T_moov T_MDAT) with false.
      cbv iota. rewrite len_ftyp_box, len_ftyp_body, len_enc_box. change (len T_moov) with 4.
      f_equal. f_equal. f_equal; lia.
    + exists (enc ftyp_tree ++ enc (Box T_moov moov_p moov_k) ++ be32 (8 + len data) ++ T_mdat), [].
      split.
      * cbn [flat_map]. rewrite !app_nil_r. unfold mdat_tree, leaf. unfold enc at 3.
        cbn [b_typ b_payload]. unfold build_box. rewrite <- !app_assoc. reflexivity.
      * rewrite !len_app, len_be32, enc_ftyp, ?len_enc_box. change (len T_mdat) with 4. change (len T_moov) with 4. lia.
Qed.
(** * Part 8: the resolved layout of a finished file *)

Inductive Layout (w : writer) (file : bytes) (Rv Ra : list (N * N)) : Prop :=
| L_none :
    vsamples w = [] -> asamples w = [] -> Rv = [] -> Ra = [] ->
    mdat_range file = Some None -> Layout w file Rv Ra
| L_single (start : N) (pre post : bytes) :
    asamples w = [] -> Ra = [] -> Rv = consec start (sizes_of (vsamples w)) ->
    file = pre ++ concat (map s_data (vsamples w)) ++ post -> len pre = start ->
    mdat_range file = Some (Some (start, start + len (concat (map s_data (vsamples w))))) ->
    Layout w file Rv Ra
| L_inter (start : N) (pre post : bytes) :
    Rv = map (rng (vsamples w) (asamples w)) (FV (vsamples w) (asamples w) start) ->
    Ra = map (rng (vsamples w) (asamples w)) (FA (vsamples w) (asamples w) start) ->
    file = pre ++ concat (map (sched_data (vsamples w) (asamples w)) (sched_of w)) ++ post -> len pre = start ->
    mdat_range file = Some (Some (start, start + len (concat (map (sched_data (vsamples w) (asamples w)) (sched_of w))))) ->
    Layout w file Rv Ra.

Definition audio_ranges (aud : option (audio_track * sample_tables)) (md : option metadata) : list (N * N) :=
  match aud with Some (a, t) => tr_ranges (atrack a t md) | None => [] end.

Lemma final_layout b ops rs m :
  Final b ops rs m -> len (sink_of m) < 4294967296 ->
  exists v md voffs vspc aoffs top,
    let w := m_writer m in
    let vt := from_samples (vsamples w) voffs vspc (w_vlast_delta w) in
    let aud := aud_of w aoffs in
    read_tracks (sink_of m) = Some (top, tracks_of v vt aud (effective_config w) md) /\
    TabsOK vt /\ len (vsamples w) < 4294967295 /\
    Layout w (sink_of m) (tr_ranges (vtrack v vt (effective_config w) md)) (audio_ranges aud md).
Proof.
  intros F Hlen.
  destruct (fin_plan _ _ _ _ F) as (v & md & fs & bufs & Hplan & Hsink).
  destruct (fin_sinv _ _ _ _ F) as [[Sv Sa] SA].
  destruct (fin_winv _ _ _ _ F) as (Hdts & Hpts & _).
  pose proof (samples_pos _ Sv) as Pv. pose proof (samples_pos _ Sa) as Pa.
  pose proof (samples_small _ Sv) as Smv. pose proof (samples_small _ Sa) as Sma.
  set (w := m_writer m) in *. fold (vsamples w) in Pv, Smv. fold (asamples w) in Pa, Sma.
  destruct (plan_file_shape _ _ _ _ _ Sv Sa SA Hplan)
    as (voffs & vspc & aoffs & data & start & top & Efile & TV & TA & Hshape).
  cbv zeta in Efile, TV, TA, Hshape.
  exists v, md, voffs, vspc, aoffs, top. cbv zeta.
  set (vt := from_samples (vsamples w) voffs vspc (w_vlast_delta w)) in *.
  set (aud := aud_of w aoffs) in *.
  rewrite Hsink in *. rewrite Efile in *.
  assert (Hread : read_tracks (flat_map enc top) = Some (top, tracks_of v vt aud (effective_config w) md)).
  { apply read_tracks_top; try assumption.
    destruct Hshape as [(-> & _)|(P & _)]; [left; reflexivity|eapply shape_top_shape; exact P]. }
  split; [exact Hread|]. split; [exact TV|].
  assert (Hnv : len (vsamples w) < 4294967296).
  { destruct TV as ((Hn & _) & _). unfold vt, from_samples in Hn. cbn [st_sizes] in Hn.
    rewrite len_map in Hn. exact Hn. }
  unfold vtrack. rewrite track_ranges.
  destruct Hshape as [(Etop & Evs & EA & Evo & Espc)|(Hplace & Hcase)].
  - (* ftyp moov *)
    assert (Eas : asamples w = []) by (unfold asamples; rewrite (SA EA); reflexivity).
    split; [rewrite Evs; reflexivity|].
    apply L_none; try assumption.
    + unfold vt. rewrite Evo. apply ranges_empty.
    + unfold aud, aud_of. rewrite EA. reflexivity.
    + subst top. unfold moov_tree, node in *. apply mdat_range_no_mdat. exact Hlen.
  - unfold moov_tree, node in Hplace, Hlen.
    destruct (mdat_range_placed _ _ _ _ _ Hplace Hlen) as (Hrange & pre & post & Esplit & Hpre).
    fold (node T_moov [] (moov_kids v vt aud (effective_config w) md)) in Hplace, Hlen, Esplit, Hrange.
    fold (moov_tree v vt aud (effective_config w) md) in Hplace, Hlen, Esplit, Hrange.
    assert (Hstart : start + len data <= 4294967295).
    { rewrite Esplit, !len_app in Hlen. lia. }
    assert (Hst8 : 8 <= start).
    { destruct Hplace as [[_ ->]|[_ ->]]; lia. }
    assert (Hcount : len (vsamples w) < 4294967295).
    { pose proof (payload_sum_ge_len _ Pv) as G.
      destruct Hcase as [(_ & Edata & _)|(_ & _ & Edata & _)]; rewrite Edata in Hstart.
      - rewrite payload_sum_concat in Hstart. lia.
      - unfold sched_of in Hstart. rewrite sched_payload_sum in Hstart. lia. }
    split; [exact Hcount|].
    destruct Hcase as [(EA & Edata & Hvs)|(EA & Espc & Edata & Evo & Eao)].
    + (* single chunk *)
      assert (Eas : asamples w = []) by (unfold asamples; rewrite (SA EA); reflexivity).
      apply (L_single _ _ _ _ start pre post); try assumption.
      * unfold aud, aud_of. rewrite EA. reflexivity.
      * destruct Hvs as [(Evs & Evo & Espc)|(Evs & Evo & Espc)].
        -- unfold vt. rewrite Evo, Evs. reflexivity.
        -- unfold vt. rewrite Evo, Espc. apply ranges_single; try assumption. lia.
      * rewrite Esplit, Edata. reflexivity.
      * rewrite Hrange, Edata. reflexivity.
    + (* interleaved *)
      apply (L_inter _ _ _ _ start pre post); try assumption.
      * unfold vt. rewrite Espc, Evo.
        rewrite ranges_per_chunk; try assumption.
        -- apply FV_ranges. exact Hdts.
        -- unfold vo_of. fold (FV (vsamples w) (asamples w) start). rewrite map_length. apply FV_length. exact Hdts.
        -- apply (offsets_bounded (vsamples w) (asamples w) start is_video_entry 4294967295).
           rewrite Edata in Hstart. exact Hstart.
      * assert (Hex : exists a, w_audio w = Some a) by (destruct (w_audio w); [eauto|congruence]).
        destruct Hex as [a EAw].
        assert (Eaud : aud = Some (a, from_samples (asamples w) aoffs 1 (w_alast_delta w)))
          by (unfold aud, aud_of; rewrite EAw; reflexivity).
        rewrite Eaud in TA |- *. cbn [audio_ranges]. unfold atrack. rewrite track_ranges, Eao.
        assert (Hna : len (asamples w) < 4294967296).
        { destruct TA as ((Hn & _) & _). unfold from_samples in Hn. cbn [st_sizes] in Hn.
          rewrite len_map in Hn. exact Hn. }
        rewrite ranges_per_chunk; try assumption.
        -- apply FA_ranges. exact Hpts.
        -- unfold ao_of. fold (FA (vsamples w) (asamples w) start). rewrite map_length. apply FA_length. exact Hpts.
        -- apply (offsets_bounded (vsamples w) (asamples w) start is_audio_entry 4294967295).
           rewrite Edata in Hstart. exact Hstart.
      * rewrite Esplit, Edata. reflexivity.
      * rewrite Hrange, Edata. reflexivity.
Qed.
(** * Part 9 (E1): samples resolve to the submitted bytes; ranges tile the mdat *)

Lemma sizes_of_map l : sizes_of l = map (fun d => len d) (map s_data l).
Proof. unfold sizes_of. rewrite map_map. reflexivity. Qed.

Lemma layout_slices w file Rv Ra :
  WInv w -> Forall (fun s => 0 < len (s_data s)) (vsamples w) -> Forall (fun s => 0 < len (s_data s)) (asamples w) ->
  Layout w file Rv Ra ->
  map (fun r => slice file (fst r) (snd r)) Rv = map s_data (vsamples w) /\
  map (fun r => slice file (fst r) (snd r)) Ra = map s_data (asamples w).
Proof.
  intros (Hdts & Hpts & _) Pv Pa [Evs Eas -> -> _|start pre post Eas -> -> -> Hpre _|start pre post -> -> -> Hpre _].
  - rewrite Evs, Eas. split; reflexivity.
  - rewrite Eas. split; [|reflexivity]. rewrite sizes_of_map, <- Hpre. apply slices_consec.
  - split; [apply FV_slices|apply FA_slices]; assumption.
Qed.

Definition tile_check (file : bytes) (all_ranges : list (N * N)) : bool :=
  match mdat_range file with
  | Some (Some (s, e)) => tiles all_ranges s e
  | Some None => match all_ranges with [] => true | _ => false end
  | None => false
  end.

Lemma layout_tiles w file Rv Ra :
  WInv w -> Forall (fun s => 0 < len (s_data s)) (vsamples w) -> Forall (fun s => 0 < len (s_data s)) (asamples w) ->
  Layout w file Rv Ra ->
  tile_check file (sort_ranges (Rv ++ Ra)) = true.
Proof.
  intros (Hdts & Hpts & _) Pv Pa [Evs Eas -> -> HR|start pre post Eas -> -> -> Hpre HR|start pre post -> -> -> Hpre HR];
    unfold tile_check; rewrite HR.
  - reflexivity.
  - rewrite app_nil_r.
    rewrite (sort_ranges_unique _ (consec start (sizes_of (vsamples w)))).
    + rewrite len_concat, <- sizes_of_map. apply consec_tiles.
    + apply consec_sorted. unfold sizes_of. apply Forall_forall. intros x Hx.
      apply in_map_iff in Hx. destruct Hx as (s & <- & Hs). rewrite Forall_forall in Pv. exact (Pv s Hs).
    + reflexivity.
  - rewrite all_ranges_sorted by assumption. apply tag_rng_tiles.
Qed.

Lemma tracks_ranges v vt aud c md :
  concat (map tr_ranges (tracks_of v vt aud c md)) = tr_ranges (vtrack v vt c md) ++ audio_ranges aud md.
Proof.
  unfold tracks_of, audio_ranges. destruct aud as [[a t]|]; cbn [map concat]; rewrite ?app_nil_r; reflexivity.
Qed.

Lemma existsb_rev {A} (p : A -> bool) l : existsb p (rev l) = existsb p l.
Proof.
  destruct (existsb p l) eqn:E.
  - apply existsb_exists in E. destruct E as (x & Hx & Px).
    apply existsb_exists. exists x. split; [rewrite <- in_rev; exact Hx|exact Px].
  - apply not_true_is_false. intros E'. apply existsb_exists in E'. destruct E' as (x & Hx & Px).
    rewrite <- in_rev in Hx. assert (existsb p l = true) by (apply existsb_exists; eauto). congruence.
Qed.

Lemma keyframes_nonempty : forall l idx, existsb s_key l = true -> keyframes_of l idx <> [].
Proof.
  induction l as [|s l IH]; intros idx H; [discriminate|].
  cbn [existsb keyframes_of] in *. destruct (s_key s); [discriminate|]. apply IH. exact H.
Qed.

Lemma video_sync_flags v vs offs spc fb c md (R : list (N * N)) :
  TabsOK (from_samples vs offs spc fb) ->
  (vs = [] \/ existsb s_key vs = true) -> length R = length vs -> len vs < 4294967295 ->
  map (is_sync (vtrack v (from_samples vs offs spc fb) c md)) (map fst (enumerate1 1 R)) = map s_key vs.
Proof.
  intros ((Hn & _) & _ & (_ & HK)) Hk HL Hcount.
  unfold from_samples in Hn, HK. cbn [st_sizes st_keyframes] in Hn, HK. rewrite len_map in Hn, HK.
  destruct Hk as [->|Hk].
  - destruct R; [reflexivity|discriminate].
  - rewrite (enumerate1_fst_length R vs 1 HL).
    pose proof (keyframes_nonempty vs 0 Hk) as Hne.
    assert (Esync : tr_sync (vtrack v (from_samples vs offs spc fb) c md) = Some (keyframes_of vs 0)).
    { unfold vtrack, track_of_tables, has_kf, from_samples. cbn [tr_sync st_keyframes].
      destruct (keyframes_of vs 0) as [|k ks] eqn:EK; [congruence|].
      rewrite map_u32_small; [reflexivity|].
      eapply Forall_impl; [|exact HK]. cbn beta. intros; lia. }
    unfold is_sync. rewrite Esync.
    exact (keyframes_flags vs 0 ltac:(lia)).
Qed.
Lemma map_const_length {A B C} (c : C) : forall (l : list A) (l' : list B),
  length l = length l' -> map (fun _ => c) l = map (fun _ => c) l'.
Proof.
  induction l as [|x l IH]; intros [|y l'] H; try discriminate; [reflexivity|].
  cbn [map]. f_equal. apply IH. cbn [length] in H. lia.
Qed.

Lemma length_enumerate1 {A} : forall (l : list A) i, length (enumerate1 i l) = length l.
Proof. induction l as [|x l IH]; intros i; [reflexivity|]. cbn [enumerate1 length]. rewrite IH. reflexivity. Qed.

Lemma KInv_vsamples w : KInv w -> vsamples w = [] \/ existsb s_key (vsamples w) = true.
Proof.
  unfold KInv, vsamples. intros [->|H]; [left; reflexivity|right]. rewrite existsb_rev. exact H.
Qed.

(* E1 (C01) *)
Theorem finished_file_resolves_to_submitted_samples : forall b m0 ops m rs s,
  build b [] = inl m0 -> run m0 ops = (m, rs) -> In (RStats s) rs ->
  Forall op_payload_ok ops -> len (sink_of m) < 4294967296 ->
  check_C01 b ops (map class_of rs) (sink_of m) = true.
Proof.
  intros b m0 ops m rs s Hb HR HIn Hok Hlen.
  pose proof (final_state b m0 ops m rs s Hb HR HIn Hok) as F.
  destruct (final_layout b ops rs m F Hlen) as (v & md & voffs & vspc & aoffs & top & Hread & TV & Hcount & HL).
  cbv zeta in Hread, TV, Hcount, HL.
  destruct (fin_sinv _ _ _ _ F) as [[Sv Sa] SA].
  pose proof (samples_pos _ Sv) as Pv. pose proof (samples_pos _ Sa) as Pa.
  pose proof (fin_winv _ _ _ _ F) as HW.
  set (w := m_writer m) in *. fold (vsamples w) in Pv. fold (asamples w) in Pa.
  set (vt := from_samples (vsamples w) voffs vspc (w_vlast_delta w)) in *.
  set (c := effective_config w) in *.
  set (file := sink_of m) in *.
  destruct (layout_slices w _ _ _ HW Pv Pa HL) as [SlV SlA].
  pose proof (layout_tiles w _ _ _ HW Pv Pa HL) as HT.
  set (h := accepted b ops (map class_of rs)).
  (* video samples *)
  assert (Ev : track_samples file (vtrack v vt c md) =
               map (fun f => (frame_video (cfg_codec b) (vf_data f), vf_key f)) (h_v h)).
  { apply track_samples_eq.
    - rewrite SlV, map_map. cbn [fst]. exact (q_vdata b ops rs m F).
    - rewrite (map_map _ snd). cbn [snd]. change (map (fun x : vframe => vf_key x) (h_v h)) with (map vf_key (h_v h)).
      subst h. rewrite <- (q_vkey b ops rs m F). fold w.
      apply video_sync_flags; [exact TV|apply KInv_vsamples; exact (fin_kinv _ _ _ _ F)| |exact Hcount].
      apply (f_equal (@length bytes)) in SlV. rewrite !map_length in SlV. exact SlV. }
  subst h. unfold check_C01. cbv zeta. rewrite (fin_hist _ _ _ _ F). cbn [negb]. fold file. rewrite Hread.
  rewrite track_of_video, track_of_audio, tracks_ranges, Ev, samples_eqb_refl. cbn [andb].
  fold (tile_check file (sort_ranges (tr_ranges (vtrack v vt c md) ++ audio_ranges (aud_of w aoffs) md))).
  rewrite HT.
  assert (EWA : w_audio w = cfg_audio b) by exact (sim_waudio _ _ _ (fin_sim _ _ _ _ F)).
  unfold aud_of in *. rewrite EWA in *.
  destruct (cfg_audio b) as [a|] eqn:ECA; [|reflexivity].
  cbn [audio_ranges] in SlA.
  set (t := from_samples (asamples w) aoffs 1 (w_alast_delta w)) in *.
  assert (Ea : track_samples file (atrack a t md) =
               map (fun f => (frame_audio a (af_data f), true)) (h_a (accepted b ops (map class_of rs)))).
  { apply track_samples_eq.
    - rewrite SlA, map_map. cbn [fst]. unfold w. rewrite (q_adata b ops rs m F), ECA. reflexivity.
    - rewrite (map_map _ snd). cbn [snd].
      transitivity (map (fun _ : N => true) (map fst (enumerate1 1 (tr_ranges (atrack a t md))))).
      + apply map_ext. intros i. reflexivity.
      + apply map_const_length. rewrite map_length, length_enumerate1.
        apply (f_equal (@length bytes)) in SlA. rewrite !map_length in SlA. rewrite SlA.
        pose proof (q_apts b ops rs m F) as Q. apply (f_equal (@length N)) in Q. rewrite !map_length in Q. exact Q. }
  rewrite Ea, samples_eqb_refl. reflexivity.
Qed.
Print Assumptions finished_file_resolves_to_submitted_samples.
(** * Part 10 (E3): storage order *)

Lemma map_snd_index_from {A} : forall (l : list A) k, map snd (index_from k l) = l.
Proof. induction l as [|x l IH]; intros k; [reflexivity|]. cbn [index_from map snd]. rewrite IH. reflexivity. Qed.

Lemma ranges_ordered_sorted (l : list (N * N)) :
  StronglySorted (fun x y => fst x + snd x <= fst y) l -> ranges_ordered l = true.
Proof.
  induction 1 as [|[o s] t St IH Fx]; [reflexivity|].
  destruct t as [|[o' s'] t']; [reflexivity|].
  cbn [ranges_ordered] in *. rewrite IH. inversion Fx as [|? ? H1 _]; subst. cbn [fst snd] in H1.
  replace (o + s <=? o') with true by lia. reflexivity.
Qed.

Lemma ssorted_map {A B} (R : A -> A -> Prop) (R' : B -> B -> Prop) (f : A -> B) l :
  (forall a b, R a b -> R' (f a) (f b)) -> StronglySorted R l -> StronglySorted R' (map f l).
Proof.
  intros HR. induction 1 as [|x t St IH Fx]; cbn [map]; constructor; [exact IH|].
  apply Forall_forall. intros y Hy. apply in_map_iff in Hy. destruct Hy as (a & <- & Ha).
  rewrite Forall_forall in Fx. apply HR, Fx, Ha.
Qed.

Lemma combine_related {A B C} (f : A -> C) (g : B -> C) : forall (l : list A) (l' : list B),
  map f l = map g l' -> forall x y, In (x, y) (combine l l') -> f x = g y.
Proof.
  induction l as [|a l IH]; intros [|b l'] H x y Hin; try destruct Hin.
  - cbn [map] in H. inversion H. inversion H0; subst. assumption.
  - cbn [map] in H. inversion H. eapply IH; eassumption.
Qed.

Lemma combine_map_r {A B C} (g : B -> C) : forall (l : list A) (l' : list B),
  combine l (map g l') = map (fun p => (fst p, g (snd p))) (combine l l').
Proof.
  induction l as [|a l IH]; intros [|b l']; try reflexivity. cbn [map combine fst snd]. rewrite IH. reflexivity.
Qed.

Section Order.
  Variables vs as_ : list sample.
  Notation data := (sched_data vs as_).
  Notation sched := (compute_interleave_schedule vs as_).
  Hypothesis Hdts : dts_increasing vs.
  Hypothesis Hpts : pts_nondecreasing as_.

  Definition ets (p : sched_entry * N) : N := fst (fst (fst p)).

  Lemma FV_ts start : map ets (FV vs as_ start) = map s_dts vs.
  Proof.
    unfold ets. rewrite <- (map_map (@fst sched_entry N) (fun e : sched_entry => fst (fst e))), (FV_fst vs as_ Hdts).
    unfold video_entries. rewrite map_map. cbn [fst]. rewrite <- (map_map snd s_dts), map_snd_index_from. reflexivity.
  Qed.
  Lemma FA_ts start : map ets (FA vs as_ start) = map s_pts as_.
  Proof.
    unfold ets. rewrite <- (map_map (@fst sched_entry N) (fun e : sched_entry => fst (fst e))), (FA_fst vs as_ Hpts).
    unfold audio_entries. rewrite map_map. cbn [fst]. rewrite <- (map_map snd s_pts), map_snd_index_from. reflexivity.
  Qed.

  Lemma tag_stor start : StronglySorted (stor vs as_) (tag vs as_ sched start).
  Proof. apply tag_ssorted. apply schedule_ssorted. Qed.

  Lemma filtered_ranges_ordered start (P : sched_entry -> bool) :
    ranges_ordered (map (rng vs as_) (filter (pf P) (tag vs as_ sched start))) = true.
  Proof.
    apply ranges_ordered_sorted.
    eapply (ssorted_map (stor vs as_)); [|apply filter_ssorted; apply tag_stor].
    intros p q [_ H]. unfold rng. cbn [fst snd]. exact H.
  Qed.

  Lemma cross_order start p q :
    In p (FV vs as_ start) -> In q (FA vs as_ start) ->
    (if ets p <=? ets q then fst (rng vs as_ p) + snd (rng vs as_ p) <=? fst (rng vs as_ q)
     else fst (rng vs as_ q) + snd (rng vs as_ q) <=? fst (rng vs as_ p)) = true.
  Proof.
    intros Hp Hq. unfold FV, FA in *. apply filter_In in Hp, Hq.
    destruct Hp as [Hp Kp], Hq as [Hq Kq].
    destruct p as [[[tp kp] ip] cp], q as [[[tq kq] iq] cq].
    unfold pf, is_audio_entry, is_video_entry in Kp, Kq. cbn [fst snd] in Kp, Kq.
    destruct kp; [|discriminate]. destruct kq; [discriminate|].
    unfold ets, rng. cbn [fst snd].
    destruct (ssorted_in2 _ _ (tag_stor start) _ _ Hp Hq) as [E|[[L R]|[L R]]].
    - discriminate.
    - cbn [fst snd] in L, R. unfold sched_le, sched_leb in L. cbn [kind_ord] in L.
      destruct (tp <=? tq) eqn:E; [lia|]. exfalso. sched_crush.
    - cbn [fst snd] in L, R. unfold sched_le, sched_leb in L. cbn [kind_ord] in L.
      destruct (tp <=? tq) eqn:E; [|lia]. exfalso. sched_crush.
  Qed.
End Order.

Lemma layout_ordered w file Rv Ra :
  WInv w -> Layout w file Rv Ra -> ranges_ordered Rv = true /\ ranges_ordered Ra = true.
Proof.
  intros (Hdts & Hpts & _) [_ _ -> -> _|start pre post _ -> -> _ _ _|start pre post -> -> _ _ _].
  - split; reflexivity.
  - split; [apply ranges_ordered_consec|reflexivity].
  - split; apply filtered_ranges_ordered.
Qed.

Definition cross_check (hv : list vframe) (ha : list aframe) (Rv Ra : list (N * N)) : bool :=
  forallb (fun vp =>
    forallb (fun ap =>
      let '(vf, (vo, vs)) := vp in
      let '(af, (ao, asz)) := ap in
      if vf_dts vf <=? af_pts af then vo + vs <=? ao else ao + asz <=? vo)
      (combine ha Ra))
    (combine hv Rv).

Lemma layout_cross w file Rv Ra hv ha :
  WInv w -> Layout w file Rv Ra ->
  map vf_dts hv = map s_dts (vsamples w) -> map af_pts ha = map s_pts (asamples w) ->
  cross_check hv ha Rv Ra = true.
Proof.
  intros (Hdts & Hpts & _) HL Ev Ea. unfold cross_check.
  destruct HL as [_ _ -> -> _|start pre post _ -> -> _ _ _|start pre post -> -> _ _ _].
  - destruct hv; reflexivity.
  - apply forallb_forall. intros [vf [vo vsz]] _. destruct ha; reflexivity.
  - apply forallb_forall. intros [vf [vo vsz]] Hv. apply forallb_forall. intros [af [ao asz]] Ha.
    rewrite combine_map_r in Hv. rewrite combine_map_r in Ha. apply in_map_iff in Hv. apply in_map_iff in Ha.
    destruct Hv as ([vf' p] & Epv & Hv), Ha as ([af' q] & Epa & Ha). cbn [fst snd] in Epv, Epa.
    inversion Epv; subst vf' vo vsz. inversion Epa; subst af' ao asz.
    assert (Tv : vf_dts vf = ets p).
    { eapply (combine_related vf_dts ets); [|exact Hv]. rewrite Ev, FV_ts by assumption. reflexivity. }
    assert (Ta : af_pts af = ets q).
    { eapply (combine_related af_pts ets); [|exact Ha]. rewrite Ea, FA_ts by assumption. reflexivity. }
    rewrite Tv, Ta. apply in_combine_r in Hv, Ha.
    exact (cross_order _ _ start p q Hv Ha).
Qed.

(* E3 (C15) *)
Theorem finished_file_storage_order : forall b m0 ops m rs s,
  build b [] = inl m0 -> run m0 ops = (m, rs) -> In (RStats s) rs ->
  Forall op_payload_ok ops -> len (sink_of m) < 4294967296 ->
  check_C15 b ops (map class_of rs) (sink_of m) = true.
Proof.
  intros b m0 ops m rs s Hb HR HIn Hok Hlen.
  pose proof (final_state b m0 ops m rs s Hb HR HIn Hok) as F.
  destruct (final_layout b ops rs m F Hlen) as (v & md & voffs & vspc & aoffs & top & Hread & TV & Hcount & HL).
  cbv zeta in Hread, TV, Hcount, HL.
  pose proof (fin_winv _ _ _ _ F) as HW.
  destruct (layout_ordered _ _ _ _ HW HL) as [OV OA].
  pose proof (layout_cross _ _ _ _ (h_v (accepted b ops (map class_of rs))) (h_a (accepted b ops (map class_of rs)))
                HW HL (eq_sym (q_vdts b ops rs m F)) (eq_sym (q_apts b ops rs m F))) as HC.
  unfold check_C15. cbv zeta. rewrite (fin_hist _ _ _ _ F). cbn [negb]. rewrite Hread.
  rewrite track_of_video, track_of_audio.
  assert (Hall : forallb (fun tr => ranges_ordered (tr_ranges tr))
                   (tracks_of v (from_samples (vsamples (m_writer m)) voffs vspc (w_vlast_delta (m_writer m)))
                      (aud_of (m_writer m) aoffs) (effective_config (m_writer m)) md) = true).
  { unfold tracks_of. cbn [forallb]. rewrite OV. cbn [andb].
    unfold audio_ranges in OA. destruct (aud_of (m_writer m) aoffs) as [[a t]|]; [|reflexivity].
    cbn [forallb]. rewrite OA. reflexivity. }
  rewrite Hall. cbn [andb].
  destruct (cfg_audio b) as [a0|]; [|reflexivity].
  destruct (aud_of (m_writer m) aoffs) as [[a t]|]; [|reflexivity].
  destruct (forallb _ (h_v _)); [|reflexivity].
  exact HC.
Qed.
Print Assumptions finished_file_storage_order.
