(** The moov box's length (and every byte outside the stco payloads) does not
    depend on the VALUES of the chunk offsets, only on how many there are. *)
From Coq Require Import Lia ZifyN ZifyNat ZifyBool.
From Muxide Require Import Model.Base Model.Codec Model.Boxes Proofs.BaseProofs.
Open Scope N_scope.
Ltac Zify.zify_post_hook ::= Z.div_mod_to_equations.

(* two sample tables that differ at most in the VALUES of their chunk offsets *)
Definition same_shape (a b : sample_tables) : Prop :=
  st_durations a = st_durations b /\ st_sizes a = st_sizes b /\ st_keyframes a = st_keyframes b /\
  length (st_chunk_offsets a) = length (st_chunk_offsets b) /\
  st_samples_per_chunk a = st_samples_per_chunk b /\ st_cts_offsets a = st_cts_offsets b /\
  st_has_bframes a = st_has_bframes b.

Lemma length_build_box t p : length (build_box t p) = (4 + length t + length p)%nat.
Proof. unfold build_box. rewrite !app_length, be32_length. lia. Qed.

Lemma length_build_box_congr t p p' :
  length p = length p' -> length (build_box t p) = length (build_box t p').
Proof. intros H. rewrite !length_build_box, H. reflexivity. Qed.

Lemma length_app_congr_r {A} (a b b' : list A) :
  length b = length b' -> length (a ++ b) = length (a ++ b').
Proof. intros H. rewrite !app_length, H. reflexivity. Qed.

Lemma length_app_congr {A} (a a' b b' : list A) :
  length a = length a' -> length b = length b' -> length (a ++ b) = length (a' ++ b').
Proof. intros Ha Hb. rewrite !app_length, Ha, Hb. reflexivity. Qed.

Lemma length_concat_be32 (l : list N) : length (concat (map be32 l)) = (4 * length l)%nat.
Proof.
  induction l as [|x l IH]; [reflexivity|].
  cbn [map concat]. rewrite app_length, be32_length, IH. cbn [length]. lia.
Qed.

Lemma len_eq_of_length_eq {A B} (a : list A) (b : list B) : length a = length b -> len a = len b.
Proof. unfold len. intros ->. reflexivity. Qed.

Lemma length_stco_congr o o' :
  length o = length o' -> length (build_stco_box o) = length (build_stco_box o').
Proof.
  intros H. unfold build_stco_box. apply length_build_box_congr.
  rewrite !app_length, !be32_length, !length_concat_be32, H. reflexivity.
Qed.

Lemma length_stbl_congr v vt vt' c :
  same_shape vt vt' -> length (build_stbl_box v vt c) = length (build_stbl_box v vt' c).
Proof.
  intros (Hd & Hs & Hk & Ho & Hspc & Hcts & Hb).
  unfold build_stbl_box. rewrite Hd, Hs, Hk, Hspc, Hcts, Hb.
  rewrite (len_eq_of_length_eq _ _ Ho).
  apply length_build_box_congr.
  do 5 (apply length_app_congr; [reflexivity|]).
  apply length_app_congr; [|reflexivity].
  apply length_stco_congr, Ho.
Qed.

Lemma length_audio_stbl_congr a t t' :
  same_shape t t' -> length (build_audio_stbl_box a t) = length (build_audio_stbl_box a t').
Proof.
  intros (Hd & Hs & Hk & Ho & Hspc & Hcts & Hb).
  unfold build_audio_stbl_box. rewrite Hd, Hs, Hspc.
  rewrite (len_eq_of_length_eq _ _ Ho).
  apply length_build_box_congr.
  do 4 (apply length_app_congr; [reflexivity|]).
  apply length_stco_congr, Ho.
Qed.

Lemma total_duration_same_shape t t' : same_shape t t' -> total_duration t = total_duration t'.
Proof. intros (Hd & _). unfold total_duration. rewrite Hd. reflexivity. Qed.

Lemma length_trak_congr v vt vt' c m :
  same_shape vt vt' -> length (build_trak_box v vt c m) = length (build_trak_box v vt' c m).
Proof.
  intros H. unfold build_trak_box, build_mdia_box, build_minf_box.
  rewrite (total_duration_same_shape _ _ H).
  repeat (rewrite length_build_box || rewrite app_length).
  rewrite (length_stbl_congr v vt vt' c H). reflexivity.
Qed.

Lemma length_audio_trak_congr a t t' m :
  same_shape t t' -> length (build_audio_trak_box a t m) = length (build_audio_trak_box a t' m).
Proof.
  intros H. unfold build_audio_trak_box, build_audio_mdia_box, build_audio_minf_box.
  rewrite (total_duration_same_shape _ _ H).
  repeat (rewrite length_build_box || rewrite app_length).
  rewrite (length_audio_stbl_congr a t t' H). reflexivity.
Qed.

Theorem moov_length_independent_of_offsets : forall v vt vt' c m,
  same_shape vt vt' ->
  length (build_moov_box v vt None c m) = length (build_moov_box v vt' None c m).
Proof.
  intros v vt vt' c m H. unfold build_moov_box.
  rewrite (total_duration_same_shape _ _ H).
  apply length_build_box_congr, length_app_congr_r.
  apply length_app_congr; [|reflexivity].
  apply length_trak_congr, H.
Qed.
Print Assumptions moov_length_independent_of_offsets.

Theorem moov_length_independent_of_offsets_av : forall v vt vt' a at_ at_' c m,
  same_shape vt vt' -> same_shape at_ at_' ->
  length (build_moov_box v vt (Some (a, at_)) c m) = length (build_moov_box v vt' (Some (a, at_')) c m).
Proof.
  intros v vt vt' a at_ at_' c m H Ha. unfold build_moov_box.
  rewrite (total_duration_same_shape _ _ H).
  apply length_build_box_congr, length_app_congr_r.
  apply length_app_congr; [apply length_trak_congr, H|].
  apply length_app_congr; [|reflexivity].
  apply length_audio_trak_congr, Ha.
Qed.
Print Assumptions moov_length_independent_of_offsets_av.

Lemma build_box_eq t p q : p = q -> build_box t p = be32 (8 + len q) ++ t ++ q.
Proof. intros ->. reflexivity. Qed.

(* stronger: the two moov boxes are equal once the stco payloads are erased; state it as:
   all boxes other than stco are byte-identical *)
Theorem stbl_differs_only_in_stco : forall v vt vt' c,
  same_shape vt vt' ->
  exists pre post,
    build_stbl_box v vt c  = be32 (8 + len (pre ++ build_stco_box (st_chunk_offsets vt)  ++ post)) ++ T_stbl ++ pre ++ build_stco_box (st_chunk_offsets vt)  ++ post /\
    build_stbl_box v vt' c = be32 (8 + len (pre ++ build_stco_box (st_chunk_offsets vt') ++ post)) ++ T_stbl ++ pre ++ build_stco_box (st_chunk_offsets vt') ++ post.
Proof.
  intros v vt vt' c (Hd & Hs & Hk & Ho & Hspc & Hcts & Hb).
  exists (build_stsd_box v c ++ build_stts_box (st_durations vt) ++
          (if st_has_bframes vt then build_ctts_box (st_cts_offsets vt) else []) ++
          build_stsc_box (st_samples_per_chunk vt) (u32 (len (st_chunk_offsets vt))) ++
          build_stsz_box (st_sizes vt)).
  exists (match st_keyframes vt with [] => [] | _ => build_stss_box (st_keyframes vt) end).
  unfold build_stbl_box.
  rewrite <- Hd, <- Hs, <- Hk, <- Hspc, <- Hcts, <- Hb.
  rewrite <- (len_eq_of_length_eq _ _ Ho).
  split; apply build_box_eq; rewrite <- !app_assoc; reflexivity.
Qed.
Print Assumptions stbl_differs_only_in_stco.
