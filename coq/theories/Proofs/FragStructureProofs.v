(** Fragmented muxer, structural and timing statements:
    S1 init segment well-formedness, S2 media segment well-formedness,
    S3 init segment stability, S4 flush base decode time, S5 per-segment timing
    read back from the bytes, S6 decode times never go back across segments. *)
From Coq Require Import Lia ZifyN ZifyNat ZifyBool Sorting.Sorted.
From Muxide Require Import Model.Base Model.Codec Model.Boxes Model.Writer Model.Api Model.Frag
  Spec.Bmff Spec.Reader Spec.FragSpec Spec.Layout Spec.Checks Proofs.BaseProofs Proofs.TableProofs Proofs.FragProofs.
Open Scope N_scope.
Ltac Zify.zify_post_hook ::= Z.div_mod_to_equations.

Local Arguments N.add : simpl never.
Local Arguments N.sub : simpl never.
Local Arguments N.mul : simpl never.
Local Arguments N.div : simpl never.
Local Arguments N.modulo : simpl never.
Local Arguments N.eqb : simpl never.
Local Arguments N.ltb : simpl never.
Local Arguments N.leb : simpl never.

(** * S3: the init segment is stable *)
Definition init_inv (c : frag_config) (m : fmuxer) : Prop :=
  fm_config m = c /\ (fm_init m = None \/ fm_init m = Some (init_segment_bytes c)).

Lemma init_inv_new c : init_inv c (fmuxer_new c).
Proof. split; [reflexivity|left; reflexivity]. Qed.

Lemma fstep_init_inv c m o :
  init_inv c m ->
  init_inv c (fst (fstep m o)) /\
  (forall b, snd (fstep m o) = FrBytes b -> b = init_segment_bytes c) /\
  snd (fstep m o) <> FrPanic.
Proof.
  intros [Hc Hi]. destruct o as [p d b s| | | |]; cbn [fstep].
  - unfold f_write. destruct (fm_last_dts m) as [l|]; [destruct (d <? l)|];
      cbn [fst snd]; (split; [split; [exact Hc|exact Hi]|split; [intros b0 Hb; discriminate|discriminate]]).
  - unfold f_flush. destruct (rev (fm_samples_rev m)) as [|s0 rest];
      cbn [fst snd]; (split; [split; [exact Hc|exact Hi]|split; [intros b0 Hb; discriminate|discriminate]]).
  - cbn [fst snd]. split; [split; [exact Hc|exact Hi]|split; [intros b0 Hb; discriminate|discriminate]].
  - cbn [fst snd]. split; [split; [exact Hc|exact Hi]|split; [intros b0 Hb; discriminate|discriminate]].
  - unfold f_init. destruct (fm_init m) as [b0|] eqn:E; cbn [fst snd].
    + split; [split; [exact Hc|rewrite E; exact Hi]|].
      split; [|discriminate].
      intros b1 Hb. inversion Hb; subst b1.
      destruct Hi as [Hi|Hi]; [discriminate|]. inversion Hi. reflexivity.
    + split; [split; [exact Hc|right; cbn [fm_init]; rewrite Hc; reflexivity]|].
      split; [|discriminate].
      intros b1 Hb. inversion Hb. rewrite Hc. reflexivity.
Qed.

Lemma frun_init_stable c : forall ops m b,
  init_inv c m -> In (FrBytes b) (snd (frun m ops)) -> b = init_segment_bytes c.
Proof.
  induction ops as [|o t IH]; intros m b Hinv Hin.
  - cbn [frun snd] in Hin. destruct Hin.
  - cbn [frun] in Hin.
    destruct (fstep_init_inv c m o Hinv) as (Hinv' & Hb & Hnp).
    destruct (fstep m o) as [m' r] eqn:E. cbn [fst snd] in Hinv', Hb, Hnp.
    destruct (frun m' t) as [m'' rs] eqn:E'.
    assert (Hrs : forall b, In (FrBytes b) rs -> b = init_segment_bytes c).
    { intros b0 Hb0. apply (IH m' b0 Hinv'). rewrite E'. exact Hb0. }
    destruct r; cbn [snd] in Hin;
      try (destruct Hin as [Hin|Hin]; [try discriminate|apply Hrs; exact Hin]).
    + inversion Hin; subst. apply Hb. reflexivity.
    + exfalso. apply Hnp. reflexivity.
Qed.

Theorem init_segment_is_stable : forall (c : frag_config) (ops : list fop) (b : bytes),
  In (FrBytes b) (snd (frun (fmuxer_new c) ops)) -> b = init_segment_bytes c.
Proof. intros c ops b H. exact (frun_init_stable c ops _ b (init_inv_new c) H). Qed.
Print Assumptions init_segment_is_stable.

(** * S4 *)
Theorem flush_emits_segment_based_at_first_dts : forall (m : fmuxer) (b : bytes),
  snd (f_flush m) = FrSeg (Some b) ->
  exists s0 rest, rev (fm_samples_rev m) = s0 :: rest /\
                  b = build_media_segment (s0 :: rest) (fm_seq m) (fs_dts s0).
Proof.
  intros m b H. unfold f_flush in H.
  destruct (rev (fm_samples_rev m)) as [|s0 rest]; cbn [snd] in H.
  - discriminate.
  - inversion H. exists s0, rest. split; reflexivity.
Qed.
Print Assumptions flush_emits_segment_based_at_first_dts.

(** * S6 *)
Definition all_dts (segs : list (N * list frag_sample)) : list N := map fs_dts (concat (map snd segs)).

Definition ge_last (last : option N) (d : N) : Prop :=
  match last with Some l => l <= d | None => True end.

Lemma accepted_writes_sorted : forall ops last,
  StronglySorted (fun a b => a <= b) (map fs_dts (accepted_writes last ops)) /\
  Forall (ge_last last) (map fs_dts (accepted_writes last ops)).
Proof.
  induction ops as [|o t IH]; intros last.
  - cbn [accepted_writes map]. split; constructor.
  - destruct o as [p d b s| | | |]; cbn [accepted_writes]; try apply IH.
    assert (Hcase : (match last with Some l => d <? l | None => false end) = true \/ ge_last last d).
    { destruct last as [l|]; cbn [ge_last]; [|right; exact I].
      destruct (d <? l) eqn:E; [left; reflexivity|right; lia]. }
    destruct Hcase as [E|Hge]; [rewrite E; apply IH|].
    replace (match last with Some l => d <? l | None => false end) with false
      by (destruct last as [l|]; [cbn [ge_last] in Hge; lia|reflexivity]).
    destruct (IH (Some d)) as [HS HF]. cbn [map fs_dts]. cbn [ge_last] in HF.
    split.
    + constructor; [exact HS|exact HF].
    + constructor; [exact Hge|].
      revert HF. apply Forall_impl. intros a Ha.
      destruct last as [l|]; cbn [ge_last] in *; [lia|exact I].
Qed.

Lemma StronglySorted_app_l {A} (R : A -> A -> Prop) (a b : list A) :
  StronglySorted R (a ++ b) -> StronglySorted R a.
Proof.
  induction a as [|x a IH]; intros H; [constructor|].
  cbn [app] in H. apply StronglySorted_inv in H. destruct H as [HS HF].
  constructor; [apply IH; exact HS|].
  apply Forall_app in HF. apply HF.
Qed.

Theorem emitted_decode_times_never_go_back : forall (ops : list fop),
  Sorted.StronglySorted (fun a b => a <= b) (all_dts (aq_run aq_init ops)).
Proof.
  intros ops. unfold all_dts.
  apply (StronglySorted_app_l _ _
           (map fs_dts (aq_pending (fold_left (fun q o => fst (aq_step q o)) ops aq_init)))).
  rewrite <- map_app, queue_conserves_samples.
  apply accepted_writes_sorted.
Qed.
Print Assumptions emitted_decode_times_never_go_back.

(** * S5 *)
Lemma spec_seg_samples_sview l : spec_seg_samples l = sview None l.
Proof. reflexivity. Qed.

Lemma sview_fields : forall l prev,
  map ss_duration (sview prev l) = spec_durations prev l /\
  map ss_cts (sview prev l) = map (fun s => (Z.of_N (fs_pts s) - Z.of_N (fs_dts s))%Z) l /\
  map ss_sync (sview prev l) = map fs_sync l /\
  map ss_data (sview prev l) = map fs_data l.
Proof.
  induction l as [|s t IH]; intros prev.
  - repeat split; reflexivity.
  - destruct (IH (Some (fs_dts s))) as (H1 & H2 & H3 & H4).
    unfold sview in *. cbn [spec_durations combine map fst snd ss_duration ss_cts ss_sync ss_data].
    rewrite H1, H2, H3, H4. repeat split; reflexivity.
Qed.

Theorem segment_timing_reads_back : forall (l : list frag_sample) (s0 : frag_sample) (rest : list frag_sample) (seq : N),
  l = s0 :: rest -> seg_fits l -> 96 + 16 * len l < 2147483648 -> seq < 4294967296 ->
  exists v, segment_read (build_media_segment l seq (fs_dts s0)) = Some v /\
            sv_tfdt v = fs_dts s0 /\
            map ss_duration (sv_samples v) = spec_durations None l /\
            map ss_cts (sv_samples v) = map (fun s => (Z.of_N (fs_pts s) - Z.of_N (fs_dts s))%Z) l /\
            map ss_sync (sv_samples v) = map fs_sync l /\
            map ss_data (sv_samples v) = map fs_data l.
Proof.
  intros l s0 rest seq Hl Hfit Hoff Hseq.
  assert (Hbase : fs_dts s0 < 18446744073709551616).
  { destruct Hfit as (_ & _ & _ & _ & Hd). rewrite Hl in Hd.
    inversion Hd as [|? ? H0 _]. exact H0. }
  assert (Hne : l <> []) by (rewrite Hl; discriminate).
  exists {| sv_seq := seq; sv_tfdt := fs_dts s0; sv_samples := spec_seg_samples l |}.
  split; [apply segment_roundtrip; assumption|].
  cbn [sv_tfdt sv_samples]. split; [reflexivity|].
  rewrite spec_seg_samples_sview. apply sview_fields.
Qed.
Print Assumptions segment_timing_reads_back.

(** * S2 *)
Lemma read_fragment_payload_irrel t p p' k :
  read_fragment (Box t p k) = read_fragment (Box t p' k).
Proof. reflexivity. Qed.

Theorem media_segment_is_wellformed : forall (l : list frag_sample) (seq base : N),
  seg_fits l -> 96 + 16 * len l < 2147483648 -> seq < 4294967296 -> base < 18446744073709551616 ->
  check_segment_structure (build_media_segment l seq base) = true.
Proof.
  intros l seq base (Hsum & Hlen & Hdur & Hcts & _) Hoff Hseq Hbase.
  assert (Hsz : Forall (fun s => len (fs_data s) < 4294967296) l)
    by (apply sumN_bound_each; lia).
  assert (Hso : seg_off l < 4294967296) by (unfold seg_off; lia).
  rewrite media_segment_boxes by lia.
  set (a := P_mfhd seq). set (b := P_tfhd). set (c := P_tfdt base).
  set (d := P_trun l (seg_off l)). set (e := concat (map fs_data l)).
  assert (Hpf : parse_file (build_box T_moof (moof_payload a b c d) ++ build_box T_mdat e) =
                Some [moof_tree a b c d; Box T_mdat e []]).
  { rewrite <- (parse_file_segment a b c d e).
    - cbn [cat_boxes]. rewrite app_nil_r. reflexivity.
    - reflexivity.
    - reflexivity.
    - unfold c, P_tfdt, be64. rewrite !len_app, !len_be32. lia.
    - unfold d. rewrite len_P_trun. unfold seg_off in Hso. lia.
    - unfold e. rewrite len_concat_data. lia.
    - unfold b, c, d. rewrite (len_traf_payload l base). lia.
    - unfold a, b, c, d. rewrite (len_moof_payload l seq base). lia. }
  unfold check_segment_structure. rewrite Hpf. unfold moof_tree. cbv beta iota.
  change (bytes_eqb T_moof (TT 109 111 111 102)) with true.
  change (bytes_eqb T_mdat T_MDAT) with true.
  change (bytes_eqb T_mfhd (TT 109 102 104 100)) with true.
  change (bytes_eqb T_traf (TT 116 114 97 102)) with true.
  change (bytes_eqb T_tfhd (TT 116 102 104 100)) with true.
  change (bytes_eqb T_tfdt (TT 116 102 100 116)) with true.
  change (bytes_eqb T_trun (TT 116 114 117 110)) with true.
  cbn [andb].
  rewrite (read_fragment_payload_irrel T_moof [] (moof_payload a b c d)).
  change (Box T_moof (moof_payload a b c d)
            [Box T_mfhd a [];
             Box T_traf (traf_payload b c d) [Box T_tfhd b []; Box T_tfdt c []; Box T_trun d []]])
    with (moof_tree a b c d).
  rewrite (read_fragment_built a b c d seq 131072 1 (be64 base) base
             (i32_of_bits (seg_off l)) (tview None l)).
  - cbn [fr_samples]. unfold e. rewrite len_concat_data, sumN_tview. apply N.eqb_refl.
  - unfold a, P_mfhd. rewrite <- (app_nil_r (be32 seq)). apply rd32s_2; lia.
  - reflexivity.
  - unfold c, P_tfdt. apply rd32_be32. lia.
  - rewrite <- (app_nil_r (be64 base)). apply rd64_be64. exact Hbase.
  - unfold d. apply decode_trun_built; try assumption. lia.
Qed.
Print Assumptions media_segment_is_wellformed.

(** * S1 *)
Lemma len_build_box4 t p : length t = 4%nat -> len (build_box t p) = 8 + len p.
Proof. intros H. rewrite len_build_box. unfold len at 1. rewrite H. lia. Qed.

Lemma forest_go_container_pre d t pre x r k :
  container_prefix t = Some k -> len pre = k ->
  forest_go d ((t, pre ++ x) :: r) =
  match parse_forest d x, forest_go d r with
  | Some c, Some rest => Some (Box t (pre ++ x) c :: rest)
  | _, _ => None
  end.
Proof.
  intros H Hk. change (forest_go d ((t, pre ++ x) :: r)) with
    (match match container_prefix t with
           | None => Some []
           | Some k => if len (pre ++ x) <? k then None else parse_forest d (drop k (pre ++ x))
           end, forest_go d r with
     | Some c, Some rest => Some (Box t (pre ++ x) c :: rest)
     | _, _ => None
     end).
  rewrite H, len_app. replace (len pre + len x <? k) with false by lia.
  rewrite <- Hk, drop_app_exact. reflexivity.
Qed.

Definition Q_trex : bytes := be32 0 ++ be32 1 ++ be32 1 ++ be32 0 ++ be32 0 ++ be32 0.
Definition Q0 : bytes := be32 0 ++ be32 0.
Definition Q_stsz : bytes := be32 0 ++ be32 0 ++ be32 0.
Definition Q_url : bytes := [0; 0; 0; 1].
Definition Q8 : bytes := be32 0 ++ be32 1.

Section Shape.
Variables (pf pmv ptk pmd ph pv te vp tc pc : bytes).

Definition S_entry := cat_boxes [(tc, pc)].
Definition S_stsd := cat_boxes [(te, vp ++ S_entry)].
Definition S_stbl := cat_boxes [(T_stsd, Q8 ++ S_stsd); (T_stts, Q0); (T_stsc, Q0); (T_stsz, Q_stsz); (T_stco, Q0)].
Definition S_dref := cat_boxes [(T_url, Q_url)].
Definition S_dinf := cat_boxes [(T_dref, Q8 ++ S_dref)].
Definition S_minf := cat_boxes [(T_vmhd, pv); (T_dinf, S_dinf); (T_stbl, S_stbl)].
Definition S_mdia := cat_boxes [(T_mdhd, pmd); (T_hdlr, ph); (T_minf, S_minf)].
Definition S_trak := cat_boxes [(T_tkhd, ptk); (T_mdia, S_mdia)].
Definition S_mvex := cat_boxes [(T_trex, Q_trex)].
Definition S_moov := cat_boxes [(T_mvhd, pmv); (T_mvex, S_mvex); (T_trak, S_trak)].
Definition S_init := cat_boxes [(T_ftyp, pf); (T_moov, S_moov)].

Definition R_entry := [Box tc pc []].
Definition R_stsd := [Box te (vp ++ S_entry) R_entry].
Definition R_stbl :=
  [Box T_stsd (Q8 ++ S_stsd) R_stsd; Box T_stts Q0 []; Box T_stsc Q0 []; Box T_stsz Q_stsz []; Box T_stco Q0 []].
Definition R_dref := [Box T_url Q_url []].
Definition R_dinf := [Box T_dref (Q8 ++ S_dref) R_dref].
Definition R_minf := [Box T_vmhd pv []; Box T_dinf S_dinf R_dinf; Box T_stbl S_stbl R_stbl].
Definition R_mdia := [Box T_mdhd pmd []; Box T_hdlr ph []; Box T_minf S_minf R_minf].
Definition R_trak := [Box T_tkhd ptk []; Box T_mdia S_mdia R_mdia].
Definition R_mvex := [Box T_trex Q_trex []].
Definition R_moov := [Box T_mvhd pmv []; Box T_mvex S_mvex R_mvex; Box T_trak S_trak R_trak].
Definition R_init := [Box T_ftyp pf []; Box T_moov S_moov R_moov].

Hypothesis Hte : length te = 4%nat.
Hypothesis Htc : length tc = 4%nat.
Hypothesis Cte : container_prefix te = Some 78.
Hypothesis Ctc : container_prefix tc = None.
Hypothesis Hvp : len vp = 78.

Ltac lens :=
  cbn [cat_boxes]; rewrite ?len_app, ?len_nil;
  rewrite ?len_build_box4 by (reflexivity || assumption);
  rewrite ?len_app;
  change (len Q8) with 8; change (len Q0) with 8; change (len Q_stsz) with 12;
  change (len Q_url) with 4; change (len Q_trex) with 24.

Lemma len_S_entry : len S_entry = 8 + len pc.
Proof. unfold S_entry. lens. lia. Qed.
Lemma len_S_stsd : len S_stsd = 8 + (len vp + len S_entry).
Proof. unfold S_stsd. lens. lia. Qed.
Lemma len_S_stbl : len S_stbl = 8 + (8 + len S_stsd) + 16 + 16 + 20 + 16.
Proof. unfold S_stbl. lens. lia. Qed.
Lemma len_S_dref : len S_dref = 12.
Proof. unfold S_dref. lens. lia. Qed.
Lemma len_S_dinf : len S_dinf = 8 + (8 + len S_dref).
Proof. unfold S_dinf. lens. lia. Qed.
Lemma len_S_minf : len S_minf = 8 + len pv + (8 + len S_dinf) + (8 + len S_stbl).
Proof. unfold S_minf. lens. lia. Qed.
Lemma len_S_mdia : len S_mdia = 8 + len pmd + (8 + len ph) + (8 + len S_minf).
Proof. unfold S_mdia. lens. lia. Qed.
Lemma len_S_trak : len S_trak = 8 + len ptk + (8 + len S_mdia).
Proof. unfold S_trak. lens. lia. Qed.
Lemma len_S_mvex : len S_mvex = 32.
Proof. unfold S_mvex. lens. lia. Qed.
Lemma len_S_moov : len S_moov = 8 + len pmv + (8 + len S_mvex) + (8 + len S_trak).
Proof. unfold S_moov. lens. lia. Qed.
Lemma len_S_init : len S_init = 8 + len pf + (8 + len S_moov).
Proof. unfold S_init. lens. lia. Qed.

Hypothesis Hfit : len S_init < 4294967296.

Ltac ok :=
  pose proof len_S_entry; pose proof len_S_stsd; pose proof len_S_stbl; pose proof len_S_dref;
  pose proof len_S_dinf; pose proof len_S_minf; pose proof len_S_mdia; pose proof len_S_trak;
  pose proof len_S_mvex; pose proof len_S_moov; pose proof len_S_init;
  repeat constructor; cbn [fst snd]; try reflexivity; try assumption;
  rewrite ?len_app;
  change (len Q8) with 8; change (len Q0) with 8; change (len Q_stsz) with 12;
  change (len Q_url) with 4; change (len Q_trex) with 24; lia.

Lemma parse_S_entry d : parse_forest (S d) S_entry = Some R_entry.
Proof.
  unfold S_entry. rewrite parse_forest_S, parse_boxes_cat by ok.
  rewrite forest_go_leaf by exact Ctc. rewrite forest_go_nil. reflexivity.
Qed.

Lemma parse_S_stsd d : parse_forest (S (S d)) S_stsd = Some R_stsd.
Proof.
  unfold S_stsd. rewrite parse_forest_S, parse_boxes_cat by ok.
  rewrite (forest_go_container_pre _ _ _ _ _ 78) by assumption.
  rewrite parse_S_entry, forest_go_nil. reflexivity.
Qed.

Lemma parse_S_stbl d : parse_forest (S (S (S d))) S_stbl = Some R_stbl.
Proof.
  unfold S_stbl. rewrite parse_forest_S, parse_boxes_cat by ok.
  rewrite (forest_go_container_pre _ _ _ _ _ 8) by reflexivity.
  rewrite parse_S_stsd.
  rewrite !forest_go_leaf by reflexivity. rewrite forest_go_nil. reflexivity.
Qed.

Lemma parse_S_dref d : parse_forest (S d) S_dref = Some R_dref.
Proof.
  unfold S_dref. rewrite parse_forest_S, parse_boxes_cat by ok.
  rewrite forest_go_leaf by reflexivity. rewrite forest_go_nil. reflexivity.
Qed.

Lemma parse_S_dinf d : parse_forest (S (S d)) S_dinf = Some R_dinf.
Proof.
  unfold S_dinf. rewrite parse_forest_S, parse_boxes_cat by ok.
  rewrite (forest_go_container_pre _ _ _ _ _ 8) by reflexivity.
  rewrite parse_S_dref, forest_go_nil. reflexivity.
Qed.

Lemma parse_S_minf d : parse_forest (S (S (S (S d)))) S_minf = Some R_minf.
Proof.
  unfold S_minf. rewrite parse_forest_S, parse_boxes_cat by ok.
  rewrite forest_go_leaf by reflexivity.
  rewrite forest_go_container0 by reflexivity. rewrite parse_S_dinf.
  rewrite forest_go_container0 by reflexivity. rewrite parse_S_stbl.
  rewrite forest_go_nil. reflexivity.
Qed.

Lemma parse_S_mdia d : parse_forest (S (S (S (S (S d))))) S_mdia = Some R_mdia.
Proof.
  unfold S_mdia. rewrite parse_forest_S, parse_boxes_cat by ok.
  rewrite !forest_go_leaf by reflexivity.
  rewrite forest_go_container0 by reflexivity. rewrite parse_S_minf.
  rewrite forest_go_nil. reflexivity.
Qed.

Lemma parse_S_trak d : parse_forest (S (S (S (S (S (S d)))))) S_trak = Some R_trak.
Proof.
  unfold S_trak. rewrite parse_forest_S, parse_boxes_cat by ok.
  rewrite forest_go_leaf by reflexivity.
  rewrite forest_go_container0 by reflexivity. rewrite parse_S_mdia.
  rewrite forest_go_nil. reflexivity.
Qed.

Lemma parse_S_mvex d : parse_forest (S d) S_mvex = Some R_mvex.
Proof.
  unfold S_mvex. rewrite parse_forest_S, parse_boxes_cat by ok.
  rewrite forest_go_leaf by reflexivity. rewrite forest_go_nil. reflexivity.
Qed.

Lemma parse_S_moov d : parse_forest (S (S (S (S (S (S (S d))))))) S_moov = Some R_moov.
Proof.
  unfold S_moov. rewrite parse_forest_S, parse_boxes_cat by ok.
  rewrite forest_go_leaf by reflexivity.
  rewrite forest_go_container0 by reflexivity. rewrite parse_S_mvex.
  rewrite forest_go_container0 by reflexivity. rewrite parse_S_trak.
  rewrite forest_go_nil. reflexivity.
Qed.

Lemma parse_S_init : parse_file S_init = Some R_init.
Proof.
  unfold parse_file, S_init. rewrite parse_forest_S, parse_boxes_cat by ok.
  rewrite forest_go_leaf by reflexivity.
  rewrite forest_go_container0 by reflexivity. rewrite parse_S_moov.
  rewrite forest_go_nil. reflexivity.
Qed.

Lemma check_S_init : check_init_structure S_init = true.
Proof.
  unfold check_init_structure, read_tracks. rewrite parse_S_init.
  unfold R_init, R_moov, R_mvex, R_trak, R_mdia, R_minf, R_dinf, R_dref, R_stbl, R_stsd, R_entry.
  clear. generalize S_moov S_mvex S_trak S_mdia S_minf S_dinf S_dref S_stbl S_stsd S_entry.
  intros. vm_compute. reflexivity.
Qed.
End Shape.

Definition P_ftyp : bytes := [105;115;111;53] ++ be32 0 ++ [105;115;111;53] ++ [105;115;111;54] ++ [109;112;52;49].
Definition P_mvhd (timescale : N) : bytes :=
  be32 0 ++ be32 0 ++ be32 0 ++ be32 timescale ++ be32 0 ++ be32 65536 ++
  be16 256 ++ zeros 10 ++ unity_matrix ++ zeros 24 ++ be32 2.
Definition P_tkhd (c : frag_config) : bytes :=
  be32 3 ++ be32 0 ++ be32 0 ++ be32 1 ++ be32 0 ++ be32 0 ++ zeros 8 ++
  be16 0 ++ be16 0 ++ be16 0 ++ be16 0 ++ unity_matrix ++
  be32 (fc_width c * 65536) ++ be32 (fc_height c * 65536).
Definition P_mdhd (timescale : N) : bytes :=
  be32 0 ++ be32 0 ++ be32 0 ++ be32 timescale ++ be32 0 ++
  encode_language_code (utf8_chars UND) ++ be16 0.
Definition P_hdlr : bytes := be32 0 ++ be32 0 ++ [118;105;100;101] ++ zeros 12 ++ VideoHandler ++ [0].
Definition P_vmhd : bytes := be32 1 ++ zeros 8.

Lemma init_bytes_shape c te tc pc :
  build_stsd_fmp4 c =
    build_box T_stsd (be32 0 ++ be32 1 ++ build_box te (visual_entry_prefix_fmp4 c ++ build_box tc pc)) ->
  init_segment_bytes c =
    S_init P_ftyp (P_mvhd (fc_timescale c)) (P_tkhd c) (P_mdhd (fc_timescale c)) P_hdlr P_vmhd
           te (visual_entry_prefix_fmp4 c) tc pc.
Proof.
  intros H.
  unfold init_segment_bytes, build_moov_fmp4, build_trak_fmp4, build_mdia_fmp4, build_minf_fmp4,
    build_stbl_fmp4. rewrite H.
  unfold build_ftyp_fmp4, build_mvhd_fmp4, build_mvex, build_tkhd_fmp4, build_mdhd_fmp4,
    build_hdlr_video, build_vmhd, build_dinf.
  unfold S_init, S_moov, S_mvex, S_trak, S_mdia, S_minf, S_dinf, S_dref, S_stbl, S_stsd, S_entry.
  cbn [cat_boxes]. rewrite !app_nil_r.
  unfold Q8. rewrite <- !app_assoc. reflexivity.
Qed.

Lemma stsd_cases c : exists te tc pc,
  length te = 4%nat /\ length tc = 4%nat /\
  container_prefix te = Some 78 /\ container_prefix tc = None /\
  build_stsd_fmp4 c =
    build_box T_stsd (be32 0 ++ be32 1 ++ build_box te (visual_entry_prefix_fmp4 c ++ build_box tc pc)).
Proof.
  unfold build_stsd_fmp4. cbv zeta.
  destruct (fc_av1 c) as [a|]; [|destruct (fc_vp9 c) as [v|]; [|destruct (fc_vps c) as [h|]]].
  - unfold build_av1c_fmp4. eexists T_av01, T_av1C, _. repeat split; reflexivity.
  - unfold build_vpcc_fmp4. eexists T_vp09, T_vpcC, _. repeat split; reflexivity.
  - unfold build_hvcc_fmp4. eexists T_hvc1, T_hvcC, _. repeat split; reflexivity.
  - unfold build_avcc_fmp4. eexists T_avc1, T_avcC, _. repeat split; reflexivity.
Qed.

Theorem init_segment_is_wellformed : forall c : frag_config,
  len (init_segment_bytes c) < 4294967296 ->
  check_init_structure (init_segment_bytes c) = true.
Proof.
  intros c H.
  destruct (stsd_cases c) as (te & tc & pc & Hte & Htc & Cte & Ctc & Hs).
  rewrite (init_bytes_shape c te tc pc Hs) in H |- *.
  apply check_S_init; try assumption. reflexivity.
Qed.
Print Assumptions init_segment_is_wellformed.
