(** C19 (header boxes follow their specifications) for the FRAGMENTED muxer's init segment:
    exactly which clauses of [failed_C19_init] fail on the bytes [init_segment_bytes c]
    (what [FragmentedMuxer::init_segment] returns), for every configuration.

    Result (see [init_segment_header_clauses_exact]):
      clause 1 (mvhd) and 5 (mdhd) fail  iff  the timescale does not fit 32 bits;
      clause 3 (tkhd) and 9 (sample entry) fail  iff  a dimension does not fit 16 bits (KF-C19-7);
      clause 10 (codec configuration record) fails for every VP9 configuration (short vpcC) and
        never for H.264 / H.265 with fitting parameter sets nor for AV1 (hvcC and av1C are written
        by the progressive builders since muxide commit 48ef1ef; formerly finding KF-C19-6);
      clauses 2, 4, 6, 7, 8, 11, 12 never fail. *)
From Coq Require Import Lia ZifyN ZifyNat ZifyBool.
From Muxide Require Import Model.Base Model.Codec Model.Boxes Model.Writer Model.Api Model.Frag.
From Muxide Require Import Spec.Bmff Spec.Reader Spec.Headers Spec.Checks Spec.HeaderChecks.
From Muxide Require Import Proofs.BaseProofs Proofs.FragStructureProofs Proofs.HeaderProofs.
From Muxide Require Import Proofs.Av1Proofs Proofs.SyncAv1Vp9Proofs.
Open Scope N_scope.
Ltac Zify.zify_post_hook ::= Z.div_mod_to_equations.
Local Arguments N.add : simpl never.
Local Arguments N.sub : simpl never.
Local Arguments N.mul : simpl never.
Local Arguments N.div : simpl never.
Local Arguments N.modulo : simpl never.
Local Arguments N.eqb : simpl never.
Local Arguments N.ltb : simpl never.
Local Arguments N.leb : simpl never.

(** * How the init segment is obtained from a muxer *)
Definition init_segment_of (m : fmuxer) : bytes := snd (f_init m).

Lemma init_segment_of_new c : init_segment_of (fmuxer_new c) = init_segment_bytes c.
Proof. reflexivity. Qed.

Lemma fstep_init_new c : snd (fstep (fmuxer_new c) FInit) = FrBytes (init_segment_bytes c).
Proof. reflexivity. Qed.

(** * Fixed-width encoders only see the value modulo the field width *)
Lemma be32_u32 x : be32 x = be32 (u32 x).
Proof.
  unfold be32, u32.
  assert (E1 : (x / 16777216) mod 256 = (x mod 4294967296 / 16777216) mod 256) by lia.
  assert (E2 : (x / 65536) mod 256 = (x mod 4294967296 / 65536) mod 256) by lia.
  assert (E3 : (x / 256) mod 256 = (x mod 4294967296 / 256) mod 256) by lia.
  assert (E4 : x mod 256 = (x mod 4294967296) mod 256) by lia.
  rewrite <- E1, <- E2, <- E3, <- E4. reflexivity.
Qed.

Lemma be16_u16 x : be16 x = be16 (u16 x).
Proof.
  unfold be16, u16.
  assert (E1 : (x / 256) mod 256 = (x mod 65536 / 256) mod 256) by lia.
  assert (E2 : x mod 256 = (x mod 65536) mod 256) by lia.
  rewrite <- E1, <- E2. reflexivity.
Qed.

Lemma u32_lt x : u32 x < 4294967296.
Proof. unfold u32. lia. Qed.
Lemma u16_lt x : u16 x < 65536.
Proof. unfold u16. lia. Qed.

Lemma u32_shl16 x : u32 (x * 65536) = u16 x * 65536.
Proof. unfold u32, u16. lia. Qed.

Lemma u32_fix x : (u32 x =? x) = (x <? 4294967296).
Proof. unfold u32. lia. Qed.
Lemma u16_fix x : (u16 x =? x) = (x <? 65536).
Proof. unfold u16. lia. Qed.
Lemma u16_shl_fix x : (u16 x * 65536 =? x * 65536) = (x <? 65536).
Proof. unfold u16. lia. Qed.

(** * The fixed header payloads, for ALL field values (out-of-range values are truncated) *)
Lemma P_mvhd_strict ts :
  strict_mvhd (P_mvhd ts) = Some {| mv_timescale := u32 ts; mv_duration := 0; mv_next_track_id := 2 |}.
Proof.
  unfold P_mvhd. rewrite (be32_u32 ts).
  exact (mvhd_fmp4_strict (u32 ts) (u32_lt ts)).
Qed.

Lemma P_mvhd_next ts : u32_at (P_mvhd ts) 96 = 2.
Proof. reflexivity. Qed.

Definition clip_dims (c : frag_config) : frag_config :=
  {| fc_width := u16 (fc_width c); fc_height := u16 (fc_height c); fc_timescale := fc_timescale c;
     fc_fragment_duration_ms := fc_fragment_duration_ms c; fc_sps := fc_sps c; fc_pps := fc_pps c;
     fc_vps := fc_vps c; fc_av1 := fc_av1 c; fc_vp9 := fc_vp9 c |}.

Lemma P_tkhd_clip c : P_tkhd c = P_tkhd (clip_dims c).
Proof.
  unfold P_tkhd, clip_dims. cbn [fc_width fc_height].
  rewrite (be32_u32 (fc_width c * 65536)), (be32_u32 (fc_height c * 65536)), !u32_shl16.
  reflexivity.
Qed.

Lemma P_tkhd_strict c :
  strict_tkhd (P_tkhd c) =
    Some {| tk_flags := 3; tk_track_id := 1; tk_duration := 0; tk_volume := 0;
            tk_width := u16 (fc_width c) * 65536; tk_height := u16 (fc_height c) * 65536 |}.
Proof.
  rewrite P_tkhd_clip.
  exact (tkhd_fmp4_strict (clip_dims c) (u16_lt _) (u16_lt _)).
Qed.

Lemma P_tkhd_id c : u32_at (P_tkhd c) 12 = 1.
Proof. reflexivity. Qed.
Lemma P_tkhd_flags c : u32_at (P_tkhd c) 0 = 3.
Proof. reflexivity. Qed.

Lemma P_mdhd_strict ts : exists m, strict_mdhd (P_mdhd ts) = Some m /\ md_timescale m = u32 ts.
Proof.
  unfold P_mdhd. rewrite (be32_u32 ts).
  destruct (be32_bytes (u32 ts) (u32_lt ts)) as (d3 & d2 & d1 & d0 & Ed & Vd).
  rewrite Ed, <- Vd. eexists. split; vm_compute; reflexivity.
Qed.

Lemma P_hdlr_ok : opt_bytes_eqb (strict_hdlr P_hdlr) HV = true.
Proof. vm_compute. reflexivity. Qed.
Lemma P_vmhd_ok : strict_vmhd P_vmhd = true.
Proof. vm_compute. reflexivity. Qed.
Lemma dref_ok : strict_dref (Box T_dref (Q8 ++ S_dref) R_dref) = true.
Proof. vm_compute. reflexivity. Qed.
Lemma Q_trex_ok : strict_trex Q_trex = Some (1, 1).
Proof. vm_compute. reflexivity. Qed.

Lemma visual_entry_fmp4_strict c rest :
  strict_visual_entry (visual_entry_prefix_fmp4 c ++ rest) = Some (u16 (fc_width c), u16 (fc_height c)).
Proof.
  unfold visual_entry_prefix_fmp4.
  rewrite (be16_u16 (fc_width c)), (be16_u16 (fc_height c)).
  destruct (be16_bytes _ (u16_lt (fc_width c))) as (w1 & w0 & Ew & Vw).
  destruct (be16_bytes _ (u16_lt (fc_height c))) as (h1 & h0 & Eh & Vh).
  rewrite Ew, Eh, <- Vw, <- Vh.
  vm_compute. reflexivity.
Qed.

Lemma len_visual_entry_prefix_fmp4 c : len (visual_entry_prefix_fmp4 c) = 78.
Proof. reflexivity. Qed.

(** * Walking [header_clauses] over the explicit tree of the init segment *)
Section Walk.
Variables (pf pmv ptk pmd ph pv te vp tc pc : bytes).

Definition entry_tree : btree := Box te (vp ++ S_entry tc pc) (R_entry tc pc).

Lemma header_clauses_R_init mts dts w h :
  header_clauses mts dts w h None (R_init pf pmv ptk pmd ph pv te vp tc pc) =
  clause 1 (match strict_mvhd pmv with Some m => mv_timescale m =? mts | None => false end) ++
  clause 2 (negb (u32_at ptk 12 =? 0) && true && true && ((u32_at ptk 12 <? u32_at pmv 96) && true)) ++
  clause 3 (match strict_tkhd ptk with
            | Some v => (tk_width v =? w * 65536) && (tk_height v =? h * 65536) && true
            | None => false end) ++
  clause 4 (N.testbit (u32_at ptk 0) 0 && true) ++
  clause 5 (match strict_mdhd pmd with Some m => md_timescale m =? dts | None => false end && true) ++
  clause 6 (opt_bytes_eqb (strict_hdlr ph) HV && true) ++
  clause 7 (strict_vmhd pv && true) ++
  clause 8 (strict_dref (Box T_dref (Q8 ++ S_dref) R_dref) && true) ++
  (clause 9 ((u32_at (Q8 ++ S_stsd te vp tc pc) 0 =? 0) && (u32_at (Q8 ++ S_stsd te vp tc pc) 4 =? 1) &&
             match strict_visual_entry (vp ++ S_entry tc pc) with
             | Some (ew, eh) => (ew =? w) && (eh =? h) | None => false end) ++
   clause 10 (config_layout_ok entry_tree)) ++ [].
Proof. reflexivity. Qed.

Lemma trex_R_init :
  find_path [T_MOOV; T_MVEX; T_TREX] (R_init pf pmv ptk pmd ph pv te vp tc pc) = Some (Box T_trex Q_trex []).
Proof. reflexivity. Qed.

Lemma stsd_counts_init x : u32_at (Q8 ++ x) 0 = 0 /\ u32_at (Q8 ++ x) 4 = 1.
Proof. split; reflexivity. Qed.
End Walk.

(** * The sample entry chosen for a configuration (priority: AV1, VP9, H.265, H.264) *)
Inductive init_codec := IAv1 | IVp9 | IH265 | IH264.
Definition init_codec_of (c : frag_config) : init_codec :=
  match fc_av1 c, fc_vp9 c, fc_vps c with
  | Some _, _, _ => IAv1
  | None, Some _, _ => IVp9
  | None, None, Some _ => IH265
  | None, None, None => IH264
  end.

Definition init_te (c : frag_config) : bytes :=
  match init_codec_of c with IAv1 => T_av01 | IVp9 => T_vp09 | IH265 => T_hvc1 | IH264 => T_avc1 end.
Definition init_tc (c : frag_config) : bytes :=
  match init_codec_of c with IAv1 => T_av1C | IVp9 => T_vpcC | IH265 => T_hvcC | IH264 => T_avcC end.
Definition init_pc (c : frag_config) : bytes :=
  match init_codec_of c with
  | IAv1 => payload_of (build_av1c_fmp4 c) | IVp9 => payload_of (build_vpcc_fmp4 c)
  | IH265 => payload_of (build_hvcc_fmp4 c) | IH264 => payload_of (build_avcc_fmp4 c)
  end.

Lemma init_codec_facts c :
  length (init_te c) = 4%nat /\ length (init_tc c) = 4%nat /\
  container_prefix (init_te c) = Some 78 /\ container_prefix (init_tc c) = None /\
  build_stsd_fmp4 c =
    build_box T_stsd (be32 0 ++ be32 1 ++
      build_box (init_te c) (visual_entry_prefix_fmp4 c ++ build_box (init_tc c) (init_pc c))).
Proof.
  unfold build_stsd_fmp4, init_te, init_tc, init_pc, init_codec_of. cbv zeta.
  destruct (fc_av1 c) as [a|]; [|destruct (fc_vp9 c) as [v|]; [|destruct (fc_vps c) as [h|]]];
    repeat split; reflexivity.
Qed.

Definition init_tree (c : frag_config) : list btree :=
  R_init P_ftyp (P_mvhd (fc_timescale c)) (P_tkhd c) (P_mdhd (fc_timescale c)) P_hdlr P_vmhd
         (init_te c) (visual_entry_prefix_fmp4 c) (init_tc c) (init_pc c).

Lemma init_segment_parses c :
  len (init_segment_bytes c) < 4294967296 ->
  parse_file (init_segment_bytes c) = Some (init_tree c).
Proof.
  intros Hfit.
  destruct (init_codec_facts c) as (Hte & Htc & Cte & Ctc & Hs).
  rewrite (init_bytes_shape c _ _ _ Hs) in Hfit |- *.
  apply parse_S_init; try assumption. reflexivity.
Qed.

Lemma init_codec_h265_vps c : init_codec_of c = IH265 -> exists v, fc_vps c = Some v.
Proof.
  unfold init_codec_of. destruct (fc_av1 c); [discriminate|]. destruct (fc_vp9 c); [discriminate|].
  destruct (fc_vps c) as [v|]; [|discriminate]. intros _. exists v. reflexivity.
Qed.

(* the codec configuration record is well laid out for H.264 / H.265 with fitting parameter sets
   and for AV1 (whatever the supplied sequence header is); never for VP9 *)
Lemma config_layout_init c :
  (init_codec_of c = IH264 -> len (fc_sps c) < 65536 /\ len (fc_pps c) < 65536) ->
  (init_codec_of c = IH265 -> forall v, fc_vps c = Some v ->
     len v < 65536 /\ len (fc_sps c) < 65536 /\ len (fc_pps c) < 65536) ->
  config_layout_ok (entry_tree (init_te c) (visual_entry_prefix_fmp4 c) (init_tc c) (init_pc c)) =
  match init_codec_of c with IVp9 => false | _ => true end.
Proof.
  intros Hfit Hfit5.
  unfold config_layout_ok, entry_tree, R_entry, init_te, init_tc, init_pc.
  cbn [entry_config b_children b_typ b_payload].
  destruct (init_codec_of c) eqn:EC.
  - change (bytes_eqb T_av01 (TY 97 118 99 49)) with false.
    change (bytes_eqb T_av01 (TY 104 118 99 49)) with false.
    change (bytes_eqb T_av01 (TY 97 118 48 49)) with true. cbv iota.
    destruct (fragmented_av1c_wellformed c) as (a & Ha). rewrite Ha. reflexivity.
  - change (bytes_eqb T_vp09 (TY 97 118 99 49)) with false.
    change (bytes_eqb T_vp09 (TY 104 118 99 49)) with false.
    change (bytes_eqb T_vp09 (TY 97 118 48 49)) with false.
    change (bytes_eqb T_vp09 (TY 118 112 48 57)) with true. cbv iota.
    rewrite vpcc_fmp4_refuted. reflexivity.
  - change (bytes_eqb T_hvc1 (TY 97 118 99 49)) with false.
    change (bytes_eqb T_hvc1 (TY 104 118 99 49)) with true. cbv iota.
    destruct (init_codec_h265_vps c EC) as (v & Ev).
    assert (H3 : len v < 65536 /\ len (fc_sps c) < 65536 /\ len (fc_pps c) < 65536)
      by first [exact (Hfit5 eq_refl v Ev) | exact (Hfit5 EC v Ev)].
    destruct H3 as (Hv & Hs & Hp).
    pose proof (fragmented_hvcc_strict c) as HS. cbv zeta in HS. rewrite Ev in HS.
    rewrite (HS Hv Hs Hp). reflexivity.
  - change (bytes_eqb T_avc1 (TY 97 118 99 49)) with true. cbv iota.
    assert (H2 : len (fc_sps c) < 65536 /\ len (fc_pps c) < 65536)
      by first [exact (Hfit eq_refl) | exact (Hfit EC)].
    destruct H2 as [Hs Hp].
    rewrite (avcc_fmp4_strict c Hs Hp). reflexivity.
Qed.

(** * The exact list of failing clauses, for every configuration whose init segment parses *)
Theorem init_segment_header_clauses_exact : forall c,
  len (init_segment_bytes c) < 4294967296 ->
  (init_codec_of c = IH264 -> len (fc_sps c) < 65536 /\ len (fc_pps c) < 65536) ->
  (init_codec_of c = IH265 -> forall v, fc_vps c = Some v ->
     len v < 65536 /\ len (fc_sps c) < 65536 /\ len (fc_pps c) < 65536) ->
  failed_C19_init (fc_width c) (fc_height c) (fc_timescale c) (init_segment_bytes c) =
  clause 1 (fc_timescale c <? 4294967296) ++
  clause 3 ((fc_width c <? 65536) && (fc_height c <? 65536)) ++
  clause 5 (fc_timescale c <? 4294967296) ++
  clause 9 ((fc_width c <? 65536) && (fc_height c <? 65536)) ++
  clause 10 (match init_codec_of c with IVp9 => false | _ => true end).
Proof.
  intros c Hlen Hfit Hfit5.
  unfold failed_C19_init. rewrite (init_segment_parses c Hlen). unfold init_tree.
  rewrite header_clauses_R_init, trex_R_init.
  cbn [b_payload]. rewrite Q_trex_ok.
  destruct (stsd_counts_init
              (S_stsd (init_te c) (visual_entry_prefix_fmp4 c) (init_tc c) (init_pc c))) as [C0 C1].
  rewrite C0, C1.
  rewrite P_mvhd_strict, P_mvhd_next, P_tkhd_strict, P_tkhd_id, P_tkhd_flags.
  destruct (P_mdhd_strict (fc_timescale c)) as (m & Hm & Hts). rewrite Hm, Hts.
  rewrite P_hdlr_ok, P_vmhd_ok, dref_ok.
  rewrite visual_entry_fmp4_strict, (config_layout_init c Hfit Hfit5).
  cbn [mv_timescale tk_width tk_height].
  rewrite !u32_fix, !u16_fix, !u16_shl_fix.
  change (N.testbit 3 0) with true. change (1 <? 2) with true. change (1 =? 0) with false.
  change (0 =? 0) with true. change (1 =? 1) with true.
  cbn [negb andb clause app].
  rewrite !Bool.andb_true_r, !app_nil_r. reflexivity.
Qed.
Print Assumptions init_segment_header_clauses_exact.

(** * Size of the init segment: 619 fixed bytes plus the codec configuration record *)
Lemma len_init_segment c : len (init_segment_bytes c) = 619 + len (init_pc c).
Proof.
  destruct (init_codec_facts c) as (Hte & Htc & _ & _ & Hs).
  rewrite (init_bytes_shape c _ _ _ Hs).
  pose proof (len_visual_entry_prefix_fmp4 c) as Hvp.
  rewrite len_S_init, len_S_moov, len_S_trak, len_S_mdia, len_S_minf, len_S_stbl, len_S_stsd by assumption.
  rewrite (len_S_entry (init_te c) (visual_entry_prefix_fmp4 c)) by assumption.
  rewrite Hvp. change (len S_mvex) with 32. change (len S_dinf) with 28.
  change (len P_ftyp) with 20. change (len (P_mvhd (fc_timescale c))) with 100.
  change (len (P_tkhd c)) with 84. change (len (P_mdhd (fc_timescale c))) with 24.
  change (len P_hdlr) with 37. change (len P_vmhd) with 12.
  lia.
Qed.

Lemma len_be16 x : len (be16 x) = 2.
Proof. reflexivity. Qed.

Lemma init_pc_h264 c : init_codec_of c = IH264 -> len (init_pc c) = 11 + len (fc_sps c) + len (fc_pps c).
Proof.
  intros H. unfold init_pc. rewrite H. unfold build_avcc_fmp4.
  match goal with |- context [payload_of (build_box ?t ?p)] => change (payload_of (build_box t p)) with p end.
  rewrite !len_app, !len_be16.
  change (len [1; nth_or (fc_sps c) 1 66; nth_or (fc_sps c) 2 0; nth_or (fc_sps c) 3 30; 255; 225]) with 6.
  change (len [1]) with 1. lia.
Qed.

Lemma init_pc_vp9 c : init_codec_of c = IVp9 -> len (init_pc c) = 8.
Proof.
  intros H. unfold init_pc. rewrite H. unfold build_vpcc_fmp4.
  unfold init_codec_of in H.
  destruct (fc_av1 c); [discriminate|]. destruct (fc_vp9 c); [reflexivity|].
  destruct (fc_vps c); discriminate.
Qed.

(* the av1C record: 4 fixed bytes, then the sequence header OBU of the configuration used *)
Definition av1_config_used (s : bytes) : av1_config :=
  match extract_av1_config s with Some a => a | None => av1_config_default s end.

Lemma init_pc_av1 c s : fc_av1 c = Some s ->
  len (init_pc c) = 4 + len (av1_sequence_header (av1_config_used s)).
Proof.
  intros H. unfold init_pc, init_codec_of, build_av1c_fmp4. rewrite H. cbv zeta.
  fold (av1_config_used s). unfold build_av1c_box. cbv zeta.
  match goal with |- context [payload_of (build_box ?t ?p)] => change (payload_of (build_box t p)) with p end.
  rewrite len_app. reflexivity.
Qed.

(* the sequence header kept by [extract_av1_config] is one OBU of the data: it is not longer *)
Lemma obu_iter_f_len : forall fuel rest io, In io (obu_iter_f fuel rest) -> len (snd io) <= len rest.
Proof.
  induction fuel as [|f IH]; intros rest io Hin; cbn [obu_iter_f] in Hin; [contradiction|].
  destruct rest as [|x t] eqn:Er; [contradiction|]. rewrite <- Er in *.
  destruct (parse_obu_header rest) as [info|]; [|contradiction].
  destruct (len rest <? obu_total_size info); [contradiction|].
  destruct Hin as [<- | Hin].
  - cbn [snd]. unfold take, len. rewrite firstn_length. lia.
  - apply IH in Hin. unfold drop, len in *. rewrite skipn_length in Hin. lia.
Qed.

Lemma ps_bits_header obu r c : ps_bits obu r = Some c -> av1_sequence_header c = obu.
Proof.
  unfold ps_bits. intros H.
  ob H x1 E1. destruct x1 as [prof r1].
  destruct (3 <? prof) eqn:EP; [discriminate H|].
  ob H x2 E2. destruct x2 as [u2 r2]. ob H x3 E3. destruct x3 as [reduced r3].
  ob H x4 E4. destruct x4 as [[lvl tier] r4].
  ob H x5 E5. destruct x5 as [fwb r5]. ob H x6 E6. destruct x6 as [fhb r6].
  ob H x7 E7. destruct x7 as [u7 r7]. ob H x8 E8. destruct x8 as [u8' r8].
  ob H r9 E9.
  ob H x10 E10. destruct x10 as [u10 r10]. ob H x11 E11. destruct x11 as [u11 r11].
  ob H x12 E12. destruct x12 as [u12 r12].
  ob H r13 E13.
  ob H x14 E14. destruct x14 as [u14 r14]. ob H x15 E15. destruct x15 as [u15 r15].
  ob H x16 E16. destruct x16 as [u16' r16].
  ob H x17 E17. destruct x17 as [[[[[[hb tb] mono] sx] sy] csp] r17].
  ob H x18 E18. destruct x18 as [u18 r18].
  inversion H; subst c. reflexivity.
Qed.

Lemma extract_av1_config_header_len d a :
  extract_av1_config d = Some a -> len (av1_sequence_header a) <= len d.
Proof.
  intros H. rewrite extract_av1_config_eq in H.
  destruct (find (fun io => obu_ty (fst io) =? 1) (obu_iter d)) as [[info obu]|] eqn:EF; [|discriminate H].
  apply find_some in EF. destruct EF as [Hin _].
  apply obu_iter_f_len in Hin. cbn [snd] in Hin.
  rewrite parse_sequence_header_eq in H.
  destruct (skipn (obu_header_size info) obu); [discriminate H|].
  apply ps_bits_header in H. rewrite H. exact Hin.
Qed.

Lemma av1_config_used_len s : len (av1_sequence_header (av1_config_used s)) <= len s.
Proof.
  unfold av1_config_used. destruct (extract_av1_config s) as [a|] eqn:E.
  - exact (extract_av1_config_header_len s a E).
  - cbn [av1_config_default av1_sequence_header]. lia.
Qed.

Lemma init_pc_av1_le c s : fc_av1 c = Some s -> len (init_pc c) <= 4 + len s.
Proof.
  intros H. rewrite (init_pc_av1 c s H). pose proof (av1_config_used_len s). lia.
Qed.

Lemma init_pc_h265 c v : fc_av1 c = None -> fc_vp9 c = None -> fc_vps c = Some v ->
  len (init_pc c) = 38 + len v + len (fc_sps c) + len (fc_pps c).
Proof.
  intros H1 H2 H3. unfold init_pc, init_codec_of, build_hvcc_fmp4. rewrite H1, H2, H3.
  unfold build_hvcc_box. cbv zeta.
  match goal with |- context [payload_of (build_box ?t ?p)] => change (payload_of (build_box t p)) with p end.
  cbn [hevc_vps hevc_sps hevc_pps].
  rewrite !len_app, !len_be16.
  match goal with |- context [len (?a :: ?b :: ?t)] => change (len (a :: b :: t)) with 19 end.
  change (len [3; 3]) with 2.
  change (len [160]) with 1. change (len [161]) with 1. change (len [162]) with 1. lia.
Qed.

(** * I1: an H.264 configuration whose fields fit: NO clause fails *)
Theorem init_segment_headers_conform_h264 : forall c,
  fc_vps c = None -> fc_av1 c = None -> fc_vp9 c = None ->
  fc_width c < 65536 -> fc_height c < 65536 -> fc_timescale c < 4294967296 ->
  len (fc_sps c) < 65536 -> len (fc_pps c) < 65536 ->
  failed_C19_init (fc_width c) (fc_height c) (fc_timescale c) (init_segment_of (fmuxer_new c)) = [].
Proof.
  intros c Hv Ha H9 Hw Hh Hts Hs Hp. rewrite init_segment_of_new.
  assert (HC : init_codec_of c = IH264) by (unfold init_codec_of; rewrite Hv, Ha, H9; reflexivity).
  rewrite init_segment_header_clauses_exact.
  - rewrite HC.
    replace (fc_timescale c <? 4294967296) with true by lia.
    replace (fc_width c <? 65536) with true by lia.
    replace (fc_height c <? 65536) with true by lia.
    reflexivity.
  - rewrite len_init_segment, (init_pc_h264 c HC). lia.
  - intros _. split; assumption.
  - rewrite HC. discriminate.
Qed.
Print Assumptions init_segment_headers_conform_h264.

(** * I2: with fitting fields, exactly clause 10 decides, and it fails only for VP9 *)
Lemma init_segment_header_clauses_in_range c :
  len (init_segment_bytes c) < 4294967296 ->
  (init_codec_of c = IH264 -> len (fc_sps c) < 65536 /\ len (fc_pps c) < 65536) ->
  (init_codec_of c = IH265 -> forall v, fc_vps c = Some v ->
     len v < 65536 /\ len (fc_sps c) < 65536 /\ len (fc_pps c) < 65536) ->
  fc_width c < 65536 -> fc_height c < 65536 -> fc_timescale c < 4294967296 ->
  failed_C19_init (fc_width c) (fc_height c) (fc_timescale c) (init_segment_bytes c) =
  clause 10 (match init_codec_of c with IVp9 => false | _ => true end).
Proof.
  intros Hlen Hfit Hfit5 Hw Hh Hts.
  rewrite (init_segment_header_clauses_exact c Hlen Hfit Hfit5).
  replace (fc_timescale c <? 4294967296) with true by lia.
  replace (fc_width c <? 65536) with true by lia.
  replace (fc_height c <? 65536) with true by lia.
  reflexivity.
Qed.

(* H.265: hvcC is written by the progressive builder (formerly refuted: finding KF-C19-6,
   repaired in muxide by commit 48ef1ef) *)
Theorem init_segment_headers_h265 : forall c v,
  fc_av1 c = None -> fc_vp9 c = None -> fc_vps c = Some v ->
  fc_width c < 65536 -> fc_height c < 65536 -> fc_timescale c < 4294967296 ->
  len v < 65536 -> len (fc_sps c) < 65536 -> len (fc_pps c) < 65536 ->
  failed_C19_init (fc_width c) (fc_height c) (fc_timescale c) (init_segment_of (fmuxer_new c)) = [].
Proof.
  intros c v Ha H9 Hv Hw Hh Hts Lv Ls Lp. rewrite init_segment_of_new.
  assert (HC : init_codec_of c = IH265) by (unfold init_codec_of; rewrite Ha, H9, Hv; reflexivity).
  rewrite init_segment_header_clauses_in_range; try assumption.
  - rewrite HC. reflexivity.
  - rewrite len_init_segment, (init_pc_h265 c v Ha H9 Hv). lia.
  - rewrite HC. discriminate.
  - intros _ v' Ev'. rewrite Hv in Ev'. injection Ev' as <-. repeat split; assumption.
Qed.
Print Assumptions init_segment_headers_h265.

(* AV1: av1C is written by the progressive builder, from the parsed sequence header or, when it
   does not parse, from the default fields (formerly refuted: finding KF-C19-6 / KF-C07-1,
   repaired in muxide by commit 48ef1ef) *)
Theorem init_segment_headers_av1 : forall c s,
  fc_av1 c = Some s ->
  fc_width c < 65536 -> fc_height c < 65536 -> fc_timescale c < 4294967296 ->
  623 + len s < 4294967296 ->
  failed_C19_init (fc_width c) (fc_height c) (fc_timescale c) (init_segment_of (fmuxer_new c)) = [].
Proof.
  intros c s Ha Hw Hh Hts Hlen. rewrite init_segment_of_new.
  assert (HC : init_codec_of c = IAv1) by (unfold init_codec_of; rewrite Ha; reflexivity).
  rewrite init_segment_header_clauses_in_range; try assumption.
  - rewrite HC. reflexivity.
  - rewrite len_init_segment. pose proof (init_pc_av1_le c s Ha). lia.
  - rewrite HC. discriminate.
  - rewrite HC. discriminate.
Qed.
Print Assumptions init_segment_headers_av1.

(* VP9: the vpcC record is still 8 bytes short of a FullBox: clause 10 fails (KF-C19-6) *)
Theorem init_segment_headers_vp9 : forall c v,
  fc_av1 c = None -> fc_vp9 c = Some v ->
  fc_width c < 65536 -> fc_height c < 65536 -> fc_timescale c < 4294967296 ->
  failed_C19_init (fc_width c) (fc_height c) (fc_timescale c) (init_segment_of (fmuxer_new c)) = [10].
Proof.
  intros c v Ha H9 Hw Hh Hts. rewrite init_segment_of_new.
  assert (HC : init_codec_of c = IVp9) by (unfold init_codec_of; rewrite Ha, H9; reflexivity).
  rewrite init_segment_header_clauses_in_range; try assumption.
  - rewrite HC. reflexivity.
  - rewrite len_init_segment, (init_pc_vp9 c HC). lia.
  - rewrite HC. discriminate.
  - rewrite HC. discriminate.
Qed.
Print Assumptions init_segment_headers_vp9.

(** * I3: a dimension that does not fit 16 bits: clauses 3 and 9 fail (KF-C19-7) *)
Theorem init_segment_oversize_dimensions : forall c,
  fc_vps c = None -> fc_av1 c = None -> fc_vp9 c = None ->
  65536 <= fc_width c \/ 65536 <= fc_height c ->
  fc_timescale c < 4294967296 ->
  len (fc_sps c) < 65536 -> len (fc_pps c) < 65536 ->
  failed_C19_init (fc_width c) (fc_height c) (fc_timescale c) (init_segment_of (fmuxer_new c)) = [3; 9].
Proof.
  intros c Hv Ha H9 Hd Hts Hs Hp. rewrite init_segment_of_new.
  assert (HC : init_codec_of c = IH264) by (unfold init_codec_of; rewrite Hv, Ha, H9; reflexivity).
  rewrite init_segment_header_clauses_exact.
  - rewrite HC.
    replace (fc_timescale c <? 4294967296) with true by lia.
    replace ((fc_width c <? 65536) && (fc_height c <? 65536)) with false by lia.
    reflexivity.
  - rewrite len_init_segment, (init_pc_h264 c HC). lia.
  - intros _. split; assumption.
  - rewrite HC. discriminate.
Qed.
Print Assumptions init_segment_oversize_dimensions.

Definition oversize_example : frag_config :=
  {| fc_width := 65536; fc_height := 480; fc_timescale := 90000; fc_fragment_duration_ms := 2000;
     fc_sps := [103; 66; 0; 30; 1]; fc_pps := [104; 2]; fc_vps := None; fc_av1 := None; fc_vp9 := None |}.

Theorem init_segment_oversize_instance :
  failed_C19_init 65536 480 90000 (init_segment_of (fmuxer_new oversize_example)) = [3; 9].
Proof. vm_compute. reflexivity. Qed.
Print Assumptions init_segment_oversize_instance.

(* and a timescale that does not fit 32 bits: clauses 1 and 5 *)
Theorem init_segment_oversize_timescale : forall c,
  fc_vps c = None -> fc_av1 c = None -> fc_vp9 c = None ->
  fc_width c < 65536 -> fc_height c < 65536 -> 4294967296 <= fc_timescale c ->
  len (fc_sps c) < 65536 -> len (fc_pps c) < 65536 ->
  failed_C19_init (fc_width c) (fc_height c) (fc_timescale c) (init_segment_of (fmuxer_new c)) = [1; 5].
Proof.
  intros c Hv Ha H9 Hw Hh Hts Hs Hp. rewrite init_segment_of_new.
  assert (HC : init_codec_of c = IH264) by (unfold init_codec_of; rewrite Hv, Ha, H9; reflexivity).
  rewrite init_segment_header_clauses_exact.
  - rewrite HC.
    replace (fc_timescale c <? 4294967296) with false by lia.
    replace (fc_width c <? 65536) with true by lia.
    replace (fc_height c <? 65536) with true by lia.
    reflexivity.
  - rewrite len_init_segment, (init_pc_h264 c HC). lia.
  - intros _. split; assumption.
  - rewrite HC. discriminate.
Qed.
Print Assumptions init_segment_oversize_timescale.

(** * The same, for whatever bytes any run of the muxer hands out as its init segment *)
Theorem emitted_init_segment_header_clauses_exact : forall c ops b,
  In (FrBytes b) (snd (frun (fmuxer_new c) ops)) ->
  len b < 4294967296 ->
  (init_codec_of c = IH264 -> len (fc_sps c) < 65536 /\ len (fc_pps c) < 65536) ->
  (init_codec_of c = IH265 -> forall v, fc_vps c = Some v ->
     len v < 65536 /\ len (fc_sps c) < 65536 /\ len (fc_pps c) < 65536) ->
  failed_C19_init (fc_width c) (fc_height c) (fc_timescale c) b =
  clause 1 (fc_timescale c <? 4294967296) ++
  clause 3 ((fc_width c <? 65536) && (fc_height c <? 65536)) ++
  clause 5 (fc_timescale c <? 4294967296) ++
  clause 9 ((fc_width c <? 65536) && (fc_height c <? 65536)) ++
  clause 10 (match init_codec_of c with IVp9 => false | _ => true end).
Proof.
  intros c ops b Hin Hlen Hfit Hfit5.
  rewrite (init_segment_is_stable c ops b Hin) in Hlen |- *.
  exact (init_segment_header_clauses_exact c Hlen Hfit Hfit5).
Qed.
Print Assumptions emitted_init_segment_header_clauses_exact.

(** * From the builder: [new_with_fragment] fixes the timescale to 90000 and picks the
    sample entry from the builder's codec *)
Theorem builder_init_segment_header_clauses : forall bld m codec w h,
  b_video bld = Some (codec, w, h) -> new_with_fragment bld = inl m ->
  w < 65536 -> h < 65536 ->
  len (init_segment_of m) < 4294967296 ->
  (codec = H264 -> forall s p, b_sps bld = Some s -> b_pps bld = Some p -> len s < 65536 /\ len p < 65536) ->
  (codec = H265 -> forall v s p, b_vps bld = Some v -> b_sps bld = Some s -> b_pps bld = Some p ->
     len v < 65536 /\ len s < 65536 /\ len p < 65536) ->
  failed_C19_init w h 90000 (init_segment_of m) =
  clause 10 (match codec with Vp9 => false | _ => true end).
Proof.
  intros bld m codec w h Hv Hn Hw Hh Hlen Hfit Hfit5.
  unfold new_with_fragment in Hn. rewrite Hv in Hn.
  destruct codec.
  - destruct (b_sps bld) as [s|] eqn:Es; [|discriminate]. destruct (b_pps bld) as [p|] eqn:Ep; [|discriminate].
    injection Hn as <-. rewrite init_segment_of_new in Hlen |- *.
    destruct (Hfit eq_refl s p eq_refl eq_refl) as [Hs Hp].
    match type of Hlen with len (init_segment_bytes ?c) < _ =>
      refine (init_segment_header_clauses_in_range c Hlen (fun _ => conj Hs Hp) _ Hw Hh eq_refl) end.
    intros E; discriminate E.
  - destruct (b_vps bld) as [v|] eqn:Ev; [|discriminate].
    destruct (b_sps bld) as [s|] eqn:Es; [|discriminate]. destruct (b_pps bld) as [p|] eqn:Ep; [|discriminate].
    injection Hn as <-. rewrite init_segment_of_new in Hlen |- *.
    pose proof (Hfit5 eq_refl v s p eq_refl eq_refl eq_refl) as Hvsp.
    match type of Hlen with len (init_segment_bytes ?c) < _ =>
      refine (init_segment_header_clauses_in_range c Hlen _ _ Hw Hh eq_refl) end.
    + intros E; discriminate E.
    + intros _ v' Ev'. cbn [fc_vps] in Ev'. injection Ev' as <-. exact Hvsp.
  - destruct (b_av1 bld) as [a|]; [|discriminate].
    injection Hn as <-. rewrite init_segment_of_new in Hlen |- *.
    match type of Hlen with len (init_segment_bytes ?c) < _ =>
      refine (init_segment_header_clauses_in_range c Hlen _ _ Hw Hh eq_refl) end;
    intros E; discriminate E.
  - destruct (b_vp9 bld) as [a|]; [|discriminate].
    injection Hn as <-. rewrite init_segment_of_new in Hlen |- *.
    match type of Hlen with len (init_segment_bytes ?c) < _ =>
      refine (init_segment_header_clauses_in_range c Hlen _ _ Hw Hh eq_refl) end;
    intros E; discriminate E.
Qed.
Print Assumptions builder_init_segment_header_clauses.

(** * C07 on the init segment: the video sample entry the reader finds carries the configured
    dimensions and the configured parameter sets (H.264, H.265) / sequence header and fields (AV1) *)
Section Tracks.
Variables (pf pmv ptk pmd pv te vp tc pc : bytes).
Hypothesis Hte : length te = 4%nat.
Hypothesis Htc : length tc = 4%nat.
Hypothesis Cte : container_prefix te = Some 78.
Hypothesis Ctc : container_prefix tc = None.
Hypothesis Hvp : len vp = 78.
Hypothesis Hfit : len (S_init pf pmv ptk pmd P_hdlr pv te vp tc pc) < 4294967296.

Lemma read_tracks_S_init : exists tr,
  read_tracks (S_init pf pmv ptk pmd P_hdlr pv te vp tc pc) =
    Some (R_init pf pmv ptk pmd P_hdlr pv te vp tc pc, [tr]) /\
  tr_handler tr = HV /\ tr_entry tr = entry_tree te vp tc pc.
Proof.
  unfold read_tracks. rewrite parse_S_init by assumption.
  unfold entry_tree, R_init, R_moov, R_mvex, R_trak, R_mdia, R_minf, R_dinf, R_dref, R_stbl, R_stsd, R_entry.
  clear.
  generalize (S_moov pmv ptk pmd P_hdlr pv te vp tc pc) S_mvex (S_trak ptk pmd P_hdlr pv te vp tc pc)
    (S_mdia pmd P_hdlr pv te vp tc pc) (S_minf pv te vp tc pc) S_dinf S_dref (S_stbl te vp tc pc)
    (S_stsd te vp tc pc) (S_entry tc pc).
  intros. eexists. split; [vm_compute; reflexivity|]. split; reflexivity.
Qed.
End Tracks.

Theorem init_segment_video_entry : forall c,
  len (init_segment_bytes c) < 4294967296 ->
  exists top tr,
    read_tracks (init_segment_of (fmuxer_new c)) = Some (top, [tr]) /\
    track_of HV [tr] = Some tr /\
    strict_visual_entry (b_payload (tr_entry tr)) = Some (u16 (fc_width c), u16 (fc_height c)) /\
    b_typ (tr_entry tr) = init_te c /\
    entry_config (tr_entry tr) = Some (Box (init_tc c) (init_pc c) []).
Proof.
  intros c Hlen. rewrite init_segment_of_new.
  destruct (init_codec_facts c) as (Hte & Htc & Cte & Ctc & Hs).
  rewrite (init_bytes_shape c _ _ _ Hs) in Hlen |- *.
  destruct (read_tracks_S_init P_ftyp (P_mvhd (fc_timescale c)) (P_tkhd c) (P_mdhd (fc_timescale c)) P_vmhd
              (init_te c) (visual_entry_prefix_fmp4 c) (init_tc c) (init_pc c)
              Hte Htc Cte Ctc (len_visual_entry_prefix_fmp4 c) Hlen) as (tr & Hr & Hh & He).
  exists (init_tree c), tr. split; [exact Hr|].
  split; [unfold track_of; cbn [find]; rewrite Hh; reflexivity|].
  rewrite He. unfold entry_tree. cbn [b_payload b_typ].
  split; [apply visual_entry_fmp4_strict|]. split; reflexivity.
Qed.
Print Assumptions init_segment_video_entry.

(* the C07 decision [check_video_entry] on that entry, for an H.264 stream whose first key frame
   leads with the configured parameter sets *)
Theorem init_segment_carries_stream_configuration_h264 : forall c d,
  fc_vps c = None -> fc_av1 c = None -> fc_vp9 c = None ->
  fc_width c < 65536 -> fc_height c < 65536 ->
  len (fc_sps c) < 65536 -> len (fc_pps c) < 65536 ->
  first_unit (fun b => b mod 32 =? 7) d = Some (fc_sps c) ->
  first_unit (fun b => b mod 32 =? 8) d = Some (fc_pps c) ->
  match read_tracks (init_segment_of (fmuxer_new c)) with
  | Some (_, trs) =>
      match track_of HV trs with
      | Some tr => check_video_entry H264 (fc_width c) (fc_height c) (Some d) (tr_entry tr)
      | None => false end
  | None => false
  end = true.
Proof.
  intros c d Hv Ha H9 Hw Hh Hs Hp Us Up.
  assert (HC : init_codec_of c = IH264) by (unfold init_codec_of; rewrite Hv, Ha, H9; reflexivity).
  assert (Hlen : len (init_segment_bytes c) < 4294967296).
  { rewrite len_init_segment, (init_pc_h264 c HC). lia. }
  destruct (init_segment_video_entry c Hlen) as (top & tr & Hr & Ht & Hve & Hty & Hcfg).
  rewrite Hr, Ht. unfold check_video_entry. rewrite Hve, Hcfg, Hty.
  unfold init_te, init_tc, init_pc. rewrite HC. cbn [b_typ b_payload].
  rewrite (avcc_fmp4_strict c Hs Hp), Us, Up.
  unfold opt_bytes_eqb. rewrite !AnnexbProofs.bytes_eqb_refl, !u16_fix.
  replace (fc_width c <? 65536) with true by lia.
  replace (fc_height c <? 65536) with true by lia.
  reflexivity.
Qed.
Print Assumptions init_segment_carries_stream_configuration_h264.

(* H.265: the hvcC of the init segment carries the configured VPS / SPS / PPS, which are those of
   the stream when its first key frame leads with them (formerly refuted: finding KF-C19-6 seen
   from C07, repaired in muxide by commit 48ef1ef) *)
Theorem init_segment_carries_stream_configuration_h265 : forall c v d,
  fc_av1 c = None -> fc_vp9 c = None -> fc_vps c = Some v ->
  fc_width c < 65536 -> fc_height c < 65536 ->
  len v < 65536 -> len (fc_sps c) < 65536 -> len (fc_pps c) < 65536 ->
  first_unit (fun b => (b / 2) mod 64 =? 32) d = Some v ->
  first_unit (fun b => (b / 2) mod 64 =? 33) d = Some (fc_sps c) ->
  first_unit (fun b => (b / 2) mod 64 =? 34) d = Some (fc_pps c) ->
  match read_tracks (init_segment_of (fmuxer_new c)) with
  | Some (_, trs) =>
      match track_of HV trs with
      | Some tr => check_video_entry H265 (fc_width c) (fc_height c) (Some d) (tr_entry tr)
      | None => false end
  | None => false
  end = true.
Proof.
  intros c v d Ha H9 Hv Hw Hh Lv Ls Lp Uv Us Up.
  assert (HC : init_codec_of c = IH265) by (unfold init_codec_of; rewrite Ha, H9, Hv; reflexivity).
  assert (Hlen : len (init_segment_bytes c) < 4294967296).
  { rewrite len_init_segment, (init_pc_h265 c v Ha H9 Hv). lia. }
  pose proof (fragmented_hvcc_strict c) as HS. cbv zeta in HS. rewrite Hv in HS.
  destruct (init_segment_video_entry c Hlen) as (top & tr & Hr & Ht & Hve & Hty & Hcfg).
  rewrite Hr, Ht. unfold check_video_entry. rewrite Hve, Hcfg, Hty.
  unfold init_te, init_tc, init_pc. rewrite HC. cbn [b_typ b_payload].
  rewrite (HS Lv Ls Lp), Uv, Us, Up.
  unfold opt_bytes_eqb. rewrite !AnnexbProofs.bytes_eqb_refl, !u16_fix.
  replace (fc_width c <? 65536) with true by lia.
  replace (fc_height c <? 65536) with true by lia.
  reflexivity.
Qed.
Print Assumptions init_segment_carries_stream_configuration_h265.

(* the strict reading of the av1C record, without side conditions on the parsed fields *)
Theorem fragmented_av1c_strict_parsed : forall c a,
  extract_av1_config (match fc_av1 c with Some s => s | None => [] end) = Some a ->
  strict_av1c (payload_of (build_av1c_fmp4 c)) =
    Some {| a1_profile := av1_seq_profile a; a1_level := av1_seq_level_idx a; a1_tier := av1_seq_tier a;
            a1_high_bitdepth := av1_high_bitdepth a; a1_twelve_bit := av1_twelve_bit a; a1_mono := av1_monochrome a;
            a1_sx := av1_subsampling_x a; a1_sy := av1_subsampling_y a; a1_csp := av1_chroma_sample_position a;
            a1_obus := av1_sequence_header a |}.
Proof.
  intros c a He.
  destruct (extract_av1_config_fields_fit _ a He) as (B1 & B2 & B3 & B4).
  exact (fragmented_av1c_strict c a He B1 B2 B3 B4).
Qed.
Print Assumptions fragmented_av1c_strict_parsed.

(* AV1: when the configured sequence header parses, the av1C of the init segment carries its
   sequence header OBU and fields; the C07 decision holds for every stream whose first key frame
   has that same configuration (formerly refuted: finding KF-C07-1, repaired in muxide by
   commit 48ef1ef) *)
Theorem init_segment_carries_stream_configuration_av1 : forall c s a d,
  fc_av1 c = Some s ->
  fc_width c < 65536 -> fc_height c < 65536 ->
  623 + len s < 4294967296 ->
  extract_av1_config s = Some a ->
  extract_av1_config d = Some a ->
  match read_tracks (init_segment_of (fmuxer_new c)) with
  | Some (_, trs) =>
      match track_of HV trs with
      | Some tr => check_video_entry Av1 (fc_width c) (fc_height c) (Some d) (tr_entry tr)
      | None => false end
  | None => false
  end = true.
Proof.
  intros c s a d Ha Hw Hh Hl Es Ed.
  assert (HC : init_codec_of c = IAv1) by (unfold init_codec_of; rewrite Ha; reflexivity).
  assert (Hlen : len (init_segment_bytes c) < 4294967296).
  { rewrite len_init_segment. pose proof (init_pc_av1_le c s Ha). lia. }
  assert (Es' : extract_av1_config (match fc_av1 c with Some s => s | None => [] end) = Some a).
  { rewrite Ha. exact Es. }
  destruct (init_segment_video_entry c Hlen) as (top & tr & Hr & Ht & Hve & Hty & Hcfg).
  rewrite Hr, Ht. unfold check_video_entry. rewrite Hve, Hcfg, Hty.
  unfold init_te, init_tc, init_pc. rewrite HC. cbn [b_typ b_payload].
  rewrite (fragmented_av1c_strict_parsed c a Es'), Ed.
  cbn [a1_obus a1_profile a1_level a1_tier a1_high_bitdepth a1_twelve_bit a1_mono a1_sx a1_sy a1_csp].
  rewrite !AnnexbProofs.bytes_eqb_refl, !N.eqb_refl, !bool_eqb_refl, !u16_fix.
  replace (fc_width c <? 65536) with true by lia.
  replace (fc_height c <? 65536) with true by lia.
  reflexivity.
Qed.
Print Assumptions init_segment_carries_stream_configuration_av1.
