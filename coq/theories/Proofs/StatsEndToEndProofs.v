(** C06 end to end: the executable decision predicate [check_C06] (Spec/Checks.v) holds on the
    model's own behaviour for every builder and every call history.

    [history_accounts_for_everything_variant]  fault-free sink, [faultfree := true]
    [history_accounts_for_everything_any_sink] arbitrary sink script, [faultfree := false]
    [original_statement_fails_beyond_2p51]     why the timestamp bound is needed

    The float fact about the reported duration ([duration_roundtrip]) is an explicit premise. *)
From Coq Require Import Lia ZifyN ZifyNat ZifyBool ZArith Floats.SpecFloat.
From Muxide Require Import Model.Base Model.Codec Model.Boxes Model.F64 Model.Writer Model.Api Spec.Layout Spec.Checks
  Proofs.FinishProofs Proofs.StructureProofs Proofs.TimingProofs Proofs.ContractProofs
  Proofs.EndToEndProofs Proofs.HistoryProofs.
Ltac Zify.zify_post_hook ::= Z.div_mod_to_equations.

(** * The duration crosses the harness as a bit pattern: [decode64 (encode64 d) = d] for quotients *)
Module RT.
Import F64Facts.
Local Open Scope Z_scope.

Definition bounded (x : f64) : Prop :=
  match x with S754_finite _ _ e => e <= 971 | _ => True end.

Lemma bra_bounded s m e l : 0 <= m ->
  0 <= Z.max (Zdigits2 m + e - 53) (-1074) - e ->
  bounded (binary_round_aux 53 1024 s m e l).
Proof.
  intros Hm Hn. rewrite bra_unfold.
  destruct (rnd1_gen m e l Hm Hn) as (m1 & E & B). rewrite E. cbn [fst snd].
  pose proof (Zdigits2_upper m Hm) as Hup.
  pose proof (Zdigits2_nonneg m) as Hd0.
  set (d := Zdigits2 m) in *.
  set (n := Z.max (d + e - 53) (-1074) - e) in *.
  pose proof (pow2_pos n Hn) as HPn.
  assert (Hq0 : 0 <= m / 2 ^ n) by (apply Z.div_pos; lia).
  assert (Hq1 : m / 2 ^ n < 2 ^ 53).
  { apply Z.div_lt_upper_bound; [lia|].
    rewrite <- pow2_add by lia.
    assert (2 ^ d <= 2 ^ (n + 53)) by (apply pow2_le; lia). lia. }
  rewrite stage2_spec by lia.
  destruct (Z.eqb_spec m1 0) as [H0|H0]; [exact I|].
  destruct (Z.ltb_spec m1 (2 ^ 53)) as [Hlt|Hge].
  - destruct (Z.leb_spec (e + n) 971); [|exact I]. cbn [bounded]. lia.
  - destruct (Z.leb_spec (e + n + 1) 971); [|exact I]. cbn [bounded]. lia.
Qed.

Lemma bounded_fdiv x y : bounded (fdiv x y).
Proof.
  unfold fdiv, SFdiv. change prec with 53. change emax with 1024.
  destruct x as [sx|sx| |sx mx ex]; destruct y as [sy|sy| |sy my ey]; try exact I.
  destruct (div_core_spec mx ex my ey) as (q & e' & l & E & Hq & Hn).
  rewrite E. apply bra_bounded; assumption.
Qed.

Lemma testbit63_hi r : 0 <= r < 9223372036854775808 -> Z.testbit (9223372036854775808 + r) 63 = true.
Proof.
  intros H. pose proof (Z.testbit_spec' (9223372036854775808 + r) 63 ltac:(lia)) as T.
  change (2 ^ 63) with 9223372036854775808 in T.
  destruct (Z.testbit (9223372036854775808 + r) 63); [reflexivity|]. cbn [Z.b2z] in T. lia.
Qed.
Lemma testbit63_lo r : 0 <= r < 9223372036854775808 -> Z.testbit r 63 = false.
Proof.
  intros H. pose proof (Z.testbit_spec' r 63 ltac:(lia)) as T.
  change (2 ^ 63) with 9223372036854775808 in T.
  destruct (Z.testbit r 63); [|reflexivity]. cbn [Z.b2z] in T. lia.
Qed.

Lemma testbit63_sb (s : bool) r : 0 <= r < 9223372036854775808 ->
  Z.testbit ((if s then 9223372036854775808 else 0) + r) 63 = s.
Proof. intros H. destruct s; [apply testbit63_hi|rewrite Z.add_0_l; apply testbit63_lo]; exact H. Qed.

Lemma decode_of_parts (s : bool) (e m : Z) :
  0 <= e < 2048 -> 0 <= m < 4503599627370496 ->
  decode64 (Z.to_N ((if s then 9223372036854775808 else 0) + e * 4503599627370496 + m)) =
  if e =? 0 then (if m =? 0 then S754_zero s else S754_finite s (Z.to_pos m) (-1074))
  else if e =? 2047 then (if m =? 0 then S754_infinity s else S754_nan)
  else S754_finite s (Z.to_pos (m + 4503599627370496)) (e - 1075).
Proof.
  intros He Hm. unfold decode64. cbv zeta.
  set (sb := if s then 9223372036854775808 else 0).
  assert (Hsb : sb = 0 \/ sb = 9223372036854775808) by (destruct s; auto).
  assert (Eb : Z.of_N (Z.to_N (sb + e * 4503599627370496 + m) mod 18446744073709551616)%N
               = sb + (e * 4503599627370496 + m)) by lia.
  rewrite Eb.
  rewrite (testbit63_sb s) by lia.
  assert (E1 : ((sb + (e * 4503599627370496 + m)) / 4503599627370496) mod 2048 = e) by lia.
  assert (E2 : (sb + (e * 4503599627370496 + m)) mod 4503599627370496 = m) by lia.
  rewrite E1, E2. reflexivity.
Qed.

Lemma decode_encode x : canon x -> bounded x -> decode64 (encode64 x) = x.
Proof.
  intros C B. destruct x as [s|s| |s m e]; unfold encode64.
  - pose proof (decode_of_parts s 0 0 ltac:(lia) ltac:(lia)) as D.
    rewrite Z.add_0_r in D. cbn [Z.mul] in D. rewrite Z.add_0_r in D. rewrite D. reflexivity.
  - pose proof (decode_of_parts s 2047 0 ltac:(lia) ltac:(lia)) as D.
    rewrite Z.add_0_r in D. rewrite D. reflexivity.
  - pose proof (decode_of_parts false 2047 2251799813685248 ltac:(lia) ltac:(lia)) as D.
    cbv iota in D. rewrite Z.add_0_l in D. rewrite D. reflexivity.
  - cbn [canon bounded] in C, B. change (2^53) with 9007199254740992 in C. change (2^52) with 4503599627370496 in C.
    destruct C as (C1 & C2 & C3).
    destruct (Z.ltb_spec (Z.pos m) 4503599627370496) as [Hlt|Hge].
    + assert (e = -1074) by lia. subst e.
      pose proof (decode_of_parts s 0 (Z.pos m) ltac:(lia) ltac:(lia)) as D.
      cbn [Z.mul] in D. rewrite Z.add_0_r in D. rewrite D.
      cbn [Z.eqb]. reflexivity.
    + pose proof (decode_of_parts s (e + 1075) (Z.pos m - 4503599627370496) ltac:(lia) ltac:(lia)) as D.
      rewrite D.
      destruct (Z.eqb_spec (e + 1075) 0); [lia|].
      destruct (Z.eqb_spec (e + 1075) 2047); [lia|].
      f_equal; [|lia].
      replace (Z.pos m - 4503599627370496 + 4503599627370496) with (Z.pos m) by lia. reflexivity.
Qed.
End RT.
Open Scope N_scope.

Lemma duration_bits_roundtrip n :
  decode64 (encode64 (fdiv (of_N n) f_90000)) = fdiv (of_N n) f_90000.
Proof.
  apply RT.decode_encode.
  - apply F64Facts.canon_fdiv; apply F64Facts.canon_of_N.
  - apply RT.bounded_fdiv.
Qed.
(** * The reported tick count is within one tick of the largest expected presentation end *)
Definition near (x y : N) : Prop := x <= y /\ y <= x + 1.
Definition fmax (l : list N) : N := fold_right N.max 0 l.

Lemma fmax_app l1 l2 : fmax (l1 ++ l2) = N.max (fmax l1) (fmax l2).
Proof. apply fold_max_app. Qed.

Lemma fmax_rev l : fmax (rev l) = fmax l.
Proof.
  induction l as [|x l IH]; [reflexivity|].
  cbn [rev]. rewrite fmax_app, IH. unfold fmax. cbn [fold_right]. lia.
Qed.

Lemma fmax_near l1 l2 : Forall2 near l1 l2 -> near (fmax l1) (fmax l2).
Proof.
  induction 1 as [|x y l1 l2 Hxy _ IH]; unfold near in *; unfold fmax in *; cbn [fold_right]; lia.
Qed.

Lemma fmax_le l B : fmax l <= B -> Forall (fun x => x <= B) l.
Proof.
  induction l as [|x l IH]; intros H; constructor; unfold fmax in *; cbn [fold_right] in H; [lia|].
  apply IH. lia.
Qed.

Lemma zip_ends_app : forall p1 d1 p2 d2, length p1 = length d1 ->
  zip_ends (p1 ++ p2) (d1 ++ d2) = zip_ends p1 d1 ++ zip_ends p2 d2.
Proof.
  induction p1 as [|p p1 IH]; intros [|d d1] p2 d2 H; cbn [length] in H; try discriminate.
  - reflexivity.
  - cbn [app zip_ends]. f_equal. apply IH. lia.
Qed.

Lemma zip_ends_map (l : list sample) :
  zip_ends (map s_pts l) (map dur1 l) = map (fun s => s_pts s + dur1 s) l.
Proof. induction l as [|x l IH]; [reflexivity|]. cbn [map zip_ends]. rewrite IH. reflexivity. Qed.

Lemma inner_near fb l :
  Forall (fun x => s_dur x <> None) l ->
  Forall (fun e => e <= U64MAX) (map (fun s => s_pts s + dur1 s) l) ->
  Forall2 near (map (sample_end fb) l) (map (fun s => s_pts s + dur1 s) l).
Proof.
  induction l as [|x l IH]; intros H1 H2; cbn [map] in *; [constructor|].
  inversion H1 as [|? ? Hx H1']; subst. inversion H2 as [|? ? Hb H2']; subst.
  constructor; [|apply IH; assumption].
  unfold near, sample_end, dur1 in *. destruct (s_dur x) as [d|]; [|congruence]. lia.
Qed.

Lemma last_near fb s : s_pts s + dur_last s fb <= U64MAX ->
  near (sample_end fb s) (s_pts s + dur_last s fb).
Proof.
  unfold near, sample_end, dur_last. intros H.
  destruct (s_dur s) as [d|]; [lia|]. destruct fb as [d|]; lia.
Qed.

(* one track: [lr] is the queue, newest first *)
Lemma track_near fb lr :
  match lr with [] => True | _ :: t => Forall (fun x => s_dur x <> None) t end ->
  Forall (fun e => e <= U64MAX) (zip_ends (map s_pts (rev lr)) (durations_of (rev lr) fb)) ->
  Forall2 near (map (sample_end fb) (rev lr)) (zip_ends (map s_pts (rev lr)) (durations_of (rev lr) fb)).
Proof.
  destruct lr as [|s t]; intros Hd Hb; [constructor|].
  cbn [rev] in *. rewrite durations_of_snoc in *. rewrite !map_app in *. cbn [map] in *.
  rewrite zip_ends_app in * by (rewrite !map_length; reflexivity).
  rewrite zip_ends_map in *. cbn [zip_ends] in *.
  apply Forall_app in Hb. destruct Hb as [Hb1 Hb2].
  apply Forall2_app.
  - apply inner_near; [|exact Hb1]. apply Forall_rev. exact Hd.
  - constructor; [|constructor]. apply last_near. inversion Hb2; assumption.
Qed.

Lemma linked_have_durs key : forall t p, durs_linked (p :: t) key -> Forall (fun x => s_dur x <> None) t.
Proof.
  induction t as [|q t IH]; intros p H; [constructor|].
  cbn [durs_linked] in H. destruct H as [Hq Hl].
  constructor; [congruence|]. exact (IH q Hl).
Qed.

Definition reported_ticks (w : writer) : N := match max_end_pts w with Some t => t | None => 0 end.

Definition spec_ends (w : writer) : list N :=
  zip_ends (map s_pts (vsamples w)) (durations_spec (map s_dts (vsamples w))) ++
  zip_ends (map s_pts (asamples w)) (durations_spec (map s_pts (asamples w))).

Lemma reported_ticks_near w : WInv w -> fmax (spec_ends w) <= U64MAX ->
  near (reported_ticks w) (fmax (spec_ends w)).
Proof.
  intros HW Hb. pose proof HW as (_ & _ & Hlv & Hla & _).
  unfold spec_ends in *.
  rewrite <- (video_durations_are_dts_differences w HW) in *.
  rewrite <- (audio_durations_are_pts_differences w HW) in *.
  apply fmax_le in Hb. apply Forall_app in Hb. destruct Hb as [Hbv Hba].
  assert (E : reported_ticks w =
              fmax (map (sample_end (w_vlast_delta w)) (w_vrev w) ++ map (sample_end (w_alast_delta w)) (w_arev w))).
  { unfold reported_ticks. rewrite max_end_pts_is_largest_presentation_end.
    destruct (map (sample_end (w_vlast_delta w)) (w_vrev w) ++ map (sample_end (w_alast_delta w)) (w_arev w));
      reflexivity. }
  rewrite E, !fmax_app.
  rewrite <- (fmax_rev (map _ (w_vrev w))), <- (fmax_rev (map _ (w_arev w))), <- !map_rev.
  unfold vsamples, asamples in *.
  assert (Nv : near (fmax (map (sample_end (w_vlast_delta w)) (rev (w_vrev w))))
                    (fmax (zip_ends (map s_pts (rev (w_vrev w))) (durations_of (rev (w_vrev w)) (w_vlast_delta w))))).
  { apply fmax_near, track_near; [|exact Hbv].
    destruct (w_vrev w) as [|s t]; [exact I|]. exact (linked_have_durs _ _ _ Hlv). }
  assert (Na : near (fmax (map (sample_end (w_alast_delta w)) (rev (w_arev w))))
                    (fmax (zip_ends (map s_pts (rev (w_arev w))) (durations_of (rev (w_arev w)) (w_alast_delta w))))).
  { apply fmax_near, track_near; [|exact Hba].
    destruct (w_arev w) as [|s t]; [exact I|]. exact (linked_have_durs _ _ _ Hla). }
  unfold near in *. lia.
Qed.
(** * The history-level parts of [check_C06] *)
(* sink length after each call of the history (what the harness records as `s` lines) *)
Fixpoint run_lens (m : muxer) (ops : list op) : list N :=
  match ops with
  | [] => []
  | o :: t => match step m o with
              | (m', RPanic _) => []
              | (m', _) => len (sink_of m') :: run_lens m' t
              end
  end.
Definition stats_tuple (s : stats) : N * N * N * N :=
  (st_video_frames s, st_audio_frames s, encode64 (st_duration s), st_bytes s).
(* first statistics returned in the history *)
Fixpoint first_stats (rs : list result) : option (N * N * N * N) :=
  match rs with [] => None | RStats s :: _ => Some (stats_tuple s) | _ :: t => first_stats t end.

(* the three local fixpoints of [check_C06], named *)
Fixpoint c06_before (ops : list op) (lens : list N) : bool :=
  match ops, lens with
  | FIN :: _, _ => true
  | _ :: t, l :: lt => (l =? 0) && c06_before t lt
  | _, _ => true
  end.
Fixpoint c06_after (ops : list op) (cls : list rclass) (lens : list N) (done : option N) : bool :=
  match ops, cls, lens with
  | o :: t, c :: ct, l :: lt =>
      match done with
      | Some l0 => (match c with CErr => true | _ => false end) && (l =? l0) && c06_after t ct lt done
      | None => match o, c with
                | FIN, COk => c06_after t ct lt (Some l)
                | _, _ => c06_after t ct lt None
                end
      end
  | _, _, _ => true
  end.
Fixpoint c06_fin_len (ops : list op) (cls : list rclass) (lens : list N) : option N :=
  match ops, cls, lens with
  | FIN :: _, COk :: _, l :: _ => Some l
  | _ :: t, _ :: ct, _ :: lt => c06_fin_len t ct lt
  | _, _, _ => None
  end.

Lemma check_C06_parts b ops cls lens stats ff :
  check_C06 b ops cls lens stats ff =
  c06_before ops lens && c06_after ops cls lens None &&
  match stats with
  | None => true
  | Some (v, a, dur, bytes) =>
      let h := accepted b ops cls in
      (v =? len (h_v h)) && (a =? len (h_a h)) &&
      (if ff then match c06_fin_len ops cls lens with Some l => bytes =? l | None => false end else true) &&
      (absdiff (tick (decode64 dur)) (expected_max_end h) <=? 1)
  end.
Proof. reflexivity. Qed.

(* one call of a history *)
Lemma run_cons_eq m o t m1 r :
  step m o = (m1, r) ->
  run m (o :: t) = match r with
                   | RPanic p => (m1, [RPanic p])
                   | _ => (fst (run m1 t), r :: snd (run m1 t))
                   end.
Proof.
  intros E. cbn [run]. rewrite E. destruct r; try reflexivity; destruct (run m1 t); reflexivity.
Qed.

Lemma run_lens_cons_eq m o t m1 r :
  step m o = (m1, r) ->
  run_lens m (o :: t) = match r with
                        | RPanic _ => []
                        | _ => len (sink_of m1) :: run_lens m1 t
                        end.
Proof. intros E. cbn [run_lens]. rewrite E. reflexivity. Qed.

Lemma stats_only_from_fin m o m1 s : step m o = (m1, RStats s) -> o = FIN.
Proof.
  intros E. destruct (op_fin_dec o) as [H|H]; [exact H|].
  exfalso. apply (step_not_stats m o s H). rewrite E. reflexivity.
Qed.

Lemma fin_never_plain_ok m m1 : step m FIN <> (m1, ROk).
Proof.
  cbn [step]. destruct (finish_in_place_with_stats m) as [m' [s|e|p]]; discriminate.
Qed.

(** ** (1) nothing reaches the sink before the first finish attempt *)
Lemma before_holds : forall ops m, len (sink_of m) = 0 -> c06_before ops (run_lens m ops) = true.
Proof.
  induction ops as [|o t IH]; intros m H0; [reflexivity|].
  destruct (op_fin_dec o) as [->|Hne]; [reflexivity|].
  destruct (step m o) as [m1 r] eqn:ES.
  rewrite (run_lens_cons_eq _ _ _ _ _ ES).
  assert (Hs : sink_of m1 = sink_of m).
  { pose proof (non_fin_ops_keep_sink m o Hne) as (A & _). rewrite ES in A. cbn [fst] in A.
    unfold sink_of. rewrite A. reflexivity. }
  destruct r; destruct o; try congruence; cbn [c06_before]; try reflexivity;
    rewrite Hs, H0, IH by (rewrite Hs; exact H0); reflexivity.
Qed.

(** ** (2) after the successful finish every call is rejected and the sink keeps its length *)
Lemma after_done_holds : forall ops m,
  m_finished m = true -> w_finalized (m_writer m) = true ->
  c06_after ops (map class_of (snd (run m ops))) (run_lens m ops) (Some (len (sink_of m))) = true.
Proof.
  induction ops as [|o t IH]; intros m F1 F2; [reflexivity|].
  destruct (finished_muxer_rejects_everything m F1 F2 o) as [e ES].
  rewrite (run_cons_eq _ _ _ _ _ ES), (run_lens_cons_eq _ _ _ _ _ ES). cbn [snd map class_of c06_after].
  rewrite N.eqb_refl, IH by assumption. reflexivity.
Qed.

Lemma after_holds : forall ops m,
  c06_after ops (map class_of (snd (run m ops))) (run_lens m ops) None = true.
Proof.
  induction ops as [|o t IH]; intros m; [reflexivity|].
  destruct (step m o) as [m1 r] eqn:ES.
  rewrite (run_cons_eq _ _ _ _ _ ES), (run_lens_cons_eq _ _ _ _ _ ES).
  destruct r as [|s|e|p]; cbn [snd map class_of c06_after].
  - destruct o; try apply IH. exfalso. exact (fin_never_plain_ok _ _ ES).
  - pose proof (stats_only_from_fin _ _ _ _ ES) as ->.
    destruct (successful_finish_finishes _ _ _ ES) as [F1 F2].
    apply after_done_holds; assumption.
  - destruct o; apply IH.
  - reflexivity.
Qed.

(** ** (3) the first statistics describe the final state *)
Definition final_stats (m : muxer) : N * N * N * N :=
  (len (w_vrev (m_writer m)), len (w_arev (m_writer m)),
   encode64 (fdiv (of_N (match max_end_pts (m_writer m) with Some t => t | None => 0 end)) f_90000),
   w_bytes_written (m_writer m)).

Lemma fin_stats_shape m m1 s : step m FIN = (m1, RStats s) -> stats_tuple s = final_stats m1.
Proof.
  cbn [step]. unfold finish_in_place_with_stats. intros H.
  destruct (m_finished m); [discriminate|].
  destruct (finalize (m_writer m) (m_video m) (m_meta m) (m_fast m)) as [w r].
  destruct r as [|[k|p]]; cbv beta iota zeta in H; try discriminate.
  inversion H; subst. reflexivity.
Qed.

Lemma first_stats_final : forall ops m t,
  first_stats (snd (run m ops)) = Some t ->
  t = final_stats (fst (run m ops)) /\
  c06_fin_len ops (map class_of (snd (run m ops))) (run_lens m ops) = Some (len (sink_of (fst (run m ops)))).
Proof.
  induction ops as [|o tl IH]; intros m t H; [discriminate|].
  destruct (step m o) as [m1 r] eqn:ES.
  rewrite (run_cons_eq _ _ _ _ _ ES) in *. rewrite (run_lens_cons_eq _ _ _ _ _ ES).
  destruct r as [|s|e|p]; cbn [fst snd first_stats map class_of] in *.
  - destruct (IH m1 t H) as [I1 I2]. split; [exact I1|].
    destruct o; try exact I2. exfalso. exact (fin_never_plain_ok _ _ ES).
  - pose proof (stats_only_from_fin _ _ _ _ ES) as ->.
    destruct (successful_finish_finishes _ _ _ ES) as [F1 F2].
    destruct (run_finished_id tl m1 F1 F2) as [Hid _]. rewrite Hid.
    inversion H; subst t. split; [exact (fin_stats_shape _ _ _ ES)|reflexivity].
  - destruct (IH m1 t H) as [I1 I2]. split; [exact I1|].
    destruct o; exact I2.
  - discriminate.
Qed.

(** ** (4) putting the parts together *)
Definition duration_roundtrip : Prop :=
  forall n, n < 2251799813685248 -> tick (fdiv (of_N n) f_90000) = n.

Lemma Sim_init_script b script m0 : build b script = inl m0 -> Sim b m0 acc0.
Proof.
  unfold build. destruct (b_video b) as [[[codec w] h]|] eqn:EV; [|discriminate].
  intros H. inversion H; subst m0.
  constructor; unfold cfg_codec, cfg_audio; rewrite ?EV; cbn; try reflexivity. discriminate.
Qed.

Lemma len_rev {A} (l : list A) : len (rev l) = len l.
Proof. unfold len. rewrite rev_length. reflexivity. Qed.

Lemma sim_video_times c l l' : map vproj l = map (vexp c) l' ->
  map s_pts (rev l) = map vf_pts (rev l') /\ map s_dts (rev l) = map vf_dts (rev l').
Proof.
  intros H. rewrite !map_rev. split.
  - apply (f_equal (map (fun x : N * N * bytes * bool => fst (fst (fst x))))) in H.
    rewrite !map_map in H. f_equal. exact H.
  - apply (f_equal (map (fun x : N * N * bytes * bool => snd (fst (fst x))))) in H.
    rewrite !map_map in H. f_equal. exact H.
Qed.

Lemma sim_audio_times a l l' : map aproj l = map (aexp a) l' ->
  map s_pts (rev l) = map af_pts (rev l').
Proof.
  intros H. rewrite !map_rev.
  apply (f_equal (map (fun x : N * bytes => fst x))) in H.
  rewrite !map_map in H. f_equal. exact H.
Qed.

Lemma absdiff_near x y : near x y -> absdiff x y <= 1.
Proof. unfold near, absdiff. intros [H1 H2]. destruct (N.ltb_spec x y); lia. Qed.

(* everything the statistics clause needs, for an arbitrary sink script *)
Lemma stats_clause b script m0 ops v a dur bytes :
  duration_roundtrip ->
  build b script = inl m0 -> Forall op_payload_ok ops ->
  let m := fst (run m0 ops) in
  let rs := snd (run m0 ops) in
  let h := accepted b ops (map class_of rs) in
  expected_max_end h < 2251799813685248 ->
  first_stats rs = Some (v, a, dur, bytes) ->
  v = len (h_v h) /\ a = len (h_a h) /\
  absdiff (tick (decode64 dur)) (expected_max_end h) <= 1 /\
  bytes = w_bytes_written (m_writer m) /\
  c06_fin_len ops (map class_of rs) (run_lens m0 ops) = Some (len (sink_of m)).
Proof.
  intros RT Hb Hok m rs h Hbound Hst.
  destruct (first_stats_final ops m0 _ Hst) as [Hfs Hfl]. fold m rs in Hfs, Hfl.
  assert (HR : run m0 ops = (m, rs)) by (subst m rs; destruct (run m0 ops); reflexivity).
  pose proof (Sim_run b ops m0 acc0 m rs (Sim_init_script _ _ _ Hb) Hok HR) as S.
  pose proof (WInv_reachable b script m0 ops Hb) as HW. fold m in HW.
  set (s := fold_left (acc_step b) (combine ops (map class_of rs)) acc0) in *.
  assert (Hh : h = {| h_v := rev (a_vrev s); h_a := rev (a_arev s); h_finished := a_fin s;
                      h_after_ok := a_after_ok s |}) by reflexivity.
  destruct (sim_video_times _ _ _ (sim_v _ _ _ S)) as [Vp Vd].
  pose proof (sim_audio_times _ _ _ (sim_a _ _ _ S)) as Ap.
  assert (HE : expected_max_end h = fmax (spec_ends (m_writer m))).
  { rewrite Hh. unfold expected_max_end, spec_ends, vsamples, asamples. cbn [h_v h_a].
    rewrite Vp, Vd, Ap. reflexivity. }
  unfold final_stats in Hfs. injection Hfs as -> -> -> ->.
  split; [|split; [|split; [|split]]].
  - rewrite Hh. cbn [h_v]. rewrite len_rev. exact (len_of_map_eq _ _ _ _ (sim_v _ _ _ S)).
  - rewrite Hh. cbn [h_a]. rewrite len_rev. exact (len_of_map_eq _ _ _ _ (sim_a _ _ _ S)).
  - rewrite duration_bits_roundtrip.
    assert (Hn : near (reported_ticks (m_writer m)) (fmax (spec_ends (m_writer m)))).
    { apply reported_ticks_near; [exact HW|]. rewrite <- HE. unfold U64MAX. lia. }
    fold (reported_ticks (m_writer m)).
    rewrite RT by (unfold near in Hn; lia).
    rewrite HE. apply absdiff_near. exact Hn.
  - reflexivity.
  - exact Hfl.
Qed.

Lemma run_eta m0 ops m rs : run m0 ops = (m, rs) -> m = fst (run m0 ops) /\ rs = snd (run m0 ops).
Proof. intros ->. split; reflexivity. Qed.

(** * Theorems *)

(* fault-free sink *)
Theorem history_accounts_for_everything_variant : duration_roundtrip ->
  forall b m0 ops m rs,
  build b [] = inl m0 -> run m0 ops = (m, rs) ->
  Forall op_payload_ok ops ->
  len (sink_of m) < 18446744073709551616 ->
  (first_stats rs <> None ->
   expected_max_end (accepted b ops (map class_of rs)) < 2251799813685248) ->
  check_C06 b ops (map class_of rs) (run_lens m0 ops) (first_stats rs) true = true.
Proof.
  intros RT b m0 ops m rs Hb HR Hok Hlen Hbound.
  destruct (run_eta _ _ _ _ HR) as [Em Ers].
  rewrite check_C06_parts.
  destruct (build_initial _ _ Hb) as (_ & B0 & _).
  rewrite before_holds by (unfold sink_of; rewrite B0; reflexivity).
  rewrite Ers at 1. rewrite after_holds. cbn [andb].
  destruct (first_stats rs) as [[[[v a] dur] bytes]|] eqn:Hst; [|reflexivity].
  specialize (Hbound ltac:(discriminate)).
  rewrite Ers in Hst, Hbound.
  destruct (stats_clause b [] m0 ops v a dur bytes RT Hb Hok Hbound Hst) as (Hv & Ha & Hd & Hby & Hfl).
  rewrite <- Ers, <- Em in *. cbv zeta.
  rewrite Hfl.
  assert (Hbytes : bytes = len (sink_of m)).
  { rewrite Hby, Em. unfold sink_of. apply (bytes_written_equals_sink_length b m0 ops Hb).
    rewrite <- Em. exact Hlen. }
  rewrite Hv, Ha, Hbytes, !N.eqb_refl. cbn [andb]. apply N.leb_le. exact Hd.
Qed.
Print Assumptions history_accounts_for_everything_variant.

(* arbitrary sink script: the harness cannot claim the byte count when faults were injected *)
Theorem history_accounts_for_everything_any_sink : duration_roundtrip ->
  forall b script m0 ops m rs,
  build b script = inl m0 -> run m0 ops = (m, rs) ->
  Forall op_payload_ok ops ->
  (first_stats rs <> None ->
   expected_max_end (accepted b ops (map class_of rs)) < 2251799813685248) ->
  check_C06 b ops (map class_of rs) (run_lens m0 ops) (first_stats rs) false = true.
Proof.
  intros RT b script m0 ops m rs Hb HR Hok Hbound.
  destruct (run_eta _ _ _ _ HR) as [Em Ers].
  rewrite check_C06_parts.
  assert (B0 : len (sink_of m0) = 0).
  { unfold build in Hb. destruct (b_video b) as [[[c w] h]|]; [|discriminate].
    inversion Hb; subst m0. reflexivity. }
  rewrite before_holds by exact B0.
  rewrite Ers at 1. rewrite after_holds. cbn [andb].
  destruct (first_stats rs) as [[[[v a] dur] bytes]|] eqn:Hst; [|reflexivity].
  specialize (Hbound ltac:(discriminate)).
  rewrite Ers in Hst, Hbound.
  destruct (stats_clause b script m0 ops v a dur bytes RT Hb Hok Hbound Hst) as (Hv & Ha & Hd & _ & _).
  rewrite <- Ers in *. cbv zeta.
  rewrite Hv, Ha, !N.eqb_refl. cbn [andb]. apply N.leb_le. exact Hd.
Qed.
Print Assumptions history_accounts_for_everything_any_sink.

(** * The original statement (no bound on the timestamps) is false

    Two H.264 frames whose presentation times are adjacent binary64 values near 1.9e13 s
    (ticks 1729382256910270208 and 1729382256910270464, 256 apart, about 6e5 years) are
    accepted and the finish succeeds.  The largest presentation end is 1729382256910270720
    ticks; the reported duration, multiplied back by 90000.0, gives 1729382256910270464:
    off by 256 ticks, so the duration clause of [check_C06] fails.  Every hypothesis of the
    unbounded statement other than [duration_roundtrip] (which only speaks about n < 2^51)
    holds on this history. *)
Definition cx_b : builder :=
  {| b_video := Some (H264, 640, 480); b_audio := None; b_meta := None; b_fast := true;
     b_sps := None; b_pps := None; b_vps := None; b_av1 := None; b_vp9 := None |}.
Definition cx_key : bytes := [0;0;0;1;103;66;0;30; 0;0;0;1;104;206;56;128; 0;0;0;1;101;136;132].
Definition cx_delta : bytes := [0;0;0;1;65;154].
Definition cx_ops : list op :=
  [WV 4805756334529937949 cx_key true; WV 4805756334529937950 cx_delta false; FIN].

Example cx_outcome :
  match build cx_b [] with
  | inl m0 =>
      let '(m, rs) := run m0 cx_ops in
      map class_of rs = [COk; COk; COk] /\
      run_lens m0 cx_ops = [0; 0; 687] /\
      first_stats rs = Some (2, 0, 4805756334529937950, 687) /\
      len (sink_of m) = 687 /\
      expected_max_end (accepted cx_b cx_ops (map class_of rs)) = 1729382256910270720 /\
      tick (decode64 4805756334529937950) = 1729382256910270464 /\
      check_C06 cx_b cx_ops (map class_of rs) (run_lens m0 cx_ops) (first_stats rs) true = false
  | inr _ => False
  end.
Proof. vm_compute. repeat split. Qed.

Theorem original_statement_fails_beyond_2p51 :
  exists b m0 ops m rs,
    build b [] = inl m0 /\ run m0 ops = (m, rs) /\
    Forall op_payload_ok ops /\
    (forall p, ~ In (RPanic p) rs) /\
    len (sink_of m) < 4294967296 /\
    check_C06 b ops (map class_of rs) (run_lens m0 ops) (first_stats rs) true = false.
Proof.
  pose proof cx_outcome as H.
  destruct (build cx_b []) as [m0|e] eqn:Hb; [|destruct H].
  destruct (run m0 cx_ops) as [m rs] eqn:HR.
  destruct H as (Hcls & _ & _ & Hlen & _ & _ & Hchk).
  exists cx_b, m0, cx_ops, m, rs.
  split; [exact Hb|]. split; [exact HR|]. split; [|split; [|split]].
  - repeat constructor; vm_compute; reflexivity.
  - intros p Hin. apply (in_map class_of) in Hin. rewrite Hcls in Hin. cbn [class_of In] in Hin.
    repeat (destruct Hin as [Hin|Hin]; [discriminate|]). exact Hin.
  - rewrite Hlen. reflexivity.
  - exact Hchk.
Qed.
Print Assumptions original_statement_fails_beyond_2p51.
