(** Metadata round trips: civil calendar (closed form vs plain counting), ISO-8601 creation date,
    packed language code, media-header language, iTunes-style title item, udta presence.

    Finite sweeps discharged by [vm_compute] (via [vm_cast_no_check], checked by the kernel at Qed):
    - [lang_sweep]  : 26^3 lower-case letter triples;
    - [sweep_years] : every day of the 430 years 1970..2399 (157054 days), comparing [days_to_ymd]
                      with month counting inside the year; the remaining years follow from the
                      400-year periodicity of both calendars, proved structurally;
    - [pad4_sweep], [pad2_sweep] : zero-padded decimal of 0..9999 and 0..99. *)
From Coq Require Import Lia ZifyN ZifyNat ZifyBool.
From Muxide Require Import Model.Base Model.Boxes Spec.Bmff Spec.Reader Spec.Headers Spec.HeaderChecks Proofs.BaseProofs.
From Muxide Require Import Proofs.FragProofs.
Open Scope N_scope.
Ltac Zify.zify_post_hook ::= Z.div_mod_to_equations.

Lemma bytes_eqb_eq : forall a b, bytes_eqb a b = true -> a = b.
Proof.
  induction a as [|x a IH]; intros [|y b] H; cbn [bytes_eqb] in H; try discriminate; [reflexivity|].
  apply andb_prop in H. destruct H as [H1 H2]. apply N.eqb_eq in H1. subst y.
  f_equal. apply IH. exact H2.
Qed.

(** * M3 *)
Definition lang_code (a b c : N) : N :=
  N.lor (N.lor (N.shiftl (sat_sub_60_1f a) 10) (N.shiftl (sat_sub_60_1f b) 5)) (sat_sub_60_1f c).

Definition lang_chk (a b c : N) : bool :=
  (lang_code a b c <? 32768) && bytes_eqb (unpack_lang (lang_code a b c)) [a; b; c].

Definition letters : list N := map (fun i => 97 + N.of_nat i) (seq 0 26).

Lemma lang_sweep :
  forallb (fun a => forallb (fun b => forallb (fun c => lang_chk a b c) letters) letters) letters = true.
Proof. vm_cast_no_check (eq_refl true). Qed.

Lemma in_letters a : 97 <= a <= 122 -> In a letters.
Proof.
  intros H. unfold letters. apply in_map_iff. exists (N.to_nat (a - 97)). split; [lia|].
  apply in_seq. lia.
Qed.

Lemma encode_language_code_3 a b c : encode_language_code [a; b; c] = be16 (lang_code a b c).
Proof. reflexivity. Qed.

Theorem language_code_roundtrip : forall a b c,
  97 <= a <= 122 -> 97 <= b <= 122 -> 97 <= c <= 122 ->
  exists x, encode_language_code [a; b; c] = be16 x /\ x < 32768 /\ unpack_lang x = [a; b; c].
Proof.
  intros a b c Ha Hb Hc. exists (lang_code a b c). split; [apply encode_language_code_3|].
  pose proof lang_sweep as HS.
  rewrite forallb_forall in HS. specialize (HS a (in_letters a Ha)).
  rewrite forallb_forall in HS. specialize (HS b (in_letters b Hb)).
  rewrite forallb_forall in HS. specialize (HS c (in_letters c Hc)).
  unfold lang_chk in HS. apply andb_prop in HS. destruct HS as [H1 H2].
  split; [apply N.ltb_lt; exact H1|apply bytes_eqb_eq; exact H2].
Qed.
Print Assumptions language_code_roundtrip.

Lemma utf8_chars_f_ascii : forall l f, (length l < f)%nat -> Forall (fun c => c < 128) l -> utf8_chars_f f l = l.
Proof.
  induction l as [|c l IH]; intros f Hf HF.
  - destruct f; reflexivity.
  - destruct f as [|f]; [cbn [length] in Hf; lia|].
    inversion HF as [|? ? Hc HF']; subst. cbn beta in Hc.
    cbn [utf8_chars_f]. replace (c <? 128) with true by lia.
    f_equal. apply IH; [cbn [length] in Hf; lia|exact HF'].
Qed.

Theorem utf8_chars_ascii : forall l, Forall (fun c => c < 128) l -> utf8_chars l = l.
Proof. intros l H. unfold utf8_chars. apply utf8_chars_f_ascii; [apply Nat.lt_succ_diag_r|exact H]. Qed.
Print Assumptions utf8_chars_ascii.

Theorem language_default_is_und :
  exists x, encode_language_code (utf8_chars UND) = be16 x /\ x < 32768 /\ unpack_lang x = UND.
Proof.
  destruct (language_code_roundtrip 117 110 100) as [x Hx]; try lia.
  exists x. exact Hx.
Qed.
Print Assumptions language_default_is_und.

(** * M6 *)
Lemma build_box_cons t p : exists x r, build_box t p = x :: r.
Proof. unfold build_box, be32. cbn [app]. eauto. Qed.

Lemma ilst_item_cons a v : exists x r, build_ilst_string_item a v = x :: r.
Proof. apply build_box_cons. Qed.

Theorem udta_absent_iff : forall m, build_udta_box m = [] <-> (md_title m = None /\ md_creation_time m = None).
Proof.
  intros m. unfold build_udta_box.
  destruct (md_title m) as [t|]; destruct (md_creation_time m) as [c|].
  - destruct (ilst_item_cons T_cnam t) as [x [r E]]. rewrite E. cbn [app].
    match goal with |- context [build_box T_udta ?p] =>
      destruct (build_box_cons T_udta p) as [x' [r' E']]; rewrite E' end.
    split; [discriminate|intros [? ?]; discriminate].
  - destruct (ilst_item_cons T_cnam t) as [x [r E]]. rewrite E. cbn [app].
    match goal with |- context [build_box T_udta ?p] =>
      destruct (build_box_cons T_udta p) as [x' [r' E']]; rewrite E' end.
    split; [discriminate|intros [? ?]; discriminate].
  - destruct (ilst_item_cons T_cday (format_unix_timestamp c)) as [x [r E]]. rewrite E. cbn [app].
    match goal with |- context [build_box T_udta ?p] =>
      destruct (build_box_cons T_udta p) as [x' [r' E']]; rewrite E' end.
    split; [discriminate|intros [? ?]; discriminate].
  - cbn [app]. split; auto.
Qed.
Print Assumptions udta_absent_iff.

(** * M4 *)
Lemma strict_mdhd_explicit b0 b1 b2 b3 b4 b5 b6 b7 b8 b9 b10 b11 b12 b13 b14 b15 b16 b17 b18 b19 b20 b21 b22 b23 :
  strict_mdhd [b0;b1;b2;b3;b4;b5;b6;b7;b8;b9;b10;b11;b12;b13;b14;b15;b16;b17;b18;b19;b20;b21;b22;b23] =
  if (b0 * 16777216 + b1 * 65536 + b2 * 256 + b3 =? 0) && (b20 * 256 + b21 <? 32768) && (b22 * 256 + b23 =? 0)
  then Some {| md_timescale := b12 * 16777216 + b13 * 65536 + b14 * 256 + b15;
               md_duration := b16 * 16777216 + b17 * 65536 + b18 * 256 + b19;
               md_lang := unpack_lang (b20 * 256 + b21) |}
  else None.
Proof. reflexivity. Qed.

Lemma mdhd_payload ts dur l : payload_of (build_mdhd_box ts dur l) =
  be32 0 ++ be32 0 ++ be32 0 ++ be32 ts ++ be32 dur ++
  encode_language_code (utf8_chars (match l with Some l => l | None => UND end)) ++ be16 0.
Proof. reflexivity. Qed.

Lemma strict_mdhd_built ts dur x :
  ts < 4294967296 -> dur < 4294967296 -> x < 32768 ->
  strict_mdhd (be32 0 ++ be32 0 ++ be32 0 ++ be32 ts ++ be32 dur ++ be16 x ++ be16 0) =
  Some {| md_timescale := ts; md_duration := dur; md_lang := unpack_lang x |}.
Proof.
  intros Hts Hdur Hx. unfold be32, be16. cbn [app]. rewrite strict_mdhd_explicit.
  replace (0 / 16777216 mod 256 * 16777216 + 0 / 65536 mod 256 * 65536 + 0 / 256 mod 256 * 256 + 0 mod 256 =? 0)
    with true by reflexivity.
  replace (0 / 256 mod 256 * 256 + 0 mod 256 =? 0) with true by reflexivity.
  replace (x / 256 mod 256 * 256 + x mod 256) with x by lia.
  replace (x <? 32768) with true by lia. cbn [andb].
  f_equal. f_equal; lia.
Qed.

Theorem mdhd_language_recoverable : forall ts dur a b c,
  ts < 4294967296 -> dur < 4294967296 ->
  97 <= a <= 122 -> 97 <= b <= 122 -> 97 <= c <= 122 ->
  strict_mdhd (payload_of (build_mdhd_box ts dur (Some [a; b; c]))) =
    Some {| md_timescale := ts; md_duration := dur; md_lang := [a; b; c] |}.
Proof.
  intros ts dur a b c Hts Hdur Ha Hb Hc. rewrite mdhd_payload.
  rewrite utf8_chars_ascii by (repeat constructor; lia).
  destruct (language_code_roundtrip a b c Ha Hb Hc) as [x [E [Hx Hu]]].
  rewrite E, strict_mdhd_built by assumption. rewrite Hu. reflexivity.
Qed.
Print Assumptions mdhd_language_recoverable.

Theorem mdhd_language_defaults_to_und : forall ts dur,
  ts < 4294967296 -> dur < 4294967296 ->
  strict_mdhd (payload_of (build_mdhd_box ts dur None)) =
    Some {| md_timescale := ts; md_duration := dur; md_lang := UND |}.
Proof.
  intros ts dur Hts Hdur. rewrite mdhd_payload.
  destruct language_default_is_und as [x [E [Hx Hu]]].
  rewrite E, strict_mdhd_built by assumption. rewrite Hu. reflexivity.
Qed.
Print Assumptions mdhd_language_defaults_to_und.

(** * M5 *)
Theorem title_item_roundtrip : forall title : bytes,
  len title < 4294967000 ->
  exists p kids, parse_forest 3 (build_ilst_string_item T_cnam title) = Some [Box T_cnam p kids] /\
                 item_text (Box T_cnam p kids) = Some title.
Proof.
  intros title Hlen.
  set (dp := [0;0;0;1] ++ [0;0;0;0] ++ title).
  assert (Hdp : len dp = 8 + len title) by (unfold dp; cbn [app]; rewrite !len_cons; unfold byte; lia).
  exists (build_box T_data dp), [Box T_data dp []]. split.
  - unfold build_ilst_string_item. fold dp.
    assert (Hin : parse_forest 2 (build_box T_data dp) = Some [Box T_data dp []]).
    { replace (build_box T_data dp) with (cat_boxes [(T_data, dp)]) by (cbn [cat_boxes]; apply app_nil_r).
      rewrite parse_forest_S, parse_boxes_cat.
      - rewrite forest_go_leaf by reflexivity. rewrite forest_go_nil. reflexivity.
      - repeat constructor; cbn [fst snd]. unfold byte, bytes in *. lia. }
    replace (build_box T_cnam (build_box T_data dp)) with (cat_boxes [(T_cnam, build_box T_data dp)])
      by (cbn [cat_boxes]; apply app_nil_r).
    rewrite parse_forest_S, parse_boxes_cat.
    + rewrite forest_go_container0 by reflexivity. rewrite Hin, forest_go_nil. reflexivity.
    + repeat constructor; cbn [fst snd]. rewrite len_build_box. change (len T_data) with 4. unfold byte, bytes in *. lia.
  - unfold item_text, dp. cbn [b_children app firstn skipn]. reflexivity.
Qed.
Print Assumptions title_item_roundtrip.

(** * M1 *)
(* day number (from 1970-01-01) of January 1st of year y, closed form *)
Definition dby (y : N) : N := 365 * (y - 1970) + (y - 1) / 4 - (y - 1) / 100 + (y - 1) / 400 - 477.

Lemma dby_1970 : dby 1970 = 0.
Proof. reflexivity. Qed.

Lemma dby_succ y : 1970 <= y -> dby (y + 1) = dby y + year_len y.
Proof.
  intros Hy. unfold dby, year_len, leap.
  replace (y + 1 - 1) with y by lia.
  destruct ((y mod 4 =? 0) && negb (y mod 100 =? 0) || (y mod 400 =? 0)) eqn:E; lia.
Qed.

Lemma dby_400 y : 1970 <= y -> dby (y + 400) = dby y + 146097.
Proof. intros Hy. unfold dby. lia. Qed.

Lemma leap_400 y : leap (y + 400) = leap y.
Proof. unfold leap. lia. Qed.

Lemma year_len_ge y : 365 <= year_len y.
Proof. unfold year_len. destruct (leap y); lia. Qed.

(* the counting loop lands on the year whose first day is the largest not exceeding the day number *)
Lemma count_years_inv : forall f y d y' r,
  1970 <= y -> d < 365 * N.of_nat f -> count_years f y d = (y', r) ->
  dby y + d = dby y' + r /\ r < year_len y' /\ y <= y'.
Proof.
  induction f as [|f IH]; intros y d y' r Hy Hd E; [lia|].
  cbn [count_years] in E.
  destruct (d <? year_len y) eqn:Hlt.
  - inversion E; subst. lia.
  - pose proof (year_len_ge y) as Hge.
    apply IH in E; [|lia|lia].
    rewrite dby_succ in E by exact Hy. lia.
Qed.

Definition civ (y r : N) : N * N * N :=
  let '(m, d') := count_months (month_lens y) 1 r in (y, m, d' + 1).

Definition triple_eqb (a b : N * N * N) : bool :=
  let '(a1, a2, a3) := a in let '(b1, b2, b3) := b in (a1 =? b1) && (a2 =? b2) && (a3 =? b3).

Lemma triple_eqb_eq a b : triple_eqb a b = true -> a = b.
Proof.
  destruct a as [[a1 a2] a3], b as [[b1 b2] b3]. unfold triple_eqb. intros H.
  apply andb_prop in H. destruct H as [H H3]. apply andb_prop in H. destruct H as [H1 H2].
  apply N.eqb_eq in H1, H2, H3. subst. reflexivity.
Qed.

Definition check_year (y : N) : bool :=
  forallb (fun j => triple_eqb (days_to_ymd (dby y + N.of_nat j)) (civ y (N.of_nat j)))
          (seq 0 (N.to_nat (year_len y))).

(* SWEEP: every day of the 430 years 1970..2399 (157054 days) *)
Lemma sweep_years : forallb (fun i => check_year (1970 + N.of_nat i)) (seq 0 430) = true.
Proof. vm_cast_no_check (eq_refl true). Qed.

Definition year_ok (y : N) : Prop := forall r, r < year_len y -> days_to_ymd (dby y + r) = civ y r.

Lemma year_ok_base y : 1970 <= y < 2400 -> year_ok y.
Proof.
  intros Hy r Hr. pose proof sweep_years as HS. rewrite forallb_forall in HS.
  specialize (HS (N.to_nat (y - 1970))).
  replace (1970 + N.of_nat (N.to_nat (y - 1970))) with y in HS by lia.
  assert (HC : check_year y = true) by (apply HS; apply in_seq; lia).
  unfold check_year in HC. rewrite forallb_forall in HC.
  specialize (HC (N.to_nat r)). rewrite N2Nat.id in HC.
  apply triple_eqb_eq. apply HC. apply in_seq. lia.
Qed.

Lemma days_to_ymd_400 d : days_to_ymd (d + 146097) =
  let '(y, m, dd) := days_to_ymd d in (y + 400, m, dd).
Proof.
  unfold days_to_ymd.
  replace (d + 146097 + 719468) with (d + 719468 + 1 * 146097) by lia.
  rewrite N.div_add by lia. rewrite N.mod_add by lia.
  f_equal. f_equal. lia.
Qed.

Lemma civ_400 y r : civ (y + 400) r = let '(y', m, dd) := civ y r in (y' + 400, m, dd).
Proof.
  unfold civ, month_lens. rewrite leap_400.
  destruct (count_months _ 1 r) as [m d']. reflexivity.
Qed.

Lemma year_ok_400 y : 1970 <= y -> year_ok y -> year_ok (y + 400).
Proof.
  intros Hy H r Hr. unfold year_len in Hr. rewrite leap_400 in Hr.
  rewrite dby_400 by exact Hy.
  replace (dby y + 146097 + r) with (dby y + r + 146097) by lia.
  rewrite days_to_ymd_400, civ_400, (H r Hr). reflexivity.
Qed.

Lemma year_ok_all : forall k y, 1970 <= y < 2400 -> year_ok (y + 400 * N.of_nat k).
Proof.
  induction k as [|k IH]; intros y Hy.
  - replace (y + 400 * N.of_nat 0) with y by lia. apply year_ok_base. exact Hy.
  - replace (y + 400 * N.of_nat (S k)) with (y + 400 * N.of_nat k + 400) by lia.
    apply year_ok_400; [lia|apply IH; exact Hy].
Qed.

Lemma year_ok_ge y : 1970 <= y -> year_ok y.
Proof.
  intros Hy. destruct (N.ltb_spec y 2400) as [Hlt|Hge].
  - apply year_ok_base. lia.
  - replace y with (2000 + (y - 2000) mod 400 + 400 * N.of_nat (N.to_nat ((y - 2000) / 400))) by lia.
    apply year_ok_all. lia.
Qed.

Lemma civil_of_days_civ d y r : count_years (N.to_nat 10000) 1970 d = (y, r) -> civil_of_days d = civ y r.
Proof. intros E. unfold civil_of_days, civ. rewrite E. reflexivity. Qed.

Lemma civil_decomp d : d < 2932897 ->
  exists y r, 1970 <= y /\ r < year_len y /\ d = dby y + r /\ civil_of_days d = civ y r.
Proof.
  intros Hd. destruct (count_years (N.to_nat 10000) 1970 d) as [y r] eqn:E.
  exists y, r.
  assert (Hf : d < 365 * N.of_nat (N.to_nat 10000)) by (rewrite N2Nat.id; lia).
  pose proof (count_years_inv _ _ _ _ _ (N.le_refl _) Hf E) as [H1 [H2 H3]].
  rewrite dby_1970 in H1. repeat split; try assumption. apply civil_of_days_civ. exact E.
Qed.

Theorem calendar_agrees_with_counting : forall d, d < 2932897 -> days_to_ymd d = civil_of_days d.
Proof.
  intros d Hd. destruct (civil_decomp d Hd) as [y [r [Hy [Hr [Ed Ec]]]]].
  rewrite Ec, Ed. apply year_ok_ge; assumption.
Qed.
Print Assumptions calendar_agrees_with_counting.

(** * M2 *)
Lemma pad4_sweep : forallb (fun i => bytes_eqb (pad0 4 (N.of_nat i)) (four (N.of_nat i))) (seq 0 (N.to_nat 10000)) = true.
Proof. vm_cast_no_check (eq_refl true). Qed.

Lemma pad2_sweep : forallb (fun i => bytes_eqb (pad0 2 (N.of_nat i)) (two (N.of_nat i))) (seq 0 100) = true.
Proof. vm_cast_no_check (eq_refl true). Qed.

Lemma pad0_4 y : y < 10000 -> pad0 4 y = four y.
Proof.
  intros H. pose proof pad4_sweep as HS. rewrite forallb_forall in HS.
  specialize (HS (N.to_nat y)). rewrite N2Nat.id in HS.
  apply bytes_eqb_eq, HS, in_seq. lia.
Qed.

Lemma pad0_2 n : n < 100 -> pad0 2 n = two n.
Proof.
  intros H. pose proof pad2_sweep as HS. rewrite forallb_forall in HS.
  specialize (HS (N.to_nat n)). rewrite N2Nat.id in HS.
  apply bytes_eqb_eq, HS, in_seq. lia.
Qed.

Lemma count_months_bound : forall ml m r m' d',
  count_months ml m r = (m', d') -> r < sumN ml -> Forall (fun l => l <= 31) ml ->
  m' < m + len ml /\ d' < 31.
Proof.
  induction ml as [|l t IH]; intros m r m' d' E Hr HF.
  - cbn [sumN] in Hr. lia.
  - inversion HF as [|? ? Hl HF']; subst. cbn beta in Hl.
    cbn [count_months] in E. cbn [sumN] in Hr. rewrite len_cons.
    destruct (r <? l) eqn:Hlt.
    + inversion E; subst. lia.
    + apply IH in E; [|lia|exact HF']. lia.
Qed.

Lemma sumN_month_lens y : sumN (month_lens y) = year_len y.
Proof. unfold month_lens, year_len. destruct (leap y); reflexivity. Qed.

Lemma month_lens_le y : Forall (fun l => l <= 31) (month_lens y).
Proof. unfold month_lens. destruct (leap y); repeat constructor; lia. Qed.

Lemma dby_lt y : 1970 <= y -> dby y < 2932897 -> y < 10000.
Proof. unfold dby. lia. Qed.

Theorem timestamp_format_is_iso8601 : forall t, t < 253402300800 -> format_unix_timestamp t = iso8601 t.
Proof.
  intros t Ht. unfold format_unix_timestamp, iso8601.
  assert (Hd : t / 86400 < 2932897) by lia.
  rewrite (calendar_agrees_with_counting _ Hd).
  destruct (civil_decomp _ Hd) as [y [r [Hy [Hr [Ed Ec]]]]]. rewrite Ec.
  unfold civ. destruct (count_months (month_lens y) 1 r) as [m d'] eqn:Em.
  apply count_months_bound in Em; [|rewrite sumN_month_lens; exact Hr|apply month_lens_le].
  change (len (month_lens y)) with 12 in Em. destruct Em as [Hm Hd'].
  assert (Hy' : y < 10000) by (apply dby_lt; lia).
  set (rem := t mod 86400).
  assert (Hrem : rem < 86400) by (unfold rem; lia).
  rewrite pad0_4 by exact Hy'.
  rewrite !pad0_2 by lia.
  replace (rem mod 3600 / 60) with ((rem / 60) mod 60) by lia.
  reflexivity.
Qed.
Print Assumptions timestamp_format_is_iso8601.
