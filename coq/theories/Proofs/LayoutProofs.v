(** Layout theorems (C01 / C15): the interleave schedule is a sorted permutation
    that keeps each track in sample order, and the chunk offsets computed while
    walking it address exactly each sample's bytes in the file. *)
From Coq Require Import Sorting.Sorted Sorting.Permutation.
From Coq Require Import Lia ZifyN ZifyNat ZifyBool.
From Muxide Require Import Model.Base Model.Boxes Model.Writer Spec.Layout Proofs.BaseProofs.
Open Scope N_scope.
Ltac Zify.zify_post_hook ::= Z.div_mod_to_equations.

(** * [sched_leb] is a total order *)

Ltac sched_crush :=
  repeat match goal with
         | H : context [if ?c then _ else _] |- _ => destruct c eqn:?
         | |- context [if ?c then _ else _] => destruct c eqn:?
         end;
  try discriminate; try lia.

Lemma sched_leb_total a b : sched_leb a b = false -> sched_leb b a = true.
Proof.
  destruct a as [[ta ka] ia], b as [[tb kb] ib]. unfold sched_leb.
  destruct ka, kb; cbn [kind_ord]; intros H; sched_crush.
Qed.

Lemma sched_le_trans a b c : sched_le a b -> sched_le b c -> sched_le a c.
Proof.
  destruct a as [[ta ka] ia], b as [[tb kb] ib], c as [[tc kc] ic].
  unfold sched_le, sched_leb.
  destruct ka, kb, kc; cbn [kind_ord]; intros H1 H2; sched_crush.
Qed.

Lemma sched_le_antisym a b : sched_le a b -> sched_le b a -> a = b.
Proof.
  destruct a as [[ta ka] ia], b as [[tb kb] ib].
  unfold sched_le, sched_leb.
  destruct ka, kb; cbn [kind_ord]; intros H1 H2; sched_crush;
    (f_equal; [f_equal|]; lia).
Qed.

(** * Insertion sort: permutation and strong sortedness *)

Lemma insert_sched_perm x l : Permutation (insert_sched x l) (x :: l).
Proof.
  induction l as [|y t IH]; cbn [insert_sched].
  - reflexivity.
  - destruct (sched_leb x y).
    + reflexivity.
    + rewrite IH. apply perm_swap.
Qed.

Lemma sort_sched_perm l : Permutation (sort_sched l) l.
Proof.
  unfold sort_sched. induction l as [|x t IH]; cbn [fold_right].
  - constructor.
  - rewrite insert_sched_perm. constructor. exact IH.
Qed.

Lemma insert_sched_ssorted x l :
  StronglySorted sched_le l -> StronglySorted sched_le (insert_sched x l).
Proof.
  induction 1 as [|y t St IH Fy]; cbn [insert_sched].
  - constructor; constructor.
  - destruct (sched_leb x y) eqn:E.
    + constructor.
      * constructor; assumption.
      * constructor; [exact E|].
        eapply Forall_impl; [|exact Fy]. intros z Hz.
        eapply sched_le_trans; [exact E|exact Hz].
    + constructor; [exact IH|].
      rewrite Forall_forall. intros z Hz.
      apply (Permutation_in _ (insert_sched_perm x t)) in Hz.
      destruct Hz as [<-|Hz].
      * apply sched_leb_total. exact E.
      * rewrite Forall_forall in Fy. apply Fy. exact Hz.
Qed.

Lemma sort_sched_ssorted l : StronglySorted sched_le (sort_sched l).
Proof.
  unfold sort_sched. induction l as [|x t IH]; cbn [fold_right].
  - constructor.
  - apply insert_sched_ssorted. exact IH.
Qed.

Lemma schedule_ssorted vs as_ :
  StronglySorted sched_le (compute_interleave_schedule vs as_).
Proof. apply sort_sched_ssorted. Qed.

Lemma schedule_perm vs as_ :
  Permutation (compute_interleave_schedule vs as_) (video_entries vs ++ audio_entries as_).
Proof. apply sort_sched_perm. Qed.

Theorem schedule_is_sorted_permutation : forall vs as_,
  Permutation (compute_interleave_schedule vs as_) (video_entries vs ++ audio_entries as_) /\
  Sorted sched_le (compute_interleave_schedule vs as_).
Proof.
  intros vs as_. split.
  - apply schedule_perm.
  - apply StronglySorted_Sorted. apply schedule_ssorted.
Qed.
Print Assumptions schedule_is_sorted_permutation.

(** * Generic list facts *)

Lemma filter_ssorted {A} (R : A -> A -> Prop) f l :
  StronglySorted R l -> StronglySorted R (filter f l).
Proof.
  induction 1 as [|a t St IH Fa]; cbn [filter].
  - constructor.
  - destruct (f a); [|exact IH].
    constructor; [exact IH|].
    rewrite Forall_forall in *. intros y Hy. apply filter_In in Hy. apply Fa, Hy.
Qed.

Lemma filter_perm {A} (f : A -> bool) l l' :
  Permutation l l' -> Permutation (filter f l) (filter f l').
Proof.
  induction 1 as [|x l l' P IH|x y l|l l' l'' P1 IH1 P2 IH2]; cbn [filter].
  - constructor.
  - destruct (f x); [constructor|]; exact IH.
  - destruct (f x), (f y); try reflexivity. apply perm_swap.
  - etransitivity; eassumption.
Qed.

Lemma ssorted_perm_eq {A} (R : A -> A -> Prop) :
  (forall a b, R a b -> R b a -> a = b) ->
  forall l1 l2, StronglySorted R l1 -> StronglySorted R l2 -> Permutation l1 l2 -> l1 = l2.
Proof.
  intros anti. induction l1 as [|x l1 IH]; intros l2 S1 S2 P.
  - apply Permutation_nil in P. subst. reflexivity.
  - destruct l2 as [|y l2].
    + symmetry in P. apply Permutation_nil in P. discriminate.
    + inversion S1 as [|? ? S1' F1]; inversion S2 as [|? ? S2' F2]; subst.
      assert (E : x = y).
      { assert (Hx : In x (y :: l2)) by (eapply Permutation_in; [exact P|apply in_eq]).
        assert (Hy : In y (x :: l1))
          by (eapply Permutation_in; [symmetry; exact P|apply in_eq]).
        destruct Hx as [->|Hx]; [reflexivity|].
        destruct Hy as [->|Hy]; [reflexivity|].
        rewrite Forall_forall in F1, F2. apply anti; [apply F1, Hy|apply F2, Hx]. }
      subst y. f_equal. apply IH; try assumption.
      eapply Permutation_cons_inv. exact P.
Qed.

Lemma filter_map_all {A B} (f : B -> bool) (g : A -> B) l :
  (forall a, f (g a) = true) -> filter f (map g l) = map g l.
Proof.
  intros H. induction l as [|a t IH]; cbn [map filter]; [reflexivity|].
  rewrite H, IH. reflexivity.
Qed.

Lemma filter_map_none {A B} (f : B -> bool) (g : A -> B) l :
  (forall a, f (g a) = false) -> filter f (map g l) = [].
Proof.
  intros H. induction l as [|a t IH]; cbn [map filter]; [reflexivity|].
  rewrite H, IH. reflexivity.
Qed.

Lemma ssorted_nth {A} (R : A -> A -> Prop) l :
  StronglySorted R l ->
  forall i j a b, (i < j)%nat -> nth_error l i = Some a -> nth_error l j = Some b -> R a b.
Proof.
  induction 1 as [|x t St IH Fx]; intros i j a b Hij Hi Hj.
  - destruct i; discriminate.
  - destruct j as [|j]; [lia|]. cbn [nth_error] in Hj.
    destruct i as [|i]; cbn [nth_error] in Hi.
    + injection Hi as <-. rewrite Forall_forall in Fx. apply Fx.
      eapply nth_error_In. exact Hj.
    + eapply IH; [|exact Hi|exact Hj]. lia.
Qed.

Lemma ssorted_in2 {A} (R : A -> A -> Prop) l :
  StronglySorted R l ->
  forall a b, In a l -> In b l -> a = b \/ R a b \/ R b a.
Proof.
  induction 1 as [|x t St IH Fx]; intros a b Ha Hb.
  - destruct Ha.
  - rewrite Forall_forall in Fx.
    destruct Ha as [<-|Ha], Hb as [<-|Hb]; auto.
Qed.

Lemma nth_error_map_pair {A B} (l : list (A * B)) i a b :
  nth_error (map fst l) i = Some a -> nth_error (map snd l) i = Some b ->
  nth_error l i = Some (a, b).
Proof.
  revert i. induction l as [|[x y] t IH]; intros i; destruct i as [|i]; cbn [map nth_error fst snd];
    try discriminate.
  - intros [= <-] [= <-]. reflexivity.
  - apply IH.
Qed.

(** * [index_from] and the per-track entry lists *)

Lemma index_from_length {A} (l : list A) k : length (index_from k l) = length l.
Proof. revert k. induction l as [|x t IH]; intros k; cbn [index_from length]; [reflexivity|]. rewrite IH. reflexivity. Qed.

Lemma index_from_in {A} (l : list A) k p :
  In p (index_from k l) -> (k <= fst p)%nat /\ In (snd p) l.
Proof.
  revert k. induction l as [|x t IH]; intros k H; cbn [index_from] in H.
  - destruct H.
  - destruct H as [<-|H].
    + cbn [fst snd]. split; [lia|apply in_eq].
    + apply IH in H. destruct H as [H1 H2]. split; [lia|apply in_cons; exact H2].
Qed.

Lemma index_from_nth {A} (l : list A) k i s :
  nth_error l i = Some s -> nth_error (index_from k l) i = Some ((k + i)%nat, s).
Proof.
  revert k i. induction l as [|x t IH]; intros k i H; destruct i as [|i]; cbn [nth_error index_from] in *;
    try discriminate.
  - injection H as <-. f_equal. f_equal. lia.
  - rewrite (IH (S k) i H). f_equal. f_equal. lia.
Qed.

Lemma video_entries_length vs : length (video_entries vs) = length vs.
Proof. unfold video_entries. rewrite map_length. apply index_from_length. Qed.

Lemma audio_entries_length as_ : length (audio_entries as_) = length as_.
Proof. unfold audio_entries. rewrite map_length. apply index_from_length. Qed.

Lemma video_entries_nth vs i s :
  nth_error vs i = Some s -> nth_error (video_entries vs) i = Some (s_dts s, KVideo, i).
Proof.
  intros H. unfold video_entries.
  erewrite map_nth_error; [|apply index_from_nth; exact H]. reflexivity.
Qed.

Lemma audio_entries_nth as_ i s :
  nth_error as_ i = Some s -> nth_error (audio_entries as_) i = Some (s_pts s, KAudio, i).
Proof.
  intros H. unfold audio_entries.
  erewrite map_nth_error; [|apply index_from_nth; exact H]. reflexivity.
Qed.

Lemma video_entries_ssorted_from vs : forall k,
  dts_increasing vs ->
  StronglySorted sched_le (map (fun p => (s_dts (snd p), KVideo, fst p)) (index_from k vs)).
Proof.
  induction vs as [|a t IH]; intros k H; cbn [index_from map].
  - constructor.
  - inversion H as [|? ? St Fa]; subst. constructor.
    + apply IH. exact St.
    + rewrite Forall_forall in *. intros e He. apply in_map_iff in He.
      destruct He as [p [<- Hp]]. apply index_from_in in Hp. destruct Hp as [_ Hp].
      apply Fa in Hp. cbn [fst snd]. unfold sched_le, sched_leb.
      replace (s_dts a <? s_dts (snd p)) with true by lia. reflexivity.
Qed.

Lemma audio_entries_ssorted_from as_ : forall k,
  pts_nondecreasing as_ ->
  StronglySorted sched_le (map (fun p => (s_pts (snd p), KAudio, fst p)) (index_from k as_)).
Proof.
  induction as_ as [|a t IH]; intros k H; cbn [index_from map].
  - constructor.
  - inversion H as [|? ? St Fa]; subst. constructor.
    + apply IH. exact St.
    + rewrite Forall_forall in *. intros e He. apply in_map_iff in He.
      destruct He as [p [<- Hp]]. apply index_from_in in Hp. destruct Hp as [Hk Hp].
      apply Fa in Hp. cbn [fst snd]. unfold sched_le, sched_leb. cbn [kind_ord].
      sched_crush.
Qed.

Lemma filter_video_video vs : filter is_video_entry (video_entries vs) = video_entries vs.
Proof. apply filter_map_all. reflexivity. Qed.
Lemma filter_video_audio as_ : filter is_video_entry (audio_entries as_) = [].
Proof. apply filter_map_none. reflexivity. Qed.
Lemma filter_audio_audio as_ : filter is_audio_entry (audio_entries as_) = audio_entries as_.
Proof. apply filter_map_all. reflexivity. Qed.
Lemma filter_audio_video vs : filter is_audio_entry (video_entries vs) = [].
Proof. apply filter_map_none. reflexivity. Qed.

Theorem schedule_keeps_video_in_sample_order : forall vs as_,
  dts_increasing vs ->
  filter is_video_entry (compute_interleave_schedule vs as_) = video_entries vs.
Proof.
  intros vs as_ Hv.
  apply (ssorted_perm_eq sched_le sched_le_antisym).
  - apply filter_ssorted. apply schedule_ssorted.
  - apply video_entries_ssorted_from. exact Hv.
  - rewrite (filter_perm is_video_entry _ _ (schedule_perm vs as_)).
    rewrite filter_app, filter_video_video, filter_video_audio, app_nil_r. reflexivity.
Qed.
Print Assumptions schedule_keeps_video_in_sample_order.

Theorem schedule_keeps_audio_in_sample_order : forall vs as_,
  pts_nondecreasing as_ ->
  filter is_audio_entry (compute_interleave_schedule vs as_) = audio_entries as_.
Proof.
  intros vs as_ Ha.
  apply (ssorted_perm_eq sched_le sched_le_antisym).
  - apply filter_ssorted. apply schedule_ssorted.
  - apply audio_entries_ssorted_from. exact Ha.
  - rewrite (filter_perm is_audio_entry _ _ (schedule_perm vs as_)).
    rewrite filter_app, filter_audio_audio, filter_audio_video. reflexivity.
Qed.
Print Assumptions schedule_keeps_audio_in_sample_order.

(** * Offsets: schedule entries tagged with their prefix-sum offsets *)

Section Tag.
Variables vs as_ : list sample.
Notation data := (sched_data vs as_).

Fixpoint tag (sc : list sched_entry) (c : N) : list (sched_entry * N) :=
  match sc with
  | [] => []
  | e :: t => (e, c) :: tag t (c + len (data e))
  end.

Definition pf (P : sched_entry -> bool) (p : sched_entry * N) : bool := P (fst p).

(* storage relation: [p] is scheduled no later than [q] and ends before [q] starts *)
Definition stor (p q : sched_entry * N) : Prop :=
  sched_le (fst p) (fst q) /\ snd p + len (data (fst p)) <= snd q.

Lemma tag_map_fst sc : forall c, map fst (tag sc c) = sc.
Proof.
  induction sc as [|e t IH]; intros c; cbn [tag map fst]; [reflexivity|].
  rewrite IH. reflexivity.
Qed.

Lemma tag_filter_fst P sc : forall c, map fst (filter (pf P) (tag sc c)) = filter P sc.
Proof.
  induction sc as [|e t IH]; intros c; cbn [tag filter]; [reflexivity|].
  unfold pf at 1. cbn [fst]. destruct (P e); cbn [map fst]; rewrite IH; reflexivity.
Qed.

Lemma tag_filter_cons_true P e t c :
  P e = true -> filter (pf P) (tag (e :: t) c) = (e, c) :: filter (pf P) (tag t (c + len (data e))).
Proof. intros H. cbn [tag filter]. unfold pf at 1. cbn [fst]. rewrite H. reflexivity. Qed.

Lemma tag_filter_cons_false P e t c :
  P e = false -> filter (pf P) (tag (e :: t) c) = filter (pf P) (tag t (c + len (data e))).
Proof. intros H. cbn [tag filter]. unfold pf at 1. cbn [fst]. rewrite H. reflexivity. Qed.

Lemma tag_lower sc : forall c, Forall (fun q => c <= snd q) (tag sc c).
Proof.
  induction sc as [|e t IH]; intros c; cbn [tag]; constructor.
  - cbn [snd]. lia.
  - eapply Forall_impl; [|apply IH]. cbn beta. intros q Hq. lia.
Qed.

Lemma tag_ssorted sc : forall c,
  StronglySorted sched_le sc -> StronglySorted stor (tag sc c).
Proof.
  induction sc as [|e t IH]; intros c H; cbn [tag].
  - constructor.
  - inversion H as [|? ? St Fe]; subst. constructor.
    + apply IH. exact St.
    + rewrite Forall_forall in *. intros q Hq. split; cbn [fst snd].
      * apply Fe. rewrite <- (tag_map_fst t (c + len (data e))). apply in_map. exact Hq.
      * pose proof (tag_lower t (c + len (data e))) as L. rewrite Forall_forall in L.
        apply L. exact Hq.
Qed.

Lemma tag_addresses sc : forall c pre post,
  len pre = c ->
  Forall (fun p => take (len (data (fst p))) (drop (snd p) (pre ++ concat (map data sc) ++ post))
                   = data (fst p)) (tag sc c).
Proof.
  induction sc as [|e t IH]; intros c pre post Hc; cbn [tag map concat]; constructor.
  - cbn [fst snd]. subst c. rewrite drop_app_exact. rewrite <- app_assoc. apply take_app_exact.
  - specialize (IH (c + len (data e)) (pre ++ data e) post).
    rewrite <- !app_assoc in *. apply IH. rewrite len_app. lia.
Qed.

Lemma walk_offsets_tag sc : forall c vo ao,
  walk_offsets vs as_ sc c = WalkOk vo ao ->
  vo = map snd (filter (pf is_video_entry) (tag sc c)) /\
  ao = map snd (filter (pf is_audio_entry) (tag sc c)).
Proof.
  induction sc as [|e t IH]; intros c vo ao H; cbn [walk_offsets] in H.
  - injection H as <- <-. split; reflexivity.
  - destruct (U32MAX <? c); [discriminate|].
    destruct (walk_offsets vs as_ t (c + len (data e))) as [vo' ao'|] eqn:E; [|discriminate].
    apply IH in E. destruct E as [E1 E2].
    subst vo' ao'. destruct e as [[ts k] i]. cbn [fst snd] in H.
    destruct k; injection H as <- <-.
    + rewrite (tag_filter_cons_true is_video_entry), (tag_filter_cons_false is_audio_entry) by reflexivity.
      split; reflexivity.
    + rewrite (tag_filter_cons_false is_video_entry), (tag_filter_cons_true is_audio_entry) by reflexivity.
      split; reflexivity.
Qed.

Lemma data_small :
  Forall (fun s => len (s_data s) < 4294967296) vs -> Forall (fun s => len (s_data s) < 4294967296) as_ ->
  forall e, len (data e) < 4294967296.
Proof.
  intros Fv Fa [[ts k] i]. rewrite Forall_forall in Fv, Fa.
  unfold sched_data, sample_at. destruct k.
  - destruct (nth_error vs i) as [s|] eqn:E; [|reflexivity]. apply Fv. eapply nth_error_In. exact E.
  - destruct (nth_error as_ i) as [s|] eqn:E; [|reflexivity]. apply Fa. eapply nth_error_In. exact E.
Qed.

Lemma walk_std_tag :
  Forall (fun s => len (s_data s) < 4294967296) vs -> Forall (fun s => len (s_data s) < 4294967296) as_ ->
  forall sc c acc vo0 ao0 bufs vo ao,
  walk_std vs as_ sc c acc vo0 ao0 = (bufs, vo, ao, true) ->
  bufs = rev acc ++ map data sc /\
  vo = rev vo0 ++ map snd (filter (pf is_video_entry) (tag sc c)) /\
  ao = rev ao0 ++ map snd (filter (pf is_audio_entry) (tag sc c)).
Proof.
  intros Fv Fa. induction sc as [|e t IH]; intros c acc vo0 ao0 bufs vo ao H; cbn [walk_std] in H.
  - injection H as <- <- <-. cbn [map tag filter]. rewrite !app_nil_r. repeat split.
  - pose proof (data_small Fv Fa e) as Hs.
    assert (Hu : u32 (len (data e)) = len (data e)) by (unfold u32; apply N.mod_small; exact Hs).
    rewrite Hu in H.
    destruct (U32MAX <? c + len (data e)); [discriminate|].
    apply IH in H. destruct H as [Hb [Hvo Hao]].
    subst bufs vo ao. destruct e as [[ts k] i]. cbn [fst snd rev map].
    destruct k.
    + rewrite (tag_filter_cons_true is_video_entry), (tag_filter_cons_false is_audio_entry) by reflexivity.
      cbn [map snd rev]. rewrite <- !app_assoc. repeat split.
    + rewrite (tag_filter_cons_false is_video_entry), (tag_filter_cons_true is_audio_entry) by reflexivity.
      cbn [map snd rev]. rewrite <- !app_assoc. repeat split.
Qed.

(** ** Tying entries of the real schedule to samples *)

Notation sched := (compute_interleave_schedule vs as_).

Lemma video_tag_nth c i s o :
  dts_increasing vs ->
  nth_error vs i = Some s ->
  nth_error (map snd (filter (pf is_video_entry) (tag sched c))) i = Some o ->
  nth_error (filter (pf is_video_entry) (tag sched c)) i = Some ((s_dts s, KVideo, i), o).
Proof.
  intros Hv Hs Ho. apply nth_error_map_pair; [|exact Ho].
  rewrite tag_filter_fst, (schedule_keeps_video_in_sample_order _ _ Hv).
  apply video_entries_nth. exact Hs.
Qed.

Lemma audio_tag_nth c i s o :
  pts_nondecreasing as_ ->
  nth_error as_ i = Some s ->
  nth_error (map snd (filter (pf is_audio_entry) (tag sched c))) i = Some o ->
  nth_error (filter (pf is_audio_entry) (tag sched c)) i = Some ((s_pts s, KAudio, i), o).
Proof.
  intros Ha Hs Ho. apply nth_error_map_pair; [|exact Ho].
  rewrite tag_filter_fst, (schedule_keeps_audio_in_sample_order _ _ Ha).
  apply audio_entries_nth. exact Hs.
Qed.

Lemma data_video ts i s : nth_error vs i = Some s -> data (ts, KVideo, i) = s_data s.
Proof. intros H. unfold sched_data, sample_at. rewrite H. reflexivity. Qed.
Lemma data_audio ts i s : nth_error as_ i = Some s -> data (ts, KAudio, i) = s_data s.
Proof. intros H. unfold sched_data, sample_at. rewrite H. reflexivity. Qed.

Lemma video_offs_length c :
  dts_increasing vs ->
  length (map snd (filter (pf is_video_entry) (tag sched c))) = length vs.
Proof.
  intros Hv. rewrite map_length, <- (map_length fst), tag_filter_fst,
    (schedule_keeps_video_in_sample_order _ _ Hv). apply video_entries_length.
Qed.

Lemma audio_offs_length c :
  pts_nondecreasing as_ ->
  length (map snd (filter (pf is_audio_entry) (tag sched c))) = length as_.
Proof.
  intros Ha. rewrite map_length, <- (map_length fst), tag_filter_fst,
    (schedule_keeps_audio_in_sample_order _ _ Ha). apply audio_entries_length.
Qed.

Lemma tag_core start pre post vo ao :
  dts_increasing vs -> pts_nondecreasing as_ -> len pre = start ->
  vo = map snd (filter (pf is_video_entry) (tag sched start)) ->
  ao = map snd (filter (pf is_audio_entry) (tag sched start)) ->
  let file := pre ++ concat (map data sched) ++ post in
  length vo = length vs /\ length ao = length as_ /\
  (forall i s o, nth_error vs i = Some s -> nth_error vo i = Some o ->
                 take (len (s_data s)) (drop o file) = s_data s) /\
  (forall i s o, nth_error as_ i = Some s -> nth_error ao i = Some o ->
                 take (len (s_data s)) (drop o file) = s_data s).
Proof.
  intros Hv Ha Hpre -> -> file.
  pose proof (tag_addresses sched start pre post Hpre) as Addr. fold file in Addr.
  rewrite Forall_forall in Addr.
  split; [apply video_offs_length; exact Hv|].
  split; [apply audio_offs_length; exact Ha|].
  split; intros i s o Hs Ho.
  - pose proof (video_tag_nth start i s o Hv Hs Ho) as Hn.
    apply nth_error_In, filter_In in Hn. destruct Hn as [Hn _].
    apply Addr in Hn. cbn [fst snd] in Hn.
    rewrite (data_video _ _ _ Hs) in Hn. exact Hn.
  - pose proof (audio_tag_nth start i s o Ha Hs Ho) as Hn.
    apply nth_error_In, filter_In in Hn. destruct Hn as [Hn _].
    apply Addr in Hn. cbn [fst snd] in Hn.
    rewrite (data_audio _ _ _ Hs) in Hn. exact Hn.
Qed.

End Tag.

(* fast-start pass: offsets are prefix sums from [start] and address the sample bytes *)
Theorem walk_offsets_address_samples : forall vs as_ start pre post vo ao,
  dts_increasing vs -> pts_nondecreasing as_ -> len pre = start ->
  walk_offsets vs as_ (compute_interleave_schedule vs as_) start = WalkOk vo ao ->
  let file := pre ++ concat (map (sched_data vs as_) (compute_interleave_schedule vs as_)) ++ post in
  length vo = length vs /\ length ao = length as_ /\
  (forall i s o, nth_error vs i = Some s -> nth_error vo i = Some o ->
                 take (len (s_data s)) (drop o file) = s_data s) /\
  (forall i s o, nth_error as_ i = Some s -> nth_error ao i = Some o ->
                 take (len (s_data s)) (drop o file) = s_data s).
Proof.
  intros vs as_ start pre post vo ao Hv Ha Hpre Hw.
  apply walk_offsets_tag in Hw. destruct Hw as [Hvo Hao].
  exact (tag_core vs as_ start pre post vo ao Hv Ha Hpre Hvo Hao).
Qed.
Print Assumptions walk_offsets_address_samples.

(* standard-layout pass (u32 cursor; sample sizes below 2^32 as the writer guarantees) *)
Theorem walk_std_address_samples : forall vs as_ start pre post bufs vo ao,
  dts_increasing vs -> pts_nondecreasing as_ -> len pre = start ->
  Forall (fun s => len (s_data s) < 4294967296) vs -> Forall (fun s => len (s_data s) < 4294967296) as_ ->
  walk_std vs as_ (compute_interleave_schedule vs as_) start [] [] [] = (bufs, vo, ao, true) ->
  let file := pre ++ concat bufs ++ post in
  bufs = map (sched_data vs as_) (compute_interleave_schedule vs as_) /\
  length vo = length vs /\ length ao = length as_ /\
  (forall i s o, nth_error vs i = Some s -> nth_error vo i = Some o ->
                 take (len (s_data s)) (drop o file) = s_data s) /\
  (forall i s o, nth_error as_ i = Some s -> nth_error ao i = Some o ->
                 take (len (s_data s)) (drop o file) = s_data s).
Proof.
  intros vs as_ start pre post bufs vo ao Hv Ha Hpre Fv Fa Hw.
  apply (walk_std_tag vs as_ Fv Fa) in Hw. cbn [rev app] in Hw.
  destruct Hw as [Hb [Hvo Hao]]. subst bufs.
  split; [reflexivity|].
  exact (tag_core vs as_ start pre post vo ao Hv Ha Hpre Hvo Hao).
Qed.
Print Assumptions walk_std_address_samples.

(* C15: storage order. *)
Theorem walk_offsets_storage_order : forall vs as_ start vo ao,
  dts_increasing vs -> pts_nondecreasing as_ ->
  walk_offsets vs as_ (compute_interleave_schedule vs as_) start = WalkOk vo ao ->
  (forall i j oi oj si, (i < j)%nat -> nth_error vo i = Some oi -> nth_error vo j = Some oj ->
        nth_error vs i = Some si -> oi + len (s_data si) <= oj) /\
  (forall i j oi oj si, (i < j)%nat -> nth_error ao i = Some oi -> nth_error ao j = Some oj ->
        nth_error as_ i = Some si -> oi + len (s_data si) <= oj) /\
  (forall i j sv sa ov oa, nth_error vs i = Some sv -> nth_error as_ j = Some sa ->
        nth_error vo i = Some ov -> nth_error ao j = Some oa ->
        (s_dts sv <= s_pts sa -> ov + len (s_data sv) <= oa) /\
        (s_pts sa < s_dts sv -> oa + len (s_data sa) <= ov)).
Proof.
  intros vs as_ start vo ao Hv Ha Hw.
  apply walk_offsets_tag in Hw. destruct Hw as [-> ->].
  pose proof (tag_ssorted vs as_ _ start (schedule_ssorted vs as_)) as SS.
  split; [|split].
  - intros i j oi oj si Hij Hoi Hoj Hsi.
    assert (Hlen : (j < length vs)%nat).
    { rewrite <- (video_offs_length vs as_ start Hv). apply nth_error_Some. rewrite Hoj. discriminate. }
    destruct (nth_error vs j) as [sj|] eqn:Hsj; [|apply nth_error_None in Hsj; lia].
    pose proof (video_tag_nth vs as_ start i si oi Hv Hsi Hoi) as Ni.
    pose proof (video_tag_nth vs as_ start j sj oj Hv Hsj Hoj) as Nj.
    pose proof (ssorted_nth _ _ (filter_ssorted _ (pf is_video_entry) _ SS) i j _ _ Hij Ni Nj) as [_ R].
    cbn [fst snd] in R. rewrite (data_video vs as_ _ _ _ Hsi) in R. exact R.
  - intros i j oi oj si Hij Hoi Hoj Hsi.
    assert (Hlen : (j < length as_)%nat).
    { rewrite <- (audio_offs_length vs as_ start Ha). apply nth_error_Some. rewrite Hoj. discriminate. }
    destruct (nth_error as_ j) as [sj|] eqn:Hsj; [|apply nth_error_None in Hsj; lia].
    pose proof (audio_tag_nth vs as_ start i si oi Ha Hsi Hoi) as Ni.
    pose proof (audio_tag_nth vs as_ start j sj oj Ha Hsj Hoj) as Nj.
    pose proof (ssorted_nth _ _ (filter_ssorted _ (pf is_audio_entry) _ SS) i j _ _ Hij Ni Nj) as [_ R].
    cbn [fst snd] in R. rewrite (data_audio vs as_ _ _ _ Hsi) in R. exact R.
  - intros i j sv sa ov oa Hsv Hsa Hov Hoa.
    pose proof (video_tag_nth vs as_ start i sv ov Hv Hsv Hov) as Nv.
    pose proof (audio_tag_nth vs as_ start j sa oa Ha Hsa Hoa) as Na.
    apply nth_error_In, filter_In in Nv. destruct Nv as [Nv _].
    apply nth_error_In, filter_In in Na. destruct Na as [Na _].
    destruct (ssorted_in2 _ _ SS _ _ Nv Na) as [E|[[L R]|[L R]]].
    + discriminate.
    + cbn [fst snd] in L, R. rewrite (data_video vs as_ _ _ _ Hsv) in R.
      split; intros Hc; [exact R|].
      exfalso. unfold sched_le, sched_leb in L. cbn [kind_ord] in L. sched_crush.
    + cbn [fst snd] in L, R. rewrite (data_audio vs as_ _ _ _ Hsa) in R.
      split; intros Hc; [|exact R].
      exfalso. unfold sched_le, sched_leb in L. cbn [kind_ord] in L. sched_crush.
Qed.
Print Assumptions walk_offsets_storage_order.
