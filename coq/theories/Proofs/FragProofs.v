(** Fragmented muxer: media-segment round trip through the independent reader
    (T1), refinement of the abstract queue (T2), conservation and sequence
    numbering (T3), monotonic-dts rejection (T4).

    T1 carries one hypothesis more than [seg_fits]: the trun data offset
    [96 + 16 * len l] is read back as a signed 32-bit value, so it must stay
    below 2^31.  [seg_fits_too_weak] / [segment_roundtrip_needs_offset_bound]
    show that [seg_fits] alone does not suffice. *)
From Coq Require Import Lia ZifyN ZifyNat ZifyBool.
From Muxide Require Import Model.Base Model.Boxes Model.Frag Spec.Bmff Spec.Reader Spec.FragSpec
  Proofs.BaseProofs Proofs.TableProofs.
Open Scope N_scope.
Ltac Zify.zify_post_hook ::= Z.div_mod_to_equations.

(** * T2 *)
Definition abs (m : fmuxer) : aq :=
  {| aq_pending := rev (fm_samples_rev m); aq_seq := fm_seq m; aq_last := fm_last_dts m |}.

Theorem fstep_refines_queue : forall (m : fmuxer) (o : fop),
  abs (fst (fstep m o)) = fst (aq_step (abs m) o) /\
  (match snd (fstep m o) with
   | FrSeg (Some b) => exists s0 rest, snd (aq_step (abs m) o) = [(fm_seq m, s0 :: rest)] /\
                        b = build_media_segment (s0 :: rest) (fm_seq m) (fs_dts s0)
   | _ => snd (aq_step (abs m) o) = []
   end).
Proof.
  intros m o. destruct o as [p d b s| | | |].
  - cbn [fstep aq_step]. unfold f_write. cbn [abs aq_last].
    destruct (fm_last_dts m) as [l|].
    + destruct (d <? l); cbn [fst snd]; split; reflexivity.
    + cbn [fst snd]; split; reflexivity.
  - cbn [fstep aq_step]. unfold f_flush. cbn [abs aq_pending aq_seq aq_last].
    destruct (rev (fm_samples_rev m)) as [|s0 rest] eqn:E.
    + cbn [fst snd]. split; [|reflexivity]. unfold abs. rewrite E. reflexivity.
    + cbn [fst snd]. split; [reflexivity|]. exists s0, rest. split; reflexivity.
  - cbn [fstep aq_step fst snd]. split; reflexivity.
  - cbn [fstep aq_step fst snd]. split; reflexivity.
  - cbn [fstep aq_step]. unfold f_init. destruct (fm_init m); cbn [fst snd]; split; reflexivity.
Qed.
Print Assumptions fstep_refines_queue.

(** * T3 *)
Lemma queue_conserves_gen : forall (ops : list fop) (q : aq),
  concat (map snd (aq_run q ops)) ++
    aq_pending (fold_left (fun q o => fst (aq_step q o)) ops q)
  = aq_pending q ++ accepted_writes (aq_last q) ops.
Proof.
  induction ops as [|o t IH]; intros q.
  - cbn [aq_run map concat fold_left accepted_writes app]. rewrite app_nil_r. reflexivity.
  - cbn [aq_run fold_left].
    destruct (aq_step q o) as [q' out] eqn:E. cbn [fst].
    rewrite map_app, concat_app, <- app_assoc, IH.
    destruct o as [p d b s| | | |]; cbn [aq_step] in E.
    + cbn [accepted_writes].
      destruct (aq_last q) as [l|] eqn:EL.
      * destruct (d <? l); inversion E; subst; cbn [map concat app aq_pending aq_last].
        -- rewrite EL. reflexivity.
        -- rewrite <- app_assoc. reflexivity.
      * inversion E; subst; cbn [map concat app aq_pending aq_last].
        rewrite <- app_assoc. reflexivity.
    + cbn [accepted_writes].
      destruct (aq_pending q) as [|x r] eqn:EP; inversion E; subst;
        cbn [map concat app aq_pending aq_last snd].
      * rewrite EP. reflexivity.
      * rewrite app_nil_r. reflexivity.
    + inversion E; subst. reflexivity.
    + inversion E; subst. reflexivity.
    + inversion E; subst. reflexivity.
Qed.

Theorem queue_conserves_samples : forall (ops : list fop),
  concat (map snd (aq_run aq_init ops)) ++
    aq_pending (fold_left (fun q o => fst (aq_step q o)) ops aq_init)
  = accepted_writes None ops.
Proof. intros ops. rewrite queue_conserves_gen. reflexivity. Qed.
Print Assumptions queue_conserves_samples.

Lemma queue_seq_gen : forall (ops : list fop) (q : aq) (k : nat),
  aq_seq q = N.of_nat k ->
  map fst (aq_run q ops) = map N.of_nat (seq k (length (aq_run q ops))).
Proof.
  induction ops as [|o t IH]; intros q k Hk.
  - reflexivity.
  - cbn [aq_run]. destruct (aq_step q o) as [q' out] eqn:E.
    destruct o as [p d b s| | | |]; cbn [aq_step] in E.
    + assert (Hq : aq_seq q' = N.of_nat k /\ out = []).
      { destruct (aq_last q) as [l|]; [destruct (d <? l)|]; inversion E; subst; auto. }
      destruct Hq as [Hq ->]. cbn [app]. apply IH. exact Hq.
    + destruct (aq_pending q) as [|x r]; inversion E; subst.
      * cbn [app]. apply IH. exact Hk.
      * cbn [app map fst length seq]. f_equal; [exact Hk|].
        apply IH. cbn [aq_seq]. lia.
    + inversion E; subst. cbn [app]. apply IH. exact Hk.
    + inversion E; subst. cbn [app]. apply IH. exact Hk.
    + inversion E; subst. cbn [app]. apply IH. exact Hk.
Qed.

Theorem queue_sequence_numbers : forall (ops : list fop),
  map fst (aq_run aq_init ops) = map N.of_nat (seq 1 (length (aq_run aq_init ops))).
Proof. intros ops. apply queue_seq_gen. reflexivity. Qed.
Print Assumptions queue_sequence_numbers.

(** * T4 *)
Theorem write_rejected_iff : forall m p d b s,
  (exists a c, snd (f_write m p d b s) = FrErrNonMonotonic a c) <->
  (exists l, fm_last_dts m = Some l /\ d < l).
Proof.
  intros m p d b s. unfold f_write.
  destruct (fm_last_dts m) as [l|].
  - destruct (d <? l) eqn:E; cbn [snd].
    + split; [intros _; exists l; split; [reflexivity|lia] | intros _; eauto].
    + split; [intros (a & c & H); discriminate | intros (l' & H & Hl); inversion H; subst; lia].
  - cbn [snd]. split; [intros (a & c & H); discriminate | intros (l' & H & _); discriminate].
Qed.
Print Assumptions write_rejected_iff.

(** * T1 *)

Local Arguments N.add : simpl never.
Local Arguments N.sub : simpl never.
Local Arguments N.mul : simpl never.
Local Arguments N.div : simpl never.
Local Arguments N.modulo : simpl never.
Local Arguments N.eqb : simpl never.
Local Arguments N.ltb : simpl never.
Local Arguments N.leb : simpl never.

(** * numeric round trips *)
Lemma be32_mod x : be32 x = be32 (x mod 4294967296).
Proof. unfold be32. f_equal; [|f_equal; [|f_equal; [|f_equal]]]; lia. Qed.

Lemma rd32_be32_mod x r : rd32 (be32 x ++ r) = Some (x mod 4294967296, r).
Proof. rewrite be32_mod. apply rd32_be32. lia. Qed.

Lemma rd64_be64 x r : x < 18446744073709551616 -> rd64 (be64 x ++ r) = Some (x, r).
Proof.
  intros H. unfold rd64, be64. rewrite <- app_assoc.
  rewrite rd32_be32 by lia. rewrite rd32_be32_mod. f_equal. f_equal. lia.
Qed.

Lemma rd32s_cons k x r : x < 4294967296 ->
  rd32s (S k) (be32 x ++ r) =
  match rd32s k r with Some (l, r') => Some (x :: l, r') | None => None end.
Proof. intros H. cbn [rd32s]. rewrite rd32_be32 by exact H. reflexivity. Qed.

Lemma rd32s_2 a b r : a < 4294967296 -> b < 4294967296 ->
  rd32s 2 (be32 a ++ be32 b ++ r) = Some ([a; b], r).
Proof. intros. rewrite !rd32s_cons by assumption. reflexivity. Qed.

Lemma rd32s_3 a b c r : a < 4294967296 -> b < 4294967296 -> c < 4294967296 ->
  rd32s 3 (be32 a ++ be32 b ++ be32 c ++ r) = Some ([a; b; c], r).
Proof. intros. rewrite !rd32s_cons by assumption. reflexivity. Qed.

Lemma rd32s_4 a b c d r :
  a < 4294967296 -> b < 4294967296 -> c < 4294967296 -> d < 4294967296 ->
  rd32s 4 (be32 a ++ be32 b ++ be32 c ++ be32 d ++ r) = Some ([a; b; c; d], r).
Proof. intros. rewrite !rd32s_cons by assumption. reflexivity. Qed.

Lemma i32_bits_lt z : i32_bits z < 4294967296.
Proof. unfold i32_bits, I32MOD. lia. Qed.

Lemma i32_of_bits_i32_bits z : (-2147483648 <= z <= 2147483647)%Z -> i32_of_bits (i32_bits z) = z.
Proof.
  intros H. unfold i32_of_bits, i32_bits, I32MOD.
  destruct (Z.to_N (z mod 4294967296) <? 2147483648) eqn:E; lia.
Qed.

(** * trun samples *)
Definition tsample (s : frag_sample) (d : N) : trun_sample :=
  {| ts_duration := d; ts_size := len (fs_data s);
     ts_flags := if fs_sync s then 33554432 else 16842752;
     ts_cts := (Z.of_N (fs_pts s) - Z.of_N (fs_dts s))%Z |}.

Definition tview (prev : option N) (l : list frag_sample) : list trun_sample :=
  map (fun sd => tsample (fst sd) (snd sd)) (combine l (spec_durations prev l)).

Definition sview (prev : option N) (l : list frag_sample) : list seg_sample :=
  map (fun sd => {| ss_data := fs_data (fst sd); ss_duration := snd sd; ss_sync := fs_sync (fst sd);
                    ss_cts := (Z.of_N (fs_pts (fst sd)) - Z.of_N (fs_dts (fst sd)))%Z |})
      (combine l (spec_durations prev l)).

Definition cts_ok (s : frag_sample) : Prop :=
  (-2147483648 <= Z.of_N (fs_pts s) - Z.of_N (fs_dts s) <= 2147483647)%Z.

Lemma len_trun_entries l : forall prev, len (trun_entries prev l) = 16 * len l.
Proof.
  induction l as [|s t IH]; intros prev; [reflexivity|].
  cbn [trun_entries]. unfold trun_entry. cbv zeta.
  rewrite !len_app, !len_be32, IH, len_cons. lia.
Qed.

Lemma rd_trun_samples_entries : forall l prev,
  Forall (fun d => d < 4294967296) (spec_durations prev l) ->
  Forall (fun s => len (fs_data s) < 4294967296) l ->
  Forall cts_ok l ->
  rd_trun_samples (length l) (trun_entries prev l) = Some (tview prev l).
Proof.
  induction l as [|s t IH]; intros prev HD HS HC; [reflexivity|].
  cbn [spec_durations] in HD.
  inversion HD as [|? ? Hd HD']; subst. inversion HS as [|? ? Hs HS']; subst.
  inversion HC as [|? ? Hc HC']; subst.
  cbn [trun_entries length rd_trun_samples]. unfold trun_entry. cbv zeta.
  rewrite <- !app_assoc.
  rewrite rd32s_4.
  - rewrite (IH _ HD' HS' HC').
    unfold tview. cbn [spec_durations combine map fst snd]. unfold tsample.
    rewrite (i32_of_bits_i32_bits _ Hc).
    f_equal. f_equal. f_equal.
    destruct t as [|n t']; [destruct prev|]; unfold u32; try reflexivity; cbv beta iota in Hd |- *; lia.
  - destruct t as [|n t']; [destruct prev|]; unfold u32; lia.
  - exact Hs.
  - destruct (fs_sync s); lia.
  - apply i32_bits_lt.
Qed.

Lemma sumN_tview l : forall prev,
  sumN (map ts_size (tview prev l)) = sumN (map (fun s => len (fs_data s)) l).
Proof.
  induction l as [|s t IH]; intros prev; [reflexivity|].
  unfold tview. cbn [spec_durations combine map fst snd sumN tsample ts_size].
  f_equal. apply IH.
Qed.

Lemma len_concat_data (l : list frag_sample) :
  len (concat (map fs_data l)) = sumN (map (fun s => len (fs_data s)) l).
Proof.
  induction l as [|s t IH]; [reflexivity|].
  cbn [map concat sumN]. rewrite len_app, IH. reflexivity.
Qed.

Lemma slices_tview l : forall prev,
  slices (concat (map fs_data l)) (tview prev l) = Some (sview prev l).
Proof.
  induction l as [|s t IH]; intros prev; [reflexivity|].
  unfold tview, sview. cbn [spec_durations combine map fst snd concat].
  cbn [slices tsample ts_size ts_duration ts_flags ts_cts].
  rewrite len_app.
  replace (len (fs_data s) + len (concat (map fs_data t)) <? len (fs_data s)) with false by lia.
  rewrite take_app_exact, drop_app_exact.
  fold (tview (Some (fs_dts s)) t). rewrite IH. fold (sview (Some (fs_dts s)) t).
  f_equal. f_equal. f_equal.
  destruct (fs_sync s); reflexivity.
Qed.

Lemma decode_trun_built l off :
  len l < 4294967296 -> off < 4294967296 ->
  Forall (fun d => d < 4294967296) (spec_durations None l) ->
  Forall (fun s => len (fs_data s) < 4294967296) l ->
  Forall cts_ok l ->
  decode_trun (be32 TRUN_FLAGS ++ be32 (len l) ++ be32 off ++ trun_entries None l)
  = Some (i32_of_bits off, tview None l).
Proof.
  intros Hl Ho HD HS HC. unfold decode_trun.
  rewrite rd32s_3; [| reflexivity | exact Hl | exact Ho].
  replace (TRUN_FLAGS =? 16777216 + 1 + 256 + 512 + 1024 + 2048) with true by reflexivity.
  cbn [negb]. rewrite len_trun_entries.
  replace (16 * len l =? len l * 16) with true by lia. cbn [negb].
  unfold len at 1. rewrite Nat2N.id.
  rewrite (rd_trun_samples_entries _ _ HD HS HC). reflexivity.
Qed.

(** * generic box sequences *)
Lemma parse_boxes_f_mono : forall f b l, parse_boxes_f f b = Some l ->
  forall f', (f <= f')%nat -> parse_boxes_f f' b = Some l.
Proof.
  induction f as [|f IH]; intros b l H f' Hle; [discriminate|].
  destruct f' as [|f']; [lia|].
  cbn [parse_boxes_f] in *.
  destruct b as [|x b']; [exact H|].
  destruct (parse_box (x :: b')) as [[[t p] r]|]; [|discriminate].
  destruct (parse_boxes_f f r) as [l0|] eqn:E; [|discriminate].
  rewrite (IH _ _ E f') by lia. exact H.
Qed.

Lemma parse_boxes_f_box f t0 t1 t2 t3 p r :
  8 + len p < 4294967296 ->
  parse_boxes_f (S f) (build_box [t0; t1; t2; t3] p ++ r) =
  match parse_boxes_f f r with
  | Some l => Some (([t0; t1; t2; t3], p) :: l)
  | None => None
  end.
Proof.
  intros H. cbn [parse_boxes_f].
  destruct (build_box [t0; t1; t2; t3] p ++ r) as [|x b'] eqn:E.
  - unfold build_box, be32 in E. cbn [app] in E. discriminate.
  - rewrite <- E, parse_box_build_box by exact H. reflexivity.
Qed.

Fixpoint cat_boxes (l : list (bytes * bytes)) : bytes :=
  match l with
  | [] => []
  | (t, p) :: r => build_box t p ++ cat_boxes r
  end.

Definition box_ok (tp : bytes * bytes) : Prop :=
  length (fst tp) = 4%nat /\ 8 + len (snd tp) < 4294967296.

Lemma parse_boxes_f_cat l : Forall box_ok l ->
  parse_boxes_f (S (length l)) (cat_boxes l) = Some l.
Proof.
  induction 1 as [|[t p] r [Ht Hp] _ IH]; [reflexivity|].
  cbn [fst snd] in Ht, Hp.
  destruct t as [|t0 [|t1 [|t2 [|t3 [|? ?]]]]]; try discriminate.
  cbn [cat_boxes length]. rewrite parse_boxes_f_box by exact Hp.
  rewrite IH. reflexivity.
Qed.

Lemma length_cat_boxes l : (length l <= length (cat_boxes l))%nat.
Proof.
  induction l as [|[t p] r IH]; [cbn; lia|].
  cbn [cat_boxes length]. unfold build_box. rewrite !app_length, be32_length. lia.
Qed.

Lemma parse_boxes_cat l : Forall box_ok l -> parse_boxes (cat_boxes l) = Some l.
Proof.
  intros H. unfold parse_boxes.
  apply (parse_boxes_f_mono _ _ _ (parse_boxes_f_cat l H)).
  pose proof (length_cat_boxes l). lia.
Qed.

(** * box forests *)
Definition forest_go (d : nat) : list (bytes * bytes) -> option (list btree) :=
  fix go (l : list (bytes * bytes)) : option (list btree) :=
    match l with
    | [] => Some []
    | (t, p) :: r =>
        let kids :=
          match container_prefix t with
          | None => Some []
          | Some k => if len p <? k then None else parse_forest d (drop k p)
          end in
        match kids, go r with
        | Some c, Some rest => Some (Box t p c :: rest)
        | _, _ => None
        end
    end.

Lemma parse_forest_S d b :
  parse_forest (S d) b = match parse_boxes b with None => None | Some l => forest_go d l end.
Proof. reflexivity. Qed.

Lemma forest_go_nil d : forest_go d [] = Some [].
Proof. reflexivity. Qed.

Lemma forest_go_leaf d t p r : container_prefix t = None ->
  forest_go d ((t, p) :: r) =
  match forest_go d r with Some rest => Some (Box t p [] :: rest) | None => None end.
Proof.
  intros H. change (forest_go d ((t, p) :: r)) with
    (match match container_prefix t with
           | None => Some []
           | Some k => if len p <? k then None else parse_forest d (drop k p)
           end, forest_go d r with
     | Some c, Some rest => Some (Box t p c :: rest)
     | _, _ => None
     end).
  rewrite H. reflexivity.
Qed.

Lemma forest_go_container0 d t p r : container_prefix t = Some 0 ->
  forest_go d ((t, p) :: r) =
  match parse_forest d p, forest_go d r with
  | Some c, Some rest => Some (Box t p c :: rest)
  | _, _ => None
  end.
Proof.
  intros H. change (forest_go d ((t, p) :: r)) with
    (match match container_prefix t with
           | None => Some []
           | Some k => if len p <? k then None else parse_forest d (drop k p)
           end, forest_go d r with
     | Some c, Some rest => Some (Box t p c :: rest)
     | _, _ => None
     end).
  rewrite H. replace (len p <? 0) with false by lia. reflexivity.
Qed.

Definition traf_payload (b c d : bytes) : bytes :=
  cat_boxes [(T_tfhd, b); (T_tfdt, c); (T_trun, d)].
Definition moof_payload (a b c d : bytes) : bytes :=
  cat_boxes [(T_mfhd, a); (T_traf, traf_payload b c d)].
Definition moof_tree (a b c d : bytes) : btree :=
  Box T_moof (moof_payload a b c d)
    [Box T_mfhd a [];
     Box T_traf (traf_payload b c d) [Box T_tfhd b []; Box T_tfdt c []; Box T_trun d []]].

Lemma parse_file_segment a b c d e :
  8 + len a < 4294967296 -> 8 + len b < 4294967296 -> 8 + len c < 4294967296 ->
  8 + len d < 4294967296 -> 8 + len e < 4294967296 ->
  8 + len (traf_payload b c d) < 4294967296 ->
  8 + len (moof_payload a b c d) < 4294967296 ->
  parse_file (cat_boxes [(T_moof, moof_payload a b c d); (T_mdat, e)]) =
  Some [moof_tree a b c d; Box T_mdat e []].
Proof.
  intros Ha Hb Hc Hd He Ht Hm.
  unfold parse_file.
  rewrite parse_forest_S, parse_boxes_cat
    by (repeat constructor; assumption).
  rewrite forest_go_container0 by reflexivity.
  unfold moof_payload at 1.
  rewrite parse_forest_S, parse_boxes_cat
    by (repeat constructor; assumption).
  rewrite forest_go_leaf by reflexivity.
  rewrite forest_go_container0 by reflexivity.
  unfold traf_payload at 1.
  rewrite parse_forest_S, parse_boxes_cat
    by (repeat constructor; assumption).
  rewrite !forest_go_leaf by reflexivity.
  rewrite !forest_go_nil.
  reflexivity.
Qed.

Lemma read_fragment_built a b c d s f t r x off ss :
  rd32s 2 a = Some ([0; s], []) ->
  rd32s 2 b = Some ([f; t], []) ->
  rd32 c = Some (16777216, r) ->
  rd64 r = Some (x, []) ->
  decode_trun d = Some (off, ss) ->
  read_fragment (moof_tree a b c d) =
  Some {| fr_seq := s; fr_track_id := t; fr_tfhd_flags := f; fr_base_decode_time := x;
          fr_data_offset := off; fr_samples := ss |}.
Proof.
  intros Ha Hb Hc Hr Hd.
  unfold read_fragment, moof_tree.
  cbn [b_children].
  change (find_box (T 109 102 104 100)
            [Box T_mfhd a [];
             Box T_traf (traf_payload b c d) [Box T_tfhd b []; Box T_tfdt c []; Box T_trun d []]])
    with (Some (Box T_mfhd a [])).
  change (find_box (T 116 114 97 102)
            [Box T_mfhd a [];
             Box T_traf (traf_payload b c d) [Box T_tfhd b []; Box T_tfdt c []; Box T_trun d []]])
    with (Some (Box T_traf (traf_payload b c d) [Box T_tfhd b []; Box T_tfdt c []; Box T_trun d []])).
  cbn [opt_bind b_children].
  change (find_box (T 116 102 104 100) [Box T_tfhd b []; Box T_tfdt c []; Box T_trun d []])
    with (Some (Box T_tfhd b [])).
  change (find_box (T 116 102 100 116) [Box T_tfhd b []; Box T_tfdt c []; Box T_trun d []])
    with (Some (Box T_tfdt c [])).
  change (find_box (T 116 114 117 110) [Box T_tfhd b []; Box T_tfdt c []; Box T_trun d []])
    with (Some (Box T_trun d [])).
  cbn [opt_bind b_payload].
  rewrite Ha, Hb, Hc, Hr, Hd. reflexivity.
Qed.

Lemma drop_to_mdat pm e :
  drop (8 + len pm + 8) (build_box T_moof pm ++ build_box T_mdat e) = e.
Proof.
  assert (E : build_box T_moof pm ++ build_box T_mdat e =
              (build_box T_moof pm ++ be32 (8 + len e) ++ T_mdat) ++ e).
  { unfold build_box at 2. rewrite <- !app_assoc. reflexivity. }
  rewrite E.
  replace (8 + len pm + 8) with (len (build_box T_moof pm ++ be32 (8 + len e) ++ T_mdat)).
  - apply drop_app_exact.
  - rewrite !len_app, len_build_box, !len_be32.
    change (len T_moof) with 4. change (len T_mdat) with 4. lia.
Qed.

Lemma segment_read_built a b c d e s r x off ss :
  8 + len a < 4294967296 -> 8 + len b < 4294967296 -> 8 + len c < 4294967296 ->
  8 + len d < 4294967296 -> 8 + len e < 4294967296 ->
  8 + len (traf_payload b c d) < 4294967296 ->
  8 + len (moof_payload a b c d) < 4294967296 ->
  rd32s 2 a = Some ([0; s], []) ->
  rd32s 2 b = Some ([131072; 1], []) ->
  rd32 c = Some (16777216, r) ->
  rd64 r = Some (x, []) ->
  decode_trun d = Some (off, ss) ->
  segment_read (build_box T_moof (moof_payload a b c d) ++ build_box T_mdat e) =
  if (off <? 0)%Z then None
  else if negb (Z.to_N off =? 8 + len (moof_payload a b c d) + 8) then None
  else if negb (sumN (map ts_size ss) =? len e) then None
  else match slices (drop (Z.to_N off)
                       (build_box T_moof (moof_payload a b c d) ++ build_box T_mdat e)) ss with
       | Some res => Some {| sv_seq := s; sv_tfdt := x; sv_samples := res |}
       | None => None
       end.
Proof.
  intros Ha Hb Hc Hd He Ht Hm Ra Rb Rc Rr Rd.
  set (seg := build_box T_moof (moof_payload a b c d) ++ build_box T_mdat e).
  assert (Hpf : parse_file seg = Some [moof_tree a b c d; Box T_mdat e []]).
  { rewrite <- (parse_file_segment a b c d e) by assumption.
    unfold seg. cbn [cat_boxes]. rewrite app_nil_r. reflexivity. }
  unfold segment_read. rewrite Hpf. unfold moof_tree. cbv beta iota.
  change (bytes_eqb T_moof T_MOOF) with true.
  change (bytes_eqb T_mdat T_MDAT') with true.
  cbn [andb negb].
  change (Box T_moof (moof_payload a b c d)
            [Box T_mfhd a [];
             Box T_traf (traf_payload b c d) [Box T_tfhd b []; Box T_tfdt c []; Box T_trun d []]])
    with (moof_tree a b c d).
  rewrite (read_fragment_built a b c d s 131072 1 r x off ss Ra Rb Rc Rr Rd).
  cbn [fr_tfhd_flags fr_track_id fr_data_offset fr_samples fr_seq fr_base_decode_time].
  change (131072 =? 131072) with true. change (1 =? 1) with true.
  cbn [andb negb]. reflexivity.
Qed.

(** * the model's segment in box form *)
Definition seg_off (l : list frag_sample) : N := 96 + 16 * len l.

Lemma len_moof l seq base off :
  len (build_moof_with_offset l seq base off) = 88 + 16 * len l.
Proof.
  unfold build_moof_with_offset, build_traf, build_trun, build_tfdt, build_tfhd, build_mfhd, be64.
  rewrite !len_build_box, !len_app, !len_build_box, !len_app, !len_build_box, !len_app,
    !len_be32, len_trun_entries.
  change (len T_moof) with 4. change (len T_mfhd) with 4. change (len T_traf) with 4.
  change (len T_tfhd) with 4. change (len T_tfdt) with 4. change (len T_trun) with 4.
  lia.
Qed.

Definition P_mfhd (seq : N) := be32 0 ++ be32 seq.
Definition P_tfhd := be32 131072 ++ be32 1.
Definition P_tfdt (base : N) := be32 16777216 ++ be64 base.
Definition P_trun (l : list frag_sample) (off : N) :=
  be32 TRUN_FLAGS ++ be32 (len l) ++ be32 off ++ trun_entries None l.

Lemma media_segment_boxes l seq base :
  16 * len l + 88 < 4294967296 ->
  build_media_segment l seq base =
  build_box T_moof (moof_payload (P_mfhd seq) P_tfhd (P_tfdt base) (P_trun l (seg_off l))) ++
  build_box T_mdat (concat (map fs_data l)).
Proof.
  intros H. unfold build_media_segment. cbv zeta. rewrite len_moof.
  replace (u32 (88 + 16 * len l) + 8) with (seg_off l) by (unfold u32, seg_off; lia).
  unfold build_moof_with_offset, build_traf, build_trun, build_tfdt, build_tfhd, build_mfhd.
  unfold moof_payload, traf_payload. cbn [cat_boxes]. rewrite !app_nil_r.
  fold (P_mfhd seq). fold P_tfhd. fold (P_tfdt base). fold (P_trun l (seg_off l)).
  f_equal. unfold build_box. rewrite len_concat_data. reflexivity.
Qed.

Lemma len_P_trun l off : len (P_trun l off) = 12 + 16 * len l.
Proof. unfold P_trun. rewrite !len_app, !len_be32, len_trun_entries. lia. Qed.

Lemma len_traf_payload l base off :
  len (traf_payload P_tfhd (P_tfdt base) (P_trun l off)) = 56 + 16 * len l.
Proof.
  unfold traf_payload. cbn [cat_boxes]. rewrite !len_app, !len_build_box, len_P_trun.
  unfold P_tfhd, P_tfdt, be64. rewrite !len_app, !len_be32.
  change (len T_tfhd) with 4. change (len T_tfdt) with 4. change (len T_trun) with 4.
  rewrite !len_nil. lia.
Qed.

Lemma len_moof_payload l seq base off :
  len (moof_payload (P_mfhd seq) P_tfhd (P_tfdt base) (P_trun l off)) = 80 + 16 * len l.
Proof.
  unfold moof_payload. cbn [cat_boxes]. rewrite !len_app, !len_build_box.
  rewrite (len_traf_payload l base off).
  unfold P_mfhd. rewrite !len_app, !len_be32.
  change (len T_mfhd) with 4. change (len T_traf) with 4.
  rewrite !len_nil. lia.
Qed.

Lemma sumN_bound_each (l : list frag_sample) B :
  sumN (map (fun s => len (fs_data s)) l) < B ->
  Forall (fun s => len (fs_data s) < B) l.
Proof.
  induction l as [|s t IH]; intros H; [constructor|].
  cbn [map sumN] in H. constructor; [lia|apply IH; lia].
Qed.

(* what the independent reader returns on any segment the model builds, as a
   function of the data offset only *)
Lemma segment_read_media l seq base :
  seg_fits l -> seq < 4294967296 -> base < 18446744073709551616 ->
  segment_read (build_media_segment l seq base) =
  if seg_off l <? 2147483648
  then Some {| sv_seq := seq; sv_tfdt := base; sv_samples := spec_seg_samples l |}
  else None.
Proof.
  intros (Hsum & Hlen & Hdur & Hcts & _) Hseq Hbase.
  assert (Hsz : Forall (fun s => len (fs_data s) < 4294967296) l)
    by (apply sumN_bound_each; lia).
  assert (Hoff : seg_off l < 4294967296) by (unfold seg_off; lia).
  rewrite media_segment_boxes by lia.
  rewrite (segment_read_built (P_mfhd seq) P_tfhd (P_tfdt base) (P_trun l (seg_off l))
             (concat (map fs_data l)) seq (be64 base) base
             (i32_of_bits (seg_off l)) (tview None l)).
  - rewrite (len_moof_payload l seq base), len_concat_data, sumN_tview.
    replace (sumN (map (fun s => len (fs_data s)) l) =? sumN (map (fun s => len (fs_data s)) l))
      with true by lia.
    cbn [negb].
    unfold i32_of_bits. destruct (seg_off l <? 2147483648) eqn:E.
    + replace (Z.of_N (seg_off l) <? 0)%Z with false by lia.
      rewrite N2Z.id.
      replace (seg_off l =? 8 + (80 + 16 * len l) + 8) with true by (unfold seg_off; lia).
      cbn [negb].
      replace (seg_off l) with (8 + len (moof_payload (P_mfhd seq) P_tfhd (P_tfdt base)
                                           (P_trun l (seg_off l))) + 8) at 1
        by (rewrite (len_moof_payload l seq base); unfold seg_off; lia).
      rewrite drop_to_mdat, slices_tview. reflexivity.
    + replace (Z.of_N (seg_off l) - I32MOD <? 0)%Z with true by (unfold I32MOD; lia).
      reflexivity.
  - reflexivity.
  - reflexivity.
  - unfold P_tfdt, be64. rewrite !len_app, !len_be32. lia.
  - rewrite len_P_trun. unfold seg_off in Hoff. lia.
  - rewrite len_concat_data. lia.
  - rewrite (len_traf_payload l base). lia.
  - rewrite (len_moof_payload l seq base). lia.
  - unfold P_mfhd. rewrite <- (app_nil_r (be32 seq)). apply rd32s_2; lia.
  - reflexivity.
  - unfold P_tfdt. apply rd32_be32. lia.
  - rewrite <- (app_nil_r (be64 base)). apply rd64_be64. exact Hbase.
  - apply decode_trun_built; try assumption. lia.
Qed.

Theorem segment_roundtrip : forall (l : list frag_sample) (seq base : N),
  l <> [] -> seg_fits l -> 96 + 16 * len l < 2147483648 ->
  seq < 4294967296 -> base < 18446744073709551616 ->
  segment_read (build_media_segment l seq base) =
    Some {| sv_seq := seq; sv_tfdt := base; sv_samples := spec_seg_samples l |}.
Proof.
  intros l seq base _ Hfit Hoff Hseq Hbase.
  rewrite segment_read_media by assumption.
  replace (seg_off l <? 2147483648) with true by (unfold seg_off; lia). reflexivity.
Qed.
Print Assumptions segment_roundtrip.

Theorem segment_roundtrip_fails_beyond_i32 : forall (l : list frag_sample) (seq base : N),
  seg_fits l -> 2147483648 <= 96 + 16 * len l ->
  seq < 4294967296 -> base < 18446744073709551616 ->
  segment_read (build_media_segment l seq base) = None.
Proof.
  intros l seq base Hfit Hoff Hseq Hbase.
  rewrite segment_read_media by assumption.
  replace (seg_off l <? 2147483648) with false by (unfold seg_off; lia). reflexivity.
Qed.
Print Assumptions segment_roundtrip_fails_beyond_i32.

(** [seg_fits] alone does not imply the round trip: a witness list *)
Definition s_empty : frag_sample := {| fs_pts := 0; fs_dts := 0; fs_data := []; fs_sync := true |}.

Lemma repeat_durations n : forall prev,
  Forall (fun d => d < 4294967296) (spec_durations prev (repeat s_empty n)).
Proof.
  induction n as [|n IH]; intros prev; [constructor|].
  cbn [repeat spec_durations]. constructor; [|apply IH].
  destruct n as [|n']; [destruct prev as [p|]|]; cbn [repeat fs_dts s_empty]; lia.
Qed.

Lemma repeat_sum n : sumN (map (fun s => len (fs_data s)) (repeat s_empty n)) = 0.
Proof. induction n as [|n IH]; [reflexivity|]. cbn [repeat map sumN]. rewrite IH. reflexivity. Qed.

Lemma len_repeat {A} (x : A) n : len (repeat x n) = N.of_nat n.
Proof. unfold len. rewrite repeat_length. reflexivity. Qed.

Theorem seg_fits_too_weak :
  exists l : list frag_sample,
    l <> [] /\ seg_fits l /\ segment_read (build_media_segment l 1 0) = None.
Proof.
  remember (N.to_nat 134217722) as n eqn:En.
  assert (Hn : N.of_nat n = 134217722) by lia. clear En.
  exists (repeat s_empty n).
  assert (Hfit : seg_fits (repeat s_empty n)).
  { unfold seg_fits. rewrite repeat_sum, len_repeat, Hn.
    split; [lia|]. split; [lia|]. split; [apply repeat_durations|].
    split; apply Forall_forall; intros s Hs; apply repeat_spec in Hs; subst s;
      cbn [s_empty fs_pts fs_dts]; lia. }
  split; [|split; [exact Hfit|]].
  - destruct n; [lia|discriminate].
  - apply segment_roundtrip_fails_beyond_i32; [exact Hfit| |lia|lia].
    rewrite len_repeat, Hn. lia.
Qed.
Print Assumptions seg_fits_too_weak.

(* the statement without the offset bound is refutable *)
Theorem segment_roundtrip_needs_offset_bound :
  ~ (forall (l : list frag_sample) (seq base : N),
       l <> [] -> seg_fits l -> seq < 4294967296 -> base < 18446744073709551616 ->
       segment_read (build_media_segment l seq base) =
         Some {| sv_seq := seq; sv_tfdt := base; sv_samples := spec_seg_samples l |}).
Proof.
  intros H. destruct seg_fits_too_weak as (l & Hne & Hfit & Hnone).
  rewrite (H l 1 0 Hne Hfit) in Hnone by lia. discriminate.
Qed.
Print Assumptions segment_roundtrip_needs_offset_bound.
