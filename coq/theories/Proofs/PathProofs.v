(** C17, equivalent API paths over whole call histories.

    [explicit_of m ops] ([Spec/Paths.v]) rewrites every automatic-timestamp convenience call
    (encode_video / encode_audio) of a history as the explicit-timestamp call (write_video /
    write_audio) carrying the clock value, as an f64 bit pattern, and the keyframe flag the
    convenience call would have used.  This file proves that the rewritten history returns the
    same results and leaves the same writer (hence the same file bytes) as the original.

    Ingredients: (1) the two automatic clocks of every reachable muxer are binary64 values that
    survive the [encode64]/[decode64] round trip ([rt]: canonical in the sense of
    [ContractProofs.F64Facts.canon] plus exponent <= 971); (2) no explicit call reads or writes
    the clocks; (3) induction over the history with the two muxers related by "equal except the
    clocks" ([same_but_clocks]).  Also: the builder aliases over whole builder scripts. *)
From Coq Require Import Floats.SpecFloat ZArith NArith List Lia ZifyN ZifyNat ZifyBool Bool.
From Muxide Require Import Model.Base Model.F64 Model.Writer Model.Api Spec.Paths Proofs.ContractProofs.
Import ListNotations.
Ltac Zify.zify_post_hook ::= Z.div_mod_to_equations.

(** * Part 1: binary64 round trip *)
Section RoundTrip.
Local Open Scope Z_scope.

Definition bounded (x : f64) : Prop :=
  match x with S754_finite _ _ e => e <= 971 | _ => True end.

Definition rt (x : f64) : Prop := canon x /\ bounded x.

Lemma testbit63 b : Z.testbit b 63 = Z.odd (b / 9223372036854775808).
Proof.
  rewrite Z.testbit_odd, Z.shiftr_div_pow2 by lia. reflexivity.
Qed.

Lemma decode_encode : forall x, rt x -> decode64 (encode64 x) = x.
Proof.
  intros x [C B]. destruct x as [s|s| |s m e].
  - destruct s; vm_compute; reflexivity.
  - destruct s; vm_compute; reflexivity.
  - vm_compute; reflexivity.
  - cbn [canon bounded] in C, B.
    change (2 ^ 53) with 9007199254740992 in C. change (2 ^ 52) with 4503599627370496 in C.
    unfold decode64, encode64. cbv zeta.
    set (sb := if s then 9223372036854775808 else 0).
    assert (Hsb : sb = 0 /\ s = false \/ sb = 9223372036854775808 /\ s = true)
      by (subst sb; destruct s; auto).
    destruct (Z.ltb_spec (Z.pos m) 4503599627370496) as [Hlt|Hge].
    + set (z := sb + Z.pos m).
      assert (Hz : Z.of_N (Z.to_N z mod 18446744073709551616)%N = z) by lia.
      rewrite Hz. rewrite testbit63.
      assert (E1 : (z / 4503599627370496) mod 2048 = 0) by lia.
      assert (E2 : z mod 4503599627370496 = Z.pos m) by lia.
      assert (E3 : Z.odd (z / 9223372036854775808) = s).
      { destruct Hsb as [[H1 H2]|[H1 H2]]; rewrite H2.
        - replace (z / 9223372036854775808) with 0 by lia. reflexivity.
        - replace (z / 9223372036854775808) with 1 by lia. reflexivity. }
      rewrite E1, E2, E3. cbn [Z.eqb]. cbn [Z.to_pos]. f_equal. lia.
    + set (z := sb + (e + 1075) * 4503599627370496 + (Z.pos m - 4503599627370496)).
      assert (Hz : Z.of_N (Z.to_N z mod 18446744073709551616)%N = z) by lia.
      rewrite Hz. rewrite testbit63.
      assert (E1 : (z / 4503599627370496) mod 2048 = e + 1075) by lia.
      assert (E2 : z mod 4503599627370496 = Z.pos m - 4503599627370496) by lia.
      assert (E3 : Z.odd (z / 9223372036854775808) = s).
      { destruct Hsb as [[H1 H2]|[H1 H2]]; rewrite H2.
        - replace (z / 9223372036854775808) with 0 by lia. reflexivity.
        - replace (z / 9223372036854775808) with 1 by lia. reflexivity. }
      rewrite E1, E2, E3.
      destruct (Z.eqb_spec (e + 1075) 0); [lia|].
      destruct (Z.eqb_spec (e + 1075) 2047); [lia|].
      f_equal; [|lia].
      replace (Z.pos m - 4503599627370496 + 4503599627370496) with (Z.pos m) by lia. reflexivity.
Qed.

Lemma bra_bounded s m e l : bounded (binary_round_aux 53 1024 s m e l).
Proof.
  unfold binary_round_aux.
  destruct (shr_fexp 53 1024 m e l) as [mrs' e'].
  destruct (shr_fexp 53 1024 _ e' loc_Exact) as [mrs'' e''].
  destruct (shr_m mrs''); try exact I.
  destruct (Z.leb_spec e'' (1024 - 53)); [cbn [bounded]; lia | exact I].
Qed.

Lemma binary_normalize_bounded m e sz : bounded (binary_normalize 53 1024 m e sz).
Proof.
  destruct m; cbn [binary_normalize]; [exact I| |]; unfold binary_round;
    destruct (shl_align _ _ _); apply bra_bounded.
Qed.

Lemma bounded_of_N n : bounded (of_N n).
Proof. apply binary_normalize_bounded. Qed.

Lemma bounded_fadd x y : bounded x -> bounded y -> bounded (fadd x y).
Proof.
  intros Bx By. unfold fadd, SFadd. change prec with 53. change emax with 1024.
  destruct x as [sx|sx| |sx mx ex]; destruct y as [sy|sy| |sy my ey];
    try exact I; try assumption.
  - destruct (Bool.eqb sx sy); exact I.
  - destruct (Bool.eqb sx sy); exact I.
  - apply binary_normalize_bounded.
Qed.

Lemma bounded_fdiv x y : bounded (fdiv x y).
Proof.
  unfold fdiv, SFdiv. change prec with 53. change emax with 1024.
  destruct x as [sx|sx| |sx mx ex]; destruct y as [sy|sy| |sy my ey]; try exact I.
  destruct (SFdiv_core_binary _ _ _ _ _ _) as [[q e'] l]. apply bra_bounded.
Qed.

End RoundTrip.

(** * Part 2: explicit calls neither read nor write the clocks *)
Open Scope N_scope.

Definition same_but_clocks (m1 m2 : muxer) : Prop := set_cur m1 f_zero f_zero = set_cur m2 f_zero f_zero.

Lemma same_set_cur m v a : same_but_clocks m (set_cur m v a).
Proof. reflexivity. Qed.

Lemma same_eq m1 m2 : same_but_clocks m1 m2 -> m2 = set_cur m1 (m_cur_vpts m2) (m_cur_apts m2).
Proof.
  destruct m1 as [x1 x2 x3 x4 x5 x6 x7 x8 x9 x10 x11 x12 x13 x14 x15],
           m2 as [y1 y2 y3 y4 y5 y6 y7 y8 y9 y10 y11 y12 y13 y14 y15].
  unfold same_but_clocks, set_cur.
  cbn [m_writer m_codec m_video m_audio m_meta m_fast m_first_vpts m_last_vpts m_last_vdts
       m_last_apts m_vcount m_acount m_finished m_cur_vpts m_cur_apts].
  intros H. injection H as -> -> -> -> -> -> -> -> -> -> -> -> ->. reflexivity.
Qed.

Ltac prj := cbn [set_cur set_video_ok m_writer m_codec m_video m_audio m_meta m_fast m_first_vpts m_last_vpts m_last_vdts
       m_last_apts m_vcount m_acount m_finished m_cur_vpts m_cur_apts fst snd].

Ltac crunch := repeat first [ reflexivity
  | match goal with |- context [match ?x with _ => _ end] => destruct x eqn:? end; prj ].

Lemma write_video_clocks m v a p d k :
  write_video (set_cur m v a) p d k =
  (set_cur (fst (write_video m p d k)) v a, snd (write_video m p d k)).
Proof. unfold write_video. prj. crunch. Qed.

Lemma write_video_with_dts_clocks m v a p t d k :
  write_video_with_dts (set_cur m v a) p t d k =
  (set_cur (fst (write_video_with_dts m p t d k)) v a, snd (write_video_with_dts m p t d k)).
Proof. unfold write_video_with_dts. prj. crunch. Qed.

Lemma write_audio_clocks m v a p d :
  write_audio (set_cur m v a) p d =
  (set_cur (fst (write_audio m p d)) v a, snd (write_audio m p d)).
Proof. unfold write_audio. prj. crunch. Qed.

Lemma finish_clocks m v a :
  finish_in_place_with_stats (set_cur m v a) =
  (set_cur (fst (finish_in_place_with_stats m)) v a, snd (finish_in_place_with_stats m)).
Proof. unfold finish_in_place_with_stats. prj. crunch. Qed.

(** * Part 3: the clock invariant and the simulation *)
Lemma rt_zero : rt f_zero.
Proof. split; exact I. Qed.

Lemma rt_clock_step x a b : rt x -> rt (fadd x (fdiv (of_N a) (of_N b))).
Proof.
  intros [C B]. split.
  - apply F64Facts.canon_fadd; [assumption|]. apply F64Facts.canon_fdiv; apply F64Facts.canon_of_N.
  - apply bounded_fadd; [assumption|]. apply bounded_fdiv.
Qed.

Definition rtc (m : muxer) : Prop := rt (m_cur_vpts m) /\ rt (m_cur_apts m).

Lemma write_video_keeps_clocks m p d k :
  m_cur_vpts (fst (write_video m p d k)) = m_cur_vpts m /\
  m_cur_apts (fst (write_video m p d k)) = m_cur_apts m.
Proof. unfold write_video. crunch; split; reflexivity. Qed.

Lemma write_video_with_dts_keeps_clocks m p t d k :
  m_cur_vpts (fst (write_video_with_dts m p t d k)) = m_cur_vpts m /\
  m_cur_apts (fst (write_video_with_dts m p t d k)) = m_cur_apts m.
Proof. unfold write_video_with_dts. crunch; split; reflexivity. Qed.

Lemma write_audio_keeps_clocks m p d :
  m_cur_vpts (fst (write_audio m p d)) = m_cur_vpts m /\
  m_cur_apts (fst (write_audio m p d)) = m_cur_apts m.
Proof. unfold write_audio. crunch; split; reflexivity. Qed.

Lemma finish_keeps_clocks m :
  m_cur_vpts (fst (finish_in_place_with_stats m)) = m_cur_vpts m /\
  m_cur_apts (fst (finish_in_place_with_stats m)) = m_cur_apts m.
Proof. unfold finish_in_place_with_stats. crunch; split; reflexivity. Qed.

Lemma fst_lift r : fst (lift r) = fst r.
Proof. destruct r as [m [e|]]; reflexivity. Qed.

Lemma rtc_eq m m' : m_cur_vpts m' = m_cur_vpts m /\ m_cur_apts m' = m_cur_apts m -> rtc m -> rtc m'.
Proof. intros [E1 E2] [R1 R2]. unfold rtc. rewrite E1, E2. split; assumption. Qed.

Lemma step_rtc m o : rtc m -> rtc (fst (step m o)).
Proof.
  intros R. destruct o as [p d k|p t d k|p d|d ms|d s|]; cbn [step]; rewrite ?fst_lift.
  - exact (rtc_eq _ _ (write_video_keeps_clocks m _ d k) R).
  - exact (rtc_eq _ _ (write_video_with_dts_keeps_clocks m _ _ d k) R).
  - exact (rtc_eq _ _ (write_audio_keeps_clocks m _ d) R).
  - unfold encode_video.
    pose proof (write_video_keeps_clocks m (m_cur_vpts m) d (api_is_keyframe m d)) as K.
    destruct (write_video m (m_cur_vpts m) d (api_is_keyframe m d)) as [m' [e|]]; cbn [fst] in *.
    + exact (rtc_eq _ _ K R).
    + destruct K as [K1 K2], R as [R1 R2]. split; prj; rewrite ?K1, ?K2; [apply rt_clock_step|]; assumption.
  - unfold encode_audio. destruct (m_audio m) as [au|]; [|exact R].
    pose proof (write_audio_keeps_clocks m (m_cur_apts m) d) as K.
    destruct (write_audio m (m_cur_apts m) d) as [m' [e|]]; cbn [fst] in *.
    + exact (rtc_eq _ _ K R).
    + destruct K as [K1 K2], R as [R1 R2]. split; prj; rewrite ?K1, ?K2; [|apply rt_clock_step]; assumption.
  - pose proof (finish_keeps_clocks m) as K.
    destruct (finish_in_place_with_stats m) as [m' [s|e|p]]; cbn [fst] in *; exact (rtc_eq _ _ K R).
Qed.

Lemma lift_pair m r : lift (m, r) = (m, snd (lift (m, r))).
Proof. destruct r; reflexivity. Qed.

Lemma snd_lift_set_cur m r v a : snd (lift (set_cur m v a, r)) = snd (lift (m, r)).
Proof. destruct r; reflexivity. Qed.

(* one step: the explicit call on a muxer that differs only in its clocks *)
Lemma step_explicit m1 m2 o : same_but_clocks m1 m2 -> rtc m1 ->
  snd (step m2 (explicit_op m1 o)) = snd (step m1 o) /\
  same_but_clocks (fst (step m1 o)) (fst (step m2 (explicit_op m1 o))).
Proof.
  intros S [R1 R2]. rewrite (same_eq _ _ S).
  generalize (m_cur_vpts m2) (m_cur_apts m2). intros v a. clear S m2.
  destruct o as [p d k|p t d k|p d|d ms|d s|]; cbn [explicit_op step].
  - rewrite write_video_clocks. destruct (write_video m1 (decode64 p) d k) as [m' [e|]]; split; reflexivity.
  - rewrite write_video_with_dts_clocks.
    destruct (write_video_with_dts m1 (decode64 p) (decode64 t) d k) as [m' [e|]]; split; reflexivity.
  - rewrite write_audio_clocks. destruct (write_audio m1 (decode64 p) d) as [m' [e|]]; split; reflexivity.
  - cbn [step]. rewrite (decode_encode _ R1), write_video_clocks. unfold encode_video.
    destruct (write_video m1 (m_cur_vpts m1) d (api_is_keyframe m1 d)) as [m' [e|]]; split; reflexivity.
  - unfold encode_audio. prj.
    destruct (m_audio m1) as [au|] eqn:A; cbn [step].
    + rewrite (decode_encode _ R2), write_audio_clocks.
      destruct (write_audio m1 (m_cur_apts m1) d) as [m' [e|]]; split; reflexivity.
    + unfold encode_audio. prj. rewrite A. split; reflexivity.
  - rewrite finish_clocks.
    destruct (finish_in_place_with_stats m1) as [m' [s|e|p]]; split; reflexivity.
Qed.

Lemma run_explicit : forall ops m1 m2, same_but_clocks m1 m2 -> rtc m1 ->
  snd (run m2 (explicit_of m1 ops)) = snd (run m1 ops) /\
  same_but_clocks (fst (run m1 ops)) (fst (run m2 (explicit_of m1 ops))).
Proof.
  induction ops as [|o t IH]; intros m1 m2 S R; cbn [explicit_of run].
  - split; [reflexivity|exact S].
  - destruct (step_explicit m1 m2 o S R) as [E1 E2].
    pose proof (step_rtc m1 o R) as R'.
    destruct (step m1 o) as [m1' r1] eqn:S1.
    cbn [fst snd] in *.
    assert (Hrun : forall l, run m2 (explicit_op m1 o :: l) =
       match r1 with RPanic p => (fst (step m2 (explicit_op m1 o)), [RPanic p])
       | r => let '(m'', rs) := run (fst (step m2 (explicit_op m1 o))) l in (m'', r :: rs) end).
    { intros l. cbn [run]. destruct (step m2 (explicit_op m1 o)) as [m2' r2]. cbn [fst snd] in *. subst r2.
      destruct r1; reflexivity. }
    destruct r1 as [|s|e|p]; rewrite Hrun;
      try (specialize (IH m1' _ E2 R'); destruct (run m1' t) as [ma ra];
           destruct (run _ (explicit_of m1' t)) as [mb rb]; cbn [fst snd] in *;
           destruct IH as [I1 I2]; split; [f_equal; exact I1 | exact I2]).
    split; [reflexivity|exact E2].
Qed.

(** * Part 4: the theorems *)

(* P1: the whole-history statement *)
Theorem explicit_path_equivalent : forall b script m0 ops,
  build b script = inl m0 ->
  snd (run m0 (explicit_of m0 ops)) = snd (run m0 ops) /\
  m_writer (fst (run m0 (explicit_of m0 ops))) = m_writer (fst (run m0 ops)).
Proof.
  intros b script m0 ops B.
  assert (R : rtc m0).
  { unfold build in B. destruct (b_video b) as [[[c w] h]|]; [|discriminate].
    injection B as <-. split; exact rt_zero. }
  destruct (run_explicit ops m0 m0 eq_refl R) as [E S].
  split; [exact E|]. apply (f_equal m_writer) in S. symmetry. exact S.
Qed.
Print Assumptions explicit_path_equivalent.

Theorem explicit_path_same_file : forall b script m0 ops,
  build b script = inl m0 -> sink_of (fst (run m0 (explicit_of m0 ops))) = sink_of (fst (run m0 ops)).
Proof.
  intros b script m0 ops B. unfold sink_of.
  destruct (explicit_path_equivalent b script m0 ops B) as [_ E]. rewrite E. reflexivity.
Qed.
Print Assumptions explicit_path_same_file.

(* the same from any state whose clocks round-trip (e.g. any state reached by a history) *)
Theorem explicit_path_equivalent_from : forall m ops, rtc m ->
  snd (run m (explicit_of m ops)) = snd (run m ops) /\
  same_but_clocks (fst (run m ops)) (fst (run m (explicit_of m ops))).
Proof. intros m ops R. exact (run_explicit ops m m eq_refl R). Qed.
Print Assumptions explicit_path_equivalent_from.

(* the clock invariant holds of every reachable muxer *)
Theorem reachable_clocks_round_trip : forall b script m0 ops,
  build b script = inl m0 ->
  decode64 (encode64 (m_cur_vpts (fst (run m0 ops)))) = m_cur_vpts (fst (run m0 ops)) /\
  decode64 (encode64 (m_cur_apts (fst (run m0 ops)))) = m_cur_apts (fst (run m0 ops)).
Proof.
  intros b script m0 ops B.
  assert (R : rtc m0).
  { unfold build in B. destruct (b_video b) as [[[c w] h]|]; [|discriminate].
    injection B as <-. split; exact rt_zero. }
  clear B. revert m0 R. induction ops as [|o t IH]; intros m0 R; cbn [run].
  - cbn [fst]. destruct R as [R1 R2]. split; apply decode_encode; assumption.
  - pose proof (step_rtc m0 o R) as R'. destruct (step m0 o) as [m' r]. cbn [fst] in R'.
    destruct r as [|s|e|p]; try (specialize (IH m' R'); destruct (run m' t) as [ma ra]; exact IH).
    cbn [fst]. destruct R' as [R1 R2]. split; apply decode_encode; assumption.
Qed.
Print Assumptions reachable_clocks_round_trip.

(** * Part 5: builder aliases over whole builder scripts (P3) *)
Definition alias_bop (o : bop) : bop :=
  match o with BSetVideoTrack c w h => BVideo c w h | BSetAudioTrack c r ch => BAudio c r ch | o => o end.

Lemma alias_bstep b o : bstep b (alias_bop o) = bstep b o.
Proof. destruct o; reflexivity. Qed.

Theorem alias_script_same_builder : forall l, run_builder (map alias_bop l) = run_builder l.
Proof.
  intros l. unfold run_builder. generalize builder_new.
  induction l as [|o t IH]; intros b; cbn [map fold_left]; [reflexivity|].
  rewrite alias_bstep. apply IH.
Qed.
Print Assumptions alias_script_same_builder.
